import CoupeModel.Model.Par
import CoupeModel.Driver.Util

/-!
# Driver for C06

* `part …` / `dual …`: the model's claim is "the same for every pool size and
  run"; the op line carries the digest of the outcome under one thread and the
  driver echoes `same <digest>`.  The implementation prints `differs …` when any
  pool size or repetition deviates.  Stream `t` (Rcb only): rounded-distance ties across block
  seams (defect N11, fixed by /repo f4e2819) – the claim is the same, now backed without exact
  distances by `Props/C06b.lean: rcb_bb_schedule_free_rounded`.
* `frame …`: the frame (matrix and rotated points) of a large near-isotropic cloud is a function
  of the input only; the op line carries the digest under one thread, the driver echoes it.
* `parsum`, `bbox`, `rcbsplit`, `mjsplit`: the skeletons of `Model/Par.lean` are
  evaluated along several split trees (sequential, balanced, left comb, right
  comb, pseudo-random); they must agree among themselves (else
  `model-trees-differ`) and with what the real rayon code computed.
-/

namespace Coupe.Driver.C06
open Coupe.Par Coupe.Driver

/-! ## The harness PRNG (`harness/src/common.rs: Rng`, xorshift64*) -/

def rngStep (s : UInt64) : UInt64 × UInt64 :=
  let x := s ^^^ (s >>> 12)
  let x := x ^^^ (x <<< 25)
  let x := x ^^^ (x >>> 27)
  (x, x * 0x2545F4914F6CDD1D)

def rngNew (seed : UInt64) : UInt64 :=
  let s := (seed * 0x9E3779B97F4A7C15) ^^^ 0xD1B54A32D192ED03
  let s := if s == 0 then 0x2545F4914F6CDD1D else s
  (List.range 8).foldl (fun s _ => (rngStep s).1) s

/-- `(0..n).map(|_| rng.range(lo, hi))` from `Rng::new(seed)`. -/
def genInts (seed : UInt64) (n : Nat) (lo hi : Int) : List Int :=
  let span : Nat := (hi - lo + 1).toNat
  let (_, acc) := (List.range n).foldl (fun (st : UInt64 × Array Int) _ =>
    let (s, v) := rngStep st.1
    (s, st.2.push (lo + Int.ofNat (v.toNat % span)))) (rngNew seed, Array.mkEmpty n)
  acc.toList

/-! ## Split trees -/

def balanced (leaf : Nat) : Nat → Nat → SplitTree
  | 0, _ => .leaf
  | fuel + 1, n => if n ≤ leaf then .leaf else
      .node (n / 2) (balanced leaf fuel (n / 2)) (balanced leaf fuel (n - n / 2))

/-- Left-deep: the right-most `step` items are cut off first. -/
def combL (step : Nat) : Nat → Nat → SplitTree
  | 0, _ => .leaf
  | fuel + 1, n => if n ≤ step then .leaf else .node (n - step) (combL step fuel (n - step)) .leaf

/-- Right-deep. -/
def combR (step : Nat) : Nat → Nat → SplitTree
  | 0, _ => .leaf
  | fuel + 1, n => if n ≤ step then .leaf else .node step .leaf (combR step fuel (n - step))

/-- Pseudo-random cuts (uneven, like stolen work). -/
def randomTree (leaf : Nat) : Nat → UInt64 → Nat → SplitTree
  | 0, _, _ => .leaf
  | fuel + 1, s, n => if n ≤ leaf then .leaf else
      let (s1, v) := rngStep s
      let k := 1 + v.toNat % (n - 1)
      let (s2, _) := rngStep (s1 ^^^ 0x9E3779B97F4A7C15)
      .node k (randomTree leaf fuel s1 k) (randomTree leaf fuel s2 (n - k))

/-- The trees an op is evaluated on.  `small`: leaves of at most this many items
for large inputs (bounds the cost of list indexing in the model). -/
def trees (n : Nat) (seed : UInt64) (withSeq : Bool) (small : Nat) : List SplitTree :=
  let step := max 1 (n / 40)
  (if withSeq then [SplitTree.leaf] else []) ++
  [balanced (max 1 (min small (n / 7 + 1))) 64 n,
   combL (max 1 (min small step)) 4000 n,
   combR (max 1 (min small step)) 4000 n,
   randomTree (max 1 (min small 3)) 40 (rngNew (seed + 17)) n,
   -- degenerate cuts: an empty half and a cut beyond the end
   .node 0 .leaf (.node (n + 5) (balanced (max 1 (min small 16)) 64 n) .leaf)]

def allEq {α} [BEq α] : List α → Bool
  | [] => true
  | x :: xs => xs.all (· == x)

def parseData : List String → Option (UInt64 × List Int)
  | ["gen", seed, n, lo, hi] => do
    let seed ← parseNat? seed
    let n ← parseNat? n
    let lo ← parseInt? lo
    let hi ← parseInt? hi
    if n > 1000000 ∨ lo > hi then none else
    some (UInt64.ofNat seed, genInts (UInt64.ofNat seed) n lo hi)
  | "lit" :: n :: rest => do
    let n ← parseNat? n
    let (xs, rest) ← takeParsed parseInt? n rest
    if rest.isEmpty then some (UInt64.ofNat n, xs) else none
  | _ => none

def i64Max : Int := 9223372036854775807
def i64Min : Int := -9223372036854775808

def handleParsum (rest : List String) : String :=
  match parseData rest with
  | none => "bad-op"
  | some (seed, xs) =>
    let ts := trees xs.length seed true 1000000
    let lines := ts.map (fun t =>
      let s := parSum t xs
      let q := parMapSum (fun x => x * x) t xs
      let neg := parCount (fun x => decide (x < 0)) t xs
      let mm := parBBox i64Max i64Min t xs
      let coll := parMapCollect (· + 1) t xs == xs.map (· + 1)
      "sum " ++ toString s ++ " sq " ++ toString q ++ " neg " ++ toString neg ++
        (match mm with
         | some (a, b) => " min " ++ toString a ++ " max " ++ toString b
         | none => " min - max -") ++
        " collect " ++ (if coll then "ok" else "REORDERED"))
    if allEq lines then lines.headD "bad-op" else "model-trees-differ"

def column (dim k : Nat) (flat : List Int) : List Int :=
  (flat.zipIdx.filter (fun x => x.2 % dim == k)).map (·.1)

def handleBbox (rest : List String) : String :=
  match rest with
  | [dim, seed, n, lo, hi] =>
    match (do
      let dim ← parseNat? dim
      let seed ← parseNat? seed
      let n ← parseNat? n
      let lo ← parseInt? lo
      let hi ← parseInt? hi
      if (dim == 2 ∨ dim == 3) ∧ n * dim ≤ 1000000 ∧ lo ≤ hi then some (dim, seed, n, lo, hi) else none) with
    | none => "bad-op"
    | some (dim, seed, n, lo, hi) =>
      -- `if points.len() == 0 { return None }`
      if n == 0 then "bbox none" else
      let flat := genInts (UInt64.ofNat seed) (n * dim) lo hi
      let big : Int := 2 ^ 1025  -- stands for f64::MAX / f64::MIN
      let ts := trees n (UInt64.ofNat seed) true 1000000
      let lines := ts.map (fun t =>
        let cols := (List.range dim).map (fun k => parBBox big (-big) t (column dim k flat))
        if cols.any (·.isNone) then "bbox none" else
        "bbox " ++ joinInts (cols.map (fun c => (c.getD (0, 0)).1)) ++ " " ++
          joinInts (cols.map (fun c => (c.getD (0, 0)).2)))
      if allEq lines then lines.headD "bad-op" else "model-trees-differ"
  | _ => "bad-op"

/-- One evaluation of the cut of `par_rcb_split` at `target` (coordinates ×4)
along the tree: `(count_left, weight_left, coordinate of the pivot)`. -/
def cut (target : Int) (xs : List Item) (t : SplitTree) : Nat × Int × Option Int :=
  let r := parNearest target t xs
  (r.count, r.weight, r.idx.map (fun j => ((xs.find? (·.idx == j)).map (·.coord)).getD 0 / 4))

def showPivot : Option Int → String
  | some p => toString p
  | none => "none"

def handleRcbsplit (rest : List String) : String :=
  match rest.mapM parseInt? with
  | some [seed, n, lo, hi, wmax, mn, mx] =>
    if n < 0 ∨ n > 1000000 ∨ lo > hi ∨ wmax < 1 ∨ mn > mx then "bad-op" else
    let seedU := UInt64.ofNat seed.toNat
    let coords := (genInts seedU n.toNat lo hi).map (· * 4)
    let weights := genInts (seedU ^^^ 0xabcdef) n.toNat 1 wmax
    let xs := items coords weights
    -- `with_min_len(4096)`: leaves shorter than that do not occur, the theorem covers them anyway
    let ts := trees xs.length seedU true 1000000
    let t1 : Int := 2 * (mn + mx)
    let t2 : Int := 3 * mn + mx
    let lines := ts.map (fun t =>
      let (c1, w1, p1) := cut t1 xs t
      match p1 with
      | some _ => "split " ++ toString c1 ++ " " ++ toString w1 ++ " " ++ showPivot p1 ++ " pos4 " ++ toString t1
      | none =>
        -- `max = split_target; prev_count_left = count_left; continue`
        let (c2, w2, p2) := cut t2 xs t
        match p2 with
        | some _ => "split " ++ toString c2 ++ " " ++ toString w2 ++ " " ++ showPivot p2 ++ " pos4 " ++ toString t2
        | none =>
          -- `None if prev_count_left == count_left`: everything goes left, `weight_left: sum`, `split_pos: max`
          if c1 == c2 then
            "split " ++ toString xs.length ++ " " ++ toString weights.sum ++ " none pos4 " ++ toString t1
          else "skip third-iteration")
    if allEq lines then lines.headD "bad-op" else "model-trees-differ"
  | _ => "bad-op"

/-- `approx::Ulps::default().eq(a, b)` on `f64`: `|a-b| ≤ EPSILON` or same sign
and at most 4 units in the last place apart. -/
def ulpsEq (a b : Float) : Bool :=
  if (a - b).abs ≤ 2.220446049250313e-16 then true
  else if (a < 0) != (b < 0) then false
  else
    let x := a.toBits.toNat
    let y := b.toBits.toNat
    if x ≤ y then y - x ≤ 4 else x - y ≤ 4

def handleMjsplit (rest : List String) : String :=
  match rest with
  | seed :: n :: wmax :: k :: mods =>
    match (do
      let seed ← parseNat? seed
      let n ← parseNat? n
      let wmax ← parseInt? wmax
      let k ← parseNat? k
      let ms ← mods.mapM parseNat?
      if ms.length == 2 * k ∧ k ≥ 1 ∧ n ≤ 1000000 ∧ wmax ≥ 1 ∧ ms.all (· > 0) then some (seed, n, wmax, k, ms) else none) with
    | none => "bad-op"
    | some (seed, n, wmax, k, ms) =>
      let ws := genInts (UInt64.ofNat seed) n (if wmax == 1 then 1 else 0) wmax
      let rec pairs : List Nat → List Float
        | a :: b :: r => (Float.ofNat a / Float.ofNat b) :: pairs r
        | _ => []
      let modifiers := (pairs ms).take (k - 1)   -- `split_last`: the last modifier is not used
      let total := Float.ofInt ws.sum
      -- `scan(0.0, |consumed, m| { *consumed += total_weight * m; Some(*consumed) })`
      let (_, thrs) := modifiers.foldl (fun (st : Float × List Float) m =>
        let c := st.1 + total * m
        (c, st.2 ++ [c])) (0.0, [])
      -- integer sums against an f64 threshold: `v > thr` ⇔ `v > ⌊thr⌋`;
      -- `v < thr || ulps_eq(thr, v)` ⇔ `v ≤ ⌈thr⌉` if ⌈thr⌉ is ulps-equal to thr, else `v ≤ ⌊thr⌋`
      let bounds := thrs.map (fun thr =>
        let fl := thr.floor
        let ce := thr.ceil
        let thrB : Int := fl.toInt64.toInt
        let thrW : Int := if ulpsEq thr ce then ce.toInt64.toInt else thrB
        (thrB, thrW))
      let ts := trees ws.length (UInt64.ofNat seed) (ws.length ≤ 3000) 48
      let lines := ts.map (fun t =>
        ("splits " ++ joinNats (mjSplits t ws bounds)).trimAscii.toString)
      if allEq lines then lines.headD "bad-op" else "model-trees-differ"
  | _ => "bad-op"

/-- Streams `s<b><E>` (coordinates times 2^-E, E ≤ 149) and `S<b><E>` (times 2^E, E ≤ 100), b ∈ g x l:
the integer cloud of the base stream scaled by a power of two.  Every coordinate stays exactly
representable, so the claim is the one made at scale 1 (for Rcb the `..._rounded` theorems do not
even need exact coordinate arithmetic). -/
def scaledStream (stream : String) : Bool :=
  match stream.toList with
  | k :: b :: ds =>
    (k == 's' ∨ k == 'S') ∧ (b == 'g' ∨ b == 'x' ∨ b == 'l') ∧ !ds.isEmpty ∧ ds.length ≤ 3 ∧
      ds.all Char.isDigit ∧
      (let e := ds.foldl (fun acc c => acc * 10 + (c.toNat - '0'.toNat)) 0
       if k == 's' then e ≤ 149 else e ≤ 100)
  | _ => false

/-- `rcbsplits <e> <seed> <n> <lo> <hi> <wmax> <min> <max>`: `rcbsplit` with coordinates, `min`, `max`
times 2^e.  When the targets `min/2 + max/2` and `min/2 + (min/2 + max/2)/2` are exactly representable
in f32 (e ≥ -147, or min and max multiples of 4) every quantity of the cut search is 2^e times the
integer one and the answer is that of `rcbsplit`; otherwise the model declines. -/
def handleRcbsplitScaled (rest : List String) : String :=
  match rest with
  | e :: rest' =>
    match parseInt? e, rest'.mapM parseInt? with
    | some e, some [_, _, _, _, _, mn, mx] =>
      if e < -149 ∨ e > 100 then "bad-op"
      else if e ≥ -147 ∨ (mn % 4 == 0 ∧ mx % 4 == 0) then handleRcbsplit rest'
      else "skip targets-round (subnormal scale, min/max not multiples of 4)"
    | _, _ => "bad-op"
  | [] => "bad-op"

def handle (toks : List String) : String :=
  match toks with
  | "part" :: algo :: stream :: rest =>
    if rest.length == 8 ∧ ["rcb", "rcbf", "rib", "hilbert", "zcurve", "mj", "kmeans"].contains algo ∧
        (stream == "g" ∨ stream == "x" ∨ (stream == "t" ∧ (algo == "rcb" ∨ algo == "rcbf")) ∨ scaledStream stream) ∧ (rest.take 7).all (fun x => (parseNat? x).isSome) ∧
        (rest.head? == some "2" ∨ rest.head? == some "3") then
      -- outside `ExactSums` (the frame is built from sums that round, K6): no claim
      if rest.getLast!.startsWith "inexact-frame:" then "skip outside-ExactSums inexact OBB frame"
      else "same " ++ rest.getLast!
    else "bad-op"
  | "dual" :: rest => if rest.length == 6 then "same " ++ rest.getLast! else "bad-op"
  | "frame" :: rest =>
    -- `frame <dim> <n> <seed> <shape> <digest>`: the oriented-bounding-box frame is a function of
    -- the input only – `inertia_matrix` sums fixed 4096-point blocks sequentially and adds the block
    -- sums in block order (a fixed expression in the points, whatever rayon does; in the exact case
    -- `inertia_entry_schedule_free`), the eigen-decomposition and the reflection are sequential.
    -- So every pool size yields the bits seen under one thread: the claim is `same <digest>`.
    if rest.length == 5 ∧ (rest.take 4).all (fun x => (parseNat? x).isSome) ∧
        (rest.head? == some "2" ∨ rest.head? == some "3") ∧
        ((rest[1]?.bind parseNat?).getD 0 ≤ 400000) ∧ ((rest[3]?.bind parseNat?).getD 99 < 6) then
      "same " ++ rest.getLast!
    else "bad-op"
  | "parsum" :: rest => handleParsum rest
  | "bbox" :: rest => handleBbox rest
  | "rcbsplit" :: rest => handleRcbsplit rest
  | "rcbsplits" :: rest => handleRcbsplitScaled rest
  | "mjsplit" :: rest => handleMjsplit rest
  | _ => "bad-op"

end Coupe.Driver.C06
