import CoupeModel.Model.Dual
import CoupeModel.Driver.Util

namespace Coupe.Driver.C18
open Coupe.Dual Coupe.Driver

def tyOfCode : Nat → Option ElType
  | 0 => some .vertex
  | 1 => some .edge
  | 2 => some .triangle
  | 3 => some .quadrangle
  | 4 => some .quadrilateral
  | 5 => some .tetrahedron
  | 6 => some .hexahedron
  | _ => none

/-- `<ty> <count> <refs> <count·npe nodes>` repeated `n` times. -/
def parseBlocks : Nat → List String → Option (List Block × List String)
  | 0, rest => some ([], rest)
  | n + 1, ty :: cnt :: refs :: rest => do
    let ty ← (parseNat? ty).bind tyOfCode
    let cnt ← parseNat? cnt
    let refs ← parseNat? refs
    let (nodes, rest) ← takeParsed parseNat? (cnt * ty.npe) rest
    let (bs, rest) ← parseBlocks n rest
    pure (⟨ty, nodes, refs⟩ :: bs, rest)
  | _ + 1, _ => none

/-- op: `dual <raw|medit> <threads> <nnodes> <nblocks> {<ty> <count> <refs> <nodes…>}*`
(the construction mode and the pool size do not reach the model: the output
must not depend on them).
out: `ok <size> | <indptr> | <indices> | d<data len> | bary <n|panic> used <m>` -/
def handle (toks : List String) : String :=
  match toks with
  | "dual" :: _mode :: _threads :: nn :: nb :: rest =>
    match (do
      let nn ← parseNat? nn
      let nb ← parseNat? nb
      let (bs, rest) ← parseBlocks nb rest
      if rest.isEmpty then some (Mesh.mk nn bs) else none) with
    | none => "bad-op"
    | some m =>
      match run m with
      | .panicNode => "panic index out of bounds"
      | .panicLookup => "panic tools/src/lib.rs"
      | .ok g =>
        "ok " ++ toString g.size ++ " | " ++ joinNats g.indptr ++ " | " ++ joinNats g.indices
          ++ " | d" ++ toString g.dataLen
          ++ " | bary " ++ (match barycentres m with | some n => toString n | none => "panic")
          ++ " used " ++ toString (usedElementCount m)
  | _ => "bad-op"

end Coupe.Driver.C18
