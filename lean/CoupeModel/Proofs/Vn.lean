import CoupeModel.Model.Basic
import CoupeModel.Model.Vn
import Mathlib.Tactic.Ring
import Mathlib.Tactic.Linarith

/-! Helper lemmas for C14 (VnBest, VnFirst). -/

namespace Coupe.Vn

/-! ## Part ids -/

theorem le_maxId {ids : List Nat} {i : Nat} (h : i ∈ ids) : i ≤ maxId ids := by
  induction ids with
  | nil => simp at h
  | cons x xs ih =>
    simp only [maxId]
    rcases List.mem_cons.1 h with h | h
    · omega
    · have := ih h; omega

theorem lt_partCount {ids : List Nat} {i : Nat} (h : i ∈ ids) : i < partCount ids := by
  have := le_maxId h
  simp only [partCount]; omega

/-- All ids of the array are below `k`. -/
def InRange (ids : List Nat) (k : Nat) : Prop := ∀ i ∈ ids, i < k

theorem inRange_partCount (ids : List Nat) : InRange ids (partCount ids) :=
  fun _ h => lt_partCount h

theorem InRange.set {ids : List Nat} {k : Nat} (h : InRange ids k) (i : Nat) {q : Nat}
    (hq : q < k) : InRange (ids.set i q) k := by
  intro x hx
  rcases List.mem_or_eq_of_mem_set hx with hx | hx
  · exact h x hx
  · omega

/-! ## `minL`, `maxL`, `minFirst`, `maxLast` -/

theorem minL_mem {l : List Int} (h : l ≠ []) : minL l ∈ l := by
  fun_induction minL l with
  | case1 => exact absurd rfl h
  | case2 x => simp
  | case3 x y r ih =>
    have := ih (by simp)
    by_cases hc : x ≤ minL (y :: r)
    · rw [Int.min_eq_left hc]; simp
    · rw [Int.min_eq_right (by omega)]; exact List.mem_cons_of_mem _ this

theorem minL_le {l : List Int} {x : Int} (h : x ∈ l) : minL l ≤ x := by
  fun_induction minL l with
  | case1 => simp at h
  | case2 y => simp at h; omega
  | case3 y z r ih =>
    rcases List.mem_cons.1 h with h | h
    · subst h; exact Int.min_le_left _ _
    · exact Int.le_trans (Int.min_le_right _ _) (ih h)

theorem maxL_mem {l : List Int} (h : l ≠ []) : maxL l ∈ l := by
  fun_induction maxL l with
  | case1 => exact absurd rfl h
  | case2 x => simp
  | case3 x y r ih =>
    have := ih (by simp)
    by_cases hc : maxL (y :: r) ≤ x
    · rw [Int.max_eq_left hc]; simp
    · rw [Int.max_eq_right (by omega)]; exact List.mem_cons_of_mem _ this

theorem le_maxL {l : List Int} {x : Int} (h : x ∈ l) : x ≤ maxL l := by
  fun_induction maxL l with
  | case1 => simp at h
  | case2 y => simp at h; omega
  | case3 y z r ih =>
    rcases List.mem_cons.1 h with h | h
    · subst h; exact Int.le_max_left _ _
    · exact Int.le_trans (ih h) (Int.le_max_right _ _)

theorem minL_le_maxL {l : List Int} (h : l ≠ []) : minL l ≤ maxL l :=
  le_maxL (minL_mem h)

theorem gap_nonneg {l : List Int} (h : l ≠ []) : 0 ≤ gap l := by
  have := minL_le_maxL h
  simp only [gap]; omega

/-- If every entry of `l'` lies between the extremes of `l`, the gap did not grow. -/
theorem gap_le_of_bounds {l l' : List Int} (h' : l' ≠ [])
    (hb : ∀ x ∈ l', minL l ≤ x ∧ x ≤ maxL l) : gap l' ≤ gap l := by
  have h1 := hb _ (maxL_mem h')
  have h2 := hb _ (minL_mem h')
  simp only [gap]; omega

theorem minmax_eq {l : List Int} (h : l ≠ []) : minmax l = some (minL l, maxL l) := by
  cases l with
  | nil => exact absurd rfl h
  | cons x xs => rfl

theorem minFirst_eq_none {l : List Int} : minFirst l = none ↔ l = [] := by
  cases l with
  | nil => simp [minFirst]
  | cons x xs =>
    simp only [minFirst]
    split
    · simp
    · split <;> simp

theorem maxLast_eq_none {l : List Int} : maxLast l = none ↔ l = [] := by
  cases l with
  | nil => simp [maxLast]
  | cons x xs =>
    simp only [maxLast]
    split
    · simp
    · split <;> simp

theorem minFirst_spec {l : List Int} {j : Nat} {v : Int} (h : minFirst l = some (j, v)) :
    l[j]? = some v ∧ v = minL l := by
  induction l generalizing j v with
  | nil => simp [minFirst] at h
  | cons x xs ih =>
    simp only [minFirst] at h
    split at h
    · next hn =>
      have hxs := minFirst_eq_none.1 hn
      subst hxs
      simp only [Option.some.injEq, Prod.mk.injEq] at h
      obtain ⟨rfl, rfl⟩ := h
      simp [minL]
    · next j' v' hs =>
      obtain ⟨h1, h2⟩ := ih hs
      have hne : xs ≠ [] := by intro he; subst he; simp at h1
      obtain ⟨y, r, rfl⟩ : ∃ y r, xs = y :: r := by
        cases xs with
        | nil => exact absurd rfl hne
        | cons y r => exact ⟨y, r, rfl⟩
      split at h
      · next hlt =>
        simp only [Option.some.injEq, Prod.mk.injEq] at h
        obtain ⟨rfl, rfl⟩ := h
        refine ⟨by simpa using h1, ?_⟩
        simp only [minL]
        rw [Int.min_eq_right (by omega)]; exact h2
      · next hge =>
        simp only [Option.some.injEq, Prod.mk.injEq] at h
        obtain ⟨rfl, rfl⟩ := h
        refine ⟨by simp, ?_⟩
        simp only [minL]
        rw [Int.min_eq_left (by omega)]

theorem maxLast_spec {l : List Int} {j : Nat} {v : Int} (h : maxLast l = some (j, v)) :
    l[j]? = some v ∧ v = maxL l := by
  induction l generalizing j v with
  | nil => simp [maxLast] at h
  | cons x xs ih =>
    simp only [maxLast] at h
    split at h
    · next hn =>
      have hxs := maxLast_eq_none.1 hn
      subst hxs
      simp only [Option.some.injEq, Prod.mk.injEq] at h
      obtain ⟨rfl, rfl⟩ := h
      simp [maxL]
    · next j' v' hs =>
      obtain ⟨h1, h2⟩ := ih hs
      have hne : xs ≠ [] := by intro he; subst he; simp at h1
      obtain ⟨y, r, rfl⟩ : ∃ y r, xs = y :: r := by
        cases xs with
        | nil => exact absurd rfl hne
        | cons y r => exact ⟨y, r, rfl⟩
      split at h
      · next hlt =>
        simp only [Option.some.injEq, Prod.mk.injEq] at h
        obtain ⟨rfl, rfl⟩ := h
        refine ⟨by simp, ?_⟩
        simp only [maxL]
        rw [Int.max_eq_left (by omega)]
      · next hge =>
        simp only [Option.some.injEq, Prod.mk.injEq] at h
        obtain ⟨rfl, rfl⟩ := h
        refine ⟨by simpa using h1, ?_⟩
        simp only [maxL]
        rw [Int.max_eq_right (by omega)]; exact h2

/-! ## `load`, `loads` -/

theorem load_nil_left (ids : List Nat) (j : Nat) : load [] ids j = 0 := by
  simp [load]

theorem load_nil_right (ws : List Int) (j : Nat) : load ws [] j = 0 := by
  simp [load]

theorem load_cons (w : Int) (ws : List Int) (i : Nat) (ids : List Nat) (j : Nat) :
    load (w :: ws) (i :: ids) j = (if i = j then w else 0) + load ws ids j := by
  simp only [load, List.zip_cons_cons, List.filter_cons]
  by_cases h : i = j
  · simp [h]
  · simp [h]

theorem length_loads (ws : List Int) (ids : List Nat) (k : Nat) : (loads ws ids k).length = k := by
  simp [loads]

theorem getElem?_loads {ws : List Int} {ids : List Nat} {k j : Nat} (h : j < k) :
    (loads ws ids k)[j]? = some (load ws ids j) := by
  simp [loads, List.getElem?_map, List.getElem?_range h]

theorem getElem?_loads_none {ws : List Int} {ids : List Nat} {k j : Nat} (h : k ≤ j) :
    (loads ws ids k)[j]? = none := by
  simp [loads, h]

theorem loads_ne_nil {ws : List Int} {ids : List Nat} {k : Nat} (h : 0 < k) :
    loads ws ids k ≠ [] := by
  intro he
  have := length_loads ws ids k
  rw [he] at this
  simp at this; omega

/-- Relabelling element `i` (weight `w`, part `p`) to `q` moves `w` from the load of `p` to
the load of `q`. -/
theorem load_set {ws : List Int} {ids : List Nat} {i p q : Nat} {w : Int}
    (hp : ids[i]? = some p) (hw : ws[i]? = some w) (j : Nat) :
    load ws (ids.set i q) j
      = load ws ids j - (if p = j then w else 0) + (if q = j then w else 0) := by
  induction ws generalizing ids i with
  | nil => simp at hw
  | cons w0 ws ih =>
    cases ids with
    | nil => simp at hp
    | cons i0 ids =>
      cases i with
      | zero =>
        simp only [List.getElem?_cons_zero, Option.some.injEq] at hp hw
        subst hp; subst hw
        simp only [List.set_cons_zero, load_cons]
        omega
      | succ n =>
        simp only [List.getElem?_cons_succ] at hp hw
        simp only [List.set_cons_succ, load_cons, ih hp hw]
        omega

theorem loads_set {ws : List Int} {ids : List Nat} {i p q k : Nat} {w : Int}
    (hp : ids[i]? = some p) (hw : ws[i]? = some w) (hpq : p ≠ q) (hpk : p < k) (hqk : q < k) :
    loads ws (ids.set i q) k
      = ((loads ws ids k).set p (load ws ids p - w)).set q (load ws ids q + w) := by
  apply List.ext_getElem?
  intro j
  by_cases hj : j < k
  · rw [getElem?_loads hj, load_set hp hw]
    simp only [List.getElem?_set, List.length_set, length_loads]
    by_cases h1 : q = j
    · subst h1; simp [hqk, hpq]
    · by_cases h2 : p = j
      · subst h2; simp [h1, hpk]
      · simp [h1, h2, getElem?_loads hj]
  · have hj' : k ≤ j := by omega
    rw [getElem?_loads_none hj']
    simp only [List.getElem?_set, List.length_set, length_loads]
    have h1 : q ≠ j := by omega
    have h2 : p ≠ j := by omega
    simp [h1, h2, getElem?_loads_none hj']

theorem sum_map_range_ite (k i : Nat) (w : Int) (f : Nat → Int) :
    ((List.range k).map (fun j => (if i = j then w else 0) + f j)).sum
      = (if i < k then w else 0) + ((List.range k).map f).sum := by
  induction k with
  | zero => simp
  | succ n ih =>
    simp only [List.range_succ, List.map_append, List.sum_append, ih, List.map_cons, List.map_nil,
      List.sum_cons, List.sum_nil]
    by_cases h1 : i < n
    · have : i ≠ n := by omega
      have h2 : i < n + 1 := by omega
      simp [h1, this, h2]; omega
    · by_cases h2 : i = n
      · subst h2; simp; omega
      · have h3 : ¬ i < n + 1 := by omega
        simp [h1, h2, h3]

/-- The part loads add up to the total weight. -/
theorem sum_loads {ws : List Int} {ids : List Nat} {k : Nat} (hlen : ws.length = ids.length)
    (hr : InRange ids k) : (loads ws ids k).sum = ws.sum := by
  induction ws generalizing ids with
  | nil => simp [loads, load_nil_left]
  | cons w ws ih =>
    cases ids with
    | nil => simp at hlen
    | cons i ids =>
      have hr' : InRange ids k := fun x hx => hr x (List.mem_cons_of_mem _ hx)
      have hi : i < k := hr i (by simp)
      have := ih (ids := ids) (by simpa using hlen) hr'
      simp only [loads] at this ⊢
      simp only [load_cons]
      rw [sum_map_range_ite k i w (load ws ids), this]
      simp [hi]

theorem load_nonneg {ws : List Int} (hnn : ∀ w ∈ ws, 0 ≤ w) (ids : List Nat) (j : Nat) :
    0 ≤ load ws ids j := by
  induction ws generalizing ids with
  | nil => simp [load_nil_left]
  | cons w ws ih =>
    cases ids with
    | nil => simp [load_nil_right]
    | cons i ids =>
      rw [load_cons]
      have h1 := hnn w (by simp)
      have h2 := ih (fun x hx => hnn x (List.mem_cons_of_mem _ hx)) ids
      split <;> omega

/-- With non-negative weights a part weighs at least as much as each of its elements. -/
theorem le_load {ws : List Int} (hnn : ∀ w ∈ ws, 0 ≤ w) {ids : List Nat} {i p : Nat} {w : Int}
    (hp : ids[i]? = some p) (hw : ws[i]? = some w) : w ≤ load ws ids p := by
  induction ws generalizing ids i with
  | nil => simp at hw
  | cons w0 ws ih =>
    cases ids with
    | nil => simp at hp
    | cons i0 ids =>
      have hnn' : ∀ x ∈ ws, 0 ≤ x := fun x hx => hnn x (List.mem_cons_of_mem _ hx)
      rw [load_cons]
      cases i with
      | zero =>
        simp only [List.getElem?_cons_zero, Option.some.injEq] at hp hw
        subst hp; subst hw
        have := load_nonneg hnn' ids i0
        simp; omega
      | succ n =>
        simp only [List.getElem?_cons_succ] at hp hw
        have := ih hnn' hp hw
        have h0 := hnn w0 (by simp)
        split <;> omega

/-! ## Sums over a table with one entry replaced -/

theorem sum_set {l : List Int} {i : Nat} {x : Int} (v : Int) (h : l[i]? = some x) :
    (l.set i v).sum = l.sum - x + v := by
  induction l generalizing i with
  | nil => simp at h
  | cons y ys ih =>
    cases i with
    | zero =>
      simp only [List.getElem?_cons_zero, Option.some.injEq] at h
      subst h; simp only [List.set_cons_zero, List.sum_cons]; omega
    | succ n =>
      simp only [List.getElem?_cons_succ] at h
      simp only [List.set_cons_succ, List.sum_cons, ih h]; omega

theorem sumsq_set {l : List Int} {i : Nat} {x : Int} (v : Int) (h : l[i]? = some x) :
    sumsq (l.set i v) = sumsq l - x * x + v * v := by
  induction l generalizing i with
  | nil => simp at h
  | cons y ys ih =>
    cases i with
    | zero =>
      simp only [List.getElem?_cons_zero, Option.some.injEq] at h
      subst h; simp only [sumsq, List.set_cons_zero, List.map_cons, List.sum_cons]; omega
    | succ n =>
      simp only [List.getElem?_cons_succ] at h
      have := ih h
      simp only [sumsq, List.set_cons_succ, List.map_cons, List.sum_cons] at this ⊢
      omega

theorem sumsq_nonneg (l : List Int) : 0 ≤ sumsq l := by
  induction l with
  | nil => simp [sumsq]
  | cons y ys ih =>
    simp only [sumsq, List.map_cons, List.sum_cons] at ih ⊢
    have := Int.mul_self_nonneg y  -- y * y ≥ 0
    omega

end Coupe.Vn
