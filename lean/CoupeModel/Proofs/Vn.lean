import CoupeModel.Model.Basic
import CoupeModel.Model.Vn
import Mathlib.Tactic.Ring
import Mathlib.Tactic.Linarith

/-! Helper lemmas for C14 (VnBest, VnFirst). -/

namespace Coupe.Vn

/-! ## Part ids -/

theorem le_maxId {ids : List Nat} {i : Nat} (h : i ∈ ids) : i ≤ maxId ids := by
  induction ids with
  | nil => simp at h
  | cons x xs ih =>
    simp only [maxId]
    rcases List.mem_cons.1 h with h | h
    · omega
    · have := ih h; omega

theorem lt_partCount {ids : List Nat} {i : Nat} (h : i ∈ ids) : i < partCount ids := by
  have := le_maxId h
  simp only [partCount]; omega

/-- All ids of the array are below `k`. -/
def InRange (ids : List Nat) (k : Nat) : Prop := ∀ i ∈ ids, i < k

theorem inRange_partCount (ids : List Nat) : InRange ids (partCount ids) :=
  fun _ h => lt_partCount h

theorem InRange.set {ids : List Nat} {k : Nat} (h : InRange ids k) (i : Nat) {q : Nat}
    (hq : q < k) : InRange (ids.set i q) k := by
  intro x hx
  rcases List.mem_or_eq_of_mem_set hx with hx | hx
  · exact h x hx
  · omega

/-! ## `minL`, `maxL`, `minFirst`, `maxLast` -/

theorem minL_mem {l : List Int} (h : l ≠ []) : minL l ∈ l := by
  fun_induction minL l with
  | case1 => exact absurd rfl h
  | case2 x => simp
  | case3 x y r ih =>
    have := ih (by simp)
    by_cases hc : x ≤ minL (y :: r)
    · rw [Int.min_eq_left hc]; simp
    · rw [Int.min_eq_right (by omega)]; exact List.mem_cons_of_mem _ this

theorem minL_le {l : List Int} {x : Int} (h : x ∈ l) : minL l ≤ x := by
  fun_induction minL l with
  | case1 => simp at h
  | case2 y => simp at h; omega
  | case3 y z r ih =>
    rcases List.mem_cons.1 h with h | h
    · subst h; exact Int.min_le_left _ _
    · exact Int.le_trans (Int.min_le_right _ _) (ih h)

theorem maxL_mem {l : List Int} (h : l ≠ []) : maxL l ∈ l := by
  fun_induction maxL l with
  | case1 => exact absurd rfl h
  | case2 x => simp
  | case3 x y r ih =>
    have := ih (by simp)
    by_cases hc : maxL (y :: r) ≤ x
    · rw [Int.max_eq_left hc]; simp
    · rw [Int.max_eq_right (by omega)]; exact List.mem_cons_of_mem _ this

theorem le_maxL {l : List Int} {x : Int} (h : x ∈ l) : x ≤ maxL l := by
  fun_induction maxL l with
  | case1 => simp at h
  | case2 y => simp at h; omega
  | case3 y z r ih =>
    rcases List.mem_cons.1 h with h | h
    · subst h; exact Int.le_max_left _ _
    · exact Int.le_trans (ih h) (Int.le_max_right _ _)

theorem minL_le_maxL {l : List Int} (h : l ≠ []) : minL l ≤ maxL l :=
  le_maxL (minL_mem h)

theorem gap_nonneg {l : List Int} (h : l ≠ []) : 0 ≤ gap l := by
  have := minL_le_maxL h
  simp only [gap]; omega

/-- If every entry of `l'` lies between the extremes of `l`, the gap did not grow. -/
theorem gap_le_of_bounds {l l' : List Int} (h' : l' ≠ [])
    (hb : ∀ x ∈ l', minL l ≤ x ∧ x ≤ maxL l) : gap l' ≤ gap l := by
  have h1 := hb _ (maxL_mem h')
  have h2 := hb _ (minL_mem h')
  simp only [gap]; omega

theorem minmax_eq {l : List Int} (h : l ≠ []) : minmax l = some (minL l, maxL l) := by
  cases l with
  | nil => exact absurd rfl h
  | cons x xs => rfl

theorem minFirst_eq_none {l : List Int} : minFirst l = none ↔ l = [] := by
  cases l with
  | nil => simp [minFirst]
  | cons x xs =>
    simp only [minFirst]
    split
    · simp
    · split <;> simp

theorem maxLast_eq_none {l : List Int} : maxLast l = none ↔ l = [] := by
  cases l with
  | nil => simp [maxLast]
  | cons x xs =>
    simp only [maxLast]
    split
    · simp
    · split <;> simp

theorem minFirst_spec {l : List Int} {j : Nat} {v : Int} (h : minFirst l = some (j, v)) :
    l[j]? = some v ∧ v = minL l := by
  induction l generalizing j v with
  | nil => simp [minFirst] at h
  | cons x xs ih =>
    simp only [minFirst] at h
    split at h
    · next hn =>
      have hxs := minFirst_eq_none.1 hn
      subst hxs
      simp only [Option.some.injEq, Prod.mk.injEq] at h
      obtain ⟨rfl, rfl⟩ := h
      simp [minL]
    · next j' v' hs =>
      obtain ⟨h1, h2⟩ := ih hs
      have hne : xs ≠ [] := by intro he; subst he; simp at h1
      obtain ⟨y, r, rfl⟩ : ∃ y r, xs = y :: r := by
        cases xs with
        | nil => exact absurd rfl hne
        | cons y r => exact ⟨y, r, rfl⟩
      split at h
      · next hlt =>
        simp only [Option.some.injEq, Prod.mk.injEq] at h
        obtain ⟨rfl, rfl⟩ := h
        refine ⟨by simpa using h1, ?_⟩
        simp only [minL]
        rw [Int.min_eq_right (by omega)]; exact h2
      · next hge =>
        simp only [Option.some.injEq, Prod.mk.injEq] at h
        obtain ⟨rfl, rfl⟩ := h
        refine ⟨by simp, ?_⟩
        simp only [minL]
        rw [Int.min_eq_left (by omega)]

theorem maxLast_spec {l : List Int} {j : Nat} {v : Int} (h : maxLast l = some (j, v)) :
    l[j]? = some v ∧ v = maxL l := by
  induction l generalizing j v with
  | nil => simp [maxLast] at h
  | cons x xs ih =>
    simp only [maxLast] at h
    split at h
    · next hn =>
      have hxs := maxLast_eq_none.1 hn
      subst hxs
      simp only [Option.some.injEq, Prod.mk.injEq] at h
      obtain ⟨rfl, rfl⟩ := h
      simp [maxL]
    · next j' v' hs =>
      obtain ⟨h1, h2⟩ := ih hs
      have hne : xs ≠ [] := by intro he; subst he; simp at h1
      obtain ⟨y, r, rfl⟩ : ∃ y r, xs = y :: r := by
        cases xs with
        | nil => exact absurd rfl hne
        | cons y r => exact ⟨y, r, rfl⟩
      split at h
      · next hlt =>
        simp only [Option.some.injEq, Prod.mk.injEq] at h
        obtain ⟨rfl, rfl⟩ := h
        refine ⟨by simp, ?_⟩
        simp only [maxL]
        rw [Int.max_eq_left (by omega)]
      · next hge =>
        simp only [Option.some.injEq, Prod.mk.injEq] at h
        obtain ⟨rfl, rfl⟩ := h
        refine ⟨by simpa using h1, ?_⟩
        simp only [maxL]
        rw [Int.max_eq_right (by omega)]; exact h2

/-! ## `load`, `loads` -/

theorem load_nil_left (ids : List Nat) (j : Nat) : load [] ids j = 0 := by
  simp [load]

theorem load_nil_right (ws : List Int) (j : Nat) : load ws [] j = 0 := by
  simp [load]

theorem load_cons (w : Int) (ws : List Int) (i : Nat) (ids : List Nat) (j : Nat) :
    load (w :: ws) (i :: ids) j = (if i = j then w else 0) + load ws ids j := by
  simp only [load, List.zip_cons_cons, List.filter_cons]
  by_cases h : i = j
  · simp [h]
  · simp [h]

theorem length_loads (ws : List Int) (ids : List Nat) (k : Nat) : (loads ws ids k).length = k := by
  simp [loads]

theorem getElem?_loads {ws : List Int} {ids : List Nat} {k j : Nat} (h : j < k) :
    (loads ws ids k)[j]? = some (load ws ids j) := by
  simp [loads, List.getElem?_map, List.getElem?_range h]

theorem getElem?_loads_none {ws : List Int} {ids : List Nat} {k j : Nat} (h : k ≤ j) :
    (loads ws ids k)[j]? = none := by
  simp [loads, h]

theorem loads_ne_nil {ws : List Int} {ids : List Nat} {k : Nat} (h : 0 < k) :
    loads ws ids k ≠ [] := by
  intro he
  have := length_loads ws ids k
  rw [he] at this
  simp at this; omega

/-- Relabelling element `i` (weight `w`, part `p`) to `q` moves `w` from the load of `p` to
the load of `q`. -/
theorem load_set {ws : List Int} {ids : List Nat} {i p q : Nat} {w : Int}
    (hp : ids[i]? = some p) (hw : ws[i]? = some w) (j : Nat) :
    load ws (ids.set i q) j
      = load ws ids j - (if p = j then w else 0) + (if q = j then w else 0) := by
  induction ws generalizing ids i with
  | nil => simp at hw
  | cons w0 ws ih =>
    cases ids with
    | nil => simp at hp
    | cons i0 ids =>
      cases i with
      | zero =>
        simp only [List.getElem?_cons_zero, Option.some.injEq] at hp hw
        subst hp; subst hw
        simp only [List.set_cons_zero, load_cons]
        omega
      | succ n =>
        simp only [List.getElem?_cons_succ] at hp hw
        simp only [List.set_cons_succ, load_cons, ih hp hw]
        omega

theorem loads_set {ws : List Int} {ids : List Nat} {i p q k : Nat} {w : Int}
    (hp : ids[i]? = some p) (hw : ws[i]? = some w) (hpq : p ≠ q) (hpk : p < k) (hqk : q < k) :
    loads ws (ids.set i q) k
      = ((loads ws ids k).set p (load ws ids p - w)).set q (load ws ids q + w) := by
  apply List.ext_getElem?
  intro j
  by_cases hj : j < k
  · rw [getElem?_loads hj, load_set hp hw]
    simp only [List.getElem?_set, List.length_set, length_loads]
    by_cases h1 : q = j
    · subst h1; simp [hqk, hpq]
    · by_cases h2 : p = j
      · subst h2; simp [h1, hpk]
      · simp [h1, h2, getElem?_loads hj]
  · have hj' : k ≤ j := by omega
    rw [getElem?_loads_none hj']
    simp only [List.getElem?_set, List.length_set, length_loads]
    have h1 : q ≠ j := by omega
    have h2 : p ≠ j := by omega
    simp [h1, h2, getElem?_loads_none hj']

theorem sum_map_range_ite (k i : Nat) (w : Int) (f : Nat → Int) :
    ((List.range k).map (fun j => (if i = j then w else 0) + f j)).sum
      = (if i < k then w else 0) + ((List.range k).map f).sum := by
  induction k with
  | zero => simp
  | succ n ih =>
    simp only [List.range_succ, List.map_append, List.sum_append, ih, List.map_cons, List.map_nil,
      List.sum_cons, List.sum_nil]
    by_cases h1 : i < n
    · have : i ≠ n := by omega
      have h2 : i < n + 1 := by omega
      simp [h1, this, h2]; omega
    · by_cases h2 : i = n
      · subst h2; simp; omega
      · have h3 : ¬ i < n + 1 := by omega
        simp [h1, h2, h3]

/-- The part loads add up to the total weight. -/
theorem sum_loads {ws : List Int} {ids : List Nat} {k : Nat} (hlen : ws.length = ids.length)
    (hr : InRange ids k) : (loads ws ids k).sum = ws.sum := by
  induction ws generalizing ids with
  | nil =>
    have : load [] ids = fun _ => 0 := funext (load_nil_left ids)
    simp only [loads, this, List.sum_nil]
    clear hr hlen this
    induction k with
    | zero => simp
    | succ n ih => simp [List.range_succ, ih]
  | cons w ws ih =>
    cases ids with
    | nil => simp at hlen
    | cons i ids =>
      have hr' : InRange ids k := fun x hx => hr x (List.mem_cons_of_mem _ hx)
      have hi : i < k := hr i (by simp)
      have := ih (ids := ids) (by simpa using hlen) hr'
      simp only [loads] at this ⊢
      have hc : load (w :: ws) (i :: ids) = fun j => (if i = j then w else 0) + load ws ids j :=
        funext (load_cons w ws i ids)
      rw [hc, sum_map_range_ite k i w (load ws ids), this]
      simp [hi]

theorem load_nonneg {ws : List Int} (hnn : ∀ w ∈ ws, 0 ≤ w) (ids : List Nat) (j : Nat) :
    0 ≤ load ws ids j := by
  induction ws generalizing ids with
  | nil => simp [load_nil_left]
  | cons w ws ih =>
    cases ids with
    | nil => simp [load_nil_right]
    | cons i ids =>
      rw [load_cons]
      have h1 := hnn w (by simp)
      have h2 := ih (fun x hx => hnn x (List.mem_cons_of_mem _ hx)) ids
      split <;> omega

/-- With non-negative weights a part weighs at least as much as each of its elements. -/
theorem le_load {ws : List Int} (hnn : ∀ w ∈ ws, 0 ≤ w) {ids : List Nat} {i p : Nat} {w : Int}
    (hp : ids[i]? = some p) (hw : ws[i]? = some w) : w ≤ load ws ids p := by
  induction ws generalizing ids i with
  | nil => simp at hw
  | cons w0 ws ih =>
    cases ids with
    | nil => simp at hp
    | cons i0 ids =>
      have hnn' : ∀ x ∈ ws, 0 ≤ x := fun x hx => hnn x (List.mem_cons_of_mem _ hx)
      rw [load_cons]
      cases i with
      | zero =>
        simp only [List.getElem?_cons_zero, Option.some.injEq] at hp hw
        subst hp; subst hw
        have := load_nonneg hnn' ids i0
        simp; omega
      | succ n =>
        simp only [List.getElem?_cons_succ] at hp hw
        have := ih hnn' hp hw
        have h0 := hnn w0 (by simp)
        split <;> omega

/-! ## Sums over a table with one entry replaced -/

theorem sum_set {l : List Int} {i : Nat} {x : Int} (v : Int) (h : l[i]? = some x) :
    (l.set i v).sum = l.sum - x + v := by
  induction l generalizing i with
  | nil => simp at h
  | cons y ys ih =>
    cases i with
    | zero =>
      simp only [List.getElem?_cons_zero, Option.some.injEq] at h
      subst h; simp only [List.set_cons_zero, List.sum_cons]; omega
    | succ n =>
      simp only [List.getElem?_cons_succ] at h
      simp only [List.set_cons_succ, List.sum_cons, ih h]; omega

theorem sumsq_set {l : List Int} {i : Nat} {x : Int} (v : Int) (h : l[i]? = some x) :
    sumsq (l.set i v) = sumsq l - x * x + v * v := by
  induction l generalizing i with
  | nil => simp at h
  | cons y ys ih =>
    cases i with
    | zero =>
      simp only [List.getElem?_cons_zero, Option.some.injEq] at h
      subst h; simp only [sumsq, List.set_cons_zero, List.map_cons, List.sum_cons]; omega
    | succ n =>
      simp only [List.getElem?_cons_succ] at h
      have := ih h
      simp only [sumsq, List.set_cons_succ, List.map_cons, List.sum_cons] at this ⊢
      omega

theorem sumsq_nonneg (l : List Int) : 0 ≤ sumsq l := by
  induction l with
  | nil => simp [sumsq]
  | cons y ys ih =>
    simp only [sumsq, List.map_cons, List.sum_cons] at ih ⊢
    have := mul_self_nonneg y
    omega


/-! ## Checked arithmetic on the load table -/

theorem csub_of_le (cfg : Cfg) {a b : Int} (h : cfg.unsigned = true → b ≤ a) :
    csub cfg a b = some (a - b) := by
  unfold csub
  by_cases hu : cfg.unsigned = true
  · have := h hu
    simp [hu]; omega
  · simp [hu]

theorem csub_eq_some {cfg : Cfg} {a b c : Int} (h : csub cfg a b = some c) : c = a - b := by
  unfold csub at h
  split at h
  · simp at h
  · simpa using h.symm

end Coupe.Vn

namespace Coupe.VnFirst
open Coupe.Vn

theorem addAt_eq {pl : List Int} {j : Nat} {x : Int} (d : Int) (h : pl[j]? = some x) :
    addAt pl j d = some (pl.set j (x + d)) := by
  simp [addAt, h]

theorem subAt_eq (cfg : Cfg) {pl : List Int} {j : Nat} {x : Int} (d : Int) (h : pl[j]? = some x)
    (hu : cfg.unsigned = true → d ≤ x) : subAt cfg pl j d = some (pl.set j (x - d)) := by
  simp [subAt, h, csub_of_le cfg hu]

/-- The table after the tentative move of `w` from `p` to `q`. -/
def moved (pl : List Int) (p q : Nat) (lp lq w : Int) : List Int :=
  (pl.set p (lp - w)).set q (lq + w)

theorem moved_ne_nil {pl : List Int} {p q : Nat} {lp lq w : Int} (hq : pl[q]? = some lq) :
    moved pl p q lp lq w ≠ [] := by
  intro h
  have hl : q < pl.length := by
    rcases Nat.lt_or_ge q pl.length with h' | h'
    · exact h'
    · simp [List.getElem?_eq_none h'] at hq
  have : (moved pl p q lp lq w).length = pl.length := by simp [moved]
  rw [h] at this
  simp at this; omega

theorem tentative_eq (cfg : Cfg) {pl : List Int} {p q : Nat} {lp lq : Int} (w : Int) (hpq : p ≠ q)
    (hp : pl[p]? = some lp) (hq : pl[q]? = some lq) (hu : cfg.unsigned = true → w ≤ lp) :
    tentative cfg pl p q w
      = some (moved pl p q lp lq w, gap (moved pl p q lp lq w), maxL (moved pl p q lp lq w)) := by
  have h1 : (pl.set p (lp - w))[q]? = some lq := by
    rw [List.getElem?_set]; simp [hpq, hq]
  have hne := moved_ne_nil (p := p) (lp := lp) (w := w) hq
  unfold tentative
  rw [subAt_eq cfg w hp hu]
  simp only [addAt_eq w h1]
  rw [show (pl.set p (lp - w)).set q (lq + w) = moved pl p q lp lq w from rfl, minmax_eq hne]
  simp only [csub_of_le cfg (fun _ => minL_le_maxL hne), gap]

theorem rollback_eq (cfg : Cfg) {pl : List Int} {p q : Nat} {lp lq : Int} (w : Int) (hpq : p ≠ q)
    (hp : pl[p]? = some lp) (hq : pl[q]? = some lq) (hu : cfg.unsigned = true → 0 ≤ lq) :
    rollback cfg (moved pl p q lp lq w) p q w = some pl := by
  have hpl : p < pl.length := by
    rcases Nat.lt_or_ge p pl.length with h' | h'
    · exact h'
    · simp [List.getElem?_eq_none h'] at hp
  have hql : q < pl.length := by
    rcases Nat.lt_or_ge q pl.length with h' | h'
    · exact h'
    · simp [List.getElem?_eq_none h'] at hq
  have h2 : (moved pl p q lp lq w)[p]? = some (lp - w) := by
    simp only [moved, List.getElem?_set, List.length_set]
    simp [Ne.symm hpq, hpl]
  have h3 : ((moved pl p q lp lq w).set p (lp - w + w))[q]? = some (lq + w) := by
    simp only [moved, List.getElem?_set, List.length_set]
    simp [hpq, hql]
  unfold rollback
  rw [addAt_eq w h2]
  simp only
  rw [subAt_eq cfg w h3 (fun hh => by have := hu hh; omega)]
  congr 1
  apply List.ext_getElem?
  intro j
  simp only [moved, List.getElem?_set, List.length_set]
  have hq' : pl[q] = lq := by simpa [List.getElem?_eq_getElem hql] using hq
  have hp' : pl[p] = lp := by simpa [List.getElem?_eq_getElem hpl] using hp
  by_cases hjq : q = j
  · subst hjq; simp [hql, hq']
  · by_cases hjp : p = j
    · subst hjp; simp [hjq, hpl, hp']
    · simp [hjq, hjp]

/-- What the `for q` loop does when it stops at the first accepted target (the code as it is
now): either nothing (the table is restored exactly), or exactly one move whose new gap is
not larger than `imbalance`. -/
theorem tryTargets_spec (cfg : Cfg) (hb : cfg.breakAfterMove = true) {p : Nat} {w lp : Int}
    (qs : List Nat) (s : St) (hp : s.pl[p]? = some lp) (hqs : ∀ q ∈ qs, q < s.pl.length)
    (hu : cfg.unsigned = true → w ≤ lp ∧ ∀ x ∈ s.pl, 0 ≤ x) :
    tryTargets cfg p w qs s = some s ∨
    ∃ q lq, q ∈ qs ∧ p ≠ q ∧ s.pl[q]? = some lq ∧ gap (moved s.pl p q lp lq w) ≤ s.imb ∧
      tryTargets cfg p w qs s
        = some { s with pl := moved s.pl p q lp lq w, imb := gap (moved s.pl p q lp lq w),
                        mx := maxL (moved s.pl p q lp lq w), ids := s.ids.set s.i q,
                        iLast := s.i } := by
  induction qs with
  | nil => left; rfl
  | cons q qs ih =>
    have ih' := ih (fun q' hq' => hqs q' (List.mem_cons_of_mem _ hq'))
    unfold tryTargets
    by_cases hpq : p = q
    · subst hpq
      simp only [beq_self_eq_true, if_true]
      rcases ih' with h | ⟨q', lq, h1, h2, h3, h4, h5⟩
      · left; exact h
      · right; exact ⟨q', lq, List.mem_cons_of_mem _ h1, h2, h3, h4, h5⟩
    · have hbeq : (p == q) = false := by simpa using hpq
      simp only [hbeq, Bool.false_eq_true, if_false]
      have hql : q < s.pl.length := hqs q (by simp)
      have hq : s.pl[q]? = some s.pl[q] := List.getElem?_eq_getElem hql
      rw [tentative_eq cfg w hpq hp hq (fun hh => (hu hh).1)]
      simp only
      by_cases hrej : s.imb < gap (moved s.pl p q lp s.pl[q] w)
      · simp only [hrej, if_true]
        rw [rollback_eq cfg w hpq hp hq (fun hh => (hu hh).2 _ (List.getElem_mem hql))]
        simp only
        rcases ih' with h | ⟨q', lq, h1, h2, h3, h4, h5⟩
        · left; exact h
        · right; exact ⟨q', lq, List.mem_cons_of_mem _ h1, h2, h3, h4, h5⟩
      · simp only [hrej, if_false, hb, if_true]
        right
        exact ⟨q, s.pl[q], by simp, hpq, hq, by omega, rfl⟩

/-! ## The loop invariant of `vn_first` -/

/-- The bookkeeping of `vn_first` is exact: the load table is the table of true loads of the
current array, `imbalance`/`max_load` are its gap and maximum; the array keeps its length and
its ids stay below the part count. -/
structure Inv (ws : List Int) (k : Nat) (s : St) : Prop where
  len : s.ids.length = ws.length
  rng : InRange s.ids k
  pl : s.pl = loads ws s.ids k
  imb : s.imb = gap s.pl
  mx : s.mx = maxL s.pl

theorem step_spec (cfg : Cfg) (hb : cfg.breakAfterMove = true) {ws : List Int} {k : Nat}
    (hws : ws ≠ []) (hu : cfg.unsigned = true → ∀ w ∈ ws, 0 ≤ w) {s : St} (hinv : Inv ws k s) :
    ∃ s', step cfg ws k s = some s' ∧ Inv ws k s' ∧ gap s'.pl ≤ gap s.pl ∧
      s'.i = (s.i + 1) % ws.length ∧
      ((s'.ids = s.ids ∧ s'.iLast = s.iLast) ∨
        ∃ q, q < k ∧ s'.ids = s.ids.set s'.i q ∧ s'.iLast = s'.i) := by
  have hlen : 0 < ws.length := List.length_pos_iff.2 hws
  have hi : (s.i + 1) % ws.length < ws.length := Nat.mod_lt _ hlen
  generalize hi' : (s.i + 1) % ws.length = i at hi
  have hil : i < s.ids.length := by rw [hinv.len]; exact hi
  obtain ⟨p, hidp⟩ : ∃ p, s.ids[i]? = some p := ⟨s.ids[i], List.getElem?_eq_getElem hil⟩
  obtain ⟨w, hwp⟩ : ∃ w, ws[i]? = some w := ⟨ws[i], List.getElem?_eq_getElem hi⟩
  have hpk : p < k := hinv.rng _ (List.mem_of_getElem? hidp)
  have hlp : s.pl[p]? = some (load ws s.ids p) := by
    rw [hinv.pl]; exact getElem?_loads hpk
  unfold step
  simp only [hi', hidp, hwp, hlp]
  by_cases hc : load ws s.ids p < s.mx
  · simp only [hc, if_true]
    exact ⟨_, rfl, ⟨hinv.len, hinv.rng, hinv.pl, hinv.imb, hinv.mx⟩, Int.le_refl _, rfl,
      Or.inl ⟨rfl, rfl⟩⟩
  · simp only [hc, if_false]
    have hspec := tryTargets_spec cfg hb (p := p) (w := w)
      (List.range k) { s with i := i } hlp
      (by intro q hq; simp only [hinv.pl, length_loads]; exact List.mem_range.1 hq)
      (by
        intro hh
        refine ⟨le_load (hu hh) hidp hwp, ?_⟩
        intro x hx
        simp only [hinv.pl, loads, List.mem_map] at hx
        obtain ⟨j, _, rfl⟩ := hx
        exact load_nonneg (hu hh) _ _)
    rcases hspec with h | ⟨q, lq, hq1, hq2, hq3, hq4, hq5⟩
    · rw [h]
      exact ⟨_, rfl, ⟨hinv.len, hinv.rng, hinv.pl, hinv.imb, hinv.mx⟩, Int.le_refl _, rfl,
        Or.inl ⟨rfl, rfl⟩⟩
    · rw [hq5]
      have hqk : q < k := List.mem_range.1 hq1
      have hlq : lq = load ws s.ids q := by
        simp only [hinv.pl, getElem?_loads hqk, Option.some.injEq] at hq3
        exact hq3.symm
      have hpl2 : moved s.pl p q (load ws s.ids p) lq w
          = loads ws (s.ids.set i q) k := by
        rw [loads_set hidp hwp hq2 hpk hqk, hlq, hinv.pl]; rfl
      refine ⟨_, rfl, ⟨?_, ?_, ?_, rfl, rfl⟩, ?_, rfl, Or.inr ⟨q, hqk, rfl, rfl⟩⟩
      · simp [hinv.len]
      · exact hinv.rng.set _ hqk
      · exact hpl2
      · have := hinv.imb
        simp only at hq4 ⊢
        omega

/-- The invariant holds at every loop head (after any number of turns of the body), and no
turn panics. -/
theorem steps_spec (cfg : Cfg) (hb : cfg.breakAfterMove = true) {ws : List Int} {k : Nat}
    (hws : ws ≠ []) (hu : cfg.unsigned = true → ∀ w ∈ ws, 0 ≤ w) (n : Nat) {s : St}
    (hinv : Inv ws k s) :
    ∃ s', steps cfg ws k n s = some s' ∧ Inv ws k s' ∧ gap s'.pl ≤ gap s.pl := by
  induction n generalizing s with
  | zero => exact ⟨s, rfl, hinv, Int.le_refl _⟩
  | succ n ih =>
    obtain ⟨s1, h1, hinv1, hg1, _⟩ := step_spec cfg hb hws hu hinv
    obtain ⟨s2, h2, hinv2, hg2⟩ := ih hinv1
    refine ⟨s2, ?_, hinv2, by omega⟩
    simp only [steps, h1, h2]

/-- Enough fuel is left at a loop head: the loop was either just left (`i = i_last`) or no move
was accepted so far (`i_last = 0`) and the cursor has `len - i` (resp. `len` at the start)
positions to go before it wraps to `0`. -/
def FuelOk (len fuel : Nat) (s : St) : Prop :=
  s.i = s.iLast ∨
    (s.iLast = 0 ∧ 0 < s.i ∧ s.i ≤ len ∧ (s.i = len → len ≤ fuel) ∧ (s.i < len → len ≤ s.i + fuel))

theorem scan_spec (cfg : Cfg) (hb : cfg.breakAfterMove = true) {ws : List Int} {k : Nat}
    (hws : ws ≠ []) (hu : cfg.unsigned = true → ∀ w ∈ ws, 0 ≤ w) (fuel : Nat) {s : St}
    (hinv : Inv ws k s) (hf : FuelOk ws.length fuel s) :
    ∃ s', scan cfg ws k fuel s = some s' ∧ Inv ws k s' ∧ gap s'.pl ≤ gap s.pl ∧
      (s'.ids = s.ids ∨ ∃ j q, q < k ∧ s'.ids = s.ids.set j q) := by
  have hlen : 0 < ws.length := List.length_pos_iff.2 hws
  induction fuel generalizing s with
  | zero =>
    have : s.i = s.iLast := by
      rcases hf with h | ⟨h0, h1, h2, h3, h4⟩
      · exact h
      · exfalso
        rcases Nat.lt_or_ge s.i ws.length with h | h
        · have := h4 h; omega
        · have := h3 (by omega); omega
    refine ⟨s, ?_, hinv, Int.le_refl _, Or.inl rfl⟩
    simp [scan, this]
  | succ fuel ih =>
    by_cases he : s.i = s.iLast
    · refine ⟨s, ?_, hinv, Int.le_refl _, Or.inl rfl⟩
      simp [scan, he]
    · have hne : (s.i == s.iLast) = false := by simpa using he
      obtain ⟨s1, h1, hinv1, hg1, hi1, hmv⟩ := step_spec cfg hb hws hu hinv
      simp only [scan, hne, Bool.false_eq_true, if_false, h1]
      rcases hf with h | ⟨h0, hpos, hle, h3, h4⟩
      · exact absurd h he
      rcases hmv with ⟨hids, hlast⟩ | ⟨q, hqk, hids, hlast⟩
      · -- no move: the cursor advanced, fuel still suffices
        have hf1 : FuelOk ws.length fuel s1 := by
          rcases Nat.lt_or_ge s.i ws.length with hlt | hge
          · have h4' := h4 hlt
            by_cases hw : s.i + 1 = ws.length
            · left; rw [hi1, hw, Nat.mod_self, hlast, h0]
            · right
              have : (s.i + 1) % ws.length = s.i + 1 := Nat.mod_eq_of_lt (by omega)
              rw [hi1, this, hlast]
              exact ⟨h0, by omega, by omega, by omega, by omega⟩
          · have hil : s.i = ws.length := by omega
            have h3' := h3 hil
            by_cases hw : ws.length = 1
            · left; rw [hi1, hil, hw, hlast, h0]
            · right
              have : (s.i + 1) % ws.length = 1 := by
                rw [hil, Nat.add_mod_left]; exact Nat.mod_eq_of_lt (by omega)
              rw [hi1, this, hlast]
              exact ⟨h0, by omega, by omega, by omega, by omega⟩
        obtain ⟨s2, h2, hinv2, hg2, hmv2⟩ := ih hinv1 hf1
        refine ⟨s2, h2, hinv2, by omega, ?_⟩
        rw [hids] at hmv2; exact hmv2
      · -- a move was accepted: `i_last = i`, the loop test fails at once
        have hf1 : FuelOk ws.length fuel s1 := Or.inl hlast.symm
        obtain ⟨s2, h2, hinv2, hg2, _⟩ := ih hinv1 hf1
        have hs2 : s2 = s1 := by
          have : scan cfg ws k fuel s1 = some s1 := by
            cases fuel <;> simp [scan, hlast.symm]
          rw [this] at h2; exact (Option.some.inj h2).symm
        subst hs2
        exact ⟨s2, h2, hinv2, by omega, Or.inr ⟨_, q, hqk, hids⟩⟩

theorem start_eq (cfg : Cfg) (ids : List Nat) (ws : List Int) :
    start cfg ids ws = some ⟨ws.length, 0, ids, loads ws ids (partCount ids),
      gap (loads ws ids (partCount ids)), maxL (loads ws ids (partCount ids)), 0⟩ := by
  have hne : loads ws ids (partCount ids) ≠ [] := loads_ne_nil (by simp [partCount])
  simp only [start, minmax_eq hne, csub_of_le cfg (fun _ => minL_le_maxL hne), gap]

/-- Everything the property theorems need about a run on inputs of equal lengths. -/
theorem run_spec (cfg : Cfg) (hb : cfg.breakAfterMove = true) (ids : List Nat) (ws : List Int)
    (hlen : ws.length = ids.length) (hu : cfg.unsigned = true → ∀ w ∈ ws, 0 ≤ w) :
    ∃ ids' c, run cfg ids ws = .ok ids' c ∧ ids'.length = ids.length ∧
      InRange ids' (partCount ids) ∧
      gap (loads ws ids' (partCount ids)) ≤ gap (loads ws ids (partCount ids)) ∧
      (ids' = ids ∨ ∃ j q, q < partCount ids ∧ ids' = ids.set j q) := by
  unfold run
  simp only [show (ws.length ≠ ids.length) = False from by simp [hlen], if_false]
  split
  · exact ⟨ids, 0, rfl, rfl, inRange_partCount ids, Int.le_refl _, Or.inl rfl⟩
  · next hne =>
    split
    · exact ⟨ids, 0, rfl, rfl, inRange_partCount ids, Int.le_refl _, Or.inl rfl⟩
    · have hws : ws ≠ [] := by
        intro h; subst h; simp at hne
      rw [start_eq]
      simp only
      have hinv0 : Inv ws (partCount ids) ⟨ws.length, 0, ids, loads ws ids (partCount ids),
          gap (loads ws ids (partCount ids)), maxL (loads ws ids (partCount ids)), 0⟩ :=
        ⟨hlen.symm, inRange_partCount ids, rfl, rfl, rfl⟩
      have hlpos : 0 < ws.length := List.length_pos_iff.2 hws
      obtain ⟨s', h1, hinv', hg, hmv⟩ := scan_spec cfg hb hws hu ws.length hinv0
        (Or.inr ⟨rfl, hlpos, Nat.le_refl _, fun _ => Nat.le_refl _, fun h => absurd h (Nat.lt_irrefl _)⟩)
      rw [h1]
      refine ⟨s'.ids, s'.cnt, rfl, ?_, hinv'.rng, ?_, hmv⟩
      · rw [hinv'.len, hlen]
      · rw [← hinv'.pl]; exact hg

end Coupe.VnFirst

/-! # VnBest -/

namespace Coupe.Vn

theorem wiLt_le {e x : WI} (h : wiLt e x = true) : e.1 ≤ x.1 := by
  simp only [wiLt, Bool.or_eq_true, Bool.and_eq_true, decide_eq_true_eq, beq_iff_eq] at h
  omega

theorem wiLt_ge {e x : WI} (h : ¬ wiLt e x = true) : x.1 ≤ e.1 := by
  simp only [wiLt, Bool.or_eq_true, Bool.and_eq_true, decide_eq_true_eq, beq_iff_eq] at h
  omega

theorem mem_insAsc {e y : WI} {l : List WI} : y ∈ insAsc e l ↔ y = e ∨ y ∈ l := by
  induction l with
  | nil => simp [insAsc]
  | cons x xs ih =>
    simp only [insAsc]
    split
    · simp only [List.mem_cons]
    · simp only [List.mem_cons, ih]; grind

theorem mem_sortAsc {y : WI} {l : List WI} : y ∈ sortAsc l ↔ y ∈ l := by
  induction l with
  | nil => simp [sortAsc]
  | cons x xs ih => simp only [sortAsc, mem_insAsc, ih, List.mem_cons]

/-- Weights ascending. -/
def Sorted (l : List WI) : Prop := l.Pairwise (fun x y => x.1 ≤ y.1)

theorem sorted_insAsc {e : WI} {l : List WI} (h : Sorted l) : Sorted (insAsc e l) := by
  induction l with
  | nil => simp [insAsc, Sorted]
  | cons x xs ih =>
    simp only [Sorted, List.pairwise_cons] at h
    simp only [insAsc]
    split
    · next hlt =>
      have hex := wiLt_le hlt
      simp only [Sorted, List.pairwise_cons, List.mem_cons]
      refine ⟨?_, h.1, h.2⟩
      intro y hy
      rcases hy with rfl | hy
      · exact hex
      · exact Int.le_trans hex (h.1 y hy)
    · next hge =>
      have hxe := wiLt_ge hge
      simp only [Sorted, List.pairwise_cons]
      refine ⟨?_, ih h.2⟩
      intro y hy
      rcases mem_insAsc.1 hy with rfl | hy
      · exact hxe
      · exact h.1 y hy

theorem sorted_sortAsc (l : List WI) : Sorted (sortAsc l) := by
  induction l with
  | nil => simp [sortAsc, Sorted]
  | cons x xs ih => exact sorted_insAsc ih

theorem mem_takeWhile {α} {p : α → Bool} {l : List α} {x : α} (h : x ∈ l.takeWhile p) :
    x ∈ l ∧ p x = true := by
  induction l with
  | nil => simp at h
  | cons y ys ih =>
    simp only [List.takeWhile_cons] at h
    split at h
    · next hy =>
      rcases List.mem_cons.1 h with rfl | h
      · exact ⟨by simp, hy⟩
      · exact ⟨List.mem_cons_of_mem _ (ih h).1, (ih h).2⟩
    · simp at h

theorem mem_dropWhile {α} {p : α → Bool} {l : List α} {x : α} (h : x ∈ l.dropWhile p) : x ∈ l := by
  rw [← List.takeWhile_append_dropWhile (p := p) (l := l)]
  exact List.mem_append_right _ h

/-- On a sorted `criterion` everything from the partition point on is `≥ target`. -/
theorem sorted_dropWhile {l : List WI} {t2 : Int} (h : Sorted l) {x : WI}
    (hx : x ∈ l.dropWhile (fun c => decide (2 * c.1 < t2))) : t2 ≤ 2 * x.1 := by
  induction l with
  | nil => simp at hx
  | cons y ys ih =>
    simp only [Sorted, List.pairwise_cons] at h
    simp only [List.dropWhile_cons] at hx
    split at hx
    · exact ih h.2 hx
    · next hy =>
      simp only [decide_eq_true_eq] at hy
      rcases List.mem_cons.1 hx with rfl | hx
      · omega
      · have := h.1 x hx; omega

end Coupe.Vn

namespace Coupe.VnBest
open Coupe.Vn

/-- Which element `choose` picks: always the head of one of the two zippers. -/
theorem choose_some {cfg : Cfg} {t2 : Int} {above below : List WI} {c : WI} {isAbove : Bool}
    (h : choose cfg t2 above below = some (some (c, isAbove))) :
    (isAbove = true ∧ ∃ r, above = c :: r) ∨ (isAbove = false ∧ ∃ r, below = c :: r) := by
  unfold choose at h
  split at h
  · simp at h
  · simp only [Option.some.injEq, Prod.mk.injEq] at h
    obtain ⟨rfl, rfl⟩ := h
    exact Or.inr ⟨rfl, _, rfl⟩
  · simp only [Option.some.injEq, Prod.mk.injEq] at h
    obtain ⟨rfl, rfl⟩ := h
    exact Or.inl ⟨rfl, _, rfl⟩
  · split at h
    · split at h
      · simp only [Option.some.injEq, Prod.mk.injEq] at h
        obtain ⟨rfl, rfl⟩ := h
        exact Or.inl ⟨rfl, _, rfl⟩
      · simp only [Option.some.injEq, Prod.mk.injEq] at h
        obtain ⟨rfl, rfl⟩ := h
        exact Or.inr ⟨rfl, _, rfl⟩
    · simp at h

theorem choose_ne_none {cfg : Cfg} {t2 : Int} {above below : List WI}
    (ha : cfg.unsigned = true → ∀ a ∈ above, t2 ≤ 2 * a.1)
    (hbl : cfg.unsigned = true → ∀ b ∈ below, 2 * b.1 ≤ t2) :
    choose cfg t2 above below ≠ none := by
  unfold choose
  split
  · simp
  · simp
  · simp
  · next a _ b _ =>
    rw [csub_of_le cfg (fun hh => ha hh a (by simp)), csub_of_le cfg (fun hh => hbl hh b (by simp))]
    simp only
    split <;> simp

/-- `maybe_nearest` only ever returns an element of `criterion` that sits in the
overweight part. -/
theorem nearest_found {cfg : Cfg} {ids : List Nat} {o : Nat} {t2 : Int} (fuel : Nat)
    {above below : List WI} {c : WI} (h : nearest cfg ids o t2 fuel above below = .found c) :
    (c ∈ above ∨ c ∈ below) ∧ ids[c.2]? = some o := by
  induction fuel generalizing above below with
  | zero => simp [nearest] at h
  | succ fuel ih =>
    unfold nearest at h
    split at h
    · simp at h
    · simp at h
    · next c' isAbove hch =>
      split at h
      · simp at h
      · next p hp =>
        split at h
        · next hpo =>
          simp only [Near.found.injEq] at h
          subst h
          have hpo' : p = o := by simpa using hpo
          refine ⟨?_, hpo' ▸ hp⟩
          rcases choose_some hch with ⟨_, r, rfl⟩ | ⟨_, r, rfl⟩
          · left; simp
          · right; simp
        · split at h
          · obtain ⟨hm, hid⟩ := ih h
            refine ⟨?_, hid⟩
            rcases hm with hm | hm
            · left; exact List.mem_of_mem_tail hm
            · right; exact hm
          · obtain ⟨hm, hid⟩ := ih h
            refine ⟨?_, hid⟩
            rcases hm with hm | hm
            · left; exact hm
            · right; exact List.mem_of_mem_tail hm

theorem nearest_ne_abort {cfg : Cfg} {ids : List Nat} {o : Nat} {t2 : Int} (fuel : Nat)
    {above below : List WI} (hf : above.length + below.length + 1 ≤ fuel)
    (hia : ∀ c ∈ above, c.2 < ids.length) (hib : ∀ c ∈ below, c.2 < ids.length)
    (ha : cfg.unsigned = true → ∀ a ∈ above, t2 ≤ 2 * a.1)
    (hbl : cfg.unsigned = true → ∀ b ∈ below, 2 * b.1 ≤ t2) :
    nearest cfg ids o t2 fuel above below ≠ .abort := by
  induction fuel generalizing above below with
  | zero => omega
  | succ fuel ih =>
    unfold nearest
    split
    · next hch => exact absurd hch (choose_ne_none ha hbl)
    · simp
    · next c isAbove hch =>
      have hc : c.2 < ids.length := by
        rcases choose_some hch with ⟨_, r, rfl⟩ | ⟨_, r, rfl⟩
        · exact hia c (by simp)
        · exact hib c (by simp)
      rw [List.getElem?_eq_getElem hc]
      simp only
      split
      · simp
      · rcases choose_some hch with ⟨rfl, r, rfl⟩ | ⟨rfl, r, rfl⟩
        · simp only [if_true, List.tail_cons]
          apply ih
          · simp only [List.length_cons] at hf; omega
          · exact fun x hx => hia x (List.mem_cons_of_mem _ hx)
          · exact hib
          · exact fun hh x hx => ha hh x (List.mem_cons_of_mem _ hx)
          · exact hbl
        · simp only [Bool.false_eq_true, if_false, List.tail_cons]
          apply ih
          · simp only [List.length_cons] at hf; omega
          · exact hia
          · exact fun x hx => hib x (List.mem_cons_of_mem _ hx)
          · exact ha
          · exact fun hh x hx => hbl hh x (List.mem_cons_of_mem _ hx)

end Coupe.VnBest

namespace Coupe.VnBest
open Coupe.Vn

/-- A move of weight `0 < w < hi - lo` from a cell holding the maximum `hi` to a cell holding
the minimum `lo` strictly lowers Σ load². -/
theorem sumsq_move_lt {pl : List Int} {o u : Nat} {lo lu w : Int} (ho : pl[o]? = some lo)
    (hu1 : (pl.set o (lo - w))[u]? = some lu) (hw : 0 < w) (hlt : w < lo - lu) :
    sumsq ((pl.set o (lo - w)).set u (lu + w)) < sumsq pl := by
  rw [sumsq_set _ hu1, sumsq_set _ ho]
  have h1 : 0 < w * (lo - lu - w) := Int.mul_pos hw (by omega)
  nlinarith [h1]

/-- `vn_best_mono`'s outer loop: started with an exact load table, enough fuel for the
measure Σ load² and all loads within `[m, M]`, it returns `Ok`, keeps the array's length and
the id range, and all loads stay within `[m, M]`. -/
theorem loop_spec (cfg : Cfg) {ws : List Int} {k : Nat} {crit : List WI} (m M : Int)
    (hk : 0 < k) (hnn : ∀ w ∈ ws, 0 ≤ w)
    (hcrit : ∀ c ∈ crit, ws[c.2]? = some c.1) (hsorted : Sorted crit)
    (fuel : Nat) (ids : List Nat) (cnt : Nat)
    (hlen : ids.length = ws.length) (hr : InRange ids k)
    (hfuel : sumsq (loads ws ids k) < (fuel : Int))
    (hbd : ∀ x ∈ loads ws ids k, m ≤ x ∧ x ≤ M) :
    ∃ ids' c, loop cfg crit fuel ids (loads ws ids k) cnt = .ok ids' c ∧
      ids'.length = ws.length ∧ InRange ids' k ∧ ∀ x ∈ loads ws ids' k, m ≤ x ∧ x ≤ M := by
  induction fuel generalizing ids cnt with
  | zero =>
    have := sumsq_nonneg (loads ws ids k)
    simp at hfuel; omega
  | succ fuel ih =>
    have hne : loads ws ids k ≠ [] := loads_ne_nil hk
    -- the extreme parts
    obtain ⟨⟨u, lu⟩, hmin⟩ : ∃ r, minFirst (loads ws ids k) = some r := by
      cases h : minFirst (loads ws ids k) with
      | none => exact absurd (minFirst_eq_none.1 h) hne
      | some r => exact ⟨r, rfl⟩
    obtain ⟨⟨o, lo⟩, hmax⟩ : ∃ r, maxLast (loads ws ids k) = some r := by
      cases h : maxLast (loads ws ids k) with
      | none => exact absurd (maxLast_eq_none.1 h) hne
      | some r => exact ⟨r, rfl⟩
    obtain ⟨hu1, hu2⟩ := minFirst_spec hmin
    obtain ⟨ho1, ho2⟩ := maxLast_spec hmax
    have hle : lu ≤ lo := by rw [hu2, ho2]; exact minL_le_maxL hne
    have huk : u < k := by
      rcases Nat.lt_or_ge u k with h | h
      · exact h
      · rw [getElem?_loads_none h] at hu1; simp at hu1
    have hok : o < k := by
      rcases Nat.lt_or_ge o k with h | h
      · exact h
      · rw [getElem?_loads_none h] at ho1; simp at ho1
    have hlo : lo = load ws ids o := by
      rw [getElem?_loads hok] at ho1; exact (Option.some.inj ho1).symm
    have hlu : lu = load ws ids u := by
      rw [getElem?_loads huk] at hu1; exact (Option.some.inj hu1).symm
    have hlum : lu ∈ loads ws ids k := List.mem_of_getElem? hu1
    have hlom : lo ∈ loads ws ids k := List.mem_of_getElem? ho1
    unfold loop
    simp only [hmin, hmax, csub_of_le cfg (fun _ => hle)]
    -- the search
    generalize ht2 : target2 cfg (lo - lu) = t2
    have hmemA : ∀ c ∈ crit.dropWhile (fun c => decide (2 * c.1 < t2)), c ∈ crit :=
      fun c hc => mem_dropWhile hc
    have hmemB : ∀ c ∈ (crit.takeWhile (fun c => decide (2 * c.1 < t2))).reverse, c ∈ crit :=
      fun c hc => (mem_takeWhile (List.mem_reverse.1 hc)).1
    have hidx : ∀ c ∈ crit, c.2 < ids.length := by
      intro c hc
      have := hcrit c hc
      rcases Nat.lt_or_ge c.2 ws.length with h | h
      · omega
      · simp [List.getElem?_eq_none h] at this
    have hfl : (crit.dropWhile (fun c => decide (2 * c.1 < t2))).length
        + ((crit.takeWhile (fun c => decide (2 * c.1 < t2))).reverse).length + 1
        ≤ crit.length + 1 := by
      have := congrArg List.length
        (List.takeWhile_append_dropWhile (p := fun c : WI => decide (2 * c.1 < t2)) (l := crit))
      simp only [List.length_append] at this
      simp only [List.length_reverse]; omega
    have hnab := nearest_ne_abort (cfg := cfg) (ids := ids) (o := o) (t2 := t2) (crit.length + 1) hfl
      (fun c hc => hidx c (hmemA c hc)) (fun c hc => hidx c (hmemB c hc))
      (fun _ a ha => sorted_dropWhile hsorted ha)
      (fun _ b hb => by
        have := (mem_takeWhile (List.mem_reverse.1 hb)).2
        simp only [decide_eq_true_eq] at this; omega)
    split
    · next hab => exact absurd hab hnab
    · exact ⟨ids, cnt, rfl, hlen, hr, hbd⟩
    · next w id hfound =>
      obtain ⟨hmem, hido⟩ := nearest_found _ hfound
      have hc : (w, id) ∈ crit := by
        rcases hmem with h | h
        · exact hmemA _ h
        · exact hmemB _ h
      have hwid : ws[id]? = some w := hcrit _ hc
      have hw0 : 0 ≤ w := hnn w (List.mem_of_getElem? hwid)
      split
      · exact ⟨ids, cnt, rfl, hlen, hr, hbd⟩
      · next hcond =>
        simp only [Bool.or_eq_true, decide_eq_true_eq, beq_iff_eq, not_or] at hcond
        obtain ⟨hc1, hc2⟩ := hcond
        have hwpos : 0 < w := by omega
        have hwlt : w < lo - lu := by omega
        have hidl : id < ids.length := hidx _ hc
        have hwle : w ≤ lo := by rw [hlo]; exact le_load hnn hido hwid
        have huo : o ≠ u := by
          intro h; subst h
          rw [ho1] at hu1
          have := Option.some.inj hu1
          omega
        have hu1' : ((loads ws ids k).set o (lo - w))[u]? = some lu := by
          rw [List.getElem?_set]; simp [huo, hu1]
        simp only [hidl, if_true, csub_of_le cfg (fun _ => hwle), hu1]
        split
        · exact ⟨ids, cnt, rfl, hlen, hr, hbd⟩
        have hpl' : ((loads ws ids k).set o (lo - w)).set u (lu + w) = loads ws (ids.set id u) k := by
          rw [loads_set hido hwid huo hok huk, hlo, hlu]
        rw [hpl']
        have hlt := sumsq_move_lt ho1 hu1' hwpos hwlt
        rw [hpl'] at hlt
        apply ih
        · simp [hlen]
        · exact hr.set _ huk
        · push_cast at hfuel ⊢; omega
        · intro x hx
          rw [← hpl'] at hx
          have hb1 := hbd _ hlum
          have hb2 := hbd _ hlom
          rcases List.mem_or_eq_of_mem_set hx with hx | rfl
          · rcases List.mem_or_eq_of_mem_set hx with hx | rfl
            · exact hbd _ hx
            · omega
          · omega

/-- The guard added by commit bff6050 (N9) – `break` unless both new loads are strictly below
the current maximum – never fires on exact weights: after `imbalance > w > 0` the new overweight
load `lo - w` and the new underweight load `lu + w` are both `< lo`. -/
theorem guard_vacuous_int {lo lu w : Int} (hw : 0 < w) (hlt : w < lo - lu) :
    (!(decide (lo - w < lo) && decide (lu + w < lo))) = false := by
  have h1 : lo - w < lo := by omega
  have h2 : lu + w < lo := by omega
  simp [h1, h2]

/-- No weight is negative once the `any(< 0)` test has failed. -/
theorem nonneg_of_not_any {ws : List Int} (h : ¬ ws.any (fun w => decide (w < 0)) = true) :
    ∀ w ∈ ws, 0 ≤ w := by
  intro w hw
  simp only [List.any_eq_true, decide_eq_true_eq, not_exists, not_and] at h
  have := h w hw; omega

/-- Everything the property theorems need about a run of VnBest. -/
theorem run_spec (cfg : Cfg) (ids : List Nat) (ws : List Int) (hlen : ws.length = ids.length)
    (hnn : ∀ w ∈ ws, 0 ≤ w) :
    ∃ ids' c, run cfg ids ws = .ok ids' c ∧ ids'.length = ids.length ∧
      InRange ids' (partCount ids) ∧
      gap (loads ws ids' (partCount ids)) ≤ gap (loads ws ids (partCount ids)) := by
  have hk : 0 < partCount ids := by simp [partCount]
  have hany : ¬ ws.any (fun w => decide (w < 0)) = true := by
    simp only [List.any_eq_true, decide_eq_true_eq, not_exists, not_and]
    intro w hw; have := hnn w hw; omega
  unfold run
  simp only [show (ws.length ≠ ids.length) = False from by simp [hlen], if_false]
  rw [if_neg hany]
  split
  · exact ⟨ids, 0, rfl, rfl, inRange_partCount ids, Int.le_refl _⟩
  · have hcrit : ∀ c ∈ sortAsc ws.zipIdx, ws[c.2]? = some c.1 := by
      intro c hc
      exact List.mem_zipIdx_iff_getElem?.1 (mem_sortAsc.1 hc)
    have hfuel : sumsq (loads ws ids (partCount ids))
        < (((sumsq (loads ws ids (partCount ids))).toNat + 1 : Nat) : Int) := by
      have := sumsq_nonneg (loads ws ids (partCount ids))
      push_cast
      rw [Int.toNat_of_nonneg this]; omega
    obtain ⟨ids', c, h1, h2, h3, h4⟩ := loop_spec cfg (minL (loads ws ids (partCount ids)))
      (maxL (loads ws ids (partCount ids))) hk hnn hcrit (sorted_sortAsc _) _ ids 0 hlen.symm
      (inRange_partCount ids) hfuel (fun x hx => ⟨minL_le hx, le_maxL hx⟩)
    exact ⟨ids', c, h1, by omega, h3, gap_le_of_bounds (loads_ne_nil hk) h4⟩

end Coupe.VnBest
