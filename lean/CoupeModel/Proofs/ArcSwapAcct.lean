import CoupeModel.Proofs.ArcSwapInv
import CoupeModel.Proofs.ArcSwapCut

/-!
# ArcSwap model, part 5: accounting invariants

On top of `Inv1` (structure + lock protocol):
* `ReadInv`: what a task has read while holding a vertex validated still describes
  the shared partition (needs `nbr_stable`): the gain it is about to apply is the true
  cut change;
* `Inv2`: cut accounting, move accounting, load accounting and the per-thread budget.
-/

namespace Coupe.ArcSwap

/-! ### graph facts -/

theorem mem_edges {g : Graph} {a b : Nat} {w : Int} : (a, b, w) ∈ edges g ↔ (b, w) ∈ adj g a := by
  unfold edges adj
  simp only [List.mem_flatMap, List.mem_map, Prod.mk.injEq, Prod.exists]
  constructor
  · rintro ⟨row, i, hmem, b', w', hb, rfl, rfl, rfl⟩
    rw [List.mem_zipIdx_iff_getElem?] at hmem
    simp [List.getD_eq_getElem?_getD, hmem, hb]
  · intro h
    rw [List.getD_eq_getElem?_getD] at h
    cases hg : g[a]? with
    | none => rw [hg] at h; simp at h
    | some row =>
      rw [hg] at h
      exact ⟨row, a, List.mem_zipIdx_iff_getElem?.2 hg, b, w, h, rfl, rfl, rfl⟩

theorem adj_iff {g : Graph} {a b : Nat} : Adj g a b ↔ ∃ w, (b, w) ∈ adj g a := by
  constructor
  · rintro ⟨j, hj, rfl⟩
    exact ⟨_, nbr_mem hj⟩
  · rintro ⟨w, h⟩
    obtain ⟨j, hj, he⟩ := List.mem_iff_getElem.1 h
    refine ⟨j, hj, ?_⟩
    unfold nbr
    simp [List.getD_eq_getElem?_getD, List.getElem?_eq_getElem hj, he]

theorem Sym.symAdj {g : Graph} (h : Sym g) : SymAdj g := by
  intro a b hab
  obtain ⟨w, hw⟩ := adj_iff.1 hab
  have h1 : (a, b, w) ∈ edges g := mem_edges.2 hw
  have h2 : swapE (a, b, w) ∈ (edges g).map swapE := List.mem_map_of_mem h1
  have h3 := h.mem_iff.1 h2
  exact adj_iff.2 ⟨w, mem_edges.1 h3⟩

/-! ### list facts -/

theorem sum_map_set {l : List Task} {i : Nat} {t : Task} (t' : Task) (f : Task → Int) (h : l[i]? = some t) :
    ((l.set i t').map f).sum = (l.map f).sum - f t + f t' := by
  induction l generalizing i with
  | nil => simp at h
  | cons a l ih =>
    cases i with
    | zero =>
      simp only [List.getElem?_cons_zero, Option.some.injEq] at h
      subst h
      simp only [List.set_cons_zero, List.map_cons, List.sum_cons]; omega
    | succ i =>
      simp only [List.getElem?_cons_succ] at h
      simp only [List.set_cons_succ, List.map_cons, List.sum_cons, ih h]; omega

theorem sum_map_set_same {l : List Task} {i : Nat} {t : Task} (t' : Task) (f : Task → Int) (h : l[i]? = some t)
    (hf : f t' = f t) : ((l.set i t').map f).sum = (l.map f).sum := by
  rw [sum_map_set t' f h, hf]; omega

theorem load_set (ws : List Int) (ids : List Nat) (v t k : Nat) (hv : v < ids.length) :
    Coupe.load ws (ids.set v t) k =
      Coupe.load ws ids k - (if ids.getD v 0 = k then ws.getD v 0 else 0) + (if t = k then ws.getD v 0 else 0) := by
  unfold Coupe.load
  induction ids generalizing ws v with
  | nil => simp at hv
  | cons a ids ih =>
    cases ws with
    | nil => simp
    | cons x ws =>
      cases v with
      | zero =>
        simp only [List.set_cons_zero, List.zip_cons_cons, List.filter_cons, List.getD_cons_zero]
        by_cases h1 : t = k <;> by_cases h2 : a = k <;> simp [h1, h2] <;> omega
      | succ v =>
        simp only [List.length_cons, Nat.add_lt_add_iff_right] at hv
        have := ih ws v hv
        simp only [List.set_cons_succ, List.zip_cons_cons, List.filter_cons, List.getD_cons_succ]
        by_cases h2 : a = k
        · simp only [h2, beq_self_eq_true, if_true, List.map_cons, List.sum_cons, this]; omega
        · have : (a == k) = false := by simpa using h2
          simp only [this, Bool.false_eq_true, if_false]
          assumption

theorem addAt_getD (l : List Int) (i j : Nat) (d : Int) (hi : i < l.length) :
    (addAt l i d).getD j 0 = l.getD j 0 + (if j = i then d else 0) := by
  unfold addAt
  by_cases h : i = j
  · subst h; rw [getD_set_self _ _ _ _ hi]; simp
  · rw [getD_set_ne _ _ _ _ _ h]
    have : ¬ j = i := fun h' => h h'.symm
    simp [this]

@[simp] theorem addAt_length (l : List Int) (i : Nat) (d : Int) : (addAt l i d).length = l.length := by
  simp [addAt]

/-- Number of positions where two lists differ. -/
def countDiff (a b : List Nat) : Nat := ((a.zip b).filter fun x => x.1 != x.2).length

theorem countDiff_set (a b : List Nat) (v t : Nat) : countDiff (a.set v t) b ≤ countDiff a b + 1 := by
  unfold countDiff
  induction a generalizing b v with
  | nil => simp
  | cons x a ih =>
    cases b with
    | nil => simp
    | cons y b =>
      cases v with
      | zero =>
        simp only [List.set_cons_zero, List.zip_cons_cons, List.filter_cons]
        split_ifs <;> (try simp only [List.length_cons]) <;> omega
      | succ v =>
        have := ih b v
        simp only [List.set_cons_succ, List.zip_cons_cons, List.filter_cons]
        split_ifs <;> (try simp only [List.length_cons]) <;> omega

/-! ### what a step does to the local accounting -/

theorem nextScan_md (t : Task) : (nextScan t).md = t.md ∧ (nextScan t).pw = t.pw := by
  unfold nextScan; split_ifs <;> exact ⟨rfl, rfl⟩

theorem popCut_acct (t : Task) :
    (popCut t).md.edgeCutGain = t.md.edgeCutGain ∧ (popCut t).md.moveCount = t.md.moveCount ∧
      (popCut t).md.passCount = t.md.passCount ∧ (popCut t).pw = t.pw := by
  unfold popCut
  split
  · rw [(nextScan_md t).1, (nextScan_md t).2]; exact ⟨rfl, rfl, rfl, rfl⟩
  · exact ⟨rfl, rfl, rfl, rfl⟩

theorem postNext_acct (c : Cfg) (t : Task) (mv k : Nat) :
    (postNext c t mv k).md.edgeCutGain = t.md.edgeCutGain ∧ (postNext c t mv k).md.moveCount = t.md.moveCount ∧
      (postNext c t mv k).md.passCount = t.md.passCount ∧ (postNext c t mv k).pw = t.pw := by
  unfold postNext
  split_ifs
  · exact ⟨rfl, rfl, rfl, rfl⟩
  · exact popCut_acct t

theorem decideMove_acct (c : Cfg) (tmax : List Int) (t : Task) (v ip tgt : Nat) (gain : Int) :
    (decideMove c tmax t v ip tgt gain).md.edgeCutGain = t.md.edgeCutGain ∧
      (decideMove c tmax t v ip tgt gain).md.moveCount = t.md.moveCount ∧
      (decideMove c tmax t v ip tgt gain).md.passCount = t.md.passCount ∧
      (decideMove c tmax t v ip tgt gain).pw = t.pw := by
  unfold decideMove
  split_ifs <;> exact ⟨rfl, rfl, rfl, rfl⟩

/-- The accounting fields of a task (`edge_cut_gain`, `move_count`, thread-local part
weights) change only in the step that stores a part; `pass_count` never. -/
def SameAcct (t t' : Task) : Prop :=
  t'.md.edgeCutGain = t.md.edgeCutGain ∧ t'.md.moveCount = t.md.moveCount ∧
    t'.md.passCount = t.md.passCount ∧ t'.pw = t.pw

theorem SameAcct.refl (t : Task) : SameAcct t t := ⟨rfl, rfl, rfl, rfl⟩

theorem stepTask_acct {c : Cfg} {parts : List Nat} {locks : List Bool} {tmax : List Int} {t t' : Task}
    {ev : Event} (hs : stepTask c parts locks tmax t = some (t', ev)) :
    (∀ v p, ev ≠ .partStore v p) → SameAcct t t' := by
  intro hev
  unfold stepTask at hs
  split at hs
  case h_8 => simp only [Option.some.injEq, Prod.mk.injEq] at hs; exact absurd hs.2.symm (hev _ _)
  case h_4 =>
    split_ifs at hs <;> simp only [Option.some.injEq, Prod.mk.injEq] at hs <;> obtain ⟨rfl, -⟩ := hs
    · exact popCut_acct _
    · exact ⟨rfl, rfl, rfl, rfl⟩
    · exact ⟨rfl, rfl, rfl, rfl⟩
  case h_13 => simp at hs
  case h_14 => simp at hs
  all_goals
    simp only [Option.some.injEq, Prod.mk.injEq] at hs
    obtain ⟨rfl, -⟩ := hs
    unfold SameAcct
  · split_ifs <;> exact ⟨rfl, rfl, rfl, rfl⟩
  · split_ifs
    · exact nextScan_md t |>.elim fun h1 h2 => by rw [h1, h2]; exact ⟨rfl, rfl, rfl, rfl⟩
    · exact ⟨rfl, rfl, rfl, rfl⟩
  · split_ifs
    · exact popCut_acct _
    · exact ⟨rfl, rfl, rfl, rfl⟩
    · exact nextScan_md t |>.elim fun h1 h2 => by rw [h1, h2]; exact ⟨rfl, rfl, rfl, rfl⟩
  · split_ifs <;> exact ⟨rfl, rfl, rfl, rfl⟩
  · split_ifs
    · exact ⟨rfl, rfl, rfl, rfl⟩
    · split <;> exact ⟨rfl, rfl, rfl, rfl⟩
  · split_ifs
    · exact ⟨rfl, rfl, rfl, rfl⟩
    · split
      · exact ⟨rfl, rfl, rfl, rfl⟩
      · exact decideMove_acct ..
  · split
    · split_ifs
      · exact popCut_acct t
      · exact ⟨rfl, rfl, rfl, rfl⟩
    · exact popCut_acct t
  · split_ifs
    · exact postNext_acct ..
    · split <;> exact ⟨rfl, rfl, rfl, rfl⟩
  · split_ifs
    · exact ⟨rfl, rfl, rfl, rfl⟩
    · split
      · exact ⟨rfl, rfl, rfl, rfl⟩
      · exact postNext_acct c _ _ _
    · split
      · exact ⟨rfl, rfl, rfl, rfl⟩
      · exact postNext_acct c _ _ _
  · exact ⟨rfl, rfl, rfl, rfl⟩

/-! ### what a validated task has read is still true -/

def partialGain (g : Graph) (p : List Nat) (v ip tgt k : Nat) : Int :=
  (((adj g v).take k).map fun e => contrib ip tgt (p.getD e.1 0) e.2).sum

def ReadInv (c : Cfg) (parts : List Nat) (tmax : List Int) (t : Task) : Prop :=
  match t.pc with
  | .gainRd v ip tgt k acc best =>
    ip = parts.getD v 0 ∧ acc = partialGain c.g parts v ip tgt k ∧
      ∀ b, best = some b → b.2 = gainOf c.g parts v ip b.1
  | .store v ip tgt gain =>
    ip = parts.getD v 0 ∧ gain = gainOf c.g parts v ip tgt ∧ 0 < gain ∧
      c.w.getD v 0 + t.pw.getD tgt 0 ≤ tmax.getD tgt 0
  | _ => True

def NoRead : Pc → Prop
  | .gainRd _ _ _ _ _ _ => False
  | .store _ _ _ _ => False
  | _ => True

theorem readInv_of_noRead {c : Cfg} {parts : List Nat} {tmax : List Int} {t : Task} (h : NoRead t.pc) :
    ReadInv c parts tmax t := by
  unfold ReadInv
  split
  · next hpc => rw [hpc] at h; exact h.elim
  · next hpc => rw [hpc] at h; exact h.elim
  · trivial

theorem nextScan_noRead (t : Task) : NoRead (nextScan t).pc := by
  unfold nextScan; split_ifs <;> trivial

theorem popCut_noRead (t : Task) : NoRead (popCut t).pc := by
  unfold popCut
  split
  · exact nextScan_noRead t
  · trivial

theorem postNext_noRead (c : Cfg) (t : Task) (mv k : Nat) : NoRead (postNext c t mv k).pc := by
  unfold postNext
  split_ifs
  · trivial
  · exact popCut_noRead t

macro "noread" : tactic =>
  `(tactic| first
    | exact readInv_of_noRead (popCut_noRead _)
    | exact readInv_of_noRead (nextScan_noRead _)
    | exact readInv_of_noRead (postNext_noRead _ _ _ _)
    | exact readInv_of_noRead trivial)

theorem partialGain_succ (g : Graph) (p : List Nat) (v ip tgt k : Nat) (hk : k < deg g v) :
    partialGain g p v ip tgt (k + 1) =
      partialGain g p v ip tgt k +
        contrib ip tgt (p.getD ((adj g v).getD k (0, 0)).1 0) ((adj g v).getD k (0, 0)).2 := by
  unfold partialGain deg at *
  have hg : (adj g v).getD k (0, 0) = (adj g v)[k] := by
    simp [List.getD_eq_getElem?_getD, List.getElem?_eq_getElem hk]
  rw [List.take_add_one, List.map_append, List.sum_append, List.getElem?_eq_getElem hk, hg]
  simp

theorem partialGain_full (g : Graph) (p : List Nat) (v ip tgt k : Nat) (hk : deg g v ≤ k) :
    partialGain g p v ip tgt k = gainOf g p v ip tgt := by
  unfold partialGain gainOf deg at *
  rw [List.take_of_length_le hk]

theorem better_gain {g : Graph} {p : List Nat} {v ip : Nat} {best : Option (Nat × Int)} {tgt : Nat}
    (hb : ∀ b, best = some b → b.2 = gainOf g p v ip b.1) :
    (better best tgt (gainOf g p v ip tgt)).2 = gainOf g p v ip (better best tgt (gainOf g p v ip tgt)).1 := by
  unfold better
  split
  · rfl
  · next b => split_ifs
              · rfl
              · exact hb b rfl

/-- Own step: the reads of the acting task describe the partition it has just read. -/
theorem stepTask_read {c : Cfg} {parts : List Nat} {locks : List Bool} {tmax : List Int} {t t' : Task}
    {ev : Event} (hpc2 : 2 ≤ c.partCount) (hok : PcOk c c.g.length t.pc) (hr : ReadInv c parts tmax t)
    (hs : stepTask c parts locks tmax t = some (t', ev)) : ReadInv c (ev.applyParts parts) tmax t' := by
  -- all steps except those from `ownPart` / `gainRd` end in a state without read data
  unfold stepTask at hs
  split at hs
  case h_6 v hpcv =>
    simp only [Option.some.injEq, Prod.mk.injEq] at hs
    obtain ⟨rfl, rfl⟩ := hs
    simp only [Event.applyParts]
    split_ifs
    · simp [ReadInv]
    · split
      · simp [ReadInv]
      · simp [ReadInv, partialGain]
  case h_7 v ip tgt k acc best hpcv =>
    rw [hpcv] at hok
    simp only [PcOk] at hok
    unfold ReadInv at hr
    rw [hpcv] at hr
    simp only at hr
    obtain ⟨hip, hacc, hbest⟩ := hr
    simp only [Option.some.injEq, Prod.mk.injEq] at hs
    obtain ⟨rfl, rfl⟩ := hs
    simp only [Event.applyParts]
    have hacc' := partialGain_succ c.g parts v ip tgt k hok.2.1
    rw [← hacc] at hacc'
    split_ifs with h1
    · simp only [ReadInv]
      exact ⟨hip, hacc'.symm, hbest⟩
    · have hfull : acc + contrib ip tgt (parts.getD ((adj c.g v).getD k (0, 0)).1 0) ((adj c.g v).getD k (0, 0)).2
          = gainOf c.g parts v ip tgt := by
        rw [← hacc', partialGain_full _ _ _ _ _ _ (by omega)]
      rw [hfull]
      have hb := better_gain (tgt := tgt) hbest
      split
      · simp only [ReadInv]
        refine ⟨hip, by simp [partialGain], ?_⟩
        intro b hbb
        simp only [Option.some.injEq] at hbb
        subst hbb
        exact hb
      · unfold decideMove
        split_ifs with h2 h3
        · simp [ReadInv]
        · simp [ReadInv]
        · simp only [ReadInv]
          exact ⟨hip, hb, by omega, by omega⟩
  case h_4 =>
    split_ifs at hs <;>
      (simp only [Option.some.injEq, Prod.mk.injEq] at hs; obtain ⟨rfl, rfl⟩ := hs; noread)
  case h_13 => simp at hs
  case h_14 => simp at hs
  all_goals
    simp only [Option.some.injEq, Prod.mk.injEq] at hs
    obtain ⟨rfl, rfl⟩ := hs
    simp only [Event.applyParts]
    (repeat' split) <;> noread

/-! ### frame: steps of other tasks -/

theorem partialGain_congr {g : Graph} {p p' : List Nat} {v : Nat} (ip tgt k : Nat)
    (h : ∀ u, Adj g v u → p'.getD u 0 = p.getD u 0) : partialGain g p' v ip tgt k = partialGain g p v ip tgt k := by
  unfold partialGain
  apply sum_map_congr
  intro e he
  have : e ∈ adj g v := List.mem_of_mem_take he
  rw [h e.1 (adj_iff.2 ⟨e.2, this⟩)]

theorem gainOf_congr {g : Graph} {p p' : List Nat} {v : Nat} (ip tgt : Nat)
    (h : ∀ u, Adj g v u → p'.getD u 0 = p.getD u 0) : gainOf g p' v ip tgt = gainOf g p v ip tgt := by
  unfold gainOf
  apply sum_map_congr
  intro e he
  rw [h e.1 (adj_iff.2 ⟨e.2, he⟩)]

theorem noRead_or_valid (pc : Pc) : NoRead pc ∨ ∃ v, pc.ls = .valid v := by
  cases pc <;> first | exact Or.inl trivial | exact Or.inr ⟨_, rfl⟩

theorem readInv_frame {c : Cfg} {parts parts' : List Nat} {tmax : List Int} {t : Task} {v : Nat}
    (hval : t.pc.ls = .valid v) (hv : parts'.getD v 0 = parts.getD v 0)
    (hn : ∀ u, Adj c.g v u → parts'.getD u 0 = parts.getD u 0) (hr : ReadInv c parts tmax t) :
    ReadInv c parts' tmax t := by
  unfold ReadInv at hr ⊢
  split
  · next v' ip tgt k acc best hpc =>
    rw [hpc] at hr hval
    simp only [Pc.ls, LS.valid.injEq] at hval
    subst hval
    simp only at hr
    refine ⟨by rw [hv]; exact hr.1, by rw [partialGain_congr _ _ _ hn]; exact hr.2.1, ?_⟩
    intro b hb
    rw [gainOf_congr _ _ hn]
    exact hr.2.2 b hb
  · next v' ip tgt gain hpc =>
    rw [hpc] at hr hval
    simp only [Pc.ls, LS.valid.injEq] at hval
    subst hval
    simp only at hr
    exact ⟨by rw [hv]; exact hr.1, by rw [gainOf_congr _ _ hn]; exact hr.2.1, hr.2.2⟩
  · trivial

/-! ### sums over the tasks -/

theorem sum_map_const_zero {l : List Task} (f : Task → Int) (h : ∀ t ∈ l, f t = 0) : (l.map f).sum = 0 := by
  rw [sum_map_congr l f (fun _ => 0) h]; exact sum_map_zero l

theorem sum_map_nonneg {l : List Task} (f : Task → Int) (h : ∀ t ∈ l, 0 ≤ f t) : 0 ≤ (l.map f).sum := by
  induction l with
  | nil => simp
  | cons a l ih =>
    simp only [List.map_cons, List.sum_cons]
    have := h a List.mem_cons_self
    have := ih fun t ht => h t (List.mem_cons_of_mem _ ht)
    omega

theorem sum_map_le_bound {l : List Task} (f : Task → Int) (b : Int) (h : ∀ t ∈ l, f t ≤ b) :
    (l.map f).sum ≤ l.length * b := by
  induction l with
  | nil => simp
  | cons a l ih =>
    simp only [List.map_cons, List.sum_cons, List.length_cons]
    have := h a List.mem_cons_self
    have := ih fun t ht => h t (List.mem_cons_of_mem _ ht)
    have e : ((l.length + 1 : Nat) : Int) * b = l.length * b + b := by
      rw [Int.natCast_add, Int.add_mul]; simp
    rw [e]; omega

theorem sum_map_sub_const (l : List Task) (f : Task → Int) (k : Int) :
    (l.map fun t => f t - k).sum = (l.map f).sum - l.length * k := by
  induction l with
  | nil => simp
  | cons a l ih =>
    simp only [List.map_cons, List.sum_cons, List.length_cons, ih]
    have e : ((l.length + 1 : Nat) : Int) * k = l.length * k + k := by
      rw [Int.natCast_add, Int.add_mul]; simp
    rw [e]; omega

theorem foldl_merge (l : List Task) (m : Metadata) :
    (l.foldl (fun m t => m.merge t.md) m).edgeCutGain = m.edgeCutGain + (l.map fun t => t.md.edgeCutGain).sum ∧
    ((l.foldl (fun m t => m.merge t.md) m).moveCount : Int) =
      m.moveCount + (l.map fun t => (t.md.moveCount : Int)).sum ∧
    ((l.foldl (fun m t => m.merge t.md) m).passCount : Int) =
      m.passCount + (l.map fun t => (t.md.passCount : Int)).sum := by
  induction l generalizing m with
  | nil => simp
  | cons a l ih =>
    simp only [List.foldl_cons, List.map_cons, List.sum_cons]
    obtain ⟨h1, h2, h3⟩ := ih (m.merge a.md)
    rw [h1, h2, h3]
    simp only [Metadata.merge]
    refine ⟨by omega, ?_, ?_⟩
    · rw [Int.natCast_add]; omega
    · rw [Int.natCast_add]; omega

theorem mkTasks_mem {c : Cfg} {n : Nat} {pw : List Int} {t : Task} (h : t ∈ mkTasks c n pw) :
    t.md = {} ∧ t.pw = pw ∧ t.pc = .notStarted := by
  obtain ⟨i, hi⟩ := List.getElem?_of_mem h
  rw [mkTasks_get hi]
  exact ⟨rfl, rfl, rfl⟩

theorem mkTasks_length (c : Cfg) (n : Nat) (pw : List Int) : (mkTasks c n pw).length = c.threadCount := by
  simp [mkTasks]

theorem countDiff_self (a : List Nat) : countDiff a a = 0 := by
  unfold countDiff
  induction a with
  | nil => rfl
  | cons x a ih => simpa using ih

theorem loads_getD (ws : List Int) (ids : List Nat) (k p : Nat) (hp : p < k) :
    (Coupe.loads ws ids k).getD p 0 = Coupe.load ws ids p := by
  unfold Coupe.loads
  simp [List.getD_eq_getElem?_getD, List.getElem?_map, List.getElem?_range hp]

theorem gain_sub_loss (pw0 tpw : Int) : taskGain pw0 tpw - taskLoss pw0 tpw = tpw - pw0 := by
  unfold taskGain taskLoss; split <;> omega

theorem gainSum_sub_lossSum (l : List Task) (p : Nat) (pw0 : Int) :
    (l.map fun t => taskGain pw0 (t.pw.getD p 0)).sum - (l.map fun t => taskLoss pw0 (t.pw.getD p 0)).sum
      = (l.map fun t => t.pw.getD p 0 - pw0).sum := by
  induction l with
  | nil => simp
  | cons a l ih =>
    simp only [List.map_cons, List.sum_cons]
    have := gain_sub_loss pw0 (a.pw.getD p 0)
    omega

theorem mergePw_getD (c : Cfg) (s : State) (p : Nat) (hp : p < s.pw.length) :
    (mergePw c s).getD p 0 =
      s.pw.getD p 0 + gainSum s p (s.pw.getD p 0) - lossSum s p (s.pw.getD p 0) := by
  unfold mergePw
  simp [List.getD_eq_getElem?_getD, List.getElem?_map, List.getElem?_zipIdx, List.getElem?_eq_getElem hp]

theorem mergePwOld_getD (c : Cfg) (s : State) (p : Nat) (hp : p < s.pw.length) :
    (mergePwOld c s).getD p 0 =
      (s.tasks.map fun t => t.pw.getD p 0).sum - ((c.threadCount : Int) - 1) * s.pw.getD p 0 := by
  unfold mergePwOld
  simp [List.getD_eq_getElem?_getD, List.getElem?_map, List.getElem?_zipIdx, List.getElem?_eq_getElem hp]

/-- The repaired merge adds the tasks' net changes to the pass's initial weight. -/
theorem mergePw_getD_net (c : Cfg) (s : State) (p : Nat) (hp : p < s.pw.length) :
    (mergePw c s).getD p 0 =
      s.pw.getD p 0 + (s.tasks.map fun t => t.pw.getD p 0 - s.pw.getD p 0).sum := by
  rw [mergePw_getD c s p hp]
  have := gainSum_sub_lossSum s.tasks p (s.pw.getD p 0)
  unfold gainSum lossSum
  omega

theorem mergePw_length (c : Cfg) (s : State) : (mergePw c s).length = s.pw.length := by
  simp [mergePw]

theorem mergePwOld_length (c : Cfg) (s : State) : (mergePwOld c s).length = s.pw.length := by
  simp [mergePwOld]

theorem tmaxOf_getD (c : Cfg) (pw : List Int) (p : Nat) (hp : p < pw.length) :
    (tmaxOf c pw).getD p 0 = pw.getD p 0 + Int.tdiv (c.maxPw - pw.getD p 0) c.threadCount := by
  unfold tmaxOf
  simp [List.getD_eq_getElem?_getD, List.getElem?_map, List.getElem?_eq_getElem hp]

/-! ### the accounting invariant -/

structure Hyp (c : Cfg) (p₀ : List Nat) : Prop where
  cfg : CfgOk c p₀
  gsym : Sym c.g
  noLoop : NoLoop c.g
  wnonneg : ∀ v, 0 ≤ c.w.getD v 0
  tpos : 0 < c.threadCount

structure Inv2 (c : Cfg) (p₀ : List Nat) (s : State) : Prop where
  read : ∀ (i : Nat) (t : Task), s.tasks[i]? = some t → ReadInv c s.parts s.tmax t
  cutAcct : cut c.g s.parts + s.md.edgeCutGain + (s.tasks.map fun t => t.md.edgeCutGain).sum = cut c.g p₀
  gainNonneg : 0 ≤ s.md.edgeCutGain ∧ ∀ t ∈ s.tasks, 0 ≤ t.md.edgeCutGain
  moves : (countDiff s.parts p₀ : Int) ≤ s.md.moveCount + (s.tasks.map fun t => (t.md.moveCount : Int)).sum
  pwlen : s.pw.length = c.partCount ∧ ∀ t ∈ s.tasks, t.pw.length = c.partCount
  loadAcct : ∀ p, p < c.partCount →
    Coupe.load c.w s.parts p = s.pw.getD p 0 + (s.tasks.map fun t => t.pw.getD p 0 - s.pw.getD p 0).sum
  budget : ∀ t ∈ s.tasks, ∀ p, p < c.partCount → t.pw.getD p 0 ≤ max (s.pw.getD p 0) (s.tmax.getD p 0)
  tmaxEq : s.tmax = tmaxOf c s.pw
  ntasks : s.tasks.length = c.threadCount
  passBound : ∀ p, p < c.partCount → s.pw.getD p 0 ≤ max (Coupe.load c.w p₀ p) c.maxPw
  passes : (s.md.passCount : Int) ≤ s.md.edgeCutGain + 1 ∧ ∀ t ∈ s.tasks, t.md.passCount = 0

/-- `cap` at every reachable state: the true load of a part never exceeds the larger of
its initial load and the cap. -/
theorem Inv2.cap {c : Cfg} {p₀ : List Nat} {s : State} (hy : Hyp c p₀) (h : Inv2 c p₀ s) (p : Nat)
    (hp : p < c.partCount) : Coupe.load c.w s.parts p ≤ max (Coupe.load c.w p₀ p) c.maxPw := by
  rw [h.loadAcct p hp]
  have hb := h.passBound p hp
  have htm := tmaxOf_getD c s.pw p (by rw [h.pwlen.1]; exact hp)
  rw [← h.tmaxEq] at htm
  have hT : (0 : Int) < c.threadCount := by have := hy.tpos; omega
  rcases Int.le_total 0 (c.maxPw - s.pw.getD p 0) with hd | hd
  · -- headroom: each task adds at most its share
    have hq := Int.tdiv_nonneg hd (Int.le_of_lt hT)
    have hmul := Int.mul_tdiv_self_le (k := (c.threadCount : Int)) hd
    have hsum := sum_map_le_bound (l := s.tasks) (fun t => t.pw.getD p 0 - s.pw.getD p 0)
      (Int.tdiv (c.maxPw - s.pw.getD p 0) c.threadCount) (by
        intro t ht
        have := h.budget t ht p hp
        rw [htm] at this
        omega)
    rw [h.ntasks] at hsum
    omega
  · -- already above the cap: no task may add anything
    have hq : Int.tdiv (c.maxPw - s.pw.getD p 0) c.threadCount ≤ 0 := by
      have e : c.maxPw - s.pw.getD p 0 = -(s.pw.getD p 0 - c.maxPw) := by omega
      rw [e, Int.neg_tdiv]
      have := Int.tdiv_nonneg (a := s.pw.getD p 0 - c.maxPw) (b := c.threadCount) (by omega) (Int.le_of_lt hT)
      omega
    have hsum := sum_map_le_bound (l := s.tasks) (fun t => t.pw.getD p 0 - s.pw.getD p 0) 0 (by
        intro t ht
        have := h.budget t ht p hp
        rw [htm] at this
        omega)
    omega

/-- A state at the top of the pass loop (fresh tasks) satisfies the invariant. -/
theorem inv2_fresh {c : Cfg} {p₀ : List Nat} {s : State} (n : Nat)
    (htasks : s.tasks = mkTasks c n s.pw) (htmax : s.tmax = tmaxOf c s.pw)
    (hcut : cut c.g s.parts + s.md.edgeCutGain = cut c.g p₀) (hg : 0 ≤ s.md.edgeCutGain)
    (hmoves : (countDiff s.parts p₀ : Int) ≤ s.md.moveCount) (hlen : s.pw.length = c.partCount)
    (hload : ∀ p, p < c.partCount → Coupe.load c.w s.parts p = s.pw.getD p 0)
    (hbound : ∀ p, p < c.partCount → s.pw.getD p 0 ≤ max (Coupe.load c.w p₀ p) c.maxPw)
    (hpass : (s.md.passCount : Int) ≤ s.md.edgeCutGain + 1) : Inv2 c p₀ s := by
  have hm : ∀ t ∈ s.tasks, t.md = {} ∧ t.pw = s.pw ∧ t.pc = .notStarted := by
    intro t ht; rw [htasks] at ht; exact mkTasks_mem ht
  refine ⟨?_, ?_, ⟨hg, ?_⟩, ?_, ⟨hlen, ?_⟩, ?_, ?_, htmax, ?_, hbound, ⟨hpass, ?_⟩⟩
  · intro i t ht
    refine readInv_of_noRead ?_
    rw [(hm t (List.mem_of_getElem? ht)).2.2]; trivial
  · rw [sum_map_const_zero _ fun t ht => by rw [(hm t ht).1]]; omega
  · intro t ht; rw [(hm t ht).1]; exact Int.le_refl _
  · rw [sum_map_const_zero _ fun t ht => by rw [(hm t ht).1]; rfl]; omega
  · intro t ht; rw [(hm t ht).2.1]; exact hlen
  · intro p hp
    rw [sum_map_const_zero _ fun t ht => by rw [(hm t ht).2.1]; omega, hload p hp]; omega
  · intro t ht p _; rw [(hm t ht).2.1]; omega
  · rw [htasks]; exact mkTasks_length ..
  · intro t ht; rw [(hm t ht).1]

theorem applyParts_of_ne_store {ev : Event} (h : ∀ v p, ev ≠ .partStore v p) (parts : List Nat) :
    ev.applyParts parts = parts := by
  cases ev <;> first | rfl | exact absurd rfl (h _ _)

theorem inv2_step {c : Cfg} {p₀ : List Nat} (hy : Hyp c p₀) {s s' : State} {tid : Nat} {ev : Event}
    (hreach : Reach c p₀ s) (h2 : Inv2 c p₀ s) (hstep : step c s tid = some (s', ev)) : Inv2 c p₀ s' := by
  have h1 := inv1_reach hy.cfg hreach
  obtain ⟨t, t', ht, hst, hs'⟩ := step_spec hstep
  have htok := h1.tok tid t ht
  have htmem : t ∈ s.tasks := List.mem_of_getElem? ht
  have hmem' : ∀ x ∈ s.tasks.set tid t', x ∈ s.tasks ∨ x = t' := fun x hx => List.mem_or_eq_of_mem_set hx
  -- frame for the other tasks
  have hframe : ∀ (i : Nat) (ti : Task), i ≠ tid → s.tasks[i]? = some ti →
      ReadInv c s'.parts s'.tmax ti := by
    intro i ti hi hti
    have hr := h2.read i ti hti
    rcases noRead_or_valid ti.pc with hn | ⟨v, hv⟩
    · exact readInv_of_noRead hn
    · obtain ⟨e1, e2⟩ := nbr_stable_reach hy.cfg hreach hstep ⟨ti, hti, hv⟩ hi
      have : s'.tmax = s.tmax := by rw [hs']
      rw [this]
      exact readInv_frame hv e1 e2 hr
  have hread : ∀ (i : Nat) (ti : Task), s'.tasks[i]? = some ti → ReadInv c s'.parts s'.tmax ti := by
    intro i ti hi
    have hi' : (s.tasks.set tid t')[i]? = some ti := by rw [hs'] at hi; exact hi
    rw [tasks_set_get t' ht] at hi'
    split_ifs at hi' with hit
    · cases hi'
      have := stepTask_read hy.cfg.pc2 htok.pc (h2.read tid t ht) hst
      rw [hs']; exact this
    · exact hframe i ti hit hi'
  by_cases hev : ∃ v q, ev = .partStore v q
  · -- the step that moves a vertex
    obtain ⟨v, q, rfl⟩ := hev
    obtain ⟨ip, gain, hpc, ht'⟩ := stepTask_store hst
    have hr := h2.read tid t ht
    unfold ReadInv at hr
    rw [hpc] at hr
    simp only at hr
    obtain ⟨hip, hgain, hpos, hcap⟩ := hr
    have hok := htok.pc
    rw [hpc] at hok
    simp only [PcOk] at hok
    obtain ⟨hvn, hq, hqne⟩ := hok
    have hvl : v < s.parts.length := by rw [h1.plen]; exact hvn
    have hipc : ip < c.partCount := by
      rw [hip]; apply h1.pval
      rw [List.getD_eq_getElem?_getD, List.getElem?_eq_getElem hvl]; exact List.getElem_mem hvl
    have hpwl := h2.pwlen.2 t htmem
    have hwv := hy.wnonneg v
    have hgt' : t'.md.edgeCutGain = t.md.edgeCutGain + gain := by rw [ht']
    have hmt' : t'.md.moveCount = t.md.moveCount + 1 := by rw [ht']
    have hpt' : t'.md.passCount = t.md.passCount := by rw [ht']
    have hpw' : ∀ p, t'.pw.getD p 0 = t.pw.getD p 0 + (if p = ip then -(c.w.getD v 0) else 0) +
        (if p = q then c.w.getD v 0 else 0) := by
      intro p
      rw [ht']
      simp only
      rw [addAt_getD _ _ _ _ (by rw [addAt_length, hpwl]; exact hq), addAt_getD _ _ _ _ (by rw [hpwl]; exact hipc)]
    have hparts : s'.parts = s.parts.set v q := by rw [hs']; rfl
    have htasks : s'.tasks = s.tasks.set tid t' := by rw [hs']
    have hpw : s'.pw = s.pw := by rw [hs']
    have htm : s'.tmax = s.tmax := by rw [hs']
    have hmd : s'.md = s.md := by rw [hs']
    refine ⟨hread, ?_, ?_, ?_, ?_, ?_, ?_, ?_, ?_, ?_, ?_⟩
    · rw [hparts, htasks, hmd, sum_map_set t' _ ht, cut_set hy.gsym hy.noLoop s.parts hvl hip.symm hqne, hgt',
        ← hgain]
      have := h2.cutAcct; omega
    · rw [hmd, htasks]
      refine ⟨h2.gainNonneg.1, ?_⟩
      intro x hx
      rcases hmem' x hx with hx | rfl
      · exact h2.gainNonneg.2 x hx
      · rw [hgt']; have := h2.gainNonneg.2 t htmem; omega
    · rw [hparts, htasks, hmd, sum_map_set t' _ ht, hmt']
      have := countDiff_set s.parts p₀ v q
      have := h2.moves
      push_cast
      omega
    · rw [hpw, htasks]
      refine ⟨h2.pwlen.1, ?_⟩
      intro x hx
      rcases hmem' x hx with hx | rfl
      · exact h2.pwlen.2 x hx
      · rw [ht']; simp only [addAt_length]; exact hpwl
    · intro p hp
      rw [hparts, htasks, hpw, sum_map_set t' _ ht, load_set _ _ _ _ _ hvl, h2.loadAcct p hp, hpw' p, ← hip]
      split_ifs <;> omega
    · intro x hx p hp
      rw [hpw, htm]
      rw [htasks] at hx
      rcases hmem' x hx with hx | rfl
      · exact h2.budget x hx p hp
      · have hb := h2.budget t htmem p hp
        rw [hpw' p]
        by_cases e2 : p = q
        · have hcap' : c.w.getD v 0 + t.pw.getD p 0 ≤ s.tmax.getD p 0 := by rw [e2]; exact hcap
          split_ifs <;> omega
        · split_ifs <;> omega
    · rw [htm, hpw]; exact h2.tmaxEq
    · rw [htasks, List.length_set]; exact h2.ntasks
    · rw [hpw]; exact h2.passBound
    · rw [hmd, htasks]
      refine ⟨h2.passes.1, ?_⟩
      intro x hx
      rcases hmem' x hx with hx | rfl
      · exact h2.passes.2 x hx
      · rw [hpt']; exact h2.passes.2 t htmem
  · -- any other step: the accounting fields do not move
    have hev' : ∀ v p, ev ≠ .partStore v p := fun v p h => hev ⟨v, p, h⟩
    obtain ⟨a1, a2, a3, a4⟩ := stepTask_acct hst hev'
    have hparts : s'.parts = s.parts := by rw [hs']; exact applyParts_of_ne_store hev' _
    have htasks : s'.tasks = s.tasks.set tid t' := by rw [hs']
    have hpw : s'.pw = s.pw := by rw [hs']
    have htm : s'.tmax = s.tmax := by rw [hs']
    have hmd : s'.md = s.md := by rw [hs']
    refine ⟨hread, ?_, ?_, ?_, ?_, ?_, ?_, ?_, ?_, ?_, ?_⟩
    · rw [hparts, htasks, hmd, sum_map_set_same t' _ ht a1]; exact h2.cutAcct
    · rw [hmd, htasks]
      refine ⟨h2.gainNonneg.1, ?_⟩
      intro x hx
      rcases hmem' x hx with hx | rfl
      · exact h2.gainNonneg.2 x hx
      · rw [a1]; exact h2.gainNonneg.2 t htmem
    · rw [hparts, htasks, hmd, sum_map_set_same t' _ ht (by rw [a2])]; exact h2.moves
    · rw [hpw, htasks]
      refine ⟨h2.pwlen.1, ?_⟩
      intro x hx
      rcases hmem' x hx with hx | rfl
      · exact h2.pwlen.2 x hx
      · rw [a4]; exact h2.pwlen.2 t htmem
    · intro p hp
      rw [hparts, htasks, hpw, sum_map_set_same t' _ ht (by rw [a4])]; exact h2.loadAcct p hp
    · intro x hx p hp
      rw [hpw, htm]
      rw [htasks] at hx
      rcases hmem' x hx with hx | rfl
      · exact h2.budget x hx p hp
      · rw [a4]; exact h2.budget t htmem p hp
    · rw [htm, hpw]; exact h2.tmaxEq
    · rw [htasks, List.length_set]; exact h2.ntasks
    · rw [hpw]; exact h2.passBound
    · rw [hmd, htasks]
      refine ⟨h2.passes.1, ?_⟩
      intro x hx
      rcases hmem' x hx with hx | rfl
      · exact h2.passes.2 x hx
      · rw [a3]; exact h2.passes.2 t htmem

/-- Facts about the merge at the end of a pass. -/
theorem endPass_facts {c : Cfg} {p₀ : List Nat} (hy : Hyp c p₀) {s : State} (h2 : Inv2 c p₀ s) :
    let f := (endPass c s).1
    f.parts = s.parts ∧
    cut c.g f.parts + f.md.edgeCutGain = cut c.g p₀ ∧
    f.md.edgeCutGain = s.md.edgeCutGain + passGain s ∧ 0 ≤ passGain s ∧
    (countDiff f.parts p₀ : Int) ≤ f.md.moveCount ∧
    f.md.passCount = s.md.passCount ∧
    f.pw.length = c.partCount ∧
    (∀ p, p < c.partCount → Coupe.load c.w f.parts p = f.pw.getD p 0) := by
  intro f
  obtain ⟨g1, g2, g3⟩ := foldl_merge s.tasks s.md
  have hf : f = { s with pw := mergePw c s, md := s.tasks.foldl (fun m t => m.merge t.md) s.md, tasks := [] } := rfl
  have hpg : passGain s = (s.tasks.map fun t => t.md.edgeCutGain).sum := rfl
  refine ⟨by rw [hf], ?_, ?_, ?_, ?_, ?_, ?_, ?_⟩
  · rw [hf]; simp only; rw [g1]; have := h2.cutAcct; omega
  · rw [hf]; simp only; rw [g1, hpg]
  · rw [hpg]; exact sum_map_nonneg _ h2.gainNonneg.2
  · rw [hf]; simp only; rw [g2]; exact h2.moves
  · have : (s.tasks.map fun t => (t.md.passCount : Int)).sum = 0 :=
      sum_map_const_zero _ fun t ht => by rw [h2.passes.2 t ht]; rfl
    rw [this] at g3
    rw [hf]; simp only
    omega
  · rw [hf]; simp only; rw [mergePw_length]; exact h2.pwlen.1
  · intro p hp
    rw [hf]; simp only
    rw [mergePw_getD_net c s p (by rw [h2.pwlen.1]; exact hp), h2.loadAcct p hp]

theorem inv2_reach {c : Cfg} {p₀ : List Nat} (hy : Hyp c p₀) {s : State} (h : Reach c p₀ s) : Inv2 c p₀ s := by
  induction h with
  | init =>
    have hl : (Coupe.loads c.w p₀ c.partCount).length = c.partCount := by simp [Coupe.loads]
    refine inv2_fresh p₀.length rfl rfl ?_ ?_ ?_ hl ?_ ?_ ?_
    · simp [beginPass, initState]
    · simp [beginPass, initState]
    · simp [beginPass, initState, countDiff_self]
    · intro p hp; simp only [beginPass, initState]; rw [loads_getD _ _ _ _ hp]
    · intro p hp; simp only [beginPass, initState]; rw [loads_getD _ _ _ _ hp]; omega
    · simp [beginPass, initState]
  | step hr hstep ih => exact inv2_step hy hr ih hstep
  | @pass s hr hdone hagain ih =>
    obtain ⟨e1, e2, e3, e4, e5, e6, e7, e8⟩ := endPass_facts hy ih
    have hne : passGain s ≠ 0 := by
      simp only [endPass] at hagain
      simpa using hagain
    refine inv2_fresh s.parts.length rfl rfl ?_ ?_ ?_ e7 ?_ ?_ ?_
    · simpa [beginPass] using e2
    · simp only [beginPass]; rw [e3]; have := ih.gainNonneg.1; omega
    · simpa [beginPass] using e5
    · intro p hp; simpa [beginPass] using e8 p hp
    · intro p hp
      have := ih.cap hy p hp
      rw [← e1, e8 p hp] at this
      simpa [beginPass] using this
    · simp only [beginPass]
      rw [e6, e3]
      have := ih.passes.1
      push_cast
      omega

end Coupe.ArcSwap
