import CoupeModel.Proofs.GridRcbSlabs

/-!
# `Grid::rcb` as a whole: the invariants of `recurse` instantiated

`Q sg total := InGrid sg ∧ total = bw sg` is preserved by every cut
(`AwSpec` + the prefix claim of `weighted_median`), and implies the balance
clause `NodeBal` at the cut (`medianLoop_balanced` + `Bracket`).
-/

namespace Coupe.GridRcb

/-- Balance of one cut: `W` = weight of the box being split, `L` = weight of its
low side, `L1` = weight of the low side extended by the slab just above the cut.
Either `L` is within 1 % of `W/2` up to one unit, or the cut is at the low edge
of the slab that contains the half-weight mark. -/
def NodeBal (W L L1 : Int) : Prop :=
  (99 * W - 200 ≤ 200 * L ∧ 200 * L ≤ 101 * W + 200) ∨ (2 * L ≤ W ∧ W ≤ 2 * L1)

/-- `NodeBal` at the node `sg`, cut after `k` slabs along `c`, for box weights `bw`. -/
def NodeBalAt (bw : SubGrid → Int) (sg : SubGrid) (c k : Nat) : Prop :=
  NodeBal (bw sg) (bw (sg.lo c k)) (bw (sg.lo c (k + 1)))

theorem inGrid_lo {D : Nat} {dims : Nat → Nat} {sg : SubGrid} {c k : Nat} (h : InGrid D dims sg)
    (hk : k ≤ sg.size c) : InGrid D dims (sg.lo c k) := by
  intro i hi
  have := h i hi
  by_cases hic : i = c
  · subst hic; simp only [SubGrid.lo, upd_same]; omega
  · simpa only [SubGrid.lo, upd_other _ _ _ _ hic] using this

theorem inGrid_hi {D : Nat} {dims : Nat → Nat} {sg : SubGrid} {c k : Nat} (h : InGrid D dims sg)
    (hk : k ≤ sg.size c) : InGrid D dims (sg.hi c k) := by
  intro i hi
  have := h i hi
  by_cases hic : i = c
  · subst hic; simp only [SubGrid.hi, upd_same]; omega
  · simpa only [SubGrid.hi, upd_other _ _ _ _ hic] using this

theorem inGrid_whole (D : Nat) (dims : Nat → Nat) : InGrid D dims (wholeGrid dims) := by
  intro i _; simp [wholeGrid]

/-- `weighted_median` on a non-empty slice under a vouched bracket. -/
theorem median_bal (cfg : Cfg) (T : Nat) (ws : List Int) (minPw maxPw : Int) (pos : Nat) (l : Int)
    (hc : max cfg.minChunks T ≠ 0) (hlen : 0 < ws.length) (h0 : 0 ≤ maxPw)
    (h : weightedMedian cfg T ws minPw maxPw = .ok (pos, l)) :
    pos < ws.length ∧ l = pre ws pos ∧
      ((minPw ≤ l ∧ l ≤ maxPw) ∨
       (l < minPw ∧ (pos + 1 < ws.length → maxPw < pre ws (pos + 1)))) := by
  refine medianLoop_balanced cfg T ws minPw maxPw hc (ws.length + 1) 0 ws.length 0 pos l hlen
    (Nat.le_refl _) (by simp [pre]) (fun h => absurd h (Nat.lt_irrefl _)) ?_ h
  by_cases h1 : (0 : Int) < minPw
  · exact Or.inl h1
  · exact Or.inr (by omega)

/-- The step of the balance invariant. -/
theorem step_balanced (env : Env) (dims : Nat → Nat) (bw : SubGrid → Int)
    (hspec : AwSpec env.D dims env.aw bw) (hch : max env.cfg.minChunks env.T ≠ 0)
    (hB : ∀ t a b, env.bracket t = some (a, b) → Bracket t a b)
    (hnn : ∀ sg, 0 ≤ bw sg) :
    ∀ sg total c axisW minPw maxPw k l, (InGrid env.D dims sg ∧ total = bw sg) → c < env.D →
      sg.size c ≠ 0 → env.aw sg c = some axisW → env.bracket total = some (minPw, maxPw) →
      weightedMedian env.cfg env.T axisW minPw maxPw = .ok (k, l) →
      k < sg.size c ∧ NodeBalAt bw sg c k ∧ (InGrid env.D dims (sg.lo c k) ∧ l = bw (sg.lo c k)) ∧
        (InGrid env.D dims (sg.hi c k) ∧ total - l = bw (sg.hi c k)) := by
  intro sg total c axisW minPw maxPw k l ⟨hin, htot⟩ hc h0 haw hbr hmed
  obtain ⟨axisW', haw', hlen, hsum, hsplit⟩ := hspec sg c hc hin
  rw [haw] at haw'
  cases haw'
  obtain ⟨b0, b1, b2, b3, b4⟩ := hB total minPw maxPw hbr
  obtain ⟨hk, hl, hbal⟩ := median_bal env.cfg env.T axisW minPw maxPw k l hch (by omega) b0 hmed
  rw [hlen] at hk
  obtain ⟨e1, e2⟩ := hsplit k (by omega)
  obtain ⟨e3, _⟩ := hsplit (k + 1) (by omega)
  refine ⟨hk, ?_, ⟨inGrid_lo hin (by omega), by rw [e1, hl]⟩,
    ⟨inGrid_hi hin (by omega), by rw [e2, htot, hsum, hl]⟩⟩
  simp only [NodeBalAt, NodeBal]
  rw [e1, e3, ← hl, ← htot]
  rcases hbal with ⟨a, b⟩ | ⟨a, b⟩
  · left; omega
  · right
    refine ⟨by omega, ?_⟩
    by_cases hlast : k + 1 < axisW.length
    · have := b hlast; omega
    · have hk1 : k + 1 = axisW.length := by omega
      rw [hk1, pre_length, hsum, ← htot]
      have := hnn sg
      rw [← htot] at this
      omega

/-- The step of the structural invariant (no hypothesis on brackets or weights). -/
theorem step_struct (env : Env) (dims : Nat → Nat) (bw : SubGrid → Int)
    (hspec : AwSpec env.D dims env.aw bw) (hch : 2 ≤ max env.cfg.minChunks env.T) :
    ∀ sg total c axisW minPw maxPw k l, (fun sg (_ : Int) => InGrid env.D dims sg) sg total → c < env.D →
      sg.size c ≠ 0 → env.aw sg c = some axisW → env.bracket total = some (minPw, maxPw) →
      weightedMedian env.cfg env.T axisW minPw maxPw = .ok (k, l) →
      k < sg.size c ∧ True ∧ InGrid env.D dims (sg.lo c k) ∧ InGrid env.D dims (sg.hi c k) := by
  intro sg total c axisW minPw maxPw k l hin hc h0 haw hbr hmed
  obtain ⟨axisW', haw', hlen, _, _⟩ := hspec sg c hc hin
  rw [haw] at haw'
  cases haw'
  obtain ⟨k', l', hmed', _, hk⟩ := median_ok env.cfg env.T axisW minPw maxPw hch
  rw [hmed] at hmed'
  cases hmed'
  have hk' : k < sg.size c := by rw [← hlen]; exact hk (by omega)
  exact ⟨hk', trivial, inGrid_lo hin (by omega), inGrid_hi hin (by omega)⟩

/-- The step of totality. -/
theorem step_total (env : Env) (dims : Nat → Nat) (bw : SubGrid → Int)
    (hspec : AwSpec env.D dims env.aw bw) (hbr : ∀ t, ∃ a b, env.bracket t = some (a, b)) :
    ∀ sg total c, (fun sg (_ : Int) => InGrid env.D dims sg) sg total → c < env.D → sg.size c ≠ 0 →
      ∃ axisW minPw maxPw, env.aw sg c = some axisW ∧ env.bracket total = some (minPw, maxPw) ∧
        axisW.length = sg.size c ∧
        ∀ k l, k < sg.size c → l = pre axisW k →
          (fun sg (_ : Int) => InGrid env.D dims sg) (sg.lo c k) l ∧
          (fun sg (_ : Int) => InGrid env.D dims sg) (sg.hi c k) (total - l) := by
  intro sg total c hin hc h0
  obtain ⟨axisW, haw, hlen, _, _⟩ := hspec sg c hc hin
  obtain ⟨a, b, hab⟩ := hbr total
  exact ⟨axisW, a, b, haw, hab, hlen, fun k l hk _ => ⟨inGrid_lo hin (by omega), inGrid_hi hin (by omega)⟩⟩

/-! ## The weight of the whole grid is the sum of the weight array -/

theorem lsum_range'_shift (f : Nat → Int) (a n : Nat) :
    lsum (List.range' a n) f = lsum (List.range' 0 n) (fun x => f (x + a)) := by
  induction n generalizing a f with
  | zero => rfl
  | succ n ih =>
    rw [List.range'_succ, List.range'_succ, lsum_cons, lsum_cons, ih f (a + 1),
      ih (fun x => f (x + a)) (0 + 1)]
    simp only [Nat.zero_add]
    congr 1
    apply lsum_congr
    intro x _
    congr 1; omega

/-- Row-major flattening: `Σ_{j<m} Σ_{x<w} g (x + w·j) = Σ_{i<w·m} g i`. -/
theorem lsum_flat (g : Nat → Int) (w m : Nat) :
    (lsum (List.range' 0 m) fun j => lsum (List.range' 0 w) fun x => g (x + w * j)) =
      lsum (List.range' 0 (w * m)) g := by
  induction m with
  | zero => rfl
  | succ m ih =>
    have e1 : List.range' 0 (m + 1) = List.range' 0 m ++ [m] := by
      rw [← List.range'_append_1 (s := 0) (m := m) (n := 1)]; simp
    have e2 : List.range' 0 (w * (m + 1)) = List.range' 0 (w * m) ++ List.range' (w * m) w := by
      rw [Nat.mul_succ, ← List.range'_append_1 (s := 0)]; simp
    rw [e1, e2, lsum_append, lsum_append, ih, lsum_cons, lsum_nil, lsum_range'_shift g (w * m) w]
    omega

theorem toList_sum_eq (ws : Array Int) : ws.toList.sum = lsum (List.range' 0 ws.size) (fun i => ws.getD i 0) := by
  have key : ∀ (l : List Int), l.sum = lsum (List.range' 0 l.length) (fun i => l.getD i 0) := by
    intro l
    induction l with
    | nil => rfl
    | cons a l ih =>
      rw [List.length_cons, List.range'_succ, lsum_cons, lsum_range'_shift, List.sum_cons, ih]
      simp
  rw [key ws.toList]
  simp only [Array.length_toList]
  apply lsum_congr
  intro i _
  simp [Array.getD_eq_getD_getElem?, List.getD_eq_getElem?_getD]

theorem boxWeight2_whole (w h : Nat) (ws : Array Int) (hsz : ws.size = w * h) :
    boxWeight2 w ws (wholeGrid (vec2 (w, h))) = ws.toList.sum := by
  rw [boxWeight2_eq, toList_sum_eq, hsz]
  simp only [SubGrid.axis, wholeGrid, vec2, cell2, indexOf2]
  exact lsum_flat (fun i => ws.getD i 0) w h

theorem boxWeight3_whole (w h d : Nat) (ws : Array Int) (hsz : ws.size = w * h * d) :
    boxWeight3 w h ws (wholeGrid (vec3 (w, h, d))) = ws.toList.sum := by
  rw [boxWeight3_eq, toList_sum_eq, hsz, Nat.mul_assoc]
  simp only [SubGrid.axis, wholeGrid, vec3, cell3, indexOf3]
  rw [← lsum_flat (fun i => ws.getD i 0) w (h * d)]
  exact lsum_flat (fun j => lsum (List.range' 0 w) fun x => ws.getD (x + w * j) 0) h d

theorem boxWeight2_nonneg (w : Nat) (ws : Array Int) (hnn : ∀ x ∈ ws.toList, 0 ≤ x) (sg : SubGrid) :
    0 ≤ boxWeight2 w ws sg := by
  rw [boxWeight2_eq]
  exact lsum_nonneg _ _ fun y _ => lsum_nonneg _ _ fun x _ => lsum_getD_nonneg ws hnn _

theorem boxWeight3_nonneg (w h : Nat) (ws : Array Int) (hnn : ∀ x ∈ ws.toList, 0 ≤ x) (sg : SubGrid) :
    0 ≤ boxWeight3 w h ws sg := by
  rw [boxWeight3_eq]
  exact lsum_nonneg _ _ fun z _ => lsum_nonneg _ _ fun y _ => lsum_nonneg _ _ fun x _ =>
    lsum_getD_nonneg ws hnn _

/-! ## Small helpers for the property file -/

theorem sum_nonneg_of (ws : List Int) (hnn : ∀ w ∈ ws, 0 ≤ w) : 0 ≤ ws.sum := by
  induction ws with
  | nil => simp
  | cons a l ih =>
    rw [List.sum_cons]
    have := hnn a List.mem_cons_self
    have := ih (fun b hb => hnn b (List.mem_cons_of_mem _ hb))
    omega

theorem rcb2_unfold (cfg : Cfg) (T : Nat) (bracket : Int → Option (Int × Int)) (w h : Nat) (ws : Array Int)
    (plen iter : Nat) (ids : List Nat) (hr : rcb2 cfg T bracket w h ws plen iter = .ok ids) :
    ∃ t, recurse { D := 2, cfg, T, bracket, aw := axisWeights2 w ws } iter (wholeGrid (vec2 (w, h)))
        ws.toList.sum 1 = .ok t ∧
      ids = (List.range plen).map fun i => partOf 2 t (vec2 (positionOf2 w i)) 1 := by
  simp only [rcb2] at hr
  split at hr
  · cases hr
  · next t ht =>
    simp only [Except.ok.injEq] at hr
    exact ⟨t, ht, hr.symm⟩

theorem rcb3_unfold (cfg : Cfg) (T : Nat) (bracket : Int → Option (Int × Int)) (w h d : Nat) (ws : Array Int)
    (plen iter : Nat) (ids : List Nat) (hr : rcb3 cfg T bracket w h d ws plen iter = .ok ids) :
    ∃ t, recurse { D := 3, cfg, T, bracket, aw := axisWeights3 w h ws } iter (wholeGrid (vec3 (w, h, d)))
        ws.toList.sum 1 = .ok t ∧
      ids = (List.range plen).map fun i => partOf 3 t (vec3 (positionOf3 w h i)) 1 := by
  simp only [rcb3] at hr
  split at hr
  · cases hr
  · next t ht =>
    simp only [Except.ok.injEq] at hr
    exact ⟨t, ht, hr.symm⟩

end Coupe.GridRcb
