import CoupeModel.Model.ArcSwap
import Mathlib.Tactic.SplitIfs

/-!
# ArcSwap model, part 1: well-formedness of the local states and the lock abstraction

* `TaskOk`: every vertex a task mentions (program counter, `cut` stack) is in range,
  neighbour positions are inside the adjacency rows, target parts are `< part_count`.
  Preserved by `stepTask` on a graph whose neighbour indices are in range.
* `LS`: what a program counter means for the lock protocol (`free`, `checking v k`,
  `valid v`, `raced v`), and `LStep`, the protocol's transition relation;
  `stepTask_LStep`: every step of the model is a step of the protocol.
-/

namespace Coupe.ArcSwap

/-- Neighbour indices are in range. -/
def InRange (g : Graph) : Prop := ∀ v e, e ∈ adj g v → e.1 < g.length

theorem nbr_mem {g : Graph} {v k : Nat} (h : k < deg g v) : (nbr g v k, ((adj g v).getD k (0, 0)).2) ∈ adj g v := by
  unfold nbr deg at *
  simp only [List.getD_eq_getElem?_getD, List.getElem?_eq_getElem h, Option.getD_some]
  exact List.getElem_mem h

theorem nbr_lt {g : Graph} (hg : InRange g) {v k : Nat} (h : k < deg g v) : nbr g v k < g.length :=
  hg v _ (nbr_mem h)

def PcOk (c : Cfg) (n : Nat) : Pc → Prop
  | .scanOwn v => v < n
  | .scanNbr v _ k => v < n ∧ k < deg c.g v
  | .cas v => v < n
  | .nbrLock v k => v < n ∧ k < deg c.g v
  | .ownPart v => v < n
  | .gainRd v ip tgt k _ best =>
    v < n ∧ k < deg c.g v ∧ tgt < c.partCount ∧ tgt ≠ ip ∧
      ∀ b, best = some b → b.1 < c.partCount ∧ b.1 ≠ ip
  | .store v ip tgt _ => v < n ∧ tgt < c.partCount ∧ tgt ≠ ip
  | .unlock v _ => v < n
  | .postNbr mv k => mv < n ∧ k < deg c.g mv
  | .postGain mv k _ _ k2 _ _ => mv < n ∧ k < deg c.g mv ∧ k2 < deg c.g (nbr c.g mv k)
  | _ => True

/-- The part of the well-formedness that does not depend on the program counter. -/
structure BaseOk (n : Nat) (t : Task) : Prop where
  cut : ∀ v ∈ t.cut, v < n
  hi : t.hi ≤ n

structure TaskOk (c : Cfg) (n : Nat) (t : Task) : Prop where
  base : BaseOk n t
  pc : PcOk c n t.pc

theorem nextScan_ok (c : Cfg) {n : Nat} {t : Task} (h : BaseOk n t) : TaskOk c n (nextScan t) := by
  unfold nextScan
  split_ifs with h1
  · exact ⟨⟨h.cut, h.hi⟩, by simp only [PcOk]; have := h.hi; omega⟩
  · exact ⟨⟨h.cut, h.hi⟩, by simp only [PcOk]⟩

theorem popCut_ok (c : Cfg) {n : Nat} {t : Task} (h : BaseOk n t) : TaskOk c n (popCut t) := by
  unfold popCut
  split
  · exact nextScan_ok c h
  · next v rest hc =>
    refine ⟨⟨?_, h.hi⟩, ?_⟩
    · intro x hx; exact h.cut x (by rw [hc]; exact List.mem_cons_of_mem _ hx)
    · simp only [PcOk]; exact h.cut v (by rw [hc]; exact List.mem_cons_self)

theorem BaseOk.withPc {n : Nat} {t : Task} (h : BaseOk n t) (pc : Pc) : BaseOk n { t with pc := pc } :=
  ⟨h.cut, h.hi⟩

theorem BaseOk.withMd {n : Nat} {t : Task} (h : BaseOk n t) (md : Metadata) : BaseOk n { t with md := md } :=
  ⟨h.cut, h.hi⟩

theorem BaseOk.push {n : Nat} {t : Task} (h : BaseOk n t) {v : Nat} (hv : v < n) :
    BaseOk n { t with cut := v :: t.cut } :=
  ⟨by intro x hx; rcases List.mem_cons.1 hx with rfl | hx; exact hv; exact h.cut x hx, h.hi⟩

theorem postNext_ok (c : Cfg) {n : Nat} {t : Task} (h : BaseOk n t) {mv k : Nat} (hmv : mv < n) :
    TaskOk c n (postNext c t mv k) := by
  unfold postNext
  split_ifs with h1
  · exact ⟨h.withPc _, by simp only [PcOk]; exact ⟨hmv, h1⟩⟩
  · exact popCut_ok c h

theorem decideMove_ok (c : Cfg) {n : Nat} {t : Task} (h : BaseOk n t) (tmax : List Int) {v ip tgt : Nat}
    (gain : Int) (hv : v < n) (ht : tgt < c.partCount) (hne : tgt ≠ ip) :
    TaskOk c n (decideMove c tmax t v ip tgt gain) := by
  unfold decideMove
  split_ifs
  · exact ⟨⟨h.cut, h.hi⟩, by simp only [PcOk]; exact hv⟩
  · exact ⟨⟨h.cut, h.hi⟩, by simp only [PcOk]; exact hv⟩
  · exact ⟨⟨h.cut, h.hi⟩, by simp only [PcOk]; exact ⟨hv, ht, hne⟩⟩

theorem nextTarget_spec {pcount ip t t' : Nat} (h : nextTarget pcount ip t = some t') :
    t' < pcount ∧ t' ≠ ip ∧ t ≤ t' := by
  unfold nextTarget at h
  simp only at h
  split_ifs at h with h1 h2 h2
  · simp only [Option.some.injEq] at h; omega
  · simp only [Option.some.injEq] at h; omega

theorem better_spec {pcount ip : Nat} {best : Option (Nat × Int)} {tgt : Nat} (g : Int)
    (hb : ∀ b, best = some b → b.1 < pcount ∧ b.1 ≠ ip) (ht : tgt < pcount) (hne : tgt ≠ ip) :
    (better best tgt g).1 < pcount ∧ (better best tgt g).1 ≠ ip := by
  unfold better
  split
  · exact ⟨ht, hne⟩
  · next b =>
    split_ifs
    · exact ⟨ht, hne⟩
    · exact hb b rfl

/-- `stepTask` preserves well-formedness. -/
theorem stepTask_ok {c : Cfg} (hg : InRange c.g) {parts : List Nat} {locks : List Bool} {tmax : List Int}
    {t t' : Task} {ev : Event} (h : TaskOk c c.g.length t)
    (hs : stepTask c parts locks tmax t = some (t', ev)) : TaskOk c c.g.length t' := by
  obtain ⟨hb, hpc⟩ := h
  unfold stepTask at hs
  split at hs
  · -- notStarted
    simp only [Option.some.injEq, Prod.mk.injEq] at hs
    obtain ⟨rfl, -⟩ := hs
    refine ⟨⟨hb.cut, hb.hi⟩, ?_⟩
    show PcOk c _ (if t.lo < t.hi then Pc.scanOwn t.lo else Pc.atEnd)
    split_ifs with h1
    · simp only [PcOk]; have := hb.hi; omega
    · simp only [PcOk]
  · -- scanOwn
    next v hpcv =>
    rw [hpcv] at hpc
    simp only [Option.some.injEq, Prod.mk.injEq] at hs
    obtain ⟨rfl, -⟩ := hs
    split_ifs with h1
    · exact nextScan_ok c hb
    · exact ⟨hb.withPc _, by simp only [PcOk] at hpc ⊢; exact ⟨hpc, by omega⟩⟩
  · -- scanNbr
    next v ip k hpcv =>
    rw [hpcv] at hpc
    simp only [PcOk] at hpc
    simp only [Option.some.injEq, Prod.mk.injEq] at hs
    obtain ⟨rfl, -⟩ := hs
    split_ifs with h1 h2
    · exact popCut_ok c (hb.push hpc.1)
    · exact ⟨hb.withPc _, by simp only [PcOk]; exact ⟨hpc.1, h2⟩⟩
    · exact nextScan_ok c hb
  · -- cas
    next v hpcv =>
    rw [hpcv] at hpc
    simp only [PcOk] at hpc
    split_ifs at hs with h1 h2
    · simp only [Option.some.injEq, Prod.mk.injEq] at hs
      obtain ⟨rfl, -⟩ := hs
      exact popCut_ok c (hb.withMd _)
    · simp only [Option.some.injEq, Prod.mk.injEq] at hs
      obtain ⟨rfl, -⟩ := hs
      exact ⟨hb.withPc _, by simp only [PcOk]; exact hpc⟩
    · simp only [Option.some.injEq, Prod.mk.injEq] at hs
      obtain ⟨rfl, -⟩ := hs
      exact ⟨hb.withPc _, by simp only [PcOk]; exact ⟨hpc, by omega⟩⟩
  · -- nbrLock
    next v k hpcv =>
    rw [hpcv] at hpc
    simp only [PcOk] at hpc
    simp only [Option.some.injEq, Prod.mk.injEq] at hs
    obtain ⟨rfl, -⟩ := hs
    split_ifs with h1 h2
    · exact ⟨⟨hb.cut, hb.hi⟩, by simp only [PcOk]; exact hpc.1⟩
    · exact ⟨hb.withPc _, by simp only [PcOk]; exact ⟨hpc.1, h2⟩⟩
    · exact ⟨hb.withPc _, by simp only [PcOk]; exact hpc.1⟩
  · -- ownPart
    next v hpcv =>
    rw [hpcv] at hpc
    simp only [PcOk] at hpc
    simp only [Option.some.injEq, Prod.mk.injEq] at hs
    obtain ⟨rfl, -⟩ := hs
    split_ifs with h1
    · exact ⟨⟨hb.cut, hb.hi⟩, by simp only [PcOk]; exact hpc⟩
    · split
      · exact ⟨hb.withPc _, by simp only [PcOk]⟩
      · next tgt htg =>
        obtain ⟨h2, h3, -⟩ := nextTarget_spec htg
        exact ⟨hb.withPc _, by simp only [PcOk]; exact ⟨hpc, by omega, h2, h3, by simp⟩⟩
  · -- gainRd
    next v ip tgt k acc best hpcv =>
    rw [hpcv] at hpc
    simp only [PcOk] at hpc
    obtain ⟨hv, hk, ht, hne, hbest⟩ := hpc
    simp only [Option.some.injEq, Prod.mk.injEq] at hs
    obtain ⟨rfl, -⟩ := hs
    split_ifs with h1
    · exact ⟨hb.withPc _, by simp only [PcOk]; exact ⟨hv, h1, ht, hne, hbest⟩⟩
    · have hbt := better_spec (acc + contrib ip tgt (parts.getD ((adj c.g v).getD k (0, 0)).1 0)
        ((adj c.g v).getD k (0, 0)).2) hbest ht hne
      split
      · next tgt' htg =>
        obtain ⟨h2, h3, -⟩ := nextTarget_spec htg
        refine ⟨hb.withPc _, ?_⟩
        simp only [PcOk]
        refine ⟨hv, by omega, h2, h3, ?_⟩
        intro b hbb
        simp only [Option.some.injEq] at hbb
        subst hbb
        exact hbt
      · exact decideMove_ok c hb tmax _ hv hbt.1 hbt.2
  · -- store
    next v ip tgt gain hpcv =>
    rw [hpcv] at hpc
    simp only [PcOk] at hpc
    simp only [Option.some.injEq, Prod.mk.injEq] at hs
    obtain ⟨rfl, -⟩ := hs
    exact ⟨⟨hb.cut, hb.hi⟩, by simp only [PcOk]; exact hpc.1⟩
  · -- unlock
    next v a hpcv =>
    rw [hpcv] at hpc
    simp only [PcOk] at hpc
    simp only [Option.some.injEq, Prod.mk.injEq] at hs
    obtain ⟨rfl, -⟩ := hs
    split
    · split_ifs with h1
      · exact popCut_ok c hb
      · exact ⟨hb.withPc _, by simp only [PcOk]; exact ⟨hpc, by omega⟩⟩
    · exact popCut_ok c hb
  · -- postNbr
    next mv k hpcv =>
    rw [hpcv] at hpc
    simp only [PcOk] at hpc
    simp only [Option.some.injEq, Prod.mk.injEq] at hs
    obtain ⟨rfl, -⟩ := hs
    split_ifs with h1
    · exact postNext_ok c hb hpc.1
    · split
      · exact ⟨hb.withPc _, by simp only [PcOk]⟩
      · exact ⟨hb.withPc _, by simp only [PcOk]; exact ⟨hpc.1, hpc.2, by omega⟩⟩
  · -- postGain
    next mv k np tgt k2 acc best hpcv =>
    rw [hpcv] at hpc
    simp only [PcOk] at hpc
    simp only [Option.some.injEq, Prod.mk.injEq] at hs
    obtain ⟨rfl, -⟩ := hs
    split_ifs with h1 h2
    · exact ⟨hb.withPc _, by simp only [PcOk]; exact ⟨hpc.1, hpc.2.1, h1⟩⟩
    · split
      · exact ⟨hb.withPc _, by simp only [PcOk]; exact ⟨hpc.1, hpc.2.1, by omega⟩⟩
      · exact postNext_ok c (hb.push (nbr_lt hg hpc.2.1)) hpc.1
    · split
      · exact ⟨hb.withPc _, by simp only [PcOk]; exact ⟨hpc.1, hpc.2.1, by omega⟩⟩
      · exact postNext_ok c hb hpc.1
  · -- atEnd
    simp only [Option.some.injEq, Prod.mk.injEq] at hs
    obtain ⟨rfl, -⟩ := hs
    exact ⟨hb.withPc _, by simp only [PcOk]⟩
  · simp at hs
  · simp at hs

end Coupe.ArcSwap
