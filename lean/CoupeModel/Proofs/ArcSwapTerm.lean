import CoupeModel.Proofs.ArcSwapRun

/-!
# ArcSwap model, part 7: no panic, and every pass terminates under every schedule

* `noPanic_reach`: `Pc.panic` (the `unwrap()` of an empty maximum) is unreachable when
  `part_count ≥ 2`.
* A potential `mu c s : Nat` that EVERY step of EVERY task strictly decreases
  (`step_decreases`):  `mu = (cut + absW) · U + Σ_tasks pot`, where `cut + absW ≥ 0` bounds the
  number of moves still possible (every move lowers the cut by its gain `≥ 1`), `pot` is the
  number of steps a task can still do without moving (each attempt pops the `cut` stack; the
  chunk scan advances) and `U` pays for the post-move loop and the (at most `deg`) pushes of a
  move.  All constants are explicit functions of the input (`maxDeg`, `part_count`).
* Consequences: a schedule executes at most `mu` steps of a pass, the default completion
  finishes with any fuel `> mu`, and `run` returns `ok` for every list of schedules as soon as
  `fuel > fuelBound` and `passes ≥ passesBound`.
-/

namespace Coupe.ArcSwap

/-! ### no panic -/

theorem nextScan_ne_panic (t : Task) : (nextScan t).pc ≠ .panic := by
  unfold nextScan; split_ifs <;> simp

theorem popCut_ne_panic (t : Task) : (popCut t).pc ≠ .panic := by
  unfold popCut
  split
  · exact nextScan_ne_panic t
  · simp

theorem postNext_ne_panic (c : Cfg) (t : Task) (mv k : Nat) : (postNext c t mv k).pc ≠ .panic := by
  unfold postNext
  split_ifs
  · simp
  · exact popCut_ne_panic t

theorem decideMove_ne_panic (c : Cfg) (tmax : List Int) (t : Task) (v ip tgt : Nat) (gain : Int) :
    (decideMove c tmax t v ip tgt gain).pc ≠ .panic := by
  unfold decideMove
  split_ifs <;> simp

/-- With `part_count ≥ 2` no step leads to `Pc.panic`. -/
theorem stepTask_ne_panic {c : Cfg} (hpc2 : 2 ≤ c.partCount) {parts : List Nat} {locks : List Bool}
    {tmax : List Int} {t t' : Task} {ev : Event}
    (hs : stepTask c parts locks tmax t = some (t', ev)) : t'.pc ≠ .panic := by
  unfold stepTask at hs
  split at hs
  case h_4 =>
    split_ifs at hs <;> simp only [Option.some.injEq, Prod.mk.injEq] at hs <;> obtain ⟨rfl, -⟩ := hs
    · exact popCut_ne_panic _
    · simp
    · simp
  case h_13 => simp at hs
  case h_14 => simp at hs
  all_goals
    simp only [Option.some.injEq, Prod.mk.injEq] at hs
    obtain ⟨rfl, -⟩ := hs
  · split_ifs <;> simp
  · split_ifs
    · exact nextScan_ne_panic t
    · simp
  · split_ifs
    · exact popCut_ne_panic _
    · simp
    · exact nextScan_ne_panic t
  · split_ifs <;> simp
  · split_ifs
    · simp
    · split
      · next h => exact absurd h (nextTarget_zero_ne_none hpc2)
      · simp
  · split_ifs
    · simp
    · split
      · simp
      · exact decideMove_ne_panic _ _ _ _ _ _ _
  · simp
  · split
    · split_ifs
      · exact popCut_ne_panic t
      · simp
    · exact popCut_ne_panic t
  · split_ifs
    · exact postNext_ne_panic _ _ _ _
    · split
      · next h => exact absurd h (nextTarget_zero_ne_none hpc2)
      · simp
  · split_ifs
    · simp
    · split
      · simp
      · exact postNext_ne_panic c _ _ _
    · split
      · simp
      · exact postNext_ne_panic c _ _ _
  · simp

def NoPanic (s : State) : Prop := ∀ t ∈ s.tasks, t.pc ≠ .panic

theorem noPanic_beginPass (c : Cfg) (s : State) : NoPanic (beginPass c s) := by
  intro t ht
  simp only [beginPass] at ht
  rw [(mkTasks_mem ht).2.2]
  simp

/-- `Pc.panic` is unreachable. -/
theorem noPanic_reach {c : Cfg} {p₀ : List Nat} (hc : CfgOk c p₀) {s : State} (h : Reach c p₀ s) :
    NoPanic s := by
  induction h with
  | init => exact noPanic_beginPass _ _
  | @step s s' tid ev _ hstep ih =>
    obtain ⟨t, t', ht, hst, rfl⟩ := step_spec hstep
    intro x hx
    rcases List.mem_or_eq_of_mem_set hx with hx | rfl
    · exact ih x hx
    · exact stepTask_ne_panic hc.pc2 hst
  | pass => exact noPanic_beginPass _ _

theorem noPanic_any {s : State} (h : NoPanic s) : s.tasks.any (fun t => t.pc == .panic) = false := by
  rw [List.any_eq_false]
  intro t ht
  simpa using h t ht

/-! ### constants of the potential -/

/-- Largest row length. -/
def maxDeg (g : Graph) : Nat := (g.map List.length).foldr max 0

theorem deg_le_maxDeg (g : Graph) (v : Nat) : deg g v ≤ maxDeg g := by
  unfold deg adj maxDeg
  induction g generalizing v with
  | nil => simp
  | cons row g ih =>
    cases v with
    | zero => simp only [List.getD_cons_zero, List.map_cons, List.foldr_cons]; omega
    | succ v =>
      simp only [List.getD_cons_succ, List.map_cons, List.foldr_cons]
      have := ih v
      omega

/-- gain phase of one vertex: at most `P` targets × (`D` neighbours + 1). -/
def cG (D P : Nat) : Nat := P * (D + 1) + D
/-- one attempt (`cas` … `unlock`), without the post-move loop. -/
def cA (D P : Nat) : Nat := cG D P + D + 5
/-- one iteration of the post-move loop (including the attempt its push causes). -/
def cQ (D P : Nat) : Nat := cA D P + cG D P + 2
/-- what a move costs: the release + the whole post-move loop. -/
def cU (D P : Nat) : Nat := D * cQ D P + cQ D P + 1
/-- one iteration of the chunk scan (including the attempt its push causes). -/
def cS (D P : Nat) : Nat := cA D P + D + 2

/-- What is left after the current attempt: the stack and the rest of the chunk scan. -/
def base (D P n hi scan : Nat) : Nat := n * cA D P + (hi - scan - 1) * cS D P + 1

/-- Potential of a local state (`n` = height of the `cut` stack). -/
def potOf (D P : Nat) (n hi scan lo : Nat) : Pc → Nat
  | .notStarted => n * cA D P + (hi - lo) * cS D P + 2
  | .scanOwn _ => cS D P + base D P n hi scan
  | .scanNbr _ _ k => cA D P + 1 + (D - k) + base D P n hi scan
  | .cas _ => cA D P + base D P n hi scan
  | .nbrLock _ k => cG D P + 4 + (D - k) + base D P n hi scan
  | .ownPart _ => cG D P + 3 + base D P n hi scan
  | .gainRd _ _ tgt k _ _ => (P - tgt) * (D + 1) + (D - k) + 2 + base D P n hi scan
  | .store _ _ _ _ => 1 + base D P n hi scan
  | .unlock _ .moved => cU D P + base D P n hi scan
  | .unlock _ _ => 1 + base D P n hi scan
  | .postNbr _ k => (D - k) * cQ D P + cQ D P + base D P n hi scan
  | .postGain _ k _ tgt k2 _ _ =>
    (D - k) * cQ D P + cA D P + 1 + (P - tgt) * (D + 1) + (D - k2) + base D P n hi scan
  | .atEnd => 1
  | .done => 0
  | .panic => 0

def pot (D P : Nat) (t : Task) : Nat := potOf D P t.cut.length t.hi t.scan t.lo t.pc

/-- `base` of a task. -/
def tbase (D P : Nat) (t : Task) : Nat := base D P t.cut.length t.hi t.scan

theorem mul_sub_step {P a b E : Nat} (h1 : a < b) (h2 : b < P) : (P - b) * E + E ≤ (P - a) * E := by
  have h : P - b + 1 ≤ P - a := by omega
  calc (P - b) * E + E = (P - b + 1) * E := (Nat.succ_mul _ _).symm
    _ ≤ (P - a) * E := Nat.mul_le_mul_right E h

theorem sub_mul_le (P a E : Nat) : (P - a) * E ≤ P * E := Nat.mul_le_mul_right E (Nat.sub_le _ _)

theorem nextScan_pot (D P : Nat) (t : Task) : pot D P (nextScan t) ≤ tbase D P t := by
  unfold nextScan
  split_ifs with h
  · simp only [pot, potOf, tbase, base]
    obtain ⟨m, hm⟩ : ∃ m, t.hi - t.scan - 1 = m + 1 := ⟨t.hi - t.scan - 2, by omega⟩
    have e : t.hi - (t.scan + 1) - 1 = m := by omega
    rw [hm, e, Nat.succ_mul]
    omega
  · simp only [pot, potOf, tbase, base]
    omega

theorem popCut_pot (D P : Nat) (t : Task) : pot D P (popCut t) ≤ tbase D P t := by
  unfold popCut
  split
  · exact nextScan_pot D P t
  · next v rest hc =>
    simp only [pot, potOf, tbase, base, hc, List.length_cons, Nat.succ_mul]
    omega

theorem tbase_push (D P : Nat) (t : Task) (v : Nat) :
    tbase D P { t with cut := v :: t.cut } = tbase D P t + cA D P := by
  simp only [tbase, base, List.length_cons, Nat.succ_mul]
  omega

theorem postNext_pot {c : Cfg} {D : Nat} (hD : ∀ v, deg c.g v ≤ D) (P : Nat) (t : Task) (mv k : Nat) :
    pot D P (postNext c t mv k) ≤ (D - k) * cQ D P + tbase D P t := by
  unfold postNext
  split_ifs with h
  · simp only [pot, potOf, tbase]
    have := hD mv
    have := mul_sub_step (E := cQ D P) (show k < k + 1 by omega) (show k + 1 < D by omega)
    omega
  · have := popCut_pot D P t
    omega

theorem decideMove_pot (D P : Nat) (c : Cfg) (tmax : List Int) (t : Task) (v ip tgt : Nat) (gain : Int) :
    pot D P (decideMove c tmax t v ip tgt gain) = 1 + tbase D P t := by
  unfold decideMove
  split_ifs <;> rfl

/-- Allowance of a step: `U` for the step that stores a part, nothing otherwise. -/
def evAllow (D P : Nat) : Event → Nat
  | .partStore _ _ => cU D P
  | _ => 0

/-- Every step of a task lowers its potential, except the store of a move, which may raise
it by less than `U`. -/
theorem stepTask_pot {c : Cfg} {D : Nat} (hD : ∀ v, deg c.g v ≤ D) {parts : List Nat} {locks : List Bool}
    {tmax : List Int} {t t' : Task} {ev : Event}
    (hs : stepTask c parts locks tmax t = some (t', ev)) :
    pot D c.partCount t' < pot D c.partCount t + evAllow D c.partCount ev := by
  have hA : cA D c.partCount = cG D c.partCount + D + 5 := rfl
  have hQ : cQ D c.partCount = cA D c.partCount + cG D c.partCount + 2 := rfl
  have hU : cU D c.partCount = D * cQ D c.partCount + cQ D c.partCount + 1 := rfl
  have hS : cS D c.partCount = cA D c.partCount + D + 2 := rfl
  have hG : cG D c.partCount = c.partCount * (D + 1) + D := rfl
  unfold stepTask at hs
  split at hs
  · -- notStarted
    next hpcv =>
    simp only [Option.some.injEq, Prod.mk.injEq] at hs
    obtain ⟨rfl, rfl⟩ := hs
    split_ifs with h1
    · simp only [pot, potOf, hpcv, evAllow, base]
      obtain ⟨m, hm⟩ : ∃ m, t.hi - t.lo = m + 1 := ⟨t.hi - t.lo - 1, by omega⟩
      rw [hm, Nat.add_sub_cancel, Nat.succ_mul]
      omega
    · simp only [pot, potOf, hpcv, evAllow]
      omega
  · -- scanOwn
    next v hpcv =>
    simp only [Option.some.injEq, Prod.mk.injEq] at hs
    obtain ⟨rfl, rfl⟩ := hs
    split_ifs with h1
    · have := nextScan_pot D c.partCount t
      simp only [pot, potOf, hpcv, evAllow, tbase] at this ⊢
      omega
    · simp only [pot, potOf, hpcv, evAllow]
      omega
  · -- scanNbr
    next v ip k hpcv =>
    simp only [Option.some.injEq, Prod.mk.injEq] at hs
    obtain ⟨rfl, rfl⟩ := hs
    have := hD v
    split_ifs with h1 h2
    · have := popCut_pot D c.partCount { t with cut := v :: t.cut }
      rw [tbase_push] at this
      simp only [pot, potOf, hpcv, evAllow, tbase] at this ⊢
      omega
    · simp only [pot, potOf, hpcv, evAllow]
      omega
    · have := nextScan_pot D c.partCount t
      simp only [pot, potOf, hpcv, evAllow, tbase] at this ⊢
      omega
  · -- cas
    next v hpcv =>
    have := hD v
    split_ifs at hs with h1 h2
    · simp only [Option.some.injEq, Prod.mk.injEq] at hs
      obtain ⟨rfl, rfl⟩ := hs
      have := popCut_pot D c.partCount { t with md := { t.md with lockedCount := t.md.lockedCount + 1 } }
      simp only [pot, potOf, hpcv, evAllow, tbase] at this ⊢
      omega
    · simp only [Option.some.injEq, Prod.mk.injEq] at hs
      obtain ⟨rfl, rfl⟩ := hs
      simp only [pot, potOf, hpcv, evAllow]
      omega
    · simp only [Option.some.injEq, Prod.mk.injEq] at hs
      obtain ⟨rfl, rfl⟩ := hs
      simp only [pot, potOf, hpcv, evAllow]
      omega
  · -- nbrLock
    next v k hpcv =>
    simp only [Option.some.injEq, Prod.mk.injEq] at hs
    obtain ⟨rfl, rfl⟩ := hs
    have := hD v
    split_ifs with h1 h2
    · simp only [pot, potOf, hpcv, evAllow]
      omega
    · simp only [pot, potOf, hpcv, evAllow]
      omega
    · simp only [pot, potOf, hpcv, evAllow]
      omega
  · -- ownPart
    next v hpcv =>
    simp only [Option.some.injEq, Prod.mk.injEq] at hs
    obtain ⟨rfl, rfl⟩ := hs
    split_ifs with h1
    · simp only [pot, potOf, hpcv, evAllow]
      omega
    · split
      · simp only [pot, potOf, hpcv, evAllow]
        omega
      · next tgt htg =>
        have := sub_mul_le c.partCount tgt (D + 1)
        simp only [pot, potOf, hpcv, evAllow]
        omega
  · -- gainRd
    next v ip tgt k acc best hpcv =>
    simp only [Option.some.injEq, Prod.mk.injEq] at hs
    obtain ⟨rfl, rfl⟩ := hs
    have := hD v
    split_ifs with h1
    · simp only [pot, potOf, hpcv, evAllow]
      omega
    · split
      · next tgt' htg =>
        obtain ⟨h2, -, h3⟩ := nextTarget_spec htg
        have := mul_sub_step (E := D + 1) (show tgt < tgt' by omega) h2
        simp only [pot, potOf, hpcv, evAllow]
        omega
      · rw [decideMove_pot]
        simp only [pot, potOf, hpcv, evAllow, tbase]
        omega
  · -- store
    next v ip tgt gain hpcv =>
    simp only [Option.some.injEq, Prod.mk.injEq] at hs
    obtain ⟨rfl, rfl⟩ := hs
    simp only [pot, potOf, hpcv, evAllow]
    omega
  · -- unlock
    next v a hpcv =>
    simp only [Option.some.injEq, Prod.mk.injEq] at hs
    obtain ⟨rfl, rfl⟩ := hs
    have := popCut_pot D c.partCount t
    cases a with
    | moved =>
      simp only
      split_ifs with h1
      · simp only [pot, potOf, hpcv, evAllow, tbase] at this ⊢
        omega
      · simp only [pot, potOf, hpcv, evAllow, Nat.sub_zero]
        omega
    | raced =>
      simp only [pot, potOf, hpcv, evAllow, tbase] at this ⊢
      omega
    | rejected =>
      simp only [pot, potOf, hpcv, evAllow, tbase] at this ⊢
      omega
  · -- postNbr
    next mv k hpcv =>
    simp only [Option.some.injEq, Prod.mk.injEq] at hs
    obtain ⟨rfl, rfl⟩ := hs
    split_ifs with h1
    · have := postNext_pot hD c.partCount t mv k
      simp only [pot, potOf, hpcv, evAllow, tbase] at this ⊢
      omega
    · split
      · simp only [pot, potOf, hpcv, evAllow]
        omega
      · next tgt htg =>
        have := sub_mul_le c.partCount tgt (D + 1)
        simp only [pot, potOf, hpcv, evAllow, Nat.sub_zero]
        omega
  · -- postGain
    next mv k np tgt k2 acc best hpcv =>
    simp only [Option.some.injEq, Prod.mk.injEq] at hs
    obtain ⟨rfl, rfl⟩ := hs
    have := hD (nbr c.g mv k)
    split_ifs with h1 h2
    · simp only [pot, potOf, hpcv, evAllow]
      omega
    · split
      · next tgt' htg =>
        obtain ⟨h3, -, h4⟩ := nextTarget_spec htg
        have := mul_sub_step (E := D + 1) (show tgt < tgt' by omega) h3
        simp only [pot, potOf, hpcv, evAllow]
        omega
      · have := postNext_pot hD c.partCount { t with cut := nbr c.g mv k :: t.cut } mv k
        rw [tbase_push] at this
        simp only [pot, potOf, hpcv, evAllow, tbase] at this ⊢
        omega
    · split
      · next tgt' htg =>
        obtain ⟨h3, -, h4⟩ := nextTarget_spec htg
        have := mul_sub_step (E := D + 1) (show tgt < tgt' by omega) h3
        simp only [pot, potOf, hpcv, evAllow]
        omega
      · have := postNext_pot hD c.partCount t mv k
        simp only [pot, potOf, hpcv, evAllow, tbase] at this ⊢
        omega
  · -- atEnd
    next hpcv =>
    simp only [Option.some.injEq, Prod.mk.injEq] at hs
    obtain ⟨rfl, rfl⟩ := hs
    simp only [pot, potOf, hpcv, evAllow]
    omega
  · simp at hs
  · simp at hs

end Coupe.ArcSwap
