import CoupeModel.Proofs.ArcSwapRun

/-!
# ArcSwap model, part 7: no panic, and every pass terminates under every schedule

* `noPanic_reach`: `Pc.panic` (the `unwrap()` of an empty maximum) is unreachable when
  `part_count ≥ 2`.
* A potential `stepsLeft c s : Nat` that EVERY step of EVERY task strictly decreases
  (`step_decreases`):  `stepsLeft = (cut + negW) · U + Σ_tasks pot`, where `cut + negW ≥ 0` bounds the
  number of moves still possible (every move lowers the cut by its gain `≥ 1`), `pot` is the
  number of steps a task can still do without moving (each attempt pops the `cut` stack; the
  chunk scan advances) and `U` pays for the post-move loop and the (at most `deg`) pushes of a
  move.  All constants are explicit functions of the input (`maxDeg`, `part_count`).
* Consequences: a schedule executes at most `stepsLeft` steps of a pass, the default completion
  finishes with any fuel `> stepsLeft`, and `run` returns `ok` for every list of schedules as soon as
  `fuel > fuelBound` and `passes ≥ passesBound`.
-/

namespace Coupe.ArcSwap

/-! ### no panic -/

theorem nextScan_ne_panic (t : Task) : (nextScan t).pc ≠ .panic := by
  unfold nextScan; split_ifs <;> simp

theorem popCut_ne_panic (t : Task) : (popCut t).pc ≠ .panic := by
  unfold popCut
  split
  · exact nextScan_ne_panic t
  · simp

theorem postNext_ne_panic (c : Cfg) (t : Task) (mv k : Nat) : (postNext c t mv k).pc ≠ .panic := by
  unfold postNext
  split_ifs
  · simp
  · exact popCut_ne_panic t

theorem decideMove_ne_panic (c : Cfg) (tmax : List Int) (t : Task) (v ip tgt : Nat) (gain : Int) :
    (decideMove c tmax t v ip tgt gain).pc ≠ .panic := by
  unfold decideMove
  split_ifs <;> simp

/-- With `part_count ≥ 2` no step leads to `Pc.panic`. -/
theorem stepTask_ne_panic {c : Cfg} (hpc2 : 2 ≤ c.partCount) {parts : List Nat} {locks : List Bool}
    {tmax : List Int} {t t' : Task} {ev : Event}
    (hs : stepTask c parts locks tmax t = some (t', ev)) : t'.pc ≠ .panic := by
  unfold stepTask at hs
  split at hs
  case h_4 =>
    split_ifs at hs <;> simp only [Option.some.injEq, Prod.mk.injEq] at hs <;> obtain ⟨rfl, -⟩ := hs
    · exact popCut_ne_panic _
    · simp
    · simp
  case h_13 => simp at hs
  case h_14 => simp at hs
  all_goals
    simp only [Option.some.injEq, Prod.mk.injEq] at hs
    obtain ⟨rfl, -⟩ := hs
  · split_ifs <;> simp
  · split_ifs
    · exact nextScan_ne_panic t
    · simp
  · split_ifs
    · exact popCut_ne_panic _
    · simp
    · exact nextScan_ne_panic t
  · split_ifs <;> simp
  · split_ifs
    · simp
    · split
      · next h => exact absurd h (nextTarget_zero_ne_none hpc2)
      · simp
  · split_ifs
    · simp
    · split
      · simp
      · exact decideMove_ne_panic _ _ _ _ _ _ _
  · simp
  · split
    · split_ifs
      · exact popCut_ne_panic t
      · simp
    · exact popCut_ne_panic t
  · split_ifs
    · exact postNext_ne_panic _ _ _ _
    · split
      · next h => exact absurd h (nextTarget_zero_ne_none hpc2)
      · simp
  · split_ifs
    · simp
    · split
      · simp
      · exact postNext_ne_panic c _ _ _
    · split
      · simp
      · exact postNext_ne_panic c _ _ _
  · simp

def NoPanic (s : State) : Prop := ∀ t ∈ s.tasks, t.pc ≠ .panic

theorem noPanic_beginPass (c : Cfg) (s : State) : NoPanic (beginPass c s) := by
  intro t ht
  simp only [beginPass] at ht
  rw [(mkTasks_mem ht).2.2]
  simp

/-- `Pc.panic` is unreachable. -/
theorem noPanic_reach {c : Cfg} {p₀ : List Nat} (hc : CfgOk c p₀) {s : State} (h : Reach c p₀ s) :
    NoPanic s := by
  induction h with
  | init => exact noPanic_beginPass _ _
  | @step s s' tid ev _ hstep ih =>
    obtain ⟨t, t', ht, hst, rfl⟩ := step_spec hstep
    intro x hx
    rcases List.mem_or_eq_of_mem_set hx with hx | rfl
    · exact ih x hx
    · exact stepTask_ne_panic hc.pc2 hst
  | pass => exact noPanic_beginPass _ _

theorem noPanic_any {s : State} (h : NoPanic s) : s.tasks.any (fun t => t.pc == .panic) = false := by
  rw [List.any_eq_false]
  intro t ht
  simpa using h t ht

/-! ### constants of the potential -/

/-- Largest row length. -/
def maxDeg (g : Graph) : Nat := (g.map List.length).foldr max 0

theorem deg_le_maxDeg (g : Graph) (v : Nat) : deg g v ≤ maxDeg g := by
  unfold deg adj maxDeg
  induction g generalizing v with
  | nil => simp
  | cons row g ih =>
    cases v with
    | zero => simp only [List.getD_cons_zero, List.map_cons, List.foldr_cons]; omega
    | succ v =>
      simp only [List.getD_cons_succ, List.map_cons, List.foldr_cons]
      have := ih v
      omega

/-- gain phase of one vertex: at most `P` targets × (`D` neighbours + 1). -/
def cG (D P : Nat) : Nat := P * (D + 1) + D
/-- one attempt (`cas` … `unlock`), without the post-move loop. -/
def cA (D P : Nat) : Nat := cG D P + D + 5
/-- one iteration of the post-move loop (including the attempt its push causes). -/
def cQ (D P : Nat) : Nat := cA D P + cG D P + 2
/-- what a move costs: the release + the whole post-move loop. -/
def cU (D P : Nat) : Nat := D * cQ D P + cQ D P + 1
/-- one iteration of the chunk scan (including the attempt its push causes). -/
def cS (D P : Nat) : Nat := cA D P + D + 2

/-- What is left after the current attempt: the stack and the rest of the chunk scan. -/
def base (D P n hi scan : Nat) : Nat := n * cA D P + (hi - scan - 1) * cS D P + 1

/-- Potential of a local state (`n` = height of the `cut` stack). -/
def potOf (D P : Nat) (n hi scan lo : Nat) : Pc → Nat
  | .notStarted => n * cA D P + (hi - lo) * cS D P + 2
  | .scanOwn _ => cS D P + base D P n hi scan
  | .scanNbr _ _ k => cA D P + 1 + (D - k) + base D P n hi scan
  | .cas _ => cA D P + base D P n hi scan
  | .nbrLock _ k => cG D P + 4 + (D - k) + base D P n hi scan
  | .ownPart _ => cG D P + 3 + base D P n hi scan
  | .gainRd _ _ tgt k _ _ => (P - tgt) * (D + 1) + (D - k) + 2 + base D P n hi scan
  | .store _ _ _ _ => 1 + base D P n hi scan
  | .unlock _ .moved => cU D P + base D P n hi scan
  | .unlock _ _ => 1 + base D P n hi scan
  | .postNbr _ k => (D - k) * cQ D P + cQ D P + base D P n hi scan
  | .postGain _ k _ tgt k2 _ _ =>
    (D - k) * cQ D P + cA D P + 1 + (P - tgt) * (D + 1) + (D - k2) + base D P n hi scan
  | .atEnd => 1
  | .done => 0
  | .panic => 0

def pot (D P : Nat) (t : Task) : Nat := potOf D P t.cut.length t.hi t.scan t.lo t.pc

/-- `base` of a task. -/
def tbase (D P : Nat) (t : Task) : Nat := base D P t.cut.length t.hi t.scan

theorem mul_sub_step {P a b E : Nat} (h1 : a < b) (h2 : b < P) : (P - b) * E + E ≤ (P - a) * E := by
  have h : P - b + 1 ≤ P - a := by omega
  calc (P - b) * E + E = (P - b + 1) * E := (Nat.succ_mul _ _).symm
    _ ≤ (P - a) * E := Nat.mul_le_mul_right E h

theorem sub_mul_le (P a E : Nat) : (P - a) * E ≤ P * E := Nat.mul_le_mul_right E (Nat.sub_le _ _)

theorem nextScan_pot (D P : Nat) (t : Task) : pot D P (nextScan t) ≤ tbase D P t := by
  unfold nextScan
  split_ifs with h
  · simp only [pot, potOf, tbase, base]
    obtain ⟨m, hm⟩ : ∃ m, t.hi - t.scan - 1 = m + 1 := ⟨t.hi - t.scan - 2, by omega⟩
    have e : t.hi - (t.scan + 1) - 1 = m := by omega
    rw [hm, e, Nat.succ_mul]
    omega
  · simp only [pot, potOf, tbase, base]
    omega

theorem popCut_pot (D P : Nat) (t : Task) : pot D P (popCut t) ≤ tbase D P t := by
  unfold popCut
  split
  · exact nextScan_pot D P t
  · next v rest hc =>
    simp only [pot, potOf, tbase, base, hc, List.length_cons, Nat.succ_mul]
    omega

theorem tbase_push (D P : Nat) (t : Task) (v : Nat) :
    tbase D P { t with cut := v :: t.cut } = tbase D P t + cA D P := by
  simp only [tbase, base, List.length_cons, Nat.succ_mul]
  omega

theorem postNext_pot {c : Cfg} {D : Nat} (hD : ∀ v, deg c.g v ≤ D) (P : Nat) (t : Task) (mv k : Nat) :
    pot D P (postNext c t mv k) ≤ (D - k) * cQ D P + tbase D P t := by
  unfold postNext
  split_ifs with h
  · simp only [pot, potOf, tbase]
    have := hD mv
    have := mul_sub_step (E := cQ D P) (show k < k + 1 by omega) (show k + 1 < D by omega)
    omega
  · have := popCut_pot D P t
    omega

theorem decideMove_pot (D P : Nat) (c : Cfg) (tmax : List Int) (t : Task) (v ip tgt : Nat) (gain : Int) :
    pot D P (decideMove c tmax t v ip tgt gain) = 1 + tbase D P t := by
  unfold decideMove
  split_ifs <;> rfl

/-- Allowance of a step: `U` for the step that stores a part, nothing otherwise. -/
def evAllow (D P : Nat) : Event → Nat
  | .partStore _ _ => cU D P
  | _ => 0

/-- Every step of a task lowers its potential, except the store of a move, which may raise
it by less than `U`. -/
theorem stepTask_pot {c : Cfg} {D : Nat} (hD : ∀ v, deg c.g v ≤ D) {parts : List Nat} {locks : List Bool}
    {tmax : List Int} {t t' : Task} {ev : Event}
    (hs : stepTask c parts locks tmax t = some (t', ev)) :
    pot D c.partCount t' < pot D c.partCount t + evAllow D c.partCount ev := by
  have hA : cA D c.partCount = cG D c.partCount + D + 5 := rfl
  have hQ : cQ D c.partCount = cA D c.partCount + cG D c.partCount + 2 := rfl
  have hU : cU D c.partCount = D * cQ D c.partCount + cQ D c.partCount + 1 := rfl
  have hS : cS D c.partCount = cA D c.partCount + D + 2 := rfl
  have hG : cG D c.partCount = c.partCount * (D + 1) + D := rfl
  unfold stepTask at hs
  split at hs
  · -- notStarted
    next hpcv =>
    simp only [Option.some.injEq, Prod.mk.injEq] at hs
    obtain ⟨rfl, rfl⟩ := hs
    split_ifs with h1
    · simp only [pot, potOf, hpcv, evAllow, base]
      obtain ⟨m, hm⟩ : ∃ m, t.hi - t.lo = m + 1 := ⟨t.hi - t.lo - 1, by omega⟩
      rw [hm, Nat.add_sub_cancel, Nat.succ_mul]
      omega
    · simp only [pot, potOf, hpcv, evAllow]
      omega
  · -- scanOwn
    next v hpcv =>
    simp only [Option.some.injEq, Prod.mk.injEq] at hs
    obtain ⟨rfl, rfl⟩ := hs
    split_ifs with h1
    · have := nextScan_pot D c.partCount t
      simp only [pot, potOf, hpcv, evAllow, tbase] at this ⊢
      omega
    · simp only [pot, potOf, hpcv, evAllow]
      omega
  · -- scanNbr
    next v ip k hpcv =>
    simp only [Option.some.injEq, Prod.mk.injEq] at hs
    obtain ⟨rfl, rfl⟩ := hs
    have := hD v
    split_ifs with h1 h2
    · have := popCut_pot D c.partCount { t with cut := v :: t.cut }
      rw [tbase_push] at this
      simp only [pot, potOf, hpcv, evAllow, tbase] at this ⊢
      omega
    · simp only [pot, potOf, hpcv, evAllow]
      omega
    · have := nextScan_pot D c.partCount t
      simp only [pot, potOf, hpcv, evAllow, tbase] at this ⊢
      omega
  · -- cas
    next v hpcv =>
    have := hD v
    split_ifs at hs with h1 h2
    · simp only [Option.some.injEq, Prod.mk.injEq] at hs
      obtain ⟨rfl, rfl⟩ := hs
      have := popCut_pot D c.partCount { t with md := { t.md with lockedCount := t.md.lockedCount + 1 } }
      simp only [pot, potOf, hpcv, evAllow, tbase] at this ⊢
      omega
    · simp only [Option.some.injEq, Prod.mk.injEq] at hs
      obtain ⟨rfl, rfl⟩ := hs
      simp only [pot, potOf, hpcv, evAllow]
      omega
    · simp only [Option.some.injEq, Prod.mk.injEq] at hs
      obtain ⟨rfl, rfl⟩ := hs
      simp only [pot, potOf, hpcv, evAllow]
      omega
  · -- nbrLock
    next v k hpcv =>
    simp only [Option.some.injEq, Prod.mk.injEq] at hs
    obtain ⟨rfl, rfl⟩ := hs
    have := hD v
    split_ifs with h1 h2
    · simp only [pot, potOf, hpcv, evAllow]
      omega
    · simp only [pot, potOf, hpcv, evAllow]
      omega
    · simp only [pot, potOf, hpcv, evAllow]
      omega
  · -- ownPart
    next v hpcv =>
    simp only [Option.some.injEq, Prod.mk.injEq] at hs
    obtain ⟨rfl, rfl⟩ := hs
    split_ifs with h1
    · simp only [pot, potOf, hpcv, evAllow]
      omega
    · split
      · simp only [pot, potOf, hpcv, evAllow]
        omega
      · next tgt htg =>
        have := sub_mul_le c.partCount tgt (D + 1)
        simp only [pot, potOf, hpcv, evAllow]
        omega
  · -- gainRd
    next v ip tgt k acc best hpcv =>
    simp only [Option.some.injEq, Prod.mk.injEq] at hs
    obtain ⟨rfl, rfl⟩ := hs
    have := hD v
    split_ifs with h1
    · simp only [pot, potOf, hpcv, evAllow]
      omega
    · split
      · next tgt' htg =>
        obtain ⟨h2, -, h3⟩ := nextTarget_spec htg
        have := mul_sub_step (E := D + 1) (show tgt < tgt' by omega) h2
        simp only [pot, potOf, hpcv, evAllow]
        omega
      · rw [decideMove_pot]
        simp only [pot, potOf, hpcv, evAllow, tbase]
        omega
  · -- store
    next v ip tgt gain hpcv =>
    simp only [Option.some.injEq, Prod.mk.injEq] at hs
    obtain ⟨rfl, rfl⟩ := hs
    simp only [pot, potOf, hpcv, evAllow]
    omega
  · -- unlock
    next v a hpcv =>
    simp only [Option.some.injEq, Prod.mk.injEq] at hs
    obtain ⟨rfl, rfl⟩ := hs
    have := popCut_pot D c.partCount t
    cases a with
    | moved =>
      simp only
      split_ifs with h1
      · simp only [pot, potOf, hpcv, evAllow, tbase] at this ⊢
        omega
      · simp only [pot, potOf, hpcv, evAllow, Nat.sub_zero]
        omega
    | raced =>
      simp only [pot, potOf, hpcv, evAllow, tbase] at this ⊢
      omega
    | rejected =>
      simp only [pot, potOf, hpcv, evAllow, tbase] at this ⊢
      omega
  · -- postNbr
    next mv k hpcv =>
    simp only [Option.some.injEq, Prod.mk.injEq] at hs
    obtain ⟨rfl, rfl⟩ := hs
    split_ifs with h1
    · have := postNext_pot hD c.partCount t mv k
      simp only [pot, potOf, hpcv, evAllow, tbase] at this ⊢
      omega
    · split
      · simp only [pot, potOf, hpcv, evAllow]
        omega
      · next tgt htg =>
        have := sub_mul_le c.partCount tgt (D + 1)
        simp only [pot, potOf, hpcv, evAllow, Nat.sub_zero]
        omega
  · -- postGain
    next mv k np tgt k2 acc best hpcv =>
    simp only [Option.some.injEq, Prod.mk.injEq] at hs
    obtain ⟨rfl, rfl⟩ := hs
    have := hD (nbr c.g mv k)
    split_ifs with h1 h2
    · simp only [pot, potOf, hpcv, evAllow]
      omega
    · split
      · next tgt' htg =>
        obtain ⟨h3, -, h4⟩ := nextTarget_spec htg
        have := mul_sub_step (E := D + 1) (show tgt < tgt' by omega) h3
        simp only [pot, potOf, hpcv, evAllow]
        omega
      · have := postNext_pot hD c.partCount { t with cut := nbr c.g mv k :: t.cut } mv k
        rw [tbase_push] at this
        simp only [pot, potOf, hpcv, evAllow, tbase] at this ⊢
        omega
    · split
      · next tgt' htg =>
        obtain ⟨h3, -, h4⟩ := nextTarget_spec htg
        have := mul_sub_step (E := D + 1) (show tgt < tgt' by omega) h3
        simp only [pot, potOf, hpcv, evAllow]
        omega
      · have := postNext_pot hD c.partCount t mv k
        simp only [pot, potOf, hpcv, evAllow, tbase] at this ⊢
        omega
  · -- atEnd
    next hpcv =>
    simp only [Option.some.injEq, Prod.mk.injEq] at hs
    obtain ⟨rfl, rfl⟩ := hs
    simp only [pot, potOf, hpcv, evAllow]
    omega
  · simp at hs
  · simp at hs

/-! ### the global potential -/

/-- Sum of the negative parts of all stored edge weights (`0` on a graph with non-negative
edge weights): `cut g p ≥ -negW g` for every `p`. -/
def negW (g : Graph) : Nat := ((edges g).map fun e => (-e.2.2).toNat).sum

theorem negW_eq_zero {g : Graph} (hw : ∀ e ∈ edges g, 0 ≤ e.2.2) : negW g = 0 := by
  unfold negW
  generalize edges g = l at hw
  induction l with
  | nil => rfl
  | cons e l ih =>
    simp only [List.map_cons, List.sum_cons]
    have := ih fun e he => hw e (List.mem_cons_of_mem _ he)
    have := hw e List.mem_cons_self
    omega

theorem cut_lower (g : Graph) (p : List Nat) : 0 ≤ cut g p + (negW g : Int) := by
  rw [cut_eq_S]
  unfold S negW
  generalize edges g = l
  induction l with
  | nil => simp
  | cons e l ih =>
    simp only [List.map_cons, List.sum_cons, Int.natCast_add]
    split_ifs <;> omega

/-- Upper bound on the number of moves still possible from the partition `parts`
(every move lowers the cut by at least 1). -/
def movesLeft (c : Cfg) (parts : List Nat) : Nat := (cut c.g parts + (negW c.g : Int)).toNat

def sumPot (D P : Nat) (l : List Task) : Nat := (l.map (pot D P)).sum

theorem sumPot_set (D P : Nat) {l : List Task} {i : Nat} {t : Task} (t' : Task) (h : l[i]? = some t) :
    sumPot D P (l.set i t') + pot D P t = sumPot D P l + pot D P t' := by
  unfold sumPot
  induction l generalizing i with
  | nil => simp at h
  | cons a l ih =>
    cases i with
    | zero =>
      simp only [List.getElem?_cons_zero, Option.some.injEq] at h
      subst h
      simp only [List.set_cons_zero, List.map_cons, List.sum_cons]; omega
    | succ i =>
      simp only [List.getElem?_cons_succ] at h
      have := ih h
      simp only [List.set_cons_succ, List.map_cons, List.sum_cons]; omega

theorem sum_map_le_nat {α} (l : List α) (f : α → Nat) (b : Nat) (h : ∀ x ∈ l, f x ≤ b) :
    (l.map f).sum ≤ l.length * b := by
  induction l with
  | nil => simp
  | cons a l ih =>
    simp only [List.map_cons, List.sum_cons, List.length_cons, Nat.succ_mul]
    have := h a List.mem_cons_self
    have := ih fun x hx => h x (List.mem_cons_of_mem _ hx)
    omega

/-- The potential of a state of a pass: an upper bound on the number of steps (of all
tasks together, under any schedule) the pass can still perform. -/
def stepsLeft (c : Cfg) (s : State) : Nat :=
  movesLeft c s.parts * cU (maxDeg c.g) c.partCount + sumPot (maxDeg c.g) c.partCount s.tasks

theorem evAllow_of_ne_store (D P : Nat) {ev : Event} (h : ∀ v p, ev ≠ .partStore v p) : evAllow D P ev = 0 := by
  cases ev <;> first | rfl | exact absurd rfl (h _ _)

/-- EVERY step of EVERY task strictly lowers the potential. -/
theorem step_decreases {c : Cfg} {p₀ : List Nat} (hy : Hyp c p₀) {s s' : State} {tid : Nat} {ev : Event}
    (h : Reach c p₀ s) (hstep : step c s tid = some (s', ev)) : stepsLeft c s' < stepsLeft c s := by
  obtain ⟨t, t', ht, hst, rfl⟩ := step_spec hstep
  have hp := stepTask_pot (deg_le_maxDeg c.g) hst
  have hsum := sumPot_set (maxDeg c.g) c.partCount t' ht
  unfold stepsLeft
  simp only
  by_cases hev : ∃ v q, ev = .partStore v q
  · obtain ⟨v, q, rfl⟩ := hev
    obtain ⟨ip, gain, hpc, -⟩ := stepTask_store hst
    have h1 := inv1_reach hy.cfg h
    have hr := (inv2_reach hy h).read tid t ht
    unfold ReadInv at hr
    rw [hpc] at hr
    simp only at hr
    have hok := (h1.tok tid t ht).pc
    rw [hpc] at hok
    simp only [PcOk] at hok
    have hgain : 0 < gain := hr.2.2.1
    have hcut : cut c.g (s.parts.set v q) = cut c.g s.parts - gain := by
      rw [hr.2.1]
      exact cut_set hy.gsym hy.noLoop s.parts (by rw [h1.plen]; exact hok.1) hr.1.symm hok.2.2
    have hl := cut_lower c.g (s.parts.set v q)
    have hm : movesLeft c (s.parts.set v q) + 1 ≤ movesLeft c s.parts := by
      unfold movesLeft; omega
    have hmul := Nat.mul_le_mul_right (cU (maxDeg c.g) c.partCount) hm
    rw [Nat.succ_mul] at hmul
    simp only [Event.applyParts, evAllow] at hp ⊢
    omega
  · have hev' : ∀ v p, ev ≠ .partStore v p := fun v p h => hev ⟨v, p, h⟩
    rw [applyParts_of_ne_store hev', ]
    rw [evAllow_of_ne_store _ _ hev'] at hp
    omega

/-! ### enabledness -/

theorem stepTask_some {c : Cfg} (parts : List Nat) (locks : List Bool) (tmax : List Int) {t : Task}
    (h1 : t.pc ≠ .done) (h2 : t.pc ≠ .panic) : ∃ t' ev, stepTask c parts locks tmax t = some (t', ev) := by
  unfold stepTask
  split
  case h_4 => split_ifs <;> exact ⟨_, _, rfl⟩
  case h_13 h => exact absurd h h1
  case h_14 h => exact absurd h h2
  all_goals exact ⟨_, _, rfl⟩

theorem firstLive_some {s : State} {tid : Nat} (h : firstLive s = some tid) :
    ∃ t, s.tasks[tid]? = some t ∧ t.pc ≠ .done ∧ t.pc ≠ .panic := by
  unfold firstLive at h
  simp only [Option.map_eq_some_iff] at h
  obtain ⟨x, hx, rfl⟩ := h
  have hp := List.find?_some hx
  have hm := List.mem_of_find?_eq_some hx
  obtain ⟨t, i⟩ := x
  exact ⟨t, List.mem_zipIdx_iff_getElem?.1 hm, by simpa using hp⟩

theorem step_of_live (c : Cfg) {s : State} {tid : Nat} {t : Task} (ht : s.tasks[tid]? = some t)
    (h1 : t.pc ≠ .done) (h2 : t.pc ≠ .panic) : ∃ s' ev, step c s tid = some (s', ev) := by
  obtain ⟨t', ev, hst⟩ := stepTask_some (c := c) s.parts s.locks s.tmax h1 h2
  unfold step
  rw [ht]
  simp only [hst]
  exact ⟨_, _, rfl⟩

/-- No deadlock: a reachable state in which not every task is done has an enabled task. -/
theorem progress {c : Cfg} {p₀ : List Nat} (hc : CfgOk c p₀) {s : State} (h : Reach c p₀ s)
    (hnd : allDone s = false) : ∃ tid s' ev, step c s tid = some (s', ev) := by
  cases hfl : firstLive s with
  | none => rw [allDone_of_firstLive hfl (noPanic_any (noPanic_reach hc h))] at hnd; cases hnd
  | some tid =>
    obtain ⟨t, ht, h1, h2⟩ := firstLive_some hfl
    exact ⟨tid, step_of_live c ht h1 h2⟩

/-! ### every schedule -/

/-- Steps executed by a schedule + the potential left ≤ the potential before. -/
theorem runSchedule_mu {c : Cfg} {p₀ : List Nat} (hy : Hyp c p₀) (sched : List Nat) {s : State}
    (tr : List (Nat × Event)) (h : Reach c p₀ s) :
    (runSchedule c s sched tr).2.length + stepsLeft c (runSchedule c s sched tr).1 ≤ tr.length + stepsLeft c s := by
  induction sched generalizing s tr with
  | nil => exact Nat.le_refl _
  | cons tid rest ih =>
    unfold runSchedule
    split
    · exact ih tr h
    · next s' ev hst =>
      have := ih ((tid, ev) :: tr) (Reach.step h hst)
      have := step_decreases hy h hst
      simp only [List.length_cons] at *
      omega

theorem finishPass_total {c : Cfg} {p₀ : List Nat} (hy : Hyp c p₀) (fuel : Nat) {s : State}
    (tr : List (Nat × Event)) (h : Reach c p₀ s) (hf : stepsLeft c s < fuel) :
    ∃ s' tr', finishPass c fuel s tr = some (s', tr') := by
  induction fuel generalizing s tr with
  | zero => omega
  | succ fuel ih =>
    unfold finishPass
    cases hfl : firstLive s with
    | none => exact ⟨s, tr, rfl⟩
    | some tid =>
      obtain ⟨t, ht, h1, h2⟩ := firstLive_some hfl
      obtain ⟨s', ev, hst⟩ := step_of_live c ht h1 h2
      simp only [hst]
      have := step_decreases hy h hst
      exact ih _ (Reach.step h hst) (by omega)

/-- The default completion, too, only spends potential. -/
theorem finishPass_mu {c : Cfg} {p₀ : List Nat} (hy : Hyp c p₀) (fuel : Nat) {s s' : State}
    {tr tr' : List (Nat × Event)} (h : Reach c p₀ s) (hf : finishPass c fuel s tr = some (s', tr')) :
    tr'.length + stepsLeft c s' ≤ tr.length + stepsLeft c s := by
  induction fuel generalizing s tr with
  | zero => simp [finishPass] at hf
  | succ fuel ih =>
    unfold finishPass at hf
    split at hf
    · simp only [Option.some.injEq, Prod.mk.injEq] at hf
      obtain ⟨rfl, rfl⟩ := hf
      exact Nat.le_refl _
    · split at hf
      · simp at hf
      · next s1 ev hst =>
        have := ih (Reach.step h hst) hf
        have := step_decreases hy h hst
        simp only [List.length_cons] at *
        omega

/-- A schedule that has executed `stepsLeft c s` steps has driven the pass to completion. -/
theorem allDone_of_long {c : Cfg} {p₀ : List Nat} (hy : Hyp c p₀) {s : State} (h : Reach c p₀ s)
    (sched : List Nat) (hlen : stepsLeft c s ≤ (runSchedule c s sched []).2.length) :
    allDone (runSchedule c s sched []).1 = true := by
  have h1 := runSchedule_mu hy sched [] h
  have h2 := runSchedule_reach sched [] h
  cases hd : allDone (runSchedule c s sched []).1 with
  | true => rfl
  | false =>
    obtain ⟨tid, s', ev, hst⟩ := progress hy.cfg h2 hd
    have := step_decreases hy h2 hst
    simp only [List.length_nil] at h1
    omega

/-! ### bounds that depend on the input only -/

/-- Bound on the number of passes: `cut(input) + negW + 1` (`= cut(input) + 1` when no edge
weight is negative). -/
def passesBound (c : Cfg) (p₀ : List Nat) : Nat := movesLeft c p₀ + 1

/-- Bound on the number of steps of ONE pass (all tasks together, any schedule), uniform
over the passes: a function of the input only. -/
def fuelBound (c : Cfg) (p₀ : List Nat) : Nat :=
  movesLeft c p₀ * cU (maxDeg c.g) c.partCount +
    c.threadCount * (c.ipt * cS (maxDeg c.g) c.partCount + 2)

theorem movesLeft_le {c : Cfg} {p₀ : List Nat} (hy : Hyp c p₀) {s : State} (h : Reach c p₀ s) :
    movesLeft c s.parts ≤ movesLeft c p₀ := by
  have h2 := inv2_reach hy h
  have h4 := h2.cutAcct
  have h6 := sum_map_nonneg (l := s.tasks) (fun t => t.md.edgeCutGain) h2.gainNonneg.2
  have := h2.gainNonneg.1
  unfold movesLeft
  omega

theorem passCount_le {c : Cfg} {p₀ : List Nat} (hy : Hyp c p₀) {s : State} (h : Reach c p₀ s) :
    s.md.passCount ≤ passesBound c p₀ := by
  have h2 := inv2_reach hy h
  have h3 := h2.passes.1
  have h4 := h2.cutAcct
  have h5 := cut_lower c.g s.parts
  have h6 := sum_map_nonneg (l := s.tasks) (fun t => t.md.edgeCutGain) h2.gainNonneg.2
  have h7 := cut_lower c.g p₀
  unfold passesBound movesLeft
  omega

theorem sumPot_mkTasks (c : Cfg) (D P n : Nat) (pw : List Int) :
    sumPot D P (mkTasks c n pw) ≤ c.threadCount * (c.ipt * cS D P + 2) := by
  unfold sumPot
  have := sum_map_le_nat (mkTasks c n pw) (pot D P) (c.ipt * cS D P + 2) (by
    intro t ht
    obtain ⟨i, hi⟩ := List.getElem?_of_mem ht
    rw [mkTasks_get hi]
    simp only [pot, potOf, List.length_nil, Nat.zero_mul, Nat.zero_add]
    have e : (i + 1) * c.ipt = i * c.ipt + c.ipt := Nat.succ_mul _ _
    have : min n ((i + 1) * c.ipt) - i * c.ipt ≤ c.ipt := by omega
    have := Nat.mul_le_mul_right (cS D P) this
    omega)
  rw [mkTasks_length] at this
  exact this

theorem mu_beginPass_le {c : Cfg} {p₀ : List Nat} (hy : Hyp c p₀) {s : State}
    (h : Reach c p₀ (beginPass c s)) : stepsLeft c (beginPass c s) ≤ fuelBound c p₀ := by
  have h1 := movesLeft_le hy h
  have h2 := sumPot_mkTasks c (maxDeg c.g) c.partCount s.parts.length s.pw
  have h3 := Nat.mul_le_mul_right (cU (maxDeg c.g) c.partCount) h1
  unfold stepsLeft fuelBound
  simp only [beginPass] at h1 h3 ⊢
  omega

/-- In every reachable state the potential is below `fuelBound` (it only decreases inside a
pass, and every pass starts below it). -/
theorem mu_le_fuelBound {c : Cfg} {p₀ : List Nat} (hy : Hyp c p₀) {s : State} (h : Reach c p₀ s) :
    stepsLeft c s ≤ fuelBound c p₀ := by
  induction h with
  | init => exact mu_beginPass_le hy Reach.init
  | step hr hstep ih => have := step_decreases hy hr hstep; omega
  | pass hr hd ha _ => exact mu_beginPass_le hy (Reach.pass hr hd ha)

/-! ### the executable pass loop is total -/

theorem step_md {c : Cfg} {s s' : State} {tid : Nat} {ev : Event} (h : step c s tid = some (s', ev)) :
    s'.md = s.md := by
  obtain ⟨t, t', -, -, rfl⟩ := step_spec h
  rfl

theorem runSchedule_md (c : Cfg) (sched : List Nat) (s : State) (tr : List (Nat × Event)) :
    (runSchedule c s sched tr).1.md = s.md := by
  induction sched generalizing s tr with
  | nil => rfl
  | cons tid rest ih =>
    unfold runSchedule
    split
    · exact ih s tr
    · next s' ev hst => rw [ih, step_md hst]

theorem finishPass_md {c : Cfg} (fuel : Nat) {s s' : State} {tr tr' : List (Nat × Event)}
    (hf : finishPass c fuel s tr = some (s', tr')) : s'.md = s.md := by
  induction fuel generalizing s tr with
  | zero => simp [finishPass] at hf
  | succ fuel ih =>
    unfold finishPass at hf
    split at hf
    · simp only [Option.some.injEq, Prod.mk.injEq] at hf
      obtain ⟨rfl, -⟩ := hf
      rfl
    · split at hf
      · simp at hf
      · next s1 ev hst => rw [ih hf, step_md hst]

theorem runLoop_total {c : Cfg} {p₀ : List Nat} (hy : Hyp c p₀) {fuel : Nat} (hf : fuelBound c p₀ < fuel)
    (passes : Nat) (s : State) (scheds : List (List Nat)) (acc : List (List (Nat × Event)))
    (h : Reach c p₀ (beginPass c s))
    (hp : passesBound c p₀ < passes + (beginPass c s).md.passCount) :
    ∃ ids md tr, runLoop c fuel passes s scheds acc = (.ok ids md, tr) := by
  induction passes generalizing s scheds acc with
  | zero => have := passCount_le hy h; omega
  | succ passes ih =>
    have h2 := runSchedule_reach (scheds.headD []) [] h
    have hmu2 := mu_le_fuelBound hy h2
    obtain ⟨s3, tr3, hfin⟩ := finishPass_total hy fuel (runSchedule c (beginPass c s) (scheds.headD []) []).2 h2
      (by omega)
    obtain ⟨h3, hlive⟩ := finishPass_reach fuel h2 hfin
    have hnp := noPanic_any (noPanic_reach hy.cfg h3)
    have hdone := allDone_of_firstLive hlive hnp
    have hmd : s3.md = (beginPass c s).md := by
      rw [finishPass_md fuel hfin, runSchedule_md]
    unfold runLoop
    simp only [hfin, hnp, Bool.false_eq_true, if_false]
    by_cases hagain : (endPass c s3).2 = true
    · simp only [hagain, if_true]
      refine ih _ _ _ (Reach.pass h3 hdone hagain) ?_
      obtain ⟨-, -, -, -, -, e6, -, -⟩ := endPass_facts hy (inv2_reach hy h3)
      have : (beginPass c (endPass c s3).1).md.passCount = (endPass c s3).1.md.passCount + 1 := rfl
      rw [this, e6, hmd]
      omega
    · simp only [hagain]
      exact ⟨_, _, _, rfl⟩

/-- `run` returns `ok` under EVERY list of schedules, as soon as the per-pass fuel exceeds
`fuelBound` and the number of passes allowed reaches `passesBound`. -/
theorem run_total {c : Cfg} {p₀ : List Nat} (hy : Hyp c p₀) (scheds : List (List Nat)) {fuel passes : Nat}
    (hf : fuelBound c p₀ < fuel) (hp : passesBound c p₀ ≤ passes) :
    ∃ ids md tr, run c p₀ scheds fuel passes = (.ok ids md, tr) := by
  unfold run
  refine runLoop_total hy hf passes _ scheds [] Reach.init ?_
  have : (beginPass c (initState c p₀)).md.passCount = 1 := rfl
  omega

theorem runLoop_ne_panic {c : Cfg} {p₀ : List Nat} (hc : CfgOk c p₀) (fuel passes : Nat) (s : State)
    (scheds : List (List Nat)) (acc : List (List (Nat × Event))) (h : Reach c p₀ (beginPass c s)) :
    (runLoop c fuel passes s scheds acc).1 ≠ .panic := by
  induction passes generalizing s scheds acc with
  | zero => simp [runLoop]
  | succ passes ih =>
    have h2 := runSchedule_reach (scheds.headD []) [] h
    unfold runLoop
    simp only
    split
    · simp
    · next s3 tr3 hfin =>
      obtain ⟨h3, hlive⟩ := finishPass_reach fuel h2 hfin
      have hnp := noPanic_any (noPanic_reach hc h3)
      have hdone := allDone_of_firstLive hlive hnp
      simp only [hnp, Bool.false_eq_true, if_false]
      split
      · next hagain => exact ih _ _ _ (Reach.pass h3 hdone hagain)
      · simp

/-- The executable pass loop never reports a panic, whatever the schedules, fuel and passes. -/
theorem run_ne_panic {c : Cfg} {p₀ : List Nat} (hc : CfgOk c p₀) (scheds : List (List Nat)) (fuel passes : Nat) :
    (run c p₀ scheds fuel passes).1 ≠ .panic :=
  runLoop_ne_panic hc fuel passes _ scheds [] Reach.init

end Coupe.ArcSwap
