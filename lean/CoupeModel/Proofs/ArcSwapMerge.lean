import CoupeModel.Model.Basic
import CoupeModel.Model.ArcSwap
import CoupeModel.Proofs.ArcSwapAcct

/-!
# ArcSwap: the end-of-pass merge of the per-task part weights stays in range (K9)

Lemmas for `Props/C05c.lean`.  The reduce of `arc_swap.rs` sums, per part, what every
task brought in (`gains`) and what it took out (`losses`); rayon combines adjacent
results along an arbitrary tree, so the values it ever holds are the sums over
sub-collections of the tasks — modelled as ANY sublist of `s.tasks`.
-/

namespace Coupe.ArcSwap

/-- Sum of the gains of part `p` over a collection of tasks. -/
def mGain (l : List Task) (p : Nat) (pw0 : Int) : Int := (l.map fun t => taskGain pw0 (t.pw.getD p 0)).sum
/-- Sum of the losses of part `p` over a collection of tasks. -/
def mLoss (l : List Task) (p : Nat) (pw0 : Int) : Int := (l.map fun t => taskLoss pw0 (t.pw.getD p 0)).sum

theorem taskGain_nonneg (a b : Int) : 0 ≤ taskGain a b := by unfold taskGain; split <;> omega
theorem taskLoss_nonneg (a b : Int) : 0 ≤ taskLoss a b := by unfold taskLoss; split <;> omega

theorem mGain_nonneg (l : List Task) (p : Nat) (pw0 : Int) : 0 ≤ mGain l p pw0 :=
  sum_map_nonneg _ fun _ _ => taskGain_nonneg _ _
theorem mLoss_nonneg (l : List Task) (p : Nat) (pw0 : Int) : 0 ≤ mLoss l p pw0 :=
  sum_map_nonneg _ fun _ _ => taskLoss_nonneg _ _

/-- A sub-collection's sum of non-negative terms is at most the whole sum. -/
theorem sum_map_sublist_le {l' l : List Task} (f : Task → Int) (hf : ∀ t, 0 ≤ f t) (h : l'.Sublist l) :
    (l'.map f).sum ≤ (l.map f).sum := by
  induction h with
  | slnil => simp
  | cons a _ ih => simp only [List.map_cons, List.sum_cons]; have := hf a; omega
  | cons_cons a _ ih => simp only [List.map_cons, List.sum_cons]; omega

theorem mGain_sublist_le {l' l : List Task} (p : Nat) (pw0 : Int) (h : l'.Sublist l) :
    mGain l' p pw0 ≤ mGain l p pw0 := sum_map_sublist_le _ (fun _ => taskGain_nonneg _ _) h
theorem mLoss_sublist_le {l' l : List Task} (p : Nat) (pw0 : Int) (h : l'.Sublist l) :
    mLoss l' p pw0 ≤ mLoss l p pw0 := sum_map_sublist_le _ (fun _ => taskLoss_nonneg _ _) h

theorem load_nonneg (ws : List Int) (ids : List Nat) (k : Nat) (hw : ∀ v, 0 ≤ ws.getD v 0) :
    0 ≤ Coupe.load ws ids k := by
  unfold Coupe.load
  have hall : ∀ x ∈ ws, 0 ≤ x := by
    intro x hx
    obtain ⟨i, hi, rfl⟩ := List.mem_iff_getElem.1 hx
    have := hw i
    simpa [List.getD_eq_getElem?_getD, List.getElem?_eq_getElem hi] using this
  have : ∀ y ∈ ((ws.zip ids).filter (fun x => x.2 == k)).map (·.1), 0 ≤ y := by
    intro y hy
    obtain ⟨x, hx, rfl⟩ := List.mem_map.1 hy
    exact hall _ (List.of_mem_zip ((List.mem_filter.1 hx).1)).1
  generalize ((ws.zip ids).filter (fun x => x.2 == k)).map (·.1) = l at this
  induction l with
  | nil => simp
  | cons a l ih =>
    simp only [List.sum_cons]
    have := this a List.mem_cons_self
    have := ih fun y hy => ‹∀ y ∈ a :: l, 0 ≤ y› y (List.mem_cons_of_mem _ hy)
    omega

/-- Every task's gain is within its share of the head-room, so the gains of ALL tasks fit
under the larger of the pass's initial weight and the cap. -/
theorem gain_all_le {c : Cfg} {p₀ : List Nat} {s : State} (hy : Hyp c p₀) (h : Inv2 c p₀ s) (p : Nat)
    (hp : p < c.partCount) :
    s.pw.getD p 0 + mGain s.tasks p (s.pw.getD p 0) ≤ max (s.pw.getD p 0) c.maxPw := by
  have htm := tmaxOf_getD c s.pw p (by rw [h.pwlen.1]; exact hp)
  rw [← h.tmaxEq] at htm
  have hT : (0 : Int) < c.threadCount := by have := hy.tpos; omega
  rcases Int.le_total 0 (c.maxPw - s.pw.getD p 0) with hd | hd
  · have hq := Int.tdiv_nonneg hd (Int.le_of_lt hT)
    have hmul := Int.mul_tdiv_self_le (k := (c.threadCount : Int)) hd
    have hsum := sum_map_le_bound (l := s.tasks) (fun t => taskGain (s.pw.getD p 0) (t.pw.getD p 0))
      (Int.tdiv (c.maxPw - s.pw.getD p 0) c.threadCount) (by
        intro t ht
        have := h.budget t ht p hp
        rw [htm] at this
        unfold taskGain; split <;> omega)
    rw [h.ntasks] at hsum
    unfold mGain
    omega
  · have hq : Int.tdiv (c.maxPw - s.pw.getD p 0) c.threadCount ≤ 0 := by
      have e : c.maxPw - s.pw.getD p 0 = -(s.pw.getD p 0 - c.maxPw) := by omega
      rw [e, Int.neg_tdiv]
      have := Int.tdiv_nonneg (a := s.pw.getD p 0 - c.maxPw) (b := c.threadCount) (by omega) (Int.le_of_lt hT)
      omega
    have hsum := sum_map_le_bound (l := s.tasks) (fun t => taskGain (s.pw.getD p 0) (t.pw.getD p 0)) 0 (by
        intro t ht
        have := h.budget t ht p hp
        rw [htm] at this
        unfold taskGain; split <;> omega)
    unfold mGain
    omega

/-- `pw + gains − losses` is the true load of the part. -/
theorem merge_is_load {c : Cfg} {p₀ : List Nat} {s : State} (h : Inv2 c p₀ s) (p : Nat) (hp : p < c.partCount) :
    s.pw.getD p 0 + mGain s.tasks p (s.pw.getD p 0) - mLoss s.tasks p (s.pw.getD p 0) =
      Coupe.load c.w s.parts p := by
  rw [h.loadAcct p hp]
  have := gainSum_sub_lossSum s.tasks p (s.pw.getD p 0)
  unfold mGain mLoss
  omega

/-- The weight a pass starts from is a true load, hence non-negative. -/
theorem pw_nonneg_reach {c : Cfg} {p₀ : List Nat} (hy : Hyp c p₀) {s : State} (h : Reach c p₀ s) :
    ∀ p, p < c.partCount → 0 ≤ s.pw.getD p 0 := by
  induction h with
  | init =>
    intro p hp
    simp only [beginPass, initState]
    rw [loads_getD _ _ _ _ hp]
    exact load_nonneg _ _ _ hy.wnonneg
  | step hr hstep ih =>
    obtain ⟨t, t', _, _, hs'⟩ := step_spec hstep
    intro p hp
    have : ∀ {s s' : State} {a b d}, s' = { s with parts := a, locks := b, tasks := d } → s'.pw = s.pw := by
      intro s s' a b d h; rw [h]
    rw [this hs']; exact ih p hp
  | @pass s hr hdone hagain ih =>
    obtain ⟨_, _, _, _, _, _, _, e8⟩ := endPass_facts hy (inv2_reach hy hr)
    intro p hp
    have : (beginPass c (endPass c s).1).pw = (endPass c s).1.pw := rfl
    rw [this, ← e8 p hp]
    exact load_nonneg _ _ _ hy.wnonneg

end Coupe.ArcSwap
