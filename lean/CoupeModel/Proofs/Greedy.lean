import CoupeModel.Model.Basic
import CoupeModel.Model.Greedy

/-! Helper lemmas for the Greedy (LPT) model. -/

namespace Coupe.Greedy

/-! ## `argMinLast` -/

theorem argMinGo_spec (xs : List Int) :
    ∀ (pre : List Int) (best : Nat) (bv : Int) (i : Nat),
      pre.length = i → pre[best]? = some bv → (∀ x ∈ pre, bv ≤ x) →
      ∃ v, (pre ++ xs)[argMinGo best bv i xs]? = some v ∧ ∀ x ∈ pre ++ xs, v ≤ x := by
  induction xs with
  | nil =>
    intro pre best bv i _ hbv hmin
    refine ⟨bv, ?_, ?_⟩
    · simpa only [argMinGo, List.append_nil] using hbv
    · simpa only [List.append_nil] using hmin
  | cons x xs ih =>
    intro pre best bv i hi hbv hmin
    have happ : pre ++ x :: xs = (pre ++ [x]) ++ xs := by
      simp only [List.append_assoc, List.cons_append, List.nil_append]
    have hbest : best < pre.length := (List.getElem?_eq_some_iff.1 hbv).1
    rw [happ]
    simp only [argMinGo]
    split
    next hlt =>
      apply ih (pre ++ [x]) best bv (i + 1)
      · simp only [List.length_append, List.length_cons, List.length_nil, hi]
      · rw [List.getElem?_append_left hbest]; exact hbv
      · intro y hy
        rcases List.mem_append.1 hy with hy | hy
        · exact hmin y hy
        · rw [List.mem_singleton.1 hy]; omega
    next hlt =>
      apply ih (pre ++ [x]) i x (i + 1)
      · simp only [List.length_append, List.length_cons, List.length_nil, hi]
      · rw [List.getElem?_append_right (by omega)]
        simp only [hi, Nat.sub_self, List.getElem?_cons_zero]
      · intro y hy
        rcases List.mem_append.1 hy with hy | hy
        · have := hmin y hy; omega
        · rw [List.mem_singleton.1 hy]; omega

theorem argMinLast_spec {L : List Int} (h : L ≠ []) :
    ∃ v, L[argMinLast L]? = some v ∧ ∀ x ∈ L, v ≤ x := by
  match L, h with
  | x :: xs, _ =>
    have := argMinGo_spec xs [x] 0 x 1 rfl rfl
      (fun y hy => by rw [List.mem_singleton.1 hy]; exact Int.le_refl _)
    simpa only [argMinLast, List.cons_append, List.nil_append] using this

/-- index of the last minimum is in range -/
theorem argMinLast_lt {L : List Int} (h : L ≠ []) : argMinLast L < L.length := by
  obtain ⟨v, hv, _⟩ := argMinLast_spec h
  exact (List.getElem?_eq_some_iff.1 hv).1

/-- and it is a minimum -/
theorem argMinLast_min {L : List Int} (h : L ≠ []) :
    ∀ x ∈ L, L[argMinLast L]'(argMinLast_lt h) ≤ x := by
  obtain ⟨v, hv, hmin⟩ := argMinLast_spec h
  obtain ⟨_, hv'⟩ := List.getElem?_eq_some_iff.1 hv
  intro x hx
  rw [hv']
  exact hmin x hx

/-! ## `insDesc` / `sortDesc` -/

theorem mem_insDesc {e y : WI} {l : List WI} : y ∈ insDesc e l ↔ y = e ∨ y ∈ l := by
  induction l with
  | nil => simp [insDesc]
  | cons x xs ih =>
    simp only [insDesc]
    split
    · simp only [List.mem_cons, ih]; grind
    · simp only [List.mem_cons]

theorem perm_insDesc (e : WI) (l : List WI) : (insDesc e l).Perm (e :: l) := by
  induction l with
  | nil => exact List.Perm.refl _
  | cons x xs ih =>
    simp only [insDesc]
    split
    · exact (List.Perm.cons x ih).trans (List.Perm.swap e x xs)
    · exact List.Perm.refl _

theorem wiLt_true_le {e x : WI} (h : wiLt e x = true) : e.1 ≤ x.1 := by
  simp only [wiLt, Bool.or_eq_true, Bool.and_eq_true, decide_eq_true_eq, beq_iff_eq] at h
  omega

theorem wiLt_false_le {e x : WI} (h : ¬ wiLt e x = true) : x.1 ≤ e.1 := by
  simp only [wiLt, Bool.or_eq_true, Bool.and_eq_true, decide_eq_true_eq, beq_iff_eq] at h
  omega

/-- Weights descending. -/
def Sorted (l : List WI) : Prop := l.Pairwise (fun x y => y.1 ≤ x.1)

theorem sorted_insDesc {e : WI} {l : List WI} (h : Sorted l) : Sorted (insDesc e l) := by
  induction l with
  | nil => simp [insDesc, Sorted]
  | cons x xs ih =>
    unfold Sorted at h ih ⊢
    rw [List.pairwise_cons] at h
    simp only [insDesc]
    split
    next hlt =>
      rw [List.pairwise_cons]
      refine ⟨?_, ih h.2⟩
      intro y hy
      rcases mem_insDesc.1 hy with rfl | hy
      · exact wiLt_true_le hlt
      · exact h.1 y hy
    next hlt =>
      have hle := wiLt_false_le hlt
      rw [List.pairwise_cons, List.pairwise_cons]
      refine ⟨?_, h⟩
      intro y hy
      rcases List.mem_cons.1 hy with rfl | hy
      · exact hle
      · exact Int.le_trans (h.1 y hy) hle

theorem mem_sortDesc {y : WI} {l : List WI} : y ∈ sortDesc l ↔ y ∈ l := by
  induction l with
  | nil => simp [sortDesc]
  | cons x xs ih => simp only [sortDesc, mem_insDesc, ih, List.mem_cons]

theorem perm_sortDesc (l : List WI) : (sortDesc l).Perm l := by
  induction l with
  | nil => exact List.Perm.refl _
  | cons x xs ih => exact (perm_insDesc x _).trans (List.Perm.cons x ih)

theorem sorted_sortDesc (l : List WI) : Sorted (sortDesc l) := by
  induction l with
  | nil => simp [sortDesc, Sorted]
  | cons x xs ih => exact sorted_insDesc ih

/-- every index written by the loop is in bounds of the id array -/
theorem sorted_ids_lt (ws : List Int) : ∀ e ∈ sortDesc ws.zipIdx, e.2 < ws.length := by
  intro x hx
  have := List.snd_lt_of_mem_zipIdx (mem_sortDesc.1 hx)
  omega

theorem sorted_nodup (ws : List Int) : ((sortDesc ws.zipIdx).map (·.2)).Nodup := by
  rw [(List.Perm.map _ (perm_sortDesc ws.zipIdx)).nodup_iff, List.zipIdx_map_snd]
  exact List.nodup_range' 1

theorem mem_sorted_of_lt (ws : List Int) {i : Nat} (h : i < ws.length) :
    (ws[i], i) ∈ sortDesc ws.zipIdx :=
  mem_sortDesc.2 (List.mem_zipIdx_iff_getElem?.2 (by simp [h]))

/-! ## One step -/

theorem modify_eq_set {L : List Int} {j : Nat} (h : j < L.length) (w : Int) :
    L.modify j (· + w) = L.set j (L[j] + w) := by
  apply List.ext_getElem?
  intro i
  rw [List.getElem?_modify, List.getElem?_set]
  split
  next hij =>
    subst hij
    simp only [List.getElem?_eq_getElem h, Option.map_eq_map, Option.map_some]
  next hij =>
    cases L[i]? <;> rfl

theorem step_fst (st : State) (e : WI) : (step st e).1 = st.1.set e.2 (argMinLast st.2) := rfl

theorem step_snd (st : State) (e : WI) :
    (step st e).2 = st.2.modify (argMinLast st.2) (· + e.1) := rfl

theorem step_len1 (st : State) (e : WI) : (step st e).1.length = st.1.length := by
  rw [step_fst, List.length_set]

theorem step_len2 (st : State) (e : WI) : (step st e).2.length = st.2.length := by
  rw [step_snd, List.length_modify]

theorem step_lptStep (st : State) (e : WI) (h : st.2 ≠ []) : LptStep e.1 st.2 (step st e).2 :=
  ⟨argMinLast st.2, argMinLast_lt h, argMinLast_min h, by
    rw [step_snd, modify_eq_set (argMinLast_lt h)]⟩

theorem ne_nil_of_length_pos {α : Type} {L : List α} (h : 0 < L.length) : L ≠ [] := by
  intro hn; rw [hn] at h; exact Nat.lt_irrefl 0 h

/-! ## The fold -/

theorem fold_lengths (es : List WI) (st : State) :
    (es.foldl step st).1.length = st.1.length ∧ (es.foldl step st).2.length = st.2.length := by
  induction es generalizing st with
  | nil => exact ⟨rfl, rfl⟩
  | cons e es ih =>
    rw [List.foldl_cons]
    have := ih (step st e)
    rw [step_len1, step_len2] at this
    exact this

/-- the part-weight vector keeps its length k; the id array keeps its length -/
theorem loop_lengths (p : List Nat) (ws : List Int) (k : Nat) :
    (loop p ws k).1.length = p.length ∧ (loop p ws k).2.length = k := by
  have := fold_lengths (sortDesc ws.zipIdx) (p, List.replicate k 0)
  simpa only [loop, List.length_replicate] using this

theorem fold_lptRun (es : List WI) (st : State) (h : st.2 ≠ []) :
    LptRun (es.map (·.1)) st.2 (es.foldl step st).2 := by
  induction es generalizing st with
  | nil => exact LptRun.nil _
  | cons e es ih =>
    rw [List.foldl_cons, List.map_cons]
    refine LptRun.cons (step_lptStep st e h) (ih (step st e) ?_)
    apply ne_nil_of_length_pos
    rw [step_len2]
    exact List.length_pos_iff.2 h

theorem loop_isLpt (p : List Nat) (ws : List Int) (k : Nat) (hk : 0 < k) :
    IsLpt ws k (loop p ws k).2 := by
  refine ⟨(sortDesc ws.zipIdx).map (·.1), ?_, ?_, ?_⟩
  · have := List.Perm.map (·.1) (perm_sortDesc ws.zipIdx)
    rwa [List.zipIdx_map_fst] at this
  · rw [List.pairwise_map]
    exact sorted_sortDesc _
  · apply fold_lptRun _ (p, List.replicate k 0)
    apply ne_nil_of_length_pos
    simpa only [List.length_replicate] using hk

/-! ## ids written by the fold -/

theorem fold_ids_lt (k : Nat) (hk : 0 < k) (es : List WI) :
    ∀ (st : State), st.2.length = k → ∀ i : Nat,
      (i ∈ es.map (·.2) ∨ ∀ v, st.1[i]? = some v → v < k) →
      ∀ v, (es.foldl step st).1[i]? = some v → v < k := by
  induction es with
  | nil =>
    intro st _ i h v hv
    rcases h with h | h
    · simp at h
    · exact h v hv
  | cons e es ih =>
    intro st hst i h v hv
    rw [List.foldl_cons] at hv
    refine ih (step st e) (by rw [step_len2, hst]) i ?_ v hv
    have ha : argMinLast st.2 < k := by
      rw [← hst]; exact argMinLast_lt (ne_nil_of_length_pos (by omega))
    by_cases hie : e.2 = i
    · right
      intro u hu
      rw [step_fst, List.getElem?_set, if_pos hie] at hu
      split at hu
      · cases hu; exact ha
      · cases hu
    · rcases h with h | h
      · left
        simp only [List.map_cons, List.mem_cons] at h
        rcases h with h | h
        · exact absurd h.symm hie
        · exact h
      · right
        intro u hu
        rw [step_fst, List.getElem?_set, if_neg hie] at hu
        exact h u hu

/-- every id written is < k (k ≥ 1), and every cell is written when lengths match -/
theorem loop_ids_lt (p : List Nat) (ws : List Int) (k : Nat) (hk : 0 < k)
    (hlen : ws.length = p.length) : ∀ i ∈ (loop p ws k).1, i < k := by
  intro i hi
  obtain ⟨n, hn⟩ := List.mem_iff_getElem?.1 hi
  have hnlt : n < (loop p ws k).1.length := (List.getElem?_eq_some_iff.1 hn).1
  rw [(loop_lengths p ws k).1, ← hlen] at hnlt
  refine fold_ids_lt k hk (sortDesc ws.zipIdx) (p, List.replicate k 0) List.length_replicate n
    (Or.inl ?_) i hn
  exact List.mem_map.2 ⟨(ws[n], n), mem_sorted_of_lt ws hnlt, rfl⟩

/-! ## loads -/

/-- Sum of the weights of the pairs whose index is labelled `j` by `f`. -/
def pl (f : Nat → Option Nat) (j : Nat) : List WI → Int
  | [] => 0
  | e :: es => (if f e.2 = some j then e.1 else 0) + pl f j es

theorem pl_perm {f : Nat → Option Nat} {j : Nat} {l₁ l₂ : List WI} (h : l₁.Perm l₂) :
    pl f j l₁ = pl f j l₂ := by
  induction h with
  | nil => rfl
  | cons x _ ih => simp only [pl, ih]
  | swap x y l => simp only [pl]; omega
  | trans _ _ ih₁ ih₂ => exact ih₁.trans ih₂

theorem fold_untouched (es : List WI) (st : State) (i : Nat) (h : i ∉ es.map (·.2)) :
    (es.foldl step st).1[i]? = st.1[i]? := by
  induction es generalizing st with
  | nil => rfl
  | cons e es ih =>
    simp only [List.map_cons, List.mem_cons, not_or] at h
    rw [List.foldl_cons, ih (step st e) h.2, step_fst, List.getElem?_set,
      if_neg (fun h' => h.1 h'.symm)]

theorem getD_modify (L : List Int) (a j : Nat) (w : Int) (ha : a < L.length) :
    (L.modify a (· + w))[j]?.getD 0 = L[j]?.getD 0 + (if a = j then w else 0) := by
  rw [List.getElem?_modify]
  by_cases h : a = j
  · subst h
    simp [ha]
  · simp only [if_neg h]
    cases L[j]? <;> simp

theorem fold_loads (es : List WI) :
    ∀ (st : State), st.2 ≠ [] → (es.map (·.2)).Nodup → (∀ e ∈ es, e.2 < st.1.length) →
      ∀ j, (es.foldl step st).2[j]?.getD 0
        = st.2[j]?.getD 0 + pl (fun i => (es.foldl step st).1[i]?) j es := by
  induction es with
  | nil => intro st _ _ _ j; simp [pl]
  | cons e es ih =>
    intro st hne hnd hlt j
    simp only [List.map_cons, List.nodup_cons] at hnd
    have hne1 : (step st e).2 ≠ [] := by
      apply ne_nil_of_length_pos
      rw [step_len2]
      exact List.length_pos_iff.2 hne
    have hih := ih (step st e) hne1 hnd.2
      (fun x hx => by rw [step_len1]; exact hlt x (List.mem_cons_of_mem _ hx)) j
    have he : e.2 < st.1.length := hlt e (List.mem_cons_self ..)
    have hF : (es.foldl step (step st e)).1[e.2]? = some (argMinLast st.2) := by
      rw [fold_untouched es (step st e) e.2 hnd.1, step_fst, List.getElem?_set]
      simp only [he, if_true]
    rw [List.foldl_cons, hih, step_snd, getD_modify _ _ _ _ (argMinLast_lt hne)]
    simp only [pl, hF, Option.some.injEq]
    omega

theorem load_nil (ids : List Nat) (j : Nat) : load [] ids j = 0 := by
  simp [load]

theorem load_cons (w : Int) (ws : List Int) (i : Nat) (ids : List Nat) (k : Nat) :
    load (w :: ws) (i :: ids) k = (if i = k then w else 0) + load ws ids k := by
  unfold load
  simp only [List.zip_cons_cons, List.filter_cons]
  split <;> simp_all

theorem pl_zipIdx (ws : List Int) (ids : List Nat) (n j : Nat) (f : Nat → Option Nat)
    (hlen : ids.length = ws.length)
    (hf : ∀ i (h : i < ids.length), f (n + i) = some ids[i]) :
    pl f j (ws.zipIdx n) = load ws ids j := by
  induction ws generalizing ids n with
  | nil => simp [pl, load_nil]
  | cons w ws ih =>
    match ids with
    | [] => simp at hlen
    | i :: ids =>
      have h0 := hf 0 (by simp)
      simp only [Nat.add_zero, List.getElem_cons_zero] at h0
      rw [List.zipIdx_cons, pl, load_cons, h0,
        ih ids (n + 1) (by simpa using hlen)
          (fun m hm => by
            have := hf (m + 1) (by simpa using hm)
            simpa [Nat.add_assoc, Nat.add_comm 1 m] using this)]
      simp only [Option.some.injEq]

/-- THE MAIN LEMMA: the final part_weights are the loads of the final id array -/
theorem loop_loads (p : List Nat) (ws : List Int) (k : Nat) (hk : 0 < k)
    (hlen : ws.length = p.length) :
    Coupe.loads ws (loop p ws k).1 k = (loop p ws k).2 := by
  obtain ⟨hl1, hl2⟩ := loop_lengths p ws k
  apply List.ext_getElem
  · simp only [loads, List.length_map, List.length_range, hl2]
  · intro j h1 h2
    have hj : j < k := by rw [← hl2]; exact h2
    simp only [loads, List.getElem_map, List.getElem_range]
    have key : (loop p ws k).2[j]?.getD 0 = (List.replicate k (0 : Int))[j]?.getD 0
        + pl (fun i => (loop p ws k).1[i]?) j (sortDesc ws.zipIdx) :=
      fold_loads (sortDesc ws.zipIdx) (p, List.replicate k 0)
        (ne_nil_of_length_pos (by simpa only [List.length_replicate] using hk))
        (sorted_nodup ws)
        (fun e he => by have := sorted_ids_lt ws e he; simp only; omega) j
    rw [pl_perm (perm_sortDesc _),
      pl_zipIdx ws (loop p ws k).1 0 j _ (by rw [hl1, hlen])
        (fun i hi => by rw [Nat.zero_add, List.getElem?_eq_getElem hi]),
      List.getElem?_eq_getElem h2, List.getElem?_replicate, if_pos hj] at key
    simp only [Option.getD_some, Int.zero_add] at key
    exact key.symm

/-! ## Uniqueness of the LPT load multiset -/

theorem sorted_perm_eq {l₁ l₂ : List Int} (h : l₁.Perm l₂)
    (h₁ : l₁.Pairwise (fun a b => b ≤ a)) (h₂ : l₂.Pairwise (fun a b => b ≤ a)) : l₁ = l₂ := by
  induction l₁ generalizing l₂ with
  | nil => exact (List.Perm.nil_eq h)
  | cons a t₁ ih =>
    match l₂, h, h₂ with
    | [], h, _ => exact absurd h.symm.nil_eq (by simp)
    | b :: t₂, h, h₂ =>
      rw [List.pairwise_cons] at h₁ h₂
      have hab : a = b := by
        have h1 : a ∈ b :: t₂ := h.subset (List.mem_cons_self ..)
        have h2 : b ∈ a :: t₁ := h.symm.subset (List.mem_cons_self ..)
        rcases List.mem_cons.1 h1 with h1 | h1
        · exact h1
        · rcases List.mem_cons.1 h2 with h2 | h2
          · exact h2.symm
          · have := h₁.1 b h2
            have := h₂.1 a h1
            omega
      subst hab
      rw [ih h.cons_inv h₁.2 h₂.2]

theorem set_perm (L : List Int) (j : Nat) (h : j < L.length) (v : Int) :
    (L.set j v).Perm (v :: L.erase L[j]) := by
  induction L generalizing j with
  | nil => simp at h
  | cons x xs ih =>
    cases j with
    | zero =>
      simp only [List.set_cons_zero, List.getElem_cons_zero, List.erase_cons_head]
      exact List.Perm.refl _
    | succ j =>
      have hj : j < xs.length := by simpa using h
      simp only [List.set_cons_succ, List.getElem_cons_succ]
      by_cases hx : x = xs[j]
      · have h1 := ih j hj
        rw [← hx] at h1 ⊢
        rw [List.erase_cons_head]
        have hmem : x ∈ xs := hx ▸ List.getElem_mem hj
        exact ((List.Perm.cons x h1).trans (List.Perm.swap v x _)).trans
          (List.Perm.cons v (List.perm_cons_erase hmem).symm)
      · rw [List.erase_cons_tail (by simpa using hx)]
        exact (List.Perm.cons x (ih j hj)).trans (List.Perm.swap v x _)

theorem lptStep_perm {w : Int} {L₁ L₂ L₁' L₂' : List Int} (h : L₁.Perm L₂)
    (s₁ : LptStep w L₁ L₁') (s₂ : LptStep w L₂ L₂') : L₁'.Perm L₂' := by
  obtain ⟨j₁, hj₁, m₁, rfl⟩ := s₁
  obtain ⟨j₂, hj₂, m₂, rfl⟩ := s₂
  have e : L₁[j₁] = L₂[j₂] := by
    have a := m₁ L₂[j₂] (h.symm.subset (List.getElem_mem hj₂))
    have b := m₂ L₁[j₁] (h.subset (List.getElem_mem hj₁))
    omega
  refine (set_perm L₁ j₁ hj₁ _).trans (List.Perm.trans ?_ (set_perm L₂ j₂ hj₂ _).symm)
  rw [e]
  exact List.Perm.cons _ (h.erase _)

theorem lptRun_perm {ord L₁ L₁' : List Int} (r₁ : LptRun ord L₁ L₁') :
    ∀ {L₂ L₂' : List Int}, LptRun ord L₂ L₂' → L₁.Perm L₂ → L₁'.Perm L₂' := by
  induction r₁ with
  | nil L =>
    intro L₂ L₂' r₂ h
    cases r₂
    exact h
  | cons s _ ih =>
    intro L₂ L₂' r₂ h
    cases r₂ with
    | cons s₂ r₂ => exact ih r₂ (lptStep_perm h s s₂)

/-- uniqueness of the LPT load multiset: whatever the tie-breaking of the order among equal
weights and of the choice among equally light parts -/
theorem isLpt_unique {ws : List Int} {k : Nat} {L₁ L₂ : List Int}
    (h₁ : IsLpt ws k L₁) (h₂ : IsLpt ws k L₂) : L₁.Perm L₂ := by
  obtain ⟨o₁, p₁, s₁, r₁⟩ := h₁
  obtain ⟨o₂, p₂, s₂, r₂⟩ := h₂
  have : o₁ = o₂ := sorted_perm_eq (p₁.trans p₂.symm) s₁ s₂
  subst this
  exact lptRun_perm r₁ r₂ (List.Perm.refl _)

end Coupe.Greedy
