import CoupeModel.Model.Hilbert
import Mathlib.Tactic.Ring

/-!
# Lemmas for C08 (Hilbert index)

Part 1: generic theory of a table machine `m : Mach` satisfying the decidable
table facts `Valid m` (bijection with explicit inverse, prefix/parent property,
continuity by induction on the order).
-/

namespace Coupe.Hilbert

/-! ## Table facts -/

/-- Decidable adjacency test: sub-cube `q` (curve leaves it at the corner with the
bits of `xq`) and sub-cube `q'` (curve enters it at the corner with the bits of `eq'`)
touch along exactly one axis, and the two corners face each other. -/
def adjB (m : Mach) (q xq q' eq' : Nat) : Bool :=
  let s (f : Nat → Nat) : Bool := f q == f q' && f xq == f eq'
  let t (f : Nat → Nat) : Bool :=
    (f q' == f q + 1 && f xq == 1 && f eq' == 0) || (f q == f q' + 1 && f xq == 0 && f eq' == 1)
  (t m.b0 && s m.b1 && s m.b2) || (s m.b0 && t m.b1 && s m.b2) || (s m.b0 && s m.b1 && t m.b2)

/-- The facts about the tables the theory needs; all of them are bounded
quantifications over states and digits, decided by the kernel on the extracted
tables (`m2_valid`, `m3_valid`). -/
structure Valid (m : Mach) : Prop where
  R_pos : 0 < m.R
  conf_lt : ∀ c, c < m.S → ∀ q, q < m.R → m.conf c q < m.S
  base_lt : ∀ c, c < m.S → ∀ q, q < m.R → m.base c q < m.R
  inv_lt : ∀ c, c < m.S → ∀ r, r < m.R → inv m c r < m.R
  inv_base : ∀ c, c < m.S → ∀ q, q < m.R → inv m c (m.base c q) = q
  base_inv : ∀ c, c < m.S → ∀ r, r < m.R → m.base c (inv m c r) = r
  bit_le : ∀ q, q < m.R → m.b0 q ≤ 1 ∧ m.b1 q ≤ 1 ∧ m.b2 q ≤ 1
  /-- entry corner: the first sub-cube's own entry corner is the same corner -/
  ent_fix : ∀ c, c < m.S → inv m (m.conf c (inv m c 0)) 0 = inv m c 0
  /-- exit corner -/
  ext_fix : ∀ c, c < m.S →
    inv m (m.conf c (inv m c (m.R - 1))) (m.R - 1) = inv m c (m.R - 1)
  /-- consecutive sub-cubes are glued exit corner to entry corner across one face -/
  adj : ∀ c, c < m.S → ∀ r, r < m.R - 1 →
    adjB m (inv m c r) (inv m (m.conf c (inv m c r)) (m.R - 1))
      (inv m c (r + 1)) (inv m (m.conf c (inv m c (r + 1))) 0) = true

/-! ## The machine on digit lists -/

theorem run_length (m : Mach) : ∀ ds c, (run m c ds).1.length = ds.length
  | [], _ => rfl
  | q :: qs, c => by simp [run, run_length m qs]

theorem unrun_length (m : Mach) : ∀ rs c, (unrun m c rs).1.length = rs.length
  | [], _ => rfl
  | r :: rs, c => by simp [unrun, unrun_length m rs]

theorem run_spec {m : Mach} (hv : Valid m) : ∀ ds c, c < m.S → (∀ d ∈ ds, d < m.R) →
    (∀ r ∈ (run m c ds).1, r < m.R) ∧ (run m c ds).2 < m.S ∧
      unrun m c (run m c ds).1 = (ds, (run m c ds).2)
  | [], c, hc, _ => by simp [run, unrun, hc]
  | q :: qs, c, hc, hd => by
    have hq : q < m.R := hd q (by simp)
    have ih := run_spec hv qs (m.conf c q) (hv.conf_lt c hc q hq) (fun d h => hd d (by simp [h]))
    refine ⟨?_, ?_, ?_⟩
    · intro r hr
      simp only [run, List.mem_cons] at hr
      rcases hr with rfl | hr
      · exact hv.base_lt c hc q hq
      · exact ih.1 r hr
    · simpa [run] using ih.2.1
    · simp only [run, unrun, hv.inv_base c hc q hq, ih.2.2]

theorem unrun_spec {m : Mach} (hv : Valid m) : ∀ rs c, c < m.S → (∀ r ∈ rs, r < m.R) →
    (∀ q ∈ (unrun m c rs).1, q < m.R) ∧ (unrun m c rs).2 < m.S ∧
      run m c (unrun m c rs).1 = (rs, (unrun m c rs).2)
  | [], c, hc, _ => by simp [run, unrun, hc]
  | r :: rs, c, hc, hd => by
    have hr : r < m.R := hd r (by simp)
    have hq := hv.inv_lt c hc r hr
    have ih := unrun_spec hv rs (m.conf c (inv m c r)) (hv.conf_lt c hc _ hq)
      (fun d h => hd d (by simp [h]))
    refine ⟨?_, ?_, ?_⟩
    · intro q hq'
      simp only [unrun, List.mem_cons] at hq'
      rcases hq' with rfl | hq'
      · exact hq
      · exact ih.1 q hq'
    · simpa [unrun] using ih.2.1
    · simp only [run, unrun, hv.base_inv c hc r hr, ih.2.2]

/-- Prefix property of the machine. -/
theorem run_append (m : Mach) : ∀ a b c,
    run m c (a ++ b) = ((run m c a).1 ++ (run m (run m c a).2 b).1, (run m (run m c a).2 b).2)
  | [], b, c => by simp [run]
  | q :: qs, b, c => by simp [run, run_append m qs b]

/-! ## Digits -/

theorem digits_length (R : Nat) : ∀ k n, (digits R k n).length = k
  | 0, _ => rfl
  | k + 1, n => by simp [digits, digits_length R k]

theorem digits_lt {R : Nat} (hR : 0 < R) : ∀ k n, ∀ d ∈ digits R k n, d < R
  | 0, _ => by simp [digits]
  | k + 1, n => by
    intro d hd
    simp only [digits, List.mem_cons] at hd
    rcases hd with rfl | hd
    · exact Nat.mod_lt _ hR
    · exact digits_lt hR k n d hd

theorem ofDigits_digits (R : Nat) : ∀ k n, ofDigits R (digits R k n) = n % R ^ k
  | 0, n => by simp [digits, ofDigits, Nat.mod_one]
  | k + 1, n => by
    simp only [digits, ofDigits, digits_length, ofDigits_digits R k n]
    rw [Nat.mod_pow_succ, Nat.mul_comm, Nat.add_comm]

theorem ofDigits_lt {R : Nat} : ∀ ds : List Nat, (∀ d ∈ ds, d < R) → ofDigits R ds < R ^ ds.length
  | [], _ => by simp [ofDigits]
  | d :: ds, h => by
    have hd : d < R := h d (by simp)
    have ih := ofDigits_lt ds (fun x hx => h x (by simp [hx]))
    simp only [ofDigits, List.length_cons, Nat.pow_succ]
    calc d * R ^ ds.length + ofDigits R ds < d * R ^ ds.length + R ^ ds.length := by omega
      _ = (d + 1) * R ^ ds.length := by ring
      _ ≤ R * R ^ ds.length := Nat.mul_le_mul_right _ hd
      _ = R ^ ds.length * R := Nat.mul_comm _ _

theorem ofDigits_append (R : Nat) : ∀ a b : List Nat,
    ofDigits R (a ++ b) = ofDigits R a * R ^ b.length + ofDigits R b
  | [], b => by simp [ofDigits]
  | d :: a, b => by
    simp only [List.cons_append, ofDigits, ofDigits_append R a b, List.length_append, Nat.pow_add]
    ring

/-- Digit `k` and below do not see multiples of `R^j`, `j ≥ k`. -/
theorem digits_mod {R : Nat} : ∀ k j n, k ≤ j → digits R k (n % R ^ j) = digits R k n
  | 0, _, _, _ => rfl
  | k + 1, j, n, h => by
    simp only [digits, digits_mod k j n (by omega)]
    congr 1
    obtain ⟨e, rfl⟩ : ∃ e, j = k + (e + 1) := ⟨j - k - 1, by omega⟩
    rw [Nat.pow_add, Nat.mod_mul_right_div_self, Nat.pow_succ]
    exact Nat.mod_mod_of_dvd _ (Nat.dvd_mul_left _ _)

theorem digits_ofDigits {R : Nat} : ∀ ds : List Nat, (∀ d ∈ ds, d < R) →
    digits R ds.length (ofDigits R ds) = ds
  | [], _ => rfl
  | d :: ds, h => by
    have hd : d < R := h d (by simp)
    have hlt := ofDigits_lt ds (fun x hx => h x (by simp [hx]))
    have ih := digits_ofDigits ds (fun x hx => h x (by simp [hx]))
    have hpos : 0 < R ^ ds.length := Nat.pos_of_ne_zero (by intro h0; omega)
    simp only [List.length_cons, digits, ofDigits]
    congr 1
    · rw [Nat.add_comm, Nat.add_mul_div_right _ _ hpos, Nat.div_eq_of_lt hlt, Nat.zero_add,
        Nat.mod_eq_of_lt hd]
    · rw [← digits_mod ds.length ds.length _ (Nat.le_refl _), Nat.add_comm, Nat.add_mul_mod_self_right,
        Nat.mod_eq_of_lt hlt, ih]

end Coupe.Hilbert
