import CoupeModel.Model.Hilbert
import Mathlib.Tactic.Ring

/-!
# Lemmas for C08 (Hilbert index)

Part 1: generic theory of a table machine `m : Mach` satisfying the decidable
table facts `Valid m` (bijection with explicit inverse, prefix/parent property,
continuity by induction on the order).
-/

namespace Coupe.Hilbert

/-! ## Table facts -/

/-- Along one axis: same sub-cube bit and same corner bit (no movement). -/
def sameB (qa xa qb eb : Nat) : Bool := qa == qb && xa == eb

/-- Along one axis: neighbouring sub-cubes and the corners face each other (unit step). -/
def stepB (qa xa qb eb : Nat) : Bool :=
  (qb == qa + 1 && xa == 1 && eb == 0) || (qa == qb + 1 && xa == 0 && eb == 1)

/-- Decidable adjacency test: sub-cube `q` (the curve leaves it at the corner with the
bits of `xq`) and sub-cube `q'` (the curve enters it at the corner with the bits of
`eq'`) touch along exactly one axis, and the two corners face each other. -/
def adjB (m : Mach) (q xq q' eq' : Nat) : Bool :=
  (stepB (m.b0 q) (m.b0 xq) (m.b0 q') (m.b0 eq') && sameB (m.b1 q) (m.b1 xq) (m.b1 q') (m.b1 eq')
      && sameB (m.b2 q) (m.b2 xq) (m.b2 q') (m.b2 eq')) ||
  (sameB (m.b0 q) (m.b0 xq) (m.b0 q') (m.b0 eq') && stepB (m.b1 q) (m.b1 xq) (m.b1 q') (m.b1 eq')
      && sameB (m.b2 q) (m.b2 xq) (m.b2 q') (m.b2 eq')) ||
  (sameB (m.b0 q) (m.b0 xq) (m.b0 q') (m.b0 eq') && sameB (m.b1 q) (m.b1 xq) (m.b1 q') (m.b1 eq')
      && stepB (m.b2 q) (m.b2 xq) (m.b2 q') (m.b2 eq'))

/-- The facts about the tables the theory needs; all of them are bounded
quantifications over states and digits, decided by the kernel on the extracted
tables (`m2_valid`, `m3_valid`). -/
structure Valid (m : Mach) : Prop where
  R_pos : 0 < m.R
  conf_lt : ∀ c, c < m.S → ∀ q, q < m.R → m.conf c q < m.S
  base_lt : ∀ c, c < m.S → ∀ q, q < m.R → m.base c q < m.R
  inv_lt : ∀ c, c < m.S → ∀ r, r < m.R → inv m c r < m.R
  inv_base : ∀ c, c < m.S → ∀ q, q < m.R → inv m c (m.base c q) = q
  base_inv : ∀ c, c < m.S → ∀ r, r < m.R → m.base c (inv m c r) = r
  bit_le : ∀ q, q < m.R → m.b0 q ≤ 1 ∧ m.b1 q ≤ 1 ∧ m.b2 q ≤ 1
  /-- entry corner: the first sub-cube's own entry corner is the same corner -/
  ent_fix : ∀ c, c < m.S → inv m (m.conf c (inv m c 0)) 0 = inv m c 0
  /-- exit corner -/
  ext_fix : ∀ c, c < m.S →
    inv m (m.conf c (inv m c (m.R - 1))) (m.R - 1) = inv m c (m.R - 1)
  /-- consecutive sub-cubes are glued exit corner to entry corner across one face -/
  adj : ∀ c, c < m.S → ∀ r, r < m.R - 1 →
    adjB m (inv m c r) (inv m (m.conf c (inv m c r)) (m.R - 1))
      (inv m c (r + 1)) (inv m (m.conf c (inv m c (r + 1))) 0) = true

/-! ## The machine on digit lists -/

theorem run_length (m : Mach) : ∀ ds c, (run m c ds).1.length = ds.length
  | [], _ => rfl
  | q :: qs, c => by simp [run, run_length m qs]

theorem unrun_length (m : Mach) : ∀ rs c, (unrun m c rs).1.length = rs.length
  | [], _ => rfl
  | r :: rs, c => by simp [unrun, unrun_length m rs]

theorem run_spec {m : Mach} (hv : Valid m) : ∀ ds c, c < m.S → (∀ d ∈ ds, d < m.R) →
    (∀ r ∈ (run m c ds).1, r < m.R) ∧ (run m c ds).2 < m.S ∧
      unrun m c (run m c ds).1 = (ds, (run m c ds).2)
  | [], c, hc, _ => by simp [run, unrun, hc]
  | q :: qs, c, hc, hd => by
    have hq : q < m.R := hd q (by simp)
    have ih := run_spec hv qs (m.conf c q) (hv.conf_lt c hc q hq) (fun d h => hd d (by simp [h]))
    refine ⟨?_, ?_, ?_⟩
    · intro r hr
      simp only [run, List.mem_cons] at hr
      rcases hr with rfl | hr
      · exact hv.base_lt c hc q hq
      · exact ih.1 r hr
    · simpa [run] using ih.2.1
    · simp only [run, unrun, hv.inv_base c hc q hq, ih.2.2]

theorem unrun_spec {m : Mach} (hv : Valid m) : ∀ rs c, c < m.S → (∀ r ∈ rs, r < m.R) →
    (∀ q ∈ (unrun m c rs).1, q < m.R) ∧ (unrun m c rs).2 < m.S ∧
      run m c (unrun m c rs).1 = (rs, (unrun m c rs).2)
  | [], c, hc, _ => by simp [run, unrun, hc]
  | r :: rs, c, hc, hd => by
    have hr : r < m.R := hd r (by simp)
    have hq := hv.inv_lt c hc r hr
    have ih := unrun_spec hv rs (m.conf c (inv m c r)) (hv.conf_lt c hc _ hq)
      (fun d h => hd d (by simp [h]))
    refine ⟨?_, ?_, ?_⟩
    · intro q hq'
      simp only [unrun, List.mem_cons] at hq'
      rcases hq' with rfl | hq'
      · exact hq
      · exact ih.1 q hq'
    · simpa [unrun] using ih.2.1
    · simp only [run, unrun, hv.base_inv c hc r hr, ih.2.2]

/-- Prefix property of the machine. -/
theorem run_append (m : Mach) : ∀ a b c,
    run m c (a ++ b) = ((run m c a).1 ++ (run m (run m c a).2 b).1, (run m (run m c a).2 b).2)
  | [], b, c => by simp [run]
  | q :: qs, b, c => by simp [run, run_append m qs b]

/-! ## Digits -/

theorem digits_length (R : Nat) : ∀ k n, (digits R k n).length = k
  | 0, _ => rfl
  | k + 1, n => by simp [digits, digits_length R k]

theorem digits_lt {R : Nat} (hR : 0 < R) : ∀ k n, ∀ d ∈ digits R k n, d < R
  | 0, _ => by simp [digits]
  | k + 1, n => by
    intro d hd
    simp only [digits, List.mem_cons] at hd
    rcases hd with rfl | hd
    · exact Nat.mod_lt _ hR
    · exact digits_lt hR k n d hd

theorem ofDigits_digits (R : Nat) : ∀ k n, ofDigits R (digits R k n) = n % R ^ k
  | 0, n => by simp [digits, ofDigits, Nat.mod_one]
  | k + 1, n => by
    simp only [digits, ofDigits, digits_length, ofDigits_digits R k n]
    rw [Nat.mod_pow_succ, Nat.mul_comm, Nat.add_comm]

theorem ofDigits_lt {R : Nat} : ∀ ds : List Nat, (∀ d ∈ ds, d < R) → ofDigits R ds < R ^ ds.length
  | [], _ => by simp [ofDigits]
  | d :: ds, h => by
    have hd : d < R := h d (by simp)
    have ih := ofDigits_lt ds (fun x hx => h x (by simp [hx]))
    simp only [ofDigits, List.length_cons, Nat.pow_succ]
    calc d * R ^ ds.length + ofDigits R ds < d * R ^ ds.length + R ^ ds.length := by omega
      _ = (d + 1) * R ^ ds.length := by ring
      _ ≤ R * R ^ ds.length := Nat.mul_le_mul_right _ hd
      _ = R ^ ds.length * R := Nat.mul_comm _ _

theorem ofDigits_append (R : Nat) : ∀ a b : List Nat,
    ofDigits R (a ++ b) = ofDigits R a * R ^ b.length + ofDigits R b
  | [], b => by simp [ofDigits]
  | d :: a, b => by
    simp only [List.cons_append, ofDigits, ofDigits_append R a b, List.length_append, Nat.pow_add]
    ring

/-- Digit `k` and below do not see multiples of `R^j`, `j ≥ k`. -/
theorem digits_mod {R : Nat} : ∀ k j n, k ≤ j → digits R k (n % R ^ j) = digits R k n
  | 0, _, _, _ => rfl
  | k + 1, j, n, h => by
    simp only [digits, digits_mod k j n (by omega)]
    congr 1
    obtain ⟨e, rfl⟩ : ∃ e, j = k + (e + 1) := ⟨j - k - 1, by omega⟩
    rw [Nat.pow_add, Nat.mod_mul_right_div_self, Nat.pow_succ]
    exact Nat.mod_mod_of_dvd _ (Nat.dvd_mul_left _ _)

theorem digits_ofDigits {R : Nat} : ∀ ds : List Nat, (∀ d ∈ ds, d < R) →
    digits R ds.length (ofDigits R ds) = ds
  | [], _ => rfl
  | d :: ds, h => by
    have hd : d < R := h d (by simp)
    have hlt := ofDigits_lt ds (fun x hx => h x (by simp [hx]))
    have ih := digits_ofDigits ds (fun x hx => h x (by simp [hx]))
    have hpos : 0 < R ^ ds.length := Nat.pos_of_ne_zero (by intro h0; omega)
    simp only [List.length_cons, digits, ofDigits]
    congr 1
    · rw [Nat.add_comm, Nat.add_mul_div_right _ _ hpos, Nat.div_eq_of_lt hlt, Nat.zero_add,
        Nat.mod_eq_of_lt hd]
    · rw [← digits_mod ds.length ds.length _ (Nat.le_refl _), Nat.add_comm, Nat.add_mul_mod_self_right,
        Nat.mod_eq_of_lt hlt, ih]

/-! ## Cells, decoder, continuity -/

theorem cellOf_lt {m : Mach} (hv : Valid m) : ∀ ds : List Nat, (∀ d ∈ ds, d < m.R) →
    (cellOf m ds).1 < 2 ^ ds.length ∧ (cellOf m ds).2.1 < 2 ^ ds.length ∧
      (cellOf m ds).2.2 < 2 ^ ds.length
  | [], _ => by simp [cellOf]
  | q :: qs, h => by
    have hb := hv.bit_le q (h q (by simp))
    have ih := cellOf_lt hv qs (fun x hx => h x (by simp [hx]))
    have h0 := Nat.mul_le_mul_right (2 ^ qs.length) hb.1
    have h1 := Nat.mul_le_mul_right (2 ^ qs.length) hb.2.1
    have h2 := Nat.mul_le_mul_right (2 ^ qs.length) hb.2.2
    simp only [cellOf, List.length_cons, Nat.pow_succ]
    omega

theorem dec_succ (m : Mach) (c k h : Nat) :
    dec m c (k + 1) h =
      (m.b0 (inv m c (h / m.R ^ k % m.R)) * 2 ^ k + (dec m (m.conf c (inv m c (h / m.R ^ k % m.R))) k h).1,
       m.b1 (inv m c (h / m.R ^ k % m.R)) * 2 ^ k + (dec m (m.conf c (inv m c (h / m.R ^ k % m.R))) k h).2.1,
       m.b2 (inv m c (h / m.R ^ k % m.R)) * 2 ^ k + (dec m (m.conf c (inv m c (h / m.R ^ k % m.R))) k h).2.2) := by
  simp [dec, digits, unrun, cellOf, unrun_length, digits_length]

theorem dec_mod (m : Mach) (c k h : Nat) : dec m c k (h % m.R ^ k) = dec m c k h := by
  simp [dec, digits_mod k k h (Nat.le_refl _)]

/-- The corner of the `2^k` grid with the coordinate bits of digit `q` (`M = 2^k - 1`). -/
def corner (m : Mach) (q M : Nat) : Nat × Nat × Nat := (m.b0 q * M, m.b1 q * M, m.b2 q * M)

theorem bit_corner {b P : Nat} (hb : b ≤ 1) (hP : 1 ≤ P) : b * P + b * (P - 1) = b * (P * 2 - 1) := by
  have : b = 0 ∨ b = 1 := by omega
  rcases this with rfl | rfl
  · simp
  · omega

theorem div_mul_add {P a b : Nat} (hb : b < P) : (P * a + b) / P = a := by
  rw [Nat.mul_add_div (by omega), Nat.div_eq_of_lt hb, Nat.add_zero]

theorem mod_mul_add {P a b : Nat} (hb : b < P) : (P * a + b) % P = b := by
  rw [Nat.mul_add_mod, Nat.mod_eq_of_lt hb]

theorem mul_sub_one_split {P R : Nat} (hP : 0 < P) (hR : 0 < R) :
    P * R - 1 = P * (R - 1) + (P - 1) := by
  obtain ⟨r, rfl⟩ : ∃ r, R = r + 1 := ⟨R - 1, by omega⟩
  rw [Nat.mul_succ]
  simp only [Nat.add_sub_cancel]
  omega

/-- The curve of state `c` starts in the corner named by its first sub-cube. -/
theorem dec_zero {m : Mach} (hv : Valid m) : ∀ k c, c < m.S →
    dec m c k 0 = corner m (inv m c 0) (2 ^ k - 1)
  | 0, c, _ => by simp [dec, digits, unrun, cellOf, corner]
  | k + 1, c, hc => by
    have he := hv.inv_lt c hc 0 hv.R_pos
    have hb := hv.bit_le _ he
    have hP : 1 ≤ 2 ^ k := Nat.one_le_two_pow
    rw [dec_succ]
    simp only [Nat.zero_div, Nat.zero_mod]
    rw [dec_zero hv k _ (hv.conf_lt c hc _ he), hv.ent_fix c hc]
    simp only [corner, Nat.pow_succ, bit_corner hb.1 hP, bit_corner hb.2.1 hP, bit_corner hb.2.2 hP]

/-- … and ends in the corner named by its last sub-cube. -/
theorem dec_last {m : Mach} (hv : Valid m) : ∀ k c, c < m.S →
    dec m c k (m.R ^ k - 1) = corner m (inv m c (m.R - 1)) (2 ^ k - 1)
  | 0, c, _ => by simp [dec, digits, unrun, cellOf, corner]
  | k + 1, c, hc => by
    have hR := hv.R_pos
    have he := hv.inv_lt c hc (m.R - 1) (by omega)
    have hb := hv.bit_le _ he
    have hP : 1 ≤ 2 ^ k := Nat.one_le_two_pow
    have hRk : 0 < m.R ^ k := Nat.pow_pos hR
    have hsplit : m.R ^ (k + 1) - 1 = m.R ^ k * (m.R - 1) + (m.R ^ k - 1) := by
      rw [Nat.pow_succ]; exact mul_sub_one_split hRk hR
    rw [dec_succ, hsplit, div_mul_add (by omega), Nat.mod_eq_of_lt (by omega : m.R - 1 < m.R),
      ← dec_mod m _ k, mod_mul_add (by omega), dec_last hv k _ (hv.conf_lt c hc _ he), hv.ext_fix c hc]
    simp only [corner, Nat.pow_succ, bit_corner hb.1 hP, bit_corner hb.2.1 hP, bit_corner hb.2.2 hP]

theorem dist1_self (a : Nat) : dist1 a a = 0 := by simp [dist1]

theorem ax_same {qa xa qb eb : Nat} (P : Nat) (h : sameB qa xa qb eb = true) :
    dist1 (qa * P + xa * (P - 1)) (qb * P + eb * (P - 1)) = 0 := by
  simp only [sameB, Bool.and_eq_true, beq_iff_eq] at h
  rw [h.1, h.2, dist1_self]

theorem ax_step {qa xa qb eb P : Nat} (hP : 1 ≤ P) (ha : qa ≤ 1) (hb : qb ≤ 1)
    (h : stepB qa xa qb eb = true) :
    dist1 (qa * P + xa * (P - 1)) (qb * P + eb * (P - 1)) = 1 := by
  simp only [stepB, Bool.or_eq_true, Bool.and_eq_true, beq_iff_eq] at h
  rcases h with ⟨⟨h1, h2⟩, h3⟩ | ⟨⟨h1, h2⟩, h3⟩
  · have : qa = 0 := by omega
    subst this; subst h1; subst h2; subst h3
    simp [dist1]; omega
  · have : qb = 0 := by omega
    subst this; subst h1; subst h2; subst h3
    simp [dist1]; omega

/-- Exit corner of one sub-cube and entry corner of the next one are neighbouring cells. -/
theorem adj_step {m : Mach} (hv : Valid m) {q xq q' eq' P : Nat} (hP : 1 ≤ P)
    (hq : q < m.R) (hq' : q' < m.R) (h : adjB m q xq q' eq' = true) :
    l1 (m.b0 q * P + (corner m xq (P - 1)).1, m.b1 q * P + (corner m xq (P - 1)).2.1,
          m.b2 q * P + (corner m xq (P - 1)).2.2)
       (m.b0 q' * P + (corner m eq' (P - 1)).1, m.b1 q' * P + (corner m eq' (P - 1)).2.1,
          m.b2 q' * P + (corner m eq' (P - 1)).2.2) = 1 := by
  have hb := hv.bit_le q hq
  have hb' := hv.bit_le q' hq'
  simp only [adjB, Bool.or_eq_true, Bool.and_eq_true] at h
  simp only [l1, corner]
  rcases h with (⟨⟨h0, h1⟩, h2⟩ | ⟨⟨h0, h1⟩, h2⟩) | ⟨⟨h0, h1⟩, h2⟩
  · rw [ax_step hP hb.1 hb'.1 h0, ax_same P h1, ax_same P h2]
  · rw [ax_same P h0, ax_step hP hb.2.1 hb'.2.1 h1, ax_same P h2]
  · rw [ax_same P h0, ax_same P h1, ax_step hP hb.2.2 hb'.2.2 h2]

/-- Continuity of the decoder: consecutive indices are neighbouring cells (every order,
every state). -/
theorem dec_continuous {m : Mach} (hv : Valid m) : ∀ k c h, c < m.S → h + 1 < m.R ^ k →
    l1 (dec m c k h) (dec m c k (h + 1)) = 1
  | 0, _, h, _, hh => by simp at hh
  | k + 1, c, h, hc, hh => by
    have hR := hv.R_pos
    have hP : 0 < m.R ^ k := Nat.pow_pos hR
    obtain ⟨a, b, hb, rfl⟩ : ∃ a b, b < m.R ^ k ∧ h = m.R ^ k * a + b :=
      ⟨h / m.R ^ k, h % m.R ^ k, Nat.mod_lt _ hP, (Nat.div_add_mod h _).symm⟩
    rw [Nat.pow_succ] at hh
    have ha : a < m.R := by
      apply Nat.lt_of_mul_lt_mul_left (a := m.R ^ k)
      omega
    by_cases hb1 : b + 1 < m.R ^ k
    · -- same sub-cube
      have hq := hv.inv_lt c hc a ha
      have ih := dec_continuous hv k _ b (hv.conf_lt c hc _ hq) hb1
      rw [dec_succ, dec_succ, Nat.add_assoc, div_mul_add hb, div_mul_add hb1, Nat.mod_eq_of_lt ha,
        ← dec_mod m _ k (m.R ^ k * a + b), ← dec_mod m _ k (m.R ^ k * a + (b + 1)),
        mod_mul_add hb, mod_mul_add hb1]
      simp only [l1, dist1] at ih ⊢
      omega
    · -- last cell of sub-cube `a`, first cell of sub-cube `a + 1`
      have hb2 : b = m.R ^ k - 1 := by omega
      have hnext : m.R ^ k * a + b + 1 = m.R ^ k * (a + 1) + 0 := by rw [Nat.mul_succ]; omega
      have ha1 : a + 1 < m.R := by
        apply Nat.lt_of_mul_lt_mul_left (a := m.R ^ k)
        rw [Nat.mul_succ]; omega
      have hq := hv.inv_lt c hc a ha
      have hq' := hv.inv_lt c hc (a + 1) ha1
      rw [hnext, dec_succ, dec_succ, div_mul_add hb, div_mul_add hP, Nat.mod_eq_of_lt ha,
        Nat.mod_eq_of_lt ha1, ← dec_mod m _ k (m.R ^ k * a + b), ← dec_mod m _ k (m.R ^ k * (a + 1) + 0),
        mod_mul_add hb, mod_mul_add hP, hb2, dec_last hv k _ (hv.conf_lt c hc _ hq),
        dec_zero hv k _ (hv.conf_lt c hc _ hq')]
      exact adj_step hv Nat.one_le_two_pow hq hq' (hv.adj c hc a (by omega))

/-! ## The two machines of `hilbert_curve.rs` satisfy the table facts

Decided by the kernel on the tables of `Gen/HilbertTables.lean` (regenerated from the
source on every check). -/

theorem m2_valid : Valid m2 := by
  constructor <;> decide

theorem m3_valid : Valid m3 := by
  constructor <;> decide +kernel

/-! ## 2-D: cells ↔ quadrant digits -/

theorem bit_mod {R : Nat} (k e n : Nat) : n % R ^ (k + (e + 1)) / R ^ k % R = n / R ^ k % R := by
  rw [Nat.pow_add, Nat.mod_mul_right_div_self, Nat.pow_succ]
  exact Nat.mod_mod_of_dvd _ (Nat.dvd_mul_left _ _)

theorem m2_b0 (q : Nat) : m2.b0 q = q / 2 := rfl
theorem m2_b1 (q : Nat) : m2.b1 q = q % 2 := rfl
theorem m2_b2 (q : Nat) : m2.b2 q = 0 := rfl

theorem zdigits2_length : ∀ k x y, (zdigits2 k x y).length = k
  | 0, _, _ => rfl
  | k + 1, x, y => by simp [zdigits2, zdigits2_length k]

theorem zdigits2_lt : ∀ k x y, ∀ d ∈ zdigits2 k x y, d < m2.R
  | 0, _, _ => by simp [zdigits2]
  | k + 1, x, y => by
    intro d hd
    simp only [zdigits2, List.mem_cons] at hd
    rcases hd with rfl | hd
    · show _ < 4
      omega
    · exact zdigits2_lt k x y d hd

theorem zdigits2_mod : ∀ k j x y, k ≤ j → zdigits2 k (x % 2 ^ j) (y % 2 ^ j) = zdigits2 k x y
  | 0, _, _, _, _ => rfl
  | k + 1, j, x, y, h => by
    obtain ⟨e, rfl⟩ : ∃ e, j = k + (e + 1) := ⟨j - k - 1, by omega⟩
    simp only [zdigits2, zdigits2_mod k _ x y (by omega : k ≤ k + (e + 1)), bit_mod]

theorem cellOf_zdigits2 : ∀ k x y, cellOf m2 (zdigits2 k x y) = (x % 2 ^ k, y % 2 ^ k, 0)
  | 0, x, y => by simp [zdigits2, cellOf, Nat.mod_one]
  | k + 1, x, y => by
    have hx : (2 * (x / 2 ^ k % 2) + y / 2 ^ k % 2) / 2 = x / 2 ^ k % 2 := by omega
    have hy : (2 * (x / 2 ^ k % 2) + y / 2 ^ k % 2) % 2 = y / 2 ^ k % 2 := by omega
    simp only [zdigits2, cellOf, cellOf_zdigits2 k x y, zdigits2_length, m2_b0, m2_b1, m2_b2,
      Nat.mod_pow_succ, hx, hy]
    simp [Nat.mul_comm, Nat.add_comm]

theorem zdigits2_cellOf : ∀ ds : List Nat, (∀ d ∈ ds, d < m2.R) →
    zdigits2 ds.length (cellOf m2 ds).1 (cellOf m2 ds).2.1 = ds
  | [], _ => rfl
  | q :: qs, h => by
    have hq : q < 4 := h q (by simp)
    have hlt := cellOf_lt m2_valid qs (fun x hx => h x (by simp [hx]))
    have ih := zdigits2_cellOf qs (fun x hx => h x (by simp [hx]))
    have hpos : 0 < 2 ^ qs.length := Nat.pow_pos (by decide)
    simp only [List.length_cons, zdigits2, cellOf]
    congr 1
    · show 2 * ((q / 2 * 2 ^ qs.length + _) / 2 ^ qs.length % 2) + (q % 2 * 2 ^ qs.length + _) / 2 ^ qs.length % 2 = q
      rw [Nat.add_comm (q / 2 * _), Nat.add_mul_div_right _ _ hpos, Nat.div_eq_of_lt hlt.1,
        Nat.add_comm (q % 2 * _), Nat.add_mul_div_right _ _ hpos, Nat.div_eq_of_lt hlt.2.1]
      omega
    · rw [← zdigits2_mod qs.length qs.length _ _ (Nat.le_refl _)]
      show zdigits2 _ ((q / 2 * 2 ^ qs.length + _) % 2 ^ qs.length) ((q % 2 * 2 ^ qs.length + _) % 2 ^ qs.length) = qs
      rw [Nat.add_comm (q / 2 * _), Nat.add_mul_mod_self_right, Nat.mod_eq_of_lt hlt.1,
        Nat.add_comm (q % 2 * _), Nat.add_mul_mod_self_right, Nat.mod_eq_of_lt hlt.2.1, ih]

/-- Dropping the least significant quadrant = halving the coordinates. -/
theorem zdigits2_succ : ∀ k x y,
    zdigits2 (k + 1) x y = zdigits2 k (x / 2) (y / 2) ++ [2 * (x % 2) + y % 2]
  | 0, x, y => by simp [zdigits2]
  | k + 1, x, y => by
    rw [zdigits2, zdigits2_succ k x y]
    simp only [zdigits2, List.cons_append, Nat.div_div_eq_div_mul, Nat.pow_succ, Nat.mul_comm]

/-! ## 3-D: cells ↔ octant digits -/

theorem m3_b0 (q : Nat) : m3.b0 q = q / 4 := rfl
theorem m3_b1 (q : Nat) : m3.b1 q = q / 2 % 2 := rfl
theorem m3_b2 (q : Nat) : m3.b2 q = q % 2 := rfl

theorem zdigits3_length : ∀ k x y z, (zdigits3 k x y z).length = k
  | 0, _, _, _ => rfl
  | k + 1, x, y, z => by simp [zdigits3, zdigits3_length k]

theorem zdigits3_lt : ∀ k x y z, ∀ d ∈ zdigits3 k x y z, d < m3.R
  | 0, _, _, _ => by simp [zdigits3]
  | k + 1, x, y, z => by
    intro d hd
    simp only [zdigits3, List.mem_cons] at hd
    rcases hd with rfl | hd
    · show _ < 8
      omega
    · exact zdigits3_lt k x y z d hd

theorem zdigits3_mod : ∀ k j x y z, k ≤ j →
    zdigits3 k (x % 2 ^ j) (y % 2 ^ j) (z % 2 ^ j) = zdigits3 k x y z
  | 0, _, _, _, _, _ => rfl
  | k + 1, j, x, y, z, h => by
    obtain ⟨e, rfl⟩ : ∃ e, j = k + (e + 1) := ⟨j - k - 1, by omega⟩
    simp only [zdigits3, zdigits3_mod k _ x y z (by omega : k ≤ k + (e + 1)), bit_mod]

theorem cellOf_zdigits3 : ∀ k x y z,
    cellOf m3 (zdigits3 k x y z) = (x % 2 ^ k, y % 2 ^ k, z % 2 ^ k)
  | 0, x, y, z => by simp [zdigits3, cellOf, Nat.mod_one]
  | k + 1, x, y, z => by
    have hx : (4 * (x / 2 ^ k % 2) + 2 * (y / 2 ^ k % 2) + z / 2 ^ k % 2) / 4 = x / 2 ^ k % 2 := by omega
    have hy : (4 * (x / 2 ^ k % 2) + 2 * (y / 2 ^ k % 2) + z / 2 ^ k % 2) / 2 % 2 = y / 2 ^ k % 2 := by omega
    have hz : (4 * (x / 2 ^ k % 2) + 2 * (y / 2 ^ k % 2) + z / 2 ^ k % 2) % 2 = z / 2 ^ k % 2 := by omega
    simp only [zdigits3, cellOf, cellOf_zdigits3 k x y z, zdigits3_length, m3_b0, m3_b1, m3_b2,
      Nat.mod_pow_succ, hx, hy, hz]
    simp [Nat.mul_comm, Nat.add_comm]

theorem zdigits3_cellOf : ∀ ds : List Nat, (∀ d ∈ ds, d < m3.R) →
    zdigits3 ds.length (cellOf m3 ds).1 (cellOf m3 ds).2.1 (cellOf m3 ds).2.2 = ds
  | [], _ => rfl
  | q :: qs, h => by
    have hq : q < 8 := h q (by simp)
    have hlt := cellOf_lt m3_valid qs (fun x hx => h x (by simp [hx]))
    have ih := zdigits3_cellOf qs (fun x hx => h x (by simp [hx]))
    have hpos : 0 < 2 ^ qs.length := Nat.pow_pos (by decide)
    simp only [List.length_cons, zdigits3, cellOf]
    congr 1
    · show 4 * ((q / 4 * 2 ^ qs.length + _) / 2 ^ qs.length % 2)
          + 2 * ((q / 2 % 2 * 2 ^ qs.length + _) / 2 ^ qs.length % 2)
          + (q % 2 * 2 ^ qs.length + _) / 2 ^ qs.length % 2 = q
      rw [Nat.add_comm (q / 4 * _), Nat.add_mul_div_right _ _ hpos, Nat.div_eq_of_lt hlt.1,
        Nat.add_comm (q / 2 % 2 * _), Nat.add_mul_div_right _ _ hpos, Nat.div_eq_of_lt hlt.2.1,
        Nat.add_comm (q % 2 * _), Nat.add_mul_div_right _ _ hpos, Nat.div_eq_of_lt hlt.2.2]
      omega
    · rw [← zdigits3_mod qs.length qs.length _ _ _ (Nat.le_refl _)]
      show zdigits3 _ ((q / 4 * 2 ^ qs.length + _) % 2 ^ qs.length)
        ((q / 2 % 2 * 2 ^ qs.length + _) % 2 ^ qs.length) ((q % 2 * 2 ^ qs.length + _) % 2 ^ qs.length) = qs
      rw [Nat.add_comm (q / 4 * _), Nat.add_mul_mod_self_right, Nat.mod_eq_of_lt hlt.1,
        Nat.add_comm (q / 2 % 2 * _), Nat.add_mul_mod_self_right, Nat.mod_eq_of_lt hlt.2.1,
        Nat.add_comm (q % 2 * _), Nat.add_mul_mod_self_right, Nat.mod_eq_of_lt hlt.2.2, ih]

/-- Dropping the least significant octant = halving the coordinates. -/
theorem zdigits3_succ : ∀ k x y z,
    zdigits3 (k + 1) x y z = zdigits3 k (x / 2) (y / 2) (z / 2) ++ [4 * (x % 2) + 2 * (y % 2) + z % 2]
  | 0, x, y, z => by simp [zdigits3]
  | k + 1, x, y, z => by
    rw [zdigits3, zdigits3_succ k x y z]
    simp only [zdigits3, List.cons_append, Nat.div_div_eq_div_mul, Nat.pow_succ, Nat.mul_comm]

end Coupe.Hilbert
