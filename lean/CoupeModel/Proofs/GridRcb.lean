import CoupeModel.Model.GridRcb

/-!
# Lemmas on the model of `weighted_median` (`Model/GridRcb.lean`)

The `for` loop of one round is first rewritten as a scan over the probed
positions `p, p+s, p+2s, … < mx` with values `V q = Σ v[0..q)`
(`forLoop_pairs`); two invariants of that scan give termination (`scan_shrink`,
purely positional) and the value facts (`scan_vals`).
-/

namespace Coupe.GridRcb

/-- One round's `for` loop fused with the generation of the probed positions:
probe `p`, then `p + s`, … while `< mx`. -/
def scanFrom (minPw maxPw : Int) (V : Nat → Int) (s : Nat) :
    Nat → Nat → Nat → Nat → Int → Scan
  | 0, _, mn, mx, left => .cont mn mx left
  | f + 1, p, mn, mx, left =>
    if p < mx then
      if V p < minPw then scanFrom minPw maxPw V s f (p + s) p mx (V p)
      else if maxPw < V p then .cont mn p left
      else .ret p (V p)
    else .cont mn mx left

theorem pre_zero (ws : List Int) : pre ws 0 = 0 := by simp [pre]

theorem pre_add (v : List Int) (p s : Nat) :
    pre v (p + s) = pre v p + ((v.drop p).take s).sum := by
  simp [pre, List.take_add, List.sum_append]

theorem pre_take (ws : List Int) (mx q : Nat) (h : q ≤ mx) : pre (ws.take mx) q = pre ws q := by
  simp [pre, List.take_take, Nat.min_eq_left h]

theorem pre_length (ws : List Int) : pre ws ws.length = ws.sum := by simp [pre]

/-- The pairs produced from the chunk sums are the probed positions with the
prefix sums at these positions. -/
theorem forLoop_pairs (minPw maxPw : Int) (v : List Int) (s mn0 : Nat) (left0 : Int) (hs : 1 ≤ s) :
    ∀ (f p idx : Nat) (psum : Int) (mn : Nat) (left : Int),
      p = mn0 + idx * s → left0 + psum = pre v p → v.length - p ≤ f →
      forLoop minPw maxPw (prefixPairs s mn0 left0 (chunkSums s f (v.drop p)) idx psum) mn v.length left
        = scanFrom minPw maxPw (pre v) s f p mn v.length left := by
  intro f
  induction f with
  | zero => intro p idx psum mn left _ _ _; simp [chunkSums, prefixPairs, forLoop, scanFrom]
  | succ f ih =>
    intro p idx psum mn left hp hsum hf
    by_cases hlt : p < v.length
    · have hne : (v.drop p).isEmpty = false := by
        cases h : (v.drop p).isEmpty with
        | false => rfl
        | true =>
          rw [List.isEmpty_iff, List.drop_eq_nil_iff] at h
          omega
      have hnext : left0 + (psum + ((v.drop p).take s).sum) = pre v (p + s) := by
        rw [pre_add]; omega
      have hp' : p + s = mn0 + (idx + 1) * s := by rw [Nat.add_mul]; omega
      have ih1 := ih (p + s) (idx + 1) (psum + ((v.drop p).take s).sum) p (pre v p) hp' hnext (by omega)
      simp only [chunkSums, hne, Bool.false_eq_true, if_false, prefixPairs, forLoop, scanFrom, hlt,
        if_true, List.drop_drop]
      rw [← hp, hsum]
      split
      · exact ih1
      · rfl
    · have he : (v.drop p).isEmpty = true := by
        rw [List.isEmpty_iff, List.drop_eq_nil_iff]; omega
      simp [chunkSums, he, prefixPairs, forLoop, scanFrom, hlt]

/-- Positional invariant: a round that does not return leaves `max - min ≤ s`. -/
theorem scan_shrink (minPw maxPw : Int) (V : Nat → Int) (s : Nat) (hs : 1 ≤ s) :
    ∀ (f p mn mx : Nat) (left : Int) (mn' mx' : Nat) (left' : Int),
      mn ≤ p → p ≤ mn + s → mn ≤ mx → mx - p ≤ f →
      scanFrom minPw maxPw V s f p mn mx left = .cont mn' mx' left' →
      mn ≤ mn' ∧ mn' ≤ mx' ∧ mx' ≤ mx ∧ mx' - mn' ≤ s := by
  intro f
  induction f with
  | zero =>
    intro p mn mx left mn' mx' left' h1 h2 h3 h4 h
    simp only [scanFrom, Scan.cont.injEq] at h
    omega
  | succ f ih =>
    intro p mn mx left mn' mx' left' h1 h2 h3 h4 h
    simp only [scanFrom] at h
    split at h
    · next hlt =>
      split at h
      · have := ih (p + s) p mx (V p) mn' mx' left' (by omega) (by omega) (by omega) (by omega) h
        omega
      · split at h
        · simp only [Scan.cont.injEq] at h; omega
        · cases h
    · simp only [Scan.cont.injEq] at h; omega

/-- Value invariant of one round: a `return` from inside the `for` loop. -/
theorem scan_ret (minPw maxPw : Int) (V : Nat → Int) (s : Nat) :
    ∀ (f p mn mx : Nat) (left : Int) (pos : Nat) (l : Int),
      scanFrom minPw maxPw V s f p mn mx left = .ret pos l →
      p ≤ pos ∧ pos < mx ∧ l = V pos ∧ minPw ≤ l ∧ l ≤ maxPw := by
  intro f
  induction f with
  | zero => intro p mn mx left pos l h; simp [scanFrom] at h
  | succ f ih =>
    intro p mn mx left pos l h
    simp only [scanFrom] at h
    split at h
    · next hlt =>
      split at h
      · have := ih (p + s) p mx (V p) pos l h
        omega
      · split at h
        · cases h
        · simp only [Scan.ret.injEq] at h
          obtain ⟨h1, h2⟩ := h
          subst h1 h2
          omega
    · cases h

/-- Value invariant of one round: the `for` loop is exhausted or left by `break`. -/
theorem scan_cont (minPw maxPw : Int) (V : Nat → Int) (s : Nat) (hs : 1 ≤ s) :
    ∀ (f p mn mx : Nat) (left : Int) (mn' mx' : Nat) (left' : Int),
      mn < mx → mn ≤ p → (mn < p ∨ V p < minPw) →
      scanFrom minPw maxPw V s f p mn mx left = .cont mn' mx' left' →
      mn' < mx' ∧ mx' ≤ mx ∧ mn ≤ mn' ∧
        ((mn' = mn ∧ left' = left) ∨ (left' = V mn' ∧ left' < minPw ∧ mn' < mx)) ∧
        (mx' = mx ∨ (maxPw < V mx' ∧ mx' < mx)) := by
  intro f
  induction f with
  | zero =>
    intro p mn mx left mn' mx' left' h1 h2 h3 h
    simp only [scanFrom, Scan.cont.injEq] at h
    obtain ⟨a, b, c⟩ := h
    subst a b c
    exact ⟨h1, Nat.le_refl _, Nat.le_refl _, Or.inl ⟨rfl, rfl⟩, Or.inl rfl⟩
  | succ f ih =>
    intro p mn mx left mn' mx' left' h1 h2 h3 h
    simp only [scanFrom] at h
    split at h
    · next hlt =>
      split at h
      · next hv =>
        obtain ⟨a, b, c, d, e⟩ := ih (p + s) p mx (V p) mn' mx' left' hlt (by omega) (Or.inl (by omega)) h
        refine ⟨a, b, by omega, ?_, e⟩
        rcases d with ⟨d1, d2⟩ | d
        · right; subst d1 d2; exact ⟨rfl, hv, hlt⟩
        · right; exact d
      · next hv =>
        split at h
        · next hv2 =>
          have hmp : mn < p := by
            rcases h3 with h | h
            · exact h
            · exact absurd h hv
          simp only [Scan.cont.injEq] at h
          obtain ⟨a, b, c⟩ := h
          subst a b c
          exact ⟨hmp, by omega, Nat.le_refl _, Or.inl ⟨rfl, rfl⟩, Or.inr ⟨hv2, hlt⟩⟩
        · cases h
    · simp only [Scan.cont.injEq] at h
      obtain ⟨a, b, c⟩ := h
      subst a b c
      exact ⟨h1, Nat.le_refl _, Nat.le_refl _, Or.inl ⟨rfl, rfl⟩, Or.inl rfl⟩

/-- `round` in terms of `scanFrom`. -/
theorem round_eq (cfg : Cfg) (T : Nat) (ws : List Int) (minPw maxPw : Int) (mn mx : Nat) (left : Int)
    (h1 : mn ≤ mx) (h2 : mx ≤ ws.length) (hc : max cfg.minChunks T ≠ 0) (hl : left = pre ws mn) :
    round cfg T ws minPw maxPw mn mx left =
      .ok (scanFrom minPw maxPw (pre (ws.take mx)) (max 1 ((mx - mn) / max cfg.minChunks T))
        (mx - mn) mn mn mx left) := by
  have hlen : (ws.take mx).length = mx := by simp [List.length_take]; omega
  have hslice : (ws.drop mn).take (mx - mn) = (ws.take mx).drop mn := by rw [List.drop_take]
  have hsl : ((ws.drop mn).take (mx - mn)).length = mx - mn := by
    rw [hslice, List.length_drop, hlen]
  have := forLoop_pairs minPw maxPw (ws.take mx) (max 1 ((mx - mn) / max cfg.minChunks T)) mn left
    (by omega) (mx - mn) mn 0 0 mn left (by simp) (by rw [pre_take _ _ _ h1]; omega) (by omega)
  rw [hlen] at this
  simp only [round]
  rw [if_neg (by omega), if_neg hc, hsl, hslice, this]

/-- Unconditional: `left_weight` stays the value at `min`. -/
theorem scan_left (minPw maxPw : Int) (V : Nat → Int) (s : Nat) :
    ∀ (f p mn mx : Nat) (left : Int) (mn' mx' : Nat) (left' : Int),
      scanFrom minPw maxPw V s f p mn mx left = .cont mn' mx' left' →
      (mn' = mn ∧ left' = left) ∨ (left' = V mn' ∧ mn' < mx) := by
  intro f
  induction f with
  | zero =>
    intro p mn mx left mn' mx' left' h
    simp only [scanFrom, Scan.cont.injEq] at h
    omega
  | succ f ih =>
    intro p mn mx left mn' mx' left' h
    simp only [scanFrom] at h
    split at h
    · next hlt =>
      split at h
      · rcases ih (p + s) p mx (V p) mn' mx' left' h with ⟨a, b⟩ | c
        · right; subst a b; exact ⟨rfl, hlt⟩
        · right; exact c
      · split at h
        · simp only [Scan.cont.injEq] at h; omega
        · cases h
    · simp only [Scan.cont.injEq] at h; omega

/-- Termination, absence of aborts, the prefix claim and the range of the
returned position, for every state the loop can be in: `max - min < fuel`
suffices when there are at least two chunks. -/
theorem medianLoop_ok (cfg : Cfg) (T : Nat) (ws : List Int) (minPw maxPw : Int)
    (hc : 2 ≤ max cfg.minChunks T) :
    ∀ (fuel mn mx : Nat) (left : Int),
      mn ≤ mx → mx ≤ ws.length → left = pre ws mn → mx - mn < fuel →
      ∃ pos l, medianLoop cfg T ws minPw maxPw fuel mn mx left = .ok (pos, l) ∧ l = pre ws pos ∧
        mn ≤ pos ∧ (mn < mx → pos < mx) := by
  intro fuel
  induction fuel with
  | zero => intro mn mx left _ _ _ h; omega
  | succ fuel ih =>
    intro mn mx left h1 h2 hl hf
    simp only [medianLoop]
    rw [round_eq cfg T ws minPw maxPw mn mx left h1 h2 (by omega) hl]
    generalize hs : max 1 ((mx - mn) / max cfg.minChunks T) = s
    have hs1 : 1 ≤ s := by omega
    cases hr : scanFrom minPw maxPw (pre (ws.take mx)) s (mx - mn) mn mn mx left with
    | ret pos l =>
      obtain ⟨a, b, c, _, _⟩ := scan_ret _ _ _ _ _ _ _ _ _ _ _ hr
      refine ⟨pos, l, rfl, ?_, a, fun _ => b⟩
      rw [c, pre_take _ _ _ (by omega)]
    | cont mn' mx' left' =>
      obtain ⟨a, b, c, d⟩ := scan_shrink _ _ _ _ hs1 _ _ _ _ _ _ _ _ (Nat.le_refl mn) (by omega) h1
        (Nat.le_refl _) hr
      have hl' : left' = pre ws mn' ∧ (mn < mx → mn' < mx) := by
        rcases scan_left _ _ _ _ _ _ _ _ _ _ _ _ hr with ⟨e1, e2⟩ | ⟨e1, e2⟩
        · refine ⟨?_, fun h => by omega⟩
          rw [e2, hl, e1]
        · refine ⟨?_, fun _ => e2⟩
          rw [e1, pre_take _ _ _ (by omega)]
      simp only
      split
      · exact ⟨mn', left', rfl, hl'.1, a, hl'.2⟩
      · next hlt =>
        have hdiv : (mx - mn) / max cfg.minChunks T ≤ (mx - mn) / 2 :=
          Nat.div_le_div_left hc (by omega)
        obtain ⟨pos, l, e1, e2, e3, e4⟩ := ih mn' mx' left' b (by omega) hl'.1 (by omega)
        exact ⟨pos, l, e1, e2, by omega, fun _ => by omega⟩

/-- The balance facts for every state the loop can be in.  Invariant: `min < max ≤ len`,
`left_weight = Σ ws[0..min)`, the prefix at `max` is above the bracket (or `max = len`),
and `left_weight` is below the bracket (or, in the very first round, not above it). -/
theorem medianLoop_balanced (cfg : Cfg) (T : Nat) (ws : List Int) (minPw maxPw : Int)
    (hc : max cfg.minChunks T ≠ 0) :
    ∀ (fuel mn mx : Nat) (left : Int) (pos : Nat) (l : Int),
      mn < mx → mx ≤ ws.length → left = pre ws mn →
      (mx < ws.length → maxPw < pre ws mx) → (left < minPw ∨ ¬ maxPw < left) →
      medianLoop cfg T ws minPw maxPw fuel mn mx left = .ok (pos, l) →
      pos < ws.length ∧ l = pre ws pos ∧
        ((minPw ≤ l ∧ l ≤ maxPw) ∨
         (l < minPw ∧ (pos + 1 < ws.length → maxPw < pre ws (pos + 1)))) := by
  intro fuel
  induction fuel with
  | zero => intro mn mx left pos l _ _ _ _ _ h; simp [medianLoop] at h
  | succ fuel ih =>
    intro mn mx left pos l h1 h2 hl hmx hlt h
    simp only [medianLoop] at h
    rw [round_eq cfg T ws minPw maxPw mn mx left (by omega) h2 hc hl] at h
    generalize hs : max 1 ((mx - mn) / max cfg.minChunks T) = s at h
    have hs1 : 1 ≤ s := by omega
    have hVmn : pre (ws.take mx) mn = left := by rw [pre_take _ _ _ (by omega), hl]
    cases hr : scanFrom minPw maxPw (pre (ws.take mx)) s (mx - mn) mn mn mx left with
    | ret pos' l' =>
      rw [hr] at h
      simp only [Except.ok.injEq, Prod.mk.injEq] at h
      obtain ⟨e1, e2⟩ := h
      subst e1 e2
      obtain ⟨a, b, c, d, e⟩ := scan_ret _ _ _ _ _ _ _ _ _ _ _ hr
      refine ⟨by omega, ?_, Or.inl ⟨d, e⟩⟩
      rw [c, pre_take _ _ _ (by omega)]
    | cont mn' mx' left' =>
      rw [hr] at h
      simp only at h
      -- the first probe is `min` itself, whose value is `left_weight`
      have hfirst : left < minPw := by
        rcases hlt with h' | h'
        · exact h'
        · refine Classical.byContradiction fun hn => ?_
          obtain ⟨f, hf⟩ : ∃ f, mx - mn = f + 1 := ⟨mx - mn - 1, by omega⟩
          rw [hf] at hr
          simp only [scanFrom, h1, if_true, hVmn, hn, if_false, h'] at hr
          cases hr
      obtain ⟨a, b, c, d, e⟩ := scan_cont _ _ _ _ hs1 _ _ _ _ _ _ _ _ h1 (Nat.le_refl mn)
        (Or.inr (by rw [hVmn]; exact hfirst)) hr
      have hl' : left' = pre ws mn' ∧ left' < minPw := by
        rcases d with ⟨e1, e2⟩ | ⟨e1, e2, e3⟩
        · rw [e2, e1]; exact ⟨hl, hfirst⟩
        · refine ⟨?_, e2⟩
          rw [e1, pre_take _ _ _ (by omega)]
      have hmx' : mx' < ws.length → maxPw < pre ws mx' := by
        intro hh
        rcases e with e | ⟨e1, e2⟩
        · rw [e]; exact hmx (by omega)
        · rw [pre_take _ _ _ (by omega)] at e1; exact e1
      split at h
      · next hge =>
        simp only [Except.ok.injEq, Prod.mk.injEq] at h
        obtain ⟨e1, e2⟩ := h
        subst e1 e2
        refine ⟨by omega, hl'.1, Or.inr ⟨hl'.2, ?_⟩⟩
        intro hh
        have : mn' + 1 = mx' := by omega
        rw [this]; exact hmx' (by omega)
      · exact ih mn' mx' left' pos l a (by omega) hl'.1 hmx' (Or.inl hl'.2) h

/-- Defect D4 in general form: with a single chunk (`chunk_count = 1`, i.e. the
code before the fix on a one-thread pool) a state with at least two slabs left
and `left_weight` below the bracket is a fixed point of the loop. -/
theorem medianLoop_stuck (ws : List Int) (minPw maxPw : Int) (mn mx : Nat) (left : Int)
    (h1 : mn + 1 < mx) (h2 : mx ≤ ws.length) (hl : left = pre ws mn) (hlt : left < minPw) :
    ∀ fuel, medianLoop { minChunks := 1 } 1 ws minPw maxPw fuel mn mx left = .error .outOfFuel := by
  intro fuel
  induction fuel with
  | zero => rfl
  | succ fuel ih =>
    simp only [medianLoop]
    rw [round_eq _ 1 ws minPw maxPw mn mx left (by omega) h2 (by decide) hl]
    have hs : max 1 ((mx - mn) / max ({ minChunks := 1 } : Cfg).minChunks 1) = mx - mn := by
      simp only [Nat.max_self, Nat.div_one]; omega
    rw [hs]
    obtain ⟨f, hf⟩ : ∃ f, mx - mn = f + 2 := ⟨mx - mn - 2, by omega⟩
    have hV : pre (ws.take mx) mn = left := by rw [pre_take _ _ _ (by omega), hl]
    have hnot : ¬ (mn + (f + 2) < mx) := by omega
    rw [hf]
    simp only [scanFrom, show mn < mx by omega, if_true, hV, hlt, hnot, if_false]
    rw [if_neg (by omega)]
    exact ih

end Coupe.GridRcb
