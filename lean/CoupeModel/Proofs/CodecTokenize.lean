import CoupeModel.Proofs.CodecAscii

/-!
# Lemmas for C19b: MEDIT ASCII, bytes → tokens

`tokenize (writeText F m) = writeTokens F m` for every mesh and every number
syntax whose shown numbers are single tokens that are not keywords
(`NumFmt.ShowOk`).  The string literals of the model (`strB "…"`) go through
`String.toUTF8`, which the elaborator's `whnf` does not unfold but the kernel
evaluates: the byte lists are fixed once by `decide +kernel` (kernel-checked,
nothing assumed beyond `propext`).
-/

namespace Coupe.Codec

/-! ### the string literals of the model as byte lists -/

theorem strB_dimension : strB "dimension" = [100, 105, 109, 101, 110, 115, 105, 111, 110] := by
  decide +kernel
theorem strB_vertices : strB "vertices" = [118, 101, 114, 116, 105, 99, 101, 115] := by
  decide +kernel
theorem strB_end : strB "end" = [101, 110, 100] := by decide +kernel
theorem strB_edges : strB "edges" = [101, 100, 103, 101, 115] := by decide +kernel
theorem strB_triangles : strB "triangles" = [116, 114, 105, 97, 110, 103, 108, 101, 115] := by
  decide +kernel
theorem strB_quadrilaterals : strB "quadrilaterals" =
    [113, 117, 97, 100, 114, 105, 108, 97, 116, 101, 114, 97, 108, 115] := by decide +kernel
theorem strB_quadrangles : strB "quadrangles" =
    [113, 117, 97, 100, 114, 97, 110, 103, 108, 101, 115] := by decide +kernel
theorem strB_tetrahedra : strB "tetrahedra" = [116, 101, 116, 114, 97, 104, 101, 100, 114, 97] := by
  decide +kernel
theorem strB_hexahedra : strB "hexahedra" = [104, 101, 120, 97, 104, 101, 100, 114, 97] := by
  decide +kernel
theorem strB_corners : strB "corners" = [99, 111, 114, 110, 101, 114, 115] := by decide +kernel
theorem strB_ridges : strB "ridges" = [114, 105, 100, 103, 101, 115] := by decide +kernel
theorem strB_requiredvertices : strB "requiredvertices" =
    [114, 101, 113, 117, 105, 114, 101, 100, 118, 101, 114, 116, 105, 99, 101, 115] := by
  decide +kernel

/-- `"\n\nVertices\n\t"`. -/
theorem strB_vhdr : strB "\n\nVertices\n\t" =
    [10, 10, 86, 101, 114, 116, 105, 99, 101, 115, 10, 9] := by decide +kernel
/-- `"\nEnd"`. -/
theorem strB_tail : strB "\nEnd" = [10, 69, 110, 100] := by decide +kernel

/-- the lower-cased keywords `classify` recognises. -/
def keywords : List (List Nat) :=
  [kwMVF,
   [100, 105, 109, 101, 110, 115, 105, 111, 110],
   [118, 101, 114, 116, 105, 99, 101, 115],
   [101, 110, 100],
   [101, 100, 103, 101, 115],
   [116, 114, 105, 97, 110, 103, 108, 101, 115],
   [113, 117, 97, 100, 114, 105, 108, 97, 116, 101, 114, 97, 108, 115],
   [113, 117, 97, 100, 114, 97, 110, 103, 108, 101, 115],
   [116, 101, 116, 114, 97, 104, 101, 100, 114, 97],
   [104, 101, 120, 97, 104, 101, 100, 114, 97],
   [99, 111, 114, 110, 101, 114, 115],
   [114, 105, 100, 103, 101, 115],
   [114, 101, 113, 117, 105, 114, 101, 100, 118, 101, 114, 116, 105, 99, 101, 115]]

/-- `classify` keeps a token as `raw` exactly when its lower-cased bytes are no keyword
(the direction used here). -/
theorem classify_raw_of_not_keyword (s : List Nat) (h : s.map asciiLower ∉ keywords) :
    classify s = .raw s := by
  simp only [keywords, List.mem_cons, List.not_mem_nil, or_false, not_or] at h
  obtain ⟨h0, h1, h2, h3, h4, h5, h6, h7, h8, h9, h10, h11, h12⟩ := h
  simp only [classify, strB_dimension, strB_vertices, strB_end, strB_edges, strB_triangles,
    strB_quadrilaterals, strB_quadrangles, strB_tetrahedra, strB_hexahedra, strB_corners,
    strB_ridges, strB_requiredvertices, if_neg h0, if_neg h1, if_neg h2, if_neg h3, if_neg h4,
    if_neg h5, if_neg h6, if_neg h7, if_neg h8, if_neg h9, h10, h11, h12, or_self, if_false]

/-- every keyword byte is a lower-case letter. -/
theorem keywords_letters : ∀ k ∈ keywords, ∀ b ∈ k, 97 ≤ b ∧ b ≤ 122 := by decide +kernel

/-- every keyword starts with one of `m d v e t q h c r`. -/
theorem keywords_head : ∀ k ∈ keywords, ∃ b t, k = b :: t ∧
    b ∈ [109, 100, 118, 101, 116, 113, 104, 99, 114] := by
  intro k hk
  simp only [keywords, kwMVF, List.mem_cons, List.not_mem_nil, or_false] at hk
  rcases hk with rfl | rfl | rfl | rfl | rfl | rfl | rfl | rfl | rfl | rfl | rfl | rfl | rfl <;>
    exact ⟨_, _, rfl, by decide⟩

/-- Sufficient condition 1: a token containing a byte that is not an ASCII letter
(a digit, `-`, `.`, `+`) is no keyword. -/
theorem classify_raw_of_nonletter (s : List Nat) (b : Nat) (hb : b ∈ s)
    (hl : ¬ (97 ≤ asciiLower b ∧ asciiLower b ≤ 122)) : classify s = .raw s := by
  apply classify_raw_of_not_keyword
  intro hk
  exact hl (keywords_letters _ hk (asciiLower b) (List.mem_map_of_mem hb))

/-- Sufficient condition 2: a token whose first byte is not one of the letters
`m d v e t q h c r` (either case) is no keyword. -/
theorem classify_raw_of_head (b : Nat) (t : List Nat)
    (hb : asciiLower b ∉ [109, 100, 118, 101, 116, 113, 104, 99, 114]) :
    classify (b :: t) = .raw (b :: t) := by
  apply classify_raw_of_not_keyword
  intro hk
  obtain ⟨b', t', he, hb'⟩ := keywords_head _ hk
  rw [List.map_cons, List.cons.injEq] at he
  exact hb (he.1 ▸ hb')

/-! ### `splitOn` -/

theorem splitOn_pre (p : Nat → Bool) (w : List Nat) (hw : ∀ b ∈ w, p b = false)
    (rest cur : List Nat) :
    splitOn p (w ++ rest) cur = splitOn p rest (w.reverse ++ cur) := by
  induction w generalizing cur with
  | nil => rfl
  | cons a as ih =>
    simp only [List.cons_append, splitOn, hw a List.mem_cons_self, Bool.false_eq_true, if_false]
    rw [ih (fun b hb => hw b (List.mem_cons_of_mem _ hb))]
    simp only [List.reverse_cons, List.append_assoc, List.cons_append, List.nil_append]

theorem splitOn_word_sep (p : Nat → Bool) (w : List Nat) (hw : ∀ b ∈ w, p b = false)
    (s : Nat) (hs : p s = true) (rest : List Nat) :
    splitOn p (w ++ s :: rest) [] = w :: splitOn p rest [] := by
  rw [splitOn_pre p w hw]
  simp only [splitOn, hs, if_true, List.append_nil, List.reverse_reverse]

theorem splitOn_word (p : Nat → Bool) (w : List Nat) (hw : ∀ b ∈ w, p b = false) :
    splitOn p w [] = [w] := by
  have := splitOn_pre p w hw [] []
  simp only [List.append_nil, splitOn, List.reverse_reverse] at this
  exact this

/-! ### one line -/

/-- the tokens of one line (the body of `tokenize`). -/
def tokLine (line : List Nat) : List Tok :=
  ((splitOn isSep line []).filter (· ≠ [])).map classify

theorem tokenize_eq (b : List Nat) :
    tokenize b = (splitOn (· = 10) b []).map tokLine := rfl

/-- no separator byte. -/
def NoSep (w : List Nat) : Prop := ∀ b ∈ w, isSep b = false

instance (w : List Nat) : Decidable (NoSep w) :=
  inferInstanceAs (Decidable (∀ b ∈ w, isSep b = false))

theorem ne10_of_not_isSep {b : Nat} (h : isSep b = false) : b ≠ 10 := by
  intro h10; subst h10; exact absurd h (by decide)

theorem tokLine_nil : tokLine [] = [] := by decide

theorem tokLine_sep (s : Nat) (hs : isSep s = true) (rest : List Nat) :
    tokLine (s :: rest) = tokLine rest := by
  have := splitOn_word_sep isSep [] (by simp) s hs rest
  simp only [List.nil_append] at this
  simp [tokLine, this]

theorem tokLine_word_sep (w : List Nat) (hne : w ≠ []) (hw : NoSep w) (s : Nat)
    (hs : isSep s = true) (rest : List Nat) :
    tokLine (w ++ s :: rest) = classify w :: tokLine rest := by
  simp [tokLine, splitOn_word_sep isSep w hw s hs rest, hne]

theorem tokLine_word (w : List Nat) (hne : w ≠ []) (hw : NoSep w) :
    tokLine w = [classify w] := by
  simp [tokLine, splitOn_word isSep w hw, hne]

/-! ### lines -/

theorem tokenize_line (l : List Nat) (hl : ∀ b ∈ l, b ≠ 10) (rest : List Nat) :
    tokenize (l ++ 10 :: rest) = tokLine l :: tokenize rest := by
  rw [tokenize_eq, tokenize_eq,
    splitOn_word_sep _ l (fun b hb => by simpa using hl b hb) 10 (by simp)]
  rfl

theorem tokenize_last (l : List Nat) (hl : ∀ b ∈ l, b ≠ 10) :
    tokenize l = [tokLine l] := by
  rw [tokenize_eq, splitOn_word _ l (fun b hb => by simpa using hl b hb)]
  rfl

/-! ### shown numbers -/

/-- a shown number is one token and no keyword. -/
structure NumTok (s : List Nat) : Prop where
  ne : s ≠ []
  noSep : NoSep s
  raw : classify s = .raw s

/-- The well-formedness of a number syntax's printers that the tokenizer link
needs: every shown number is a non-empty byte string without the separator bytes
32/9/13/10 that `classify` does not take for a keyword.  (Rust's `Display` for
`usize`, `isize`, `f64`: digits, `-`, `.`, `NaN`, `inf` – see
`classify_raw_of_nonletter`, `classify_raw_of_head`.) -/
structure NumFmt.ShowOk (F : NumFmt) : Prop where
  u : ∀ n, NumTok (F.showU n)
  i : ∀ i, NumTok (F.showI i)
  f : ∀ x, NumTok (F.showF x)

/-- a run of ` number` pieces followed by another separator. -/
theorem tokLine_flatMap {α : Type} (g : α → List Nat) (hg : ∀ x, NumTok (g x)) (xs : List α)
    (tail : List Nat) :
    tokLine (xs.flatMap (fun c => 32 :: g c) ++ 32 :: tail)
      = xs.map (fun c => Tok.raw (g c)) ++ tokLine (32 :: tail) := by
  induction xs with
  | nil => rfl
  | cons x xs ih =>
    obtain ⟨Y, hY⟩ : ∃ Y, xs.flatMap (fun c => 32 :: g c) ++ 32 :: tail = 32 :: Y := by
      cases xs with
      | nil => exact ⟨_, rfl⟩
      | cons y ys => exact ⟨_, by simp only [List.flatMap_cons, List.cons_append]; rfl⟩
    have hYt : tokLine Y = tokLine (xs.flatMap (fun c => 32 :: g c) ++ 32 :: tail) := by
      rw [hY, tokLine_sep 32 (by decide)]
    simp only [List.flatMap_cons, List.cons_append, List.append_assoc, List.map_cons]
    rw [tokLine_sep 32 (by decide), hY, tokLine_word_sep _ (hg x).ne (hg x).noSep 32 (by decide),
      (hg x).raw, hYt, ih]

theorem noNl_flatMap {α : Type} (g : α → List Nat) (hg : ∀ x, NumTok (g x)) (xs : List α)
    (w : List Nat) (hw : NoSep w) :
    ∀ b ∈ xs.flatMap (fun c => 32 :: g c) ++ 32 :: w, b ≠ 10 := by
  intro b hb
  rw [List.mem_append, List.mem_flatMap, List.mem_cons] at hb
  rcases hb with ⟨c, _, hc⟩ | rfl | hb
  · rw [List.mem_cons] at hc
    rcases hc with rfl | hc
    · decide
    · exact ne10_of_not_isSep ((hg c).noSep b hc)
  · decide
  · exact ne10_of_not_isSep (hw b hb)

/-- one data line ` x … x r`. -/
theorem tokLine_data {α : Type} (g : α → List Nat) (hg : ∀ x, NumTok (g x)) (xs : List α)
    (w : List Nat) (hw : NumTok w) :
    tokLine (xs.flatMap (fun c => 32 :: g c) ++ 32 :: w)
      = xs.map (fun c => Tok.raw (g c)) ++ [Tok.raw w] := by
  rw [tokLine_flatMap g hg, tokLine_sep 32 (by decide), tokLine_word w hw.ne hw.noSep, hw.raw]

/-! ### vertex lines, element lines, blocks -/

theorem tokenize_vertText (F : NumFmt) (ok : F.ShowOk) (d : Nat) (rs : List Int) :
    ∀ (cs rest : List Nat),
    tokenize (vertText F d cs rs ++ rest) = vertLines F d cs rs ++ tokenize rest := by
  induction rs with
  | nil => intro cs rest; simp only [vertText, vertLines, List.nil_append]
  | cons r rs ih =>
    intro cs rest
    by_cases hd : cs.length < d
    · simp only [vertText, vertLines, if_pos hd, List.nil_append]
    · simp only [vertText, vertLines, if_neg hd]
      have e : (cs.take d).flatMap (fun c => 32 :: F.showF c) ++ (32 :: F.showI r) ++ [10]
            ++ vertText F d (cs.drop d) rs ++ rest
          = ((cs.take d).flatMap (fun c => 32 :: F.showF c) ++ 32 :: F.showI r)
            ++ 10 :: (vertText F d (cs.drop d) rs ++ rest) := by
        simp only [List.append_assoc, List.cons_append, List.nil_append]
      rw [e, tokenize_line _ (noNl_flatMap _ ok.f _ _ (ok.i r).noSep), ih,
        tokLine_data _ ok.f _ _ (ok.i r)]
      rfl

theorem tokenize_elemText (F : NumFmt) (ok : F.ShowOk) (k : Nat) (rs : List Int) :
    ∀ (ns rest : List Nat),
    tokenize (elemText F k ns rs ++ rest) = elemLines F k ns rs ++ tokenize rest := by
  induction rs with
  | nil => intro ns rest; simp only [elemText, elemLines, List.nil_append]
  | cons r rs ih =>
    intro ns rest
    by_cases hd : ns = []
    · simp only [elemText, elemLines, if_pos hd, List.nil_append]
    · simp only [elemText, elemLines, if_neg hd]
      have e : (ns.take k).flatMap (fun n => 32 :: F.showU (n + 1)) ++ (32 :: F.showI r) ++ [10]
            ++ elemText F k (ns.drop k) rs ++ rest
          = ((ns.take k).flatMap (fun n => 32 :: F.showU (n + 1)) ++ 32 :: F.showI r)
            ++ 10 :: (elemText F k (ns.drop k) rs ++ rest) := by
        simp only [List.append_assoc, List.cons_append, List.nil_append]
      rw [e, tokenize_line _ (noNl_flatMap (fun n => F.showU (n + 1)) (fun n => ok.u (n + 1)) _ _
          (ok.i r).noSep), ih,
        tokLine_data (fun n => F.showU (n + 1)) (fun n => ok.u (n + 1)) _ _ (ok.i r)]
      rfl

/-- the section names the writer prints are newline-free single keywords. -/
theorem elemName_line (t : ElemType) (ht : t ≠ .vertex) :
    (∀ b ∈ strB (elemName t), b ≠ 10) ∧ tokLine (strB (elemName t)) = [Tok.kw (.elem t)] := by
  cases t
  · exact absurd rfl ht
  all_goals exact ⟨by decide +kernel, by decide +kernel⟩

/-- a count line `\tN`. -/
theorem tokLine_count (w : List Nat) (hw : NumTok w) :
    (∀ b ∈ 9 :: w, b ≠ 10) ∧ tokLine (9 :: w) = [Tok.raw w] := by
  refine ⟨fun b hb => ?_, ?_⟩
  · rw [List.mem_cons] at hb
    rcases hb with rfl | hb
    · decide
    · exact ne10_of_not_isSep (hw.noSep b hb)
  · rw [tokLine_sep 9 (by decide), tokLine_word w hw.ne hw.noSep, hw.raw]

theorem tokenize_blockText (F : NumFmt) (ok : F.ShowOk) (bs : List Block) (rest : List Nat) :
    tokenize (blockText F bs ++ rest) = blockLines F bs ++ tokenize rest := by
  induction bs with
  | nil => simp only [blockText, blockLines, List.nil_append]
  | cons b bs ih =>
    by_cases hv : b.ty = .vertex
    · simp only [blockText, blockLines, if_pos hv]; exact ih
    · simp only [blockText, blockLines, if_neg hv]
      have e : [10] ++ strB (elemName b.ty) ++ [10, 9] ++ F.showU b.refs.length ++ [10]
            ++ elemText F b.ty.nodeCount b.nodes b.refs ++ blockText F bs ++ rest
          = [] ++ 10 :: (strB (elemName b.ty) ++ 10 :: ((9 :: F.showU b.refs.length) ++ 10 ::
              (elemText F b.ty.nodeCount b.nodes b.refs ++ (blockText F bs ++ rest)))) := by
        simp only [List.append_assoc, List.cons_append, List.nil_append]
      obtain ⟨hn1, hn2⟩ := elemName_line b.ty hv
      obtain ⟨hc1, hc2⟩ := tokLine_count _ (ok.u b.refs.length)
      rw [e, tokenize_line [] (by simp), tokenize_line _ hn1, tokenize_line _ hc1,
        tokenize_elemText F ok, ih, tokLine_nil, hn2, hc2]
      simp only [List.cons_append, List.append_assoc]

/-! ### the whole file -/

/-- `"MeshVersionFormatted 2"`. -/
def line1 : List Nat :=
  [77, 101, 115, 104, 86, 101, 114, 115, 105, 111, 110, 70, 111, 114, 109, 97, 116, 116, 101, 100,
   32, 50]

/-- `"Dimension"`, `"Vertices"`, `"End"`. -/
def wDimension : List Nat := [68, 105, 109, 101, 110, 115, 105, 111, 110]
def wVertices : List Nat := [86, 101, 114, 116, 105, 99, 101, 115]
def wEnd : List Nat := [69, 110, 100]

theorem tokenize_writeText (F : NumFmt) (ok : F.ShowOk) (m : Mesh) :
    tokenize (writeText F m) = writeTokens F m := by
  have e : writeText F m
      = line1 ++ 10 :: ((wDimension ++ 32 :: F.showU m.dim) ++ 10 :: ([] ++ 10 :: (wVertices ++ 10 ::
          ((9 :: F.showU m.nodeRefs.length) ++ 10 :: (vertText F m.dim m.coords m.nodeRefs ++
            (blockText F m.topo ++ ([] ++ 10 :: wEnd))))))) := by
    simp only [writeText, mvfHeader, strB_vhdr, strB_tail, line1, wDimension, wVertices, wEnd,
      List.append_assoc, List.cons_append, List.nil_append]
  obtain ⟨hc1, hc2⟩ := tokLine_count _ (ok.u m.nodeRefs.length)
  have hd1 : ∀ b ∈ wDimension ++ 32 :: F.showU m.dim, b ≠ 10 := by
    intro b hb
    rw [List.mem_append, List.mem_cons] at hb
    rcases hb with hb | rfl | hb
    · revert b; decide
    · decide
    · exact ne10_of_not_isSep ((ok.u m.dim).noSep b hb)
  have hd2 : tokLine (wDimension ++ 32 :: F.showU m.dim)
      = [Tok.kw .dimension, Tok.raw (F.showU m.dim)] := by
    rw [tokLine_word_sep wDimension (by decide) (by decide) 32 (by decide),
      tokLine_word _ (ok.u m.dim).ne (ok.u m.dim).noSep, (ok.u m.dim).raw]
    congr 1
    decide +kernel
  have h1 : tokLine line1 = [Tok.kw .mvf, Tok.raw two] := by decide +kernel
  have hV : tokLine wVertices = [Tok.kw .vertices] := by decide +kernel
  have hE : tokLine wEnd = [Tok.kw .end_] := by decide +kernel
  rw [e, tokenize_line line1 (by decide), tokenize_line _ hd1, tokenize_line [] (by simp),
    tokenize_line wVertices (by decide), tokenize_line _ hc1, tokenize_vertText F ok,
    tokenize_blockText F ok, tokenize_line [] (by simp), tokenize_last wEnd (by decide),
    h1, hd2, tokLine_nil, hV, hc2, hE]
  simp only [writeTokens, List.append_assoc]

/-! ### a decimal number syntax (non-vacuity) -/

/-- decimal digits of `n`, least significant first (`fuel ≥ n` suffices). -/
def decRev : Nat → Nat → List Nat
  | 0, _ => [48]
  | fuel + 1, n => if n < 10 then [48 + n] else (48 + n % 10) :: decRev fuel (n / 10)

def showDec (n : Nat) : List Nat := (decRev n n).reverse

/-- value of a digit string, least significant first. -/
def valRev : List Nat → Nat
  | [] => 0
  | b :: bs => (b - 48) + 10 * valRev bs

def parseDec (s : List Nat) : Option Nat :=
  if s ≠ [] ∧ s.all (fun b => decide (48 ≤ b ∧ b ≤ 57)) then some (valRev s.reverse) else none

def showDecI (i : Int) : List Nat := if i < 0 then 45 :: showDec (-i).toNat else showDec i.toNat

def parseDecI (s : List Nat) : Option Int :=
  if s.head? = some 45 then (parseDec s.tail).map (fun (n : Nat) => -(n : Int))
  else (parseDec s).map (fun (n : Nat) => (n : Int))

/-- plain decimal integers; a float is shown as the decimal of its bit pattern
(a stand-in: the theorems are about any syntax meeting the two contracts). -/
def decFmt : NumFmt where
  showU := showDec
  showI := showDecI
  showF := showDec
  parseUT := parseDec
  parseU := parseDec
  parseI := parseDecI
  parseF := parseDec

theorem decRev_digits (fuel n : Nat) : ∀ b ∈ decRev fuel n, 48 ≤ b ∧ b ≤ 57 := by
  induction fuel generalizing n with
  | zero => intro b hb; simp only [decRev, List.mem_singleton] at hb; omega
  | succ f ih =>
    intro b hb
    unfold decRev at hb
    split at hb
    · simp only [List.mem_singleton] at hb; omega
    · rw [List.mem_cons] at hb
      rcases hb with rfl | hb
      · omega
      · exact ih _ b hb

theorem decRev_ne (fuel n : Nat) : decRev fuel n ≠ [] := by
  cases fuel with
  | zero => simp [decRev]
  | succ f => unfold decRev; split <;> simp

theorem valRev_decRev (fuel n : Nat) (h : n ≤ fuel) : valRev (decRev fuel n) = n := by
  induction fuel generalizing n with
  | zero => have : n = 0 := by omega
            subst this; rfl
  | succ f ih =>
    unfold decRev
    split
    · simp only [valRev]; omega
    · simp only [valRev]
      rw [ih (n / 10) (by omega)]
      omega

theorem showDec_digits (n : Nat) : ∀ b ∈ showDec n, 48 ≤ b ∧ b ≤ 57 := by
  intro b hb
  exact decRev_digits n n b (List.mem_reverse.mp hb)

theorem showDec_ne (n : Nat) : showDec n ≠ [] := by
  simp [showDec, decRev_ne]

theorem parseDec_showDec (n : Nat) : parseDec (showDec n) = some n := by
  unfold parseDec
  rw [if_pos]
  · simp only [showDec, List.reverse_reverse, valRev_decRev n n (Nat.le_refl n)]
  · refine ⟨showDec_ne n, ?_⟩
    rw [List.all_eq_true]
    intro b hb
    simpa using showDec_digits n b hb

theorem parseDecI_showDecI (i : Int) : parseDecI (showDecI i) = some i := by
  unfold showDecI
  split
  · simp only [parseDecI, List.head?_cons, if_true, List.tail_cons, parseDec_showDec,
      Option.map_some]
    congr 1; omega
  · have hh : (showDec i.toNat).head? ≠ some 45 := by
      intro h
      have := showDec_digits i.toNat 45 (List.mem_of_mem_head? h)
      omega
    simp only [parseDecI, if_neg hh, parseDec_showDec, Option.map_some]
    congr 1; omega

theorem numTok_of_digits (s : List Nat) (hne : s ≠ []) (hd : ∀ b ∈ s, 48 ≤ b ∧ b ≤ 57) :
    NumTok s := by
  refine ⟨hne, fun b hb => ?_, ?_⟩
  · have := hd b hb
    simp only [isSep, Bool.or_eq_false_iff, decide_eq_false_iff_not]
    omega
  · obtain ⟨b, t, rfl⟩ := List.exists_cons_of_ne_nil hne
    have := hd b List.mem_cons_self
    apply classify_raw_of_nonletter _ b List.mem_cons_self
    unfold asciiLower
    split <;> omega

theorem numTok_showDec (n : Nat) : NumTok (showDec n) :=
  numTok_of_digits _ (showDec_ne n) (showDec_digits n)

/-- a sign followed by digits. -/
theorem numTok_showDecI (i : Int) : NumTok (showDecI i) := by
  unfold showDecI
  split
  · refine ⟨by simp, fun b hb => ?_, classify_raw_of_head 45 _ (by decide)⟩
    rw [List.mem_cons] at hb
    rcases hb with rfl | hb
    · decide
    · exact (numTok_showDec _).noSep b hb
  · exact numTok_showDec _

theorem decFmt_showOk : decFmt.ShowOk :=
  ⟨numTok_showDec, numTok_showDecI, numTok_showDec⟩

theorem decFmt_numFmtOK : NumFmtOK decFmt :=
  ⟨fun n _ => parseDec_showDec n, fun n _ => parseDec_showDec n,
   fun i _ => parseDecI_showDecI i, fun x _ => parseDec_showDec x, ⟨2, by decide⟩⟩

end Coupe.Codec
