import CoupeModel.Gen.IntFns
import CoupeModel.Model.ArcSwap
import CoupeModel.Model.Sfc
import CoupeModel.Model.Grid
import CoupeModel.Model.GridRcb

/-!
# Lemmas behind `Props/GenTie.lean`, part 1: the generated integer functions

Helper facts about the checked operations of `Gen/IntFns.lean` and the bitwise identity
behind `Average::avg`.  Core tactics only.
-/

namespace Coupe.GenTie
open Coupe.Gen.IntFns

theorem csub_of_le {a b : Nat} (h : b ≤ a) : csub a b = some (a - b) := by simp [csub, h]
theorem csub_of_lt {a b : Nat} (h : a < b) : csub a b = none := by
  simp only [csub]; rw [if_neg (by omega)]
theorem cdiv_of_pos {a b : Nat} (h : 0 < b) : cdiv a b = some (a / b) := by
  simp only [cdiv]; rw [if_neg (by omega)]
theorem cdiv_zero (a : Nat) : cdiv a 0 = none := by simp [cdiv]
theorem cmod_of_pos {a b : Nat} (h : 0 < b) : cmod a b = some (a % b) := by
  simp only [cmod]; rw [if_neg (by omega)]
theorem cmod_zero (a : Nat) : cmod a 0 = none := by simp [cmod]
theorem cidx_of_lt {i n : Nat} (h : i < n) : cidx i n = some () := by simp [cidx, h]
theorem cidx_of_ge {i n : Nat} (h : n ≤ i) : cidx i n = none := by
  simp only [cidx]; rw [if_neg (by omega)]

/-- The bitwise identity behind "average without overflow":
`a + b = 2·(a AND b) + (a XOR b)`. -/
theorem add_eq_two_mul_and_add_xor (a b : Nat) : a + b = 2 * (a &&& b) + (a ^^^ b) := by
  induction a using Nat.strongRecOn generalizing b with
  | _ a ih =>
    by_cases ha : a = 0
    · subst ha; simp
    · have ih' := ih (a / 2) (by omega) (b / 2)
      have h1 : (a &&& b) / 2 = a / 2 &&& b / 2 := Nat.and_div_two
      have h2 : (a ^^^ b) / 2 = a / 2 ^^^ b / 2 := Nat.xor_div_two
      have h3 := @Nat.and_mod_two_eq_one a b
      have h4 := @Nat.xor_mod_two_eq_one a b
      omega

theorem avg_eq (a b : Nat) : avg a b = (a + b) / 2 := by
  have h := add_eq_two_mul_and_add_xor a b
  simp only [avg]
  omega

theorem and_le_left' (a b : Nat) : a &&& b ≤ a := Nat.and_le_left
theorem xor_lt_two_pow' {a b n : Nat} (ha : a < 2 ^ n) (hb : b < 2 ^ n) : a ^^^ b < 2 ^ n :=
  Nat.xor_lt_two_pow ha hb

/-- `work_share` on positive arguments: every guard passes. -/
theorem work_share_pos {t m : Nat} (ht : 0 < t) (hm : 0 < m) :
    work_share t m = some (Coupe.ArcSwap.workShare t m) := by
  have hmin : 0 < min t m := by omega
  have hper : 0 < (t + min t m - 1) / min t m := by
    apply Nat.div_pos <;> omega
  simp only [work_share, Coupe.ArcSwap.workShare]
  rw [csub_of_le (by omega)]
  simp only [Option.bind_eq_bind, Option.bind_some]
  rw [cdiv_of_pos hmin]
  simp only [Option.bind_some]
  rw [csub_of_le (by omega)]
  simp only [Option.bind_some]
  rw [cdiv_of_pos hper]
  simp

/-- `work_share` with a zero argument: the first subtraction `total_work + max_threads - 1`
(when `total_work = 0`) or … panics; in every case the result is `none`. -/
theorem work_share_zero {t m : Nat} (h : t = 0 ∨ m = 0) : work_share t m = none := by
  have hmin : min t m = 0 := by omega
  simp only [work_share, hmin]
  by_cases ht : t = 0
  · subst ht; simp [csub]
  · rw [csub_of_le (by omega)]
    simp [cdiv]

/-! ## `SubGrid::split_at` -/

open Coupe.GridRcb in
theorem split_at_eq (D : Nat) (sg : SubGrid) (c pos : Nat) (hc : c < D) :
    split_at D sg.size sg.offset c pos
      = (sg.splitAt c pos).map (fun p => ((p.1.size, p.1.offset), (p.2.size, p.2.offset))) := by
  have hupd : ∀ f i v, Coupe.Gen.IntFns.upd f i v = Coupe.GridRcb.upd f i v := fun _ _ _ => rfl
  simp only [split_at, SubGrid.splitAt, cidx_of_lt hc, Option.bind_eq_bind, Option.bind_some]
  by_cases h1 : pos < sg.offset c
  · rw [csub_of_lt h1, if_pos h1]; rfl
  · rw [csub_of_le (by omega), if_neg h1]
    simp only [Option.bind_some]
    by_cases h2 : sg.size c < pos - sg.offset c
    · rw [csub_of_lt h2, if_pos h2]; rfl
    · rw [csub_of_le (by omega), if_neg h2]
      simp [hupd]

theorem split_at_oob (D : Nat) (size offset : Nat → Nat) (c pos : Nat) (hc : D ≤ c) :
    split_at D size offset c pos = none := by
  simp [split_at, cidx_of_ge hc]

/-! ## `IterationResult::part_of`, one turn of the loop -/

open Coupe.GridRcb in
theorem part_of_step_eq (D : Nat) (pos : Nat → Nat) (c position id : Nat) (l r it : Tree)
    (hc : c < D) :
    (part_of_step D pos c position id l r it).map (fun s => partOfAux D s.2.1 pos s.2.2 s.1)
      = some (partOfAux D (.split position l r) pos c id) := by
  have hD : 0 < D := by omega
  simp only [part_of_step, cidx_of_lt hc, cmod_of_pos hD, Option.bind_eq_bind, Option.bind_some]
  by_cases h : pos c < position
  · simp [partOfAux, h]
  · simp [partOfAux, h]

theorem part_of_step_oob {τ : Type} (D : Nat) (pos : Nat → Nat) (c position id : Nat) (l r it : τ)
    (hc : D ≤ c) : part_of_step D pos c position id l r it = none := by
  simp [part_of_step, cidx_of_ge hc]

/-! ## `weighted_median`: chunk size -/

theorem median_chunk_size_eq (T mn mx : Nat) (h : mn ≤ mx) :
    median_chunk_size mn mx T = some (max 2 T, max 1 ((mx - mn) / max 2 T)) := by
  have : 0 < max 2 T := by omega
  simp only [median_chunk_size, csub_of_le h, cdiv_of_pos this, Option.bind_eq_bind, Option.bind_some]
  rfl

theorem median_chunk_size_underflow (T mn mx : Nat) (h : mx < mn) : median_chunk_size mn mx T = none := by
  simp [median_chunk_size, csub_of_lt h]

open Coupe.GridRcb in
theorem median_round_eq (T : Nat) (ws : List Int) (minPw maxPw : Int) (mn mx : Nat) (left : Int)
    (h1 : mn ≤ mx) (h2 : mx ≤ ws.length) :
    (median_chunk_size mn mx T).map (fun cs =>
        let slice := (ws.drop mn).take (mx - mn)
        forLoop minPw maxPw (prefixPairs cs.2 mn left (chunkSums cs.2 slice.length slice) 0 0) mn mx left)
      = (round {} T ws minPw maxPw mn mx left).toOption := by
  rw [median_chunk_size_eq T mn mx h1]
  have h3 : ¬ (mx < mn ∨ ws.length < mx) := by omega
  have h4 : max 2 T ≠ 0 := by omega
  simp only [round, if_neg h3, if_neg h4, Option.map_some, Except.toOption]

/-! ## `z_curve_partition`: chunk arithmetic -/

theorem z_curve_chunks_eq (n k : Nat) (hk : 0 < k) :
    z_curve_chunks n k = some (n / k, n % k, (n / k + 1) * (n % k), n / k + 1, max (n / k) 1) := by
  simp only [z_curve_chunks, cdiv_of_pos hk, cmod_of_pos hk, Option.bind_eq_bind, Option.bind_some]
  rfl

theorem z_curve_chunks_zero (n : Nat) : z_curve_chunks n 0 = none := by
  simp [z_curve_chunks, cdiv_zero]

end Coupe.GenTie
