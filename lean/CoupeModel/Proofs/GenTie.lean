import CoupeModel.Gen.IntFns
import CoupeModel.Model.ArcSwap
import CoupeModel.Model.Sfc
import CoupeModel.Model.Grid
import CoupeModel.Model.GridRcb

/-!
# Lemmas behind `Props/GenTie.lean`, part 1: the generated integer functions

Helper facts about the checked operations of `Gen/IntFns.lean` and the bitwise identity
behind `Average::avg`.  Core tactics only.
-/

namespace Coupe.GenTie
open Coupe.Gen.IntFns

theorem csub_of_le {a b : Nat} (h : b ≤ a) : csub a b = some (a - b) := by simp [csub, h]
theorem csub_of_lt {a b : Nat} (h : a < b) : csub a b = none := by
  simp only [csub]; rw [if_neg (by omega)]
theorem cdiv_of_pos {a b : Nat} (h : 0 < b) : cdiv a b = some (a / b) := by
  simp only [cdiv]; rw [if_neg (by omega)]
theorem cdiv_zero (a : Nat) : cdiv a 0 = none := by simp [cdiv]
theorem cmod_of_pos {a b : Nat} (h : 0 < b) : cmod a b = some (a % b) := by
  simp only [cmod]; rw [if_neg (by omega)]
theorem cmod_zero (a : Nat) : cmod a 0 = none := by simp [cmod]
theorem cidx_of_lt {i n : Nat} (h : i < n) : cidx i n = some () := by simp [cidx, h]
theorem cidx_of_ge {i n : Nat} (h : n ≤ i) : cidx i n = none := by
  simp only [cidx]; rw [if_neg (by omega)]

/-- The bitwise identity behind "average without overflow":
`a + b = 2·(a AND b) + (a XOR b)`. -/
theorem add_eq_two_mul_and_add_xor (a b : Nat) : a + b = 2 * (a &&& b) + (a ^^^ b) := by
  induction a using Nat.strongRecOn generalizing b with
  | _ a ih =>
    by_cases ha : a = 0
    · subst ha; simp
    · have ih' := ih (a / 2) (by omega) (b / 2)
      have h1 : (a &&& b) / 2 = a / 2 &&& b / 2 := Nat.and_div_two
      have h2 : (a ^^^ b) / 2 = a / 2 ^^^ b / 2 := Nat.xor_div_two
      have h3 := @Nat.and_mod_two_eq_one a b
      have h4 := @Nat.xor_mod_two_eq_one a b
      omega

theorem avg_eq (a b : Nat) : avg a b = (a + b) / 2 := by
  have h := add_eq_two_mul_and_add_xor a b
  simp only [avg]
  omega

theorem and_le_left' (a b : Nat) : a &&& b ≤ a := Nat.and_le_left
theorem xor_lt_two_pow' {a b n : Nat} (ha : a < 2 ^ n) (hb : b < 2 ^ n) : a ^^^ b < 2 ^ n :=
  Nat.xor_lt_two_pow ha hb

/-- `work_share` on positive arguments: every guard passes. -/
theorem work_share_pos {t m : Nat} (ht : 0 < t) (hm : 0 < m) :
    work_share t m = some (Coupe.ArcSwap.workShare t m) := by
  have hmin : 0 < min t m := by omega
  have hper : 0 < (t + min t m - 1) / min t m := by
    apply Nat.div_pos <;> omega
  simp only [work_share, Coupe.ArcSwap.workShare]
  rw [csub_of_le (by omega)]
  simp only [Option.bind_eq_bind, Option.bind_some]
  rw [cdiv_of_pos hmin]
  simp only [Option.bind_some]
  rw [csub_of_le (by omega)]
  simp only [Option.bind_some]
  rw [cdiv_of_pos hper]
  simp

/-- `work_share` with a zero argument: the first subtraction `total_work + max_threads - 1`
(when `total_work = 0`) or … panics; in every case the result is `none`. -/
theorem work_share_zero {t m : Nat} (h : t = 0 ∨ m = 0) : work_share t m = none := by
  have hmin : min t m = 0 := by omega
  simp only [work_share, hmin]
  by_cases ht : t = 0
  · subst ht; simp [csub]
  · rw [csub_of_le (by omega)]
    simp [cdiv]

end Coupe.GenTie
