import CoupeModel.Model.Basic
import CoupeModel.Model.Metrics
import CoupeModel.Model.Kl
import CoupeModel.Model.Fm
import CoupeModel.Model.ArcSwap
import CoupeModel.Proofs.Metrics
import CoupeModel.Proofs.Fm
import CoupeModel.Proofs.ArcSwapCut

/-!
# One edge cut, one load: the definitions of C05 / C07 / C15 / C16 agree

C16 (`Model/Metrics.lean`), C15 (`Model/Kl.lean`), C07 (`Model/Fm.lean`) and C05
(`Proofs/ArcSwapCut.lean`) each carry their own definition of the edge cut.  This file gives
ONE reference definition, `Coupe.Bridge.cutDef` – the sum, over the unordered pairs `{i, j}`
(`i < j`) lying in different parts, of the weight `w(i, j)` of the edge – and shows that every
model's function equals it under that model's own validity hypotheses.

Representation: `Kl.Graph`, `Fm.Graph` and `ArcSwap.Graph` are all (reducibly) the same type
`List (List (Nat × Int))`: `g[v]` = the stored `(neighbour, weight)` entries of row `v`, which is
literally what the harness feeds.  `Bridge.Graph` is that type again, so the conversions between
the three are the identity (`Iff.rfl`/`rfl`, see `graph_types_agree`).  C16 uses a topology
`(len, neighbours)` or the raw CSR arrays: `topoOf g` and `rowsOf m` below convert.
-/

namespace Coupe.Bridge

open Coupe.Metrics (sumTo entry part)

abbrev Row := List (Nat × Int)

/-- Adjacency rows: `g[v]` = the stored `(neighbour, weight)` entries of vertex `v`. -/
abbrev Graph := List Row

/-- The three list-of-rows graph types are the same type. -/
theorem graph_types_agree :
    Coupe.Kl.Graph = Graph ∧ Coupe.Fm.Graph = Graph ∧ Coupe.ArcSwap.Graph = Graph :=
  ⟨rfl, rfl, rfl⟩

/-- Row `v` (`[]` beyond the end). -/
def row (g : Graph) (v : Nat) : Row := g.getD v []

/-- `w(i, j)`: the weight stored in row `i` for neighbour `j` (the sum of the entries, should
the row store `j` more than once; `0` when `j` is not a neighbour of `i`). -/
def weight (g : Graph) (i j : Nat) : Int :=
  (((row g i).filter (fun e => e.1 == j)).map (·.2)).sum

/-- `Σ_{i < n} f i`. -/
def sumRange (n : Nat) (f : Nat → Int) : Int := ((List.range n).map f).sum

/-- THE edge cut: the sum, over the unordered pairs `{i, j}`, `i < j < n`, whose end points lie
in different parts, of the edge weight `w(i, j)`.  (`p[v]` is read with default `0`, like every
model does.) -/
def cutDef (g : Graph) (p : List Nat) : Int :=
  sumRange g.length fun j => sumRange j fun i =>
    if p.getD i 0 ≠ p.getD j 0 then weight g i j else 0

/-- The graph is symmetric (undirected): `w(i, j) = w(j, i)`. -/
def Symm (g : Graph) : Prop :=
  ∀ i j, i < g.length → j < g.length → weight g i j = weight g j i

/-- Every row is sorted by neighbour id (repetitions allowed). -/
def SortedRows (g : Graph) : Prop :=
  ∀ v, v < g.length → (row g v).Pairwise (fun a b => a.1 ≤ b.1)

instance (g : Graph) : Decidable (Symm g) := by
  unfold Symm
  exact decidable_of_iff (∀ i ∈ List.range g.length, ∀ j ∈ List.range g.length,
      weight g i j = weight g j i)
    ⟨fun h i j hi hj => h i (List.mem_range.mpr hi) j (List.mem_range.mpr hj),
     fun h i hi j hj => h i j (List.mem_range.mp hi) (List.mem_range.mp hj)⟩

instance (g : Graph) : Decidable (SortedRows g) := by
  unfold SortedRows
  exact decidable_of_iff (∀ v ∈ List.range g.length, (row g v).Pairwise (fun a b => a.1 ≤ b.1))
    ⟨fun h v hv => h v (List.mem_range.mpr hv), fun h v hv => h v (List.mem_range.mp hv)⟩

/-- The topology C16's default methods see for the rows `g`. -/
def topoOf (g : Graph) : Coupe.Metrics.Topo := ⟨g.length, row g⟩

/-- The rows of a CSR view (`outer_view(v)` for every `v`): what `Kl`/`Fm`/`ArcSwap` receive
when they are handed the matrix `m`. -/
def rowsOf (m : Coupe.Metrics.Csr) : Graph := (List.range m.n).map m.row

/-! ## sums -/

theorem sumRange_eq_sumTo (n : Nat) (f : Nat → Int) : sumRange n f = sumTo n f := by
  unfold sumRange
  induction n with
  | zero => rfl
  | succ n ih =>
    rw [List.range_succ, List.map_append, List.sum_append, ih]
    simp [sumTo]

theorem sumRange_congr {n : Nat} {f h : Nat → Int} (H : ∀ i, i < n → f i = h i) :
    sumRange n f = sumRange n h := by
  rw [sumRange_eq_sumTo, sumRange_eq_sumTo]
  exact Coupe.Metrics.sumTo_congr H

/-- Row-by-row sum over `zipIdx` = sum over the vertex range. -/
theorem sum_zipIdx (g : Graph) (F : Nat → Row → Int) :
    (g.zipIdx.map fun x => F x.2 x.1).sum = sumRange g.length fun v => F v (row g v) := by
  unfold sumRange
  rw [Coupe.Fm.zipIdx_eq, List.map_map]
  rfl

/-! ## the hub: C16's generic `edge_cut` on `topoOf g` -/

theorem weight_eq_entry (g : Graph) (i j : Nat) : weight g i j = entry (row g i) j := rfl

theorem symm_iff_metrics (g : Graph) : Symm g ↔ Coupe.Metrics.Symmetric (topoOf g) := Iff.rfl

/-- Lower-triangle form (what the code reads), no hypothesis. -/
theorem edgeCutTopo_lower (g : Graph) (p : List Nat) :
    Coupe.Metrics.edgeCutTopo (topoOf g) p =
      sumRange g.length fun i => sumRange i fun j =>
        if p.getD i 0 ≠ p.getD j 0 then weight g i j else 0 := by
  rw [Coupe.Metrics.edgeCutTopo_eq_lower, sumRange_eq_sumTo]
  apply Coupe.Metrics.sumTo_congr
  intro i _
  rw [sumRange_eq_sumTo]
  rfl

/-- C16's `edge_cut` (default method) on a symmetric graph is the reference edge cut. -/
theorem edgeCutTopo_eq_cutDef (g : Graph) (p : List Nat) (hs : Symm g) :
    Coupe.Metrics.edgeCutTopo (topoOf g) p = cutDef g p := by
  rw [edgeCutTopo_lower]
  unfold cutDef
  apply sumRange_congr
  intro i hi
  apply sumRange_congr
  intro j hj
  rw [hs i j hi (by omega)]
  by_cases h : p.getD i 0 = p.getD j 0
  · rw [if_neg (fun hn => hn h), if_neg (fun hn => hn h.symm)]
  · rw [if_pos h, if_pos (fun e => h e.symm)]

/-- Twice the reference cut = the sum over all ORDERED pairs in different parts – the right-hand
side of C16's `edgecut_def`. -/
theorem two_cutDef (g : Graph) (p : List Nat) (hs : Symm g) :
    2 * cutDef g p =
      sumTo g.length (fun i => sumTo g.length (fun j =>
        if part p i ≠ part p j then entry (row g i) j else 0)) := by
  rw [← edgeCutTopo_eq_cutDef g p hs]
  exact Coupe.Metrics.two_edgeCutTopo_eq (topoOf g) p hs

/-! ## the generic (filter) and the specialised (`take_while`) list forms -/

/-- `ArcSwap.cut` is C16's default method, row by row – no hypothesis. -/
theorem arcswap_cut_eq_topo (g : Graph) (p : List Nat) :
    Coupe.ArcSwap.cut g p = Coupe.Metrics.edgeCutTopo (topoOf g) p := by
  unfold Coupe.ArcSwap.cut Coupe.Metrics.edgeCutTopo
  rw [sum_zipIdx g (fun v r => Coupe.ArcSwap.rowCut p v r), sumRange_eq_sumTo]
  rfl

/-- `Kl.edgeCut` and `Fm.edgeCut` are the same function (the sprs specialisation). -/
theorem kl_edgeCut_eq_fm (g : Graph) (p : List Nat) :
    Coupe.Kl.edgeCut g p = Coupe.Fm.edgeCut g p := rfl

/-- `Kl.edgeCut` is C16's specialisation `edgeCutSprsRows` on the rows of `g`. -/
theorem kl_edgeCut_eq_sprsRows (g : Graph) (p : List Nat) :
    Coupe.Kl.edgeCut g p = Coupe.Metrics.edgeCutSprsRows g.length (row g) p := by
  unfold Coupe.Kl.edgeCut Coupe.Metrics.edgeCutSprsRows
  rw [sum_zipIdx g (fun v r => Coupe.Kl.rowCut p v r), sumRange_eq_sumTo]
  rfl

/-- On sorted rows the specialisation is the default method. -/
theorem kl_edgeCut_eq_topo (g : Graph) (p : List Nat) (hsort : SortedRows g) :
    Coupe.Kl.edgeCut g p = Coupe.Metrics.edgeCutTopo (topoOf g) p := by
  rw [kl_edgeCut_eq_sprsRows]
  exact Coupe.Metrics.edgeCutSprsRows_eq_topo (topoOf g) p hsort

/-! ## each model's hypotheses give `Symm` / `SortedRows` -/

theorem wtRow_eq_weight (g : Graph) (i j : Nat) :
    Coupe.Fm.wtRow (Coupe.Fm.rowOf g i) j = weight g i j := by
  unfold Coupe.Fm.wtRow weight
  rw [Coupe.ArcSwap.filter_map_sum]
  simp only [beq_iff_eq]
  rfl

theorem symm_of_fm_valid {g : Graph} (V : Coupe.Fm.Valid g) : Symm g := by
  intro i j hi hj
  rw [← wtRow_eq_weight, ← wtRow_eq_weight]
  exact V.sym i hi j hj

theorem sorted_of_fm_valid {g : Graph} (V : Coupe.Fm.Valid g) : SortedRows g :=
  fun v hv => (V.sorted v hv).imp (fun h => Nat.le_of_lt h)

/-- `w(i, j)` as a sum over ArcSwap's edge list. -/
theorem weight_eq_S (g : Graph) (i j : Nat) :
    weight g i j =
      Coupe.ArcSwap.S g (fun e => if e.1 = i then (if e.2.1 = j then e.2.2 else 0) else 0) := by
  have h := Coupe.ArcSwap.S_row g i (fun r => if r.1 = j then r.2 else 0)
  rw [h]
  unfold weight
  rw [Coupe.ArcSwap.filter_map_sum]
  simp only [beq_iff_eq]
  rfl

/-- ArcSwap's symmetry (the multiset of stored entries is closed under transposition) gives
`w(i, j) = w(j, i)` for ALL `i`, `j`. -/
theorem symm_of_arcswap_sym {g : Graph} (hs : Coupe.ArcSwap.Sym g) : Symm g := by
  intro i j _ _
  rw [weight_eq_S g i j, weight_eq_S g j i]
  rw [← Coupe.ArcSwap.S_swap hs
    (fun e => if e.1 = i then (if e.2.1 = j then e.2.2 else 0) else 0)]
  apply Coupe.ArcSwap.S_congr
  intro e _
  obtain ⟨a, b, w⟩ := e
  simp only [Coupe.ArcSwap.swapE]
  by_cases h1 : a = j <;> by_cases h2 : b = i <;> simp [h1, h2]

/-! ## the bridge lemmas -/

/-- C15: on a symmetric graph with sorted rows `Kl.edgeCut` is the reference edge cut. -/
theorem kl_edgeCut_eq_cutDef (g : Graph) (p : List Nat) (hsort : SortedRows g) (hs : Symm g) :
    Coupe.Kl.edgeCut g p = cutDef g p :=
  (kl_edgeCut_eq_topo g p hsort).trans (edgeCutTopo_eq_cutDef g p hs)

/-- C07: on a `Valid` graph `Fm.edgeCut` is the reference edge cut. -/
theorem fm_edgeCut_eq_cutDef (g : Graph) (p : List Nat) (V : Coupe.Fm.Valid g) :
    Coupe.Fm.edgeCut g p = cutDef g p :=
  kl_edgeCut_eq_cutDef g p (sorted_of_fm_valid V) (symm_of_fm_valid V)

/-- C05: on a symmetric graph `ArcSwap.cut` is the reference edge cut – factor ONE. -/
theorem arcswap_cut_eq_cutDef (g : Graph) (p : List Nat) (hs : Coupe.ArcSwap.Sym g) :
    Coupe.ArcSwap.cut g p = cutDef g p :=
  (arcswap_cut_eq_topo g p).trans (edgeCutTopo_eq_cutDef g p (symm_of_arcswap_sym hs))

/-! ## CSR views (C16's `Csr`) -/

theorem rowsOf_length (m : Coupe.Metrics.Csr) : (rowsOf m).length = m.n := by
  simp [rowsOf]

theorem row_rowsOf (m : Coupe.Metrics.Csr) (v : Nat) (hv : v < m.n) : row (rowsOf m) v = m.row v := by
  unfold row rowsOf
  rw [List.getD_eq_getElem?_getD, List.getElem?_map, List.getElem?_range hv]
  rfl

/-- The default method on the view = the default method on its rows. -/
theorem edgeCutTopo_rowsOf (m : Coupe.Metrics.Csr) (p : List Nat) :
    Coupe.Metrics.edgeCutTopo m.topo p = Coupe.Metrics.edgeCutTopo (topoOf (rowsOf m)) p := by
  unfold Coupe.Metrics.edgeCutTopo topoOf Coupe.Metrics.Csr.topo
  simp only [rowsOf_length]
  exact Coupe.Metrics.sumTo_congr (fun v hv => by rw [row_rowsOf m v hv])

/-- The rows of a valid CSR view are sorted (strictly, by sprs' structure check). -/
theorem sorted_of_csr_valid {m : Coupe.Metrics.Csr} (hv : m.Valid) : SortedRows (rowsOf m) := by
  intro v hv'
  rw [rowsOf_length] at hv'
  rw [row_rowsOf m v hv']
  exact (hv.2.2.2.2.1 v hv').imp (fun h => Nat.le_of_lt h)

/-! ## loads -/

/-- Entry `k` of the load table is the load of part `k`. -/
theorem loads_getD (ws : List Int) (ids : List Nat) {k n : Nat} (hk : k < n) :
    (Coupe.loads ws ids n).getD k 0 = Coupe.load ws ids k := by
  unfold Coupe.loads
  rw [List.getD_eq_getElem?_getD, List.getElem?_map, List.getElem?_range hk]
  rfl

/-- C07's cap (`Fm.capOf`) written with `Coupe.load`: the parameter when `max_imbalance` is
given, else the heavier input part. -/
def fmCap (capOpt : Option Int) (ws : List Int) (p : List Nat) : Int :=
  match capOpt with
  | some c => c
  | none => max (Coupe.load ws p 0) (Coupe.load ws p 1)

instance (g : Graph) : Decidable (Coupe.ArcSwap.Sym g) := by
  unfold Coupe.ArcSwap.Sym; infer_instance

end Coupe.Bridge
