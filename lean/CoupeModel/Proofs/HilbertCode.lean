import CoupeModel.Proofs.Hilbert

/-!
# Lemmas for C08, part 2: the `u64` code mirrors compute the table machines

`slow2U` (= `encode_2d_slow`), `lut`, `fast2Z` (= `encode_2d` after interleaving),
`enc3Loop` (= `encode_3d`) against `run m2` / `run m3` on digit lists.
-/

namespace Coupe.Hilbert
open Coupe.Gen.HilbertTables

theorem m2_R : m2.R = 4 := rfl
theorem m2_S : m2.S = 4 := rfl
theorem m2_base (c q : Nat) : m2.base c q = base2 c q := rfl
theorem m2_conf (c q : Nat) : m2.conf c q = conf2 c q := rfl

/-- The 2-D machine on the `i` low quadrant digits of `z`, as numbers (no word size). -/
def slowN (c i z : Nat) : Nat × Nat :=
  (ofDigits 4 (run m2 c (digits 4 i z)).1, (run m2 c (digits 4 i z)).2)

theorem slowN_succ (c i z : Nat) :
    slowN c (i + 1) z =
      (base2 c (z / 4 ^ i % 4) * 4 ^ i + (slowN (conf2 c (z / 4 ^ i % 4)) i z).1,
       (slowN (conf2 c (z / 4 ^ i % 4)) i z).2) := by
  simp [slowN, digits, run, ofDigits, run_length, digits_length, m2_base, m2_conf]

theorem slowN_lt {c : Nat} (hc : c < 4) (i z : Nat) : (slowN c i z).1 < 4 ^ i ∧ (slowN c i z).2 < 4 := by
  have h := run_spec m2_valid (digits 4 i z) c hc (digits_lt (by decide) i z)
  have hl := ofDigits_lt (R := 4) (run m2 c (digits 4 i z)).1 h.1
  rw [run_length, digits_length] at hl
  exact ⟨hl, h.2.1⟩

theorem quad_eq (z i : Nat) : (z >>> (2 * i)) &&& 3 = z / 4 ^ i % 4 := by
  rw [Nat.shiftRight_eq_div_pow, Nat.pow_mul]
  exact Nat.and_two_pow_sub_one_eq_mod _ 2

theorem shl_or {h b : Nat} (n : Nat) (hh : h * 2 ^ n < W64) (hb : b < 2 ^ n) :
    ((h <<< n) % W64) ||| b = h * 2 ^ n + b := by
  rw [Nat.shiftLeft_eq, Nat.mod_eq_of_lt hh, ← Nat.shiftLeft_eq,
    ← Nat.shiftLeft_add_eq_or_of_lt hb, Nat.shiftLeft_eq]

theorem slow2Loop_eq (z : Nat) : ∀ i h c, c < 4 → (h + 1) * 4 ^ i ≤ W64 →
    slow2Loop z i h c = (h * 4 ^ i + (slowN c i z).1, (slowN c i z).2)
  | 0, h, c, _, _ => by simp [slow2Loop, slowN, digits, run, ofDigits]
  | i + 1, h, c, hc, hh => by
    have hq : z / 4 ^ i % 4 < 4 := Nat.mod_lt _ (by decide)
    have hb : base2 c (z / 4 ^ i % 4) < 4 := m2_valid.base_lt c hc _ hq
    have hc' : conf2 c (z / 4 ^ i % 4) < 4 := m2_valid.conf_lt c hc _ hq
    have hpos : 0 < 4 ^ i := Nat.pow_pos (by decide)
    rw [Nat.pow_succ] at hh
    have h4 : h * 2 ^ 2 < W64 := by
      have : (h + 1) * 4 * 1 ≤ (h + 1) * 4 * 4 ^ i := Nat.mul_le_mul_left _ hpos
      have e : (h + 1) * (4 ^ i * 4) = (h + 1) * 4 * 4 ^ i := by ring
      omega
    have hnext : (h * 4 + base2 c (z / 4 ^ i % 4) + 1) * 4 ^ i ≤ W64 := by
      have : (h * 4 + base2 c (z / 4 ^ i % 4) + 1) * 4 ^ i ≤ ((h + 1) * 4) * 4 ^ i :=
        Nat.mul_le_mul_right _ (by omega)
      have e : (h + 1) * (4 ^ i * 4) = (h + 1) * 4 * 4 ^ i := by ring
      omega
    rw [slow2Loop, quad_eq, shl_or 2 h4 hb, show (2:Nat) ^ 2 = 4 from rfl,
      slow2Loop_eq z i _ _ hc' hnext, slowN_succ]
    simp only [Nat.pow_succ]
    congr 1
    ring

/-- `encode_2d_slow` computes the table machine (orders up to 32: no `u64` wrap). -/
theorem slow2U_eq {order c : Nat} (ho : order ≤ 32) (hc : c < 4) (z : Nat) :
    slow2U z order c = slowN c order z := by
  have h : (0 + 1) * 4 ^ order ≤ W64 := by
    have : 4 ^ order ≤ 4 ^ 32 := Nat.pow_le_pow_right (by decide) ho
    simpa [W64] using this
  rw [slow2U, slow2Loop_eq z order 0 c hc h]
  simp

/-! ## `encode_2d`: 6 quadrants per table lookup -/

theorem digits_split (R : Nat) : ∀ a b z, digits R (a + b) z = digits R a (z / R ^ b) ++ digits R b z
  | 0, b, z => by simp [digits]
  | a + 1, b, z => by
    rw [show a + 1 + b = (a + b) + 1 by omega, digits, digits_split R a b z, digits,
      Nat.div_div_eq_div_mul, ← Nat.pow_add, Nat.add_comm b a]
    rfl

theorem slowN_append (c a b z : Nat) :
    slowN c (a + b) z =
      ((slowN c a (z / 4 ^ b)).1 * 4 ^ b + (slowN (slowN c a (z / 4 ^ b)).2 b z).1,
       (slowN (slowN c a (z / 4 ^ b)).2 b z).2) := by
  simp [slowN, digits_split, run_append, ofDigits_append, run_length, digits_length]

theorem slowN_mod (c i z : Nat) : slowN c i (z % 4 ^ i) = slowN c i z := by
  simp [slowN, digits_mod i i z (Nat.le_refl _)]

theorem and_fff (x : Nat) : x &&& 4095 = x % 4096 := Nat.and_two_pow_sub_one_eq_mod x 12

theorem hi_mask_aux : ∀ a, a < 128 → ∀ b, b < 128 →
    (a * 128 + b) &&& 61440 = (a * 128 + b) / 4096 * 4096 := by decide +kernel

theorem hi_mask (x : Nat) (h : x < 16384) : x &&& 61440 = x / 4096 * 4096 := by
  have := hi_mask_aux (x / 128) (by omega) (x % 128) (Nat.mod_lt _ (by decide))
  rwa [Nat.div_add_mod' x 128] at this

theorem or_lo {c w : Nat} (hw : w < 4096) : (c * 4096) ||| w = c * 4096 + w := by
  have := Nat.shiftLeft_add_eq_or_of_lt (i := 12) hw c
  rw [Nat.shiftLeft_eq] at this
  exact this.symm

/-- The lookup table entry: 6 steps of the machine, packed `state << 12 | digits`. -/
theorem lut_spec {c w : Nat} (hc : c < 4) (hw : w < 4096) :
    lut (c * 4096 + w) = (slowN c 6 w).2 * 4096 + (slowN c 6 w).1 := by
  have hl := slowN_lt hc 6 w
  have h1 : (c * 4096 + w) % 4096 = w := by omega
  have h2 : (c * 4096 + w) / 4096 = c := by omega
  simp only [lut, LUT2_MASK, LUT2_BITS, LUT2_ORDER]
  rw [show (0xfff : Nat) = 4095 from rfl, and_fff, Nat.shiftRight_eq_div_pow, show (2:Nat) ^ 12 = 4096 from rfl,
    h1, h2, slow2U_eq (by decide) hc, Nat.shiftLeft_eq, show (2:Nat) ^ 12 = 4096 from rfl,
    Nat.mod_eq_of_lt (by omega : (slowN c 6 w).2 * 4096 < 65536),
    Nat.mod_eq_of_lt (by omega : (slowN c 6 w).1 < 65536)]
  exact or_lo (by simpa using hl.1)

/-- Loop invariant of `encode_2d` after `j` lookups at order `k`: `hilbert` holds the
index of the `6j` leading quadrants, the top bits of `config` the machine state. -/
def Inv2 (z k j config hil : Nat) : Prop :=
  ∃ lo, lo < 4096 ∧ config = (slowN 0 (6 * j) (z / 4 ^ (k - 6 * j))).2 * 4096 + lo ∧
    hil = (slowN 0 (6 * j) (z / 4 ^ (k - 6 * j))).1

theorem pow4_le {a : Nat} (h : a ≤ 32) : 4 ^ a ≤ W64 := by
  have : 4 ^ a ≤ 4 ^ 32 := Nat.pow_le_pow_right (by decide) h
  simpa [W64] using this

/-- One lookup with state `cs`, junk low bits `lo`, on the 12 bits `w`. -/
theorem lookup_eq {cs lo w : Nat} (hcs : cs < 4) (hlo : lo < 4096) (hw : w < 4096) :
    lut (((cs * 4096 + lo) &&& (65535 - LUT2_MASK)) ||| w) = (slowN cs 6 w).2 * 4096 + (slowN cs 6 w).1 := by
  rw [show 65535 - LUT2_MASK = 61440 from rfl, hi_mask _ (by omega),
    show (cs * 4096 + lo) / 4096 = cs by omega, or_lo hw, lut_spec hcs hw]

theorem fast2Loop_inv (z k : Nat) (hk : k ≤ 32) : ∀ fuel j config hil,
    Inv2 z k j config hil → 6 * j ≤ k → k ≤ fuel + j →
    ∃ (n : Nat) (cfg hl : Nat), fast2Loop z fuel (2 * (k : Int) - 12 - 12 * (j : Int)) config hil =
        (2 * (k : Int) - 12 - 12 * (n : Int), cfg, hl) ∧ Inv2 z k n cfg hl ∧ 6 * n ≤ k ∧ k ≤ 6 * n + 6
  | 0, j, config, hil, hinv, hj, hf => ⟨j, config, hil, by simp [fast2Loop], hinv, hj, by omega⟩
  | fuel + 1, j, config, hil, hinv, hj, hf => by
    rw [fast2Loop]
    by_cases hs : 2 * (k : Int) - 12 - 12 * j > 0
    · rw [if_pos hs]
      dsimp only
      have hjk : 6 * j + 6 < k := by omega
      obtain ⟨lo, hlo, hcfg, hhil⟩ := hinv
      obtain ⟨t, ht⟩ : ∃ t, k = 6 * j + 6 + t := ⟨k - (6 * j + 6), by omega⟩
      have hst : (2 * (k : Int) - 12 - 12 * j).toNat = 2 * t := by omega
      have hprev := slowN_lt (by decide : 0 < 4) (6 * j) (z / 4 ^ (k - 6 * j))
      have hw : z / 4 ^ t % 4096 < 4096 := Nat.mod_lt _ (by decide)
      have hnew := slowN_lt hprev.2 6 (z / 4 ^ t % 4096)
      have hkj : k - 6 * j = t + 6 := by omega
      have hkj1 : k - 6 * (j + 1) = t := by omega
      -- the new state
      have hcfg' : lut ((config &&& (65535 - LUT2_MASK)) ||| ((z >>> (2 * (k : Int) - 12 - 12 * j).toNat) &&& LUT2_MASK))
          = (slowN (slowN 0 (6 * j) (z / 4 ^ (k - 6 * j))).2 6 (z / 4 ^ t)).2 * 4096
            + (slowN (slowN 0 (6 * j) (z / 4 ^ (k - 6 * j))).2 6 (z / 4 ^ t)).1 := by
        rw [hst, Nat.shiftRight_eq_div_pow, Nat.pow_mul, show (2:Nat) ^ 2 = 4 from rfl,
          show LUT2_MASK = 4095 from rfl, and_fff, hcfg]
        rw [show (4095 : Nat) = LUT2_MASK from rfl, lookup_eq hprev.2 hlo hw,
          show (4096 : Nat) = 4 ^ 6 from rfl, slowN_mod]
      have happ : slowN 0 (6 * (j + 1)) (z / 4 ^ (k - 6 * (j + 1))) =
          (hil * 4096 + (slowN (slowN 0 (6 * j) (z / 4 ^ (k - 6 * j))).2 6 (z / 4 ^ t)).1,
           (slowN (slowN 0 (6 * j) (z / 4 ^ (k - 6 * j))).2 6 (z / 4 ^ t)).2) := by
        rw [show 6 * (j + 1) = 6 * j + 6 by omega, slowN_append, show k - (6 * j + 6) = t by omega,
          Nat.div_div_eq_div_mul, ← Nat.pow_add, ← hkj, ← hhil]
        rfl
      have hnew' := slowN_lt hprev.2 6 (z / 4 ^ t)
      have hhl : hil * 2 ^ 12 < W64 := by
        have h1 : hil < 4 ^ (6 * j) := hhil ▸ hprev.1
        have h2 : 4 ^ (6 * j) * 2 ^ 12 = 4 ^ (6 * j + 6) := by
          rw [Nat.pow_add, show (4:Nat) ^ 6 = 2 ^ 12 by decide]
        have h3 := pow4_le (by omega : 6 * j + 6 ≤ 32)
        have h4 : hil * 2 ^ 12 < 4 ^ (6 * j) * 2 ^ 12 := Nat.mul_lt_mul_of_pos_right h1 (by decide)
        omega
      have hrec := fast2Loop_inv z k hk fuel (j + 1)
        ((slowN (slowN 0 (6 * j) (z / 4 ^ (k - 6 * j))).2 6 (z / 4 ^ t)).2 * 4096
            + (slowN (slowN 0 (6 * j) (z / 4 ^ (k - 6 * j))).2 6 (z / 4 ^ t)).1)
        (hil * 4096 + (slowN (slowN 0 (6 * j) (z / 4 ^ (k - 6 * j))).2 6 (z / 4 ^ t)).1)
        ⟨_, by simpa using hnew'.1, by rw [happ], by rw [happ]⟩ (by omega) (by omega)
      rw [hcfg', show LUT2_BITS = 12 from rfl, show LUT2_MASK = 4095 from rfl, and_fff]
      rw [show ((slowN (slowN 0 (6 * j) (z / 4 ^ (k - 6 * j))).2 6 (z / 4 ^ t)).2 * 4096
            + (slowN (slowN 0 (6 * j) (z / 4 ^ (k - 6 * j))).2 6 (z / 4 ^ t)).1) % 4096
          = (slowN (slowN 0 (6 * j) (z / 4 ^ (k - 6 * j))).2 6 (z / 4 ^ t)).1 by
            have := hnew'.1
            simp at this
            omega,
        shl_or 12 hhl (by simpa using hnew'.1)]
      have e : 2 * (k : Int) - 12 - 12 * j - ((12 : Nat) : Int) = 2 * (k : Int) - 12 - 12 * ((j + 1 : Nat) : Int) := by
        push_cast; ring
      rw [e]
      exact hrec
    · rw [if_neg hs]
      exact ⟨j, config, hil, rfl, hinv, hj, by omega⟩

theorem inv2_init (z k : Nat) : Inv2 z k 0 0 0 :=
  ⟨0, by decide, by simp [slowN, digits, run], by simp [slowN, digits, run, ofDigits]⟩

/-- `encode_2d` (after interleaving) computes the table machine at every order ≤ 32:
whole 6-quadrant groups in the loop, then the last `m = k - 6n` quadrants padded with
zero quadrants, whose output is shifted away. -/
theorem fast2Z_eq {k : Nat} (hk : k ≤ 32) (z : Nat) : fast2Z z k = (slowN 0 k z).1 := by
  obtain ⟨n, cfg, hl, hloop, ⟨lo, hlo, hcfg, hhil⟩, hn, hn'⟩ :=
    fast2Loop_inv z k hk k 0 0 0 (inv2_init z k) (by omega) (by omega)
  obtain ⟨m, rfl⟩ : ∃ m, k = 6 * n + m := ⟨k - 6 * n, by omega⟩
  have hm : m ≤ 6 := by omega
  obtain ⟨e, he⟩ : ∃ e, 6 = m + e := ⟨6 - m, by omega⟩
  have hkm : 6 * n + m - 6 * n = m := by omega
  rw [hkm] at hcfg hhil
  have hprev := slowN_lt (by decide : 0 < 4) (6 * n) (z / 4 ^ m)
  simp only [fast2Z, show LUT2_BITS = 12 from rfl, show ((12 : Nat) : Int) = 12 from rfl]
  simp only [Int.natCast_zero, Int.mul_zero, Int.sub_zero] at hloop
  rw [hloop]
  dsimp only
  have hs1 : (-(2 * ((6 * n + m : Nat) : Int) - 12 - 12 * (n : Int))).toNat = 2 * e := by omega
  have hs2 : ((12 : Int) + (2 * ((6 * n + m : Nat) : Int) - 12 - 12 * (n : Int))).toNat = 2 * m := by omega
  rw [hs1, hs2]
  -- the padded last group
  have hW : ((z <<< (2 * e)) % W64) &&& LUT2_MASK = (z % 4 ^ m) * 4 ^ e := by
    rw [show LUT2_MASK = 4095 from rfl, and_fff, Nat.shiftLeft_eq, Nat.pow_mul, show (2:Nat) ^ 2 = 4 from rfl,
      Nat.mod_mod_of_dvd _ (by decide : 4096 ∣ W64), show (4096 : Nat) = 4 ^ 6 from rfl, he, Nat.pow_add,
      Nat.mul_mod_mul_right]
  have hWlt : (z % 4 ^ m) * 4 ^ e < 4096 := by
    have h1 : z % 4 ^ m < 4 ^ m := Nat.mod_lt _ (Nat.pow_pos (by decide))
    have h2 : (z % 4 ^ m) * 4 ^ e < 4 ^ m * 4 ^ e := Nat.mul_lt_mul_of_pos_right h1 (Nat.pow_pos (by decide))
    rw [← Nat.pow_add, ← he] at h2
    exact h2
  have hpe : 0 < 4 ^ e := Nat.pow_pos (by decide)
  have hgrp : slowN (slowN 0 (6 * n) (z / 4 ^ m)).2 6 ((z % 4 ^ m) * 4 ^ e) =
      ((slowN (slowN 0 (6 * n) (z / 4 ^ m)).2 m z).1 * 4 ^ e
          + (slowN (slowN (slowN 0 (6 * n) (z / 4 ^ m)).2 m z).2 e ((z % 4 ^ m) * 4 ^ e)).1,
        (slowN (slowN (slowN 0 (6 * n) (z / 4 ^ m)).2 m z).2 e ((z % 4 ^ m) * 4 ^ e)).2) := by
    rw [he, slowN_append, Nat.mul_div_cancel _ hpe, slowN_mod]
  have hlast := slowN_lt hprev.2 m z
  have hpad := slowN_lt hlast.2 e ((z % 4 ^ m) * 4 ^ e)
  rw [hW, hcfg, lookup_eq hprev.2 hlo hWlt, show LUT2_MASK = 4095 from rfl, and_fff, hgrp]
  dsimp only
  have hlow : ((slowN (slowN (slowN 0 (6 * n) (z / 4 ^ m)).2 m z).2 e ((z % 4 ^ m) * 4 ^ e)).2 * 4096
        + ((slowN (slowN 0 (6 * n) (z / 4 ^ m)).2 m z).1 * 4 ^ e
          + (slowN (slowN (slowN 0 (6 * n) (z / 4 ^ m)).2 m z).2 e ((z % 4 ^ m) * 4 ^ e)).1)) % 4096
      = (slowN (slowN 0 (6 * n) (z / 4 ^ m)).2 m z).1 * 4 ^ e
          + (slowN (slowN (slowN 0 (6 * n) (z / 4 ^ m)).2 m z).2 e ((z % 4 ^ m) * 4 ^ e)).1 := by
    have h1 : (slowN (slowN 0 (6 * n) (z / 4 ^ m)).2 m z).1 * 4 ^ e + 4 ^ e ≤ 4 ^ m * 4 ^ e := by
      have := Nat.mul_le_mul_right (4 ^ e) (Nat.succ_le_of_lt hlast.1)
      rwa [Nat.succ_mul] at this
    rw [← Nat.pow_add, ← he] at h1
    have h2 := hpad.1
    rw [Nat.add_comm, Nat.add_mul_mod_self_right]
    exact Nat.mod_eq_of_lt (by simp at h1; omega)
  rw [hlow, Nat.shiftRight_eq_div_pow, Nat.pow_mul, show (2:Nat) ^ 2 = 4 from rfl,
    Nat.add_comm (_ * 4 ^ e), Nat.add_mul_div_right _ _ hpe, Nat.div_eq_of_lt hpad.1, Nat.zero_add]
  -- append the significant quadrants of the last group
  have hhl : hl * 2 ^ (2 * m) < W64 := by
    have h1 : hl < 4 ^ (6 * n) := hhil ▸ hprev.1
    have h2 : hl * 4 ^ m < 4 ^ (6 * n) * 4 ^ m := Nat.mul_lt_mul_of_pos_right h1 (Nat.pow_pos (by decide))
    rw [← Nat.pow_add] at h2
    have h3 := pow4_le hk
    rw [Nat.pow_mul, show (2:Nat) ^ 2 = 4 from rfl]
    omega
  rw [shl_or (2 * m) hhl (by rw [Nat.pow_mul]; exact hlast.1), slowN_append, Nat.pow_mul, ← hhil]

/-- `encode_2d` on interleaved bits = `encode_2d_slow` from state 0, orders ≤ 32. -/
theorem fast2Z_eq_slow2U {k : Nat} (hk : k ≤ 32) (z : Nat) : fast2Z z k = (slow2U z k 0).1 := by
  rw [fast2Z_eq hk, slow2U_eq hk (by decide)]

/-! ## `encode_3d` -/

theorem m3_base (c q : Nat) : m3.base c q = base3 c q := rfl
theorem m3_conf (c q : Nat) : m3.conf c q = conf3 c q := rfl

/-- The 3-D machine on the `i` low octant digits of `z`, as numbers (no word size). -/
def slowN3 (c i z : Nat) : Nat × Nat :=
  (ofDigits 8 (run m3 c (digits 8 i z)).1, (run m3 c (digits 8 i z)).2)

theorem slowN3_succ (c i z : Nat) :
    slowN3 c (i + 1) z =
      (base3 c (z / 8 ^ i % 8) * 8 ^ i + (slowN3 (conf3 c (z / 8 ^ i % 8)) i z).1,
       (slowN3 (conf3 c (z / 8 ^ i % 8)) i z).2) := by
  simp [slowN3, digits, run, ofDigits, run_length, digits_length, m3_base, m3_conf]

theorem oct_eq (z i : Nat) : (z >>> (3 * i)) &&& 7 = z / 8 ^ i % 8 := by
  rw [Nat.shiftRight_eq_div_pow, Nat.pow_mul]
  exact Nat.and_two_pow_sub_one_eq_mod _ 3

theorem lut3_lt : ∀ i, i < 96 → LUT3.getD i 0 < 128 := by decide

theorem clear7 : ∀ v, v < 128 → v &&& (W64 - 8) = 8 * (v / 8) := by decide

theorem or_oct {c q : Nat} (hq : q < 8) : (8 * c) ||| q = 8 * c + q := by
  have := Nat.shiftLeft_add_eq_or_of_lt (i := 3) hq c
  rw [Nat.shiftLeft_eq, show (2:Nat) ^ 3 = 8 from rfl, Nat.mul_comm] at this
  exact this.symm

theorem enc3Loop_eq (z : Nat) : ∀ i h c, c < 12 → (h + 1) * 8 ^ i ≤ W64 →
    enc3Loop z i (8 * c) h = h * 8 ^ i + (slowN3 c i z).1
  | 0, h, c, _, _ => by simp [enc3Loop, slowN3, digits, run, ofDigits]
  | i + 1, h, c, hc, hh => by
    have hq : z / 8 ^ i % 8 < 8 := Nat.mod_lt _ (by decide)
    have hb : base3 c (z / 8 ^ i % 8) < 8 := m3_valid.base_lt c hc _ hq
    have hc' : conf3 c (z / 8 ^ i % 8) < 12 := m3_valid.conf_lt c hc _ hq
    have hpos : 0 < 8 ^ i := Nat.pow_pos (by decide)
    have hv : LUT3.getD (8 * c + z / 8 ^ i % 8) 0 < 128 := lut3_lt _ (by omega)
    rw [Nat.pow_succ] at hh
    have h8 : h * 2 ^ 3 < W64 := by
      have : (h + 1) * 8 * 1 ≤ (h + 1) * 8 * 8 ^ i := Nat.mul_le_mul_left _ hpos
      have e : (h + 1) * (8 ^ i * 8) = (h + 1) * 8 * 8 ^ i := by ring
      omega
    have hnext : (h * 8 + base3 c (z / 8 ^ i % 8) + 1) * 8 ^ i ≤ W64 := by
      have : (h * 8 + base3 c (z / 8 ^ i % 8) + 1) * 8 ^ i ≤ ((h + 1) * 8) * 8 ^ i :=
        Nat.mul_le_mul_right _ (by omega)
      have e : (h + 1) * (8 ^ i * 8) = (h + 1) * 8 * 8 ^ i := by ring
      omega
    rw [enc3Loop, oct_eq, or_oct hq]
    rw [clear7 _ hv, show (7 : Nat) = 2 ^ 3 - 1 from rfl, Nat.and_two_pow_sub_one_eq_mod,
      show (2:Nat) ^ 3 = 8 from rfl]
    show enc3Loop z i (8 * conf3 c (z / 8 ^ i % 8)) (((h <<< 3) % W64) ||| base3 c (z / 8 ^ i % 8)) = _
    rw [shl_or 3 h8 hb, show (2:Nat) ^ 3 = 8 from rfl, enc3Loop_eq z i _ _ hc' hnext, slowN3_succ]
    simp only [Nat.pow_succ]
    ring

/-- `encode_3d`'s loop computes the 3-D table machine (orders up to 21: no `u64` wrap). -/
theorem enc3Loop_spec {order : Nat} (ho : order ≤ 21) (z : Nat) :
    enc3Loop z order 0 0 = (slowN3 0 order z).1 := by
  have h : (0 + 1) * 8 ^ order ≤ W64 := by
    have : 8 ^ order ≤ 8 ^ 21 := Nat.pow_le_pow_right (by decide) ho
    have : (8 : Nat) ^ 21 ≤ W64 := by decide
    omega
  have := enc3Loop_eq z order 0 0 (by decide) h
  simpa using this

end Coupe.Hilbert
