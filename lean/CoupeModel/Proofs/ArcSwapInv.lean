import CoupeModel.Proofs.ArcSwapLock

/-!
# ArcSwap model, part 3: reachable states and the structural invariant

`Reach c p₀ s`: `s` is reachable from the initial partition `p₀` by any interleaving of
task steps and by the pass transitions.  `Inv1`: ids valid, every local state
well-formed, the lock-protocol invariant.  Consequences: `excl`, `nbr_stable`.
-/

namespace Coupe.ArcSwap

structure CfgOk (c : Cfg) (p₀ : List Nat) : Prop where
  glen : c.g.length = p₀.length
  parts : ∀ p ∈ p₀, p < c.partCount
  pc2 : 2 ≤ c.partCount
  inRange : InRange c.g
  sym : SymAdj c.g

/-- Reachable states: any interleaving of task steps; a pass ends when every task is done
and the next one starts if the pass had a non-zero gain. -/
inductive Reach (c : Cfg) (p₀ : List Nat) : State → Prop
  | init : Reach c p₀ (beginPass c (initState c p₀))
  | step {s s' : State} {tid : Nat} {ev : Event} : Reach c p₀ s → step c s tid = some (s', ev) → Reach c p₀ s'
  | pass {s : State} : Reach c p₀ s → allDone s = true → (endPass c s).2 = true →
      Reach c p₀ (beginPass c (endPass c s).1)

theorem step_spec {c : Cfg} {s s' : State} {tid : Nat} {ev : Event} (h : step c s tid = some (s', ev)) :
    ∃ t t', s.tasks[tid]? = some t ∧ stepTask c s.parts s.locks s.tmax t = some (t', ev) ∧
      s' = { s with parts := ev.applyParts s.parts, locks := ev.applyLocks s.locks,
                    tasks := s.tasks.set tid t' } := by
  unfold step at h
  split at h
  · simp at h
  · next t ht =>
    split at h
    · simp at h
    · next t' ev' hst =>
      simp only [Option.some.injEq, Prod.mk.injEq] at h
      obtain ⟨rfl, rfl⟩ := h
      exact ⟨t, t', ht, hst, rfl⟩

theorem tasks_set_get {l : List Task} {tid : Nat} {t : Task} (t' : Task) (h : l[tid]? = some t) (i : Nat) :
    (l.set tid t')[i]? = if i = tid then some t' else l[i]? := by
  have hlt : tid < l.length := by
    rcases Nat.lt_or_ge tid l.length with h1 | h1
    · exact h1
    · rw [List.getElem?_eq_none h1] at h; cases h
  rw [List.getElem?_set]
  by_cases hi : i = tid
  · subst hi; simp [hlt]
  · have : tid ≠ i := fun h => hi h.symm
    simp [hi, this]

def lsOf (s : State) (i : Nat) : Option LS := (s.tasks[i]?).map (fun t => t.pc.ls)

/-- Task `i` holds `v` validated: CAS succeeded, every neighbour lock was read as free,
the lock is not yet released. -/
def validatedHolder (s : State) (i v : Nat) : Prop := ∃ t, s.tasks[i]? = some t ∧ t.pc.ls = .valid v

structure Inv1 (c : Cfg) (s : State) : Prop where
  plen : s.parts.length = c.g.length
  pval : ∀ p ∈ s.parts, p < c.partCount
  tok : ∀ (i : Nat) (t : Task), s.tasks[i]? = some t → TaskOk c c.g.length t
  lock : LockInv c.g s.locks (lsOf s)

/-- The only event that writes the partition comes from `Pc.store`. -/
theorem stepTask_store {c : Cfg} {parts : List Nat} {locks : List Bool} {tmax : List Int} {t t' : Task}
    {v p : Nat} (hs : stepTask c parts locks tmax t = some (t', .partStore v p)) :
    ∃ ip gain, t.pc = .store v ip p gain ∧
      t' = { t with
            md := { t.md with moveCount := t.md.moveCount + 1, edgeCutGain := t.md.edgeCutGain + gain }
            pw := addAt (addAt t.pw ip (-(c.w.getD v 0))) p (c.w.getD v 0)
            pc := .unlock v .moved } := by
  unfold stepTask at hs
  split at hs
  case h_8 v' ip tgt gain hpc =>
    simp only [Option.some.injEq, Prod.mk.injEq, Event.partStore.injEq] at hs
    obtain ⟨rfl, rfl, rfl⟩ := hs
    exact ⟨ip, gain, hpc, rfl⟩
  all_goals (first | (split_ifs at hs <;> simp at hs) | simp at hs)

theorem mkTasks_get {c : Cfg} {n : Nat} {pw : List Int} {i : Nat} {t : Task}
    (h : (mkTasks c n pw)[i]? = some t) :
    t = { lo := i * c.ipt, hi := min n ((i + 1) * c.ipt), scan := i * c.ipt, pw := pw } := by
  unfold mkTasks at h
  rw [List.getElem?_map] at h
  rcases Nat.lt_or_ge i c.threadCount with h1 | h1
  · rw [List.getElem?_range h1] at h
    simp only [Option.map_some, Option.some.injEq] at h
    exact h.symm
  · rw [List.getElem?_eq_none (by simpa using h1)] at h
    simp at h

theorem allDone_spec {s : State} (h : allDone s = true) {i : Nat} {t : Task} (ht : s.tasks[i]? = some t) :
    t.pc = .done := by
  unfold allDone at h
  rw [List.all_eq_true] at h
  have := h t (List.mem_of_getElem? ht)
  simpa using this

/-- Lock invariant at the start of a pass: nobody holds anything, all locks are free. -/
theorem lockInv_fresh {c : Cfg} {locks : List Bool} {L : Nat → Option LS} (hlen : locks.length = c.g.length)
    (hfree : ∀ v, locks.getD v false = false) (hL : ∀ i l, L i = some l → l = .free) :
    LockInv c.g locks L := by
  refine ⟨hlen, ?_, ?_, ?_, ?_⟩
  · intro i l hi; rw [hL i l hi]; trivial
  · intro v; rw [hfree v]
    simp only [Bool.false_eq_true, false_iff, not_exists, not_and]
    intro i l hi hh; rw [hL i l hi] at hh; cases hh
  · intro i j li lj v hi _ hh; rw [hL i li hi] at hh; cases hh
  · intro i j li lj v u _ hi _ hh; rw [hL i li hi] at hh; cases hh

theorem inv1_beginPass {c : Cfg} {s : State} (hplen : s.parts.length = c.g.length)
    (hpval : ∀ p ∈ s.parts, p < c.partCount) (hlen : s.locks.length = c.g.length)
    (hfree : ∀ v, s.locks.getD v false = false) : Inv1 c (beginPass c s) := by
  refine ⟨hplen, hpval, ?_, ?_⟩
  · intro i t ht
    have := mkTasks_get ht
    subst this
    exact ⟨⟨by simp, by simp only; rw [hplen]; exact Nat.min_le_left _ _⟩, trivial⟩
  · refine lockInv_fresh hlen hfree ?_
    intro i l hi
    unfold lsOf at hi
    simp only [beginPass, Option.map_eq_some_iff] at hi
    obtain ⟨t, ht, rfl⟩ := hi
    have := mkTasks_get ht
    subst this
    rfl

theorem inv1_reach {c : Cfg} {p₀ : List Nat} (hc : CfgOk c p₀) {s : State} (h : Reach c p₀ s) : Inv1 c s := by
  induction h with
  | init =>
    refine inv1_beginPass hc.glen.symm hc.parts (by simp [initState, hc.glen]) ?_
    intro v
    simp only [initState, List.getD_eq_getElem?_getD, List.getElem?_map]
    cases p₀[v]? <;> rfl
  | @step s s' tid ev _ hstep ih =>
    obtain ⟨t, t', ht, hst, rfl⟩ := step_spec hstep
    have htok := ih.tok tid t ht
    refine ⟨?_, ?_, ?_, ?_⟩
    · cases ev <;> simp [Event.applyParts, ih.plen]
    · intro p hp
      cases ev with
      | partStore v q =>
        obtain ⟨ip, gain, hpc, -⟩ := stepTask_store hst
        have := htok.pc
        rw [hpc] at this
        simp only [Event.applyParts] at hp
        rcases List.mem_or_eq_of_mem_set hp with hp | rfl
        · exact ih.pval p hp
        · exact this.2.1
      | _ => exact ih.pval p hp
    · intro i ti hi
      simp only at hi
      rw [tasks_set_get t' ht] at hi
      split_ifs at hi with h1
      · cases hi; exact stepTask_ok hc.inRange htok hst
      · exact ih.tok i ti hi
    · have hl : lsOf s tid = some t.pc.ls := by simp [lsOf, ht]
      refine lockInv_step hc.sym ih.lock hl (stepTask_LStep hc.pc2 htok.pc hst).1 ?_
      intro i
      simp only [lsOf]
      rw [tasks_set_get t' ht]
      split_ifs <;> rfl
  | @pass s _ hdone _ ih =>
    refine inv1_beginPass ih.plen ih.pval ih.lock.len ?_
    intro v
    simp only [endPass]
    cases hv : s.locks.getD v false with
    | false => rfl
    | true =>
      exfalso
      obtain ⟨i, l, hi, hh⟩ := (ih.lock.held v).1 hv
      unfold lsOf at hi
      simp only [Option.map_eq_some_iff] at hi
      obtain ⟨t, ht, rfl⟩ := hi
      rw [allDone_spec hdone ht] at hh
      cases hh

/-- `excl`: two adjacent vertices are never both validated-held. -/
theorem excl_reach {c : Cfg} {p₀ : List Nat} (hc : CfgOk c p₀) {s : State} (h : Reach c p₀ s)
    {i j v u : Nat} (hij : i ≠ j) (hi : validatedHolder s i v) (hj : validatedHolder s j u) :
    ¬ Adj c.g v u := by
  obtain ⟨ti, hti, hli⟩ := hi
  obtain ⟨tj, htj, hlj⟩ := hj
  refine (inv1_reach hc h).lock.excl hij (v := v) (u := u) ?_ ?_
  · simp [lsOf, hti, hli]
  · simp [lsOf, htj, hlj]

/-- `nbr_stable`: while task `i` holds `v` validated, a step of another task changes
neither the part of `v` nor the part of any neighbour of `v`. -/
theorem nbr_stable_reach {c : Cfg} {p₀ : List Nat} (hc : CfgOk c p₀) {s s' : State} (h : Reach c p₀ s)
    {tid : Nat} {ev : Event} (hstep : step c s tid = some (s', ev))
    {i v : Nat} (hi : validatedHolder s i v) (hne : i ≠ tid) :
    s'.parts.getD v 0 = s.parts.getD v 0 ∧ ∀ u, Adj c.g v u → s'.parts.getD u 0 = s.parts.getD u 0 := by
  obtain ⟨t, t', ht, hst, rfl⟩ := step_spec hstep
  have hinv := inv1_reach hc h
  cases ev with
  | partStore x q =>
    have hval : t.pc.ls = .valid x := (stepTask_LStep hc.pc2 (hinv.tok tid t ht).pc hst).2 x q rfl
    obtain ⟨ti, hti, hli⟩ := hi
    simp only [Event.applyParts]
    constructor
    · refine getD_set_ne _ _ _ _ _ ?_
      intro hx
      subst hx
      exact hne (hinv.lock.uniq i tid (.valid x) (.valid x) x (by simp [lsOf, hti, hli])
        (by simp [lsOf, ht, hval]) rfl rfl)
    · intro u hadj
      refine getD_set_ne _ _ _ _ _ ?_
      intro hx
      subst hx
      exact excl_reach hc h hne ⟨ti, hti, hli⟩ ⟨t, ht, hval⟩ hadj
  | _ => exact ⟨rfl, fun _ _ => rfl⟩

end Coupe.ArcSwap
