import CoupeModel.Model.Ffi

/-! Lemmas for `Props/C17.lean` (core tactics only). -/

namespace Coupe.Ffi
open Coupe.Gen.Ffi

/-! ### Facts read off the generated tables -/

theorem errMap_eq (e : CErr) : errMap e = some (documented e) := by
  cases e <;> decide

theorem crash_eq : crash = .Crash := by decide

theorem hilbertCode_eq : hilbertCode = .NotFound := by decide

/-- The code of `finish`, in closed form. -/
def finishCode : Algo → Err
  | .ok _ => .Ok
  | .err e _ => documented e
  | .hilbertErr _ => .NotFound
  | .panic => .Crash

theorem finish_eq (algo : Algo) :
    finish algo = match algo with
      | .ok ids => ⟨.Ok, some ids⟩
      | .err e ids => ⟨documented e, some ids⟩
      | .hilbertErr ids => ⟨.NotFound, some ids⟩
      | .panic => ⟨.Crash, none⟩ := by
  cases algo with
  | ok ids => rfl
  | err e ids => simp only [finish, errMap_eq]
  | hilbertErr ids => simp only [finish, hilbertCode_eq]
  | panic => simp only [finish, crash_eq]

theorem finish_code (algo : Algo) : (finish algo).code = finishCode algo := by
  rw [finish_eq]; cases algo <;> rfl

theorem documented_ne_badDimension (e : CErr) : documented e ≠ .BadDimension := by
  cases e <;> decide
theorem documented_ne_badType (e : CErr) : documented e ≠ .BadType := by
  cases e <;> decide
theorem documented_ne_crash (e : CErr) : documented e ≠ .Crash := by
  cases e <;> decide
theorem documented_ne_ok (e : CErr) : documented e ≠ .Ok := by
  cases e <;> decide

theorem finishCode_ne_badDimension (algo : Algo) : finishCode algo ≠ .BadDimension := by
  cases algo <;> simp [finishCode, documented_ne_badDimension]
theorem finishCode_ne_badType (algo : Algo) : finishCode algo ≠ .BadType := by
  cases algo <;> simp [finishCode, documented_ne_badType]

theorem finishCode_crash_iff (algo : Algo) : finishCode algo = .Crash ↔ algo = .panic := by
  cases algo <;> simp [finishCode, documented_ne_crash]

theorem finishCode_lenMismatch_iff (algo : Algo) :
    finishCode algo = .LenMismatch ↔ ∃ ids, algo = .err .InputLenMismatch ids := by
  cases algo with
  | ok ids => simp [finishCode]
  | err e ids => cases e <;> simp [finishCode, documented]
  | hilbertErr ids => simp [finishCode]
  | panic => simp [finishCode]

theorem finish_ok_iff (algo : Algo) (ids : List Nat) :
    finish algo = ⟨.Ok, some ids⟩ ↔ algo = .ok ids := by
  rw [finish_eq]
  cases algo with
  | ok i => simp
  | err e i => cases e <;> simp [documented]
  | hilbertErr i => simp
  | panic => simp

/-! ### The run, case by case -/

/-- `run` unfolded for the two entry points with a dimension. -/
theorem run_geo (e : Entry) (he : e = .rcb ∨ e = .rib) (a : Args) (algo : Algo) :
    run e a algo =
      if a.pointsLen ≠ a.weightsLen then ⟨.LenMismatch, some a.init⟩
      else if a.dim = 2 ∨ a.dim = 3 then finish algo
      else ⟨.BadDimension, some a.init⟩ := by
  rcases he with rfl | rfl <;>
  · simp only [run, prologue, firstFiring, Guard.holds, dims]
    by_cases h : a.pointsLen = a.weightsLen
    · simp [h]
    · simp [h]

theorem run_hilbert (a : Args) (algo : Algo) :
    run .hilbert a algo =
      if a.pointsLen ≠ a.weightsLen then ⟨.LenMismatch, some a.init⟩
      else if a.weightsTy ≠ .Double then ⟨.BadType, some a.init⟩
      else finish algo := by
  simp only [run, prologue, firstFiring, Guard.holds, dims]
  by_cases h : a.pointsLen = a.weightsLen
  · by_cases h2 : a.weightsTy = .Double
    · simp [h, h2]
    · simp [h, h2]
  · simp [h]

theorem run_num (e : Entry) (he : e = .greedy ∨ e = .kk ∨ e = .ckk) (a : Args) (algo : Algo) :
    run e a algo = finish algo := by
  rcases he with rfl | rfl | rfl <;> rfl

theorem run_fm (a : Args) (algo : Algo) :
    run .fm a algo = if a.adjTy ≠ .Int64 then ⟨.BadType, some a.init⟩ else finish algo := by
  simp only [run, prologue, firstFiring, Guard.holds, dims]
  by_cases h : a.adjTy = .Int64
  · simp [h]
  · simp [h]

theorem firstFiring_mem (a : Args) (l : List (Guard × Err)) (c : Err)
    (h : firstFiring a l = some c) : ∃ g, (g, c) ∈ l := by
  induction l with
  | nil => simp [firstFiring] at h
  | cons p rest ih =>
    obtain ⟨g, c'⟩ := p
    simp only [firstFiring] at h
    split at h
    · exact ⟨g, by simp_all⟩
    · obtain ⟨g', hg'⟩ := ih h
      exact ⟨g', List.mem_cons_of_mem _ hg'⟩

theorem prologue_ne_ok (e : Entry) : ∀ p ∈ prologue e, p.2 ≠ .Ok := by
  cases e <;> decide

theorem dims_ne_ok (e : Entry) (ds : List Nat) (bad : Err) (h : dims e = some (ds, bad)) :
    bad ≠ .Ok := by
  cases e <;> simp [dims] at h <;> (obtain ⟨_, rfl⟩ := h; decide)

/-! ### Data sets -/

namespace Data
variable {α : Type}

theorem map_const_range (n : Nat) (v : α) : (List.range n).map (fun _ => v) = List.replicate n v := by
  induction n with
  | zero => rfl
  | succ k ih => rw [List.range_succ, List.map_append, ih]; simp [List.replicate_succ']

theorem iter_eq_parIter (d : Data α) : d.iter = d.parIter := by
  cases d with
  | array n mem => rfl
  | constant n v => exact map_const_range n v
  | fn n f => rfl

theorem parIter_eq_toSlice (d : Data α) : d.parIter = d.toSlice := by
  cases d <;> rfl

theorem length_iter_le (d : Data α) : d.iter.length ≤ d.len := by
  cases d with
  | array n mem => simp [iter, len, List.length_take]; omega
  | constant n v => simp [iter, len]
  | fn n f => simp [iter, len]

theorem iter_of_denotes (d : Data α) (l : List α) (h : d.Denotes l) : d.iter = l := by
  cases d with
  | array n mem =>
    obtain ⟨hl, hm⟩ := h
    apply List.ext_getElem?
    intro i
    simp only [iter, List.getElem?_take]
    by_cases hi : i < n
    · simp [hi, hm i hi]
    · have : l.length ≤ i := by omega
      simp [hi, List.getElem?_eq_none this]
  | constant n v =>
    obtain ⟨hl, hv⟩ := h
    rw [iter, map_const_range, ← hl]
    exact (List.eq_replicate_iff.mpr ⟨rfl, hv⟩).symm
  | fn n f =>
    obtain ⟨hl, hf⟩ := h
    apply List.ext_getElem?
    intro i
    by_cases hi : i < n
    · simp [iter, hi, hf i hi]
    · have : l.length ≤ i := by omega
      simp [iter, hi, List.getElem?_eq_none this]

end Data

end Coupe.Ffi
