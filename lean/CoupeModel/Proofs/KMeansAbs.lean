import CoupeModel.Model.KMeansAbs
import Mathlib.Data.List.Perm.Subperm

/-!
Lemmas about the abstract KMeans model (`Model/KMeansAbs.lean`) used by `Props/C02.lean`.
-/

namespace Coupe.KMeansAbs

/-- The input is a valid partition: every id from 0 to the maximum is used. -/
def Valid (ids : List Nat) : Prop := ∀ i, i ≤ maxId ids → i ∈ ids

/-! ### `unique` -/

theorem mem_uniqueAux (x : Nat) : ∀ (l seen : List Nat),
    x ∈ uniqueAux seen l ↔ x ∈ l ∧ x ∉ seen
  | [], seen => by simp [uniqueAux]
  | y :: ys, seen => by
    unfold uniqueAux
    by_cases hy : seen.contains y = true
    · rw [if_pos hy, mem_uniqueAux x ys seen]
      have hy' : y ∈ seen := by simpa using hy
      constructor
      · rintro ⟨h1, h2⟩; exact ⟨List.mem_cons_of_mem _ h1, h2⟩
      · rintro ⟨h1, h2⟩
        rcases List.mem_cons.1 h1 with rfl | h
        · exact absurd hy' h2
        · exact ⟨h, h2⟩
    · rw [if_neg hy, List.mem_cons, mem_uniqueAux x ys (y :: seen)]
      have hy' : y ∉ seen := by simpa using hy
      constructor
      · rintro (rfl | ⟨h1, h2⟩)
        · exact ⟨List.mem_cons_self, hy'⟩
        · exact ⟨List.mem_cons_of_mem _ h1, fun h => h2 (List.mem_cons_of_mem _ h)⟩
      · rintro ⟨h1, h2⟩
        by_cases hxy : x = y
        · exact Or.inl hxy
        · rcases List.mem_cons.1 h1 with h | h
          · exact absurd h hxy
          · exact Or.inr ⟨h, fun h' => by
              rcases List.mem_cons.1 h' with h'' | h''
              · exact hxy h''
              · exact h2 h''⟩

theorem nodup_uniqueAux : ∀ (l seen : List Nat), (uniqueAux seen l).Nodup
  | [], _ => by simp [uniqueAux]
  | y :: ys, seen => by
    unfold uniqueAux
    by_cases hy : seen.contains y = true
    · rw [if_pos hy]; exact nodup_uniqueAux ys seen
    · rw [if_neg hy]
      refine List.nodup_cons.2 ⟨?_, nodup_uniqueAux ys (y :: seen)⟩
      intro h
      exact ((mem_uniqueAux y ys (y :: seen)).1 h).2 List.mem_cons_self

theorem mem_centerIds (x : Nat) (ids : List Nat) : x ∈ centerIds ids ↔ x ∈ ids := by
  simp [centerIds, mem_uniqueAux]

theorem nodup_centerIds (ids : List Nat) : (centerIds ids).Nodup := nodup_uniqueAux ids []

/-! ### `max` -/

theorem foldl_max_ge (l : List Nat) : ∀ a, a ≤ l.foldl max a ∧ ∀ x ∈ l, x ≤ l.foldl max a := by
  induction l with
  | nil => intro a; simp
  | cons y ys ih =>
    intro a
    obtain ⟨h1, h2⟩ := ih (max a y)
    refine ⟨by simp only [List.foldl_cons]; omega, ?_⟩
    intro x hx
    simp only [List.foldl_cons]
    rcases List.mem_cons.1 hx with rfl | h
    · omega
    · exact h2 x h

theorem le_maxId {x : Nat} {ids : List Nat} (h : x ∈ ids) : x ≤ maxId ids :=
  (foldl_max_ge ids 0).2 x h

/-! ### Validity ⇔ the soundness test of the prologue passes -/

theorem centerIds_subset_range (ids : List Nat) :
    centerIds ids ⊆ List.range (maxId ids + 1) := by
  intro x hx
  have := le_maxId ((mem_centerIds x ids).1 hx)
  exact List.mem_range.2 (by omega)

theorem length_centerIds_le (ids : List Nat) : (centerIds ids).length ≤ maxId ids + 1 := by
  have h := (List.subperm_of_subset (nodup_centerIds ids) (centerIds_subset_range ids)).length_le
  simpa using h

theorem length_centerIds_of_valid {ids : List Nat} (h : Valid ids) :
    (centerIds ids).length = maxId ids + 1 := by
  refine Nat.le_antisymm (length_centerIds_le ids) ?_
  have hsub : List.range (maxId ids + 1) ⊆ centerIds ids := by
    intro x hx
    exact (mem_centerIds x ids).2 (h x (by have := List.mem_range.1 hx; omega))
  have := (List.subperm_of_subset List.nodup_range hsub).length_le
  simpa using this

theorem valid_of_length_centerIds {ids : List Nat}
    (h : (centerIds ids).length = maxId ids + 1) : Valid ids := by
  intro i hi
  refine Classical.byContradiction fun hni => ?_
  have hsub : centerIds ids ⊆ (List.range (maxId ids + 1)).erase i := by
    intro x hx
    have hx' := (mem_centerIds x ids).1 hx
    have hne : x ≠ i := fun e => hni (e ▸ hx')
    exact (List.mem_erase_of_ne hne).2 (centerIds_subset_range ids hx)
  have hle := (List.subperm_of_subset (nodup_centerIds ids) hsub).length_le
  have hmem : i ∈ List.range (maxId ids + 1) := List.mem_range.2 (by omega)
  rw [List.length_erase_of_mem hmem, List.length_range] at hle
  omega

theorem validB_iff (ids : List Nat) : validB ids = true ↔ Valid ids := by
  simp only [validB, List.all_eq_true, List.mem_range, List.contains_iff_mem, Valid]
  constructor
  · intro h i hi; exact h i (by omega)
  · intro h i hi; exact h i (by omega)

/-! ### One sweep -/

theorem length_sweep (b : Nat → Option Nat) (asg : List Nat) :
    (sweep b asg).length = asg.length := by
  simp [sweep]

theorem getElem_sweep (b : Nat → Option Nat) (asg : List Nat) (p : Nat)
    (hp : p < (sweep b asg).length) :
    (sweep b asg)[p] = (b p).getD (asg[p]'(by simpa [length_sweep] using hp)) := by
  simp [sweep]

/-- Every entry after a sweep is the old entry or a value of `best`. -/
theorem mem_sweep {b : Nat → Option Nat} {asg : List Nat} {x : Nat} (hx : x ∈ sweep b asg) :
    x ∈ asg ∨ ∃ p, b p = some x := by
  obtain ⟨p, hp, rfl⟩ := List.getElem_of_mem hx
  rw [getElem_sweep]
  cases hb : b p with
  | none => left; simp
  | some c => right; exact ⟨p, by simp [hb]⟩

/-! ### All sweeps -/

theorem sweeps_ok {cfg : Cfg} {cids : List Nat} :
    ∀ (bs : List (Nat → Option Nat)) (asg out : List Nat),
      (∀ b ∈ bs, ∀ p c, b p = some c → c ∈ cids) →
      sweeps cfg cids bs asg = .ok out →
      out.length = asg.length ∧ ((∀ x ∈ asg, x ∈ cids) → ∀ x ∈ out, x ∈ cids)
  | [], asg, out, _, h => by
    simp only [sweeps, Outcome.ok.injEq] at h
    subst h; exact ⟨rfl, fun h => h⟩
  | b :: bs, asg, out, hb, h => by
    simp only [sweeps] at h
    split at h
    · cases h
    · obtain ⟨h1, h2⟩ := sweeps_ok bs (sweep b asg) out
        (fun b' hb' => hb b' (List.mem_cons_of_mem _ hb')) h
      refine ⟨by rw [h1, length_sweep], fun hasg => h2 ?_⟩
      intro x hx
      rcases mem_sweep hx with h | ⟨p, hp⟩
      · exact hasg x h
      · exact hb b List.mem_cons_self p x hp

theorem sweeps_total {cfg : Cfg} (hc : cfg.oldPanicOnEmpty = false) (cids : List Nat) :
    ∀ (bs : List (Nat → Option Nat)) (asg : List Nat), ∃ out, sweeps cfg cids bs asg = .ok out
  | [], asg => ⟨asg, rfl⟩
  | b :: bs, asg => by
    simp only [sweeps, hc, Bool.false_and, Bool.false_eq_true, if_false]
    exact sweeps_total hc cids bs (sweep b asg)

theorem sweeps_ne_unsound (cfg : Cfg) (cids : List Nat) :
    ∀ (bs : List (Nat → Option Nat)) (asg : List Nat), sweeps cfg cids bs asg ≠ .panicUnsound
  | [], asg => by simp [sweeps]
  | b :: bs, asg => by
    simp only [sweeps]
    split
    · simp
    · exact sweeps_ne_unsound cfg cids bs _

theorem best_map_mem {cids : List Nat} (bs : List (Best cids)) :
    ∀ b ∈ bs.map (·.f), ∀ p c, b p = some c → c ∈ cids := by
  intro b hb p c h
  obtain ⟨B, _, rfl⟩ := List.mem_map.1 hb
  exact B.mem p c h

/-! ### The decidable step check is the model's step relation -/

theorem sweep_bestOf {cids before after : List Nat} (h : legalStep cids before after = true) :
    sweep (bestOf cids after).f before = after := by
  simp only [legalStep, Bool.and_eq_true, beq_iff_eq, List.all_eq_true, Bool.or_eq_true,
    List.contains_iff_mem] at h
  obtain ⟨hlen, hall⟩ := h
  apply List.ext_getElem
  · rw [length_sweep, hlen]
  · intro p h1 h2
    rw [getElem_sweep]
    have hb : p < before.length := by simpa [length_sweep] using h1
    have hz : (before[p], after[p]) ∈ before.zip after := by
      have : (before.zip after)[p]'(by simp; omega) = (before[p], after[p]) := by simp
      rw [← this]; exact List.getElem_mem _
    have hleg := hall _ hz
    simp only [bestOf, List.getElem?_eq_getElem h2]
    simp only [List.contains_iff_mem]
    by_cases hc : after[p] ∈ cids
    · simp [hc]
    · rcases hleg with e | e
      · have e' : after[p] = before[p] := e
        rw [if_neg hc]; exact e'.symm
      · exact absurd e hc

theorem legalStep_of_sweep {cids : List Nat} (b : Best cids) (before : List Nat) :
    legalStep cids before (sweep b.f before) = true := by
  simp only [legalStep, Bool.and_eq_true, beq_iff_eq, List.all_eq_true, Bool.or_eq_true,
    List.contains_iff_mem, length_sweep, true_and]
  intro x hx
  obtain ⟨p, hp, rfl⟩ := List.getElem_of_mem hx
  have hp' : p < before.length := by simp [length_sweep] at hp; omega
  simp only [List.getElem_zip, getElem_sweep]
  cases hb : b.f p with
  | none => left; simp
  | some c => right; simpa using b.mem p c hb

end Coupe.KMeansAbs
