import CoupeModel.Proofs.HilbertCode

/-!
# Lemmas for C08, part 3: `pdep_u64_fallback` with the masks of `encode_2d` / `encode_3d`
interleaves the coordinate bits as the table machines assume.
-/

namespace Coupe.Hilbert
open Coupe.Gen.HilbertTables

/-- The successive values of `rightmost` in `pdep_u64_fallback` (they depend on the mask only). -/
def lowbits : Nat → Nat → List Nat
  | 0, _ => []
  | fuel + 1, bm =>
    if bm != 0 then (bm &&& ((W64 - bm) % W64)) :: lowbits fuel (bm &&& (bm - 1)) else []

/-- Deposit the low bits of `src` at the given single-bit values. -/
def orFold : Nat → Nat → List Nat → Nat
  | res, _, [] => res
  | res, src, r :: rs => orFold (res ||| ((src &&& 1) * r)) (src >>> 1) rs

theorem pdepLoop_zero : ∀ fuel res src, pdepLoop fuel res 0 src = res
  | 0, _, _ => rfl
  | fuel + 1, res, src => by simp [pdepLoop, pdepLoop_zero fuel]

theorem pdepLoop_eq : ∀ fuel res bm src, pdepLoop fuel res bm src = orFold res src (lowbits fuel bm)
  | 0, _, _, _ => rfl
  | fuel + 1, res, bm, src => by
    by_cases h : bm = 0
    · subst h; simp [pdepLoop, pdepLoop_zero, lowbits, orFold]
    · simp [pdepLoop, lowbits, h, orFold, pdepLoop_eq fuel]

/-- `2^a, 2^(a+b), 2^(a+2b), …` (`n` values). -/
def strideList (b : Nat) : Nat → Nat → List Nat
  | _, 0 => []
  | a, n + 1 => 2 ^ a :: strideList b (a + b) n

/-- `Σ_{i<n} bit_i(src) · 2^(b·i)`. -/
def spread (b : Nat) : Nat → Nat → Nat
  | 0, _ => 0
  | n + 1, src => src % 2 + 2 ^ b * spread b n (src / 2)

theorem orFold_stride {b : Nat} (hb : 1 ≤ b) : ∀ n res src a, res < 2 ^ a →
    orFold res src (strideList b a n) = res + 2 ^ a * spread b n src
  | 0, res, src, a, _ => by simp [strideList, orFold, spread]
  | n + 1, res, src, a, h => by
    have hbit : src % 2 < 2 := Nat.mod_lt _ (by decide)
    have hor : res ||| ((src &&& 1) * 2 ^ a) = res + (src % 2) * 2 ^ a := by
      rw [Nat.and_one_is_mod, Nat.or_comm, ← Nat.shiftLeft_eq, ← Nat.shiftLeft_add_eq_or_of_lt h,
        Nat.add_comm]
    have hlt : res + (src % 2) * 2 ^ a < 2 ^ (a + b) := by
      have h1 : (src % 2) * 2 ^ a ≤ 1 * 2 ^ a := Nat.mul_le_mul_right _ (by omega)
      have h2 : 2 ^ (a + 1) ≤ 2 ^ (a + b) := Nat.pow_le_pow_right (by decide) (by omega)
      rw [Nat.pow_succ] at h2
      omega
    rw [strideList, orFold, hor, Nat.shiftRight_one, orFold_stride hb n _ _ _ hlt, spread, Nat.pow_add]
    ring

theorem spread_succ_of_lt (b : Nat) : ∀ n s, s < 2 ^ n → spread b (n + 1) s = spread b n s
  | 0, s, h => by
    have : s = 0 := by simpa using h
    subst this; simp [spread]
  | n + 1, s, h => by
    rw [spread, spread_succ_of_lt b n (s / 2) (by rw [Nat.pow_succ] at h; omega)]
    rfl

theorem lowbits_mask2 : lowbits 64 MASK2 = strideList 2 0 32 := by decide +kernel
theorem lowbits_mask2x : lowbits 64 ((MASK2 <<< MASK2_SHIFT_X) % W64) = strideList 2 1 32 := by decide +kernel
theorem lowbits_mask3 : lowbits 64 MASK3 = strideList 3 0 22 := by decide +kernel
theorem lowbits_mask3y : lowbits 64 ((MASK3 <<< MASK3_SHIFT_Y) % W64) = strideList 3 1 21 := by decide +kernel
theorem lowbits_mask3x : lowbits 64 ((MASK3 <<< MASK3_SHIFT_X) % W64) = strideList 3 2 21 := by decide +kernel

theorem pdep_mask2 (y : Nat) : pdepFallback y MASK2 = spread 2 32 y := by
  rw [pdepFallback, pdepLoop_eq, lowbits_mask2, orFold_stride (by decide) _ _ _ _ (by decide)]
  simp

theorem pdep_mask2x (x : Nat) : pdepFallback x ((MASK2 <<< MASK2_SHIFT_X) % W64) = 2 * spread 2 32 x := by
  rw [pdepFallback, pdepLoop_eq, lowbits_mask2x, orFold_stride (by decide) _ _ _ _ (by decide)]
  simp

theorem pdep_mask3 (z : Nat) : pdepFallback z MASK3 = spread 3 22 z := by
  rw [pdepFallback, pdepLoop_eq, lowbits_mask3, orFold_stride (by decide) _ _ _ _ (by decide)]
  simp

theorem pdep_mask3y (y : Nat) : pdepFallback y ((MASK3 <<< MASK3_SHIFT_Y) % W64) = 2 * spread 3 21 y := by
  rw [pdepFallback, pdepLoop_eq, lowbits_mask3y, orFold_stride (by decide) _ _ _ _ (by decide)]
  simp

theorem pdep_mask3x (x : Nat) : pdepFallback x ((MASK3 <<< MASK3_SHIFT_X) % W64) = 4 * spread 3 21 x := by
  rw [pdepFallback, pdepLoop_eq, lowbits_mask3x, orFold_stride (by decide) _ _ _ _ (by decide)]
  simp

/-- OR of two numbers splits at bit `i`. -/
theorem or_split (i : Nat) {a0 b0 : Nat} (a1 b1 : Nat) (ha : a0 < 2 ^ i) (hb : b0 < 2 ^ i) :
    (a0 + 2 ^ i * a1) ||| (b0 + 2 ^ i * b1) = (a0 ||| b0) + 2 ^ i * (a1 ||| b1) := by
  have hab : a0 ||| b0 < 2 ^ i := Nat.or_lt_two_pow ha hb
  rw [Nat.add_comm a0, Nat.add_comm b0, Nat.add_comm (a0 ||| b0), Nat.mul_comm _ a1, Nat.mul_comm _ b1,
    Nat.mul_comm _ (a1 ||| b1), ← Nat.shiftLeft_eq, ← Nat.shiftLeft_eq, ← Nat.shiftLeft_eq,
    Nat.shiftLeft_add_eq_or_of_lt ha, Nat.shiftLeft_add_eq_or_of_lt hb, Nat.shiftLeft_add_eq_or_of_lt hab,
    Nat.shiftLeft_or_distrib]
  ac_rfl

/-- Interleaved quadrant number of the `n` low bits of `x`, `y` (least significant first). -/
def il2 : Nat → Nat → Nat → Nat
  | 0, _, _ => 0
  | n + 1, x, y => (2 * (x % 2) + y % 2) + 4 * il2 n (x / 2) (y / 2)

theorem bits2_or : ∀ a, a < 2 → ∀ b, b < 2 → (2 * a) ||| b = 2 * a + b := by decide

theorem spread_or2 : ∀ n x y, (2 * spread 2 n x) ||| spread 2 n y = il2 n x y
  | 0, _, _ => by simp [spread, il2]
  | n + 1, x, y => by
    have hx : x % 2 < 2 := Nat.mod_lt _ (by decide)
    have hy : y % 2 < 2 := Nat.mod_lt _ (by decide)
    have e1 : 2 * spread 2 (n + 1) x = 2 * (x % 2) + 2 ^ 2 * (2 * spread 2 n (x / 2)) := by
      rw [spread]; ring
    rw [e1, spread, or_split 2 _ _ (by omega) (by omega), spread_or2 n, bits2_or _ hx _ hy, il2]
    rfl

theorem digits_il2 : ∀ n k x y, k ≤ n → digits 4 k (il2 n x y) = zdigits2 k x y
  | _, 0, _, _, _ => rfl
  | 0, k + 1, _, _, h => by omega
  | n + 1, k + 1, x, y, h => by
    have hd : 2 * (x % 2) + y % 2 < 4 := by omega
    rw [digits_split 4 k 1, zdigits2_succ, il2]
    congr 1
    · rw [Nat.pow_one, Nat.add_comm, Nat.mul_add_div (by decide), Nat.div_eq_of_lt hd, Nat.add_zero,
        digits_il2 n k _ _ (by omega)]
    · simp only [digits, Nat.pow_zero, Nat.div_one]
      rw [Nat.add_mul_mod_self_left, Nat.mod_eq_of_lt hd]

/-- `encode_2d`'s `zorder` has the quadrant digits the 2-D machine reads. -/
theorem zorder2_digits {k : Nat} (hk : k ≤ 32) (x y : Nat) :
    digits 4 k (zorder2 x y) = zdigits2 k x y := by
  rw [zorder2, pdep_mask2, pdep_mask2x, spread_or2, digits_il2 32 k x y hk]

/-- Interleaved octant number (least significant first). -/
def il3 : Nat → Nat → Nat → Nat → Nat
  | 0, _, _, _ => 0
  | n + 1, x, y, z => (4 * (x % 2) + 2 * (y % 2) + z % 2) + 8 * il3 n (x / 2) (y / 2) (z / 2)

theorem bits3_or : ∀ a, a < 2 → ∀ b, b < 2 → ∀ c, c < 2 → ((4 * a) ||| (2 * b)) ||| c = 4 * a + 2 * b + c := by
  decide

theorem bits3_or' : ∀ a, a < 2 → ∀ b, b < 2 → (4 * a) ||| (2 * b) < 8 := by decide

theorem spread_or3 : ∀ n x y z,
    ((4 * spread 3 n x) ||| (2 * spread 3 n y)) ||| spread 3 n z = il3 n x y z
  | 0, _, _, _ => by simp [spread, il3]
  | n + 1, x, y, z => by
    have hx : x % 2 < 2 := Nat.mod_lt _ (by decide)
    have hy : y % 2 < 2 := Nat.mod_lt _ (by decide)
    have hz : z % 2 < 2 := Nat.mod_lt _ (by decide)
    have e1 : 4 * spread 3 (n + 1) x = 4 * (x % 2) + 2 ^ 3 * (4 * spread 3 n (x / 2)) := by
      rw [spread]; ring
    have e2 : 2 * spread 3 (n + 1) y = 2 * (y % 2) + 2 ^ 3 * (2 * spread 3 n (y / 2)) := by
      rw [spread]; ring
    rw [e1, e2, spread, or_split 3 _ _ (by omega) (by omega),
      or_split 3 _ _ (bits3_or' _ hx _ hy) (by omega), spread_or3 n, bits3_or _ hx _ hy _ hz, il3]
    rfl

theorem digits_il3 : ∀ n k x y z, k ≤ n → digits 8 k (il3 n x y z) = zdigits3 k x y z
  | _, 0, _, _, _, _ => rfl
  | 0, k + 1, _, _, _, h => by omega
  | n + 1, k + 1, x, y, z, h => by
    have hd : 4 * (x % 2) + 2 * (y % 2) + z % 2 < 8 := by omega
    rw [digits_split 8 k 1, zdigits3_succ, il3]
    congr 1
    · rw [Nat.pow_one, Nat.add_comm, Nat.mul_add_div (by decide), Nat.div_eq_of_lt hd, Nat.add_zero,
        digits_il3 n k _ _ _ (by omega)]
    · simp only [digits, Nat.pow_zero, Nat.div_one]
      rw [Nat.add_mul_mod_self_left, Nat.mod_eq_of_lt hd]

/-- `encode_3d`'s `zorder` has the octant digits the 3-D machine reads (`z < 2^21`:
the mask `0x9249…` has a 22nd bit, at position 63, which a larger `z` would set). -/
theorem zorder3_digits {k : Nat} (hk : k ≤ 21) (x y z : Nat) (hz : z < 2 ^ 21) :
    digits 8 k (zorder3 x y z) = zdigits3 k x y z := by
  rw [zorder3, pdep_mask3, pdep_mask3x, pdep_mask3y, spread_succ_of_lt 3 21 z hz, spread_or3,
    digits_il3 21 k x y z hk]

end Coupe.Hilbert
