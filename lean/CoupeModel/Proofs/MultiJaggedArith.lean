import Mathlib.Tactic.Linarith
import Mathlib.Tactic.Ring

/-!
# The arithmetic step of the MultiJagged balance proof

A child with `a` leaves received the weight `Wj` out of its parent's `Wp` (the parent has
`L` leaves): `|L·Wj − Wp·a| < L·wmax` (one level).  Below the child a leaf of weight `Wl`
satisfies `|a·Wl − Wj| ≤ a·d·wmax` (induction).  Then `|L·Wl − Wp| ≤ L·(d+1)·wmax`.
-/

namespace Coupe.MultiJagged

theorem balance_step (L a d D Wl Wj Wp wmax : Int) (ha : 1 ≤ a) (hL : 0 ≤ L) (hdD : d + 1 ≤ D)
    (hw : 0 ≤ wmax)
    (h1 : L * Wj < Wp * a + L * wmax) (h2 : Wp * a < L * Wj + L * wmax)
    (h3 : -(a * d * wmax) ≤ a * Wl - Wj) (h4 : a * Wl - Wj ≤ a * d * wmax) :
    -(L * D * wmax) ≤ L * Wl - Wp ∧ L * Wl - Wp ≤ L * D * wmax := by
  have hLw : 0 ≤ L * wmax := mul_nonneg hL hw
  have e2 : L * wmax ≤ a * (L * wmax) := by nlinarith
  have e3 : L * (d + 1) * wmax ≤ L * D * wmax := by
    have : L * wmax * (d + 1) ≤ L * wmax * D := mul_le_mul_of_nonneg_left hdD hLw
    linarith [this]
  have u1 : L * (a * Wl - Wj) ≤ L * (a * d * wmax) := mul_le_mul_of_nonneg_left h4 hL
  have u2 : L * (-(a * d * wmax)) ≤ L * (a * Wl - Wj) := mul_le_mul_of_nonneg_left h3 hL
  have ha0 : 0 < a := by linarith
  constructor
  · have : a * (-(L * (d + 1) * wmax)) ≤ a * (L * Wl - Wp) := by nlinarith
    have := Int.le_of_mul_le_mul_left this ha0
    linarith
  · have : a * (L * Wl - Wp) ≤ a * (L * (d + 1) * wmax) := by nlinarith
    have := Int.le_of_mul_le_mul_left this ha0
    linarith

end Coupe.MultiJagged
