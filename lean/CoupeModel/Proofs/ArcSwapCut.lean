import CoupeModel.Model.ArcSwap
import Mathlib.Tactic.SplitIfs

/-!
# ArcSwap model, part 4: the edge cut and the effect of one move

`cut g p` is `Topology::edge_cut` (generic definition: every stored entry `(v, u, w)`
with `u < v` and `p v ≠ p u` counts `w`).  On a symmetric graph without self-loops,
relabelling one vertex `x` from `ip` to `tgt ≠ ip` changes the cut by exactly minus the
gain ArcSwap computes from the row of `x` (`cut_set`).
-/

namespace Coupe.ArcSwap

/-- All stored entries as `(row, column, weight)`. -/
def edges (g : Graph) : List (Nat × Nat × Int) :=
  g.zipIdx.flatMap fun x => x.1.map fun e => (x.2, e.1, e.2)

def swapE (e : Nat × Nat × Int) : Nat × Nat × Int := (e.2.1, e.1, e.2.2)

/-- The matrix is symmetric: the multiset of entries is closed under transposition. -/
def Sym (g : Graph) : Prop := ((edges g).map swapE).Perm (edges g)

/-- No diagonal entry. -/
def NoLoop (g : Graph) : Prop := ∀ e ∈ edges g, e.1 ≠ e.2.1

/-- `Topology::edge_cut`, one row. -/
def rowCut (p : List Nat) (v : Nat) (row : List (Nat × Int)) : Int :=
  ((row.filter fun e => p.getD v 0 != p.getD e.1 0 && decide (e.1 < v)).map (·.2)).sum

/-- `Topology::edge_cut` (generic method). -/
def cut (g : Graph) (p : List Nat) : Int := (g.zipIdx.map fun x => rowCut p x.2 x.1).sum

/-- The gain ArcSwap computes for moving `v` from `ip` to `tgt`. -/
def gainOf (g : Graph) (p : List Nat) (v ip tgt : Nat) : Int :=
  ((adj g v).map fun e => contrib ip tgt (p.getD e.1 0) e.2).sum

/-! ### sums -/

theorem sum_flatMap {α} (l : List α) (f : α → List Int) :
    (l.flatMap f).sum = (l.map fun a => (f a).sum).sum := by
  induction l with
  | nil => rfl
  | cons a l ih => simp [List.flatMap_cons, List.sum_append, ih]

theorem sum_map_add {α} (l : List α) (f h : α → Int) :
    (l.map fun a => f a + h a).sum = (l.map f).sum + (l.map h).sum := by
  induction l with
  | nil => rfl
  | cons a l ih => simp only [List.map_cons, List.sum_cons, ih]; omega

theorem sum_map_congr {α} (l : List α) (f h : α → Int) (hfh : ∀ a ∈ l, f a = h a) :
    (l.map f).sum = (l.map h).sum := by
  induction l with
  | nil => rfl
  | cons a l ih =>
    simp only [List.map_cons, List.sum_cons]
    rw [hfh a List.mem_cons_self, ih fun b hb => hfh b (List.mem_cons_of_mem _ hb)]

theorem sum_map_neg {α} (l : List α) (f : α → Int) : (l.map fun a => -f a).sum = -(l.map f).sum := by
  induction l with
  | nil => rfl
  | cons a l ih => simp only [List.map_cons, List.sum_cons, ih]; omega

theorem perm_sum {l₁ l₂ : List Int} (h : l₁.Perm l₂) : l₁.sum = l₂.sum := by
  induction h with
  | nil => rfl
  | cons x _ ih => simp only [List.sum_cons, ih]
  | swap x y l => simp only [List.sum_cons]; omega
  | trans _ _ ih1 ih2 => rw [ih1, ih2]

/-- Sum over all entries. -/
def S (g : Graph) (F : Nat × Nat × Int → Int) : Int := ((edges g).map F).sum

theorem S_swap {g : Graph} (hs : Sym g) (F : Nat × Nat × Int → Int) : S g (fun e => F (swapE e)) = S g F := by
  unfold S
  have := perm_sum (hs.map F)
  rw [List.map_map] at this
  exact this

theorem S_add (g : Graph) (F G : Nat × Nat × Int → Int) : S g (fun e => F e + G e) = S g F + S g G :=
  sum_map_add _ _ _

theorem S_congr (g : Graph) (F G : Nat × Nat × Int → Int) (h : ∀ e ∈ edges g, F e = G e) : S g F = S g G :=
  sum_map_congr _ _ _ h

theorem filter_map_sum (row : List (Nat × Int)) (q : Nat × Int → Bool) :
    ((row.filter q).map (·.2)).sum = (row.map fun e => if q e then e.2 else 0).sum := by
  induction row with
  | nil => rfl
  | cons e row ih =>
    simp only [List.filter_cons, List.map_cons, List.sum_cons]
    split_ifs <;> simp [ih]

/-- Sum over the entries, row by row. -/
theorem S_rows (g : Graph) (F : Nat × Nat × Int → Int) :
    S g F = (g.zipIdx.map fun x => (x.1.map fun e => F (x.2, e.1, e.2)).sum).sum := by
  unfold S edges
  rw [List.map_flatMap, sum_flatMap]
  simp only [List.map_map]
  rfl

theorem cut_eq_S (g : Graph) (p : List Nat) :
    cut g p = S g fun e => if p.getD e.1 0 != p.getD e.2.1 0 && decide (e.2.1 < e.1) then e.2.2 else 0 := by
  rw [S_rows]
  unfold cut rowCut
  congr 1
  apply List.map_congr_left
  intro x _
  rw [filter_map_sum]

/-- Row selection: summing `G` over the entries of row `x` only. -/
theorem sum_zipIdx_select (l : List (List (Nat × Int))) (k x : Nat) (h : List (Nat × Int) → Int) :
    ((l.zipIdx k).map fun y => if y.2 = x then h y.1 else 0).sum =
      if k ≤ x then ((l[x - k]?).map h).getD 0 else 0 := by
  induction l generalizing k with
  | nil => simp
  | cons a l ih =>
    simp only [List.zipIdx_cons, List.map_cons, List.sum_cons, ih]
    by_cases h1 : k = x
    · subst h1
      have : ¬ k + 1 ≤ k := by omega
      simp [this]
    · by_cases h2 : k ≤ x
      · have h3 : k + 1 ≤ x := by omega
        have h4 : x - k = (x - (k + 1)) + 1 := by omega
        simp only [h1, if_false, h2, h3, if_true, Int.zero_add]
        rw [h4, List.getElem?_cons_succ]
      · have h3 : ¬ k + 1 ≤ x := by omega
        simp [h1, h2, h3]

theorem sum_map_zero {α} (l : List α) : (l.map fun _ => (0 : Int)).sum = 0 := by
  induction l with
  | nil => rfl
  | cons a l ih => simp [ih]

theorem S_row (g : Graph) (x : Nat) (G : Nat × Int → Int) :
    (S g fun e => if e.1 = x then G e.2 else 0) = ((adj g x).map G).sum := by
  rw [S_rows]
  have : (g.zipIdx.map fun y => (y.1.map fun e => if (y.2, e.1, e.2).1 = x then G (y.2, e.1, e.2).2 else 0).sum) =
      (g.zipIdx.map fun y => if y.2 = x then (y.1.map G).sum else 0) := by
    apply List.map_congr_left
    intro y _
    by_cases hy : y.2 = x
    · simp [hy]
    · simp only [hy, if_false]; exact sum_map_zero _
  rw [this]
  refine (sum_zipIdx_select g 0 x (fun row => (row.map G).sum)).trans ?_
  simp only [Nat.zero_le, if_true, Nat.sub_zero]
  unfold adj
  rw [List.getD_eq_getElem?_getD]
  cases g[x]? <;> simp

/-! ### one move -/

theorem getD_set_eq (p : List Nat) (x t y : Nat) (hx : x < p.length) :
    (p.set x t).getD y 0 = if y = x then t else p.getD y 0 := by
  simp only [List.getD_eq_getElem?_getD, List.getElem?_set]
  by_cases h : x = y
  · subst h; simp [hx]
  · have : ¬ y = x := fun h' => h h'.symm
    simp [h, this]

theorem two_cut_edge (a b v u : Nat) (w : Int) (h : u = v → a = b) :
    ((if (a != b && decide (u < v)) = true then w else 0) +
      if (b != a && decide (v < u)) = true then w else 0) = if (a != b) = true then w else 0 := by
  simp only [bne_iff_ne, ne_eq, Bool.and_eq_true, decide_eq_true_eq]
  split_ifs <;> omega

theorem move_edge_own (ip tgt b : Nat) (w : Int) (hne : tgt ≠ ip) :
    (if (tgt != b) = true then w else 0) =
      (if (ip != b) = true then w else 0) + (-(if b = ip then -w else if b = tgt then w else 0) + -0) := by
  simp only [bne_iff_ne, ne_eq]
  split_ifs <;> omega

theorem move_edge_other (ip tgt a : Nat) (w : Int) (hne : tgt ≠ ip) :
    (if (a != tgt) = true then w else 0) =
      (if (a != ip) = true then w else 0) + (-0 + -(if a = ip then -w else if a = tgt then w else 0)) := by
  simp only [bne_iff_ne, ne_eq]
  split_ifs <;> omega

/-- Twice the cut = sum over all entries whose end points are in different parts. -/
theorem two_cut {g : Graph} (hs : Sym g) (p : List Nat) :
    2 * cut g p = S g fun e => if p.getD e.1 0 != p.getD e.2.1 0 then e.2.2 else 0 := by
  have h1 := cut_eq_S g p
  have h2 := S_swap hs fun e => if p.getD e.1 0 != p.getD e.2.1 0 && decide (e.2.1 < e.1) then e.2.2 else 0
  rw [← h1] at h2
  have h3 : 2 * cut g p = cut g p + cut g p := by omega
  rw [h3]
  conv => lhs; lhs; rw [h1]
  rw [← h2, ← S_add]
  apply S_congr
  intro e _
  obtain ⟨v, u, w⟩ := e
  simp only [swapE]
  exact two_cut_edge _ _ v u w (fun h => by rw [h])

/-- `cut_set`: the cut after relabelling `x` is the cut before minus the gain computed
from the row of `x`. -/
theorem cut_set {g : Graph} (hs : Sym g) (hl : NoLoop g) (p : List Nat) {x ip tgt : Nat}
    (hx : x < p.length) (hip : p.getD x 0 = ip) (hne : tgt ≠ ip) :
    cut g (p.set x tgt) = cut g p - gainOf g p x ip tgt := by
  have h1 := two_cut hs (p.set x tgt)
  have h2 := two_cut hs p
  -- per-entry difference
  let A : Nat × Nat × Int → Int := fun e => if e.1 = x then contrib ip tgt (p.getD e.2.1 0) e.2.2 else 0
  have hA : S g A = gainOf g p x ip tgt := by
    unfold gainOf
    exact S_row g x fun r => contrib ip tgt (p.getD r.1 0) r.2
  have hA' : S g (fun e => A (swapE e)) = gainOf g p x ip tgt := by rw [S_swap hs, hA]
  have hD : (S g fun e => if (p.set x tgt).getD e.1 0 != (p.set x tgt).getD e.2.1 0 then e.2.2 else 0) =
      S g fun e => (if p.getD e.1 0 != p.getD e.2.1 0 then e.2.2 else 0) + (-(A e) + -(A (swapE e))) := by
    apply S_congr
    intro e he
    have hloop := hl e he
    obtain ⟨v, u, w⟩ := e
    simp only at hloop
    simp only [getD_set_eq p x tgt _ hx, A, swapE, contrib]
    by_cases hv : v = x
    · have hu : ¬ u = x := fun h => hloop (hv.trans h.symm)
      subst hv
      simp only [hu, if_true, if_false, hip]
      exact move_edge_own ip tgt _ w hne
    · by_cases hu : u = x
      · subst hu
        simp only [hv, if_true, if_false, hip]
        exact move_edge_other ip tgt _ w hne
      · simp only [hv, hu, if_false]
        omega
  rw [hD, S_add, S_add, ← h2] at h1
  have e1 : (S g fun e => -(A e)) = -S g A := sum_map_neg _ _
  have e2 : (S g fun e => -(A (swapE e))) = -S g (fun e => A (swapE e)) := sum_map_neg _ _
  rw [e1, e2, hA, hA'] at h1
  omega

end Coupe.ArcSwap
