import CoupeModel.Model.Kl
namespace Coupe.Kl

/-! ## `swap` -/

@[simp] theorem length_swap (p : List Nat) (i j : Nat) : (swap p i j).length = p.length := by
  simp [swap]

theorem swap_perm (p : List Nat) (i j : Nat) (hi : i < p.length) (hj : j < p.length) :
    (swap p i j).Perm p := by
  rw [List.perm_iff_count]
  intro a
  unfold swap
  rw [List.count_set (by simpa using hj), List.count_set hi]
  simp only [List.getElem_set, List.getD_eq_getElem?_getD, List.getElem?_eq_getElem hi,
    List.getElem?_eq_getElem hj, Option.getD_some]
  have h1 : p[i] = a → 0 < p.count a := fun h => h ▸ List.count_pos_iff.2 (List.getElem_mem hi)
  have h2 : p[j] = a → 0 < p.count a := fun h => h ▸ List.count_pos_iff.2 (List.getElem_mem hj)
  by_cases hij : i = j
  · subst hij
    by_cases ha : p[i] = a
    · have := h1 ha; simp [ha]; omega
    · simp [ha]
  · by_cases ha : p[i] = a <;> by_cases hb : p[j] = a
    · have := h1 ha; simp [ha, hb, hij]; omega
    · have := h1 ha; simp [ha, hb, hij]; omega
    · have := h2 hb; simp [ha, hb, hij]
    · simp [ha, hb, hij]

theorem swap_swap (p : List Nat) (i j : Nat) (hi : i < p.length) (hj : j < p.length) :
    swap (swap p i j) i j = p := by
  apply List.ext_getElem (by simp)
  intro n h1 h2
  simp [swap, List.getElem_set, List.getD_eq_getElem?_getD, hi, hj]
  grind

theorem swap_comm_disj (p : List Nat) (a b c d : Nat)
    (h1 : a ≠ c) (h2 : a ≠ d) (h3 : b ≠ c) (h4 : b ≠ d) :
    swap (swap p a b) c d = swap (swap p c d) a b := by
  apply List.ext_getElem?
  intro n
  simp [swap, List.getElem?_set, List.getD_eq_getElem?_getD]
  grind

/-! ## `applySwaps` -/

/-- the two swapped pairs have no index in common -/
def Disj (x y : Nat × Nat) : Prop := x.1 ≠ y.1 ∧ x.1 ≠ y.2 ∧ x.2 ≠ y.1 ∧ x.2 ≠ y.2

@[simp] theorem applySwaps_nil (p : List Nat) : applySwaps [] p = p := rfl
@[simp] theorem applySwaps_cons (x : Nat × Nat) (l : List (Nat × Nat)) (p : List Nat) :
    applySwaps (x :: l) p = applySwaps l (swap p x.1 x.2) := rfl

theorem applySwaps_append (l1 l2 : List (Nat × Nat)) (p : List Nat) :
    applySwaps (l1 ++ l2) p = applySwaps l2 (applySwaps l1 p) := by
  simp [applySwaps, List.foldl_append]

@[simp] theorem length_applySwaps (l : List (Nat × Nat)) (p : List Nat) :
    (applySwaps l p).length = p.length := by
  induction l generalizing p with
  | nil => rfl
  | cons x l ih => simp [ih]

theorem applySwaps_perm (l : List (Nat × Nat)) (p : List Nat)
    (h : ∀ x ∈ l, x.1 < p.length ∧ x.2 < p.length) : (applySwaps l p).Perm p := by
  induction l generalizing p with
  | nil => exact List.Perm.refl _
  | cons x l ih =>
    have hx := h x (by simp)
    refine (ih (swap p x.1 x.2) ?_).trans (swap_perm p x.1 x.2 hx.1 hx.2)
    intro y hy
    simpa using h y (by simp [hy])

theorem swap_applySwaps_comm (l : List (Nat × Nat)) (p : List Nat) (x : Nat × Nat)
    (h : ∀ y ∈ l, Disj x y) :
    swap (applySwaps l p) x.1 x.2 = applySwaps l (swap p x.1 x.2) := by
  induction l generalizing p with
  | nil => rfl
  | cons y l ih =>
    have hy := h y (by simp)
    simp only [applySwaps_cons]
    rw [ih _ (fun z hz => h z (by simp [hz]))]
    rw [swap_comm_disj p y.1 y.2 x.1 x.2 (Ne.symm hy.1) (Ne.symm hy.2.2.1) (Ne.symm hy.2.1) (Ne.symm hy.2.2.2)]

/-- Replaying a list of pairwise disjoint in-range swaps a second time (in the
same, forward, order) undoes it. -/
theorem applySwaps_invol (l : List (Nat × Nat)) (p : List Nat)
    (hd : l.Pairwise Disj) (hr : ∀ x ∈ l, x.1 < p.length ∧ x.2 < p.length) :
    applySwaps l (applySwaps l p) = p := by
  induction l generalizing p with
  | nil => rfl
  | cons x l ih =>
    rw [List.pairwise_cons] at hd
    have hx := hr x (by simp)
    simp only [applySwaps_cons]
    rw [swap_applySwaps_comm l _ x hd.1, swap_swap p x.1 x.2 hx.1 hx.2]
    exact ih p hd.2 (fun y hy => hr y (by simp [hy]))

end Coupe.Kl
