import CoupeModel.Model.Kl

/-!
# Lemmas about the Kernighan-Lin model (`Model/Kl.lean`), used by `Props/C15.lean`

Plan of the proof
* `swap` of two in-range entries is a permutation and an involution; swaps of
  disjoint index pairs commute.  Hence replaying a list of pairwise disjoint
  swaps a second time *in forward order* (what the code's rewind loops do)
  undoes it (`applySwaps_invol`).
* `Inv`: book-keeping invariant of the pass loop – the partition is the start
  partition with `saves` applied, `cut_saves[t]` is the cut after `t+1` swaps,
  every saved index is locked, saved pairs are pairwise disjoint (a candidate is
  unlocked, so it differs from every saved index) – `flips_inv`.
* `pass_spec`: after the rewind(s) the tracked cut is the cut of the tracked
  partition, it is `≤` the cut at the start of the pass and `<` if the outer
  loop goes on; the partition is a permutation of the one before.
* `passes_spec` (induction on the fuel) gives `kl_sizes`, `kl_cut_le`.
* totality: `flips_ok`/`pass_ok` (no panic site on a well-formed graph),
  `edgeCut_ge` (the cut is bounded below), `passes_ok` (the fuel suffices),
  `uniqueIds_two` (a two-way partition passes the `unimplemented!()` gate).
-/

namespace Coupe.Kl

/-! ## `swap` -/

@[simp] theorem length_swap (p : List Nat) (i j : Nat) : (swap p i j).length = p.length := by
  simp [swap]

theorem swap_perm (p : List Nat) (i j : Nat) (hi : i < p.length) (hj : j < p.length) :
    (swap p i j).Perm p := by
  rw [List.perm_iff_count]
  intro a
  unfold swap
  rw [List.count_set (by simpa using hj), List.count_set hi]
  simp only [List.getElem_set, List.getD_eq_getElem?_getD, List.getElem?_eq_getElem hi,
    List.getElem?_eq_getElem hj, Option.getD_some]
  have h1 : p[i] = a → 0 < p.count a := fun h => h ▸ List.count_pos_iff.2 (List.getElem_mem hi)
  have h2 : p[j] = a → 0 < p.count a := fun h => h ▸ List.count_pos_iff.2 (List.getElem_mem hj)
  by_cases hij : i = j
  · subst hij
    by_cases ha : p[i] = a
    · have := h1 ha; simp [ha]; omega
    · simp [ha]
  · by_cases ha : p[i] = a <;> by_cases hb : p[j] = a
    · have := h1 ha; simp [ha, hb, hij]; omega
    · have := h1 ha; simp [ha, hb, hij]; omega
    · have := h2 hb; simp [ha, hb, hij]
    · simp [ha, hb, hij]

theorem swap_swap (p : List Nat) (i j : Nat) (hi : i < p.length) (hj : j < p.length) :
    swap (swap p i j) i j = p := by
  apply List.ext_getElem (by simp)
  intro n h1 h2
  simp [swap, List.getElem_set, List.getD_eq_getElem?_getD, hi, hj]
  grind

theorem swap_comm_disj (p : List Nat) (a b c d : Nat)
    (h1 : a ≠ c) (h2 : a ≠ d) (h3 : b ≠ c) (h4 : b ≠ d) :
    swap (swap p a b) c d = swap (swap p c d) a b := by
  apply List.ext_getElem?
  intro n
  simp [swap, List.getElem?_set, List.getD_eq_getElem?_getD]
  grind

/-! ## `applySwaps` -/

/-- the two swapped pairs have no index in common -/
def Disj (x y : Nat × Nat) : Prop := x.1 ≠ y.1 ∧ x.1 ≠ y.2 ∧ x.2 ≠ y.1 ∧ x.2 ≠ y.2

@[simp] theorem applySwaps_nil (p : List Nat) : applySwaps [] p = p := rfl
@[simp] theorem applySwaps_cons (x : Nat × Nat) (l : List (Nat × Nat)) (p : List Nat) :
    applySwaps (x :: l) p = applySwaps l (swap p x.1 x.2) := rfl

theorem applySwaps_append (l1 l2 : List (Nat × Nat)) (p : List Nat) :
    applySwaps (l1 ++ l2) p = applySwaps l2 (applySwaps l1 p) := by
  simp [applySwaps, List.foldl_append]

@[simp] theorem length_applySwaps (l : List (Nat × Nat)) (p : List Nat) :
    (applySwaps l p).length = p.length := by
  induction l generalizing p with
  | nil => rfl
  | cons x l ih => simp [ih]

theorem applySwaps_perm (l : List (Nat × Nat)) (p : List Nat)
    (h : ∀ x ∈ l, x.1 < p.length ∧ x.2 < p.length) : (applySwaps l p).Perm p := by
  induction l generalizing p with
  | nil => exact List.Perm.refl _
  | cons x l ih =>
    have hx := h x (by simp)
    refine (ih (swap p x.1 x.2) ?_).trans (swap_perm p x.1 x.2 hx.1 hx.2)
    intro y hy
    simpa using h y (by simp [hy])

theorem swap_applySwaps_comm (l : List (Nat × Nat)) (p : List Nat) (x : Nat × Nat)
    (h : ∀ y ∈ l, Disj x y) :
    swap (applySwaps l p) x.1 x.2 = applySwaps l (swap p x.1 x.2) := by
  induction l generalizing p with
  | nil => rfl
  | cons y l ih =>
    have hy := h y (by simp)
    simp only [applySwaps_cons]
    rw [ih _ (fun z hz => h z (by simp [hz]))]
    rw [swap_comm_disj p y.1 y.2 x.1 x.2 (Ne.symm hy.1) (Ne.symm hy.2.2.1) (Ne.symm hy.2.1) (Ne.symm hy.2.2.2)]

/-- Replaying a list of pairwise disjoint in-range swaps a second time (in the
same, forward, order) undoes it. -/
theorem applySwaps_invol (l : List (Nat × Nat)) (p : List Nat)
    (hd : l.Pairwise Disj) (hr : ∀ x ∈ l, x.1 < p.length ∧ x.2 < p.length) :
    applySwaps l (applySwaps l p) = p := by
  induction l generalizing p with
  | nil => rfl
  | cons x l ih =>
    rw [List.pairwise_cons] at hd
    have hx := hr x (by simp)
    simp only [applySwaps_cons]
    rw [swap_applySwaps_comm l _ x hd.1, swap_swap p x.1 x.2 hx.1 hx.2]
    exact ih p hd.2 (fun y hy => hr y (by simp [hy]))

/-! ## selection -/

theorem argmaxLast_mem (gains : List Int) (cs : List Nat) (i : Nat) (gi : Int)
    (h : argmaxLast gains cs = some (i, gi)) : i ∈ cs := by
  cases cs with
  | nil => simp [argmaxLast] at h
  | cons c cs =>
    simp only [argmaxLast, Option.some.injEq] at h
    have key : ∀ (l : List Nat) (b : Nat × Int),
        (l.foldl (fun b k => if b.2 ≤ gains.getD k 0 then (k, gains.getD k 0) else b) b).1 = b.1 ∨
        (l.foldl (fun b k => if b.2 ≤ gains.getD k 0 then (k, gains.getD k 0) else b) b).1 ∈ l := by
      intro l
      induction l with
      | nil => intro b; simp
      | cons k l ih =>
        intro b
        simp only [List.foldl_cons]
        rcases ih (if b.2 ≤ gains.getD k 0 then (k, gains.getD k 0) else b) with h' | h'
        · rw [h']
          split
          · exact Or.inr List.mem_cons_self
          · left; rfl
        · exact Or.inr (List.mem_cons_of_mem _ h')
    have := key cs (c, gains.getD c 0)
    rw [h] at this
    simpa using this

theorem argminFirst_spec (cs : List Int) (b : Nat) (c : Int)
    (h : argminFirst cs = some (b, c)) : cs[b]? = some c := by
  cases cs with
  | nil => simp [argminFirst] at h
  | cons c0 cs =>
    simp only [argminFirst, Option.some.injEq] at h
    have key : ∀ (l : List Int) (k : Nat) (acc : Nat × Int), (c0 :: cs)[acc.1]? = some acc.2 →
        (∀ t, (l[t]? : Option Int) = (c0 :: cs)[k + t]?) →
        (c0 :: cs)[((l.zipIdx k).foldl (fun b x => if x.1 < b.2 then (x.2, x.1) else b) acc).1]? =
          some ((l.zipIdx k).foldl (fun b x => if x.1 < b.2 then (x.2, x.1) else b) acc).2 := by
      intro l
      induction l with
      | nil => intro k acc hacc _; simpa using hacc
      | cons x l ih =>
        intro k acc hacc hl
        simp only [List.zipIdx_cons, List.foldl_cons]
        apply ih
        · split
          · have := hl 0; simp at this; simpa using this.symm
          · exact hacc
        · intro t
          have := hl (t + 1)
          simp at this
          rw [this]; congr 1; omega
    have := key cs 1 (0, c0) (by simp) (by intro t; simp [Nat.add_comm])
    rw [h] at this
    exact this

theorem mem_cands {p : List Nat} {locks : List Bool} {wlen a i : Nat}
    (h : i ∈ cands p locks wlen a) :
    i < p.length ∧ p.getD i 0 = a ∧ locks.getD i true = false := by
  simp only [cands, List.mem_filter, List.mem_range, Bool.and_eq_true, decide_eq_true_eq,
    beq_iff_eq, Bool.not_eq_true'] at h
  exact ⟨h.1, h.2.1.2, h.2.2⟩

/-! ## the pass loop keeps its books correctly -/

theorem lock_set_keep (l : List Bool) (i x : Nat) (h : l.getD x true = true) :
    (l.set i true).getD x true = true := by
  simp only [List.getD_eq_getElem?_getD, List.getElem?_set] at *
  grind

theorem lock_set_self (l : List Bool) (i : Nat) : (l.set i true).getD i true = true := by
  simp only [List.getD_eq_getElem?_getD, List.getElem?_set]
  grind

/-- Book-keeping invariant of the pass loop, relative to the partition `p0` the
pass started from. -/
structure Inv (g : Graph) (p0 : List Nat) (s : St) : Prop where
  hp : s.p = applySwaps s.saves p0
  hlen : s.cuts.length = s.saves.length
  hcut : ∀ t, t < s.saves.length →
    s.cuts[t]? = some (edgeCut g (applySwaps (s.saves.take (t + 1)) p0))
  hrange : ∀ x ∈ s.saves, x.1 < p0.length ∧ x.2 < p0.length
  hlock : ∀ x ∈ s.saves, s.locks.getD x.1 true = true ∧ s.locks.getD x.2 true = true
  hdisj : s.saves.Pairwise Disj

theorem Inv.init (g : Graph) (p0 : List Nat) (gains : List Int) (locks : List Bool) :
    Inv g p0 { p := p0, gains := gains, locks := locks, saves := [], cuts := [] } :=
  ⟨rfl, rfl, by simp, by simp, by simp, List.Pairwise.nil⟩

theorem Inv.step {g : Graph} {p0 : List Nat} {s : St} (h : Inv g p0 s) {wlen a b i j : Nat}
    (gains : List Int)
    (hi : i ∈ cands s.p s.locks wlen a) (hj : j ∈ cands s.p s.locks wlen b) :
    Inv g p0 { p := swap s.p i j, gains := gains, locks := (s.locks.set i true).set j true,
               saves := s.saves ++ [(i, j)], cuts := s.cuts ++ [edgeCut g (swap s.p i j)] } := by
  obtain ⟨hil, -, hiu⟩ := mem_cands hi
  obtain ⟨hjl, -, hju⟩ := mem_cands hj
  have hpl : s.p.length = p0.length := by rw [h.hp]; simp
  have hnew : swap s.p i j = applySwaps (s.saves ++ [(i, j)]) p0 := by
    rw [applySwaps_append, ← h.hp]; rfl
  refine ⟨hnew, by simp [h.hlen], ?_, ?_, ?_, ?_⟩
  · intro t ht
    simp only [List.length_append, List.length_singleton] at ht
    by_cases hlt : t < s.saves.length
    · rw [List.getElem?_append_left (by rw [h.hlen]; exact hlt),
        List.take_append_of_le_length (by omega)]
      exact h.hcut t hlt
    · have ht' : t = s.saves.length := by omega
      subst ht'
      rw [← h.hlen, List.getElem?_append_right (Nat.le_refl _)]
      simp only [Nat.sub_self, List.getElem?_cons_zero]
      rw [h.hlen, List.take_of_length_le (by simp), hnew]
  · intro x hx
    rcases List.mem_append.1 hx with hx | hx
    · exact h.hrange x hx
    · simp only [List.mem_singleton] at hx; subst hx; exact ⟨hpl ▸ hil, hpl ▸ hjl⟩
  · intro x hx
    rcases List.mem_append.1 hx with hx | hx
    · exact ⟨lock_set_keep _ _ _ (lock_set_keep _ _ _ (h.hlock x hx).1),
        lock_set_keep _ _ _ (lock_set_keep _ _ _ (h.hlock x hx).2)⟩
    · simp only [List.mem_singleton] at hx; subst hx
      exact ⟨lock_set_keep _ _ _ (lock_set_self _ _), lock_set_self _ _⟩
  · rw [List.pairwise_append]
    refine ⟨h.hdisj, by simp, ?_⟩
    intro x hx y hy
    simp only [List.mem_singleton] at hy; subst hy
    obtain ⟨h1, h2⟩ := h.hlock x hx
    refine ⟨?_, ?_, ?_, ?_⟩ <;> intro he <;> simp_all

theorem flips_inv (cfg : Cfg) (g : Graph) (wlen a b mb : Nat) (p0 : List Nat) :
    ∀ (k : Nat) (s s' : St), flips cfg g wlen a b mb k s = .ok s' → Inv g p0 s → Inv g p0 s' := by
  intro k
  induction k with
  | zero => intro s s' h hinv; simp only [flips, Except.ok.injEq] at h; exact h ▸ hinv
  | succ k ih =>
    intro s s' h hinv
    simp only [flips] at h
    split at h
    · simp at h
    · split at h
      · split at h
        · simp at h
        · simp only [Except.ok.injEq] at h; exact h ▸ hinv
      · next i gi hi =>
        split at h
        · split at h
          · simp at h
          · simp only [Except.ok.injEq] at h; exact h ▸ hinv
        · next j gj hj =>
          split at h
          · simp only [Except.ok.injEq] at h; exact h ▸ hinv
          · exact ih _ _ h (hinv.step _ (argmaxLast_mem _ _ _ _ hi) (argmaxLast_mem _ _ _ _ hj))

/-! ## one pass, all passes -/

/-- What one iteration of the outer loop guarantees (repaired code). -/
theorem pass_spec (g : Graph) (wlen a b mb : Nat) (mf : Option Nat) (p : List Nat) (cut : Int)
    (r : PassRes) (h : pass {} g wlen a b mb mf p cut = .ok r) (hc : cut = edgeCut g p) :
    r.p.Perm p ∧ r.cut = edgeCut g r.p ∧ r.cut ≤ cut ∧ (r.again = true → r.cut < cut) := by
  simp only [pass] at h
  split at h
  · simp at h
  · next s hs =>
    have hinv := flips_inv {} g wlen a b mb p _ _ _ hs (Inv.init g p _ _)
    split at h
    · next hnone =>
      have hcuts : s.cuts = [] := by
        cases hcs : s.cuts with
        | nil => rfl
        | cons c cs => rw [hcs] at hnone; simp [argminFirst] at hnone
      have hsv : s.saves = [] := by
        have := hinv.hlen; rw [hcuts] at this
        exact List.eq_nil_of_length_eq_zero this.symm
      have hp : s.p = p := by rw [hinv.hp, hsv]; rfl
      simp only [Bool.false_eq_true, if_false, Except.ok.injEq] at h
      subst h
      simp [hp, hc]
    · next best bestCut hbest =>
      have hspec := argminFirst_spec _ _ _ hbest
      have hlt : best < s.saves.length := by
        rw [← hinv.hlen]
        by_cases hl : best < s.cuts.length
        · exact hl
        · rw [List.getElem?_eq_none (by omega)] at hspec; simp at hspec
      have hsplit : s.saves = s.saves.take (best + 1) ++ s.saves.drop (best + 1) :=
        (List.take_append_drop _ _).symm
      have hdrop_d : (s.saves.drop (best + 1)).Pairwise Disj :=
        hinv.hdisj.sublist (List.drop_sublist _ _)
      have htake_d : (s.saves.take (best + 1)).Pairwise Disj :=
        hinv.hdisj.sublist (List.take_sublist _ _)
      have hdrop_r : ∀ x ∈ s.saves.drop (best + 1), x.1 < p.length ∧ x.2 < p.length :=
        fun x hx => hinv.hrange x (List.mem_of_mem_drop hx)
      have htake_r : ∀ x ∈ s.saves.take (best + 1), x.1 < p.length ∧ x.2 < p.length :=
        fun x hx => hinv.hrange x (List.mem_of_mem_take hx)
      -- the rewind lands on the partition whose cut was recorded as `bestCut`
      have hp1 : applySwaps (s.saves.drop (best + 1)) s.p = applySwaps (s.saves.take (best + 1)) p := by
        have : s.p = applySwaps (s.saves.drop (best + 1)) (applySwaps (s.saves.take (best + 1)) p) := by
          rw [← applySwaps_append, ← hsplit]; exact hinv.hp
        rw [this]
        exact applySwaps_invol _ _ hdrop_d (by simpa using hdrop_r)
      have hcut1 : bestCut = edgeCut g (applySwaps (s.saves.take (best + 1)) p) := by
        have := hinv.hcut best hlt
        rw [hspec] at this
        exact Option.some.inj this
      rw [hp1] at h
      split at h
      · next hle =>
        simp only [Bool.false_eq_true, if_false, Except.ok.injEq] at h
        subst h
        rw [applySwaps_invol _ _ htake_d htake_r]
        simp [hc]
      · next hlt' =>
        simp only [Except.ok.injEq] at h
        subst h
        exact ⟨applySwaps_perm _ _ htake_r, hcut1, by simp only; omega, fun _ => by simp only; omega⟩

/-- The tracked cut is the cut of the tracked partition at every pass, the
partition stays a permutation of the input and its cut never goes up. -/
theorem passes_spec (g : Graph) (wlen a b mb : Nat) (mp mf : Option Nat) :
    ∀ (fuel iter : Nat) (p : List Nat) (cut : Int) (out : List Nat),
      passes {} g wlen a b mb mp mf fuel iter p cut = .ok out → cut = edgeCut g p →
      out.Perm p ∧ edgeCut g out ≤ edgeCut g p := by
  intro fuel
  induction fuel with
  | zero => intro iter p cut out h; simp [passes] at h
  | succ fuel ih =>
    intro iter p cut out h hc
    by_cases hstop : passLimit mp iter = true
    · simp only [passes, hstop, if_true, Outcome.ok.injEq] at h
      subst h; exact ⟨List.Perm.refl _, Int.le_refl _⟩
    · have hstop' : passLimit mp iter = false := by simpa using hstop
      simp only [passes, hstop', Bool.false_eq_true, if_false] at h
      split at h
      · simp at h
      · next r hr =>
        obtain ⟨hperm, hrc, hle, -⟩ := pass_spec g wlen a b mb mf p cut r hr hc
        split at h
        · obtain ⟨h1, h2⟩ := ih _ _ _ _ h hrc
          exact ⟨h1.trans hperm, by omega⟩
        · simp only [Outcome.ok.injEq] at h; subst h
          exact ⟨hperm, by omega⟩

/-! ## totality -/

/-- Well-formed CSR adjacency on `n` vertices: one row per vertex, every stored
column index is a vertex.  (No symmetry, sortedness or sign condition.) -/
def WF (g : Graph) (n : Nat) : Prop := g.length = n ∧ ∀ row ∈ g, ∀ e ∈ row, e.1 < n

theorem rowsCheck_of_wf {g : Graph} {n : Nat} (h : WF g n) : rowsCheck g n = none := by
  simp only [rowsCheck, List.findSome?_eq_none_iff, List.mem_range]
  intro i hi
  have hil : i < g.length := h.1 ▸ hi
  rw [List.getElem?_eq_getElem hil]
  simp only
  rw [if_neg]
  simp only [List.any_eq_true, decide_eq_true_eq, not_exists, not_and, Nat.not_le]
  intro e he
  exact h.2 _ (List.getElem_mem hil) e he

theorem flips_ok (g : Graph) (wlen a b mb : Nat) :
    ∀ (k : Nat) (s : St), rowsCheck g s.p.length = none →
      ∃ s', flips {} g wlen a b mb k s = .ok s' := by
  intro k
  induction k with
  | zero => intro s _; exact ⟨s, rfl⟩
  | succ k ih =>
    intro s hs
    simp only [flips, hs]
    split
    · exact ⟨s, rfl⟩
    · split
      · exact ⟨s, rfl⟩
      · split
        · exact ⟨s, rfl⟩
        · exact ih _ (by simpa using hs)

theorem pass_ok (g : Graph) (wlen a b mb : Nat) (mf : Option Nat) (p : List Nat) (cut : Int)
    (hwf : WF g p.length) : ∃ r, pass {} g wlen a b mb mf p cut = .ok r := by
  obtain ⟨s, hs⟩ := flips_ok g wlen a b mb (flipBound p.length mf)
    { p := p, gains := List.replicate p.length 0, locks := List.replicate p.length false,
      saves := [], cuts := [] } (rowsCheck_of_wf hwf)
  simp only [pass, hs]
  split
  · exact ⟨_, rfl⟩
  · split
    · exact ⟨_, rfl⟩
    · exact ⟨_, rfl⟩

/-! ### the cut is bounded below -/

theorem sum_sublist_ge (l l' : List (Nat × Int)) (h : l'.Sublist l) :
    -(((l.map (fun e => e.2.natAbs)).sum : Nat) : Int) ≤ (l'.map (·.2)).sum := by
  induction h with
  | slnil => simp
  | cons x _ ih => simp only [List.map_cons, List.sum_cons]; omega
  | cons_cons x _ ih => simp only [List.map_cons, List.sum_cons]; omega

theorem rowCut_ge (p : List Nat) (v : Nat) (row : List (Nat × Int)) :
    -(((row.map (fun e => e.2.natAbs)).sum : Nat) : Int) ≤ rowCut p v row :=
  sum_sublist_ge _ _ (List.filter_sublist.trans (List.takeWhile_sublist _))

theorem edgeCut_ge (g : Graph) (p : List Nat) : -(absSum g : Int) ≤ edgeCut g p := by
  unfold edgeCut absSum
  suffices h : ∀ k, -(((g.map (fun row => (row.map (fun e => e.2.natAbs)).sum)).sum : Nat) : Int) ≤
      ((g.zipIdx k).map (fun x => rowCut p x.2 x.1)).sum from h 0
  induction g with
  | nil => intro k; simp
  | cons row g ih =>
    intro k
    simp only [List.map_cons, List.sum_cons, List.zipIdx_cons]
    have h1 := rowCut_ge p k row
    have h2 := ih (k + 1)
    omega

theorem passes_ok (g : Graph) (wlen a b mb : Nat) (mp mf : Option Nat) :
    ∀ (fuel iter : Nat) (p : List Nat) (cut : Int), WF g p.length → cut = edgeCut g p →
      (cut + absSum g).toNat < fuel →
      ∃ out, passes {} g wlen a b mb mp mf fuel iter p cut = .ok out := by
  intro fuel
  induction fuel with
  | zero => intro iter p cut _ _ h; omega
  | succ fuel ih =>
    intro iter p cut hwf hc hf
    by_cases hstop : passLimit mp iter = true
    · exact ⟨p, by simp only [passes, hstop, if_true]⟩
    · have hstop' : passLimit mp iter = false := by simpa using hstop
      obtain ⟨r, hr⟩ := pass_ok g wlen a b mb mf p cut hwf
      obtain ⟨hperm, hrc, -, hlt⟩ := pass_spec g wlen a b mb mf p cut r hr hc
      simp only [passes, hstop', Bool.false_eq_true, if_false, hr]
      split
      · next hag =>
        have h1 := hlt hag
        have h2 := edgeCut_ge g r.p
        have h3 := edgeCut_ge g p
        refine ih _ _ _ (by rw [hperm.length_eq]; exact hwf) hrc ?_
        omega
      · exact ⟨_, rfl⟩

/-! ### `unique_ids` of a two-way partition -/

theorem uniqueAux_mem (seen l : List Nat) (x : Nat) :
    x ∈ uniqueAux seen l ↔ x ∈ l ∧ x ∉ seen := by
  induction l generalizing seen with
  | nil => simp [uniqueAux]
  | cons y l ih =>
    simp only [uniqueAux]
    split
    · next hc =>
      rw [ih]
      have : y ∈ seen := by simpa using hc
      grind
    · next hc =>
      have : y ∉ seen := by simpa using hc
      simp only [List.mem_cons, ih]
      grind

theorem uniqueAux_nodup (seen l : List Nat) : (uniqueAux seen l).Nodup := by
  induction l generalizing seen with
  | nil => simp [uniqueAux]
  | cons y l ih =>
    simp only [uniqueAux]
    split
    · exact ih _
    · rw [List.nodup_cons]
      refine ⟨?_, ih _⟩
      rw [uniqueAux_mem]
      simp

/-- Two-way partition with both parts non-empty: exactly two distinct labels occur. -/
def TwoWay (p : List Nat) : Prop :=
  ∃ a b, a ≠ b ∧ a ∈ p ∧ b ∈ p ∧ ∀ x ∈ p, x = a ∨ x = b

theorem uniqueIds_two {p : List Nat} (h : TwoWay p) :
    ∃ a b, uniqueIds p = [a, b] ∧ a ≠ b ∧ a ∈ p ∧ b ∈ p := by
  obtain ⟨a, b, hab, ha, hb, hall⟩ := h
  have hmem : ∀ x, x ∈ uniqueIds p ↔ x ∈ p := by
    intro x; simp [uniqueIds, uniqueAux_mem]
  have hnd : (uniqueIds p).Nodup := uniqueAux_nodup _ _
  generalize uniqueIds p = u at hmem hnd
  have ha' := (hmem a).2 ha
  have hb' := (hmem b).2 hb
  have hall' : ∀ x ∈ u, x = a ∨ x = b := fun x hx => hall x ((hmem x).1 hx)
  match u, hnd, ha', hb', hall', hmem with
  | [], _, ha', _, _, _ => simp at ha'
  | [x], _, ha', hb', _, _ => simp at ha' hb'; omega
  | [x, y], hnd, _, _, _, hmem =>
    refine ⟨x, y, rfl, ?_, (hmem x).1 (by simp), (hmem y).1 (by simp)⟩
    simp at hnd; exact hnd
  | x :: y :: z :: r, hnd, _, _, hall', _ =>
    exfalso
    have hx := hall' x (by simp)
    have hy := hall' y (by simp)
    have hz := hall' z (by simp)
    simp only [List.nodup_cons, List.mem_cons, not_or] at hnd
    grind

end Coupe.Kl
