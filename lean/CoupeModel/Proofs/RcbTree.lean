import CoupeModel.Model.Rcb
import CoupeModel.Proofs.Rcb
import CoupeModel.Proofs.RcbBalance

/-!
# C04 along the recursion tree of `rcb_recurse`

`Proofs/RcbBalance.lean` is about ONE cut search.  This file threads its results through
`recurse`:

* `recurseT` is `recurse` with three more ghost fields per node (the last search interval
  and whether `max` moved: the inputs of the premise `Resolved`).  `recurseT_erase`:
  forgetting the extra fields gives exactly the tree of `recurse` (same outcome on every
  input), so theorems about `recurseT` are theorems about the recursion the driver runs.
* along the recursion, for EVERY node and every exit (exact arithmetic, weights ≥ 0):
  (i) the `sum` handed down equals the true weight of the node's items,
  (ii) the bounding box handed down contains the node's items on every axis,
  (iii) the node's items are the points listed by `Tree.members` (the tree of C03).
* hence `split_balanced_partial` applies at every node whose search meets its premise.
-/

namespace Coupe.Rcb

variable {α : Type} [Coord α]

/-! ## The instrumented recursion -/

/-- A bisection node's record plus the ghost outputs of its cut search. -/
structure NodeTrace (α : Type) where
  info : NodeInfo α
  /-- the interval when the search returned -/
  lastMin : α
  lastMax : α
  /-- whether `max` was ever assigned -/
  maxMoved : Bool
deriving Repr

/-- Relabel the bisection nodes of a tree. -/
def Tree.map {ι κ : Type} (f : ι → κ) : Tree ι → Tree κ
  | .empty => .empty
  | .leaf p ids => .leaf p ids
  | .node i lo hi => .node (f i) (lo.map f) (hi.map f)

/-- A property of every bisection node (record, low subtree, high subtree). -/
def Tree.AllNodes {ι : Type} (P : ι → Tree ι → Tree ι → Prop) : Tree ι → Prop
  | .empty => True
  | .leaf _ _ => True
  | .node i lo hi => P i lo hi ∧ lo.AllNodes P ∧ hi.AllNodes P

def Res.map {β γ : Type} (f : β → γ) : Res β → Res γ
  | .ok v => .ok (f v)
  | .oob => .oob
  | .fuel => .fuel

/-- `recurse`, recording also the last interval of every search (ghost data). -/
def recurseT (withinTol : Int → Int → Bool) (cfg : Cfg) :
    Nat → List (Item α) → Nat → Nat → Int → List α → List α → Res (Tree (NodeTrace α))
  | _, [], _, _, _, _, _ => .ok .empty
  | 0, items, iterId, _, _, _, _ => .ok (.leaf iterId (items.map (·.id)))
  | k + 1, items, iterId, coord, sum, lo, hi =>
    let min := lo.getD coord Coord.zero
    let max := hi.getD coord Coord.zero
    match split withinTol coord sum items cfg.fuel 0 min max none false with
    | .oob => .oob
    | .fuel => .fuel
    | .ok r =>
      match recurseT withinTol cfg k r.left (2 * iterId + 1) ((coord + 1) % cfg.dim) r.weightLeft
              lo (hi.set coord r.splitPos) with
      | .oob => .oob
      | .fuel => .fuel
      | .ok tl =>
        match recurseT withinTol cfg k r.right (2 * iterId + 2) ((coord + 1) % cfg.dim)
                (sum - r.weightLeft) (lo.set coord r.splitPos) hi with
        | .oob => .oob
        | .fuel => .fuel
        | .ok tr =>
          .ok (.node ⟨⟨coord, sum, min, max, r.weightLeft, r.splitPos, r.exit, r.iters⟩,
            r.lastMin, r.lastMax, r.maxMoved⟩ tl tr)

/-- `runTree` with the instrumented recursion. -/
def runTreeT (withinTol : Int → Int → Bool) (cfg : Cfg) (iter : Nat) (pts : List (List α))
    (ws : List Int) (lo hi : List α) : Res (Tree (NodeTrace α)) :=
  recurseT withinTol cfg iter (mkItems pts ws) 0 0 ws.sum lo hi

/-- Forgetting the ghost fields gives the recursion the driver executes. -/
theorem recurseT_erase (wt : Int → Int → Bool) (cfg : Cfg) :
    ∀ (k : Nat) (items : List (Item α)) (iterId coord : Nat) (sum : Int) (lo hi : List α),
      Res.map (Tree.map NodeTrace.info) (recurseT wt cfg k items iterId coord sum lo hi) =
        recurse wt cfg k items iterId coord sum lo hi := by
  intro k
  induction k with
  | zero =>
    intro items iterId coord sum lo hi
    cases items <;> simp [recurseT, recurse, Res.map, Tree.map]
  | succ k ih =>
    intro items iterId coord sum lo hi
    cases items with
    | nil => simp [recurseT, recurse, Res.map, Tree.map]
    | cons x xs =>
      simp only [recurseT, recurse]
      cases hs : split wt coord sum (x :: xs) cfg.fuel 0 (lo.getD coord Coord.zero)
          (hi.getD coord Coord.zero) none false with
      | oob => rfl
      | fuel => rfl
      | ok r =>
        simp only
        rw [← ih r.left, ← ih r.right]
        cases recurseT wt cfg k r.left (2 * iterId + 1) ((coord + 1) % cfg.dim) r.weightLeft lo
            (hi.set coord r.splitPos) with
        | oob => rfl
        | fuel => rfl
        | ok tl =>
          simp only [Res.map]
          cases recurseT wt cfg k r.right (2 * iterId + 2) ((coord + 1) % cfg.dim)
              (sum - r.weightLeft) (lo.set coord r.splitPos) hi with
          | oob => rfl
          | fuel => rfl
          | ok tr => rfl

theorem runTreeT_erase (wt : Int → Int → Bool) (cfg : Cfg) (iter : Nat) (pts : List (List α))
    (ws : List Int) (lo hi : List α) :
    Res.map (Tree.map NodeTrace.info) (runTreeT wt cfg iter pts ws lo hi) =
      runTree wt cfg iter pts ws lo hi :=
  recurseT_erase wt cfg iter _ _ _ _ _ _

/-- Every run of `runTree` that returns is the erasure of a run of `runTreeT`. -/
theorem runTree_has_trace (wt : Int → Int → Bool) (cfg : Cfg) (iter : Nat) (pts : List (List α))
    (ws : List Int) (lo hi : List α) (t : Tree (NodeInfo α))
    (h : runTree wt cfg iter pts ws lo hi = .ok t) :
    ∃ tt, runTreeT wt cfg iter pts ws lo hi = .ok tt ∧ tt.map NodeTrace.info = t := by
  have he := runTreeT_erase wt cfg iter pts ws lo hi
  rw [h] at he
  cases hT : runTreeT wt cfg iter pts ws lo hi with
  | oob => rw [hT] at he; cases he
  | fuel => rw [hT] at he; cases he
  | ok tt =>
    rw [hT] at he
    simp only [Res.map, Res.ok.injEq] at he
    exact ⟨tt, rfl, he⟩

theorem members_map {ι κ : Type} (f : ι → κ) (t : Tree ι) : (t.map f).members = t.members := by
  induction t with
  | empty => rfl
  | leaf p ids => rfl
  | node i lo hi ihl ihh => simp [Tree.map, Tree.members, ihl, ihh]

/-! ## Where `split_pos` lies -/

/-- The reported `split_pos` is the last `max` on the all-left exit and the last target
`Coord.mid min max` (`min / 2.0 + max / 2.0` in the code) on every other exit. -/
theorem split_pos_aux (wt : Int → Int → Bool) (coord : Nat) (sum : Int) (items : List (Item α)) :
    ∀ (fuel it : Nat) (mn mx : α) (prev : Option Nat) (mv : Bool) (out : SplitOut α),
      split wt coord sum items fuel it mn mx prev mv = .ok out →
      (out.exit = .allLeft ∧ out.splitPos = out.lastMax) ∨
      (out.exit ≠ .allLeft ∧ out.splitPos = Coord.mid out.lastMin out.lastMax) := by
  intro fuel
  induction fuel with
  | zero => intro it mn mx prev mv out h; simp [split] at h
  | succ fuel ih =>
    intro it mn mx prev mv out h
    simp only [split] at h
    split at h
    · split at h
      · cases h; exact Or.inl ⟨rfl, rfl⟩
      · exact ih _ _ _ _ _ _ h
    · next idx nd hn =>
      split at h
      · next e hex =>
        split at h
        · cases h
        · cases h
        · next l r hr =>
          cases h
          refine Or.inr ⟨?_, rfl⟩
          simp only
          intro hc
          subst hc
          split at hex
          · cases hex
          · split at hex
            · cases hex
            · split at hex
              · cases hex
              · cases hex
      · split at h
        · exact ih _ _ _ _ _ _ h
        · exact ih _ _ _ _ _ _ h

/-! ## From the items of a node to the points and weights of the caller -/

/-- Every item carries the coordinates and the weight of the point its `id` names. -/
def ItemsOf (pts : List (List Int)) (ws : List Int) (items : List (Item Int)) : Prop :=
  ∀ x ∈ items, (∀ c, x.key c = ptKey pts x.id c) ∧ x.w = ws.getD x.id 0

theorem ItemsOf.mono {pts : List (List Int)} {ws : List Int} {L L' : List (Item Int)}
    (h : ItemsOf pts ws L) (hsub : ∀ x ∈ L', x ∈ L) : ItemsOf pts ws L' :=
  fun x hx => h x (hsub x hx)

theorem wOf_cons (ws : List Int) (i : Nat) (ids : List Nat) :
    wOf ws (i :: ids) = ws.getD i 0 + wOf ws ids := by
  simp [wOf]

theorem wOf_append (ws : List Int) (a b : List Nat) : wOf ws (a ++ b) = wOf ws a + wOf ws b := by
  simp [wOf]

theorem wOf_perm (ws : List Int) {a b : List Nat} (h : a.Perm b) : wOf ws a = wOf ws b := by
  induction h with
  | nil => rfl
  | cons x _ ih => simp only [wOf_cons, ih]
  | swap x y l => simp only [wOf_cons]; omega
  | trans _ _ ih1 ih2 => rw [ih1, ih2]

theorem wOf_items {pts : List (List Int)} {ws : List Int} {L : List (Item Int)}
    (h : ItemsOf pts ws L) : wOf ws (L.map (·.id)) = sumW L := by
  induction L with
  | nil => rfl
  | cons x xs ih =>
    have hx := (h x List.mem_cons_self).2
    rw [List.map_cons, wOf_cons, sumW_cons, ← hx,
      ih (h.mono (fun y hy => List.mem_cons_of_mem _ hy))]

theorem wOf_of_perm {pts : List (List Int)} {ws : List Int} {L : List (Item Int)} {ids : List Nat}
    (h : ItemsOf pts ws L) (hp : ids.Perm (L.map (·.id))) : wOf ws ids = sumW L := by
  rw [wOf_perm ws hp, wOf_items h]

theorem Lw_perm {L L' : List (Item Int)} (h : L.Perm L') (coord : Nat) (v : Int) :
    Lw L coord v = Lw L' coord v :=
  sumW_perm (h.filter _)

/-- The weight of the members strictly left of the point `y.id` is `Lw` at `y`'s key. -/
theorem wOf_filter_lt {pts : List (List Int)} {ws : List Int} {L : List (Item Int)} {ids : List Nat}
    (h : ItemsOf pts ws L) (hp : ids.Perm (L.map (·.id))) (coord : Nat) (y : Item Int) (hy : y ∈ L) :
    wOf ws (ids.filter (fun j => Coord.lt (ptKey pts j coord) (ptKey pts y.id coord))) =
      Lw L coord (y.key coord) := by
  rw [wOf_perm ws (hp.filter _), List.filter_map,
    wOf_items (h.mono (fun x hx => (List.mem_filter.1 hx).1))]
  unfold Lw
  apply sumW_filter_congr
  intro x hx
  simp only [Function.comp, ← (h x hx).1 coord, ← (h y hy).1 coord, int_lt]

theorem achievable_mem_iff {pts : List (List Int)} {ws : List Int} {L : List (Item Int)}
    {ids : List Nat} (h : ItemsOf pts ws L) (hp : ids.Perm (L.map (·.id))) (coord : Nat) (a : Int) :
    a ∈ achievable pts ws coord ids ↔ a ∈ achievableItems L coord := by
  simp only [achievable, achievableItems, List.mem_cons, List.mem_map]
  rw [wOf_of_perm h hp]
  constructor
  · rintro (rfl | ⟨i, hi, rfl⟩)
    · exact Or.inl rfl
    · obtain ⟨y, hy, rfl⟩ := List.mem_map.1 (hp.mem_iff.1 hi)
      exact Or.inr ⟨y, hy, (wOf_filter_lt h hp coord y hy).symm⟩
  · rintro (rfl | ⟨y, hy, rfl⟩)
    · exact Or.inl rfl
    · exact Or.inr ⟨y.id, hp.mem_iff.2 (List.mem_map.2 ⟨y, hy, rfl⟩), wOf_filter_lt h hp coord y hy⟩

theorem achievableItems_perm_mem {L L' : List (Item Int)} (h : L.Perm L') (coord : Nat) (a : Int) :
    a ∈ achievableItems L coord ↔ a ∈ achievableItems L' coord := by
  simp only [achievableItems, List.mem_cons, List.mem_map]
  rw [sumW_perm h]
  constructor
  · rintro (rfl | ⟨y, hy, rfl⟩)
    · exact Or.inl rfl
    · exact Or.inr ⟨y, h.mem_iff.1 hy, (Lw_perm h coord _).symm⟩
  · rintro (rfl | ⟨y, hy, rfl⟩)
    · exact Or.inl rfl
    · exact Or.inr ⟨y, h.mem_iff.2 hy, Lw_perm h coord _⟩

theorem bracketsHalf_congr {A B : List Int} (h : ∀ a, a ∈ A ↔ a ∈ B) (wl W : Int) :
    bracketsHalf A wl W = bracketsHalf B wl W := by
  unfold bracketsHalf
  have h1 : A.contains wl = B.contains wl := by
    rw [Bool.eq_iff_iff, List.contains_iff_mem, List.contains_iff_mem]; exact h wl
  have h2 : ∀ p : Int → Bool, A.all p = B.all p := by
    intro p
    rw [Bool.eq_iff_iff, List.all_eq_true, List.all_eq_true]
    exact ⟨fun g a ha => g a ((h a).2 ha), fun g a ha => g a ((h a).1 ha)⟩
  rw [h1, h2]

/-- C04's clause at a node, in the vocabulary of the caller (`nodeOk`: points, weights,
member lists), is the clause in the vocabulary of the search (`sumW`, `achievableItems`)
whenever the members are the ids of the items. -/
theorem nodeOk_of_items (wt : Int → Int → Bool) {pts : List (List Int)} {ws : List Int}
    {items L R : List (Item Int)} {lom him : List Nat} (coord : Nat)
    (hI : ItemsOf pts ws items) (hperm : (L ++ R).Perm items)
    (hl : lom.Perm (L.map (·.id))) (hr : him.Perm (R.map (·.id))) :
    nodeOk wt pts ws coord lom him =
      (wt (sumW L) (sumW items) || bracketsHalf (achievableItems items coord) (sumW L) (sumW items)) := by
  have hIlr : ItemsOf pts ws (L ++ R) := hI.mono (fun x hx => hperm.mem_iff.1 hx)
  have hIl : ItemsOf pts ws L := hIlr.mono (fun x hx => List.mem_append_left _ hx)
  have hall : (lom ++ him).Perm ((L ++ R).map (·.id)) := by
    rw [List.map_append]; exact hl.append hr
  unfold nodeOk
  simp only
  rw [wOf_of_perm hIl hl, wOf_of_perm hIlr hall, sumW_perm hperm]
  congr 1
  apply bracketsHalf_congr
  intro a
  rw [achievable_mem_iff hIlr hall coord a, achievableItems_perm_mem hperm coord a]

/-! ## The premise, in the vocabulary of the caller -/

/-- `Resolved` over point indices: the members whose coordinate lies in the final search
interval carry at most one distinct coordinate value. -/
def ResolvedPts (pts : List (List Int)) (coord : Nat) (ids : List Nat) (mn mx : Int) (moved : Bool) :
    Prop :=
  ∀ i ∈ ids, ∀ j ∈ ids, InIv mn mx moved (ptKey pts i coord) → InIv mn mx moved (ptKey pts j coord) →
    ptKey pts i coord = ptKey pts j coord

def resolvedPtsB (pts : List (List Int)) (coord : Nat) (ids : List Nat) (mn mx : Int) (moved : Bool) :
    Bool :=
  ids.all (fun i => ids.all (fun j =>
    !(inIvB mn mx moved (ptKey pts i coord)) || !(inIvB mn mx moved (ptKey pts j coord)) ||
      decide (ptKey pts i coord = ptKey pts j coord)))

theorem resolvedPtsB_iff (pts : List (List Int)) (coord : Nat) (ids : List Nat) (mn mx : Int)
    (moved : Bool) : resolvedPtsB pts coord ids mn mx moved = true ↔ ResolvedPts pts coord ids mn mx moved := by
  unfold resolvedPtsB ResolvedPts
  simp only [List.all_eq_true, Bool.or_eq_true, Bool.not_eq_true', decide_eq_true_eq]
  constructor
  · intro h x hx y hy hxi hyi
    rcases h x hx y hy with (h1 | h1) | h1
    · rw [(inIvB_iff ..).2 hxi] at h1; cases h1
    · rw [(inIvB_iff ..).2 hyi] at h1; cases h1
    · exact h1
  · intro h x hx y hy
    by_cases hxi : inIvB mn mx moved (ptKey pts x coord) = true
    · by_cases hyi : inIvB mn mx moved (ptKey pts y coord) = true
      · exact Or.inr (h x hx y hy ((inIvB_iff ..).1 hxi) ((inIvB_iff ..).1 hyi))
      · exact Or.inl (Or.inr (by simpa using hyi))
    · exact Or.inl (Or.inl (by simpa using hxi))

theorem resolved_of_pts {pts : List (List Int)} {ws : List Int} {items : List (Item Int)}
    {ids : List Nat} (hI : ItemsOf pts ws items) (hp : ids.Perm (items.map (·.id))) (coord : Nat)
    (mn mx : Int) (moved : Bool) (h : ResolvedPts pts coord ids mn mx moved) :
    Resolved items coord mn mx moved := by
  intro x hx y hy hxi hyi
  have hxm : x.id ∈ ids := hp.mem_iff.2 (List.mem_map.2 ⟨x, hx, rfl⟩)
  have hym : y.id ∈ ids := hp.mem_iff.2 (List.mem_map.2 ⟨y, hy, rfl⟩)
  rw [(hI x hx).1 coord] at hxi ⊢
  rw [(hI y hy).1 coord] at hyi ⊢
  exact h _ hxm _ hym hxi hyi

/-- The premise of `split_balanced_partial` at a node of the instrumented tree: the search
left through the tolerance test, or its final interval is resolved. -/
def NodePremise (pts : List (List Int)) (tr : NodeTrace Int) (lo hi : Tree (NodeTrace Int)) : Prop :=
  tr.info.exit = .tolerance ∨
    ResolvedPts pts tr.info.coord (lo.members ++ hi.members) tr.lastMin tr.lastMax tr.maxMoved

def nodePremiseB (pts : List (List Int)) (tr : NodeTrace Int) (lo hi : Tree (NodeTrace Int)) : Bool :=
  tr.info.exit == .tolerance ||
    resolvedPtsB pts tr.info.coord (lo.members ++ hi.members) tr.lastMin tr.lastMax tr.maxMoved

theorem nodePremiseB_iff (pts : List (List Int)) (tr : NodeTrace Int) (lo hi : Tree (NodeTrace Int)) :
    nodePremiseB pts tr lo hi = true ↔ NodePremise pts tr lo hi := by
  unfold nodePremiseB NodePremise
  rw [Bool.or_eq_true, resolvedPtsB_iff, beq_iff_eq]

/-! ## One search, as seen by `rcb_recurse` -/

/-- (= `jinv_of_box` of Props/C04) a box containing the items brackets the half. -/
theorem jinv_of_box_aux (coord : Nat) (items : List (Item Int)) (hw : ∀ x ∈ items, 0 ≤ x.w)
    (mn mx : Int) (hne : items ≠ []) (hbox : ∀ x ∈ items, mn ≤ x.key coord ∧ x.key coord ≤ mx) :
    Jinv items coord (sumW items) mn mx false := by
  have hW0 : 0 ≤ sumW items := by
    have := sumW_filter_le_total items (fun _ => false) hw
    rw [List.filter_eq_nil_iff.2 (by intro x _; simp)] at this
    simpa [sumW] using this
  refine ⟨?_, ?_, ?_⟩
  · cases items with
    | nil => exact absurd rfl hne
    | cons x xs => have := hbox x List.mem_cons_self; omega
  · have : Lw items coord mn = 0 := by
      unfold Lw
      rw [List.filter_eq_nil_iff.2 (by intro x hx; have := hbox x hx; simp; omega)]
      rfl
    omega
  · simp only [Bool.false_eq_true, if_false]
    have : Lle items coord mx = sumW items :=
      sumW_filter_total items _ (by intro x hx; have := hbox x hx; simp; omega)
    omega

/-- (= `split_balanced_partial` of Props/C04.) -/
theorem split_balanced_aux (wt : Int → Int → Bool) (coord : Nat) (items : List (Item Int))
    (hw : ∀ x ∈ items, 0 ≤ x.w) (fuel : Nat) (mn mx : Int) (out : SplitOut Int)
    (hJ : Jinv items coord (sumW items) mn mx false)
    (h : split wt coord (sumW items) items fuel 0 mn mx none false = .ok out)
    (hprem : out.exit = .tolerance ∨ Resolved items coord out.lastMin out.lastMax out.maxMoved) :
    wt (sumW out.left) (sumW items) = true ∨
      bracketsHalf (achievableItems items coord) (sumW out.left) (sumW items) = true := by
  rcases hprem with he | hres
  · left
    rw [← (split_reported_weight_aux wt coord items hw fuel mn mx out h).1]
    exact split_exit_tol_aux wt coord _ items fuel 0 mn mx none false out h he
  · right
    exact split_exit_resolved_aux wt coord items hw fuel mn mx out hJ h hres

/-- The two sides a search returns lie on their sides of the reported `split_pos`
(whichever exit; started from a box containing the items): this is what makes the clipped
boxes handed to the children contain the children's items. -/
theorem split_sides (wt : Int → Int → Bool) (coord : Nat) (items : List (Item Int))
    (hw : ∀ x ∈ items, 0 ≤ x.w) (fuel : Nat) (mn mx : Int) (out : SplitOut Int)
    (hJ : Jinv items coord (sumW items) mn mx false)
    (h : split wt coord (sumW items) items fuel 0 mn mx none false = .ok out) :
    (∀ x ∈ out.left, x.key coord ≤ out.splitPos) ∧ (∀ x ∈ out.right, out.splitPos ≤ x.key coord) ∧
      (out.left ++ out.right).Perm items := by
  obtain ⟨hJ', hf⟩ := split_facts True wt coord _ items hw rfl fuel 0 mn mx none false out
    (fun _ => hJ) h
  obtain ⟨hJ1, _, _⟩ := hJ' trivial
  have hsp := split_pos_aux wt coord (sumW items) items fuel 0 mn mx none false out h
  simp only [int_mid, int_half, int_add] at hsp
  rcases hf with ⟨he, h1, h2, _, hall⟩ | ⟨hne, p, hpm, hpt, hpmin, hperm, hl, hr, _⟩
  · rcases hsp with ⟨_, hsp⟩ | ⟨hne, _⟩
    · rw [h1, h2, hsp]
      refine ⟨?_, (by intro x hx; cases hx), (by simp)⟩
      intro x hx
      have := hall x hx
      omega
    · exact absurd he hne
  · rcases hsp with ⟨he, _⟩ | ⟨_, hsp⟩
    · exact absurd he hne
    · rw [hsp]
      refine ⟨?_, ?_, hperm⟩
      · intro x hx
        have hxm : x ∈ items := hperm.mem_iff.1 (List.mem_append_left _ hx)
        have h1 := hl x hx
        rcases Int.lt_or_le (x.key coord) ((out.lastMin + out.lastMax) / 2) with h2 | h2
        · omega
        · have := hpmin x hxm h2; omega
      · intro x hx
        have h1 := hr x hx
        omega

/-! ## The invariant of the recursion -/

theorem getD_set_self {β : Type} (l : List β) (i : Nat) (v d : β) (h : i < l.length) :
    (l.set i v).getD i d = v := by
  rw [List.getD_eq_getElem?_getD, List.getElem?_set_self h]; rfl

theorem getD_set_ne {β : Type} (l : List β) (i j : Nat) (v d : β) (h : i ≠ j) :
    (l.set i v).getD j d = l.getD j d := by
  rw [List.getD_eq_getElem?_getD, List.getElem?_set_ne h, ← List.getD_eq_getElem?_getD]

/-- (ii) the bounding box `lo`, `hi` has `dim` coordinates and contains the items on every
axis. -/
def BoxOk (dim : Nat) (items : List (Item Int)) (lo hi : List Int) : Prop :=
  lo.length = dim ∧ hi.length = dim ∧
    ∀ x ∈ items, ∀ c, c < dim → lo.getD c Coord.zero ≤ x.key c ∧ x.key c ≤ hi.getD c Coord.zero

/-- What holds at EVERY bisection node of a run in exact arithmetic, whichever exit its
search took: the weights the code carries are the true weights of the members, the interval
the search starts from contains the members, the two sides lie on their sides of
`split_pos`; and the node meets C04's clause if its search meets the premise. -/
def NodeFacts (wt : Int → Int → Bool) (pts : List (List Int)) (ws : List Int) (tr : NodeTrace Int)
    (lo hi : Tree (NodeTrace Int)) : Prop :=
  tr.info.sum = wOf ws (lo.members ++ hi.members) ∧
  tr.info.weightLeft = wOf ws lo.members ∧
  (∀ i ∈ lo.members ++ hi.members,
    tr.info.min ≤ ptKey pts i tr.info.coord ∧ ptKey pts i tr.info.coord ≤ tr.info.max) ∧
  (∀ i ∈ lo.members, ptKey pts i tr.info.coord ≤ tr.info.splitPos) ∧
  (∀ j ∈ hi.members, tr.info.splitPos ≤ ptKey pts j tr.info.coord) ∧
  (NodePremise pts tr lo hi → nodeOk wt pts ws tr.info.coord lo.members hi.members = true)

theorem recurseT_facts (wt : Int → Int → Bool) (cfg : Cfg) (pts : List (List Int)) (ws : List Int)
    (hdim : 0 < cfg.dim) :
    ∀ (k : Nat) (items : List (Item Int)) (iterId coord : Nat) (sum : Int) (lo hi : List Int)
      (tt : Tree (NodeTrace Int)),
      (∀ x ∈ items, 0 ≤ x.w) → ItemsOf pts ws items → sum = sumW items → coord < cfg.dim →
      BoxOk cfg.dim items lo hi →
      recurseT wt cfg k items iterId coord sum lo hi = .ok tt →
      tt.members.Perm (items.map (·.id)) ∧ tt.AllNodes (NodeFacts wt pts ws) := by
  intro k
  induction k with
  | zero =>
    intro items iterId coord sum lo hi tt _ _ _ _ _ h
    cases items with
    | nil => simp [recurseT] at h; subst h; simp [Tree.members, Tree.AllNodes]
    | cons x xs => simp [recurseT] at h; subst h; simp [Tree.members, Tree.AllNodes]
  | succ k ih =>
    intro items iterId coord sum lo hi tt hw hI hsum hc hbox h
    cases items with
    | nil => simp [recurseT] at h; subst h; simp [Tree.members, Tree.AllNodes]
    | cons x xs =>
      simp only [recurseT] at h
      split at h
      · cases h
      · cases h
      · next r hr =>
        subst hsum
        obtain ⟨hlo, hhi, hin⟩ := hbox
        have hbc : ∀ y ∈ x :: xs, lo.getD coord Coord.zero ≤ y.key coord ∧
            y.key coord ≤ hi.getD coord Coord.zero := fun y hy => hin y hy coord hc
        have hJ := jinv_of_box_aux coord (x :: xs) hw _ _ (by simp) hbc
        obtain ⟨hsl, hsr, hperm⟩ := split_sides wt coord (x :: xs) hw cfg.fuel _ _ r hJ hr
        obtain ⟨hwl, hwr⟩ := split_reported_weight_aux wt coord (x :: xs) hw cfg.fuel _ _ r hr
        have hml : ∀ y ∈ r.left, y ∈ x :: xs := fun y hy =>
          hperm.mem_iff.1 (List.mem_append_left _ hy)
        have hmr : ∀ y ∈ r.right, y ∈ x :: xs := fun y hy =>
          hperm.mem_iff.1 (List.mem_append_right _ hy)
        have hc' : (coord + 1) % cfg.dim < cfg.dim := Nat.mod_lt _ hdim
        split at h
        · cases h
        · cases h
        next tl hl =>
        split at h
        · cases h
        · cases h
        next trr htr =>
        cases h
        obtain ⟨pl, al⟩ := ih r.left _ _ _ _ _ tl (fun y hy => hw y (hml y hy)) (hI.mono hml) hwl hc'
          ⟨hlo, by rw [List.length_set]; exact hhi, by
            intro y hy c hcd
            have := hin y (hml y hy) c hcd
            by_cases hcc : coord = c
            · subst hcc
              rw [getD_set_self _ _ _ _ (by omega)]
              exact ⟨this.1, hsl y hy⟩
            · rw [getD_set_ne _ _ _ _ _ hcc]; exact this⟩ hl
        obtain ⟨pr, ar⟩ := ih r.right _ _ _ _ _ trr (fun y hy => hw y (hmr y hy)) (hI.mono hmr) hwr hc'
          ⟨by rw [List.length_set]; exact hlo, hhi, by
            intro y hy c hcd
            have := hin y (hmr y hy) c hcd
            by_cases hcc : coord = c
            · subst hcc
              rw [getD_set_self _ _ _ _ (by omega)]
              exact ⟨hsr y hy, this.2⟩
            · rw [getD_set_ne _ _ _ _ _ hcc]; exact this⟩ htr
        have hIlr : ItemsOf pts ws (r.left ++ r.right) := hI.mono (fun y hy => hperm.mem_iff.1 hy)
        have hall : (tl.members ++ trr.members).Perm ((r.left ++ r.right).map (·.id)) := by
          rw [List.map_append]; exact pl.append pr
        have hall' : (tl.members ++ trr.members).Perm ((x :: xs).map (·.id)) :=
          hall.trans (hperm.map _)
        -- a member is the id of an item
        have hmem : ∀ (L : List (Item Int)) (ids : List Nat), ids.Perm (L.map (·.id)) →
            (∀ y ∈ L, y ∈ x :: xs) → ∀ i ∈ ids, ∃ y ∈ L, ptKey pts i coord = y.key coord := by
          intro L ids hp hsub i hi
          obtain ⟨y, hy, rfl⟩ := List.mem_map.1 (hp.mem_iff.1 hi)
          exact ⟨y, hy, ((hI y (hsub y hy)).1 coord).symm⟩
        refine ⟨hall', ⟨?_, ?_, ?_, ?_, ?_, ?_⟩, al, ar⟩
        · show sumW (x :: xs) = _
          rw [wOf_of_perm hIlr hall, sumW_perm hperm]
        · show r.weightLeft = _
          rw [wOf_of_perm (hI.mono hml) pl, hwl]
        · intro i hi
          obtain ⟨y, hy, e⟩ := hmem (r.left ++ r.right) _ hall (fun y hy => hperm.mem_iff.1 hy) i hi
          show _ ≤ ptKey pts i coord ∧ ptKey pts i coord ≤ _
          rw [e]
          exact hbc y (hperm.mem_iff.1 hy)
        · intro i hi
          obtain ⟨y, hy, e⟩ := hmem r.left _ pl hml i hi
          show ptKey pts i coord ≤ r.splitPos
          rw [e]; exact hsl y hy
        · intro i hi
          obtain ⟨y, hy, e⟩ := hmem r.right _ pr hmr i hi
          show r.splitPos ≤ ptKey pts i coord
          rw [e]; exact hsr y hy
        · intro hprem
          show nodeOk wt pts ws coord tl.members trr.members = true
          rw [nodeOk_of_items wt coord hI hperm pl pr, Bool.or_eq_true]
          refine split_balanced_aux wt coord (x :: xs) hw cfg.fuel _ _ r hJ hr ?_
          rcases hprem with he | hres
          · exact Or.inl he
          · exact Or.inr (resolved_of_pts hI hall' coord _ _ _ hres)

/-- Exits are permutations (exact arithmetic; no box needed). -/
theorem split_perm_int (wt : Int → Int → Bool) (coord : Nat) (items : List (Item Int))
    (hw : ∀ x ∈ items, 0 ≤ x.w) (fuel : Nat) (mn mx : Int) (out : SplitOut Int)
    (h : split wt coord (sumW items) items fuel 0 mn mx none false = .ok out) :
    (out.left ++ out.right).Perm items := by
  obtain ⟨_, hf⟩ := split_facts False wt coord _ items hw rfl fuel 0 mn mx none false out
    (fun g => g.elim) h
  rcases hf with ⟨_, h1, h2, _, _⟩ | ⟨_, p, _, _, _, hperm, _, _, _⟩
  · rw [h1, h2]; simp
  · exact hperm

/-- The part of `NodeFacts` that needs no bounding box (and no `0 < dim`): true weights, and
C04's clause at the nodes that leave through the tolerance test. -/
def NodeSums (wt : Int → Int → Bool) (pts : List (List Int)) (ws : List Int) (tr : NodeTrace Int)
    (lo hi : Tree (NodeTrace Int)) : Prop :=
  tr.info.sum = wOf ws (lo.members ++ hi.members) ∧
  tr.info.weightLeft = wOf ws lo.members ∧
  (tr.info.exit = .tolerance → nodeOk wt pts ws tr.info.coord lo.members hi.members = true)

theorem recurseT_sums (wt : Int → Int → Bool) (cfg : Cfg) (pts : List (List Int)) (ws : List Int) :
    ∀ (k : Nat) (items : List (Item Int)) (iterId coord : Nat) (sum : Int) (lo hi : List Int)
      (tt : Tree (NodeTrace Int)),
      (∀ x ∈ items, 0 ≤ x.w) → ItemsOf pts ws items → sum = sumW items →
      recurseT wt cfg k items iterId coord sum lo hi = .ok tt →
      tt.members.Perm (items.map (·.id)) ∧ tt.AllNodes (NodeSums wt pts ws) := by
  intro k
  induction k with
  | zero =>
    intro items iterId coord sum lo hi tt _ _ _ h
    cases items with
    | nil => simp [recurseT] at h; subst h; simp [Tree.members, Tree.AllNodes]
    | cons x xs => simp [recurseT] at h; subst h; simp [Tree.members, Tree.AllNodes]
  | succ k ih =>
    intro items iterId coord sum lo hi tt hw hI hsum h
    cases items with
    | nil => simp [recurseT] at h; subst h; simp [Tree.members, Tree.AllNodes]
    | cons x xs =>
      simp only [recurseT] at h
      split at h
      · cases h
      · cases h
      · next r hr =>
        subst hsum
        have hperm := split_perm_int wt coord (x :: xs) hw cfg.fuel _ _ r hr
        obtain ⟨hwl, hwr⟩ := split_reported_weight_aux wt coord (x :: xs) hw cfg.fuel _ _ r hr
        have hml : ∀ y ∈ r.left, y ∈ x :: xs := fun y hy =>
          hperm.mem_iff.1 (List.mem_append_left _ hy)
        have hmr : ∀ y ∈ r.right, y ∈ x :: xs := fun y hy =>
          hperm.mem_iff.1 (List.mem_append_right _ hy)
        split at h
        · cases h
        · cases h
        next tl hl =>
        split at h
        · cases h
        · cases h
        next trr htr =>
        cases h
        obtain ⟨pl, al⟩ := ih r.left _ _ _ _ _ tl (fun y hy => hw y (hml y hy)) (hI.mono hml) hwl hl
        obtain ⟨pr, ar⟩ := ih r.right _ _ _ _ _ trr (fun y hy => hw y (hmr y hy)) (hI.mono hmr) hwr htr
        have hIlr : ItemsOf pts ws (r.left ++ r.right) := hI.mono (fun y hy => hperm.mem_iff.1 hy)
        have hall : (tl.members ++ trr.members).Perm ((r.left ++ r.right).map (·.id)) := by
          rw [List.map_append]; exact pl.append pr
        refine ⟨hall.trans (hperm.map _), ⟨?_, ?_, ?_⟩, al, ar⟩
        · show sumW (x :: xs) = _
          rw [wOf_of_perm hIlr hall, sumW_perm hperm]
        · show r.weightLeft = _
          rw [wOf_of_perm (hI.mono hml) pl, hwl]
        · intro he
          show nodeOk wt pts ws coord tl.members trr.members = true
          rw [nodeOk_of_items wt coord hI hperm pl pr, Bool.or_eq_true, ← hwl]
          exact Or.inl (split_exit_tol_aux wt coord _ (x :: xs) cfg.fuel 0 _ _ none false r hr he)

/-! ## The root: `mkItems` and `bbox` -/

theorem mkItems_w (pts : List (List Int)) (ws : List Int) (x : Item Int) (hx : x ∈ mkItems pts ws) :
    ws[x.id]? = some x.w := by
  simp only [mkItems, List.mem_map] at hx
  obtain ⟨⟨⟨p, w⟩, i⟩, hm, rfl⟩ := hx
  rw [List.mem_zipIdx_iff_getElem?] at hm
  simp only at hm ⊢
  rw [List.getElem?_zip_eq_some] at hm
  exact hm.2

theorem mkItems_sum (pts : List (List Int)) (ws : List Int) (h : ws.length ≤ pts.length) :
    sumW (mkItems pts ws) = ws.sum := by
  simp only [sumW, mkItems, List.map_map]
  have : ((fun x : Item Int => x.w) ∘ fun x : (List Int × Int) × Nat => (⟨x.2, x.1.2, x.1.1⟩ : Item Int))
      = Prod.snd ∘ Prod.fst := rfl
  rw [this, ← List.map_map, List.zipIdx_map_fst, List.map_snd_zip h]

theorem mkItems_itemsOf (pts : List (List Int)) (ws : List Int) : ItemsOf pts ws (mkItems pts ws) := by
  intro x hx
  refine ⟨?_, ?_⟩
  · intro c
    have := mkItems_key pts ws x hx
    simp [Item.key, ptKey, List.getD_eq_getElem?_getD, this]
  · have := mkItems_w pts ws x hx
    simp [List.getD_eq_getElem?_getD, this]

theorem mkItems_nonneg (pts : List (List Int)) (ws : List Int) (hw : ∀ w ∈ ws, 0 ≤ w) :
    ∀ x ∈ mkItems pts ws, 0 ≤ x.w := by
  intro x hx
  exact hw _ (List.mem_iff_getElem?.2 ⟨_, mkItems_w pts ws x hx⟩)

theorem minMaxFold_spec (xs : List Int) : ∀ (m : Int × Int),
    let r := xs.foldl (fun (m : Int × Int) v =>
      (if Coord.lt v m.1 then v else m.1, if Coord.lt m.2 v then v else m.2)) m
    r.1 ≤ m.1 ∧ m.2 ≤ r.2 ∧ ∀ v ∈ xs, r.1 ≤ v ∧ v ≤ r.2 := by
  induction xs with
  | nil => intro m; simp
  | cons a as ih =>
    intro m
    simp only [List.foldl_cons]
    have hm1 : (if Coord.lt a m.1 then a else m.1) ≤ m.1 ∧ (if Coord.lt a m.1 then a else m.1) ≤ a := by
      simp only [int_lt, decide_eq_true_eq]; split <;> omega
    have hm2 : m.2 ≤ (if Coord.lt m.2 a then a else m.2) ∧ a ≤ (if Coord.lt m.2 a then a else m.2) := by
      simp only [int_lt, decide_eq_true_eq]; split <;> omega
    obtain ⟨h1, h2, h3⟩ := ih (if Coord.lt a m.1 then a else m.1, if Coord.lt m.2 a then a else m.2)
    simp only at h1 h2 h3 ⊢
    refine ⟨by omega, by omega, ?_⟩
    intro v hv
    rcases List.mem_cons.1 hv with rfl | hv
    · constructor <;> omega
    · exact h3 v hv

theorem minMax_spec (l : List Int) (v : Int) (hv : v ∈ l) :
    ((minMax l).getD (Coord.zero, Coord.zero)).1 ≤ v ∧ v ≤ ((minMax l).getD (Coord.zero, Coord.zero)).2 := by
  cases l with
  | nil => cases hv
  | cons x xs =>
    simp only [minMax, Option.getD_some]
    obtain ⟨h1, h2, h3⟩ := minMaxFold_spec xs (x, x)
    rcases List.mem_cons.1 hv with rfl | hv
    · exact ⟨h1, h2⟩
    · exact h3 v hv

theorem bbox_length (dim : Nat) (pts : List (List Int)) :
    (bbox dim pts).1.length = dim ∧ (bbox dim pts).2.length = dim := by
  simp [bbox]

theorem bbox_getD (dim : Nat) (pts : List (List Int)) (c : Nat) (hc : c < dim) :
    (bbox dim pts).1.getD c Coord.zero =
        ((minMax (pts.map (fun p => p.getD c Coord.zero))).getD (Coord.zero, Coord.zero)).1 ∧
      (bbox dim pts).2.getD c Coord.zero =
        ((minMax (pts.map (fun p => p.getD c Coord.zero))).getD (Coord.zero, Coord.zero)).2 := by
  simp [bbox, List.getD_eq_getElem?_getD, List.getElem?_range hc]

theorem bbox_boxOk (dim : Nat) (pts : List (List Int)) (ws : List Int) :
    BoxOk dim (mkItems pts ws) (bbox dim pts).1 (bbox dim pts).2 := by
  refine ⟨(bbox_length dim pts).1, (bbox_length dim pts).2, ?_⟩
  intro x hx c hc
  rw [(bbox_getD dim pts c hc).1, (bbox_getD dim pts c hc).2]
  apply minMax_spec
  have h1 := mkItems_key pts ws x hx
  exact List.mem_map.2 ⟨x.c, List.mem_iff_getElem?.2 ⟨_, h1⟩, rfl⟩

/-! ## The whole run -/

theorem Tree.AllNodes.imp {ι : Type} {P Q : ι → Tree ι → Tree ι → Prop}
    (h : ∀ i l r, P i l r → Q i l r) : ∀ {t : Tree ι}, t.AllNodes P → t.AllNodes Q := by
  intro t
  induction t with
  | empty => intro _; trivial
  | leaf p ids => intro _; trivial
  | node i lo hi ihl ihh => intro ⟨h1, h2, h3⟩; exact ⟨h _ _ _ h1, ihl h2, ihh h3⟩

theorem Tree.AllNodes.and {ι : Type} {P Q : ι → Tree ι → Tree ι → Prop} :
    ∀ {t : Tree ι}, t.AllNodes P → t.AllNodes Q → t.AllNodes (fun i l r => P i l r ∧ Q i l r) := by
  intro t
  induction t with
  | empty => intro _ _; trivial
  | leaf p ids => intro _ _; trivial
  | node i lo hi ihl ihh =>
    intro ⟨h1, h2, h3⟩ ⟨g1, g2, g3⟩; exact ⟨⟨h1, g1⟩, ihl h2 g2, ihh h3 g3⟩

/-- The invariant at every node of a run of `rcb` on exact integers (box = the bounding
box of the points, `D ≥ 1`). -/
theorem runTreeT_facts (wt : Int → Int → Bool) (cfg : Cfg) (iter : Nat) (pts : List (List Int))
    (ws : List Int) (tt : Tree (NodeTrace Int)) (hdim : 0 < cfg.dim) (hw : ∀ w ∈ ws, 0 ≤ w)
    (hlen : ws.length = pts.length)
    (h : runTreeT wt cfg iter pts ws (bbox cfg.dim pts).1 (bbox cfg.dim pts).2 = .ok tt) :
    tt.members.Perm (List.range pts.length) ∧ tt.AllNodes (NodeFacts wt pts ws) := by
  have := recurseT_facts wt cfg pts ws hdim iter (mkItems pts ws) 0 0 ws.sum _ _ tt
    (mkItems_nonneg pts ws hw) (mkItems_itemsOf pts ws) (mkItems_sum pts ws (by omega)).symm hdim
    (bbox_boxOk cfg.dim pts ws) h
  rw [mkItems_ids pts ws hlen] at this
  exact this

/-- The box-free part, for every `dim` and every box. -/
theorem runTreeT_sums (wt : Int → Int → Bool) (cfg : Cfg) (iter : Nat) (pts : List (List Int))
    (ws : List Int) (lo hi : List Int) (tt : Tree (NodeTrace Int)) (hw : ∀ w ∈ ws, 0 ≤ w)
    (hlen : ws.length = pts.length) (h : runTreeT wt cfg iter pts ws lo hi = .ok tt) :
    tt.members.Perm (List.range pts.length) ∧ tt.AllNodes (NodeSums wt pts ws) := by
  have := recurseT_sums wt cfg pts ws iter (mkItems pts ws) 0 0 ws.sum _ _ tt
    (mkItems_nonneg pts ws hw) (mkItems_itemsOf pts ws) (mkItems_sum pts ws (by omega)).symm h
  rw [mkItems_ids pts ws hlen] at this
  exact this

/-- `verdicts` of the erased tree, read off the instrumented tree. -/
theorem verdicts_all_iff (wt : Int → Int → Bool) (pts : List (List Int)) (ws : List Int)
    (Q : Exit × Bool → Prop) (tt : Tree (NodeTrace Int)) :
    (∀ v ∈ verdicts wt pts ws (tt.map NodeTrace.info), Q v) ↔
      tt.AllNodes (fun tr l h => Q (tr.info.exit, nodeOk wt pts ws tr.info.coord l.members h.members)) := by
  induction tt with
  | empty => simp [Tree.map, verdicts, Tree.AllNodes]
  | leaf p ids => simp [Tree.map, verdicts, Tree.AllNodes]
  | node i lo hi ihl ihh =>
    simp only [Tree.map, verdicts, Tree.AllNodes, List.mem_cons, List.mem_append, members_map,
      ← ihl, ← ihh]
    constructor
    · intro h
      exact ⟨h _ (Or.inl rfl), fun v hv => h v (Or.inr (Or.inl hv)), fun v hv => h v (Or.inr (Or.inr hv))⟩
    · rintro ⟨h1, h2, h3⟩ v (rfl | hv | hv)
      · exact h1
      · exact h2 v hv
      · exact h3 v hv

theorem balanced_map_iff (wt : Int → Int → Bool) (pts : List (List Int)) (ws : List Int)
    (tt : Tree (NodeTrace Int)) :
    balanced wt pts ws (tt.map NodeTrace.info) = true ↔
      tt.AllNodes (fun tr l h => nodeOk wt pts ws tr.info.coord l.members h.members = true) := by
  rw [balanced_iff_verdicts, verdicts_all_iff wt pts ws (fun v => v.2 = true)]

/-- Executable summary of an instrumented tree, pre-order: `(exit, premise?, ok?)`. -/
def verdictsT (wt : Int → Int → Bool) (pts : List (List Int)) (ws : List Int) :
    Tree (NodeTrace Int) → List (Exit × Bool × Bool)
  | .empty => []
  | .leaf _ _ => []
  | .node tr lo hi =>
    (tr.info.exit, nodePremiseB pts tr lo hi, nodeOk wt pts ws tr.info.coord lo.members hi.members) ::
      (verdictsT wt pts ws lo ++ verdictsT wt pts ws hi)

/-- Run `rcb` on integers with the instrumented recursion and summarise every node. -/
def judgeT (wt : Int → Int → Bool) (cfg : Cfg) (iter : Nat) (pts : List (List Int)) (ws : List Int) :
    Option (List (Exit × Bool × Bool)) :=
  let bb := bbox cfg.dim pts
  match runTreeT wt cfg iter pts ws bb.1 bb.2 with
  | .ok t => some (verdictsT wt pts ws t)
  | _ => none

/-! ## The tree is the tree of C03 -/

/-- (= `intOrderLaws` of Props/C03.) -/
theorem intOrderLaws_aux : OrderLawsOn (α := Int) (fun _ => True) where
  le_iff := by intro a b _ _; simp only [Coord.le, Coord.lt]; by_cases h : a ≤ b <;> simp [h] <;> omega
  irrefl := by intro a _; simp [Coord.lt]
  neg_trans := by
    intro a b c _ _ _ h1 h2
    simp only [Coord.lt, decide_eq_true_eq, decide_eq_false_iff_not] at *
    omega

/-- The tree `runTree` returns IS the bisection tree of C03 (`rcb_is_bisection` exhibits this
very tree): strict separation at every node, cyclic axes, all points at the leaves. -/
theorem runTree_bisection_int (wt : Int → Int → Bool) (cfg : Cfg) (iter : Nat) (pts : List (List Int))
    (ws : List Int) (lo hi : List Int) (t : Tree (NodeInfo Int)) (hlen : ws.length = pts.length)
    (h : runTree wt cfg iter pts ws lo hi = .ok t) :
    IsBisection (ptKey pts) cfg.dim iter 0 0 t ∧ t.members.Perm (List.range pts.length) := by
  have := recurse_bisection intOrderLaws_aux wt cfg (ptKey pts) iter _ _ _ _ _ _ t
    (fun x hx c => (mkItems_itemsOf pts ws x hx).1 c) (fun _ _ _ => trivial) h
  rw [mkItems_ids pts ws hlen] at this
  exact this

end Coupe.Rcb
