import CoupeModel.Model.Rcb
import CoupeModel.Proofs.Rcb
import CoupeModel.Proofs.RcbBalance

/-!
# C04 along the recursion tree of `rcb_recurse`

`Proofs/RcbBalance.lean` is about ONE cut search.  This file threads its results through
`recurse`:

* `recurseT` is `recurse` with three more ghost fields per node (the last search interval
  and whether `max` moved: the inputs of the premise `Resolved`).  `recurseT_erase`:
  forgetting the extra fields gives exactly the tree of `recurse` (same outcome on every
  input), so theorems about `recurseT` are theorems about the recursion the driver runs.
* along the recursion, for EVERY node and every exit (exact arithmetic, weights ≥ 0):
  (i) the `sum` handed down equals the true weight of the node's items,
  (ii) the bounding box handed down contains the node's items on every axis,
  (iii) the node's items are the points listed by `Tree.members` (the tree of C03).
* hence `split_balanced_partial` applies at every node whose search meets its premise.
-/

namespace Coupe.Rcb

variable {α : Type} [Coord α]

/-! ## The instrumented recursion -/

/-- A bisection node's record plus the ghost outputs of its cut search. -/
structure NodeTrace (α : Type) where
  info : NodeInfo α
  /-- the interval when the search returned -/
  lastMin : α
  lastMax : α
  /-- whether `max` was ever assigned -/
  maxMoved : Bool
deriving Repr

/-- Relabel the bisection nodes of a tree. -/
def Tree.map {ι κ : Type} (f : ι → κ) : Tree ι → Tree κ
  | .empty => .empty
  | .leaf p ids => .leaf p ids
  | .node i lo hi => .node (f i) (lo.map f) (hi.map f)

/-- A property of every bisection node (record, low subtree, high subtree). -/
def Tree.AllNodes {ι : Type} (P : ι → Tree ι → Tree ι → Prop) : Tree ι → Prop
  | .empty => True
  | .leaf _ _ => True
  | .node i lo hi => P i lo hi ∧ lo.AllNodes P ∧ hi.AllNodes P

def Res.map {β γ : Type} (f : β → γ) : Res β → Res γ
  | .ok v => .ok (f v)
  | .oob => .oob
  | .fuel => .fuel

/-- `recurse`, recording also the last interval of every search (ghost data). -/
def recurseT (withinTol : Int → Int → Bool) (cfg : Cfg) :
    Nat → List (Item α) → Nat → Nat → Int → List α → List α → Res (Tree (NodeTrace α))
  | _, [], _, _, _, _, _ => .ok .empty
  | 0, items, iterId, _, _, _, _ => .ok (.leaf iterId (items.map (·.id)))
  | k + 1, items, iterId, coord, sum, lo, hi =>
    let min := lo.getD coord Coord.zero
    let max := hi.getD coord Coord.zero
    match split withinTol coord sum items cfg.fuel 0 min max none false with
    | .oob => .oob
    | .fuel => .fuel
    | .ok r =>
      match recurseT withinTol cfg k r.left (2 * iterId + 1) ((coord + 1) % cfg.dim) r.weightLeft
              lo (hi.set coord r.splitPos) with
      | .oob => .oob
      | .fuel => .fuel
      | .ok tl =>
        match recurseT withinTol cfg k r.right (2 * iterId + 2) ((coord + 1) % cfg.dim)
                (sum - r.weightLeft) (lo.set coord r.splitPos) hi with
        | .oob => .oob
        | .fuel => .fuel
        | .ok tr =>
          .ok (.node ⟨⟨coord, sum, min, max, r.weightLeft, r.splitPos, r.exit, r.iters⟩,
            r.lastMin, r.lastMax, r.maxMoved⟩ tl tr)

/-- `runTree` with the instrumented recursion. -/
def runTreeT (withinTol : Int → Int → Bool) (cfg : Cfg) (iter : Nat) (pts : List (List α))
    (ws : List Int) (lo hi : List α) : Res (Tree (NodeTrace α)) :=
  recurseT withinTol cfg iter (mkItems pts ws) 0 0 ws.sum lo hi

/-- Forgetting the ghost fields gives the recursion the driver executes. -/
theorem recurseT_erase (wt : Int → Int → Bool) (cfg : Cfg) :
    ∀ (k : Nat) (items : List (Item α)) (iterId coord : Nat) (sum : Int) (lo hi : List α),
      Res.map (Tree.map NodeTrace.info) (recurseT wt cfg k items iterId coord sum lo hi) =
        recurse wt cfg k items iterId coord sum lo hi := by
  intro k
  induction k with
  | zero =>
    intro items iterId coord sum lo hi
    cases items <;> simp [recurseT, recurse, Res.map, Tree.map]
  | succ k ih =>
    intro items iterId coord sum lo hi
    cases items with
    | nil => simp [recurseT, recurse, Res.map, Tree.map]
    | cons x xs =>
      simp only [recurseT, recurse]
      cases hs : split wt coord sum (x :: xs) cfg.fuel 0 (lo.getD coord Coord.zero)
          (hi.getD coord Coord.zero) none false with
      | oob => rfl
      | fuel => rfl
      | ok r =>
        simp only
        rw [← ih r.left, ← ih r.right]
        cases recurseT wt cfg k r.left (2 * iterId + 1) ((coord + 1) % cfg.dim) r.weightLeft lo
            (hi.set coord r.splitPos) with
        | oob => rfl
        | fuel => rfl
        | ok tl =>
          simp only [Res.map]
          cases recurseT wt cfg k r.right (2 * iterId + 2) ((coord + 1) % cfg.dim)
              (sum - r.weightLeft) (lo.set coord r.splitPos) hi with
          | oob => rfl
          | fuel => rfl
          | ok tr => rfl

theorem runTreeT_erase (wt : Int → Int → Bool) (cfg : Cfg) (iter : Nat) (pts : List (List α))
    (ws : List Int) (lo hi : List α) :
    Res.map (Tree.map NodeTrace.info) (runTreeT wt cfg iter pts ws lo hi) =
      runTree wt cfg iter pts ws lo hi :=
  recurseT_erase wt cfg iter _ _ _ _ _ _

/-- Every run of `runTree` that returns is the erasure of a run of `runTreeT`. -/
theorem runTree_has_trace (wt : Int → Int → Bool) (cfg : Cfg) (iter : Nat) (pts : List (List α))
    (ws : List Int) (lo hi : List α) (t : Tree (NodeInfo α))
    (h : runTree wt cfg iter pts ws lo hi = .ok t) :
    ∃ tt, runTreeT wt cfg iter pts ws lo hi = .ok tt ∧ tt.map NodeTrace.info = t := by
  have he := runTreeT_erase wt cfg iter pts ws lo hi
  rw [h] at he
  cases hT : runTreeT wt cfg iter pts ws lo hi with
  | oob => rw [hT] at he; cases he
  | fuel => rw [hT] at he; cases he
  | ok tt =>
    rw [hT] at he
    simp only [Res.map, Res.ok.injEq] at he
    exact ⟨tt, rfl, he⟩

theorem members_map {ι κ : Type} (f : ι → κ) (t : Tree ι) : (t.map f).members = t.members := by
  induction t with
  | empty => rfl
  | leaf p ids => rfl
  | node i lo hi ihl ihh => simp [Tree.map, Tree.members, ihl, ihh]

end Coupe.Rcb
