import CoupeModel.Model.MultiJagged
import CoupeModel.Proofs.MultiJaggedArith

/-!
# Lemmas about the MultiJagged model (`Model/MultiJagged.lean`)
-/

namespace Coupe.MultiJagged

/-! ## The partition scheme -/

/-- What the proofs need from `(num_parts as f32).powf(1. / max_iter as f32).ceil()`. -/
structure RootOk (root : Nat → Nat → Nat) : Prop where
  pos : ∀ n m, 1 ≤ n → 1 ≤ root n m
  le : ∀ n m, 1 ≤ n → 1 ≤ m → root n m ≤ n
  two : ∀ n m, 2 ≤ n → 1 ≤ m → 2 ≤ root n m
  one : ∀ n, 1 ≤ n → root n 1 = n
  zero : root 1 0 = 1

mutual
/-- Well-formed scheme: every splitting node has one child and one modifier per slab, the
modifier numerators are the children's leaf counts and the denominator is their sum. -/
def Scheme.WF : Scheme → Prop
  | .mk 0 _ _ _ => True
  | .mk (_ + 1) _ _ none => False
  | .mk (k + 1) mods den (some cs) =>
    cs.length = k + 2 ∧ mods = cs.map Scheme.leaves ∧ den = mods.sum ∧ 0 < den ∧ WFList cs
def WFList : List Scheme → Prop
  | [] => True
  | c :: cs => c.WF ∧ WFList cs
end

theorem wfList_iff (cs : List Scheme) : WFList cs ↔ ∀ c ∈ cs, c.WF := by
  induction cs with
  | nil => simp [WFList]
  | cons c cs ih => simp [WFList, ih]

theorem leavesSum_eq (cs : List Scheme) : leavesSum cs = (cs.map Scheme.leaves).sum := by
  induction cs with
  | nil => simp [leavesSum]
  | cons c cs ih => simp [leavesSum, ih]

theorem depthMax_le (cs : List Scheme) (d : Nat) (h : ∀ c ∈ cs, c.depth ≤ d) : depthMax cs ≤ d := by
  induction cs with
  | nil => simp [depthMax]
  | cons c cs ih =>
    simp only [depthMax]
    have h1 := h c (by simp)
    have h2 := ih (fun c hc => h c (by simp [hc]))
    omega

theorem sum_replicate_nat (k a : Nat) : (List.replicate k a).sum = k * a := by
  induction k with
  | zero => simp
  | succ k ih => simp [List.replicate_succ, ih, Nat.add_mul, Nat.add_comm]

theorem div_mod_split (n r : Nat) (hr : 0 < r) :
    n % r * (n / r + 1) + (r - n % r) * (n / r) = n := by
  have h1 := Nat.div_add_mod n r
  have h2 : n % r < r := Nat.mod_lt _ hr
  generalize n / r = q at *
  generalize hk : r - n % r = k
  generalize n % r = e at *
  have hr' : r = e + k := by omega
  subst hr'
  rw [Nat.mul_add, Nat.add_mul] at *
  omega

/-- Everything the scheme theorems need, proved together by induction on `max_iter`. -/
theorem scheme_ok {root : Nat → Nat → Nat} (hr : RootOk root) :
    ∀ m n, 1 ≤ n → (m = 0 → n = 1) →
      ∃ s, scheme root n m = some s ∧ s.leaves = n ∧ s.depth ≤ m ∧ s.WF := by
  intro m
  induction m with
  | zero =>
    intro n _ h0
    have hn : n = 1 := h0 rfl
    subst hn
    refine ⟨.mk 0 (computeModifiers 1 0 1 2).1 (computeModifiers 1 0 1 2).2 none, ?_, ?_, ?_, ?_⟩
    · simp [scheme, hr.zero]
    · simp [Scheme.leaves]
    · simp [Scheme.depth]
    · simp [Scheme.WF]
  | succ m ih =>
    intro n hn _
    have hpos := hr.pos n (m + 1) hn
    have hle := hr.le n (m + 1) hn (by omega)
    generalize hrr : root n (m + 1) = r at hpos hle
    have hrem : n % r < r := Nat.mod_lt _ (by omega)
    have hq : 1 ≤ n / r := (Nat.one_le_div_iff (by omega)).2 hle
    have hm0 : m = 0 → r = n := by
      intro h; subst h; rw [← hrr]; exact hr.one n hn
    have hm0q : m = 0 → n / r = 1 := by
      intro h; rw [hm0 h]; exact Nat.div_self (by omega)
    obtain ⟨reg, hreg, hregl, hregd, hregw⟩ := ih (n / r) hq hm0q
    -- the fat child, only when `rem ≠ 0`
    have hfat : ∃ fat : List Scheme,
        (if n % r = 0 then some [] else (scheme root (n / r + 1) m).map (List.replicate (n % r))) = some fat ∧
        fat.map Scheme.leaves = List.replicate (n % r) (n / r + 1) ∧
        (∀ c ∈ fat, c.depth ≤ m) ∧ (∀ c ∈ fat, c.WF) ∧ fat.length = n % r := by
      by_cases h0 : n % r = 0
      · exact ⟨[], by simp [h0], by simp [h0], by simp, by simp, by simp [h0]⟩
      · have hmne : m ≠ 0 := by
          intro h
          have := hm0 h
          subst this
          simp at h0
        obtain ⟨f, hf, hfl, hfd, hfw⟩ := ih (n / r + 1) (by omega) (fun h => absurd h hmne)
        refine ⟨List.replicate (n % r) f, by simp [h0, hf], ?_, ?_, ?_, by simp⟩
        · simp [hfl]
        · intro c hc; rw [(List.mem_replicate.1 hc).2]; exact hfd
        · intro c hc; rw [(List.mem_replicate.1 hc).2]; exact hfw
    obtain ⟨fat, hfat, hfatl, hfatd, hfatw, hfatlen⟩ := hfat
    refine ⟨.mk (r - 1) (computeModifiers (r - n % r) (n % r) (n / r) (n / r + 1)).1
        (computeModifiers (r - n % r) (n % r) (n / r) (n / r + 1)).2
        (some (fat ++ List.replicate (r - n % r) reg)), ?_, ?_, ?_, ?_⟩
    · have hr0 : r ≠ 0 := by omega
      simp only [scheme, hrr, hr0, if_false, hfat, hreg]
    · -- leaves
      by_cases h1 : r = 1
      · subst h1
        have : n < 2 := by
          refine Nat.lt_of_not_le fun h2 => ?_
          have := hr.two n (m + 1) h2 (by omega)
          omega
        simp [Scheme.leaves]; omega
      · obtain ⟨k, hk⟩ : ∃ k, r - 1 = k + 1 := ⟨r - 2, by omega⟩
        rw [hk]
        simp only [Scheme.leaves, leavesSum_eq, List.map_append, List.map_replicate, hfatl, hregl,
          List.sum_append, sum_replicate_nat]
        exact div_mod_split n r (by omega)
    · -- depth
      by_cases h1 : r = 1
      · subst h1; simp [Scheme.depth]
      · obtain ⟨k, hk⟩ : ∃ k, r - 1 = k + 1 := ⟨r - 2, by omega⟩
        rw [hk]
        simp only [Scheme.depth]
        have := depthMax_le (fat ++ List.replicate (r - n % r) reg) m (by
          intro c hc
          rcases List.mem_append.1 hc with h | h
          · exact hfatd c h
          · rw [(List.mem_replicate.1 h).2]; exact hregd)
        omega
    · -- well-formedness
      by_cases h1 : r = 1
      · subst h1; simp [Scheme.WF]
      · obtain ⟨k, hk⟩ : ∃ k, r - 1 = k + 1 := ⟨r - 2, by omega⟩
        rw [hk]
        simp only [Scheme.WF, computeModifiers]
        refine ⟨by simp [hfatlen]; omega, by simp [hfatl, hregl], ?_, ?_, ?_⟩
        · simp [Nat.add_comm]
        · have := div_mod_split n r (by omega)
          rw [Nat.add_comm] at this
          rw [this]; exact hn
        · rw [wfList_iff]
          intro c hc
          rcases List.mem_append.1 hc with h | h
          · exact hfatw c h
          · rw [(List.mem_replicate.1 h).2]; exact hregw

/-! ## Split positions -/

section split
variable (total den A : Nat)

theorem specFrom_skip (pre rest : List Nat) (i s : Nat)
    (h : (s + pre.sum) * den ≤ total * A) :
    specFrom total den A (pre ++ rest) i s = specFrom total den A rest (i + pre.length) (s + pre.sum) := by
  induction pre generalizing i s with
  | nil => simp
  | cons w pre ih =>
    have h1 : (s + w) * den ≤ total * A := by
      refine Nat.le_trans (Nat.mul_le_mul_right den ?_) h
      simp only [List.sum_cons]; omega
    have h2 : (s + w + pre.sum) * den ≤ total * A := by
      simpa [List.sum_cons, Nat.add_assoc] using h
    simp only [List.cons_append, specFrom, h1, if_true]
    rw [ih (i + 1) (s + w) h2]
    simp only [List.length_cons, List.sum_cons]
    congr 1 <;> omega

theorem refine_guarded (rest : List Nat) (i s : Nat) :
    refine {} total den A rest i s = some (specFrom total den A rest i s) := by
  induction rest generalizing i s with
  | nil => simp [refine, specFrom]
  | cons w rest ih =>
    simp only [refine, specFrom]
    split
    · exact ih _ _
    · rfl

/-- Bounds and the defining property of `specFrom`. -/
theorem specFrom_spec (rest : List Nat) (i s : Nat) :
    i ≤ specFrom total den A rest i s ∧ specFrom total den A rest i s ≤ i + rest.length ∧
    (∀ t, i + t < specFrom total den A rest i s → (s + (rest.take (t + 1)).sum) * den ≤ total * A) ∧
    (specFrom total den A rest i s < i + rest.length →
      total * A < (s + (rest.take (specFrom total den A rest i s - i + 1)).sum) * den) := by
  induction rest generalizing i s with
  | nil =>
    simp only [specFrom, List.length_nil]
    exact ⟨Nat.le_refl _, by omega, fun t ht => by omega, fun h => by omega⟩
  | cons w rest ih =>
    simp only [specFrom]
    split
    · next hle =>
      obtain ⟨h1, h2, h3, h4⟩ := ih (i + 1) (s + w)
      refine ⟨by omega, by simp only [List.length_cons]; omega, ?_, ?_⟩
      · intro t ht
        cases t with
        | zero => simpa using hle
        | succ t =>
          have := h3 t (by omega)
          simpa [List.take_succ_cons, List.sum_cons, Nat.add_assoc] using this
      · intro hlt
        have := h4 (by simp only [List.length_cons] at hlt; omega)
        have he : specFrom total den A rest (i + 1) (s + w) - i + 1
            = (specFrom total den A rest (i + 1) (s + w) - (i + 1) + 1) + 1 := by omega
        rw [he, List.take_succ_cons, List.sum_cons]
        simpa [Nat.add_assoc] using this
    · next hgt =>
      refine ⟨Nat.le_refl _, by omega, fun t ht => by omega, fun _ => ?_⟩
      simp only [Nat.sub_self, Nat.zero_add, List.take_succ_cons, List.take_zero, List.sum_cons,
        List.sum_nil, Nat.add_zero]
      omega

end split

/-- Prefix sum of the first `k` weights. -/
def pre (sw : List Nat) (k : Nat) : Nat := (sw.take k).sum

theorem pre_add (sw : List Nat) (p c : Nat) :
    pre sw (p + c) = pre sw p + ((sw.drop p).take c).sum := by
  unfold pre
  rw [List.take_add, List.sum_append]

theorem pre_mono (sw : List Nat) {a b : Nat} (h : a ≤ b) : pre sw a ≤ pre sw b := by
  obtain ⟨c, rfl⟩ := Nat.exists_eq_add_of_le h
  rw [pre_add]; omega

theorem pre_succ_le (sw : List Nat) (wmax : Nat) (hw : ∀ w ∈ sw, w ≤ wmax) (k : Nat) :
    pre sw (k + 1) ≤ pre sw k + wmax := by
  rw [pre_add]
  cases h : sw.drop k with
  | nil => simp
  | cons w r =>
    have : w ∈ sw := List.mem_of_mem_drop (h ▸ List.mem_cons_self)
    have := hw w this
    simp; omega

theorem pre_length (sw : List Nat) : pre sw sw.length = sw.sum := by
  simp [pre]

/-- `split_index_spec` in terms of prefix sums. -/
theorem specIdx_spec (total den A : Nat) (sw : List Nat) :
    specIdx total den A sw ≤ sw.length ∧
    (∀ t, t < specIdx total den A sw → pre sw (t + 1) * den ≤ total * A) ∧
    (specIdx total den A sw < sw.length → total * A < pre sw (specIdx total den A sw + 1) * den) := by
  obtain ⟨_, h2, h3, h4⟩ := specFrom_spec total den A sw 0 0
  unfold specIdx
  refine ⟨by simpa using h2, ?_, ?_⟩
  · intro t ht
    have := h3 t (by simpa using ht)
    simpa [pre] using this
  · intro hlt
    have := h4 (by simpa using hlt)
    simpa [pre] using this

theorem specIdx_mono (total den : Nat) (sw : List Nat) {A A' : Nat} (h : A ≤ A') :
    specIdx total den A sw ≤ specIdx total den A' sw := by
  obtain ⟨h1, h2, h3⟩ := specIdx_spec total den A sw
  obtain ⟨h1', h2', h3'⟩ := specIdx_spec total den A' sw
  refine Nat.le_of_not_lt fun hlt => ?_
  have ha := h3' (by omega)
  have hb := h2 _ hlt
  have : total * A ≤ total * A' := Nat.mul_le_mul_left _ h
  omega

/-- A scan entry `(idx, sum)` from which the refinement loop finds the specified index. -/
def Good (sw : List Nat) (total den A : Nat) (e : Nat × Nat) : Prop :=
  e.1 ≤ sw.length ∧ e.2 = pre sw e.1 ∧ e.2 * den ≤ total * A

theorem good_refine {sw : List Nat} {total den A : Nat} {e : Nat × Nat} (h : Good sw total den A e) :
    refine {} total den A (sw.drop e.1) e.1 e.2 = some (specIdx total den A sw) := by
  obtain ⟨h1, h2, h3⟩ := h
  rw [refine_guarded, specIdx]
  have h3' : (0 + (sw.take e.1).sum) * den ≤ total * A := by
    rw [h2, pre] at h3; simpa using h3
  have := specFrom_skip total den A (sw.take e.1) (sw.drop e.1) 0 0 h3'
  rw [List.take_append_drop] at this
  rw [this]
  simp only [Nat.zero_add, List.length_take]
  rw [Nat.min_eq_left h1, h2, pre]

/-- Pointwise relation of two lists of equal length (core has no `All₂`). -/
inductive All₂ {α β} (R : α → β → Prop) : List α → List β → Prop
  | nil : All₂ R [] []
  | cons {a b as bs} : R a b → All₂ R as bs → All₂ R (a :: as) (b :: bs)

/-- Relation between the remaining blocks and the position in the slab. -/
def BlocksAt (sw : List Nat) (chunks : List Nat) (pos : Nat) (bs : List (Nat × Nat)) (cur : Nat) : Prop :=
  chunks.sum + pos = sw.length ∧ bs = mkBlocks chunks (sw.drop pos) pos ∧ cur = pre sw pos

theorem scanInner_spec (sw : List Nat) (total den A : Nat) :
    ∀ chunks pos bs cur, BlocksAt sw chunks pos bs cur → cur * den ≤ total * A →
      ∃ e chunks' pos' bs' cur', scanInner {} sw.length total den A bs cur = some (e, bs', cur') ∧
        Good sw total den A e ∧ BlocksAt sw chunks' pos' bs' cur' := by
  intro chunks
  induction chunks with
  | nil =>
    intro pos bs cur ⟨h1, h2, h3⟩ hle
    simp only [List.sum_nil, Nat.zero_add] at h1
    subst h1
    simp only [mkBlocks] at h2
    subst h2
    refine ⟨(sw.length, cur), [], sw.length, [], cur, by simp [scanInner], ⟨Nat.le_refl _, h3, hle⟩, ?_⟩
    exact ⟨by simp, by simp [mkBlocks], h3⟩
  | cons c cs ih =>
    intro pos bs cur ⟨h1, h2, h3⟩ hle
    simp only [List.sum_cons] at h1
    simp only [mkBlocks] at h2
    subst h2
    have hnext : BlocksAt sw cs (pos + c) (mkBlocks cs ((sw.drop pos).drop c) (pos + c))
        (cur + ((sw.drop pos).take c).sum) := by
      refine ⟨by omega, by rw [List.drop_drop], ?_⟩
      rw [pre_add, h3]
    simp only [scanInner]
    split
    · next hex =>
      have hc : c ≠ 0 := by
        intro h0; subst h0; simp at hex; omega
      refine ⟨(pos, cur), cs, pos + c, _, _, by simp [hc], ⟨by omega, h3, hle⟩, hnext⟩
    · next hnex =>
      exact ih _ _ _ hnext (by omega)

theorem scanOuter_spec (sw : List Nat) (total den : Nat) :
    ∀ As chunks pos bs cur acc, BlocksAt sw chunks pos bs cur → As.Pairwise (· ≤ ·) →
      (acc = [] → cur = 0) →
      (∀ last, acc.head? = some last → last.1 ≤ sw.length ∧ last.2 = pre sw last.1 ∧
          ∀ A ∈ As, last.2 * den ≤ total * A) →
      ∃ es, scanOuter {} sw.length total den As bs cur acc = some (acc.reverse ++ es) ∧
        All₂ (fun e A => Good sw total den A e) es As := by
  intro As
  induction As with
  | nil =>
    intro chunks pos bs cur acc _ _ _ _
    exact ⟨[], by simp [scanOuter], .nil⟩
  | cons A As ih =>
    intro chunks pos bs cur acc hb hs hacc hlast
    have hs' : As.Pairwise (· ≤ ·) := (List.pairwise_cons.1 hs).2
    have hA : ∀ A' ∈ As, A ≤ A' := (List.pairwise_cons.1 hs).1
    simp only [scanOuter]
    split
    · next hex =>
      cases acc with
      | nil => simp [hacc rfl] at hex
      | cons last acc' =>
        obtain ⟨hl1, hl2, hl3⟩ := hlast last rfl
        obtain ⟨es, he, hg⟩ := ih chunks pos bs cur (last :: last :: acc') hb hs' (by simp)
          (by
            intro l hl
            simp only [List.head?_cons, Option.some.injEq] at hl
            subst hl
            exact ⟨hl1, hl2, fun A' hA' => hl3 A' (by simp [hA'])⟩)
        refine ⟨last :: es, ?_, .cons ⟨hl1, hl2, hl3 A (by simp)⟩ hg⟩
        simp [he]
    · next hnex =>
      obtain ⟨e, chunks', pos', bs', cur', hsi, hgood, hb'⟩ :=
        scanInner_spec sw total den A chunks pos bs cur hb (by omega)
      obtain ⟨es, he, hg⟩ := ih chunks' pos' bs' cur' (e :: acc) hb' hs' (by simp)
        (by
          intro l hl
          simp only [List.head?_cons, Option.some.injEq] at hl
          subst hl
          refine ⟨hgood.1, hgood.2.1, fun A' hA' => ?_⟩
          have : total * A ≤ total * A' := Nat.mul_le_mul_left _ (hA A' hA')
          exact Nat.le_trans hgood.2.2 this)
      refine ⟨e :: es, ?_, .cons hgood hg⟩
      simp [hsi, he]

theorem refineAll_spec (sw : List Nat) (total den : Nat) :
    ∀ es As, All₂ (fun e A => Good sw total den A e) es As →
      refineAll {} total den sw es As = some (As.map (fun A => specIdx total den A sw)) := by
  intro es As h
  induction h with
  | nil => simp [refineAll]
  | cons hg _ ih => simp [refineAll, good_refine hg, ih]

theorem cumul_ge (l : List Nat) (a : Nat) : ∀ x ∈ cumul l a, a ≤ x := by
  induction l generalizing a with
  | nil => simp [cumul]
  | cons b l ih =>
    intro x hx
    simp only [cumul, List.mem_cons] at hx
    rcases hx with rfl | hx
    · omega
    · have := ih _ x hx; omega

theorem cumul_sorted (l : List Nat) (a : Nat) : (cumul l a).Pairwise (· ≤ ·) := by
  induction l generalizing a with
  | nil => simp [cumul]
  | cons b l ih =>
    simp only [cumul, List.pairwise_cons]
    exact ⟨cumul_ge l _, ih _⟩

theorem cumul_length (l : List Nat) (a : Nat) : (cumul l a).length = l.length := by
  induction l generalizing a with
  | nil => simp [cumul]
  | cons b l ih => simp [cumul, ih]

/-- The slab's weights in the order of the permutation. -/
def slabW (ws perm : List Nat) : List Nat := perm.map (fun i => ws.getD i 0)

/-- `compute_split_positions` (guarded) computes `specIdx` of every threshold, whatever
the chunking of the parallel scan. -/
theorem splitPositions_eq (chunks ws perm mods : List Nat) (den : Nat)
    (hm : mods ≠ []) (hp : ∀ i ∈ perm, i < ws.length) (hc : chunks.sum = perm.length) :
    splitPositions {} chunks ws perm mods den =
      some ((cumul mods.dropLast 0).map (fun A => specIdx (slabW ws perm).sum den A (slabW ws perm))) := by
  cases mods with
  | nil => exact absurd rfl hm
  | cons m ms =>
    have hany : perm.any (fun i => decide (ws.length ≤ i)) = false := by
      rw [List.any_eq_false]
      intro i hi
      have := hp i hi
      simp; omega
    simp only [splitPositions, hany]
    have hb : BlocksAt (slabW ws perm) chunks 0 (mkBlocks chunks (slabW ws perm) 0) 0 :=
      ⟨by simp [slabW, hc], by simp, by simp [pre]⟩
    obtain ⟨es, he, hg⟩ := scanOuter_spec (slabW ws perm) (slabW ws perm).sum den
      (cumul (m :: ms).dropLast 0) chunks 0 _ 0 [] hb (cumul_sorted _ _) (by simp) (by simp)
    simp only [List.reverse_nil, List.nil_append] at he
    simp only [slabW] at he hg ⊢
    simp only [Bool.false_eq_true, if_false, he]
    exact refineAll_spec _ _ _ _ _ hg

/-! ### The code before the K4 fix (`guarded := false`) -/

/-- Sum of the block sums. -/
def blockSum (bs : List (Nat × Nat)) : Nat := (bs.map (·.2)).sum

theorem blockSum_mkBlocks : ∀ (chunks sw : List Nat) (start : Nat), chunks.sum = sw.length →
    blockSum (mkBlocks chunks sw start) = sw.sum := by
  intro chunks
  induction chunks with
  | nil =>
    intro sw start h
    have : sw = [] := List.eq_nil_of_length_eq_zero (by simpa using h.symm)
    subst this
    simp [mkBlocks, blockSum]
  | cons c cs ih =>
    intro sw start h
    simp only [List.sum_cons] at h
    have := ih (sw.drop c) (start + c) (by simp only [List.length_drop]; omega)
    simp only [blockSum] at this
    simp only [mkBlocks, blockSum, List.map_cons, List.sum_cons, this]
    rw [← List.sum_append, List.take_append_drop]

theorem refine_unguarded_eq (total den A : Nat) : ∀ (rest : List Nat) (i s : Nat),
    s * den ≤ total * A → total * A < (s + rest.sum) * den →
    refine { guarded := false } total den A rest i s = refine {} total den A rest i s := by
  intro rest
  induction rest with
  | nil => intro i s h1 h2; simp at h2; omega
  | cons w rest ih =>
    intro i s h1 h2
    simp only [refine]
    split
    · next hle => exact ih _ _ hle (by simpa [List.sum_cons, Nat.add_assoc] using h2)
    · rfl

theorem scanInner_unguarded_eq (len total den A : Nat) : ∀ (bs : List (Nat × Nat)) (cur : Nat),
    cur * den ≤ total * A → total * A < (cur + blockSum bs) * den →
    scanInner { guarded := false } len total den A bs cur = scanInner {} len total den A bs cur := by
  intro bs
  induction bs with
  | nil => intro cur h1 h2; simp [blockSum] at h2; omega
  | cons b bs ih =>
    intro cur h1 h2
    obtain ⟨low, s⟩ := b
    simp only [scanInner]
    split
    · rfl
    · next hno =>
      exact ih _ (by omega) (by simpa [blockSum, Nat.add_assoc] using h2)

theorem scanInner_conserves (len total den A : Nat) : ∀ (bs : List (Nat × Nat)) (cur : Nat) e bs' cur',
    scanInner {} len total den A bs cur = some (e, bs', cur') → cur' + blockSum bs' = cur + blockSum bs := by
  intro bs
  induction bs with
  | nil =>
    intro cur e bs' cur' h
    simp only [scanInner] at h
    simp only [if_true, Option.some.injEq, Prod.mk.injEq] at h
    obtain ⟨_, rfl, rfl⟩ := h
    rfl
  | cons b bs ih =>
    intro cur e bs' cur' h
    obtain ⟨low, s⟩ := b
    simp only [scanInner] at h
    split at h
    · simp only [Option.some.injEq, Prod.mk.injEq] at h
      obtain ⟨_, rfl, rfl⟩ := h
      simp [blockSum, Nat.add_assoc]
    · have := ih _ _ _ _ h
      simp only [blockSum, List.map_cons, List.sum_cons] at this ⊢
      omega

theorem scanOuter_unguarded_eq (len total den : Nat) : ∀ (As : List Nat) (bs : List (Nat × Nat))
    (cur : Nat) (acc : List (Nat × Nat)),
    (∀ A ∈ As, total * A < (cur + blockSum bs) * den) →
    scanOuter { guarded := false } len total den As bs cur acc = scanOuter {} len total den As bs cur acc := by
  intro As
  induction As with
  | nil => intro bs cur acc _; simp [scanOuter]
  | cons A As ih =>
    intro bs cur acc h
    simp only [scanOuter]
    split
    · cases acc with
      | nil => rfl
      | cons last acc' => exact ih _ _ _ (fun A' hA' => h A' (by simp [hA']))
    · next hno =>
      rw [scanInner_unguarded_eq len total den A bs cur (by omega) (h A (by simp))]
      cases hsi : scanInner {} len total den A bs cur with
      | none => rfl
      | some r =>
        obtain ⟨e, bs', cur'⟩ := r
        have hc := scanInner_conserves len total den A bs cur e bs' cur' hsi
        exact ih _ _ _ (fun A' hA' => by rw [hc]; exact h A' (by simp [hA']))

theorem refineAll_unguarded_eq (sw : List Nat) (total den : Nat) :
    ∀ es As, All₂ (fun e A => Good sw total den A e) es As → (∀ A ∈ As, total * A < sw.sum * den) →
      refineAll { guarded := false } total den sw es As = refineAll {} total den sw es As := by
  intro es As h
  induction h with
  | nil => intro _; simp [refineAll]
  | @cons e A es As hg _ ih =>
    intro hex
    simp only [refineAll]
    have h1 : e.2 + (sw.drop e.1).sum = sw.sum := by
      rw [hg.2.1, pre, ← List.sum_append, List.take_append_drop]
    rw [refine_unguarded_eq total den A _ _ _ hg.2.2 (by rw [h1]; exact hex A (by simp)),
      ih (fun A' hA' => hex A' (by simp [hA']))]

/-- Where every threshold is exceeded by the slab's total weight (in particular: the slab's
weight is positive and the running sums of the modifiers stay below `den`), the code before
the K4 fix computed the same positions; it aborted only on the other slabs. -/
theorem splitPositions_unguarded_eq (chunks ws perm mods : List Nat) (den : Nat)
    (hp : ∀ i ∈ perm, i < ws.length) (hc : chunks.sum = perm.length)
    (hex : ∀ A ∈ cumul mods.dropLast 0, (slabW ws perm).sum * A < (slabW ws perm).sum * den) :
    splitPositions { guarded := false } chunks ws perm mods den =
      splitPositions {} chunks ws perm mods den := by
  cases mods with
  | nil => rfl
  | cons m ms =>
    have hany : perm.any (fun i => decide (ws.length ≤ i)) = false := by
      rw [List.any_eq_false]
      intro i hi
      have := hp i hi
      simp; omega
    simp only [splitPositions, hany]
    have hbs : blockSum (mkBlocks chunks (slabW ws perm) 0) = (slabW ws perm).sum :=
      blockSum_mkBlocks _ _ _ (by simp [slabW, hc])
    simp only [slabW] at hbs hex
    rw [scanOuter_unguarded_eq _ _ _ _ _ _ _ (by
      intro A hA
      rw [Nat.zero_add, hbs]
      exact hex A hA)]
    have hb : BlocksAt (slabW ws perm) chunks 0 (mkBlocks chunks (slabW ws perm) 0) 0 :=
      ⟨by simp [slabW, hc], by simp, by simp [pre]⟩
    obtain ⟨es, he, hg⟩ := scanOuter_spec (slabW ws perm) (slabW ws perm).sum den
      (cumul (m :: ms).dropLast 0) chunks 0 _ 0 [] hb (cumul_sorted _ _) (by simp) (by simp)
    simp only [List.reverse_nil, List.nil_append, slabW] at he hg
    simp only [Bool.false_eq_true, if_false, he]
    exact refineAll_unguarded_eq _ _ _ _ _ hg hex

/-- The positions are non-decreasing and at most the slab's length. -/
theorem spec_positions_sorted (total den : Nat) (sw : List Nat) (l : List Nat) (a : Nat) :
    ((cumul l a).map (fun A => specIdx total den A sw)).Pairwise (· ≤ ·) ∧
    ∀ p ∈ (cumul l a).map (fun A => specIdx total den A sw), p ≤ sw.length := by
  refine ⟨List.Pairwise.map _ (fun _ _ h => specIdx_mono total den sw h) (cumul_sorted l a), ?_⟩
  intro p hp
  obtain ⟨A, _, rfl⟩ := List.mem_map.1 hp
  exact (specIdx_spec total den A sw).1

/-! ## `split_at_mut_many` -/

/-- The slices `split_at_mut_many` returns. -/
def segs {α} : List α → Nat → List Nat → List (List α)
  | rest, _, [] => [rest]
  | rest, drained, p :: ps => rest.take (p - drained) :: segs (rest.drop (p - drained)) p ps

theorem splitManyAux_eq {α} : ∀ (ps : List Nat) (rest : List α) (drained : Nat),
    ps.Pairwise (· ≤ ·) → (∀ p ∈ ps, drained ≤ p ∧ p ≤ drained + rest.length) →
    splitManyAux rest drained ps = some (segs rest drained ps) := by
  intro ps
  induction ps with
  | nil => intro rest drained _ _; simp [splitManyAux, segs]
  | cons p ps ih =>
    intro rest drained hs hb
    obtain ⟨h1, h2⟩ := hb p (by simp)
    have hd : drained + (p - drained) = p := by omega
    simp only [splitManyAux, segs, hd]
    rw [if_neg (by omega), if_neg (by omega)]
    rw [ih (rest.drop (p - drained)) p (List.pairwise_cons.1 hs).2 (by
      intro p' hp'
      have := (List.pairwise_cons.1 hs).1 p' hp'
      have := (hb p' (by simp [hp'])).2
      simp only [List.length_drop]
      omega)]

theorem segs_flatten {α} : ∀ (ps : List Nat) (rest : List α) (drained : Nat),
    (segs rest drained ps).flatten = rest := by
  intro ps
  induction ps with
  | nil => intro rest drained; simp [segs]
  | cons p ps ih => intro rest drained; simp [segs, ih]

theorem segs_length {α} : ∀ (ps : List Nat) (rest : List α) (drained : Nat),
    (segs rest drained ps).length = ps.length + 1 := by
  intro ps
  induction ps with
  | nil => intro rest drained; simp [segs]
  | cons p ps ih => intro rest drained; simp [segs, ih]

theorem segs_map {α β} (f : α → β) : ∀ (ps : List Nat) (rest : List α) (drained : Nat),
    (segs rest drained ps).map (List.map f) = segs (rest.map f) drained ps := by
  intro ps
  induction ps with
  | nil => intro rest drained; simp [segs]
  | cons p ps ih => intro rest drained; simp [segs, ih, List.map_take, List.map_drop]

theorem pre_add_drop_sum (sw : List Nat) (d : Nat) : pre sw d + (sw.drop d).sum = sw.sum := by
  rw [pre, ← List.sum_append, List.take_append_drop]

/-- One level of the balance bound (`split_level_balance`): every slab's weight differs
from its share `total * m / den` by less than `wmax`, cross-multiplied.  `acc`/`drained`
generalise over the slabs already cut off. -/
theorem level_balance (sw : List Nat) (den wmax : Nat) (hw : ∀ w ∈ sw, w ≤ wmax)
    (hB : 0 < wmax * den) :
    ∀ (ms : List Nat) (acc drained : Nat), ms ≠ [] → acc + ms.sum = den → drained ≤ sw.length →
      pre sw drained * den ≤ sw.sum * acc → sw.sum * acc < pre sw drained * den + wmax * den →
      All₂ (fun m seg => seg.sum * den < sw.sum * m + wmax * den ∧ sw.sum * m < seg.sum * den + wmax * den)
        ms (segs (sw.drop drained) drained
          ((cumul ms.dropLast acc).map (fun A => specIdx sw.sum den A sw))) := by
  intro ms
  induction ms with
  | nil => intro _ _ h; exact absurd rfl h
  | cons m ms ih =>
    intro acc d _ hsum hd hlo hhi
    have hps := pre_add_drop_sum sw d
    cases ms with
    | nil =>
      simp only [List.dropLast_singleton, cumul, List.map_nil, segs]
      refine .cons ?_ .nil
      simp only [List.sum_cons, List.sum_nil, Nat.add_zero] at hsum
      have e1 : sw.sum * den = sw.sum * acc + sw.sum * m := by rw [← hsum, Nat.mul_add]
      have e2 : sw.sum * den = pre sw d * den + (sw.drop d).sum * den := by rw [← hps, Nat.add_mul]
      omega
    | cons m' ms' =>
      simp only [List.dropLast_cons_cons, cumul, List.map_cons, segs]
      generalize hp : specIdx sw.sum den (acc + m) sw = p
      obtain ⟨s1, s2, s3⟩ := specIdx_spec sw.sum den (acc + m) sw
      rw [hp] at s1 s2 s3
      have hA : sw.sum * (acc + m) = sw.sum * acc + sw.sum * m := Nat.mul_add _ _ _
      have hAle : sw.sum * (acc + m) ≤ sw.sum * den := by
        apply Nat.mul_le_mul_left
        simp only [List.sum_cons] at hsum; omega
      -- lower bound of the specification
      have hlo' : pre sw p * den ≤ sw.sum * (acc + m) := by
        cases p with
        | zero => simp [pre]
        | succ t => exact s2 t (by omega)
      -- upper bound
      have hhi' : sw.sum * (acc + m) < pre sw p * den + wmax * den := by
        by_cases hlt : p < sw.length
        · have h1 := s3 hlt
          have h2 : pre sw (p + 1) * den ≤ (pre sw p + wmax) * den :=
            Nat.mul_le_mul_right _ (pre_succ_le sw wmax hw p)
          rw [Nat.add_mul] at h2
          omega
        · have : p = sw.length := by omega
          rw [this, pre_length]
          omega
      -- the cut is not before the previous one
      have hdp : d ≤ p := by
        refine Nat.le_of_not_lt fun hlt => ?_
        have h1 := s3 (by omega)
        have h2 : pre sw (p + 1) * den ≤ pre sw d * den :=
          Nat.mul_le_mul_right _ (pre_mono sw (by omega))
        omega
      have hseg : ((sw.drop d).take (p - d)).sum * den = pre sw p * den - pre sw d * den := by
        have := pre_add sw d (p - d)
        rw [show d + (p - d) = p by omega] at this
        rw [this, Nat.add_mul]; omega
      have hmono : pre sw d * den ≤ pre sw p * den := Nat.mul_le_mul_right _ (pre_mono sw hdp)
      refine .cons ⟨by omega, by omega⟩ ?_
      have hdrop : (sw.drop d).drop (p - d) = sw.drop p := by
        rw [List.drop_drop]; congr 1; omega
      rw [hdrop]
      exact ih (acc + m) p (by simp) (by simp only [List.sum_cons] at hsum ⊢; omega) s1 hlo' hhi'

/-! ## The recursion -/

theorem Scheme.induct {P : Scheme → Prop}
    (h : ∀ k mods den next, (∀ cs, next = some cs → ∀ c ∈ cs, P c) → P (.mk k mods den next)) :
    ∀ s, P s := by
  intro s
  refine Scheme.rec (motive_1 := P)
    (motive_2 := fun o => ∀ cs, o = some cs → ∀ c ∈ cs, P c)
    (motive_3 := fun l => ∀ c ∈ l, P c) ?_ ?_ ?_ ?_ ?_ s
  · intro k mods den next ih; exact h k mods den next ih
  · intro cs h; simp at h
  · intro val ih cs h; cases h; exact ih
  · simp
  · intro head tail ih1 ih2 c hc
    rcases List.mem_cons.1 hc with rfl | h
    · exact ih1
    · exact ih2 c h

/-- What the theorems need from `axis_sort`. -/
structure SortOk (sort : (Nat → Int) → List Nat → List Nat) : Prop where
  perm : ∀ k l, (sort k l).Perm l
  sorted : ∀ k l, (sort k l).Pairwise (fun a b => k a ≤ k b)

/-- Every chunking the parallel scan may use covers the slab. -/
def ChunkOk (chunk : Nat → List Nat) : Prop := ∀ n, (chunk n).sum = n

inductive All₃ {α β γ} (R : α → β → γ → Prop) : List α → List β → List γ → Prop
  | nil : All₃ R [] [] []
  | cons {a b c as bs cs} : R a b c → All₃ R as bs cs → All₃ R (a :: as) (b :: bs) (c :: cs)

theorem all₂_of_forall {α β} {R : α → β → Prop} : ∀ (as : List α) (bs : List β),
    as.length = bs.length → (∀ a ∈ as, ∀ b ∈ bs, R a b) → All₂ R as bs := by
  intro as
  induction as with
  | nil => intro bs hl _; cases bs <;> simp_all [All₂.nil]
  | cons a as ih =>
    intro bs hl h
    cases bs with
    | nil => simp at hl
    | cons b bs =>
      exact .cons (h a (by simp) b (by simp))
        (ih bs (by simpa using hl) (fun a' ha' b' hb' => h a' (by simp [ha']) b' (by simp [hb'])))

/-- All elements below the children, slab by slab. -/
theorem elems_node (hs : List Hier) : (Hier.node hs).elems = (hs.map Hier.elems).flatten := by
  simp only [Hier.elems, Hier.leaves]
  induction hs with
  | nil => simp [leavesL]
  | cons h hs ih => simp [leavesL, ih, Hier.elems]

theorem leavesL_length (hs : List Hier) : (leavesL hs).length = (hs.map (fun h => h.leaves.length)).sum := by
  induction hs with
  | nil => simp [leavesL]
  | cons h hs ih => simp [leavesL, ih]

mutual
/-- Jagged hierarchy: the children of a node are ordered along the node's axis (no
coordinate of a slab exceeds a coordinate of a later slab) and each child is a jagged
hierarchy along the next axis (cyclically). -/
def Hier.Jagged (key : Nat → Nat → Int) (dim : Nat) : Hier → Nat → Prop
  | .leaf _, _ => True
  | .node cs, coord =>
    (cs.map Hier.elems).Pairwise (fun a b => ∀ x ∈ a, ∀ y ∈ b, key coord x ≤ key coord y) ∧
    JaggedL key dim cs ((coord + 1) % dim)
def JaggedL (key : Nat → Nat → Int) (dim : Nat) : List Hier → Nat → Prop
  | [], _ => True
  | c :: cs, coord => c.Jagged key dim coord ∧ JaggedL key dim cs coord
end

section recursion
variable {sort : (Nat → Int) → List Nat → List Nat} {chunk : Nat → List Nat}
  (dim : Nat) (key : Nat → Nat → Int) (ws : List Nat)

theorem recurseList_spec {Pcp : Scheme → List Nat → Prop} {Q : Scheme → List Nat → Hier → Prop}
    (coord : Nat) : ∀ (cs : List Scheme) (subs : List (List Nat)),
    (∀ c ∈ cs, ∀ p, Pcp c p → ∃ h, recurse {} sort chunk dim key ws c coord p = some h ∧ Q c p h) →
    All₂ Pcp cs subs →
    ∃ hs, recurseList {} sort chunk dim key ws cs coord subs = some hs ∧
      All₃ (fun c p h => Pcp c p ∧ Q c p h) cs subs hs := by
  intro cs subs hrec hall
  induction hall with
  | nil => exact ⟨[], by simp [recurseList], .nil⟩
  | @cons c p cs subs hcp _ ih =>
    obtain ⟨h, hh, hq⟩ := hrec c (by simp) p hcp
    obtain ⟨hs, hhs, hall'⟩ := ih (fun c' hc' => hrec c' (by simp [hc']))
    exact ⟨h :: hs, by simp [recurseList, hh, hhs], .cons ⟨hcp, hq⟩ hall'⟩

/-- One splitting node of a well-formed scheme: the recursion sorts the slab, cuts it at the
specified positions and descends into the pieces. -/
theorem recurse_node (hsort : SortOk sort) (hchunk : ChunkOk chunk)
    (k : Nat) (mods : List Nat) (den : Nat) (cs : List Scheme) (coord : Nat) (perm : List Nat)
    (hlen : cs.length = k + 2) (hmods : mods = cs.map Scheme.leaves)
    (hp : ∀ i ∈ perm, i < ws.length) :
    recurse {} sort chunk dim key ws (.mk (k + 1) mods den (some cs)) coord perm =
      (recurseList {} sort chunk dim key ws cs ((coord + 1) % dim)
        (segs (sort (key coord) perm) 0
          ((cumul mods.dropLast 0).map (fun A =>
            specIdx (slabW ws (sort (key coord) perm)).sum den A (slabW ws (sort (key coord) perm)))))).map .node := by
  have hm : mods ≠ [] := by
    intro h; rw [h] at hmods
    have := congrArg List.length hmods
    simp at this; omega
  have hp' : ∀ i ∈ sort (key coord) perm, i < ws.length :=
    fun i hi => hp i ((hsort.perm _ _).mem_iff.1 hi)
  simp only [recurse]
  rw [splitPositions_eq _ _ _ _ _ hm hp' (hchunk _)]
  have hso := spec_positions_sorted (slabW ws (sort (key coord) perm)).sum den
    (slabW ws (sort (key coord) perm)) mods.dropLast 0
  simp only [splitMany]
  rw [splitManyAux_eq _ _ _ hso.1 (by
    intro p hp
    have := hso.2 p hp
    simp [slabW] at this
    omega)]

/-- Weight of a set of elements. -/
def wt (ws p : List Nat) : Nat := (slabW ws p).sum

/-- Balance of the leaves below a node with respect to the node's own weight:
`|leaves · W_leaf − W_node| ≤ leaves · depth · wmax`. -/
def Bal (wmax : Nat) (c : Scheme) (p : List Nat) (h : Hier) : Prop :=
  ∀ l ∈ h.leaves,
    -((c.leaves : Int) * c.depth * wmax) ≤ (c.leaves : Int) * wt ws l - wt ws p ∧
    (c.leaves : Int) * wt ws l - wt ws p ≤ (c.leaves : Int) * c.depth * wmax

/-- One level: the slab `p` handed to the child `c` against its share of `total`. -/
def Lvl (den total wmax : Nat) (c : Scheme) (p : List Nat) : Prop :=
  wt ws p * den < total * c.leaves + wmax * den ∧ total * c.leaves < wt ws p * den + wmax * den

/-- The per-child facts collected by `recurse_spec`. -/
def ChildOk (wmax : Nat) (coord : Nat) (c : Scheme) (p : List Nat) (h : Hier) : Prop :=
  h.elems.Perm p ∧ h.leaves.length = c.leaves ∧ h.Jagged key dim coord ∧ Bal ws wmax c p h

theorem all₃_elems_perm {R : Scheme → List Nat → Hier → Prop} {cs subs hs}
    (hR : ∀ c p h, R c p h → h.elems.Perm p) (h : All₃ R cs subs hs) :
    ((hs.map Hier.elems).flatten).Perm subs.flatten := by
  induction h with
  | nil => simp
  | cons h1 _ ih => simpa using List.Perm.append (hR _ _ _ h1) ih

theorem all₃_leaves {R : Scheme → List Nat → Hier → Prop} {cs subs hs}
    (hR : ∀ c p h, R c p h → h.leaves.length = c.leaves) (h : All₃ R cs subs hs) :
    (leavesL hs).length = leavesSum cs := by
  induction h with
  | nil => simp [leavesL, leavesSum]
  | cons h1 _ ih => simp [leavesL, leavesSum, hR _ _ _ h1, ih]

theorem all₃_jagged {R : Scheme → List Nat → Hier → Prop} {cs subs hs} (coord : Nat)
    (hR : ∀ c p h, R c p h → h.Jagged key dim coord) (h : All₃ R cs subs hs) :
    JaggedL key dim hs coord := by
  induction h with
  | nil => simp [JaggedL]
  | cons h1 _ ih => exact ⟨hR _ _ _ h1, ih⟩

theorem all₃_mem {R : Scheme → List Nat → Hier → Prop} {cs subs hs}
    (h : All₃ R cs subs hs) : ∀ h' ∈ hs, ∃ c ∈ cs, ∃ p ∈ subs, R c p h' := by
  induction h with
  | nil => simp
  | @cons a b c as bs cs' h1 _ ih =>
    intro h' hh'
    rcases List.mem_cons.1 hh' with rfl | hm
    · exact ⟨a, by simp, b, by simp, h1⟩
    · obtain ⟨c', hc', p', hp', hr⟩ := ih h' hm
      exact ⟨c', by simp [hc'], p', by simp [hp'], hr⟩

theorem all₃_pairwise {R : Scheme → List Nat → Hier → Prop} {cs subs hs} (S : Nat → Nat → Prop)
    (hR : ∀ c p h, R c p h → h.elems.Perm p) (h : All₃ R cs subs hs)
    (hp : subs.Pairwise (fun a b => ∀ x ∈ a, ∀ y ∈ b, S x y)) :
    (hs.map Hier.elems).Pairwise (fun a b => ∀ x ∈ a, ∀ y ∈ b, S x y) := by
  induction h with
  | nil => simp
  | @cons a b c as bs cs' h1 hrest ih =>
    simp only [List.map_cons, List.pairwise_cons] at hp ⊢
    refine ⟨?_, ih hp.2⟩
    intro e he x hx y hy
    obtain ⟨h', hh', rfl⟩ := List.mem_map.1 he
    obtain ⟨_, _, p', hp', hr⟩ := all₃_mem hrest h' hh'
    exact hp.1 p' hp' x ((hR _ _ _ h1).mem_iff.1 hx) y ((hR _ _ _ hr).mem_iff.1 hy)

theorem all₂_map {α β α' β'} {R : α' → β' → Prop} (f : α → α') (g : β → β') :
    ∀ {as : List α} {bs : List β}, All₂ R (as.map f) (bs.map g) → All₂ (fun a b => R (f a) (g b)) as bs := by
  intro as
  induction as with
  | nil =>
    intro bs h
    cases bs with
    | nil => exact .nil
    | cons b bs => cases h
  | cons a as ih =>
    intro bs h
    cases bs with
    | nil => cases h
    | cons b bs =>
      cases h with
      | cons h1 h2 => exact .cons h1 (ih h2)

theorem all₂_and {α β} {R S : α → β → Prop} {as : List α} {bs : List β}
    (h1 : All₂ R as bs) (h2 : All₂ S as bs) : All₂ (fun a b => R a b ∧ S a b) as bs := by
  induction h1 with
  | nil => exact .nil
  | cons r _ ih =>
    cases h2 with
    | cons s h2' => exact .cons ⟨r, s⟩ (ih h2')

theorem mem_leavesL {l : List Nat} : ∀ {hs : List Hier}, l ∈ leavesL hs → ∃ h ∈ hs, l ∈ h.leaves := by
  intro hs
  induction hs with
  | nil => simp [leavesL]
  | cons h hs ih =>
    intro hl
    simp only [leavesL, List.mem_append] at hl
    rcases hl with hl | hl
    · exact ⟨h, by simp, hl⟩
    · obtain ⟨h', hh', hl'⟩ := ih hl
      exact ⟨h', by simp [hh'], hl'⟩

theorem depth_le_depthMax {c : Scheme} : ∀ {cs : List Scheme}, c ∈ cs → c.depth ≤ depthMax cs := by
  intro cs
  induction cs with
  | nil => simp
  | cons c' cs ih =>
    intro hc
    simp only [depthMax]
    rcases List.mem_cons.1 hc with rfl | h
    · omega
    · have := ih h; omega

theorem wf_leaves_pos : ∀ s : Scheme, s.WF → 1 ≤ s.leaves := by
  intro s hwf
  match s, hwf with
  | .mk 0 _ _ _, _ => simp [Scheme.leaves]
  | .mk (_ + 1) _ _ none, hwf => simp [Scheme.WF] at hwf
  | .mk (k + 1) mods den (some cs), hwf =>
    obtain ⟨_, hmods, hden, hpos, _⟩ := hwf
    simp only [Scheme.leaves, leavesSum_eq, ← hmods, ← hden]
    omega

theorem slabW_le (wmax : Nat) (hw : ∀ w ∈ ws, w ≤ wmax) (p : List Nat) : ∀ w ∈ slabW ws p, w ≤ wmax := by
  intro w hw'
  obtain ⟨i, _, rfl⟩ := List.mem_map.1 hw'
  rw [List.getD_eq_getElem?_getD]
  by_cases hi : i < ws.length
  · simp only [List.getElem?_eq_getElem hi, Option.getD_some]
    exact hw _ (List.getElem_mem hi)
  · simp [List.getElem?_eq_none (Nat.le_of_not_lt hi)]

/-- Totality, structure and balance of the recursion on a well-formed scheme. -/
theorem recurse_spec (hsort : SortOk sort) (hchunk : ChunkOk chunk) (wmax : Nat)
    (hw : ∀ w ∈ ws, w ≤ wmax) (hwmax : 0 < wmax) :
    ∀ s : Scheme, s.WF → ∀ coord perm, (∀ i ∈ perm, i < ws.length) →
      ∃ h, recurse {} sort chunk dim key ws s coord perm = some h ∧
        ChildOk dim key ws wmax coord s perm h := by
  intro s
  induction s using Scheme.induct with
  | h k mods den next ih =>
    intro hwf coord perm hp
    cases k with
    | zero =>
      refine ⟨.leaf perm, by simp [recurse], ?_, ?_, ?_, ?_⟩
      · simp [Hier.elems, Hier.leaves]
      · simp [Hier.leaves, Scheme.leaves]
      · simp [Hier.Jagged]
      · intro l hl
        simp only [Hier.leaves, List.mem_singleton] at hl
        subst hl
        simp [Scheme.leaves, Scheme.depth]
    | succ k =>
      cases next with
      | none => simp [Scheme.WF] at hwf
      | some cs =>
        obtain ⟨hlen, hmods, hden, hdpos, hwfl⟩ := hwf
        rw [recurse_node dim key ws hsort hchunk k mods den cs coord perm hlen hmods hp]
        generalize hsp : sort (key coord) perm = sp
        have hspp : sp.Perm perm := hsp ▸ hsort.perm _ _
        generalize hps : (cumul mods.dropLast 0).map (fun A =>
            specIdx (slabW ws sp).sum den A (slabW ws sp)) = ps
        have hpslen : ps.length + 1 = cs.length := by
          rw [← hps, List.length_map, cumul_length, List.length_dropLast, hmods, List.length_map]
          omega
        have hsub : ∀ p ∈ segs sp 0 ps, ∀ i ∈ p, i < ws.length := by
          intro p hp' i hi
          have : i ∈ (segs sp 0 ps).flatten := List.mem_flatten.2 ⟨p, hp', hi⟩
          rw [segs_flatten] at this
          exact hp i (hspp.mem_iff.1 this)
        -- one level of balance
        have hmne : mods ≠ [] := by
          intro h; rw [h] at hmods
          have := congrArg List.length hmods
          simp at this; omega
        have hlvl : All₂ (Lvl ws den (slabW ws sp).sum wmax) cs (segs sp 0 ps) := by
          have := level_balance (slabW ws sp) den wmax (slabW_le ws wmax hw sp)
            (Nat.mul_pos hwmax hdpos) mods 0 0 hmne (by omega) (Nat.zero_le _)
            (by simp [pre]) (by simpa [pre] using Nat.mul_pos hwmax hdpos)
          rw [List.drop_zero, hps, hmods] at this
          have e : segs (slabW ws sp) 0 ps = (segs sp 0 ps).map (slabW ws) := by
            rw [slabW, ← segs_map]; rfl
          rw [e] at this
          exact all₂_map (R := fun m seg => seg.sum * den < (slabW ws sp).sum * m + wmax * den ∧
            (slabW ws sp).sum * m < seg.sum * den + wmax * den) Scheme.leaves (slabW ws) this
        obtain ⟨hs, hhs, hall⟩ := recurseList_spec (sort := sort) (chunk := chunk) dim key ws
          (Pcp := fun c p => (∀ i ∈ p, i < ws.length) ∧ Lvl ws den (slabW ws sp).sum wmax c p)
          (Q := ChildOk dim key ws wmax ((coord + 1) % dim)) ((coord + 1) % dim) cs
          (segs sp 0 ps)
          (fun c hc p hcp => ih cs rfl c hc ((wfList_iff cs).1 hwfl c hc) _ p hcp.1)
          (all₂_and (all₂_of_forall _ _ (by rw [segs_length]; omega) (fun _ _ p hp' => hsub p hp')) hlvl)
        refine ⟨.node hs, by simp [hhs], ?_, ?_, ?_, ?_⟩
        · rw [elems_node]
          refine (all₃_elems_perm (fun _ _ _ hr => hr.2.1) hall).trans ?_
          rw [segs_flatten]
          exact hspp
        · simp only [Hier.leaves, Scheme.leaves]
          exact all₃_leaves (fun _ _ _ hr => hr.2.2.1) hall
        · refine ⟨all₃_pairwise (fun x y => key coord x ≤ key coord y) (fun _ _ _ hr => hr.2.1) hall ?_,
            all₃_jagged dim key _ (fun _ _ _ hr => hr.2.2.2.1) hall⟩
          have := hsort.sorted (key coord) perm
          rw [hsp, ← segs_flatten ps sp 0, List.pairwise_flatten] at this
          exact this.2
        · -- balance
          intro l hl
          simp only [Hier.leaves] at hl
          obtain ⟨h', hh', hl'⟩ := mem_leavesL hl
          obtain ⟨c, hc, p, _, ⟨_, hlv⟩, _, _, _, hbal⟩ := all₃_mem hall h' hh'
          obtain ⟨h3, h4⟩ := hbal l hl'
          have hleaves : (Scheme.mk (k + 1) mods den (some cs)).leaves = den := by
            simp only [Scheme.leaves, leavesSum_eq, ← hmods, ← hden]
          have hdepth : (Scheme.mk (k + 1) mods den (some cs)).depth = 1 + depthMax cs := by
            simp only [Scheme.depth]
          have hwt : wt ws perm = (slabW ws sp).sum := by
            simp only [wt, slabW]
            exact ((hspp.map _).sum_nat).symm
          rw [hleaves, hdepth, hwt]
          have h1 : (den : Int) * wt ws p < ((slabW ws sp).sum : Int) * c.leaves + den * wmax := by
            have := hlv.1
            rw [Nat.mul_comm (wt ws p) den, Nat.mul_comm wmax den] at this
            exact_mod_cast this
          have h2 : ((slabW ws sp).sum : Int) * c.leaves < den * wt ws p + den * wmax := by
            have := hlv.2
            rw [Nat.mul_comm (wt ws p) den, Nat.mul_comm wmax den] at this
            exact_mod_cast this
          have ha : (1 : Int) ≤ c.leaves := by
            have := wf_leaves_pos c ((wfList_iff cs).1 hwfl c hc); omega
          have hdD : (c.depth : Int) + 1 ≤ ((1 + depthMax cs : Nat) : Int) := by
            have := depth_le_depthMax hc; omega
          exact balance_step den c.leaves c.depth _ (wt ws l) (wt ws p) _ wmax ha (by omega) hdD
            (by omega) h1 h2 h3 h4

end recursion

/-! ## The leaf writes -/

theorem setAll_getElem? (v : Nat) : ∀ (l : List Nat) (p : List Nat) (j : Nat),
    (l.foldl (fun p i => p.set i v) p)[j]? = if j ∈ l ∧ j < p.length then some v else p[j]? := by
  intro l
  induction l with
  | nil => simp
  | cons i l ih =>
    intro p j
    simp only [List.foldl_cons, ih, List.length_set, List.mem_cons]
    by_cases hji : j = i
    · subst hji
      by_cases hl : j < p.length
      · simp [hl]
      · simp [hl]
    · have : (p.set i v)[j]? = p[j]? := by
        rw [List.getElem?_set]; simp [Ne.symm hji]
      simp [this, hji]

theorem setAll_length (v : Nat) (l p : List Nat) : (l.foldl (fun p i => p.set i v) p).length = p.length := by
  induction l generalizing p with
  | nil => simp
  | cons i l ih => simp [ih]

/-- `assign` with the leaf numbering starting at `off`. -/
def assignFrom (ren : Nat → Nat) (off : Nat) (leaves : List (List Nat)) (p : List Nat) : List Nat :=
  (leaves.zipIdx off).foldl (fun p lk => lk.1.foldl (fun p i => p.set i (ren lk.2)) p) p

theorem assignFrom_length (ren : Nat → Nat) : ∀ (leaves : List (List Nat)) (off : Nat) (p : List Nat),
    (assignFrom ren off leaves p).length = p.length := by
  intro leaves
  induction leaves with
  | nil => intro off p; simp [assignFrom]
  | cons l ls ih =>
    intro off p
    have := ih (off + 1) (l.foldl (fun p i => p.set i (ren off)) p)
    simp only [assignFrom, List.zipIdx_cons, List.foldl_cons] at this ⊢
    rw [this, setAll_length]

theorem assignFrom_not_mem (ren : Nat → Nat) : ∀ (leaves : List (List Nat)) (off : Nat) (p : List Nat) (j : Nat),
    j ∉ leaves.flatten → (assignFrom ren off leaves p)[j]? = p[j]? := by
  intro leaves
  induction leaves with
  | nil => intro off p j _; simp [assignFrom]
  | cons l ls ih =>
    intro off p j hj
    simp only [List.flatten_cons, List.mem_append, not_or] at hj
    have := ih (off + 1) (l.foldl (fun p i => p.set i (ren off)) p) j hj.2
    simp only [assignFrom, List.zipIdx_cons, List.foldl_cons] at this ⊢
    rw [this, setAll_getElem?]
    simp [hj.1]

theorem assignFrom_mem (ren : Nat → Nat) : ∀ (leaves : List (List Nat)) (off : Nat) (p : List Nat),
    leaves.flatten.Nodup → (∀ j ∈ leaves.flatten, j < p.length) →
    ∀ k (hk : k < leaves.length), ∀ j ∈ leaves[k], (assignFrom ren off leaves p)[j]? = some (ren (off + k)) := by
  intro leaves
  induction leaves with
  | nil => intro off p _ _ k hk; simp at hk
  | cons l ls ih =>
    intro off p hnd hlt k hk j hj
    simp only [List.flatten_cons, List.nodup_append] at hnd
    have hstep : assignFrom ren off (l :: ls) p =
        assignFrom ren (off + 1) ls (l.foldl (fun p i => p.set i (ren off)) p) := by
      simp [assignFrom, List.zipIdx_cons]
    rw [hstep]
    cases k with
    | zero =>
      simp only [List.getElem_cons_zero] at hj
      have hnot : j ∉ ls.flatten := fun h => (hnd.2.2 j hj j h) rfl
      rw [assignFrom_not_mem ren ls _ _ j hnot, setAll_getElem?]
      simp [hj, hlt j (by simp [hj])]
    | succ k =>
      simp only [List.getElem_cons_succ] at hj
      have := ih (off + 1) (l.foldl (fun p i => p.set i (ren off)) p) hnd.2.1
        (by
          intro j' hj'
          rw [setAll_length]
          exact hlt j' (by simp [hj']))
        k (by simpa using hk) j hj
      rw [this]; congr 2; omega

theorem assign_eq (ren : Nat → Nat) (leaves : List (List Nat)) (p : List Nat) :
    assign ren leaves p = assignFrom ren 0 leaves p := rfl

theorem slabW_range (ws : List Nat) : slabW ws (List.range ws.length) = ws := by
  apply List.ext_getElem
  · simp [slabW]
  · intro i h1 h2
    simp [slabW, List.getD_eq_getElem?_getD, List.getElem?_eq_getElem h2]

theorem mem_le_sum : ∀ (l : List Nat) (w : Nat), w ∈ l → w ≤ l.sum := by
  intro l
  induction l with
  | nil => simp
  | cons x xs ih =>
    intro w hw
    rcases List.mem_cons.1 hw with rfl | h
    · simp
    · have := ih w h; simp; omega

/-! ## Instances of the parameters (non-vacuity) -/

theorem insKey_perm (k : Nat → Int) (x : Nat) : ∀ l, (insKey k x l).Perm (x :: l) := by
  intro l
  induction l with
  | nil => simp [insKey]
  | cons y ys ih =>
    simp only [insKey]
    split
    · exact List.Perm.refl _
    · exact (List.Perm.cons y ih).trans (List.Perm.swap x y ys)

theorem insKey_sorted (k : Nat → Int) (x : Nat) : ∀ l, l.Pairwise (fun a b => k a ≤ k b) →
    (insKey k x l).Pairwise (fun a b => k a ≤ k b) := by
  intro l
  induction l with
  | nil => simp [insKey]
  | cons y ys ih =>
    intro h
    simp only [insKey]
    split
    · next hlt =>
      refine List.pairwise_cons.2 ⟨?_, h⟩
      intro z hz
      rcases List.mem_cons.1 hz with rfl | hz
      · omega
      · have := (List.pairwise_cons.1 h).1 z hz; omega
    · next hge =>
      refine List.pairwise_cons.2 ⟨?_, ih (List.pairwise_cons.1 h).2⟩
      intro z hz
      rcases List.mem_cons.1 ((insKey_perm k x ys).mem_iff.1 hz) with rfl | hz
      · omega
      · exact (List.pairwise_cons.1 h).1 z hz

theorem isort_ok : SortOk isort where
  perm := by
    intro k l
    induction l with
    | nil => simp [isort]
    | cons x xs ih => exact (insKey_perm k x _).trans (List.Perm.cons x ih)
  sorted := by
    intro k l
    induction l with
    | nil => simp [isort]
    | cons x xs ih => exact insKey_sorted k x _ ih

theorem irootFrom_ge (n m : Nat) : ∀ fuel cand, cand ≤ irootFrom n m fuel cand := by
  intro fuel
  induction fuel with
  | zero => intro cand; simp [irootFrom]
  | succ fuel ih =>
    intro cand
    simp only [irootFrom]
    split
    · exact Nat.le_refl _
    · have := ih (cand + 1); omega

theorem irootFrom_le (n m : Nat) (hnm : n ≤ n ^ m) : ∀ fuel cand, cand ≤ n → irootFrom n m fuel cand ≤ n := by
  intro fuel
  induction fuel with
  | zero => intro cand h; simpa [irootFrom] using h
  | succ fuel ih =>
    intro cand h
    simp only [irootFrom]
    split
    · exact h
    · next hno =>
      have : cand ≠ n := by intro he; subst he; exact hno hnm
      exact ih (cand + 1) (by omega)

theorem irootFrom_found (n m : Nat) (hnm : n ≤ n ^ m) : ∀ fuel cand, cand ≤ n → n < fuel + cand →
    n ≤ (irootFrom n m fuel cand) ^ m := by
  intro fuel
  induction fuel with
  | zero => intro cand h1 h2; omega
  | succ fuel ih =>
    intro cand h1 h2
    simp only [irootFrom]
    split
    · next hyes => exact hyes
    · next hno =>
      have : cand ≠ n := by intro he; subst he; exact hno hnm
      exact ih (cand + 1) (by omega) (by omega)

/-- The exact integer root meets the hypotheses of the scheme theorems. -/
theorem iroot_ok : RootOk iroot where
  pos := by
    intro n m hn
    simp only [iroot]
    split
    · omega
    · split
      · split <;> simp [usizeMax]
      · exact irootFrom_ge n m n 1
  le := by
    intro n m hn hm
    have hnm : n ≤ n ^ m := Nat.le_self_pow (by omega) n
    simp only [iroot, show n ≠ 0 by omega, show m ≠ 0 by omega, if_false]
    exact irootFrom_le n m hnm n 1 hn
  two := by
    intro n m hn hm
    simp only [iroot, show n ≠ 0 by omega, show m ≠ 0 by omega, if_false]
    obtain ⟨f, hf⟩ : ∃ f, n = f + 1 := ⟨n - 1, by omega⟩
    rw [hf]
    simp only [irootFrom, Nat.one_pow]
    rw [if_neg (by omega)]
    exact irootFrom_ge _ m f 2
  one := by
    intro n hn
    have hnm : n ≤ n ^ 1 := by simp
    simp only [iroot, show n ≠ 0 by omega, show (1 : Nat) ≠ 0 by omega, if_false]
    have h1 := irootFrom_le n 1 hnm n 1 hn
    have h2 := irootFrom_found n 1 hnm n 1 hn (by omega)
    simp only [Nat.pow_one] at h2
    omega
  zero := by decide

end Coupe.MultiJagged
