import CoupeModel.Model.MultiJagged

/-!
# Lemmas about the MultiJagged model (`Model/MultiJagged.lean`)
-/

namespace Coupe.MultiJagged

/-! ## The partition scheme -/

/-- What the proofs need from `(num_parts as f32).powf(1. / max_iter as f32).ceil()`. -/
structure RootOk (root : Nat → Nat → Nat) : Prop where
  pos : ∀ n m, 1 ≤ n → 1 ≤ root n m
  le : ∀ n m, 1 ≤ n → 1 ≤ m → root n m ≤ n
  two : ∀ n m, 2 ≤ n → 1 ≤ m → 2 ≤ root n m
  one : ∀ n, 1 ≤ n → root n 1 = n
  zero : root 1 0 = 1

mutual
/-- Well-formed scheme: every splitting node has one child and one modifier per slab, the
modifier numerators are the children's leaf counts and the denominator is their sum. -/
def Scheme.WF : Scheme → Prop
  | .mk 0 _ _ _ => True
  | .mk (_ + 1) _ _ none => False
  | .mk (k + 1) mods den (some cs) =>
    cs.length = k + 2 ∧ mods = cs.map Scheme.leaves ∧ den = mods.sum ∧ 0 < den ∧ WFList cs
def WFList : List Scheme → Prop
  | [] => True
  | c :: cs => c.WF ∧ WFList cs
end

theorem wfList_iff (cs : List Scheme) : WFList cs ↔ ∀ c ∈ cs, c.WF := by
  induction cs with
  | nil => simp [WFList]
  | cons c cs ih => simp [WFList, ih]

theorem leavesSum_eq (cs : List Scheme) : leavesSum cs = (cs.map Scheme.leaves).sum := by
  induction cs with
  | nil => simp [leavesSum]
  | cons c cs ih => simp [leavesSum, ih]

theorem depthMax_le (cs : List Scheme) (d : Nat) (h : ∀ c ∈ cs, c.depth ≤ d) : depthMax cs ≤ d := by
  induction cs with
  | nil => simp [depthMax]
  | cons c cs ih =>
    simp only [depthMax]
    have h1 := h c (by simp)
    have h2 := ih (fun c hc => h c (by simp [hc]))
    omega

theorem sum_replicate_nat (k a : Nat) : (List.replicate k a).sum = k * a := by
  induction k with
  | zero => simp
  | succ k ih => simp [List.replicate_succ, ih, Nat.add_mul, Nat.add_comm]

theorem div_mod_split (n r : Nat) (hr : 0 < r) :
    n % r * (n / r + 1) + (r - n % r) * (n / r) = n := by
  have h1 := Nat.div_add_mod n r
  have h2 : n % r < r := Nat.mod_lt _ hr
  generalize n / r = q at *
  generalize hk : r - n % r = k
  generalize n % r = e at *
  have hr' : r = e + k := by omega
  subst hr'
  rw [Nat.mul_add, Nat.add_mul] at *
  omega

/-- Everything the scheme theorems need, proved together by induction on `max_iter`. -/
theorem scheme_ok {root : Nat → Nat → Nat} (hr : RootOk root) :
    ∀ m n, 1 ≤ n → (m = 0 → n = 1) →
      ∃ s, scheme root n m = some s ∧ s.leaves = n ∧ s.depth ≤ m ∧ s.WF := by
  intro m
  induction m with
  | zero =>
    intro n _ h0
    have hn : n = 1 := h0 rfl
    subst hn
    refine ⟨.mk 0 (computeModifiers 1 0 1 2).1 (computeModifiers 1 0 1 2).2 none, ?_, ?_, ?_, ?_⟩
    · simp [scheme, hr.zero]
    · simp [Scheme.leaves]
    · simp [Scheme.depth]
    · simp [Scheme.WF]
  | succ m ih =>
    intro n hn _
    have hpos := hr.pos n (m + 1) hn
    have hle := hr.le n (m + 1) hn (by omega)
    generalize hrr : root n (m + 1) = r at hpos hle
    have hrem : n % r < r := Nat.mod_lt _ (by omega)
    have hq : 1 ≤ n / r := (Nat.one_le_div_iff (by omega)).2 hle
    have hm0 : m = 0 → r = n := by
      intro h; subst h; rw [← hrr]; exact hr.one n hn
    have hm0q : m = 0 → n / r = 1 := by
      intro h; rw [hm0 h]; exact Nat.div_self (by omega)
    obtain ⟨reg, hreg, hregl, hregd, hregw⟩ := ih (n / r) hq hm0q
    -- the fat child, only when `rem ≠ 0`
    have hfat : ∃ fat : List Scheme,
        (if n % r = 0 then some [] else (scheme root (n / r + 1) m).map (List.replicate (n % r))) = some fat ∧
        fat.map Scheme.leaves = List.replicate (n % r) (n / r + 1) ∧
        (∀ c ∈ fat, c.depth ≤ m) ∧ (∀ c ∈ fat, c.WF) ∧ fat.length = n % r := by
      by_cases h0 : n % r = 0
      · exact ⟨[], by simp [h0], by simp [h0], by simp, by simp, by simp [h0]⟩
      · have hmne : m ≠ 0 := by
          intro h
          have := hm0 h
          subst this
          simp at h0
        obtain ⟨f, hf, hfl, hfd, hfw⟩ := ih (n / r + 1) (by omega) (fun h => absurd h hmne)
        refine ⟨List.replicate (n % r) f, by simp [h0, hf], ?_, ?_, ?_, by simp⟩
        · simp [hfl]
        · intro c hc; rw [(List.mem_replicate.1 hc).2]; exact hfd
        · intro c hc; rw [(List.mem_replicate.1 hc).2]; exact hfw
    obtain ⟨fat, hfat, hfatl, hfatd, hfatw, hfatlen⟩ := hfat
    refine ⟨.mk (r - 1) (computeModifiers (r - n % r) (n % r) (n / r) (n / r + 1)).1
        (computeModifiers (r - n % r) (n % r) (n / r) (n / r + 1)).2
        (some (fat ++ List.replicate (r - n % r) reg)), ?_, ?_, ?_, ?_⟩
    · have hr0 : r ≠ 0 := by omega
      simp only [scheme, hrr, hr0, if_false, hfat, hreg]
    · -- leaves
      by_cases h1 : r = 1
      · subst h1
        have : n < 2 := by
          refine Nat.lt_of_not_le fun h2 => ?_
          have := hr.two n (m + 1) h2 (by omega)
          omega
        simp [Scheme.leaves]; omega
      · obtain ⟨k, hk⟩ : ∃ k, r - 1 = k + 1 := ⟨r - 2, by omega⟩
        rw [hk]
        simp only [Scheme.leaves, leavesSum_eq, List.map_append, List.map_replicate, hfatl, hregl,
          List.sum_append, sum_replicate_nat]
        exact div_mod_split n r (by omega)
    · -- depth
      by_cases h1 : r = 1
      · subst h1; simp [Scheme.depth]
      · obtain ⟨k, hk⟩ : ∃ k, r - 1 = k + 1 := ⟨r - 2, by omega⟩
        rw [hk]
        simp only [Scheme.depth]
        have := depthMax_le (fat ++ List.replicate (r - n % r) reg) m (by
          intro c hc
          rcases List.mem_append.1 hc with h | h
          · exact hfatd c h
          · rw [(List.mem_replicate.1 h).2]; exact hregd)
        omega
    · -- well-formedness
      by_cases h1 : r = 1
      · subst h1; simp [Scheme.WF]
      · obtain ⟨k, hk⟩ : ∃ k, r - 1 = k + 1 := ⟨r - 2, by omega⟩
        rw [hk]
        simp only [Scheme.WF, computeModifiers]
        refine ⟨by simp [hfatlen]; omega, by simp [hfatl, hregl], ?_, ?_, ?_⟩
        · simp [Nat.add_comm]
        · have := div_mod_split n r (by omega)
          rw [Nat.add_comm] at this
          rw [this]; exact hn
        · rw [wfList_iff]
          intro c hc
          rcases List.mem_append.1 hc with h | h
          · exact hfatw c h
          · rw [(List.mem_replicate.1 h).2]; exact hregw

/-! ## Split positions -/

section split
variable (total den A : Nat)

theorem specFrom_skip (pre rest : List Nat) (i s : Nat)
    (h : (s + pre.sum) * den ≤ total * A) :
    specFrom total den A (pre ++ rest) i s = specFrom total den A rest (i + pre.length) (s + pre.sum) := by
  induction pre generalizing i s with
  | nil => simp
  | cons w pre ih =>
    have h1 : (s + w) * den ≤ total * A := by
      refine Nat.le_trans (Nat.mul_le_mul_right den ?_) h
      simp only [List.sum_cons]; omega
    have h2 : (s + w + pre.sum) * den ≤ total * A := by
      simpa [List.sum_cons, Nat.add_assoc] using h
    simp only [List.cons_append, specFrom, h1, if_true]
    rw [ih (i + 1) (s + w) h2]
    simp only [List.length_cons, List.sum_cons]
    congr 1 <;> omega

theorem refine_guarded (rest : List Nat) (i s : Nat) :
    refine {} total den A rest i s = some (specFrom total den A rest i s) := by
  induction rest generalizing i s with
  | nil => simp [refine, specFrom]
  | cons w rest ih =>
    simp only [refine, specFrom]
    split
    · exact ih _ _
    · rfl

/-- Bounds and the defining property of `specFrom`. -/
theorem specFrom_spec (rest : List Nat) (i s : Nat) :
    i ≤ specFrom total den A rest i s ∧ specFrom total den A rest i s ≤ i + rest.length ∧
    (∀ t, i + t < specFrom total den A rest i s → (s + (rest.take (t + 1)).sum) * den ≤ total * A) ∧
    (specFrom total den A rest i s < i + rest.length →
      total * A < (s + (rest.take (specFrom total den A rest i s - i + 1)).sum) * den) := by
  induction rest generalizing i s with
  | nil =>
    simp only [specFrom, List.length_nil]
    exact ⟨Nat.le_refl _, by omega, fun t ht => by omega, fun h => by omega⟩
  | cons w rest ih =>
    simp only [specFrom]
    split
    · next hle =>
      obtain ⟨h1, h2, h3, h4⟩ := ih (i + 1) (s + w)
      refine ⟨by omega, by simp only [List.length_cons]; omega, ?_, ?_⟩
      · intro t ht
        cases t with
        | zero => simpa using hle
        | succ t =>
          have := h3 t (by omega)
          simpa [List.take_succ_cons, List.sum_cons, Nat.add_assoc] using this
      · intro hlt
        have := h4 (by simp only [List.length_cons] at hlt; omega)
        have he : specFrom total den A rest (i + 1) (s + w) - i + 1
            = (specFrom total den A rest (i + 1) (s + w) - (i + 1) + 1) + 1 := by omega
        rw [he, List.take_succ_cons, List.sum_cons]
        simpa [Nat.add_assoc] using this
    · next hgt =>
      refine ⟨Nat.le_refl _, by omega, fun t ht => by omega, fun _ => ?_⟩
      simp only [Nat.sub_self, Nat.zero_add, List.take_succ_cons, List.take_zero, List.sum_cons,
        List.sum_nil, Nat.add_zero]
      omega

end split

/-- Prefix sum of the first `k` weights. -/
def pre (sw : List Nat) (k : Nat) : Nat := (sw.take k).sum

theorem pre_add (sw : List Nat) (p c : Nat) :
    pre sw (p + c) = pre sw p + ((sw.drop p).take c).sum := by
  unfold pre
  rw [List.take_add, List.sum_append]

theorem pre_mono (sw : List Nat) {a b : Nat} (h : a ≤ b) : pre sw a ≤ pre sw b := by
  obtain ⟨c, rfl⟩ := Nat.exists_eq_add_of_le h
  rw [pre_add]; omega

theorem pre_succ_le (sw : List Nat) (wmax : Nat) (hw : ∀ w ∈ sw, w ≤ wmax) (k : Nat) :
    pre sw (k + 1) ≤ pre sw k + wmax := by
  rw [pre_add]
  cases h : sw.drop k with
  | nil => simp
  | cons w r =>
    have : w ∈ sw := List.mem_of_mem_drop (h ▸ List.mem_cons_self)
    have := hw w this
    simp; omega

theorem pre_length (sw : List Nat) : pre sw sw.length = sw.sum := by
  simp [pre]

/-- `split_index_spec` in terms of prefix sums. -/
theorem specIdx_spec (total den A : Nat) (sw : List Nat) :
    specIdx total den A sw ≤ sw.length ∧
    (∀ t, t < specIdx total den A sw → pre sw (t + 1) * den ≤ total * A) ∧
    (specIdx total den A sw < sw.length → total * A < pre sw (specIdx total den A sw + 1) * den) := by
  obtain ⟨_, h2, h3, h4⟩ := specFrom_spec total den A sw 0 0
  unfold specIdx
  refine ⟨by simpa using h2, ?_, ?_⟩
  · intro t ht
    have := h3 t (by simpa using ht)
    simpa [pre] using this
  · intro hlt
    have := h4 (by simpa using hlt)
    simpa [pre] using this

theorem specIdx_mono (total den : Nat) (sw : List Nat) {A A' : Nat} (h : A ≤ A') :
    specIdx total den A sw ≤ specIdx total den A' sw := by
  obtain ⟨h1, h2, h3⟩ := specIdx_spec total den A sw
  obtain ⟨h1', h2', h3'⟩ := specIdx_spec total den A' sw
  refine Nat.le_of_not_lt fun hlt => ?_
  have ha := h3' (by omega)
  have hb := h2 _ hlt
  have : total * A ≤ total * A' := Nat.mul_le_mul_left _ h
  omega

/-- A scan entry `(idx, sum)` from which the refinement loop finds the specified index. -/
def Good (sw : List Nat) (total den A : Nat) (e : Nat × Nat) : Prop :=
  e.1 ≤ sw.length ∧ e.2 = pre sw e.1 ∧ e.2 * den ≤ total * A

theorem good_refine {sw : List Nat} {total den A : Nat} {e : Nat × Nat} (h : Good sw total den A e) :
    refine {} total den A (sw.drop e.1) e.1 e.2 = some (specIdx total den A sw) := by
  obtain ⟨h1, h2, h3⟩ := h
  rw [refine_guarded, specIdx]
  have h3' : (0 + (sw.take e.1).sum) * den ≤ total * A := by
    rw [h2, pre] at h3; simpa using h3
  have := specFrom_skip total den A (sw.take e.1) (sw.drop e.1) 0 0 h3'
  rw [List.take_append_drop] at this
  rw [this]
  simp only [Nat.zero_add, List.length_take]
  rw [Nat.min_eq_left h1, h2, pre]

/-- Pointwise relation of two lists of equal length (core has no `All₂`). -/
inductive All₂ {α β} (R : α → β → Prop) : List α → List β → Prop
  | nil : All₂ R [] []
  | cons {a b as bs} : R a b → All₂ R as bs → All₂ R (a :: as) (b :: bs)

/-- Relation between the remaining blocks and the position in the slab. -/
def BlocksAt (sw : List Nat) (chunks : List Nat) (pos : Nat) (bs : List (Nat × Nat)) (cur : Nat) : Prop :=
  chunks.sum + pos = sw.length ∧ bs = mkBlocks chunks (sw.drop pos) pos ∧ cur = pre sw pos

theorem scanInner_spec (sw : List Nat) (total den A : Nat) :
    ∀ chunks pos bs cur, BlocksAt sw chunks pos bs cur → cur * den ≤ total * A →
      ∃ e chunks' pos' bs' cur', scanInner {} sw.length total den A bs cur = some (e, bs', cur') ∧
        Good sw total den A e ∧ BlocksAt sw chunks' pos' bs' cur' := by
  intro chunks
  induction chunks with
  | nil =>
    intro pos bs cur ⟨h1, h2, h3⟩ hle
    simp only [List.sum_nil, Nat.zero_add] at h1
    subst h1
    simp only [mkBlocks] at h2
    subst h2
    refine ⟨(sw.length, cur), [], sw.length, [], cur, by simp [scanInner], ⟨Nat.le_refl _, h3, hle⟩, ?_⟩
    exact ⟨by simp, by simp [mkBlocks], h3⟩
  | cons c cs ih =>
    intro pos bs cur ⟨h1, h2, h3⟩ hle
    simp only [List.sum_cons] at h1
    simp only [mkBlocks] at h2
    subst h2
    have hnext : BlocksAt sw cs (pos + c) (mkBlocks cs ((sw.drop pos).drop c) (pos + c))
        (cur + ((sw.drop pos).take c).sum) := by
      refine ⟨by omega, by rw [List.drop_drop], ?_⟩
      rw [pre_add, h3]
    simp only [scanInner]
    split
    · next hex =>
      have hc : c ≠ 0 := by
        intro h0; subst h0; simp at hex; omega
      refine ⟨(pos, cur), cs, pos + c, _, _, by simp [hc], ⟨by omega, h3, hle⟩, hnext⟩
    · next hnex =>
      exact ih _ _ _ hnext (by omega)

theorem scanOuter_spec (sw : List Nat) (total den : Nat) :
    ∀ As chunks pos bs cur acc, BlocksAt sw chunks pos bs cur → As.Pairwise (· ≤ ·) →
      (acc = [] → cur = 0) →
      (∀ last, acc.head? = some last → last.1 ≤ sw.length ∧ last.2 = pre sw last.1 ∧
          ∀ A ∈ As, last.2 * den ≤ total * A) →
      ∃ es, scanOuter {} sw.length total den As bs cur acc = some (acc.reverse ++ es) ∧
        All₂ (fun e A => Good sw total den A e) es As := by
  intro As
  induction As with
  | nil =>
    intro chunks pos bs cur acc _ _ _ _
    exact ⟨[], by simp [scanOuter], .nil⟩
  | cons A As ih =>
    intro chunks pos bs cur acc hb hs hacc hlast
    have hs' : As.Pairwise (· ≤ ·) := (List.pairwise_cons.1 hs).2
    have hA : ∀ A' ∈ As, A ≤ A' := (List.pairwise_cons.1 hs).1
    simp only [scanOuter]
    split
    · next hex =>
      cases acc with
      | nil => simp [hacc rfl] at hex
      | cons last acc' =>
        obtain ⟨hl1, hl2, hl3⟩ := hlast last rfl
        obtain ⟨es, he, hg⟩ := ih chunks pos bs cur (last :: last :: acc') hb hs' (by simp)
          (by
            intro l hl
            simp only [List.head?_cons, Option.some.injEq] at hl
            subst hl
            exact ⟨hl1, hl2, fun A' hA' => hl3 A' (by simp [hA'])⟩)
        refine ⟨last :: es, ?_, .cons ⟨hl1, hl2, hl3 A (by simp)⟩ hg⟩
        simp [he]
    · next hnex =>
      obtain ⟨e, chunks', pos', bs', cur', hsi, hgood, hb'⟩ :=
        scanInner_spec sw total den A chunks pos bs cur hb (by omega)
      obtain ⟨es, he, hg⟩ := ih chunks' pos' bs' cur' (e :: acc) hb' hs' (by simp)
        (by
          intro l hl
          simp only [List.head?_cons, Option.some.injEq] at hl
          subst hl
          refine ⟨hgood.1, hgood.2.1, fun A' hA' => ?_⟩
          have : total * A ≤ total * A' := Nat.mul_le_mul_left _ (hA A' hA')
          exact Nat.le_trans hgood.2.2 this)
      refine ⟨e :: es, ?_, .cons hgood hg⟩
      simp [hsi, he]

theorem refineAll_spec (sw : List Nat) (total den : Nat) :
    ∀ es As, All₂ (fun e A => Good sw total den A e) es As →
      refineAll {} total den sw es As = some (As.map (fun A => specIdx total den A sw)) := by
  intro es As h
  induction h with
  | nil => simp [refineAll]
  | cons hg _ ih => simp [refineAll, good_refine hg, ih]

theorem cumul_ge (l : List Nat) (a : Nat) : ∀ x ∈ cumul l a, a ≤ x := by
  induction l generalizing a with
  | nil => simp [cumul]
  | cons b l ih =>
    intro x hx
    simp only [cumul, List.mem_cons] at hx
    rcases hx with rfl | hx
    · omega
    · have := ih _ x hx; omega

theorem cumul_sorted (l : List Nat) (a : Nat) : (cumul l a).Pairwise (· ≤ ·) := by
  induction l generalizing a with
  | nil => simp [cumul]
  | cons b l ih =>
    simp only [cumul, List.pairwise_cons]
    exact ⟨cumul_ge l _, ih _⟩

theorem cumul_length (l : List Nat) (a : Nat) : (cumul l a).length = l.length := by
  induction l generalizing a with
  | nil => simp [cumul]
  | cons b l ih => simp [cumul, ih]

/-- The slab's weights in the order of the permutation. -/
def slabW (ws perm : List Nat) : List Nat := perm.map (fun i => ws.getD i 0)

/-- `compute_split_positions` (guarded) computes `specIdx` of every threshold, whatever
the chunking of the parallel scan. -/
theorem splitPositions_eq (chunks ws perm mods : List Nat) (den : Nat)
    (hm : mods ≠ []) (hp : ∀ i ∈ perm, i < ws.length) (hc : chunks.sum = perm.length) :
    splitPositions {} chunks ws perm mods den =
      some ((cumul mods.dropLast 0).map (fun A => specIdx (slabW ws perm).sum den A (slabW ws perm))) := by
  cases mods with
  | nil => exact absurd rfl hm
  | cons m ms =>
    have hany : perm.any (fun i => decide (ws.length ≤ i)) = false := by
      rw [List.any_eq_false]
      intro i hi
      have := hp i hi
      simp; omega
    simp only [splitPositions, hany]
    have hb : BlocksAt (slabW ws perm) chunks 0 (mkBlocks chunks (slabW ws perm) 0) 0 :=
      ⟨by simp [slabW, hc], by simp, by simp [pre]⟩
    obtain ⟨es, he, hg⟩ := scanOuter_spec (slabW ws perm) (slabW ws perm).sum den
      (cumul (m :: ms).dropLast 0) chunks 0 _ 0 [] hb (cumul_sorted _ _) (by simp) (by simp)
    simp only [List.reverse_nil, List.nil_append] at he
    simp only [slabW] at he hg ⊢
    simp only [Bool.false_eq_true, if_false, he]
    exact refineAll_spec _ _ _ _ _ hg

/-- The positions are non-decreasing and at most the slab's length. -/
theorem spec_positions_sorted (total den : Nat) (sw : List Nat) (l : List Nat) (a : Nat) :
    ((cumul l a).map (fun A => specIdx total den A sw)).Pairwise (· ≤ ·) ∧
    ∀ p ∈ (cumul l a).map (fun A => specIdx total den A sw), p ≤ sw.length := by
  refine ⟨List.Pairwise.map _ (fun _ _ h => specIdx_mono total den sw h) (cumul_sorted l a), ?_⟩
  intro p hp
  obtain ⟨A, _, rfl⟩ := List.mem_map.1 hp
  exact (specIdx_spec total den A sw).1

/-! ## `split_at_mut_many` -/

/-- The slices `split_at_mut_many` returns. -/
def segs {α} : List α → Nat → List Nat → List (List α)
  | rest, _, [] => [rest]
  | rest, drained, p :: ps => rest.take (p - drained) :: segs (rest.drop (p - drained)) p ps

theorem splitManyAux_eq {α} : ∀ (ps : List Nat) (rest : List α) (drained : Nat),
    ps.Pairwise (· ≤ ·) → (∀ p ∈ ps, drained ≤ p ∧ p ≤ drained + rest.length) →
    splitManyAux rest drained ps = some (segs rest drained ps) := by
  intro ps
  induction ps with
  | nil => intro rest drained _ _; simp [splitManyAux, segs]
  | cons p ps ih =>
    intro rest drained hs hb
    obtain ⟨h1, h2⟩ := hb p (by simp)
    have hd : drained + (p - drained) = p := by omega
    simp only [splitManyAux, segs, hd]
    rw [if_neg (by omega), if_neg (by omega)]
    rw [ih (rest.drop (p - drained)) p (List.pairwise_cons.1 hs).2 (by
      intro p' hp'
      have := (List.pairwise_cons.1 hs).1 p' hp'
      have := (hb p' (by simp [hp'])).2
      simp only [List.length_drop]
      omega)]

theorem segs_flatten {α} : ∀ (ps : List Nat) (rest : List α) (drained : Nat),
    (segs rest drained ps).flatten = rest := by
  intro ps
  induction ps with
  | nil => intro rest drained; simp [segs]
  | cons p ps ih => intro rest drained; simp [segs, ih]

theorem segs_length {α} : ∀ (ps : List Nat) (rest : List α) (drained : Nat),
    (segs rest drained ps).length = ps.length + 1 := by
  intro ps
  induction ps with
  | nil => intro rest drained; simp [segs]
  | cons p ps ih => intro rest drained; simp [segs, ih]

/-! ## The recursion -/

theorem Scheme.induct {P : Scheme → Prop}
    (h : ∀ k mods den next, (∀ cs, next = some cs → ∀ c ∈ cs, P c) → P (.mk k mods den next)) :
    ∀ s, P s := by
  intro s
  refine Scheme.rec (motive_1 := P)
    (motive_2 := fun o => ∀ cs, o = some cs → ∀ c ∈ cs, P c)
    (motive_3 := fun l => ∀ c ∈ l, P c) ?_ ?_ ?_ ?_ ?_ s
  · intro k mods den next ih; exact h k mods den next ih
  · intro cs h; simp at h
  · intro val ih cs h; cases h; exact ih
  · simp
  · intro head tail ih1 ih2 c hc
    rcases List.mem_cons.1 hc with rfl | h
    · exact ih1
    · exact ih2 c h

/-- What the theorems need from `axis_sort`. -/
structure SortOk (sort : (Nat → Int) → List Nat → List Nat) : Prop where
  perm : ∀ k l, (sort k l).Perm l
  sorted : ∀ k l, (sort k l).Pairwise (fun a b => k a ≤ k b)

/-- Every chunking the parallel scan may use covers the slab. -/
def ChunkOk (chunk : Nat → List Nat) : Prop := ∀ n, (chunk n).sum = n

inductive All₃ {α β γ} (R : α → β → γ → Prop) : List α → List β → List γ → Prop
  | nil : All₃ R [] [] []
  | cons {a b c as bs cs} : R a b c → All₃ R as bs cs → All₃ R (a :: as) (b :: bs) (c :: cs)

theorem all₂_of_forall {α β} {R : α → β → Prop} : ∀ (as : List α) (bs : List β),
    as.length = bs.length → (∀ a ∈ as, ∀ b ∈ bs, R a b) → All₂ R as bs := by
  intro as
  induction as with
  | nil => intro bs hl _; cases bs <;> simp_all [All₂.nil]
  | cons a as ih =>
    intro bs hl h
    cases bs with
    | nil => simp at hl
    | cons b bs =>
      exact .cons (h a (by simp) b (by simp))
        (ih bs (by simpa using hl) (fun a' ha' b' hb' => h a' (by simp [ha']) b' (by simp [hb'])))

/-- All elements below the children, slab by slab. -/
theorem elems_node (hs : List Hier) : (Hier.node hs).elems = (hs.map Hier.elems).flatten := by
  simp only [Hier.elems, Hier.leaves]
  induction hs with
  | nil => simp [leavesL]
  | cons h hs ih => simp [leavesL, ih, Hier.elems]

theorem leavesL_length (hs : List Hier) : (leavesL hs).length = (hs.map (fun h => h.leaves.length)).sum := by
  induction hs with
  | nil => simp [leavesL]
  | cons h hs ih => simp [leavesL, ih]

mutual
/-- Jagged hierarchy: the children of a node are ordered along the node's axis (no
coordinate of a slab exceeds a coordinate of a later slab) and each child is a jagged
hierarchy along the next axis (cyclically). -/
def Hier.Jagged (key : Nat → Nat → Int) (dim : Nat) : Hier → Nat → Prop
  | .leaf _, _ => True
  | .node cs, coord =>
    (cs.map Hier.elems).Pairwise (fun a b => ∀ x ∈ a, ∀ y ∈ b, key coord x ≤ key coord y) ∧
    JaggedL key dim cs ((coord + 1) % dim)
def JaggedL (key : Nat → Nat → Int) (dim : Nat) : List Hier → Nat → Prop
  | [], _ => True
  | c :: cs, coord => c.Jagged key dim coord ∧ JaggedL key dim cs coord
end

section recursion
variable {sort : (Nat → Int) → List Nat → List Nat} {chunk : Nat → List Nat}
  (dim : Nat) (key : Nat → Nat → Int) (ws : List Nat)

theorem recurseList_spec {Pcp : Scheme → List Nat → Prop} {Q : Scheme → List Nat → Hier → Prop}
    (coord : Nat) : ∀ (cs : List Scheme) (subs : List (List Nat)),
    (∀ c ∈ cs, ∀ p, Pcp c p → ∃ h, recurse {} sort chunk dim key ws c coord p = some h ∧ Q c p h) →
    All₂ Pcp cs subs →
    ∃ hs, recurseList {} sort chunk dim key ws cs coord subs = some hs ∧
      All₃ (fun c p h => Pcp c p ∧ Q c p h) cs subs hs := by
  intro cs subs hrec hall
  induction hall with
  | nil => exact ⟨[], by simp [recurseList], .nil⟩
  | @cons c p cs subs hcp _ ih =>
    obtain ⟨h, hh, hq⟩ := hrec c (by simp) p hcp
    obtain ⟨hs, hhs, hall'⟩ := ih (fun c' hc' => hrec c' (by simp [hc']))
    exact ⟨h :: hs, by simp [recurseList, hh, hhs], .cons ⟨hcp, hq⟩ hall'⟩

/-- One splitting node of a well-formed scheme: the recursion sorts the slab, cuts it at the
specified positions and descends into the pieces. -/
theorem recurse_node (hsort : SortOk sort) (hchunk : ChunkOk chunk)
    (k : Nat) (mods : List Nat) (den : Nat) (cs : List Scheme) (coord : Nat) (perm : List Nat)
    (hlen : cs.length = k + 2) (hmods : mods = cs.map Scheme.leaves)
    (hp : ∀ i ∈ perm, i < ws.length) :
    recurse {} sort chunk dim key ws (.mk (k + 1) mods den (some cs)) coord perm =
      (recurseList {} sort chunk dim key ws cs ((coord + 1) % dim)
        (segs (sort (key coord) perm) 0
          ((cumul mods.dropLast 0).map (fun A =>
            specIdx (slabW ws (sort (key coord) perm)).sum den A (slabW ws (sort (key coord) perm)))))).map .node := by
  have hm : mods ≠ [] := by
    intro h; rw [h] at hmods
    have := congrArg List.length hmods
    simp at this; omega
  have hp' : ∀ i ∈ sort (key coord) perm, i < ws.length :=
    fun i hi => hp i ((hsort.perm _ _).mem_iff.1 hi)
  simp only [recurse]
  rw [splitPositions_eq _ _ _ _ _ hm hp' (hchunk _)]
  have hso := spec_positions_sorted (slabW ws (sort (key coord) perm)).sum den
    (slabW ws (sort (key coord) perm)) mods.dropLast 0
  simp only [splitMany]
  rw [splitManyAux_eq _ _ _ hso.1 (by
    intro p hp
    have := hso.2 p hp
    simp [slabW] at this
    omega)]

/-- The per-child facts collected by `recurse_spec`. -/
def ChildOk (coord : Nat) (c : Scheme) (p : List Nat) (h : Hier) : Prop :=
  h.elems.Perm p ∧ h.leaves.length = c.leaves ∧ h.Jagged key dim coord

theorem all₃_elems_perm {R : Scheme → List Nat → Hier → Prop} {cs subs hs}
    (hR : ∀ c p h, R c p h → h.elems.Perm p) (h : All₃ R cs subs hs) :
    ((hs.map Hier.elems).flatten).Perm subs.flatten := by
  induction h with
  | nil => simp
  | cons h1 _ ih => simpa using List.Perm.append (hR _ _ _ h1) ih

theorem all₃_leaves {R : Scheme → List Nat → Hier → Prop} {cs subs hs}
    (hR : ∀ c p h, R c p h → h.leaves.length = c.leaves) (h : All₃ R cs subs hs) :
    (leavesL hs).length = leavesSum cs := by
  induction h with
  | nil => simp [leavesL, leavesSum]
  | cons h1 _ ih => simp [leavesL, leavesSum, hR _ _ _ h1, ih]

theorem all₃_jagged {R : Scheme → List Nat → Hier → Prop} {cs subs hs} (coord : Nat)
    (hR : ∀ c p h, R c p h → h.Jagged key dim coord) (h : All₃ R cs subs hs) :
    JaggedL key dim hs coord := by
  induction h with
  | nil => simp [JaggedL]
  | cons h1 _ ih => exact ⟨hR _ _ _ h1, ih⟩

theorem all₃_mem {R : Scheme → List Nat → Hier → Prop} {cs subs hs}
    (h : All₃ R cs subs hs) : ∀ h' ∈ hs, ∃ c ∈ cs, ∃ p ∈ subs, R c p h' := by
  induction h with
  | nil => simp
  | @cons a b c as bs cs' h1 _ ih =>
    intro h' hh'
    rcases List.mem_cons.1 hh' with rfl | hm
    · exact ⟨a, by simp, b, by simp, h1⟩
    · obtain ⟨c', hc', p', hp', hr⟩ := ih h' hm
      exact ⟨c', by simp [hc'], p', by simp [hp'], hr⟩

theorem all₃_pairwise {R : Scheme → List Nat → Hier → Prop} {cs subs hs} (S : Nat → Nat → Prop)
    (hR : ∀ c p h, R c p h → h.elems.Perm p) (h : All₃ R cs subs hs)
    (hp : subs.Pairwise (fun a b => ∀ x ∈ a, ∀ y ∈ b, S x y)) :
    (hs.map Hier.elems).Pairwise (fun a b => ∀ x ∈ a, ∀ y ∈ b, S x y) := by
  induction h with
  | nil => simp
  | @cons a b c as bs cs' h1 hrest ih =>
    simp only [List.map_cons, List.pairwise_cons] at hp ⊢
    refine ⟨?_, ih hp.2⟩
    intro e he x hx y hy
    obtain ⟨h', hh', rfl⟩ := List.mem_map.1 he
    obtain ⟨_, _, p', hp', hr⟩ := all₃_mem hrest h' hh'
    exact hp.1 p' hp' x ((hR _ _ _ h1).mem_iff.1 hx) y ((hR _ _ _ hr).mem_iff.1 hy)

/-- Totality and structure of the recursion on a well-formed scheme. -/
theorem recurse_spec (hsort : SortOk sort) (hchunk : ChunkOk chunk) :
    ∀ s : Scheme, s.WF → ∀ coord perm, (∀ i ∈ perm, i < ws.length) →
      ∃ h, recurse {} sort chunk dim key ws s coord perm = some h ∧ ChildOk dim key coord s perm h := by
  intro s
  induction s using Scheme.induct with
  | h k mods den next ih =>
    intro hwf coord perm hp
    cases k with
    | zero =>
      refine ⟨.leaf perm, by simp [recurse], ?_, ?_, ?_⟩
      · simp [Hier.elems, Hier.leaves]
      · simp [Hier.leaves, Scheme.leaves]
      · simp [Hier.Jagged]
    | succ k =>
      cases next with
      | none => simp [Scheme.WF] at hwf
      | some cs =>
        obtain ⟨hlen, hmods, _, _, hwfl⟩ := hwf
        rw [recurse_node dim key ws hsort hchunk k mods den cs coord perm hlen hmods hp]
        generalize hps : (cumul mods.dropLast 0).map (fun A =>
            specIdx (slabW ws (sort (key coord) perm)).sum den A (slabW ws (sort (key coord) perm))) = ps
        have hpslen : ps.length + 1 = cs.length := by
          rw [← hps, List.length_map, cumul_length, List.length_dropLast, hmods, List.length_map]
          omega
        have hsub : ∀ p ∈ segs (sort (key coord) perm) 0 ps, ∀ i ∈ p, i < ws.length := by
          intro p hp' i hi
          have : i ∈ (segs (sort (key coord) perm) 0 ps).flatten := List.mem_flatten.2 ⟨p, hp', hi⟩
          rw [segs_flatten] at this
          exact hp i ((hsort.perm _ _).mem_iff.1 this)
        obtain ⟨hs, hhs, hall⟩ := recurseList_spec (sort := sort) (chunk := chunk) dim key ws
          (Pcp := fun _ p => ∀ i ∈ p, i < ws.length)
          (Q := ChildOk dim key ((coord + 1) % dim)) ((coord + 1) % dim) cs
          (segs (sort (key coord) perm) 0 ps)
          (fun c hc p hcp => ih cs rfl c hc ((wfList_iff cs).1 hwfl c hc) _ p hcp)
          (all₂_of_forall _ _ (by rw [segs_length]; omega) (fun _ _ p hp' => hsub p hp'))
        refine ⟨.node hs, by simp [hhs], ?_, ?_, ?_, ?_⟩
        · rw [elems_node]
          refine (all₃_elems_perm (fun _ _ _ hr => hr.2.1) hall).trans ?_
          rw [segs_flatten]
          exact hsort.perm _ _
        · simp only [Hier.leaves, Scheme.leaves]
          exact all₃_leaves (fun _ _ _ hr => hr.2.2.1) hall
        · refine all₃_pairwise (fun x y => key coord x ≤ key coord y) (fun _ _ _ hr => hr.2.1) hall ?_
          have := hsort.sorted (key coord) perm
          rw [← segs_flatten ps (sort (key coord) perm) 0, List.pairwise_flatten] at this
          exact this.2
        · exact all₃_jagged dim key _ (fun _ _ _ hr => hr.2.2.2) hall

end recursion

end Coupe.MultiJagged
