import CoupeModel.Model.MultiJagged

/-!
# Lemmas about the MultiJagged model (`Model/MultiJagged.lean`)
-/

namespace Coupe.MultiJagged

/-! ## The partition scheme -/

/-- What the proofs need from `(num_parts as f32).powf(1. / max_iter as f32).ceil()`. -/
structure RootOk (root : Nat → Nat → Nat) : Prop where
  pos : ∀ n m, 1 ≤ n → 1 ≤ root n m
  le : ∀ n m, 1 ≤ n → 1 ≤ m → root n m ≤ n
  two : ∀ n m, 2 ≤ n → 1 ≤ m → 2 ≤ root n m
  one : ∀ n, 1 ≤ n → root n 1 = n
  zero : root 1 0 = 1

mutual
/-- Well-formed scheme: every splitting node has one child and one modifier per slab, the
modifier numerators are the children's leaf counts and the denominator is their sum. -/
def Scheme.WF : Scheme → Prop
  | .mk 0 _ _ _ => True
  | .mk (_ + 1) _ _ none => False
  | .mk (k + 1) mods den (some cs) =>
    cs.length = k + 2 ∧ mods = cs.map Scheme.leaves ∧ den = mods.sum ∧ 0 < den ∧ WFList cs
def WFList : List Scheme → Prop
  | [] => True
  | c :: cs => c.WF ∧ WFList cs
end

theorem wfList_iff (cs : List Scheme) : WFList cs ↔ ∀ c ∈ cs, c.WF := by
  induction cs with
  | nil => simp [WFList]
  | cons c cs ih => simp [WFList, ih]

theorem leavesSum_eq (cs : List Scheme) : leavesSum cs = (cs.map Scheme.leaves).sum := by
  induction cs with
  | nil => simp [leavesSum]
  | cons c cs ih => simp [leavesSum, ih]

theorem depthMax_le (cs : List Scheme) (d : Nat) (h : ∀ c ∈ cs, c.depth ≤ d) : depthMax cs ≤ d := by
  induction cs with
  | nil => simp [depthMax]
  | cons c cs ih =>
    simp only [depthMax]
    have h1 := h c (by simp)
    have h2 := ih (fun c hc => h c (by simp [hc]))
    omega

theorem sum_replicate_nat (k a : Nat) : (List.replicate k a).sum = k * a := by
  induction k with
  | zero => simp
  | succ k ih => simp [List.replicate_succ, ih, Nat.add_mul, Nat.add_comm]

theorem div_mod_split (n r : Nat) (hr : 0 < r) :
    n % r * (n / r + 1) + (r - n % r) * (n / r) = n := by
  have h1 := Nat.div_add_mod n r
  have h2 : n % r < r := Nat.mod_lt _ hr
  generalize n / r = q at *
  generalize hk : r - n % r = k
  generalize n % r = e at *
  have hr' : r = e + k := by omega
  subst hr'
  rw [Nat.mul_add, Nat.add_mul] at *
  omega

/-- Everything the scheme theorems need, proved together by induction on `max_iter`. -/
theorem scheme_ok {root : Nat → Nat → Nat} (hr : RootOk root) :
    ∀ m n, 1 ≤ n → (m = 0 → n = 1) →
      ∃ s, scheme root n m = some s ∧ s.leaves = n ∧ s.depth ≤ m ∧ s.WF := by
  intro m
  induction m with
  | zero =>
    intro n _ h0
    have hn : n = 1 := h0 rfl
    subst hn
    refine ⟨.mk 0 (computeModifiers 1 0 1 2).1 (computeModifiers 1 0 1 2).2 none, ?_, ?_, ?_, ?_⟩
    · simp [scheme, hr.zero]
    · simp [Scheme.leaves]
    · simp [Scheme.depth]
    · simp [Scheme.WF]
  | succ m ih =>
    intro n hn _
    have hpos := hr.pos n (m + 1) hn
    have hle := hr.le n (m + 1) hn (by omega)
    generalize hrr : root n (m + 1) = r at hpos hle
    have hrem : n % r < r := Nat.mod_lt _ (by omega)
    have hq : 1 ≤ n / r := (Nat.one_le_div_iff (by omega)).2 hle
    have hm0 : m = 0 → r = n := by
      intro h; subst h; rw [← hrr]; exact hr.one n hn
    have hm0q : m = 0 → n / r = 1 := by
      intro h; rw [hm0 h]; exact Nat.div_self (by omega)
    obtain ⟨reg, hreg, hregl, hregd, hregw⟩ := ih (n / r) hq hm0q
    -- the fat child, only when `rem ≠ 0`
    have hfat : ∃ fat : List Scheme,
        (if n % r = 0 then some [] else (scheme root (n / r + 1) m).map (List.replicate (n % r))) = some fat ∧
        fat.map Scheme.leaves = List.replicate (n % r) (n / r + 1) ∧
        (∀ c ∈ fat, c.depth ≤ m) ∧ (∀ c ∈ fat, c.WF) ∧ fat.length = n % r := by
      by_cases h0 : n % r = 0
      · exact ⟨[], by simp [h0], by simp [h0], by simp, by simp, by simp [h0]⟩
      · have hmne : m ≠ 0 := by
          intro h
          have := hm0 h
          subst this
          simp at h0
        obtain ⟨f, hf, hfl, hfd, hfw⟩ := ih (n / r + 1) (by omega) (fun h => absurd h hmne)
        refine ⟨List.replicate (n % r) f, by simp [h0, hf], ?_, ?_, ?_, by simp⟩
        · simp [hfl]
        · intro c hc; rw [(List.mem_replicate.1 hc).2]; exact hfd
        · intro c hc; rw [(List.mem_replicate.1 hc).2]; exact hfw
    obtain ⟨fat, hfat, hfatl, hfatd, hfatw, hfatlen⟩ := hfat
    refine ⟨.mk (r - 1) (computeModifiers (r - n % r) (n % r) (n / r) (n / r + 1)).1
        (computeModifiers (r - n % r) (n % r) (n / r) (n / r + 1)).2
        (some (fat ++ List.replicate (r - n % r) reg)), ?_, ?_, ?_, ?_⟩
    · have hr0 : r ≠ 0 := by omega
      simp only [scheme, hrr, hr0, if_false, hfat, hreg]
    · -- leaves
      by_cases h1 : r = 1
      · subst h1
        have : n < 2 := by
          refine Nat.lt_of_not_le fun h2 => ?_
          have := hr.two n (m + 1) h2 (by omega)
          omega
        simp [Scheme.leaves]; omega
      · obtain ⟨k, hk⟩ : ∃ k, r - 1 = k + 1 := ⟨r - 2, by omega⟩
        rw [hk]
        simp only [Scheme.leaves, leavesSum_eq, List.map_append, List.map_replicate, hfatl, hregl,
          List.sum_append, sum_replicate_nat]
        exact div_mod_split n r (by omega)
    · -- depth
      by_cases h1 : r = 1
      · subst h1; simp [Scheme.depth]
      · obtain ⟨k, hk⟩ : ∃ k, r - 1 = k + 1 := ⟨r - 2, by omega⟩
        rw [hk]
        simp only [Scheme.depth]
        have := depthMax_le (fat ++ List.replicate (r - n % r) reg) m (by
          intro c hc
          rcases List.mem_append.1 hc with h | h
          · exact hfatd c h
          · rw [(List.mem_replicate.1 h).2]; exact hregd)
        omega
    · -- well-formedness
      by_cases h1 : r = 1
      · subst h1; simp [Scheme.WF]
      · obtain ⟨k, hk⟩ : ∃ k, r - 1 = k + 1 := ⟨r - 2, by omega⟩
        rw [hk]
        simp only [Scheme.WF, computeModifiers]
        refine ⟨by simp [hfatlen]; omega, by simp [hfatl, hregl], ?_, ?_, ?_⟩
        · simp [sum_replicate_nat, Nat.add_comm]
        · have := div_mod_split n r (by omega)
          rw [Nat.add_comm] at this
          rw [this]; exact hn
        · rw [wfList_iff]
          intro c hc
          rcases List.mem_append.1 hc with h | h
          · exact hfatw c h
          · rw [(List.mem_replicate.1 h).2]; exact hregw

end Coupe.MultiJagged
