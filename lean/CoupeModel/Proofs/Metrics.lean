import CoupeModel.Model.Basic
import CoupeModel.Model.Metrics
import Mathlib.Data.Finset.Card

/-!
# Lemmas about `Model/Metrics.lean` (edge cut, λ-1 cut, loads)
-/

namespace Coupe.Metrics

/-! ## finite sums -/

theorem sumTo_congr {n : Nat} {f g : Nat → Int} (h : ∀ i, i < n → f i = g i) :
    sumTo n f = sumTo n g := by
  induction n with
  | zero => rfl
  | succ n ih =>
    simp only [sumTo]
    rw [ih (fun i hi => h i (by omega)), h n (by omega)]

theorem sumTo_add (n : Nat) (f g : Nat → Int) :
    sumTo n (fun i => f i + g i) = sumTo n f + sumTo n g := by
  induction n with
  | zero => rfl
  | succ n ih => simp only [sumTo, ih]; omega

theorem sumTo_zero (n : Nat) : sumTo n (fun _ => 0) = 0 := by
  induction n with
  | zero => rfl
  | succ n ih => simp only [sumTo, ih]; omega

/-- A sum with a single non-zero term. -/
theorem sumTo_single (n a : Nat) (c : Int) :
    sumTo n (fun j => if a = j then c else 0) = if a < n then c else 0 := by
  induction n with
  | zero => simp [sumTo]
  | succ n ih =>
    simp only [sumTo, ih]
    by_cases h1 : a < n
    · have : a ≠ n := by omega
      simp [h1, this, show a < n + 1 by omega]
    · by_cases h2 : a = n
      · subst h2; simp
      · simp [h1, h2, show ¬ a < n + 1 by omega]

/-- Sum over all ordered pairs = twice the sum below the diagonal, for a
symmetric kernel that vanishes on the diagonal. -/
theorem sumTo_square_eq_two_triangle (n : Nat) (g : Nat → Nat → Int)
    (hdiag : ∀ i, i < n → g i i = 0)
    (hsym : ∀ i j, i < n → j < n → g i j = g j i) :
    sumTo n (fun i => sumTo n (g i)) = 2 * sumTo n (fun i => sumTo i (g i)) := by
  induction n with
  | zero => rfl
  | succ n ih =>
    have ih' := ih (fun i hi => hdiag i (by omega)) (fun i j hi hj => hsym i j (by omega) (by omega))
    have h1 : sumTo n (fun i => sumTo (n + 1) (g i)) =
        sumTo n (fun i => sumTo n (g i)) + sumTo n (fun i => g i n) := by
      rw [← sumTo_add]; rfl
    have h2 : sumTo n (fun i => g i n) = sumTo n (g n) :=
      sumTo_congr (fun i hi => hsym i n (by omega) (by omega))
    have h3 : sumTo (n + 1) (g n) = sumTo n (g n) := by
      simp only [sumTo, hdiag n (by omega)]; omega
    calc sumTo (n + 1) (fun i => sumTo (n + 1) (g i))
        = sumTo n (fun i => sumTo (n + 1) (g i)) + sumTo (n + 1) (g n) := rfl
      _ = 2 * (sumTo n (fun i => sumTo i (g i)) + sumTo n (g n)) := by
          rw [h1, h2, h3, ih']; omega
      _ = 2 * sumTo (n + 1) (fun i => sumTo i (g i)) := rfl

theorem perm_sum {l l' : List Int} (h : l.Perm l') : l.sum = l'.sum := by
  induction h with
  | nil => rfl
  | cons x _ ih => simp [ih]
  | swap x y l => simp only [List.sum_cons]; omega
  | trans _ _ ih1 ih2 => omega

/-! ## edge cut: `take_while` against `filter` -/

/-- On a row sorted by neighbour id, `take_while(n < v)` keeps exactly what
`filter(n < v)` keeps. -/
theorem takeWhile_eq_filter_of_sorted (v : Nat) (row : Row)
    (hs : row.Pairwise (fun a b => a.1 ≤ b.1)) :
    row.takeWhile (fun e => decide (e.1 < v)) = row.filter (fun e => decide (e.1 < v)) := by
  induction row with
  | nil => rfl
  | cons x xs ih =>
    rw [List.pairwise_cons] at hs
    by_cases hx : x.1 < v
    · simp only [List.takeWhile_cons, List.filter_cons, hx, decide_true, if_true]
      rw [ih hs.2]
    · have hnil : xs.filter (fun e => decide (e.1 < v)) = [] := by
        rw [List.filter_eq_nil_iff]
        intro e he
        have := hs.1 e he
        simp only [decide_eq_true_eq]; omega
      simp only [List.takeWhile_cons, List.filter_cons, hx, decide_false, hnil]
      rfl

theorem rowCutSprs_eq_generic (p : List Nat) (v : Nat) (row : Row)
    (hs : row.Pairwise (fun a b => a.1 ≤ b.1)) :
    rowCutSprs p v row = rowCutGeneric p v row := by
  unfold rowCutSprs rowCutGeneric
  rw [takeWhile_eq_filter_of_sorted v row hs, List.filter_filter]

theorem edgeCutSprsRows_eq_topo (t : Topo) (p : List Nat)
    (hs : ∀ v, v < t.len → (t.nbrs v).Pairwise (fun a b => a.1 ≤ b.1)) :
    edgeCutSprsRows t.len t.nbrs p = edgeCutTopo t p := by
  unfold edgeCutSprsRows edgeCutTopo
  exact sumTo_congr (fun v hv => rowCutSprs_eq_generic p v _ (hs v hv))

/-! ## edge cut: the definition -/

/-- Matrix entry `(row, j)`: total weight stored for neighbour `j` (a valid
sprs row stores it at most once). -/
def entry (row : Row) (j : Nat) : Int :=
  ((row.filter (fun e => e.1 == j)).map (·.2)).sum

theorem entry_cons (e : Nat × Int) (row : Row) (j : Nat) :
    entry (e :: row) j = (if e.1 = j then e.2 else 0) + entry row j := by
  unfold entry
  by_cases h : e.1 = j <;> simp [h]

/-- One vertex's contribution is the sum, over the smaller ids in another part,
of the matrix entry. -/
theorem rowCutGeneric_eq_sum (p : List Nat) (v : Nat) (row : Row) :
    rowCutGeneric p v row =
      sumTo v (fun j => if part p v ≠ part p j then entry row j else 0) := by
  induction row with
  | nil => simp [rowCutGeneric, entry, sumTo_zero]
  | cons e rest ih =>
    have hsplit : (fun j => if part p v ≠ part p j then entry (e :: rest) j else 0) =
        (fun j => (if e.1 = j then (if part p v ≠ part p e.1 then e.2 else 0) else 0) +
          (if part p v ≠ part p j then entry rest j else 0)) := by
      funext j
      rw [entry_cons]
      by_cases h1 : e.1 = j
      · subst h1
        by_cases h2 : part p v ≠ part p e.1 <;> simp [h2]
      · simp [h1]
    rw [hsplit, sumTo_add, sumTo_single, ← ih]
    unfold rowCutGeneric
    by_cases h1 : e.1 < v <;> by_cases h2 : part p v = part p e.1 <;>
      simp [h1, h2]

/-- `edge_cut` = Σ over pairs `j < i` in different parts of the entry `(i, j)`:
each unordered pair is read once, below the diagonal (no symmetry needed). -/
theorem edgeCutTopo_eq_lower (t : Topo) (p : List Nat) :
    edgeCutTopo t p =
      sumTo t.len (fun i => sumTo i (fun j =>
        if part p i ≠ part p j then entry (t.nbrs i) j else 0)) := by
  unfold edgeCutTopo
  exact sumTo_congr (fun v _ => rowCutGeneric_eq_sum p v _)

/-- Symmetric adjacency: entry `(i, j)` = entry `(j, i)`. -/
def Symmetric (t : Topo) : Prop :=
  ∀ i j, i < t.len → j < t.len → entry (t.nbrs i) j = entry (t.nbrs j) i

theorem two_edgeCutTopo_eq (t : Topo) (p : List Nat) (hsym : Symmetric t) :
    2 * edgeCutTopo t p =
      sumTo t.len (fun i => sumTo t.len (fun j =>
        if part p i ≠ part p j then entry (t.nbrs i) j else 0)) := by
  rw [edgeCutTopo_eq_lower]
  symm
  apply sumTo_square_eq_two_triangle t.len
    (fun i j => if part p i ≠ part p j then entry (t.nbrs i) j else 0)
  · intro i _; simp
  · intro i j hi hj
    rw [hsym i j hi hj]
    by_cases h : part p i = part p j
    · simp [h]
    · have h' : part p j ≠ part p i := fun e => h e.symm
      simp [h, h']

/-! ## invariance under permutation of a row -/

theorem rowCutGeneric_perm (p : List Nat) (v : Nat) {r r' : Row} (h : r.Perm r') :
    rowCutGeneric p v r = rowCutGeneric p v r' := by
  unfold rowCutGeneric
  exact perm_sum ((h.filter _).map _)

theorem edgeCutTopo_perm (n : Nat) (f g : Nat → Row) (p : List Nat)
    (h : ∀ v, v < n → (f v).Perm (g v)) :
    edgeCutTopo ⟨n, f⟩ p = edgeCutTopo ⟨n, g⟩ p := by
  unfold edgeCutTopo
  exact sumTo_congr (fun v hv => rowCutGeneric_perm p v (h v hv))

/-! ## λ-1 cut -/

theorem mem_insertPart (s : List Nat) (x y : Nat) :
    y ∈ insertPart s x ↔ y = x ∨ y ∈ s := by
  by_cases h : x ∈ s
  · simp only [insertPart, List.contains_iff_mem, h, if_true]
    constructor
    · exact Or.inr
    · rintro (rfl | h')
      · exact h
      · exact h'
  · simp [insertPart, h]

theorem nodup_insertPart (s : List Nat) (x : Nat) (h : s.Nodup) : (insertPart s x).Nodup := by
  by_cases hc : x ∈ s
  · simpa [insertPart, hc] using h
  · simp [insertPart, hc, h]

theorem foldl_insertPart (l s : List Nat) (hs : s.Nodup) :
    (l.foldl insertPart s).Nodup ∧ ∀ y, y ∈ l.foldl insertPart s ↔ y ∈ s ∨ y ∈ l := by
  induction l generalizing s with
  | nil => simp [hs]
  | cons x xs ih =>
    obtain ⟨h1, h2⟩ := ih (insertPart s x) (nodup_insertPart s x hs)
    refine ⟨h1, fun y => ?_⟩
    simp only [List.foldl_cons, h2, mem_insertPart, List.mem_cons]
    tauto

/-- The model of the `HashSet` is duplicate-free and holds exactly the values
inserted. -/
theorem partsOf_spec (l : List Nat) : (partsOf l).Nodup ∧ ∀ y, y ∈ partsOf l ↔ y ∈ l := by
  have := foldl_insertPart l [] List.nodup_nil
  simpa [partsOf] using this

/-- Its size is the number of distinct values. -/
theorem partsOf_length (l : List Nat) : (partsOf l).length = l.toFinset.card := by
  obtain ⟨h1, h2⟩ := partsOf_spec l
  rw [← List.toFinset_card_of_nodup h1]
  congr 1
  ext y
  simp [h2]

theorem partsOf_length_of_mem_iff {l l' : List Nat} (h : ∀ y, y ∈ l ↔ y ∈ l') :
    (partsOf l).length = (partsOf l').length := by
  rw [partsOf_length, partsOf_length]
  congr 1
  ext y
  simp [h]

/-- `len() - 1` = number of parts *other than the vertex's own* that occur among
the neighbours ("foreign parts"). -/
theorem lambdaRow_eq_foreign (p : List Nat) (v : Nat) (nb : List Nat) :
    lambdaRow p v nb = ((nb.map (part p)).toFinset.erase (part p v)).card := by
  unfold lambdaRow
  rw [partsOf_length, List.toFinset_cons]
  by_cases h : part p v ∈ (nb.map (part p)).toFinset
  · rw [Finset.insert_eq_of_mem h, Finset.card_erase_of_mem h]
  · rw [Finset.card_insert_of_notMem h, Finset.erase_eq_of_notMem h]
    omega

/-- … equivalently: number of distinct parts in the closed neighbourhood − 1. -/
theorem lambdaRow_eq_closed (p : List Nat) (v : Nat) (nb : List Nat) :
    lambdaRow p v nb = ((v :: nb).map (part p)).toFinset.card - 1 := by
  unfold lambdaRow
  rw [partsOf_length]
  rfl

theorem lambdaRow_perm (p : List Nat) (v : Nat) {nb nb' : List Nat} (h : nb.Perm nb') :
    lambdaRow p v nb = lambdaRow p v nb' := by
  unfold lambdaRow
  rw [partsOf_length_of_mem_iff]
  intro y
  simp only [List.mem_cons, List.mem_map]
  constructor
  · rintro (h1 | ⟨a, ha, rfl⟩)
    · exact Or.inl h1
    · exact Or.inr ⟨a, h.mem_iff.mp ha, rfl⟩
  · rintro (h1 | ⟨a, ha, rfl⟩)
    · exact Or.inl h1
    · exact Or.inr ⟨a, h.mem_iff.mpr ha, rfl⟩

theorem lambdaRows_congr (n : Nat) (f g : Nat → List Nat) (p : List Nat) (ws : List Int)
    (h : ∀ v, v < n → lambdaRow p v (f v) = lambdaRow p v (g v)) :
    lambdaRows n f p ws = lambdaRows n g p ws := by
  unfold lambdaRows
  apply sumTo_congr
  intro v hv
  rw [h v (by omega)]

/-! ## `sprs::CsMatView`: validity and the rows the two code paths see -/

/-- sprs' `check_compressed_structure` for a square matrix: `indptr` non-empty
and non-decreasing, `nnz = last - first = indices.len() = data.len()`, every row
strictly increasing and below `n`.  (The first `indptr` entry is free.) -/
def Csr.Valid (m : Csr) : Prop :=
  1 ≤ m.indptr.length ∧
  (∀ v, v < m.n → m.indptr.getD v 0 ≤ m.indptr.getD (v + 1) 0) ∧
  m.indptr.getD m.n 0 - m.offset = m.indices.length ∧
  m.indices.length = m.data.length ∧
  (∀ v, v < m.n → (m.row v).Pairwise (fun a b => a.1 < b.1)) ∧
  (∀ v, v < m.n → ∀ e ∈ m.row v, e.1 < m.n)

instance (m : Csr) : Decidable m.Valid := by unfold Csr.Valid; infer_instance

theorem Csr.offset_eq (m : Csr) : m.offset = m.indptr.getD 0 0 := by
  unfold Csr.offset
  cases m.indptr <;> simp

theorem Csr.indptr_mono {m : Csr} (h : m.Valid) (i j : Nat) (hij : i ≤ j) (hj : j ≤ m.n) :
    m.indptr.getD i 0 ≤ m.indptr.getD j 0 := by
  induction j with
  | zero => have : i = 0 := by omega
            subst this; exact Nat.le_refl _
  | succ j ih =>
    by_cases hi : i = j + 1
    · subst hi; exact Nat.le_refl _
    · have := ih (by omega) (by omega)
      have := h.2.1 j (by omega)
      omega

/-- With a zero-based `indptr` (or with the repaired code) the specialisation
slices exactly the rows `outer_view` yields. -/
theorem Csr.specRow?_eq {m : Csr} (h : m.Valid) (cfg : Cfg)
    (hoff : cfg.proper = true ∨ m.offset = 0) (v : Nat) (hv : v < m.n) :
    m.specRow? cfg v = some (m.row v) := by
  have hoff' : (if cfg.proper then m.offset else 0) = m.offset := by
    rcases hoff with h1 | h1
    · simp [h1]
    · by_cases hp : cfg.proper <;> simp [hp, h1]
  have h1 := h.2.1 v hv
  have h2 := Csr.indptr_mono h (v + 1) m.n (by omega) (Nat.le_refl _)
  have h3 := h.2.2.1
  have h4 := h.2.2.2.1
  unfold Csr.specRow? Csr.row
  simp only [hoff']
  rw [if_pos]
  refine ⟨by omega, by omega, by omega⟩

theorem Csr.specRow_eq {m : Csr} (h : m.Valid) (cfg : Cfg)
    (hoff : cfg.proper = true ∨ m.offset = 0) (v : Nat) (hv : v < m.n) :
    m.specRow cfg v = m.row v := by
  unfold Csr.specRow
  rw [Csr.specRow?_eq h cfg hoff v hv]
  rfl

theorem Csr.slicesOk_of_valid {m : Csr} (h : m.Valid) (cfg : Cfg)
    (hoff : cfg.proper = true ∨ m.offset = 0) : m.slicesOk cfg = true := by
  unfold Csr.slicesOk
  rw [List.all_eq_true]
  intro v hv
  rw [Csr.specRow?_eq h cfg hoff v (List.mem_range.mp hv)]
  rfl

theorem readsOk_of_valid {m : Csr} (h : m.Valid) (p : List Nat) (hp : m.n ≤ p.length) :
    readsOk m.topo p = true := by
  unfold readsOk
  rw [List.all_eq_true]
  intro v hv
  have hv' : v < m.n := List.mem_range.mp hv
  simp only [Bool.and_eq_true, decide_eq_true_eq, List.all_eq_true]
  refine ⟨by omega, fun e he => ?_⟩
  have := h.2.2.2.2.2 v hv' e he
  omega

theorem lambdaReadsOk_of_valid {m : Csr} (h : m.Valid) (p : List Nat) (ws : List Int)
    (hp : m.n ≤ p.length) :
    lambdaReadsOk m.n (fun v => (m.row v).map (·.1)) p ws = true := by
  unfold lambdaReadsOk
  rw [List.all_eq_true]
  intro v hv
  have hv' : v < m.n := by have := List.mem_range.mp hv; omega
  simp only [Bool.and_eq_true, decide_eq_true_eq, List.all_eq_true, List.mem_map]
  refine ⟨by omega, ?_⟩
  rintro u ⟨e, he, rfl⟩
  have := h.2.2.2.2.2 v hv' e he
  omega

theorem lambdaReadsOk_congr (n : Nat) (f g : Nat → List Nat) (p : List Nat) (ws : List Int)
    (h : ∀ v, v < n → f v = g v) : lambdaReadsOk n f p ws = lambdaReadsOk n g p ws := by
  unfold lambdaReadsOk
  rw [Bool.eq_iff_iff, List.all_eq_true, List.all_eq_true]
  constructor
  · intro H v hv
    have hv' : v < n := by have := List.mem_range.mp hv; omega
    rw [← h v hv']; exact H v hv
  · intro H v hv
    have hv' : v < n := by have := List.mem_range.mp hv; omega
    rw [h v hv']; exact H v hv

theorem lambdaRows_congr' (n : Nat) (f g : Nat → List Nat) (p : List Nat) (ws : List Int)
    (h : ∀ v, v < n → f v = g v) : lambdaRows n f p ws = lambdaRows n g p ws :=
  lambdaRows_congr n f g p ws (fun v hv => by rw [h v hv])

end Coupe.Metrics
