import CoupeModel.Model.Basic
import CoupeModel.Model.Kk
import CoupeModel.Proofs.Ckk

/-! Helper lemmas for C12, KarmarkarKarp part (two-way, then k-way). -/

namespace Coupe.Kk
open Coupe.Ckk

/-! ## Two-way: values follow the differencing residue -/

theorem insInt_of_le {v : Int} {l : List Int} (h : ∀ x ∈ l, x ≤ v) : insInt v l = v :: l := by
  cases l with
  | nil => rfl
  | cons x xs =>
    have : ¬ v < x := by have := h x (by simp); omega
    simp [insInt, this]

theorem map_fst_insDesc (e : WI) (l : List WI) (hs : Sorted l) :
    (insDesc e l).map (·.1) = insInt e.1 (l.map (·.1)) := by
  induction l with
  | nil => rfl
  | cons x xs ih =>
    unfold Sorted at hs
    rw [List.pairwise_cons] at hs
    simp only [insDesc, List.map_cons, insInt]
    by_cases hlt : wiLt e x = true
    · rw [if_pos hlt]
      by_cases hv : e.1 < x.1
      · rw [if_pos hv, List.map_cons, ih hs.2]
      · rw [if_neg hv, List.map_cons, ih hs.2]
        have hle := wiLt_true_le hlt
        have hx : x.1 = e.1 := by omega
        rw [insInt_of_le (by
          intro y hy
          obtain ⟨z, hz, rfl⟩ := List.mem_map.1 hy
          have := hs.1 z hz
          omega), hx]
    · rw [if_neg hlt]
      have hle := wiLt_false_le hlt
      have hv : ¬ e.1 < x.1 := by omega
      rw [if_neg hv]
      rfl

theorem map_fst_sortDesc_zipIdx (ws : List Int) (n : Nat) :
    (sortDesc (ws.zipIdx n)).map (·.1) = sortInt ws := by
  induction ws generalizing n with
  | nil => rfl
  | cons w ws ih =>
    rw [List.zipIdx_cons, sortDesc, map_fst_insDesc _ _ (sorted_sortDesc _), ih, sortInt]

theorem loop2_value (fuel : Nat) (W : List WI) (steps : List Step) (e : WI) (steps' : List Step)
    (hs : Sorted W) (h : loop2 fuel W steps = some ([e], steps')) :
    e.1 = residGo fuel (W.map (·.1)) := by
  induction fuel generalizing W steps with
  | zero => simp [loop2] at h
  | succ fuel ih =>
    match W with
    | [] => simp [loop2] at h
    | [x] =>
      simp only [loop2, Option.some.injEq, Prod.mk.injEq, List.cons.injEq, and_true] at h
      obtain ⟨rfl, _⟩ := h
      simp [residGo]
    | (aw, ai) :: (bw, bi) :: rest =>
      simp only [loop2] at h
      unfold Sorted at hs
      rw [List.pairwise_cons, List.pairwise_cons] at hs
      have := ih _ _ (sorted_insDesc hs.2.2) h
      rw [this, map_fst_insDesc _ _ hs.2.2]
      simp [residGo]

/-- Descending list of integers. -/
def SortedInt (l : List Int) : Prop := l.Pairwise (fun x y => y ≤ x)

theorem mem_insInt {v y : Int} {l : List Int} : y ∈ insInt v l ↔ y = v ∨ y ∈ l := by
  induction l with
  | nil => simp [insInt]
  | cons x xs ih =>
    simp only [insInt]
    split
    · simp only [List.mem_cons, ih]; exact or_left_comm
    · simp only [List.mem_cons]

theorem length_insInt (v : Int) (l : List Int) : (insInt v l).length = l.length + 1 := by
  induction l with
  | nil => rfl
  | cons x xs ih => simp only [insInt]; split <;> simp [ih]

theorem sorted_insInt {v : Int} {l : List Int} (h : SortedInt l) : SortedInt (insInt v l) := by
  induction l with
  | nil => simp [insInt, SortedInt]
  | cons x xs ih =>
    unfold SortedInt at h ⊢
    rw [List.pairwise_cons] at h
    simp only [insInt]
    split
    · next hlt =>
      rw [List.pairwise_cons]
      refine ⟨?_, ih h.2⟩
      intro y hy
      rcases mem_insInt.1 hy with rfl | hy
      · omega
      · exact h.1 y hy
    · next hlt =>
      rw [List.pairwise_cons, List.pairwise_cons]
      refine ⟨?_, h⟩
      intro y hy
      rcases List.mem_cons.1 hy with rfl | hy
      · omega
      · have := h.1 y hy; omega

theorem sorted_sortInt (l : List Int) : SortedInt (sortInt l) := by
  induction l with
  | nil => simp [sortInt, SortedInt]
  | cons x xs ih => exact sorted_insInt ih

theorem length_sortInt (l : List Int) : (sortInt l).length = l.length := by
  induction l with
  | nil => rfl
  | cons x xs ih => simp [sortInt, length_insInt, ih]

/-- With at least two numbers the last difference taken is `a - b` with `a ≥ b`. -/
theorem residGo_nonneg (fuel : Nat) (l : List Int) (hs : SortedInt l) (h2 : 2 ≤ l.length)
    (hf : l.length ≤ fuel) : 0 ≤ residGo fuel l := by
  induction fuel generalizing l with
  | zero => omega
  | succ fuel ih =>
    match l, h2 with
    | a :: b :: rest, _ =>
      unfold SortedInt at hs
      rw [List.pairwise_cons, List.pairwise_cons] at hs
      have hba : b ≤ a := hs.1 b (by simp)
      simp only [residGo]
      cases rest with
      | nil =>
        simp only [insInt]
        cases fuel with
        | zero => simp at hf
        | succ fuel => simp only [residGo]; omega
      | cons c rest =>
        apply ih
        · exact sorted_insInt hs.2.2
        · rw [length_insInt]; simp
        · rw [length_insInt]; simp only [List.length_cons] at hf ⊢; omega

theorem residue_nonneg (ws : List Int) (h2 : 2 ≤ ws.length) : 0 ≤ residue ws :=
  residGo_nonneg _ _ (sorted_sortInt ws) (by rw [length_sortInt]; exact h2)
    (by rw [length_sortInt]; exact Nat.le_refl _)

/-! ## Two-way: loop and back-tracking -/

/-- The loop ends on a one-element heap, and the back-tracking of what it
pushed cannot abort. -/
theorem loop2_safe (L : Nat) (fuel : Nat) (W : List WI) (steps : List Step)
    (hfuel : W.length ≤ fuel) (hne : W ≠ [])
    (hid : ∀ x ∈ W, x.2 < L)
    (hsafe : ∀ q, q.length = L → Asg W q → unwind steps q ≠ none) :
    ∃ e steps', loop2 fuel W steps = some ([e], steps') ∧ e.2 < L ∧
      ∀ q, q.length = L → Asg [e] q → unwind steps' q ≠ none := by
  induction fuel generalizing W steps with
  | zero =>
    cases W with
    | nil => exact absurd rfl hne
    | cons x xs => simp at hfuel
  | succ fuel ih =>
    match W, hne with
    | [x], _ =>
      exact ⟨x, steps, by simp [loop2], hid x (by simp), hsafe⟩
    | (aw, ai) :: (bw, bi) :: rest, _ =>
      have hai : ai < L := hid (aw, ai) (by simp)
      have hbi : bi < L := hid (bw, bi) (by simp)
      simp only [loop2]
      apply ih
      · rw [length_insDesc]; simp only [List.length_cons] at hfuel; omega
      · intro h
        have := length_insDesc (aw - bw, ai) rest
        rw [h] at this
        simp at this
      · intro x hx
        rcases mem_insDesc.1 hx with rfl | hx
        · exact hai
        · exact hid x (by simp [hx])
      · intro q hlen hq
        have ha := hq (aw - bw, ai) (mem_insDesc.2 (Or.inl rfl))
        have hb : bi < q.length := by omega
        rw [unwind_snoc, applyStep_eq (s := ⟨ai, bi, true⟩) ha.1 hb ha.2, Option.bind_some]
        apply hsafe
        · simp [hlen]
        · apply asg_step hq hb
          have := ha.2
          simp only at this
          simp only [if_true]
          omega

/-- Undoing the steps pushed by the loop turns an assignment of the final heap
into an assignment of the initial one with the same signed sum. -/
theorem loop2_sound (L : Nat) (fuel : Nat) (W : List WI) (steps : List Step)
    (H' : List WI) (steps' : List Step) (q0 qf : List Nat)
    (hs : Sorted W) (hnd : (W.map (·.2)).Nodup) (hid : ∀ x ∈ W, x.2 < L)
    (h : loop2 fuel W steps = some (H', steps'))
    (hq0 : q0.length = L) (hasg0 : Asg H' q0) (hun : unwind steps' q0 = some qf) :
    ∃ q', unwind steps q' = some qf ∧ q'.length = L ∧ Asg W q' ∧
      ssum (sg q') W = ssum (sg q0) H' := by
  induction fuel generalizing W steps with
  | zero => simp [loop2] at h
  | succ fuel ih =>
    match W with
    | [] =>
      simp only [loop2, Option.some.injEq, Prod.mk.injEq] at h
      obtain ⟨rfl, rfl⟩ := h
      exact ⟨q0, hun, hq0, hasg0, rfl⟩
    | [x] =>
      simp only [loop2, Option.some.injEq, Prod.mk.injEq] at h
      obtain ⟨rfl, rfl⟩ := h
      exact ⟨q0, hun, hq0, hasg0, rfl⟩
    | (aw, ai) :: (bw, bi) :: rest =>
      have hai : ai < L := hid (aw, ai) (by simp)
      have hbi : bi < L := hid (bw, bi) (by simp)
      unfold Sorted at hs
      rw [List.pairwise_cons, List.pairwise_cons] at hs
      simp only [List.map_cons, List.nodup_cons, List.mem_cons, List.mem_map, not_or] at hnd
      have hab : ai ≠ bi := hnd.1.1
      have har : ∀ x ∈ rest, x.2 ≠ ai := fun x hx he => hnd.1.2 ⟨x, hx, he⟩
      have hbr : ∀ x ∈ rest, x.2 ≠ bi := fun x hx he => hnd.2.1 ⟨x, hx, he⟩
      simp only [loop2] at h
      obtain ⟨q'', hun', hlen, hasg, hsum⟩ := ih (insDesc (aw - bw, ai) rest)
        (steps ++ [⟨ai, bi, true⟩]) (sorted_insDesc hs.2.2)
        (by
          rw [(List.Perm.map _ (perm_insDesc (aw - bw, ai) rest)).nodup_iff]
          simp only [List.map_cons, List.nodup_cons, List.mem_map, not_exists, not_and]
          exact ⟨fun x hx => har x hx, hnd.2.2⟩)
        (by
          intro x hx
          rcases mem_insDesc.1 hx with rfl | hx
          · exact hai
          · exact hid x (by simp [hx]))
        h
      have ha := hasg (aw - bw, ai) (mem_insDesc.2 (Or.inl rfl))
      have hb : bi < q''.length := by omega
      rw [unwind_snoc, applyStep_eq (s := ⟨ai, bi, true⟩) ha.1 hb ha.2, Option.bind_some] at hun'
      have hv1 : (if true then 1 - q''[ai]?.getD 0 else q''[ai]?.getD 0) ≤ 1 := by
        simp only [if_true]; omega
      have hstep := ssum_step (q := q'') true (aw := aw) (bw := bw) (rest := rest) hb hab hbr ha.2
      rw [ssum_insDesc] at hsum
      simp only [↓reduceIte] at hun' hsum hstep hv1
      refine ⟨_, hun', by simp [hlen], asg_step hasg hb hv1, ?_⟩
      rw [hstep, ← hsum]

/-- Summary of `kkBipart` on matching lengths and at least one weight. -/
theorem kkBipart_spec (p : List Nat) (ws : List Int) (hlen : ws.length = p.length)
    (hne : ws ≠ []) :
    ∃ q, kkBipart p ws = some q ∧ q.length = p.length ∧ (∀ i ∈ q, i ≤ 1) ∧
      load ws q 0 - load ws q 1 = residue ws := by
  have hW : sortDesc ws.zipIdx ≠ [] := by
    intro h
    have := length_sortDesc ws.zipIdx
    rw [h] at this
    simp at this
    exact hne (List.length_eq_zero_iff.1 this.symm)
  have hid : ∀ x ∈ sortDesc ws.zipIdx, x.2 < p.length := fun x hx => hlen ▸ init_id_lt ws x hx
  obtain ⟨e, steps', hloop, he, hsafe⟩ := loop2_safe p.length _ _ [] (Nat.le_refl _) hW hid
    (fun q _ _ => by simp [unwind_nil])
  have hasg0 : Asg [e] (p.set e.2 0) := by
    intro x hx
    rw [List.mem_singleton.1 hx]
    simp [he]
  have hq0 : (p.set e.2 0).length = p.length := by simp
  cases hun : unwind steps' (p.set e.2 0) with
  | none => exact absurd hun (hsafe _ hq0 hasg0)
  | some qf =>
    obtain ⟨q', hun', hl', hasg', hsum⟩ := loop2_sound p.length _ _ [] _ _ _ qf
      (sorted_sortDesc _) (init_nodup ws) hid hloop hq0 hasg0 hun
    have hqq : q' = qf := by simpa [unwind_nil] using hun'
    subst hqq
    have hl'' : q'.length = ws.length := by omega
    have h01 := init_asg_le_one ws q' hl'' hasg'
    refine ⟨q', ?_, hl', h01, ?_⟩
    · obtain ⟨ew, ei⟩ := e
      simp only [kkBipart, hloop, build_eq, if_pos he]
      exact hun
    · rw [← ssum_sg_zipIdx ws q' hl'' h01, ← ssum_sortDesc, hsum]
      have hv := loop2_value _ _ _ _ _ (sorted_sortDesc _) hloop
      rw [map_fst_sortDesc_zipIdx, length_sortDesc, List.length_zipIdx] at hv
      simp [ssum, sg, sgn, he, residue, hv]

/-! ## k-way: vocabulary -/

/-- Part currently assigned to slot `i`. -/
def asg (q : List Nat) (i : Nat) : Nat := q[i]?.getD 0

/-- What a row contributes to part `j` under the slot assignment `q`. -/
def rowG (q : List Nat) (j : Nat) : Row → Int
  | [] => 0
  | s :: r => (if asg q s.2 = j then s.1 else 0) + rowG q j r

/-- What the whole heap contributes to part `j`. -/
def heapG (q : List Nat) (j : Nat) : List Row → Int
  | [] => 0
  | r :: H => rowG q j r + heapG q j H

/-- Contract of `sort_unstable_by` on the weight: a descending permutation. -/
def SortOk (sort : Row → Row) : Prop := ∀ l, (sort l).Perm l ∧ Sorted (sort l)

/-- All ids of the heap. -/
def ids (H : List Row) : List Nat := H.flatten.map (·.2)

/-- Shape invariant of the heap: `k` slots per row, ids in bounds and pairwise
distinct over the whole heap. -/
def HeapOk (k L : Nat) (H : List Row) : Prop :=
  (∀ r ∈ H, r.length = k ∧ ∀ s ∈ r, s.2 < L) ∧ (ids H).Nodup

/-- `q` assigns the `k` slots of every row to the `k` parts bijectively. -/
def Good (k L : Nat) (H : List Row) (q : List Nat) : Prop :=
  q.length = L ∧ ∀ r ∈ H, (r.map fun s => asg q s.2).Perm (List.range k)

/-! ## k-way: `rowG`, `heapG` -/

theorem rowG_perm (q : List Nat) (j : Nat) {r₁ r₂ : Row} (h : r₁.Perm r₂) :
    rowG q j r₁ = rowG q j r₂ := by
  induction h with
  | nil => rfl
  | cons x _ ih => simp only [rowG, ih]
  | swap x y l => simp only [rowG]; omega
  | trans _ _ ih₁ ih₂ => rw [ih₁, ih₂]

theorem heapG_perm (q : List Nat) (j : Nat) {H₁ H₂ : List Row} (h : H₁.Perm H₂) :
    heapG q j H₁ = heapG q j H₂ := by
  induction h with
  | nil => rfl
  | cons x _ ih => simp only [heapG, ih]
  | swap x y l => simp only [heapG]; omega
  | trans _ _ ih₁ ih₂ => rw [ih₁, ih₂]

theorem rowG_congr {q q' : List Nat} (j : Nat) {r : Row}
    (h : ∀ s ∈ r, asg q s.2 = asg q' s.2) : rowG q j r = rowG q' j r := by
  induction r with
  | nil => rfl
  | cons s r ih =>
    simp only [rowG]
    rw [h s (by simp), ih (fun t ht => h t (by simp [ht]))]

theorem heapG_congr {q q' : List Nat} (j : Nat) {H : List Row}
    (h : ∀ r ∈ H, ∀ s ∈ r, asg q s.2 = asg q' s.2) : heapG q j H = heapG q' j H := by
  induction H with
  | nil => rfl
  | cons r H ih =>
    simp only [heapG]
    rw [rowG_congr j (h r (by simp)), ih (fun t ht => h t (by simp [ht]))]

theorem rowG_zero {q : List Nat} {j : Nat} {r : Row} (h : ∀ s ∈ r, s.1 = 0) : rowG q j r = 0 := by
  induction r with
  | nil => rfl
  | cons s r ih =>
    simp only [rowG]
    rw [h s (by simp), ih (fun t ht => h t (by simp [ht]))]
    simp

theorem count_range' (j s n : Nat) :
    List.count j (List.range' s n) = if s ≤ j ∧ j < s + n then 1 else 0 := by
  induction n generalizing s with
  | zero => simp
  | succ n ih =>
    rw [List.range'_succ, List.count_cons, ih]
    by_cases h : s = j
    · subst h; simp; omega
    · have : (s == j) = false := by simp [h]
      rw [this]
      simp only [Bool.false_eq_true, if_false, Nat.add_zero]
      split <;> split <;> omega

/-- Subtracting `m` from every slot removes `m` once per slot assigned to `j`. -/
theorem rowG_shift (q : List Nat) (j : Nat) (m : Int) (r : Row) :
    rowG q j (r.map fun x => (x.1 - m, x.2)) =
      rowG q j r - m * (List.count j (r.map fun s => asg q s.2)) := by
  induction r with
  | nil => simp [rowG]
  | cons s r ih =>
    simp only [List.map_cons, rowG, ih, List.count_cons]
    by_cases h : asg q s.2 = j
    · simp only [h, if_true, beq_self_eq_true]
      push_cast
      rw [Int.mul_add]
      omega
    · have : (asg q s.2 == j) = false := by simp [h]
      simp only [h, if_false, this, Bool.false_eq_true, Nat.add_zero]
      omega

theorem rowG_shift_bij {q : List Nat} {j k : Nat} (m : Int) {r : Row} (hj : j < k)
    (h : (r.map fun s => asg q s.2).Perm (List.range k)) :
    rowG q j (r.map fun x => (x.1 - m, x.2)) = rowG q j r - m := by
  rw [rowG_shift, h.count_eq, List.range_eq_range', count_range']
  simp [hj]

/-- Adding two rows slot by slot, when `q'` sends both partners of every pair
where `q` sends the first one. -/
theorem rowG_zip {q q' : List Nat} (j : Nat) (z : List (WI × WI))
    (h : ∀ xy ∈ z, asg q' xy.1.2 = asg q xy.1.2 ∧ asg q' xy.2.2 = asg q xy.1.2) :
    rowG q j (z.map fun xy => (xy.1.1 + xy.2.1, xy.1.2)) =
      rowG q' j (z.map (·.1)) + rowG q' j (z.map (·.2)) := by
  induction z with
  | nil => rfl
  | cons xy z ih =>
    simp only [List.map_cons, rowG]
    rw [ih (fun t ht => h t (by simp [ht])), (h xy (by simp)).1, (h xy (by simp)).2]
    split <;> omega

/-! ## k-way: heap insertion -/

theorem perm_insRow (e : Row) (H : List Row) : (insRow e H).Perm (e :: H) := by
  induction H with
  | nil => exact List.Perm.refl _
  | cons x xs ih =>
    simp only [insRow]
    split
    · exact (List.Perm.cons x ih).trans (List.Perm.swap e x xs)
    · exact List.Perm.refl _

theorem perm_sortRows (H : List Row) : (sortRows H).Perm H := by
  induction H with
  | nil => exact List.Perm.refl _
  | cons x xs ih => exact (perm_insRow x _).trans (List.Perm.cons x ih)

theorem length_insRow (e : Row) (H : List Row) : (insRow e H).length = H.length + 1 := by
  simpa using (perm_insRow e H).length_eq

theorem ids_perm {H₁ H₂ : List Row} (h : H₁.Perm H₂) : (ids H₁).Perm (ids H₂) :=
  List.Perm.map _ h.flatten

theorem heapOk_perm {k L : Nat} {H₁ H₂ : List Row} (h : H₁.Perm H₂) (ok : HeapOk k L H₂) :
    HeapOk k L H₁ :=
  ⟨fun r hr => ok.1 r (h.mem_iff.1 hr), (ids_perm h).nodup_iff.2 ok.2⟩

theorem good_perm {k L : Nat} {H₁ H₂ : List Row} {q : List Nat} (h : H₁.Perm H₂)
    (g : Good k L H₂ q) : Good k L H₁ q :=
  ⟨g.1, fun r hr => g.2 r (h.mem_iff.1 hr)⟩

/-! ## k-way: array writes -/

theorem asg_set {q : List Nat} {i : Nat} (j v : Nat) (hi : i < q.length) :
    asg (q.set i v) j = if i = j then v else asg q j := getD_set j v hi

theorem copyTuples_nil (q : List Nat) : copyTuples q [] = some q := rfl

theorem copyTuples_cons (q : List Nat) (t : Nat × Nat) (ts : List (Nat × Nat)) :
    copyTuples q (t :: ts) = (copyStep q t).bind fun q1 => copyTuples q1 ts := by
  simp only [copyTuples, List.foldlM_cons]
  rfl

theorem copyStep_eq {q : List Nat} {t : Nat × Nat} (ha : t.1 < q.length) (hb : t.2 < q.length) :
    copyStep q t = some (q.set t.2 (asg q t.1)) := by
  simp [copyStep, setChecked, asg, ha, hb]

/-- `for (a, b) in tuples { parts[b] = parts[a] }` when the `a`s are not
written and the `b`s are pairwise distinct. -/
theorem copyTuples_spec (q : List Nat) (ts : List (Nat × Nat))
    (ha : ∀ t ∈ ts, t.1 < q.length) (hb : ∀ t ∈ ts, t.2 < q.length)
    (hdisj : ∀ t ∈ ts, ∀ t' ∈ ts, t.1 ≠ t'.2) (hnd : (ts.map (·.2)).Nodup) :
    ∃ q', copyTuples q ts = some q' ∧ q'.length = q.length ∧
      (∀ t ∈ ts, asg q' t.2 = asg q t.1) ∧ (∀ i, i ∉ ts.map (·.2) → asg q' i = asg q i) := by
  induction ts generalizing q with
  | nil => exact ⟨q, rfl, rfl, by simp, fun _ _ => rfl⟩
  | cons t ts ih =>
    have hta := ha t (by simp)
    have htb := hb t (by simp)
    rw [List.map_cons, List.nodup_cons] at hnd
    obtain ⟨q', hq', hl', hcopy, hrest⟩ := ih (q.set t.2 (asg q t.1))
      (fun u hu => by simpa using ha u (by simp [hu]))
      (fun u hu => by simpa using hb u (by simp [hu]))
      (fun u hu u' hu' => hdisj u (by simp [hu]) u' (by simp [hu']))
      hnd.2
    refine ⟨q', ?_, by simpa using hl', ?_, ?_⟩
    · rw [copyTuples_cons, copyStep_eq hta htb, Option.bind_some, hq']
    · intro u hu
      rcases List.mem_cons.1 hu with rfl | hu
      · rw [hrest _ hnd.1, asg_set _ _ htb, if_pos rfl]
      · rw [hcopy u hu, asg_set _ _ htb, if_neg]
        exact fun h => hdisj u (by simp [hu]) t (by simp) h.symm
    · intro i hi
      simp only [List.map_cons, List.mem_cons, not_or] at hi
      rw [hrest i hi.2, asg_set _ _ htb, if_neg (fun h => hi.1 h.symm)]

/-- `for (i, w) in imbalance.into_iter().enumerate() { parts[w.1] = i }`. -/
theorem placeFinal_spec (r : Row) (n : Nat) (q : List Nat)
    (hid : ∀ s ∈ r, s.2 < q.length) (hnd : (r.map (·.2)).Nodup) :
    ∃ q', (r.zipIdx n).foldlM (fun q wi => setChecked q wi.1.2 wi.2) q = some q' ∧
      q'.length = q.length ∧ (r.map fun s => asg q' s.2) = List.range' n r.length ∧
      (∀ i, i ∉ r.map (·.2) → asg q' i = asg q i) := by
  induction r generalizing q n with
  | nil => exact ⟨q, rfl, rfl, rfl, fun _ _ => rfl⟩
  | cons s r ih =>
    have hs := hid s (by simp)
    rw [List.map_cons, List.nodup_cons] at hnd
    obtain ⟨q', hq', hl', hmap, hrest⟩ := ih (n + 1) (q.set s.2 n)
      (fun u hu => by simpa using hid u (by simp [hu])) hnd.2
    refine ⟨q', ?_, by simpa using hl', ?_, ?_⟩
    · rw [List.zipIdx_cons, List.foldlM_cons]
      simp only [setChecked, hs, if_true]
      exact hq'
    · rw [List.map_cons, hmap, hrest _ hnd.1, asg_set _ _ hs, if_pos rfl, List.length_cons,
        List.range'_succ]
    · intro i hi
      simp only [List.map_cons, List.mem_cons, not_or] at hi
      rw [hrest i hi.2, asg_set _ _ hs, if_neg (fun h => hi.1 h.symm)]

/-! ## k-way: one iteration and its undoing -/

theorem combine_spec {sort : Row → Row} (hsort : SortOk sort) {k : Nat} (hk : 0 < k) {a b : Row}
    (hla : a.length = k) (hlb : b.length = k) :
    ∃ es m, combine sort a b = some (es.map (fun x => (x.1 - m.1, x.2)),
        (a.zip b.reverse).map fun xy => (xy.1.2, xy.2.2)) ∧
      es.Perm ((a.zip b.reverse).map fun xy => (xy.1.1 + xy.2.1, xy.1.2)) ∧ Sorted es ∧
      es.getLast? = some m ∧
      (a.zip b.reverse).map (·.1) = a ∧ (a.zip b.reverse).map (·.2) = b.reverse := by
  have hz1 : (a.zip b.reverse).map (·.1) = a := List.map_fst_zip (by simp [hla, hlb])
  have hz2 : (a.zip b.reverse).map (·.2) = b.reverse := List.map_snd_zip (by simp [hla, hlb])
  obtain ⟨hp, hs⟩ := hsort ((a.zip b.reverse).map fun xy => (xy.1.1 + xy.2.1, xy.1.2))
  cases hl : (sort ((a.zip b.reverse).map fun xy => (xy.1.1 + xy.2.1, xy.1.2))).getLast? with
  | none =>
    rw [List.getLast?_eq_none_iff] at hl
    have := hp.length_eq
    rw [hl] at this
    simp [hla, hlb] at this
    omega
  | some m =>
    refine ⟨_, m, ?_, hp, hs, hl, hz1, hz2⟩
    simp only [combine, hl]

theorem sorted_last_min {l : Row} {m : WI} (hs : Sorted l) (h : l.getLast? = some m) :
    ∀ u ∈ l, m.1 ≤ u.1 := by
  obtain ⟨ys, rfl⟩ := List.getLast?_eq_some_iff.1 h
  unfold Sorted at hs
  rw [List.pairwise_append] at hs
  intro u hu
  rcases List.mem_append.1 hu with hu | hu
  · exact hs.2.2 u hu m (by simp)
  · rw [List.mem_singleton.1 hu]; exact Int.le_refl _

theorem step_back {sort : Row → Row} (hsort : SortOk sort) {k L : Nat} (hk : 0 < k)
    {a b : Row} {rest : List Row} {e : Row} {t : List (Nat × Nat)}
    (ok : HeapOk k L (a :: b :: rest)) (hc : combine sort a b = some (e, t)) :
    HeapOk k L (insRow e rest) ∧
    ∃ m : Int, ∀ q1, Good k L (insRow e rest) q1 →
      ∃ q2, copyTuples q1 t = some q2 ∧ Good k L (a :: b :: rest) q2 ∧
        ∀ j < k, heapG q2 j (a :: b :: rest) = heapG q1 j (insRow e rest) + m := by
  obtain ⟨hrows, hnd⟩ := ok
  obtain ⟨hla, ida⟩ := hrows a (by simp)
  obtain ⟨hlb, idb⟩ := hrows b (by simp)
  have hids : ids (a :: b :: rest) = a.map (·.2) ++ (b.map (·.2) ++ ids rest) := by
    simp [ids, List.flatten_cons, List.map_append]
  rw [hids, List.nodup_append, List.nodup_append] at hnd
  obtain ⟨ndA, ⟨ndB, ndR, disBR⟩, disA⟩ := hnd
  have disAB : ∀ x ∈ a, ∀ y ∈ b, x.2 ≠ y.2 := fun x hx y hy =>
    disA x.2 (List.mem_map_of_mem hx) y.2 (List.mem_append_left _ (List.mem_map_of_mem hy))
  obtain ⟨es, m, hc', hperm, hsorted, hlast, hz1, hz2⟩ := combine_spec hsort hk hla hlb
  rw [hc'] at hc
  simp only [Option.some.injEq, Prod.mk.injEq] at hc
  obtain ⟨he, ht⟩ := hc
  generalize hz : a.zip b.reverse = z at *
  -- ids of `e` are the ids of `a`
  have hE : (e.map (·.2)).Perm (a.map (·.2)) := by
    rw [← he, List.map_map]
    have := hperm.map (·.2)
    rw [List.map_map] at this
    refine this.trans ?_
    rw [← hz1, List.map_map]
    exact List.Perm.refl _
  have hEmem : ∀ s ∈ e, s.2 ∈ a.map (·.2) := fun s hs =>
    hE.mem_iff.1 (List.mem_map_of_mem hs)
  have okE : HeapOk k L (e :: rest) := by
    refine ⟨?_, ?_⟩
    · intro r hr
      rcases List.mem_cons.1 hr with rfl | hr
      · refine ⟨?_, ?_⟩
        · have h1 := hE.length_eq
          simp only [List.length_map] at h1
          omega
        · intro s hs
          obtain ⟨x, hx, hxs⟩ := List.mem_map.1 (hEmem s hs)
          rw [← hxs]; exact ida x hx
      · exact hrows r (by simp [hr])
    · have : ids (e :: rest) = e.map (·.2) ++ ids rest := by
        simp [ids, List.flatten_cons, List.map_append]
      rw [this, (hE.append_right _).nodup_iff, List.nodup_append]
      exact ⟨ndA, ndR, fun x hx y hy => disA x hx y (List.mem_append_right _ hy)⟩
  refine ⟨heapOk_perm (perm_insRow e rest) okE, m.1, ?_⟩
  intro q1 g1
  have gE := good_perm (perm_insRow e rest).symm g1
  have hq1 : q1.length = L := gE.1
  have zmem : ∀ xy ∈ z, xy.1 ∈ a ∧ xy.2 ∈ b := by
    intro xy hxy
    refine ⟨?_, ?_⟩
    · have : xy.1 ∈ z.map (·.1) := List.mem_map_of_mem hxy
      rwa [hz1] at this
    · have : xy.2 ∈ z.map (·.2) := List.mem_map_of_mem hxy
      rw [hz2] at this
      exact List.mem_reverse.1 this
  have htsnd : t.map (·.2) = b.reverse.map (·.2) := by
    rw [← ht, List.map_map, ← hz2, List.map_map]
    rfl
  have memB : ∀ i, i ∈ t.map (·.2) → i ∈ b.map (·.2) := by
    intro i hi
    rw [htsnd] at hi
    exact ((List.reverse_perm b).map (·.2)).mem_iff.1 hi
  obtain ⟨q2, hq2, hl2, hcopy, hkeep⟩ := copyTuples_spec q1 t
    (by
      intro u hu
      rw [← ht] at hu
      obtain ⟨xy, hxy, rfl⟩ := List.mem_map.1 hu
      rw [hq1]; exact ida _ (zmem xy hxy).1)
    (by
      intro u hu
      rw [← ht] at hu
      obtain ⟨xy, hxy, rfl⟩ := List.mem_map.1 hu
      rw [hq1]; exact idb _ (zmem xy hxy).2)
    (by
      intro u hu u' hu'
      rw [← ht] at hu hu'
      obtain ⟨xy, hxy, rfl⟩ := List.mem_map.1 hu
      obtain ⟨xy', hxy', rfl⟩ := List.mem_map.1 hu'
      exact disAB _ (zmem xy hxy).1 _ (zmem xy' hxy').2)
    (by
      rw [htsnd, ((List.reverse_perm b).map (·.2)).nodup_iff]
      exact ndB)
  have keepA : ∀ s ∈ a, asg q2 s.2 = asg q1 s.2 := by
    intro s hs
    apply hkeep
    intro hmem
    obtain ⟨y, hy, hys⟩ := List.mem_map.1 (memB _ hmem)
    exact disAB s hs y hy hys.symm
  have keepR : ∀ r ∈ rest, ∀ s ∈ r, asg q2 s.2 = asg q1 s.2 := by
    intro r hr s hs
    apply hkeep
    intro hmem
    have hsR : s.2 ∈ ids rest := by
      simp only [ids, List.mem_map, List.mem_flatten]
      exact ⟨s, ⟨r, hr, hs⟩, rfl⟩
    exact disBR _ (memB _ hmem) _ hsR rfl
  have pair : ∀ xy ∈ z, asg q2 xy.1.2 = asg q1 xy.1.2 ∧ asg q2 xy.2.2 = asg q1 xy.1.2 := by
    intro xy hxy
    refine ⟨keepA _ (zmem xy hxy).1, ?_⟩
    have : (xy.1.2, xy.2.2) ∈ t := by
      rw [← ht]
      exact List.mem_map_of_mem (f := fun xy : WI × WI => (xy.1.2, xy.2.2)) hxy
    exact hcopy _ this
  -- the row `a` under `q1` is a bijection, because `e` is
  have hA1 : (a.map fun s => asg q1 s.2).Perm (List.range k) := by
    have h1 := (hE.map (asg q1)).symm
    rw [List.map_map, List.map_map] at h1
    exact h1.trans (gE.2 e (by simp))
  have hEs : (es.map fun s => asg q1 s.2).Perm (List.range k) := by
    have := gE.2 e (by simp)
    rw [← he, List.map_map] at this
    exact this
  refine ⟨q2, hq2, ⟨by omega, ?_⟩, ?_⟩
  · intro r hr
    rcases List.mem_cons.1 hr with rfl | hr
    · rw [List.map_congr_left (fun s hs => by rw [keepA s hs])]
      exact hA1
    rcases List.mem_cons.1 hr with rfl | hr
    · have h1 : (r.map fun s => asg q2 s.2).Perm (r.reverse.map fun s => asg q2 s.2) :=
        ((List.reverse_perm r).map _).symm
      refine h1.trans ?_
      have h2 : (r.reverse.map fun s => asg q2 s.2) = (z.map (·.1)).map fun s => asg q1 s.2 := by
        rw [← hz2, List.map_map, List.map_map]
        exact List.map_congr_left (fun xy hxy => (pair xy hxy).2)
      rw [h2, hz1]
      exact hA1
    · rw [List.map_congr_left (fun s hs => by rw [keepR r hr s hs])]
      exact gE.2 r (by simp [hr])
  · intro j hj
    have e1 : heapG q1 j (insRow e rest) = rowG q1 j e + heapG q1 j rest :=
      heapG_perm q1 j (perm_insRow e rest)
    have e2 : heapG q2 j rest = heapG q1 j rest := heapG_congr j keepR
    have e3 : rowG q1 j e = rowG q1 j es - m.1 := by
      rw [← he]; exact rowG_shift_bij m.1 hj hEs
    have e4 : rowG q1 j es = rowG q2 j a + rowG q2 j b := by
      rw [rowG_perm q1 j hperm, rowG_zip j z pair, hz1, hz2, rowG_perm q2 j (List.reverse_perm b)]
    simp only [heapG]
    omega

/-! ## k-way: the loop -/

/-- The back-tracking loop `for tuples in opposites.into_iter().rev()`. -/
def unwindK (opp : List (List (Nat × Nat))) (q : List Nat) : Option (List Nat) :=
  opp.foldlM copyTuples q

theorem unwindK_cons (t : List (Nat × Nat)) (opp : List (List (Nat × Nat))) (q : List Nat) :
    unwindK (t :: opp) q = (copyTuples q t).bind (unwindK opp) := by
  simp only [unwindK, List.foldlM_cons]
  rfl

theorem combine_ne_none {sort : Row → Row} (hsort : SortOk sort) {k L : Nat} (hk : 0 < k)
    {a b : Row} {rest : List Row} (ok : HeapOk k L (a :: b :: rest)) :
    ∃ e t, combine sort a b = some (e, t) := by
  obtain ⟨es, m, hc, _⟩ := combine_spec hsort hk (ok.1 a (by simp)).1 (ok.1 b (by simp)).1
  exact ⟨_, _, hc⟩

/-- The loop ends on a one-row heap and the back-tracking of what it pushed
cannot abort. -/
theorem loopK_safe {sort : Row → Row} (hsort : SortOk sort) {k L : Nat} (hk : 0 < k)
    (fuel : Nat) (H : List Row) (opp : List (List (Nat × Nat)))
    (hfuel : H.length ≤ fuel) (hne : H ≠ []) (ok : HeapOk k L H)
    (hsafe : ∀ q, Good k L H q → unwindK opp q ≠ none) :
    ∃ final opp', loopK sort fuel H opp = some ([final], opp') ∧ HeapOk k L [final] ∧
      ∀ q, Good k L [final] q → unwindK opp' q ≠ none := by
  induction fuel generalizing H opp with
  | zero =>
    cases H with
    | nil => exact absurd rfl hne
    | cons x xs => simp at hfuel
  | succ fuel ih =>
    match H, hne with
    | [x], _ => exact ⟨x, opp, by simp [loopK], ok, hsafe⟩
    | a :: b :: rest, _ =>
      obtain ⟨e, t, hc⟩ := combine_ne_none hsort hk ok
      obtain ⟨ok', m, hback⟩ := step_back hsort hk ok hc
      simp only [loopK, hc]
      apply ih
      · rw [length_insRow]; simp only [List.length_cons] at hfuel; omega
      · intro h
        have := length_insRow e rest
        rw [h] at this
        simp at this
      · exact ok'
      · intro q gq
        obtain ⟨q2, hq2, g2, _⟩ := hback q gq
        rw [unwindK_cons, hq2, Option.bind_some]
        exact hsafe q2 g2

/-- Undoing what the loop pushed turns a bijective assignment of the final
heap into one of the initial heap; every part's content changes by the same
constant. -/
theorem loopK_sound {sort : Row → Row} (hsort : SortOk sort) {k L : Nat} (hk : 0 < k)
    (fuel : Nat) (H : List Row) (opp : List (List (Nat × Nat)))
    (H' : List Row) (opp' : List (List (Nat × Nat))) (q0 qf : List Nat)
    (ok : HeapOk k L H) (h : loopK sort fuel H opp = some (H', opp'))
    (g0 : Good k L H' q0) (hun : unwindK opp' q0 = some qf) :
    ∃ q' c, unwindK opp q' = some qf ∧ Good k L H q' ∧
      ∀ j < k, heapG q' j H = heapG q0 j H' + c := by
  induction fuel generalizing H opp with
  | zero => simp [loopK] at h
  | succ fuel ih =>
    match H with
    | [] =>
      simp only [loopK, Option.some.injEq, Prod.mk.injEq] at h
      obtain ⟨rfl, rfl⟩ := h
      exact ⟨q0, 0, hun, g0, fun j _ => by omega⟩
    | [x] =>
      simp only [loopK, Option.some.injEq, Prod.mk.injEq] at h
      obtain ⟨rfl, rfl⟩ := h
      exact ⟨q0, 0, hun, g0, fun j _ => by omega⟩
    | a :: b :: rest =>
      obtain ⟨e, t, hc⟩ := combine_ne_none hsort hk ok
      obtain ⟨ok', m, hback⟩ := step_back hsort hk ok hc
      simp only [loopK, hc] at h
      obtain ⟨q1, c, hun1, g1, hsum1⟩ := ih _ _ ok' h
      obtain ⟨q2, hq2, g2, hsum2⟩ := hback q1 g1
      rw [unwindK_cons, hq2, Option.bind_some] at hun1
      refine ⟨q2, c + m, hun1, g2, ?_⟩
      intro j hj
      rw [hsum2 j hj, hsum1 j hj]
      omega

/-! ## k-way: values stay within `[0, M]` (tuple spread) -/

/-- A row is descending with all values in `[0, M]`. -/
def ValOk (M : Int) (r : Row) : Prop := Sorted r ∧ ∀ s ∈ r, 0 ≤ s.1 ∧ s.1 ≤ M

theorem pairwise_zip {α β : Type} {R : α → α → Prop} {S : β → β → Prop} {l₁ : List α}
    {l₂ : List β} (h₁ : l₁.Pairwise R) (h₂ : l₂.Pairwise S) :
    (l₁.zip l₂).Pairwise (fun x y => R x.1 y.1 ∧ S x.2 y.2) := by
  induction l₁ generalizing l₂ with
  | nil => simp
  | cons x xs ih =>
    cases l₂ with
    | nil => simp
    | cons y ys =>
      rw [List.pairwise_cons] at h₁ h₂
      rw [List.zip_cons_cons, List.pairwise_cons]
      refine ⟨?_, ih h₁.2 h₂.2⟩
      intro xy hxy
      have := List.of_mem_zip (a := xy.1) (b := xy.2) hxy
      exact ⟨h₁.1 _ this.1, h₂.1 _ this.2⟩

theorem pairwise_forall {α : Type} {R : α → α → Prop} {l : List α} (h : l.Pairwise R) :
    ∀ x ∈ l, ∀ y ∈ l, x = y ∨ R x y ∨ R y x := by
  induction h with
  | nil => simp
  | cons hx _ ih =>
    intro x hx' y hy'
    rcases List.mem_cons.1 hx' with hxa | hxl
    · rcases List.mem_cons.1 hy' with hya | hyl
      · exact Or.inl (hxa.trans hya.symm)
      · subst hxa; exact Or.inr (Or.inl (hx y hyl))
    · rcases List.mem_cons.1 hy' with hya | hyl
      · subst hya; exact Or.inr (Or.inr (hx x hxl))
      · exact ih x hxl y hyl

/-- The spread of `a_i + b_{k-1-i}` is at most the larger spread of `a`, `b`;
after subtracting the minimum all values are again in `[0, M]`. -/
theorem combine_val {sort : Row → Row} (hsort : SortOk sort) {k : Nat} (hk : 0 < k) {M : Int}
    {a b e : Row} {t : List (Nat × Nat)} (hla : a.length = k) (hlb : b.length = k)
    (va : ValOk M a) (vb : ValOk M b) (hc : combine sort a b = some (e, t)) : ValOk M e := by
  obtain ⟨es, m, hc', hperm, hsorted, hlast, hz1, hz2⟩ := combine_spec hsort hk hla hlb
  rw [hc'] at hc
  simp only [Option.some.injEq, Prod.mk.injEq] at hc
  obtain ⟨he, -⟩ := hc
  generalize hz : a.zip b.reverse = z at *
  have hpw : z.Pairwise (fun x y => y.1.1 ≤ x.1.1 ∧ x.2.1 ≤ y.2.1) := by
    rw [← hz]
    exact pairwise_zip (R := fun x y : WI => y.1 ≤ x.1) (S := fun x y : WI => x.1 ≤ y.1)
      (l₂ := b.reverse) va.1 (by rw [List.pairwise_reverse]; exact vb.1)
  have zmem : ∀ xy ∈ z, xy.1 ∈ a ∧ xy.2 ∈ b := by
    intro xy hxy
    refine ⟨?_, ?_⟩
    · have : xy.1 ∈ z.map (·.1) := List.mem_map_of_mem hxy
      rwa [hz1] at this
    · have : xy.2 ∈ z.map (·.2) := List.mem_map_of_mem hxy
      rw [hz2] at this
      exact List.mem_reverse.1 this
  have spread : ∀ u ∈ es, ∀ v ∈ es, u.1 - v.1 ≤ M := by
    intro u hu v hv
    obtain ⟨x, hx, rfl⟩ := List.mem_map.1 (hperm.mem_iff.1 hu)
    obtain ⟨y, hy, rfl⟩ := List.mem_map.1 (hperm.mem_iff.1 hv)
    have bx1 := va.2 _ (zmem x hx).1
    have bx2 := vb.2 _ (zmem x hx).2
    have by1 := va.2 _ (zmem y hy).1
    have by2 := vb.2 _ (zmem y hy).2
    rcases pairwise_forall hpw x hx y hy with rfl | h | h
    · simp only; omega
    · simp only; omega
    · simp only; omega
  have hm : m ∈ es := by
    obtain ⟨ys, rfl⟩ := List.getLast?_eq_some_iff.1 hlast
    simp
  have hmin := sorted_last_min hsorted hlast
  rw [← he]
  refine ⟨?_, ?_⟩
  · unfold Sorted at hsorted ⊢
    exact hsorted.map _ (fun x y hxy => by simp only; omega)
  · intro s hs
    obtain ⟨u, hu, rfl⟩ := List.mem_map.1 hs
    have := hmin u hu
    have := spread u hu m hm
    simp only
    omega

theorem loopK_val {sort : Row → Row} (hsort : SortOk sort) {k L : Nat} (hk : 0 < k) {M : Int}
    (fuel : Nat) (H : List Row) (opp : List (List (Nat × Nat)))
    (H' : List Row) (opp' : List (List (Nat × Nat)))
    (ok : HeapOk k L H) (hv : ∀ r ∈ H, ValOk M r)
    (h : loopK sort fuel H opp = some (H', opp')) : ∀ r ∈ H', ValOk M r := by
  induction fuel generalizing H opp with
  | zero => simp [loopK] at h
  | succ fuel ih =>
    match H with
    | [] =>
      simp only [loopK, Option.some.injEq, Prod.mk.injEq] at h
      obtain ⟨rfl, rfl⟩ := h
      exact hv
    | [x] =>
      simp only [loopK, Option.some.injEq, Prod.mk.injEq] at h
      obtain ⟨rfl, rfl⟩ := h
      exact hv
    | a :: b :: rest =>
      obtain ⟨e, t, hc⟩ := combine_ne_none hsort hk ok
      obtain ⟨ok', -⟩ := step_back hsort hk ok hc
      simp only [loopK, hc] at h
      apply ih _ _ ok' _ h
      intro r hr
      rcases List.mem_cons.1 ((perm_insRow e rest).mem_iff.1 hr) with rfl | hr
      · exact combine_val hsort hk (ok.1 a (by simp)).1 (ok.1 b (by simp)).1
          (hv a (by simp)) (hv b (by simp)) hc
      · exact hv r (by simp [hr])

/-! ## k-way: the initial heap -/

/-- The rows before `collect::<BinaryHeap<_>>()`. -/
def rows0 (n k : Nat) (ws : List Int) (off : Nat) : List Row :=
  (ws.zipIdx off).map fun wi => initRow n k wi.1 wi.2

theorem mem_initRow {n k : Nat} {w : Int} {id : Nat} {s : WI} (h : s ∈ initRow n k w id) :
    ∃ p, p < k ∧ s = (if p = 0 then w else 0, n * p + id) := by
  obtain ⟨p, hp, rfl⟩ := List.mem_map.1 h
  exact ⟨p, List.mem_range.1 hp, rfl⟩

theorem rowG_initRow (q : List Nat) (j n k : Nat) (hk : 0 < k) (w : Int) (id : Nat) :
    rowG q j (initRow n k w id) = if asg q id = j then w else 0 := by
  obtain ⟨k', rfl⟩ : ∃ k', k = k' + 1 := ⟨k - 1, by omega⟩
  simp only [initRow, List.range_succ_eq_map, List.map_cons, rowG, if_true, Nat.mul_zero,
    Nat.zero_add]
  rw [rowG_zero]
  · omega
  · intro s hs
    simp only [List.map_map, List.mem_map, Function.comp] at hs
    obtain ⟨p, _, rfl⟩ := hs
    simp

theorem heapG_rows0 (q : List Nat) (j n k : Nat) (hk : 0 < k) (ws : List Int) (off : Nat)
    (ids : List Nat) (hlen : ids.length = ws.length)
    (hf : ∀ i (h : i < ids.length), asg q (off + i) = ids[i]) :
    heapG q j (rows0 n k ws off) = load ws ids j := by
  induction ws generalizing off ids with
  | nil => simp [rows0, heapG, load]
  | cons w ws ih =>
    match ids with
    | [] => simp at hlen
    | i :: ids =>
      have h0 := hf 0 (by simp)
      simp only [Nat.add_zero, List.getElem_cons_zero] at h0
      have := ih (off + 1) ids (by simpa using hlen) (fun t ht => by
        have := hf (t + 1) (by simpa using ht)
        simpa [Nat.add_assoc, Nat.add_comm 1 t] using this)
      simp only [rows0] at this ⊢
      rw [List.zipIdx_cons, List.map_cons, heapG, this, rowG_initRow q j n k hk, h0, load_cons]

theorem heapOk_rows0 (k : Nat) (ws : List Int) : HeapOk k (k * ws.length) (rows0 ws.length k ws 0) := by
  refine ⟨?_, ?_⟩
  · intro r hr
    obtain ⟨wi, hwi, rfl⟩ := List.mem_map.1 hr
    have hid : wi.2 < ws.length := by
      have := List.snd_lt_of_mem_zipIdx hwi
      omega
    refine ⟨by simp [initRow], ?_⟩
    intro s hs
    obtain ⟨p, hp, rfl⟩ := mem_initRow hs
    have : ws.length * (p + 1) ≤ ws.length * k := Nat.mul_le_mul_left _ hp
    rw [Nat.mul_succ] at this
    rw [Nat.mul_comm k]
    simp only
    omega
  · show List.Pairwise (· ≠ ·) _
    simp only [ids]
    rw [List.pairwise_map, List.pairwise_flatten]
    refine ⟨?_, ?_⟩
    · intro r hr
      obtain ⟨wi, hwi, rfl⟩ := List.mem_map.1 hr
      have hid : wi.2 < ws.length := by
        have := List.snd_lt_of_mem_zipIdx hwi
        omega
      simp only [initRow]
      rw [List.pairwise_map]
      refine List.Pairwise.imp ?_ (List.pairwise_lt_range (n := k))
      intro p p' hpp
      have : ws.length * p < ws.length * p' := Nat.mul_lt_mul_of_pos_left hpp (by omega)
      simp only
      omega
    · simp only [rows0]
      rw [List.pairwise_map]
      have hlt : (ws.zipIdx 0).Pairwise (fun a b => a.2 < b.2) := by
        have : ((ws.zipIdx 0).map Prod.snd).Pairwise (· < ·) := by
          rw [List.zipIdx_map_snd]; exact List.pairwise_lt_range'
        exact List.pairwise_map.1 this
      refine List.Pairwise.imp_of_mem ?_ hlt
      intro wi wi' hwi hwi' hlt x hx y hy
      have h1 : wi.2 < ws.length := by have := List.snd_lt_of_mem_zipIdx hwi; omega
      have h2 : wi'.2 < ws.length := by have := List.snd_lt_of_mem_zipIdx hwi'; omega
      obtain ⟨p, _, rfl⟩ := mem_initRow hx
      obtain ⟨p', _, rfl⟩ := mem_initRow hy
      simp only
      intro heq
      have e1 := Nat.mul_add_mod ws.length p wi.2
      have e2 := Nat.mul_add_mod ws.length p' wi'.2
      rw [heq, e2, Nat.mod_eq_of_lt h1, Nat.mod_eq_of_lt h2] at e1
      omega

theorem val_rows0 {M : Int} (n k : Nat) (ws : List Int) (off : Nat)
    (hw : ∀ w ∈ ws, 0 ≤ w ∧ w ≤ M) : ∀ r ∈ rows0 n k ws off, ValOk M r := by
  intro r hr
  obtain ⟨wi, hwi, rfl⟩ := List.mem_map.1 hr
  have hwm : wi.1 ∈ ws := by
    have := List.mem_map_of_mem (f := Prod.fst) hwi
    rwa [List.zipIdx_map_fst] at this
  have hb := hw _ hwm
  refine ⟨?_, ?_⟩
  · unfold Sorted
    simp only [initRow]
    rw [List.pairwise_map]
    refine List.Pairwise.imp ?_ (List.pairwise_lt_range (n := k))
    intro p p' hpp
    have : p' ≠ 0 := by omega
    simp only [this, if_false]
    split <;> omega
  · intro s hs
    obtain ⟨p, _, rfl⟩ := mem_initRow hs
    simp only
    split <;> omega

/-! ## k-way: the whole function -/

theorem rowG_none {q : List Nat} {j : Nat} {r : Row} (h : ∀ s ∈ r, asg q s.2 ≠ j) :
    rowG q j r = 0 := by
  induction r with
  | nil => rfl
  | cons s r ih =>
    simp only [rowG]
    rw [if_neg (h s (by simp)), ih (fun t ht => h t (by simp [ht]))]
    rfl

/-- When slot `i` of the row is assigned to part `n + i`, part `n + i` gets
exactly the value of slot `i`. -/
theorem rowG_range' (q : List Nat) (r : Row) (n : Nat)
    (h : (r.map fun s => asg q s.2) = List.range' n r.length) :
    ∀ i (hi : i < r.length), rowG q (n + i) r = r[i].1 := by
  induction r generalizing n with
  | nil => intro i hi; simp at hi
  | cons s r ih =>
    rw [List.map_cons, List.length_cons, List.range'_succ, List.cons.injEq] at h
    intro i hi
    cases i with
    | zero =>
      simp only [rowG, Nat.add_zero, h.1, if_true, List.getElem_cons_zero]
      rw [rowG_none]
      · omega
      · intro t ht
        have : asg q t.2 ∈ List.range' (n + 1) r.length := by
          rw [← h.2]; exact List.mem_map_of_mem (f := fun s : WI => asg q s.2) ht
        have := List.mem_range'_1.1 this
        omega
    | succ i =>
      have := ih (n + 1) h.2 i (by simpa using hi)
      simp only [rowG, List.getElem_cons_succ, h.1]
      rw [if_neg (by omega), show n + (i + 1) = n + 1 + i by omega, this]
      omega

theorem kkGeneral_spec {sort : Row → Row} (hsort : SortOk sort) (p : List Nat) (ws : List Int)
    (k : Nat) (hk : 0 < k) (hlen : ws.length = p.length) (hne : ws ≠ []) :
    ∃ q final c, kkGeneral sort p ws k = some q ∧ q.length = p.length ∧ (∀ i ∈ q, i < k) ∧
      final.length = k ∧ loads ws q k = final.map (fun s => s.1 + c) ∧
      ∀ M, (∀ w ∈ ws, 0 ≤ w ∧ w ≤ M) → ValOk M final := by
  have hn : 0 < ws.length := List.length_pos_iff.2 hne
  have hperm0 := perm_sortRows (rows0 ws.length k ws 0)
  have ok0 : HeapOk k (k * ws.length) (sortRows (rows0 ws.length k ws 0)) :=
    heapOk_perm hperm0 (heapOk_rows0 k ws)
  have hlen0 : (sortRows (rows0 ws.length k ws 0)).length = ws.length := by
    rw [hperm0.length_eq]; simp [rows0]
  have hne0 : sortRows (rows0 ws.length k ws 0) ≠ [] := by
    intro h; rw [h] at hlen0; simp at hlen0; omega
  obtain ⟨final, opp', hloop, okF, hsafeF⟩ := loopK_safe hsort hk _ _ [] (Nat.le_refl _) hne0 ok0
    (fun q _ => by simp [unwindK])
  obtain ⟨hlF, idF⟩ := okF.1 final (by simp)
  have ndF : (final.map (·.2)).Nodup := by
    have := okF.2
    simpa [ids] using this
  obtain ⟨q0, hq0, hl0, hmap0, -⟩ := placeFinal_spec final 0 (List.replicate (k * ws.length) 0)
    (by simpa using idF) ndF
  rw [List.length_replicate] at hl0
  have good0 : Good k (k * ws.length) [final] q0 := by
    refine ⟨hl0, ?_⟩
    intro r hr
    rw [List.mem_singleton.1 hr, hmap0, hlF, List.range_eq_range']
  cases hun : unwindK opp' q0 with
  | none => exact absurd hun (hsafeF q0 good0)
  | some qf =>
    obtain ⟨q', c, hun', g', hsum⟩ := loopK_sound hsort hk _ _ [] _ _ q0 qf ok0 hloop good0 hun
    have hqq : q' = qf := by simpa [unwindK] using hun'
    subst hqq
    have hkn : ws.length ≤ k * ws.length := Nat.le_mul_of_pos_left _ hk
    have hlq : (q'.take p.length).length = p.length := by
      rw [List.length_take, g'.1]; omega
    have hget : ∀ i (h : i < (q'.take p.length).length), asg q' (0 + i) = (q'.take p.length)[i] := by
      intro i h
      have : i < q'.length := by rw [g'.1]; omega
      simp [asg, this]
    refine ⟨q'.take p.length, final, c, ?_, hlq, ?_, hlF, ?_, ?_⟩
    · have h1 : loopK sort (sortRows (rows0 ws.length k ws 0)).length
          (sortRows (rows0 ws.length k ws 0)) [] = some ([final], opp') := hloop
      have h2 : placeFinal (List.replicate (k * ws.length) 0) final = some q0 := hq0
      have h3 : List.foldlM copyTuples q0 opp' = some q' := hun
      simp only [kkGeneral]
      simp only [rows0] at h1
      rw [h1]
      simp only [h2, h3, hlq, if_true]
    · intro i hi
      obtain ⟨t, ht, rfl⟩ := List.mem_iff_getElem.1 hi
      have htn : t < ws.length := by omega
      rw [← hget t ht, Nat.zero_add]
      have hrow : initRow ws.length k ws[t] t ∈ sortRows (rows0 ws.length k ws 0) := by
        rw [hperm0.mem_iff]
        simp only [rows0]
        exact List.mem_map_of_mem (f := fun wi : Int × Nat => initRow ws.length k wi.1 wi.2)
          (List.mem_zipIdx_iff_getElem?.2 (by simp [htn]) : (ws[t], t) ∈ ws.zipIdx 0)
      have hslot : ((if (0 : Nat) = 0 then ws[t] else 0, ws.length * 0 + t) : WI) ∈
          initRow ws.length k ws[t] t :=
        List.mem_map_of_mem (f := fun p => ((if p = 0 then ws[t] else 0, ws.length * p + t) : WI))
          (List.mem_range.2 hk)
      have := (g'.2 _ hrow).mem_iff.1
        (List.mem_map_of_mem (f := fun s : WI => asg q' s.2) hslot)
      simpa using this
    · apply List.ext_getElem
      · simp [loads, hlF]
      · intro j h1 h2
        have hj : j < k := by simpa [loads] using h1
        have e1 : (loads ws (q'.take p.length) k)[j] = load ws (q'.take p.length) j := by
          simp [loads]
        have e2 := heapG_rows0 q' j ws.length k hk ws 0 (q'.take p.length) (by omega) hget
        have e3 := heapG_perm q' j hperm0
        have e4 := hsum j hj
        have e5 := rowG_range' q0 final 0 (by rw [hmap0]) j (by omega)
        rw [Nat.zero_add] at e5
        simp only [heapG] at e4
        rw [e1, ← e2, ← e3, e4, e5]
        simp
    · intro M hw
      refine loopK_val hsort hk _ _ [] _ _ ok0 ?_ hloop final (by simp)
      intro r hr
      exact val_rows0 _ _ _ _ hw r (hperm0.mem_iff.1 hr)

/-! ## `sortVal` meets the contract of the sort -/

theorem perm_insVal (x : WI) (l : List WI) : (insVal x l).Perm (x :: l) := by
  induction l with
  | nil => exact List.Perm.refl _
  | cons y ys ih =>
    simp only [insVal]
    split
    · exact List.Perm.refl _
    · exact (List.Perm.cons y ih).trans (List.Perm.swap x y ys)

theorem sorted_insVal {x : WI} {l : List WI} (h : Sorted l) : Sorted (insVal x l) := by
  induction l with
  | nil => simp [insVal, Sorted]
  | cons y ys ih =>
    unfold Sorted at h ⊢
    rw [List.pairwise_cons] at h
    simp only [insVal]
    split
    · next hlt =>
      rw [List.pairwise_cons, List.pairwise_cons]
      refine ⟨?_, h⟩
      intro z hz
      rcases List.mem_cons.1 hz with rfl | hz
      · omega
      · have := h.1 z hz; omega
    · next hlt =>
      rw [List.pairwise_cons]
      refine ⟨?_, ih h.2⟩
      intro z hz
      rcases List.mem_cons.1 ((perm_insVal x ys).mem_iff.1 hz) with rfl | hz
      · omega
      · exact h.1 z hz

theorem sortVal_aux (l acc : List WI) (h : Sorted acc) :
    (l.foldl (fun acc x => insVal x acc) acc).Perm (acc ++ l) ∧
      Sorted (l.foldl (fun acc x => insVal x acc) acc) := by
  induction l generalizing acc with
  | nil => simpa using h
  | cons x xs ih =>
    obtain ⟨hp, hs⟩ := ih (insVal x acc) (sorted_insVal h)
    refine ⟨hp.trans ?_, hs⟩
    have := (perm_insVal x acc).append_right xs
    refine this.trans ?_
    simp only [List.cons_append]
    exact List.perm_middle.symm

theorem sortVal_ok : SortOk sortVal := by
  intro l
  have := sortVal_aux l [] (by simp [Sorted])
  simpa [sortVal] using this

/-! ## Two-way: the residue is at most the largest weight -/

theorem mem_sortInt {y : Int} {l : List Int} : y ∈ sortInt l ↔ y ∈ l := by
  induction l with
  | nil => simp [sortInt]
  | cons x xs ih => simp [sortInt, mem_insInt, ih]

theorem residGo_le (M : Int) (hM : 0 ≤ M) (fuel : Nat) (l : List Int) (hs : SortedInt l)
    (hb : ∀ x ∈ l, 0 ≤ x ∧ x ≤ M) : residGo fuel l ≤ M := by
  induction fuel generalizing l with
  | zero => simpa [residGo] using hM
  | succ fuel ih =>
    match l with
    | [] => simpa [residGo] using hM
    | [a] => simpa [residGo] using (hb a (by simp)).2
    | a :: b :: rest =>
      unfold SortedInt at hs
      rw [List.pairwise_cons, List.pairwise_cons] at hs
      have hba : b ≤ a := hs.1 b (by simp)
      have ha := hb a (by simp)
      have hb' := hb b (by simp)
      simp only [residGo]
      apply ih _ (sorted_insInt hs.2.2)
      intro x hx
      rcases mem_insInt.1 hx with rfl | hx
      · omega
      · exact hb x (by simp [hx])

theorem residue_le (M : Int) (hM : 0 ≤ M) (ws : List Int) (hb : ∀ w ∈ ws, 0 ≤ w ∧ w ≤ M) :
    residue ws ≤ M :=
  residGo_le M hM _ _ (sorted_sortInt ws) (fun x hx => hb x (mem_sortInt.1 hx))

/-! ## `runWith` -/

theorem runWith_ok {sort : Row → Row} {p : List Nat} {ws : List Int} {k : Nat} {ids : List Nat}
    (h : runWith sort p ws k = .ok ids) :
    ws.length = p.length ∧
      (((k < 2 ∨ p.length < 2) ∧ ids = p.map fun _ => 0) ∨
       (k = 2 ∧ 2 ≤ p.length ∧ kkBipart p ws = some ids) ∨
       (3 ≤ k ∧ 2 ≤ p.length ∧ kkGeneral sort p ws k = some ids)) := by
  unfold runWith at h
  split at h
  · simp at h
  · next hlen =>
    refine ⟨by omega, ?_⟩
    split at h
    · next hc =>
      left
      simp only [Bool.or_eq_true, decide_eq_true_eq] at hc
      exact ⟨hc, by simpa using h.symm⟩
    · next hc =>
      simp only [Bool.or_eq_true, decide_eq_true_eq, not_or, Nat.not_lt] at hc
      right
      split at h
      · next hk2 =>
        left
        split at h
        · next q hq =>
          have hqq : q = ids := by simpa using h
          exact ⟨hk2, hc.2, hqq ▸ hq⟩
        · simp at h
      · next hk2 =>
        right
        split at h
        · next q hq =>
          have hqq : q = ids := by simpa using h
          exact ⟨by omega, hc.2, hqq ▸ hq⟩
        · simp at h

theorem loads_getElem? (ws : List Int) (ids : List Nat) (k j : Nat) (hj : j < k) :
    (loads ws ids k)[j]? = some (load ws ids j) := by
  simp [loads, hj]

theorem load_map_zero_nil (p : List Nat) (j : Nat) : load [] p j = 0 := by simp [load]

/-- From "loads = final tuple + constant" and the value bounds to the gap. -/
theorem gap_of_backtrack {ws : List Int} {q : List Nat} {k : Nat} {final : Row} {c M : Int}
    (hl : loads ws q k = final.map fun s => s.1 + c) (hlen : final.length = k)
    (hb : ∀ s ∈ final, 0 ≤ s.1 ∧ s.1 ≤ M) :
    ∀ j₁ < k, ∀ j₂ < k, load ws q j₁ - load ws q j₂ ≤ M := by
  have key : ∀ j < k, ∃ s ∈ final, load ws q j = s.1 + c := by
    intro j hj
    have h1 := loads_getElem? ws q k j hj
    rw [hl, List.getElem?_map] at h1
    have hjf : j < final.length := by omega
    rw [List.getElem?_eq_getElem hjf] at h1
    simp only [Option.map_some, Option.some.injEq] at h1
    exact ⟨final[j], List.getElem_mem hjf, h1.symm⟩
  intro j₁ h₁ j₂ h₂
  obtain ⟨s₁, hs₁, e₁⟩ := key j₁ h₁
  obtain ⟨s₂, hs₂, e₂⟩ := key j₂ h₂
  have := hb s₁ hs₁
  have := hb s₂ hs₂
  omega

end Coupe.Kk
