import CoupeModel.Model.Par
import CoupeModel.Model.Rcb
import CoupeModel.Proofs.Par
import CoupeModel.Proofs.Rcb
import CoupeModel.Props.C03
import CoupeModel.Props.C06

/-!
# Schedule independence of whole algorithms (C06, second layer)

`Props/C06.lean` proves that every parallel *skeleton* is schedule free.  Here the
skeletons are plugged into the algorithm models and the algorithms' OUTPUT is
shown not to depend on the schedule.

## Rcb

`Model/Rcb.lean` evaluates the fold of `par_rcb_split` as one sequential chunk
(`scan`).  `scanT` evaluates the same 4-tuple reduction along an arbitrary
`SplitTree` (`Par.parNearest`: `fold(..).reduce(..)` with the closures of the
code); `splitT`/`recurseT`/`runT` are `split`/`recurse`/`run` with `scanT` in
place of `scan`, the tree being chosen per bisection node and per iteration of
the cut search by an arbitrary function.  Everything is over the exact instance
`Coord Int`.
-/

namespace Coupe.ParAlgos

open Coupe.Rcb Coupe.Par

/-! ## The fold of `par_rcb_split` along a split tree -/

/-- The items of `points.par_iter().zip(weights).enumerate()` at one bisection:
position, coordinate on the split axis, weight (`Par.items`). -/
def parItems (items : List (Rcb.Item Int)) (coord : Nat) : List Par.Item :=
  Par.items (items.map (·.key coord)) (items.map (·.w))

/-- The model's `Scan` from the tuple of the reduction: `(None, _)` and
`(_, INFINITY)` both mean "no candidate". -/
def toScan (a : Par.Acc) : Scan Int :=
  ⟨a.count, a.weight,
    match a.idx, a.dist with
    | some i, .fin d => some (i, d)
    | _, _ => none⟩

/-- `par_rcb_split`'s `fold(..).reduce(..)` evaluated along the split tree `tr`. -/
def scanT (tr : SplitTree) (items : List (Rcb.Item Int)) (coord : Nat) (t : Int) : Scan Int :=
  toScan (parNearest t tr (parItems items coord))

/-- `recursive_bisection.rs: par_rcb_split` where iteration number `it` of the
cut search evaluates its reduction along the tree `trees it`.  Apart from
`scanT` this is `Rcb.split` verbatim. -/
def splitT (trees : Nat → SplitTree) (withinTol : Int → Int → Bool) (coord : Nat) (sum : Int)
    (items : List (Rcb.Item Int)) :
    Nat → Nat → Int → Int → Option Nat → Bool → Res (SplitOut Int)
  | 0, _, _, _, _, _ => .fuel
  | fuel + 1, it, min, max, prev, moved =>
    let t := Coord.mid min max
    let s := scanT (trees it) items coord t
    match s.nearest with
    | none =>
      if prev = some s.count then
        .ok ⟨items, [], sum, max, .allLeft, min, max, moved, it + 1⟩
      else splitT trees withinTol coord sum items fuel (it + 1) min t (some s.count) true
    | some (idx, nd) =>
      let exit? : Option Exit :=
        if prev = some s.count then some .plateau
        else if Coord.le max (Coord.add t nd) then some .noPointToMax
        else if withinTol s.wl sum then some .tolerance
        else none
      match exit? with
      | some e =>
        match reorderSplit items idx coord with
        | .oob => .oob
        | .fuel => .fuel
        | .ok (l, r) => .ok ⟨l, r, s.wl, t, e, min, max, moved, it + 1⟩
      | none =>
        if s.wl < sum - s.wl then
          splitT trees withinTol coord sum items fuel (it + 1) t max (some s.count) moved
        else splitT trees withinTol coord sum items fuel (it + 1) min t (some s.count) true

/-- `recursive_bisection.rs: rcb_recurse` where the cut search of the bisection
numbered `iterId` uses the trees `trees iterId 0, trees iterId 1, …` (node numbers
are unique in the recursion: `2·id+1`, `2·id+2`).  Apart from `splitT` this is
`Rcb.recurse` verbatim. -/
def recurseT (withinTol : Int → Int → Bool) (cfg : Cfg) (trees : Nat → Nat → SplitTree) :
    Nat → List (Rcb.Item Int) → Nat → Nat → Int → List Int → List Int → Res (Tree (NodeInfo Int))
  | _, [], _, _, _, _, _ => .ok .empty
  | 0, items, iterId, _, _, _, _ => .ok (.leaf iterId (items.map (·.id)))
  | k + 1, items, iterId, coord, sum, lo, hi =>
    let min := lo.getD coord Coord.zero
    let max := hi.getD coord Coord.zero
    match splitT (trees iterId) withinTol coord sum items cfg.fuel 0 min max none false with
    | .oob => .oob
    | .fuel => .fuel
    | .ok r =>
      match recurseT withinTol cfg trees k r.left (2 * iterId + 1) ((coord + 1) % cfg.dim)
              r.weightLeft lo (hi.set coord r.splitPos) with
      | .oob => .oob
      | .fuel => .fuel
      | .ok tl =>
        match recurseT withinTol cfg trees k r.right (2 * iterId + 2) ((coord + 1) % cfg.dim)
                (sum - r.weightLeft) (lo.set coord r.splitPos) hi with
        | .oob => .oob
        | .fuel => .fuel
        | .ok tr => .ok (.node ⟨coord, sum, min, max, r.weightLeft, r.splitPos, r.exit, r.iters⟩ tl tr)

/-- Everything rayon decides during one call of `rcb`. -/
structure RcbSched where
  /-- `weights.par_iter().cloned().sum()` -/
  sumTree : SplitTree
  /-- coordinate ↦ split tree of `BoundingBox::from_points`' `fold_with(..).reduce_with(..)` -/
  bbox : Nat → SplitTree
  /-- bisection node, iteration of its cut search ↦ split tree of the fold -/
  split : Nat → Nat → SplitTree
  /-- the order in which the leaves' `part.store(iter_id)` take effect
  (`rayon::join` of the two recursive calls, `par_iter_mut().for_each` inside a leaf) -/
  stores : List (Nat × Nat) → List (Nat × Nat)

/-- A schedule only reorders the stores. -/
def RcbSched.Valid (s : RcbSched) : Prop := ∀ ws : List (Nat × Nat), ws.Perm (s.stores ws)

/-- The sequential schedule (what `Model/Rcb.lean` evaluates). -/
def RcbSched.seq : RcbSched := ⟨.leaf, fun _ => .leaf, fun _ _ => .leaf, id⟩

/-- `Rcb.idsOfTree` with the stores performed in the schedule's order. -/
def idsOfTreeS {ι : Type} (stores : List (Nat × Nat) → List (Nat × Nat)) (n : Nat) (t : Tree ι) :
    List Nat :=
  let ids := scatter n (stores t.assign)
  let off := minNat ids
  ids.map (· - off)

/-- `Rcb.runBB` under the schedule `s`. -/
def runBBT (s : RcbSched) (withinTol : Int → Int → Bool) (cfg : Cfg) (iter : Nat)
    (pts : List (List Int)) (ws : List Int) (plen : Nat) (lo hi : List Int) : Outcome :=
  if ws.length ≠ plen then .lenMismatch
  else if pts.length ≠ plen then .lenMismatch
  else if pts.isEmpty then .ok []
  else
    match recurseT withinTol cfg s.split iter (mkItems pts ws) 0 0 (parSum s.sumTree ws) lo hi with
    | .oob => .oob
    | .fuel => .fuel
    | .ok t => .ok (idsOfTreeS s.stores plen t)

/-- `BoundingBox::from_points` under a schedule: per coordinate the
`fold_with((MAX, MIN), ..).reduce_with(..)` of `Par.parBBox` (`fmax`/`fmin` stand for
`f64::MAX`/`f64::MIN`). -/
def bboxT (trees : Nat → SplitTree) (fmax fmin : Int) (dim : Nat) (pts : List (List Int)) :
    List Int × List Int :=
  let mm := (List.range dim).map (fun c =>
    (parBBox fmax fmin (trees c) (pts.map (fun p => p.getD c 0))).getD (0, 0))
  (mm.map (·.1), mm.map (·.2))

/-- `Rcb.run` under the schedule `s`. -/
def runT (s : RcbSched) (fmax fmin : Int) (withinTol : Int → Int → Bool) (cfg : Cfg) (iter : Nat)
    (pts : List (List Int)) (ws : List Int) (plen : Nat) : Outcome :=
  let bb := bboxT s.bbox fmax fmin cfg.dim pts
  runBBT s withinTol cfg iter pts ws plen bb.1 bb.2

/-- `Rcb.runRib` under the schedule `s` (the frame `rotate` is a parameter, as in the model). -/
def runRibT {β : Type} (s : RcbSched) (fmax fmin : Int) (rotate : β → List Int)
    (withinTol : Int → Int → Bool) (cfg : Cfg) (iter : Nat) (pts : List β) (ws : List Int)
    (plen : Nat) : Outcome :=
  runT s fmax fmin withinTol cfg iter (pts.map rotate) ws plen

/-! ## `parItems` -/

theorem parItems_eq (items : List (Rcb.Item Int)) (coord : Nat) :
    parItems items coord =
      items.zipIdx.map (fun x => (⟨x.2, x.1.key coord, x.1.w⟩ : Par.Item)) := by
  simp only [parItems, Par.items, List.zip_map', List.zipIdx_map, List.map_map]
  rfl

theorem mem_parItems (items : List (Rcb.Item Int)) (coord : Nat) (x : Par.Item) :
    x ∈ parItems items coord ↔
      ∃ y, items[x.idx]? = some y ∧ x.coord = y.key coord ∧ x.weight = y.w := by
  rw [parItems_eq]
  simp only [List.mem_map, Prod.exists, List.mem_zipIdx_iff_getElem?]
  constructor
  · rintro ⟨y, i, hy, rfl⟩
    exact ⟨y, hy, rfl, rfl⟩
  · rintro ⟨y, hy, h1, h2⟩
    refine ⟨y, x.idx, hy, ?_⟩
    cases x
    simp_all

theorem filter_parItems_len (coord : Nat) (t : Int) : ∀ (items : List (Rcb.Item Int)) (k : Nat),
    (((items.zipIdx k).map (fun x => (⟨x.2, x.1.key coord, x.1.w⟩ : Par.Item))).filter
        (fun x => decide (x.coord - t < 0))).length
      = (items.filter (fun y => decide (y.key coord < t))).length := by
  intro items
  induction items with
  | nil => intro k; rfl
  | cons y ys ih =>
    intro k
    simp only [List.zipIdx_cons, List.map_cons, List.filter_cons]
    by_cases h : y.key coord < t
    · have h' : y.key coord - t < 0 := by omega
      simp [h, h', ih]
    · have h' : ¬ y.key coord - t < 0 := by omega
      simp [h, h', ih]

theorem filter_parItems_sum (coord : Nat) (t : Int) : ∀ (items : List (Rcb.Item Int)) (k : Nat),
    ((((items.zipIdx k).map (fun x => (⟨x.2, x.1.key coord, x.1.w⟩ : Par.Item))).filter
        (fun x => decide (x.coord - t < 0))).map (·.weight)).sum
      = ((items.filter (fun y => decide (y.key coord < t))).map (·.w)).sum := by
  intro items
  induction items with
  | nil => intro k; rfl
  | cons y ys ih =>
    intro k
    simp only [List.zipIdx_cons, List.map_cons, List.filter_cons]
    by_cases h : y.key coord < t
    · have h' : y.key coord - t < 0 := by omega
      simp [h, h', ih]
    · have h' : ¬ y.key coord - t < 0 := by omega
      simp [h, h', ih]

/-! ## What the reduction computes, whatever the tree -/

/-- Exactness of the distance: distinct coordinates have distinct distances to the
target.  True of the exact instance (`distExact_int`); FALSE for `f32`, where
`point - split_target` rounds and two different coordinates can be at the same
rounded distance – then the pivot VALUE (not only its index) can depend on the
split tree.  Every use below is explicit. -/
def DistExact : Prop := ∀ a b t : Int, (Coord.sub a t : Int) = Coord.sub b t → a = b

theorem distExact_int : DistExact := by
  intro a b t h
  simp only [Coord.sub] at h
  omega

/-- "`s` summarises `items` correctly for the target `t`": all the cut search
reads.  Stated on the items themselves – no index of evaluation order occurs. -/
structure ScanSpec (items : List (Rcb.Item Int)) (coord : Nat) (t : Int) (s : Scan Int) : Prop where
  count : s.count = (items.filter (fun y => decide (y.key coord < t))).length
  wl : s.wl = ((items.filter (fun y => decide (y.key coord < t))).map (·.w)).sum
  none_iff : s.nearest = none ↔ ∀ y ∈ items, y.key coord < t
  attained : ∀ i d, s.nearest = some (i, d) →
    ∃ p, items[i]? = some p ∧ Coord.sub (p.key coord) t = d ∧ t ≤ p.key coord
  lower : ∀ i d, s.nearest = some (i, d) → ∀ y ∈ items, t ≤ y.key coord → d ≤ y.key coord - t

theorem scanT_spec (tr : SplitTree) (items : List (Rcb.Item Int)) (coord : Nat) (t : Int) :
    ScanSpec items coord t (scanT tr items coord t) := by
  have h := parNearest_spec t tr (parItems items coord)
  unfold scanT
  generalize parNearest t tr (parItems items coord) = a at h
  obtain ⟨c, w, i, d⟩ := a
  obtain ⟨hc, hw, hinf, hlow, hnone, hsome⟩ := h
  simp only at hc hw hinf hlow hnone hsome
  have hall : (∀ x ∈ parItems items coord, x.coord - t < 0) ↔ ∀ y ∈ items, y.key coord < t := by
    constructor
    · intro h y hy
      obtain ⟨j, hj⟩ := List.mem_iff_getElem?.1 hy
      have := h ⟨j, y.key coord, y.w⟩ ((mem_parItems _ _ _).2 ⟨y, hj, rfl, rfl⟩)
      simp only at this
      omega
    · intro h x hx
      obtain ⟨y, hy, h1, _⟩ := (mem_parItems _ _ _).1 hx
      have := h y (List.mem_iff_getElem?.2 ⟨_, hy⟩)
      omega
  refine ⟨?_, ?_, ?_, ?_, ?_⟩
  · simp only [toScan, hc, parItems_eq]
    exact filter_parItems_len coord t items 0
  · simp only [toScan, hw, parItems_eq]
    exact filter_parItems_sum coord t items 0
  · rw [← hall, ← hinf]
    cases i with
    | none =>
      have := hnone.1 rfl
      simp [toScan, this]
    | some j =>
      cases d with
      | inf => have := hnone.2 rfl; cases this
      | fin e => simp [toScan]
  · intro j e hje
    cases i with
    | none => simp [toScan] at hje
    | some j' =>
      cases d with
      | inf => simp [toScan] at hje
      | fin e' =>
        simp only [toScan, Option.some.injEq, Prod.mk.injEq] at hje
        obtain ⟨rfl, rfl⟩ := hje
        obtain ⟨x, hx, hxi, hx0, hxd⟩ := hsome j' rfl
        obtain ⟨y, hy, h1, _⟩ := (mem_parItems _ _ _).1 hx
        simp only [Dist.fin.injEq] at hxd
        refine ⟨y, by rw [← hxi]; exact hy, ?_, by omega⟩
        simp only [Coord.sub]
        omega
  · intro j e hje y hy hty
    cases i with
    | none => simp [toScan] at hje
    | some j' =>
      cases d with
      | inf => simp [toScan] at hje
      | fin e' =>
        simp only [toScan, Option.some.injEq, Prod.mk.injEq] at hje
        obtain ⟨rfl, rfl⟩ := hje
        obtain ⟨k, hk⟩ := List.mem_iff_getElem?.1 hy
        have := hlow e' rfl ⟨k, y.key coord, y.w⟩ ((mem_parItems _ _ _).2 ⟨y, hk, rfl, rfl⟩)
          (by simp only; omega)
        simpa using this

/-! ## One leaf = the sequential fold of the model -/

/-- Accumulators reachable by the fold: a stored distance comes with an index. -/
def AccWF (a : Par.Acc) : Prop := a.idx = none → a.dist = .inf

theorem accWF_step (t : Int) (a : Par.Acc) (x : Par.Item) (h : AccWF a) :
    AccWF (nearestStep t a x) := by
  unfold nearestStep
  simp only
  split
  · exact h
  · split
    · intro h'; cases h'
    · exact h

theorem toScan_step (coord : Nat) (t : Int) (a : Par.Acc) (y : Rcb.Item Int) (k : Nat)
    (h : AccWF a) :
    toScan (nearestStep t a ⟨k, y.key coord, y.w⟩) = scanStep coord t (toScan a) (y, k) := by
  obtain ⟨c, w, i, d⟩ := a
  simp only [AccWF] at h
  unfold nearestStep scanStep
  simp only [Coord.sub, Coord.lt, Coord.zero, Coord.ltInf]
  by_cases hneg : y.key coord - t < 0
  · simp only [hneg, ↓reduceIte, decide_true, toScan]
  · simp only [hneg, ↓reduceIte, decide_false, Bool.false_eq_true]
    cases i with
    | none =>
      have := h rfl
      subst this
      simp [toScan, Dist.lt]
    | some j =>
      cases d with
      | inf => simp [toScan, Dist.lt]
      | fin e =>
        by_cases hlt : y.key coord - t < e
        · simp [toScan, Dist.lt, hlt]
        · simp [toScan, Dist.lt, hlt]

theorem toScan_foldl (coord : Nat) (t : Int) : ∀ (items : List (Rcb.Item Int)) (k : Nat) (a : Par.Acc),
    AccWF a →
    toScan (((items.zipIdx k).map (fun x => (⟨x.2, x.1.key coord, x.1.w⟩ : Par.Item))).foldl
        (nearestStep t) a)
      = (items.zipIdx k).foldl (scanStep coord t) (toScan a) := by
  intro items
  induction items with
  | nil => intro k a _; rfl
  | cons y ys ih =>
    intro k a h
    simp only [List.zipIdx_cons, List.map_cons, List.foldl_cons]
    rw [ih (k + 1) _ (accWF_step t a _ h), toScan_step coord t a y k h]

/-- **Along EVERY split tree the reduction is the model's sequential `scan`** – count,
weight, distance AND index (the reduce closure of /repo f4e2819 keeps the left operand on a
tie, `Par.parNearest_eq_foldl`). -/
theorem scanT_eq_scan (tr : SplitTree) (items : List (Rcb.Item Int)) (coord : Nat) (t : Int) :
    scanT tr items coord t = scan items coord t := by
  unfold scanT
  rw [parNearest_eq_foldl, parItems_eq, toScan_foldl coord t items 0 nearestInit (by intro _; rfl)]
  rfl

/-- With a single leaf (no split: fewer than `with_min_len(4096)` items, or one
thread) the reduction is the model's `scan`. -/
theorem scanT_leaf (items : List (Rcb.Item Int)) (coord : Nat) (t : Int) :
    scanT .leaf items coord t = scan items coord t :=
  scanT_eq_scan .leaf items coord t

/-! ## Two arrangements of the same items -/

theorem perm_sum_int {l l' : List Int} (h : l.Perm l') : l.sum = l'.sum := by
  induction h with
  | nil => rfl
  | cons x _ ih => simp [ih]
  | swap x y l => simp only [List.sum_cons]; omega
  | trans _ _ ih1 ih2 => exact ih1.trans ih2

/-- Count, weight and "is there a candidate" are functions of the multiset; so is
the candidate's distance. -/
theorem scanSpec_perm {items items' : List (Rcb.Item Int)} {coord : Nat} {t : Int} {s s' : Scan Int}
    (hp : items.Perm items') (hs : ScanSpec items coord t s) (hs' : ScanSpec items' coord t s') :
    s.count = s'.count ∧ s.wl = s'.wl ∧ (s.nearest = none ↔ s'.nearest = none) ∧
      ∀ i d i' d', s.nearest = some (i, d) → s'.nearest = some (i', d') → d = d' := by
  refine ⟨?_, ?_, ?_, ?_⟩
  · rw [hs.count, hs'.count]
    exact (hp.filter _).length_eq
  · rw [hs.wl, hs'.wl]
    exact perm_sum_int ((hp.filter _).map _)
  · rw [hs.none_iff, hs'.none_iff]
    constructor
    · intro h y hy; exact h y (hp.mem_iff.2 hy)
    · intro h y hy; exact h y (hp.mem_iff.1 hy)
  · intro i d i' d' h h'
    obtain ⟨p, hpi, hpd, hpt⟩ := hs.attained i d h
    obtain ⟨p', hpi', hpd', hpt'⟩ := hs'.attained i' d' h'
    have hm : p ∈ items := List.mem_iff_getElem?.2 ⟨_, hpi⟩
    have hm' : p' ∈ items' := List.mem_iff_getElem?.2 ⟨_, hpi'⟩
    have h1 := hs.lower i d h p' (hp.mem_iff.2 hm') hpt'
    have h2 := hs'.lower i' d' h' p (hp.mem_iff.1 hm) hpt
    simp only [Coord.sub] at hpd hpd'
    omega

/-- A separated permutation is determined, as a pair of multisets, by the predicate. -/
theorem perm_filter_of_sep {α : Type} (p : α → Bool) {l r items : List α}
    (hperm : (l ++ r).Perm items) (hl : ∀ x ∈ l, p x = true) (hr : ∀ x ∈ r, p x = false) :
    l.Perm (items.filter p) ∧ r.Perm (items.filter (fun x => !p x)) := by
  have h1 := hperm.filter p
  have h2 := hperm.filter (fun x => !p x)
  rw [List.filter_append] at h1 h2
  have e1 : l.filter p = l := List.filter_eq_self.2 hl
  have e2 : r.filter p = [] := List.filter_eq_nil_iff.2 (fun x hx => by simp [hr x hx])
  have e3 : l.filter (fun x => !p x) = [] := List.filter_eq_nil_iff.2 (fun x hx => by simp [hl x hx])
  have e4 : r.filter (fun x => !p x) = r := List.filter_eq_self.2 (fun x hx => by simp [hr x hx])
  rw [e1, e2, List.append_nil] at h1
  rw [e3, e4, List.nil_append] at h2
  exact ⟨h1, h2⟩

/-- `reorder_split` around two pivots with the same coordinate, on two arrangements of
the same items: both succeed, the left halves hold the same items, so do the right
halves (the order inside a half may differ). -/
theorem reorderSplit_perm {items items' : List (Rcb.Item Int)} (hp : items.Perm items')
    (coord idx idx' : Nat) (p p' : Rcb.Item Int) (hi : items[idx]? = some p)
    (hi' : items'[idx']? = some p') (hk : p.key coord = p'.key coord) :
    ∃ l r l' r', reorderSplit items idx coord = .ok (l, r) ∧
      reorderSplit items' idx' coord = .ok (l', r') ∧
      (l ++ r).Perm items ∧ l.Perm l' ∧ r.Perm r' := by
  obtain ⟨l, r, e, hperm, hl, hr, _⟩ :=
    reorderSplit_spec intOrderLaws items idx coord p (fun _ _ => trivial) hi
  obtain ⟨l', r', e', hperm', hl', hr', _⟩ :=
    reorderSplit_spec intOrderLaws items' idx' coord p' (fun _ _ => trivial) hi'
  rw [← hk] at hl' hr'
  obtain ⟨a1, a2⟩ := perm_filter_of_sep (fun x => Coord.lt (x.key coord) (p.key coord)) hperm hl hr
  obtain ⟨b1, b2⟩ := perm_filter_of_sep (fun x => Coord.lt (x.key coord) (p.key coord)) hperm' hl' hr'
  exact ⟨l, r, l', r', e, e', hperm, a1.trans ((hp.filter _).trans b1.symm),
    a2.trans ((hp.filter _).trans b2.symm)⟩

/-- The relation between the results of the cut search on two arrangements. -/
def SplitRel (items : List (Rcb.Item Int)) : Res (SplitOut Int) → Res (SplitOut Int) → Prop
  | .ok o, .ok o' => (o.left ++ o.right).Perm items ∧ o.left.Perm o'.left ∧ o.right.Perm o'.right ∧
      o.weightLeft = o'.weightLeft ∧ o.splitPos = o'.splitPos ∧ o.exit = o'.exit ∧
      o.lastMin = o'.lastMin ∧ o.lastMax = o'.lastMax ∧ o.maxMoved = o'.maxMoved ∧ o.iters = o'.iters
  | .fuel, .fuel => True
  | _, _ => False

/-- **The cut search does not depend on the arrangement of the items nor on the split
trees**: same exit after the same number of iterations (or both out of fuel), same
`weight_left` and split position, the same items on the left and on the right; never an
out-of-range access. -/
theorem splitT_perm (hexact : DistExact) (trees trees' : Nat → SplitTree) (wt : Int → Int → Bool)
    (coord : Nat) (sum : Int) {items items' : List (Rcb.Item Int)} (hp : items.Perm items') :
    ∀ (fuel it : Nat) (mn mx : Int) (prev : Option Nat) (mv : Bool),
      SplitRel items (splitT trees wt coord sum items fuel it mn mx prev mv)
        (splitT trees' wt coord sum items' fuel it mn mx prev mv) := by
  intro fuel
  induction fuel with
  | zero => intro it mn mx prev mv; simp [splitT, SplitRel]
  | succ fuel ih =>
    intro it mn mx prev mv
    simp only [splitT]
    have hs := scanT_spec (trees it) items coord (Coord.mid mn mx)
    have hs' := scanT_spec (trees' it) items' coord (Coord.mid mn mx)
    generalize scanT (trees it) items coord (Coord.mid mn mx) = s at hs ⊢
    generalize scanT (trees' it) items' coord (Coord.mid mn mx) = s' at hs' ⊢
    obtain ⟨hc, hw, hn, hd⟩ := scanSpec_perm hp hs hs'
    obtain ⟨c, w, n⟩ := s
    obtain ⟨c', w', n'⟩ := s'
    simp only at hc hw hn hd
    subst hc hw
    cases n with
    | none =>
      have : n' = none := hn.1 rfl
      subst this
      simp only
      split
      · simp only [SplitRel, List.append_nil, and_true]
        exact ⟨List.Perm.refl _, hp, List.Perm.refl _⟩
      · exact ih _ _ _ _ _
    | some q =>
      obtain ⟨idx, nd⟩ := q
      cases n' with
      | none => have := hn.2 rfl; cases this
      | some q' =>
        obtain ⟨idx', nd'⟩ := q'
        have hnd : nd = nd' := hd idx nd idx' nd' rfl rfl
        subst hnd
        simp only
        split
        · next e he =>
          obtain ⟨p, hpi, hpd, _⟩ := hs.attained idx nd rfl
          obtain ⟨p', hpi', hpd', _⟩ := hs'.attained idx' nd rfl
          have hk : p.key coord = p'.key coord := hexact _ _ _ (hpd.trans hpd'.symm)
          obtain ⟨l, r, l', r', e1, e2, h1, h2, h3⟩ :=
            reorderSplit_perm hp coord idx idx' p p' hpi hpi' hk
          simp only [he, e1, e2, SplitRel, and_true]
          exact ⟨h1, h2, h3⟩
        · next he =>
          simp only [he]
          split
          · exact ih _ _ _ _ _
          · exact ih _ _ _ _ _

/-! ## The recursion -/

/-- The relation between the recursion trees of two arrangements: the same set of
stores `(cell, part id)`, and the cells are the items' cells. -/
def TreeRel {ι : Type} (ids : List Nat) : Res (Tree ι) → Res (Tree ι) → Prop
  | .ok t, .ok t' => t.assign.Perm t'.assign ∧ t.members.Perm ids
  | .fuel, .fuel => True
  | _, _ => False

theorem recurseT_perm (hexact : DistExact) (wt : Int → Int → Bool) (cfg : Cfg)
    (trees trees' : Nat → Nat → SplitTree) :
    ∀ (k : Nat) (items items' : List (Rcb.Item Int)) (iterId coord : Nat) (sum : Int) (lo hi : List Int),
      items.Perm items' →
      TreeRel (items.map (·.id)) (recurseT wt cfg trees k items iterId coord sum lo hi)
        (recurseT wt cfg trees' k items' iterId coord sum lo hi) := by
  intro k
  induction k with
  | zero =>
    intro items items' iterId coord sum lo hi hp
    cases items with
    | nil =>
      have : items' = [] := hp.nil_eq.symm
      subst this
      simp [recurseT, TreeRel, Tree.assign, Tree.members]
    | cons x xs =>
      cases items' with
      | nil => exact absurd hp.eq_nil (by simp)
      | cons x' xs' =>
        simp only [recurseT, TreeRel, Tree.assign, Tree.members]
        exact ⟨(hp.map _).map _, List.Perm.refl _⟩
  | succ k ih =>
    intro items items' iterId coord sum lo hi hp
    cases items with
    | nil =>
      have : items' = [] := hp.nil_eq.symm
      subst this
      simp [recurseT, TreeRel, Tree.assign, Tree.members]
    | cons x xs =>
      cases items' with
      | nil => exact absurd hp.eq_nil (by simp)
      | cons x' xs' =>
        simp only [recurseT]
        have hsp := splitT_perm hexact (trees iterId) (trees' iterId) wt coord sum hp cfg.fuel 0
          (lo.getD coord Coord.zero) (hi.getD coord Coord.zero) none false
        generalize splitT (trees iterId) wt coord sum (x :: xs) cfg.fuel 0
          (lo.getD coord Coord.zero) (hi.getD coord Coord.zero) none false = r at hsp ⊢
        generalize splitT (trees' iterId) wt coord sum (x' :: xs') cfg.fuel 0
          (lo.getD coord Coord.zero) (hi.getD coord Coord.zero) none false = r' at hsp ⊢
        cases r with
        | oob => cases r' <;> simp [SplitRel] at hsp
        | fuel => cases r' <;> simp [SplitRel] at hsp; simp [TreeRel]
        | ok o =>
          cases r' with
          | oob => simp [SplitRel] at hsp
          | fuel => simp [SplitRel] at hsp
          | ok o' =>
            obtain ⟨hall, hl, hr, hw, hpos, _⟩ := hsp
            simp only
            rw [← hw, ← hpos]
            have ihl := ih o.left o'.left (2 * iterId + 1) ((coord + 1) % cfg.dim) o.weightLeft lo
              (hi.set coord o.splitPos) hl
            have ihr := ih o.right o'.right (2 * iterId + 2) ((coord + 1) % cfg.dim)
              (sum - o.weightLeft) (lo.set coord o.splitPos) hi hr
            generalize recurseT wt cfg trees k o.left (2 * iterId + 1) ((coord + 1) % cfg.dim)
              o.weightLeft lo (hi.set coord o.splitPos) = a at ihl ⊢
            generalize recurseT wt cfg trees' k o'.left (2 * iterId + 1) ((coord + 1) % cfg.dim)
              o.weightLeft lo (hi.set coord o.splitPos) = a' at ihl ⊢
            cases a with
            | oob => cases a' <;> simp [TreeRel] at ihl
            | fuel => cases a' <;> simp [TreeRel] at ihl; simp [TreeRel]
            | ok tl =>
              cases a' with
              | oob => simp [TreeRel] at ihl
              | fuel => simp [TreeRel] at ihl
              | ok tl' =>
                simp only
                generalize recurseT wt cfg trees k o.right (2 * iterId + 2) ((coord + 1) % cfg.dim)
                  (sum - o.weightLeft) (lo.set coord o.splitPos) hi = b at ihr ⊢
                generalize recurseT wt cfg trees' k o'.right (2 * iterId + 2) ((coord + 1) % cfg.dim)
                  (sum - o.weightLeft) (lo.set coord o.splitPos) hi = b' at ihr ⊢
                cases b with
                | oob => cases b' <;> simp [TreeRel] at ihr
                | fuel => cases b' <;> simp [TreeRel] at ihr; simp [TreeRel]
                | ok tr =>
                  cases b' with
                  | oob => simp [TreeRel] at ihr
                  | fuel => simp [TreeRel] at ihr
                  | ok tr' =>
                    simp only [TreeRel, Tree.assign, Tree.members] at ihl ihr ⊢
                    refine ⟨ihl.1.append ihr.1, ?_⟩
                    have := ihl.2.append ihr.2
                    rw [← List.map_append] at this
                    exact this.trans (hall.map _)

/-! ## Stores of the leaves -/

theorem scatter_get_notin (n : Nat) (assign : List (Nat × Nat)) (i : Nat)
    (h : i ∉ assign.map (·.1)) : (scatter n assign)[i]? = (List.replicate n 0)[i]? := by
  simp only [scatter, Array.getElem?_toList]
  rw [scatterFold_notin assign i _ h]
  simp [List.getElem?_replicate, Array.getElem?_replicate]

/-- Stores to distinct cells in any order leave the same array (`disjointWrites_comm` for
the model's `scatter`). -/
theorem scatter_perm (n : Nat) {a a' : List (Nat × Nat)} (hp : a.Perm a')
    (hnd : (a.map (·.1)).Nodup) : scatter n a = scatter n a' := by
  have hnd' : (a'.map (·.1)).Nodup := (hp.map _).nodup_iff.1 hnd
  apply List.ext_getElem?
  intro i
  by_cases hi : i < n
  · by_cases hm : i ∈ a.map (·.1)
    · obtain ⟨⟨i', p⟩, hmem, rfl⟩ := List.mem_map.1 hm
      rw [scatter_get n a i' p hnd hmem hi, scatter_get n a' i' p hnd' (hp.mem_iff.1 hmem) hi]
    · have hm' : i ∉ a'.map (·.1) := fun h => hm ((hp.map _).mem_iff.2 h)
      rw [scatter_get_notin n a i hm, scatter_get_notin n a' i hm']
  · rw [List.getElem?_eq_none (by rw [scatter_length]; omega),
      List.getElem?_eq_none (by rw [scatter_length]; omega)]

/-- What the caller sees of a recursion result under a store order. -/
def idsRes {ι : Type} (stores : List (Nat × Nat) → List (Nat × Nat)) (n : Nat) :
    Res (Tree ι) → Outcome
  | .oob => .oob
  | .fuel => .fuel
  | .ok t => .ok (idsOfTreeS stores n t)

theorem idsRes_of_rel {ι : Type} (st st' : List (Nat × Nat) → List (Nat × Nat))
    (hst : ∀ ws : List (Nat × Nat), ws.Perm (st ws)) (hst' : ∀ ws : List (Nat × Nat), ws.Perm (st' ws))
    (n : Nat) (ids : List Nat) (hnd : ids.Nodup) (r r' : Res (Tree ι)) (h : TreeRel ids r r') :
    idsRes st n r = idsRes st' n r' := by
  cases r with
  | oob => cases r' <;> simp [TreeRel] at h
  | fuel => cases r' <;> simp [TreeRel] at h; rfl
  | ok t =>
    cases r' with
    | oob => simp [TreeRel] at h
    | fuel => simp [TreeRel] at h
    | ok t' =>
      obtain ⟨h1, h2⟩ := h
      have hn : ((st t.assign).map (·.1)).Nodup := by
        rw [← ((hst t.assign).map _).nodup_iff, assign_map_fst]
        exact h2.nodup_iff.2 hnd
      have : scatter n (st t.assign) = scatter n (st' t'.assign) :=
        scatter_perm n ((hst _).symm.trans (h1.trans (hst' _))) hn
      simp only [idsRes, idsOfTreeS, this]

/-! ## The sequential schedule is the model -/

theorem splitT_leaf (wt : Int → Int → Bool) (coord : Nat) (sum : Int) (items : List (Rcb.Item Int)) :
    ∀ (fuel it : Nat) (mn mx : Int) (prev : Option Nat) (mv : Bool),
      splitT (fun _ => .leaf) wt coord sum items fuel it mn mx prev mv =
        split wt coord sum items fuel it mn mx prev mv := by
  intro fuel
  induction fuel with
  | zero => intro it mn mx prev mv; rfl
  | succ fuel ih =>
    intro it mn mx prev mv
    simp only [splitT, split, scanT_leaf, ih]
    generalize scan items coord (Coord.mid mn mx) = s
    obtain ⟨c, w, n⟩ := s
    cases n with
    | none => rfl
    | some q =>
      obtain ⟨idx, nd⟩ := q
      simp only
      split
      · next e he =>
        simp only [he]
        cases reorderSplit items idx coord with
        | oob => rfl
        | fuel => rfl
        | ok lr => rfl
      · next he => simp only [he]

theorem recurseT_leaf (wt : Int → Int → Bool) (cfg : Cfg) :
    ∀ (k : Nat) (items : List (Rcb.Item Int)) (iterId coord : Nat) (sum : Int) (lo hi : List Int),
      recurseT wt cfg (fun _ _ => .leaf) k items iterId coord sum lo hi =
        recurse wt cfg k items iterId coord sum lo hi := by
  intro k
  induction k with
  | zero =>
    intro items iterId coord sum lo hi
    cases items <;> simp [recurseT, recurse]
  | succ k ih =>
    intro items iterId coord sum lo hi
    cases items with
    | nil => simp [recurseT, recurse]
    | cons x xs =>
      simp only [recurseT, recurse, splitT_leaf, ih]
      cases split wt coord sum (x :: xs) cfg.fuel 0 (lo.getD coord Coord.zero)
          (hi.getD coord Coord.zero) none false with
      | oob => rfl
      | fuel => rfl
      | ok r =>
        simp only
        cases recurse wt cfg k r.left (2 * iterId + 1) ((coord + 1) % cfg.dim) r.weightLeft lo
            (hi.set coord r.splitPos) with
        | oob => rfl
        | fuel => rfl
        | ok tl =>
          simp only
          cases recurse wt cfg k r.right (2 * iterId + 2) ((coord + 1) % cfg.dim)
              (sum - r.weightLeft) (lo.set coord r.splitPos) hi with
          | oob => rfl
          | fuel => rfl
          | ok tr => rfl

/-! ## `rcb` -/

theorem runBB_eq_idsRes (wt : Int → Int → Bool) (cfg : Cfg) (iter : Nat) (pts : List (List Int))
    (ws : List Int) (plen : Nat) (lo hi : List Int) :
    runBB wt cfg iter pts ws plen lo hi =
      if ws.length ≠ plen then .lenMismatch
      else if pts.length ≠ plen then .lenMismatch
      else if pts.isEmpty then .ok []
      else idsRes id plen (recurse wt cfg iter (mkItems pts ws) 0 0 ws.sum lo hi) := by
  unfold runBB runTree
  split
  · rfl
  split
  · rfl
  split
  · rfl
  cases recurse wt cfg iter (mkItems pts ws) 0 0 ws.sum lo hi <;> rfl

theorem runBBT_eq_idsRes (s : RcbSched) (wt : Int → Int → Bool) (cfg : Cfg) (iter : Nat)
    (pts : List (List Int)) (ws : List Int) (plen : Nat) (lo hi : List Int) :
    runBBT s wt cfg iter pts ws plen lo hi =
      if ws.length ≠ plen then .lenMismatch
      else if pts.length ≠ plen then .lenMismatch
      else if pts.isEmpty then .ok []
      else idsRes s.stores plen (recurseT wt cfg s.split iter (mkItems pts ws) 0 0 ws.sum lo hi) := by
  unfold runBBT
  rw [parSum_schedule_free]
  split
  · rfl
  split
  · rfl
  split
  · rfl
  cases recurseT wt cfg s.split iter (mkItems pts ws) 0 0 ws.sum lo hi <;> rfl

/-- Two schedules of `rcb` (given bounding box) produce the same outcome. -/
theorem runBBT_schedule_free (hexact : DistExact) (s s' : RcbSched) (hs : s.Valid) (hs' : s'.Valid)
    (wt : Int → Int → Bool) (cfg : Cfg) (iter : Nat) (pts : List (List Int)) (ws : List Int)
    (plen : Nat) (lo hi : List Int) :
    runBBT s wt cfg iter pts ws plen lo hi = runBBT s' wt cfg iter pts ws plen lo hi := by
  rw [runBBT_eq_idsRes, runBBT_eq_idsRes]
  split
  · rfl
  next hw =>
  split
  · rfl
  next hpl =>
  split
  · rfl
  have hw : ws.length = plen := Classical.byContradiction hw
  have hpl : pts.length = plen := Classical.byContradiction hpl
  refine idsRes_of_rel s.stores s'.stores hs hs' plen ((mkItems pts ws).map (·.id)) ?_ _ _
    (recurseT_perm hexact wt cfg s.split s'.split iter _ _ 0 0 ws.sum lo hi (List.Perm.refl _))
  rw [mkItems_ids pts ws (by omega)]
  exact List.nodup_range

theorem runBBT_seq (wt : Int → Int → Bool) (cfg : Cfg) (iter : Nat) (pts : List (List Int))
    (ws : List Int) (plen : Nat) (lo hi : List Int) :
    runBBT RcbSched.seq wt cfg iter pts ws plen lo hi = runBB wt cfg iter pts ws plen lo hi := by
  rw [runBBT_eq_idsRes, runBB_eq_idsRes]
  simp only [RcbSched.seq, recurseT_leaf]

/-! ## The bounding box -/

theorem foldl_bbStep_eq (xs : List Int) (m : Int × Int) :
    xs.foldl (fun (m : Int × Int) v =>
      (if Coord.lt v m.1 then v else m.1, if Coord.lt m.2 v then v else m.2)) m = xs.foldl bbStep m := by
  congr 1
  funext m v
  simp [bbStep, Coord.lt]

/-- With sentinels that bound the data, the parallel bounding box is the model's. -/
theorem bboxT_eq (trees : Nat → SplitTree) (fmax fmin : Int) (dim : Nat) (pts : List (List Int))
    (hne : pts ≠ [])
    (hb : ∀ p ∈ pts, ∀ c, c < dim → fmin ≤ p.getD c 0 ∧ p.getD c 0 ≤ fmax) :
    bboxT trees fmax fmin dim pts = bbox dim pts := by
  unfold bboxT bbox
  have : ∀ c ∈ List.range dim,
      (parBBox fmax fmin (trees c) (pts.map (fun p => p.getD c 0))).getD (0, 0) =
      (minMax (pts.map (fun p => p.getD c (Coord.zero : Int)))).getD (Coord.zero, Coord.zero) := by
    intro c hc
    have hc := List.mem_range.1 hc
    rw [parBBox_schedule_free]
    cases pts with
    | nil => exact absurd rfl hne
    | cons p ps =>
      obtain ⟨h1, h2⟩ := hb p (by simp) c hc
      simp only [List.map_cons, minMax, Option.getD_some, List.foldl_cons, Coord.zero]
      rw [foldl_bbStep_eq]
      congr 1
      simp only [bbStep, Prod.mk.injEq]
      constructor <;> split <;> omega
  simp only [List.map_congr_left this]

theorem runBBT_empty (s : RcbSched) (wt : Int → Int → Bool) (cfg : Cfg) (iter : Nat)
    (ws : List Int) (plen : Nat) (lo hi lo' hi' : List Int) :
    runBBT s wt cfg iter [] ws plen lo hi = runBBT s wt cfg iter [] ws plen lo' hi' := by
  unfold runBBT
  split
  · rfl
  split
  · rfl
  simp

end Coupe.ParAlgos
