import CoupeModel.Model.Par
import CoupeModel.Model.Rcb
import CoupeModel.Proofs.Par
import CoupeModel.Proofs.Rcb
import CoupeModel.Props.C03

/-!
# Schedule independence of whole algorithms (C06, second layer)

`Props/C06.lean` proves that every parallel *skeleton* is schedule free.  Here the
skeletons are plugged into the algorithm models and the algorithms' OUTPUT is
shown not to depend on the schedule.

## Rcb

`Model/Rcb.lean` evaluates the fold of `par_rcb_split` as one sequential chunk
(`scan`).  `scanT` evaluates the same 4-tuple reduction along an arbitrary
`SplitTree` (`Par.parNearest`: `fold(..).reduce(..)` with the closures of the
code); `splitT`/`recurseT`/`runT` are `split`/`recurse`/`run` with `scanT` in
place of `scan`, the tree being chosen per bisection node and per iteration of
the cut search by an arbitrary function.  Everything is over the exact instance
`Coord Int`.
-/

namespace Coupe.ParAlgos

open Coupe.Rcb Coupe.Par

/-! ## The fold of `par_rcb_split` along a split tree -/

/-- The items of `points.par_iter().zip(weights).enumerate()` at one bisection:
position, coordinate on the split axis, weight (`Par.items`). -/
def parItems (items : List (Rcb.Item Int)) (coord : Nat) : List Par.Item :=
  Par.items (items.map (·.key coord)) (items.map (·.w))

/-- The model's `Scan` from the tuple of the reduction: `(None, _)` and
`(_, INFINITY)` both mean "no candidate". -/
def toScan (a : Par.Acc) : Scan Int :=
  ⟨a.count, a.weight,
    match a.idx, a.dist with
    | some i, .fin d => some (i, d)
    | _, _ => none⟩

/-- `par_rcb_split`'s `fold(..).reduce(..)` evaluated along the split tree `tr`. -/
def scanT (tr : SplitTree) (items : List (Rcb.Item Int)) (coord : Nat) (t : Int) : Scan Int :=
  toScan (parNearest t tr (parItems items coord))

/-- `recursive_bisection.rs: par_rcb_split` where iteration number `it` of the
cut search evaluates its reduction along the tree `trees it`.  Apart from
`scanT` this is `Rcb.split` verbatim. -/
def splitT (trees : Nat → SplitTree) (withinTol : Int → Int → Bool) (coord : Nat) (sum : Int)
    (items : List (Rcb.Item Int)) :
    Nat → Nat → Int → Int → Option Nat → Bool → Res (SplitOut Int)
  | 0, _, _, _, _, _ => .fuel
  | fuel + 1, it, min, max, prev, moved =>
    let t := Coord.half (Coord.add min max)
    let s := scanT (trees it) items coord t
    match s.nearest with
    | none =>
      if prev = some s.count then
        .ok ⟨items, [], sum, max, .allLeft, min, max, moved, it + 1⟩
      else splitT trees withinTol coord sum items fuel (it + 1) min t (some s.count) true
    | some (idx, nd) =>
      let exit? : Option Exit :=
        if prev = some s.count then some .plateau
        else if Coord.le max (Coord.add t nd) then some .noPointToMax
        else if withinTol s.wl sum then some .tolerance
        else none
      match exit? with
      | some e =>
        match reorderSplit items idx coord with
        | .oob => .oob
        | .fuel => .fuel
        | .ok (l, r) => .ok ⟨l, r, s.wl, t, e, min, max, moved, it + 1⟩
      | none =>
        if s.wl < sum - s.wl then
          splitT trees withinTol coord sum items fuel (it + 1) t max (some s.count) moved
        else splitT trees withinTol coord sum items fuel (it + 1) min t (some s.count) true

/-- `recursive_bisection.rs: rcb_recurse` where the cut search of the bisection
numbered `iterId` uses the trees `trees iterId 0, trees iterId 1, …` (node numbers
are unique in the recursion: `2·id+1`, `2·id+2`).  Apart from `splitT` this is
`Rcb.recurse` verbatim. -/
def recurseT (withinTol : Int → Int → Bool) (cfg : Cfg) (trees : Nat → Nat → SplitTree) :
    Nat → List (Rcb.Item Int) → Nat → Nat → Int → List Int → List Int → Res (Tree (NodeInfo Int))
  | _, [], _, _, _, _, _ => .ok .empty
  | 0, items, iterId, _, _, _, _ => .ok (.leaf iterId (items.map (·.id)))
  | k + 1, items, iterId, coord, sum, lo, hi =>
    let min := lo.getD coord Coord.zero
    let max := hi.getD coord Coord.zero
    match splitT (trees iterId) withinTol coord sum items cfg.fuel 0 min max none false with
    | .oob => .oob
    | .fuel => .fuel
    | .ok r =>
      match recurseT withinTol cfg trees k r.left (2 * iterId + 1) ((coord + 1) % cfg.dim)
              r.weightLeft lo (hi.set coord r.splitPos) with
      | .oob => .oob
      | .fuel => .fuel
      | .ok tl =>
        match recurseT withinTol cfg trees k r.right (2 * iterId + 2) ((coord + 1) % cfg.dim)
                (sum - r.weightLeft) (lo.set coord r.splitPos) hi with
        | .oob => .oob
        | .fuel => .fuel
        | .ok tr => .ok (.node ⟨coord, sum, min, max, r.weightLeft, r.splitPos, r.exit, r.iters⟩ tl tr)

/-- Everything rayon decides during one call of `rcb`. -/
structure RcbSched where
  /-- `weights.par_iter().cloned().sum()` -/
  sumTree : SplitTree
  /-- bisection node, iteration of its cut search ↦ split tree of the fold -/
  split : Nat → Nat → SplitTree
  /-- the order in which the leaves' `part.store(iter_id)` take effect
  (`rayon::join` of the two recursive calls, `par_iter_mut().for_each` inside a leaf) -/
  stores : List (Nat × Nat) → List (Nat × Nat)

/-- A schedule only reorders the stores. -/
def RcbSched.Valid (s : RcbSched) : Prop := ∀ ws : List (Nat × Nat), (s.stores ws).Perm ws

/-- The sequential schedule (what `Model/Rcb.lean` evaluates). -/
def RcbSched.seq : RcbSched := ⟨.leaf, fun _ _ => .leaf, id⟩

/-- `Rcb.idsOfTree` with the stores performed in the schedule's order. -/
def idsOfTreeS {ι : Type} (stores : List (Nat × Nat) → List (Nat × Nat)) (n : Nat) (t : Tree ι) :
    List Nat :=
  let ids := scatter n (stores t.assign)
  let off := minNat ids
  ids.map (· - off)

/-- `Rcb.runBB` under the schedule `s`. -/
def runBBT (s : RcbSched) (withinTol : Int → Int → Bool) (cfg : Cfg) (iter : Nat)
    (pts : List (List Int)) (ws : List Int) (plen : Nat) (lo hi : List Int) : Outcome :=
  if ws.length ≠ plen then .lenMismatch
  else if pts.length ≠ plen then .lenMismatch
  else if pts.isEmpty then .ok []
  else
    match recurseT withinTol cfg s.split iter (mkItems pts ws) 0 0 (parSum s.sumTree ws) lo hi with
    | .oob => .oob
    | .fuel => .fuel
    | .ok t => .ok (idsOfTreeS s.stores plen t)

/-- `Rcb.run` under the schedule `s`. -/
def runT (s : RcbSched) (withinTol : Int → Int → Bool) (cfg : Cfg) (iter : Nat)
    (pts : List (List Int)) (ws : List Int) (plen : Nat) : Outcome :=
  let bb := bbox cfg.dim pts
  runBBT s withinTol cfg iter pts ws plen bb.1 bb.2

/-- `Rcb.runRib` under the schedule `s` (the frame `rotate` is a parameter, as in the model). -/
def runRibT {β : Type} (s : RcbSched) (rotate : β → List Int) (withinTol : Int → Int → Bool)
    (cfg : Cfg) (iter : Nat) (pts : List β) (ws : List Int) (plen : Nat) : Outcome :=
  runT s withinTol cfg iter (pts.map rotate) ws plen

/-! ## `parItems` -/

theorem parItems_eq (items : List (Rcb.Item Int)) (coord : Nat) :
    parItems items coord =
      items.zipIdx.map (fun x => (⟨x.2, x.1.key coord, x.1.w⟩ : Par.Item)) := by
  simp only [parItems, Par.items, List.zip_map', List.zipIdx_map, List.map_map]
  rfl

theorem mem_parItems (items : List (Rcb.Item Int)) (coord : Nat) (x : Par.Item) :
    x ∈ parItems items coord ↔
      ∃ y, items[x.idx]? = some y ∧ x.coord = y.key coord ∧ x.weight = y.w := by
  rw [parItems_eq]
  simp only [List.mem_map, Prod.exists, List.mem_zipIdx_iff_getElem?]
  constructor
  · rintro ⟨y, i, hy, rfl⟩
    exact ⟨y, hy, rfl, rfl⟩
  · rintro ⟨y, hy, h1, h2⟩
    refine ⟨y, x.idx, hy, ?_⟩
    cases x
    simp_all

theorem filter_parItems_len (coord : Nat) (t : Int) : ∀ (items : List (Rcb.Item Int)) (k : Nat),
    (((items.zipIdx k).map (fun x => (⟨x.2, x.1.key coord, x.1.w⟩ : Par.Item))).filter
        (fun x => decide (x.coord - t < 0))).length
      = (items.filter (fun y => decide (y.key coord < t))).length := by
  intro items
  induction items with
  | nil => intro k; rfl
  | cons y ys ih =>
    intro k
    simp only [List.zipIdx_cons, List.map_cons, List.filter_cons]
    by_cases h : y.key coord < t
    · have h' : y.key coord - t < 0 := by omega
      simp [h, h', ih]
    · have h' : ¬ y.key coord - t < 0 := by omega
      simp [h, h', ih]

theorem filter_parItems_sum (coord : Nat) (t : Int) : ∀ (items : List (Rcb.Item Int)) (k : Nat),
    ((((items.zipIdx k).map (fun x => (⟨x.2, x.1.key coord, x.1.w⟩ : Par.Item))).filter
        (fun x => decide (x.coord - t < 0))).map (·.weight)).sum
      = ((items.filter (fun y => decide (y.key coord < t))).map (·.w)).sum := by
  intro items
  induction items with
  | nil => intro k; rfl
  | cons y ys ih =>
    intro k
    simp only [List.zipIdx_cons, List.map_cons, List.filter_cons]
    by_cases h : y.key coord < t
    · have h' : y.key coord - t < 0 := by omega
      simp [h, h', ih]
    · have h' : ¬ y.key coord - t < 0 := by omega
      simp [h, h', ih]

/-! ## What the reduction computes, whatever the tree -/

/-- Exactness of the distance: distinct coordinates have distinct distances to the
target.  True of the exact instance (`distExact_int`); FALSE for `f32`, where
`point - split_target` rounds and two different coordinates can be at the same
rounded distance – then the pivot VALUE (not only its index) can depend on the
split tree.  Every use below is explicit. -/
def DistExact : Prop := ∀ a b t : Int, (Coord.sub a t : Int) = Coord.sub b t → a = b

theorem distExact_int : DistExact := by
  intro a b t h
  simp only [Coord.sub] at h
  omega

/-- "`s` summarises `items` correctly for the target `t`": all the cut search
reads.  Stated on the items themselves – no index of evaluation order occurs. -/
structure ScanSpec (items : List (Rcb.Item Int)) (coord : Nat) (t : Int) (s : Scan Int) : Prop where
  count : s.count = (items.filter (fun y => decide (y.key coord < t))).length
  wl : s.wl = ((items.filter (fun y => decide (y.key coord < t))).map (·.w)).sum
  none_iff : s.nearest = none ↔ ∀ y ∈ items, y.key coord < t
  attained : ∀ i d, s.nearest = some (i, d) →
    ∃ p, items[i]? = some p ∧ Coord.sub (p.key coord) t = d ∧ t ≤ p.key coord
  lower : ∀ i d, s.nearest = some (i, d) → ∀ y ∈ items, t ≤ y.key coord → d ≤ y.key coord - t

theorem scanT_spec (tr : SplitTree) (items : List (Rcb.Item Int)) (coord : Nat) (t : Int) :
    ScanSpec items coord t (scanT tr items coord t) := by
  have h := parNearest_spec t tr (parItems items coord)
  unfold scanT
  generalize parNearest t tr (parItems items coord) = a at h
  obtain ⟨c, w, i, d⟩ := a
  obtain ⟨hc, hw, hinf, hlow, hnone, hsome⟩ := h
  simp only at hc hw hinf hlow hnone hsome
  have hall : (∀ x ∈ parItems items coord, x.coord - t < 0) ↔ ∀ y ∈ items, y.key coord < t := by
    constructor
    · intro h y hy
      obtain ⟨j, hj⟩ := List.mem_iff_getElem?.1 hy
      have := h ⟨j, y.key coord, y.w⟩ ((mem_parItems _ _ _).2 ⟨y, hj, rfl, rfl⟩)
      simp only at this
      omega
    · intro h x hx
      obtain ⟨y, hy, h1, _⟩ := (mem_parItems _ _ _).1 hx
      have := h y (List.mem_iff_getElem?.2 ⟨_, hy⟩)
      omega
  refine ⟨?_, ?_, ?_, ?_, ?_⟩
  · simp only [toScan, hc, parItems_eq]
    exact filter_parItems_len coord t items 0
  · simp only [toScan, hw, parItems_eq]
    exact filter_parItems_sum coord t items 0
  · rw [← hall, ← hinf]
    cases i with
    | none =>
      have := hnone.1 rfl
      simp [toScan, this]
    | some j =>
      cases d with
      | inf => have := hnone.2 rfl; cases this
      | fin e => simp [toScan]
  · intro j e hje
    cases i with
    | none => simp [toScan] at hje
    | some j' =>
      cases d with
      | inf => simp [toScan] at hje
      | fin e' =>
        simp only [toScan, Option.some.injEq, Prod.mk.injEq] at hje
        obtain ⟨rfl, rfl⟩ := hje
        obtain ⟨x, hx, hxi, hx0, hxd⟩ := hsome j' rfl
        obtain ⟨y, hy, h1, _⟩ := (mem_parItems _ _ _).1 hx
        simp only [Dist.fin.injEq] at hxd
        refine ⟨y, by rw [← hxi]; exact hy, ?_, by omega⟩
        simp only [Coord.sub]
        omega
  · intro j e hje y hy hty
    cases i with
    | none => simp [toScan] at hje
    | some j' =>
      cases d with
      | inf => simp [toScan] at hje
      | fin e' =>
        simp only [toScan, Option.some.injEq, Prod.mk.injEq] at hje
        obtain ⟨rfl, rfl⟩ := hje
        obtain ⟨k, hk⟩ := List.mem_iff_getElem?.1 hy
        have := hlow e' rfl ⟨k, y.key coord, y.w⟩ ((mem_parItems _ _ _).2 ⟨y, hk, rfl, rfl⟩)
          (by simp only; omega)
        simpa using this

/-! ## One leaf = the sequential fold of the model -/

/-- Accumulators reachable by the fold: a stored distance comes with an index. -/
def AccWF (a : Par.Acc) : Prop := a.idx = none → a.dist = .inf

theorem accWF_step (t : Int) (a : Par.Acc) (x : Par.Item) (h : AccWF a) :
    AccWF (nearestStep t a x) := by
  unfold nearestStep
  simp only
  split
  · exact h
  · split
    · intro h'; cases h'
    · exact h

theorem toScan_step (coord : Nat) (t : Int) (a : Par.Acc) (y : Rcb.Item Int) (k : Nat)
    (h : AccWF a) :
    toScan (nearestStep t a ⟨k, y.key coord, y.w⟩) = scanStep coord t (toScan a) (y, k) := by
  obtain ⟨c, w, i, d⟩ := a
  simp only [AccWF] at h
  unfold nearestStep scanStep
  simp only [Coord.sub, Coord.lt, Coord.zero, Coord.ltInf]
  by_cases hneg : y.key coord - t < 0
  · simp only [hneg, ↓reduceIte, decide_true, toScan]
  · simp only [hneg, ↓reduceIte, decide_false, Bool.false_eq_true]
    cases i with
    | none =>
      have := h rfl
      subst this
      simp [toScan, Dist.lt]
    | some j =>
      cases d with
      | inf => simp [toScan, Dist.lt]
      | fin e =>
        by_cases hlt : y.key coord - t < e
        · simp [toScan, Dist.lt, hlt]
        · simp [toScan, Dist.lt, hlt]

theorem toScan_foldl (coord : Nat) (t : Int) : ∀ (items : List (Rcb.Item Int)) (k : Nat) (a : Par.Acc),
    AccWF a →
    toScan (((items.zipIdx k).map (fun x => (⟨x.2, x.1.key coord, x.1.w⟩ : Par.Item))).foldl
        (nearestStep t) a)
      = (items.zipIdx k).foldl (scanStep coord t) (toScan a) := by
  intro items
  induction items with
  | nil => intro k a _; rfl
  | cons y ys ih =>
    intro k a h
    simp only [List.zipIdx_cons, List.map_cons, List.foldl_cons]
    rw [ih (k + 1) _ (accWF_step t a _ h), toScan_step coord t a y k h]

/-- With a single leaf (no split: fewer than `with_min_len(4096)` items, or one
thread) the reduction is the model's `scan`. -/
theorem scanT_leaf (items : List (Rcb.Item Int)) (coord : Nat) (t : Int) :
    scanT .leaf items coord t = scan items coord t := by
  unfold scanT parNearest
  simp only [parFoldR, nearestMerge_init_left]
  rw [parItems_eq, toScan_foldl coord t items 0 nearestInit (by intro _; rfl)]
  rfl

/-! ## Two arrangements of the same items -/

theorem perm_sum_int {l l' : List Int} (h : l.Perm l') : l.sum = l'.sum := by
  induction h with
  | nil => rfl
  | cons x _ ih => simp [ih]
  | swap x y l => simp only [List.sum_cons]; omega
  | trans _ _ ih1 ih2 => exact ih1.trans ih2

/-- Count, weight and "is there a candidate" are functions of the multiset; so is
the candidate's distance. -/
theorem scanSpec_perm {items items' : List (Rcb.Item Int)} {coord : Nat} {t : Int} {s s' : Scan Int}
    (hp : items.Perm items') (hs : ScanSpec items coord t s) (hs' : ScanSpec items' coord t s') :
    s.count = s'.count ∧ s.wl = s'.wl ∧ (s.nearest = none ↔ s'.nearest = none) ∧
      ∀ i d i' d', s.nearest = some (i, d) → s'.nearest = some (i', d') → d = d' := by
  refine ⟨?_, ?_, ?_, ?_⟩
  · rw [hs.count, hs'.count]
    exact (hp.filter _).length_eq
  · rw [hs.wl, hs'.wl]
    exact perm_sum_int ((hp.filter _).map _)
  · rw [hs.none_iff, hs'.none_iff]
    constructor
    · intro h y hy; exact h y (hp.mem_iff.2 hy)
    · intro h y hy; exact h y (hp.mem_iff.1 hy)
  · intro i d i' d' h h'
    obtain ⟨p, hpi, hpd, hpt⟩ := hs.attained i d h
    obtain ⟨p', hpi', hpd', hpt'⟩ := hs'.attained i' d' h'
    have hm : p ∈ items := List.mem_iff_getElem?.2 ⟨_, hpi⟩
    have hm' : p' ∈ items' := List.mem_iff_getElem?.2 ⟨_, hpi'⟩
    have h1 := hs.lower i d h p' (hp.mem_iff.2 hm') hpt'
    have h2 := hs'.lower i' d' h' p (hp.mem_iff.1 hm) hpt
    simp only [Coord.sub] at hpd hpd'
    omega

/-- A separated permutation is determined, as a pair of multisets, by the predicate. -/
theorem perm_filter_of_sep {α : Type} (p : α → Bool) {l r items : List α}
    (hperm : (l ++ r).Perm items) (hl : ∀ x ∈ l, p x = true) (hr : ∀ x ∈ r, p x = false) :
    l.Perm (items.filter p) ∧ r.Perm (items.filter (fun x => !p x)) := by
  have h1 := hperm.filter p
  have h2 := hperm.filter (fun x => !p x)
  rw [List.filter_append] at h1 h2
  have e1 : l.filter p = l := List.filter_eq_self.2 hl
  have e2 : r.filter p = [] := List.filter_eq_nil_iff.2 (fun x hx => by simp [hr x hx])
  have e3 : l.filter (fun x => !p x) = [] := List.filter_eq_nil_iff.2 (fun x hx => by simp [hl x hx])
  have e4 : r.filter (fun x => !p x) = r := List.filter_eq_self.2 (fun x hx => by simp [hr x hx])
  rw [e1, e2, List.append_nil] at h1
  rw [e3, e4, List.nil_append] at h2
  exact ⟨h1, h2⟩

/-- `reorder_split` around two pivots with the same coordinate, on two arrangements of
the same items: both succeed, the left halves hold the same items, so do the right
halves (the order inside a half may differ). -/
theorem reorderSplit_perm {items items' : List (Rcb.Item Int)} (hp : items.Perm items')
    (coord idx idx' : Nat) (p p' : Rcb.Item Int) (hi : items[idx]? = some p)
    (hi' : items'[idx']? = some p') (hk : p.key coord = p'.key coord) :
    ∃ l r l' r', reorderSplit items idx coord = .ok (l, r) ∧
      reorderSplit items' idx' coord = .ok (l', r') ∧
      (l ++ r).Perm items ∧ l.Perm l' ∧ r.Perm r' := by
  obtain ⟨l, r, e, hperm, hl, hr, _⟩ :=
    reorderSplit_spec intOrderLaws items idx coord p (fun _ _ => trivial) hi
  obtain ⟨l', r', e', hperm', hl', hr', _⟩ :=
    reorderSplit_spec intOrderLaws items' idx' coord p' (fun _ _ => trivial) hi'
  rw [← hk] at hl' hr'
  obtain ⟨a1, a2⟩ := perm_filter_of_sep (fun x => Coord.lt (x.key coord) (p.key coord)) hperm hl hr
  obtain ⟨b1, b2⟩ := perm_filter_of_sep (fun x => Coord.lt (x.key coord) (p.key coord)) hperm' hl' hr'
  exact ⟨l, r, l', r', e, e', hperm, a1.trans ((hp.filter _).trans b1.symm),
    a2.trans ((hp.filter _).trans b2.symm)⟩

/-- The relation between the results of the cut search on two arrangements. -/
def SplitRel (items : List (Rcb.Item Int)) : Res (SplitOut Int) → Res (SplitOut Int) → Prop
  | .ok o, .ok o' => (o.left ++ o.right).Perm items ∧ o.left.Perm o'.left ∧ o.right.Perm o'.right ∧
      o.weightLeft = o'.weightLeft ∧ o.splitPos = o'.splitPos ∧ o.exit = o'.exit ∧
      o.lastMin = o'.lastMin ∧ o.lastMax = o'.lastMax ∧ o.maxMoved = o'.maxMoved ∧ o.iters = o'.iters
  | .fuel, .fuel => True
  | _, _ => False

/-- **The cut search does not depend on the arrangement of the items nor on the split
trees**: same exit after the same number of iterations (or both out of fuel), same
`weight_left` and split position, the same items on the left and on the right; never an
out-of-range access. -/
theorem splitT_perm (hexact : DistExact) (trees trees' : Nat → SplitTree) (wt : Int → Int → Bool)
    (coord : Nat) (sum : Int) {items items' : List (Rcb.Item Int)} (hp : items.Perm items') :
    ∀ (fuel it : Nat) (mn mx : Int) (prev : Option Nat) (mv : Bool),
      SplitRel items (splitT trees wt coord sum items fuel it mn mx prev mv)
        (splitT trees' wt coord sum items' fuel it mn mx prev mv) := by
  intro fuel
  induction fuel with
  | zero => intro it mn mx prev mv; simp [splitT, SplitRel]
  | succ fuel ih =>
    intro it mn mx prev mv
    simp only [splitT]
    have hs := scanT_spec (trees it) items coord (Coord.half (Coord.add mn mx))
    have hs' := scanT_spec (trees' it) items' coord (Coord.half (Coord.add mn mx))
    generalize scanT (trees it) items coord (Coord.half (Coord.add mn mx)) = s at hs ⊢
    generalize scanT (trees' it) items' coord (Coord.half (Coord.add mn mx)) = s' at hs' ⊢
    obtain ⟨hc, hw, hn, hd⟩ := scanSpec_perm hp hs hs'
    obtain ⟨c, w, n⟩ := s
    obtain ⟨c', w', n'⟩ := s'
    simp only at hc hw hn hd
    subst hc hw
    cases n with
    | none =>
      have : n' = none := hn.1 rfl
      subst this
      simp only
      split
      · simp only [SplitRel, List.append_nil, and_self, and_true]
        exact ⟨List.Perm.refl _, hp, List.Perm.refl _⟩
      · exact ih _ _ _ _ _
    | some q =>
      obtain ⟨idx, nd⟩ := q
      cases n' with
      | none => have := hn.2 rfl; cases this
      | some q' =>
        obtain ⟨idx', nd'⟩ := q'
        have hnd : nd = nd' := hd idx nd idx' nd' rfl rfl
        subst hnd
        simp only
        split
        · next e he =>
          obtain ⟨p, hpi, hpd, _⟩ := hs.attained idx nd rfl
          obtain ⟨p', hpi', hpd', _⟩ := hs'.attained idx' nd rfl
          have hk : p.key coord = p'.key coord := hexact _ _ _ (hpd.trans hpd'.symm)
          obtain ⟨l, r, l', r', e1, e2, h1, h2, h3⟩ :=
            reorderSplit_perm hp coord idx idx' p p' hpi hpi' hk
          rw [e1, e2]
          simp only [SplitRel, and_self, and_true]
          exact ⟨h1, h2, h3⟩
        · split
          · exact ih _ _ _ _ _
          · exact ih _ _ _ _ _

end Coupe.ParAlgos
