import CoupeModel.Model.Rcb
import CoupeModel.Proofs.Rcb
import CoupeModel.Proofs.RcbTree

/-!
# Termination of the cut search for every *ranked* coordinate type (C03)

`split_terminates_int` (Proofs/RcbBalance.lean) is the exact-integer case.  Here the same
argument is made for any coordinate type whose values (in a set `S`) can be ranked by
integers so that the target `(min + max) / 2.0` never leaves the interval it was computed
from: `RankedCoord`.  The measure is `rank max − rank min`; a round that does not shrink it
recomputes the SAME target, so the fold returns the same `count_left` and the
`count_left == prev_count_left` exits fire.

`Int` is an instance (`intRanked`, proved).  **`f32` is an instance by IEEE-754 – this is
NOT proved here, it stays in the trusted base:**  take `S` = the finite values with
`|x| ≤ f32::MAX / 2` (so that `min + max` does not overflow) and `rank` = the position in
the ordered list of finite floats (`-0.0` and `0.0` share a position).  Then
* `lt_rank`: `a < b` implies `rank a < rank b` (the order of non-NaN floats);
* `mid_mem`, `mid_between`: round-to-nearest is monotone, `a + a` and `b + b` are exact, and
  halving is monotone and exact on them, so `a ≤ (a + b) / 2.0 ≤ b` for `a ≤ b` in `S`
  (gradual underflow included);
* `mid_fix_lo`, `mid_fix_hi`: if the target has the rank of an end point it IS that end
  point up to the sign of zero, and adding `±0.0` to a non-zero value, or two zeros, gives
  the same target again;
* there are finitely many floats, so `rank max − rank min < 2^32`.
-/

namespace Coupe.Rcb

variable {α : Type} [Coord α]

/-- The target of the cut search: `Coord.mid` (`a / 2.0 + b / 2.0` in the code since /repo
2a9cff7, `(a + b) / 2` – floor – on the integer instance). -/
abbrev mid (a b : α) : α := Coord.mid a b

/-- A coordinate type whose values in `S` are ranked by integers, compatibly with `<`, such
that the midpoint of an interval lies (by rank) inside it, and a midpoint that has the
rank of an end point is a fixed point of the next round. -/
structure RankedCoord (α : Type) [Coord α] where
  S : α → Prop
  rank : α → Int
  /-- `rank` is strictly monotone -/
  lt_rank : ∀ a b, S a → S b → Coord.lt a b = true → rank a < rank b
  mid_mem : ∀ a b, S a → S b → S (mid a b)
  mid_between : ∀ a b, S a → S b → rank a ≤ rank b →
    rank a ≤ rank (mid a b) ∧ rank (mid a b) ≤ rank b
  mid_fix_lo : ∀ a b, S a → S b → rank a ≤ rank b → rank (mid a b) = rank a →
    mid (mid a b) b = mid a b
  mid_fix_hi : ∀ a b, S a → S b → rank a ≤ rank b → rank (mid a b) = rank b →
    mid a (mid a b) = mid a b

/-- The integers are ranked by themselves (`/ 2.0` = floor division). -/
def intRanked : RankedCoord Int where
  S := fun _ => True
  rank := id
  lt_rank := by intro a b _ _ h; simpa [Coord.lt] using h
  mid_mem := fun _ _ _ _ => trivial
  mid_between := by
    intro a b _ _ h
    simp only [mid, Coord.mid, Coord.half, Coord.add, id] at *
    omega
  mid_fix_lo := by
    intro a b _ _ h1 h2
    simp only [mid, Coord.mid, Coord.half, Coord.add, id] at *
    omega
  mid_fix_hi := by
    intro a b _ _ h1 h2
    simp only [mid, Coord.mid, Coord.half, Coord.add, id] at *
    omega

/-- A target that repeats the previous one makes the search return at once (any
coordinate type; the order laws are those `reorder_split_scalar` needs). -/
theorem split_repeat_exits_gen {So : α → Prop} (laws : OrderLawsOn So) (wt : Int → Int → Bool)
    (coord : Nat) (sum : Int) (items : List (Item α)) (hS : ∀ x ∈ items, So (x.key coord))
    (fuel it : Nat) (mn mx : α) (mv : Bool) :
    split wt coord sum items (fuel + 1) it mn mx
      (some (scan items coord (mid mn mx)).count) mv ≠ .fuel := by
  intro h
  simp only [split] at h
  split at h
  · simp at h
  · next idx nd hn =>
    obtain ⟨l, r, e⟩ := reorderSplit_total laws hS (scan_idx_lt _ _ _ _ _ hn) (coord := coord)
    simp [e] at h

/-- `par_rcb_split` terminates on ranked coordinates: fuel `rank max − rank min + 2`. -/
theorem split_terminates_ranked_aux (R : RankedCoord α) {So : α → Prop} (laws : OrderLawsOn So)
    (wt : Int → Int → Bool) (coord : Nat) (sum : Int) (items : List (Item α))
    (hS : ∀ x ∈ items, So (x.key coord)) :
    ∀ (fuel it : Nat) (mn mx : α) (prev : Option Nat) (mv : Bool),
      R.S mn → R.S mx → R.rank mn ≤ R.rank mx → (R.rank mx - R.rank mn).toNat + 2 ≤ fuel →
      split wt coord sum items fuel it mn mx prev mv ≠ .fuel := by
  intro fuel
  induction fuel with
  | zero => intro it mn mx prev mv _ _ _ hf; omega
  | succ fuel ih =>
    intro it mn mx prev mv hmn hmx hle hf h
    have hrec : ∀ (mn' mx' : α) (mv' : Bool), R.S mn' → R.S mx' → R.rank mn' ≤ R.rank mx' →
        ((R.rank mx' - R.rank mn').toNat + 1 ≤ (R.rank mx - R.rank mn).toNat ∨
          mid mn' mx' = mid mn mx) →
        split wt coord sum items fuel (it + 1) mn' mx'
          (some (scan items coord (mid mn mx)).count) mv' ≠ .fuel := by
      intro mn' mx' mv' h1 h2 hle' hcase
      rcases hcase with hc | hc
      · exact ih _ _ _ _ _ h1 h2 hle' (by omega)
      · cases fuel with
        | zero => omega
        | succ f =>
          rw [← hc]
          exact split_repeat_exits_gen laws wt coord sum items hS f (it + 1) mn' mx' mv'
    have hb := R.mid_between mn mx hmn hmx hle
    have hm := R.mid_mem mn mx hmn hmx
    have goL : ∀ mv', split wt coord sum items fuel (it + 1) mn (mid mn mx)
        (some (scan items coord (mid mn mx)).count) mv' ≠ .fuel := by
      intro mv'
      refine hrec mn (mid mn mx) mv' hmn hm hb.1 ?_
      by_cases he : R.rank (mid mn mx) = R.rank mx
      · exact Or.inr (R.mid_fix_hi mn mx hmn hmx hle he)
      · left; omega
    have goR : ∀ mv', split wt coord sum items fuel (it + 1) (mid mn mx) mx
        (some (scan items coord (mid mn mx)).count) mv' ≠ .fuel := by
      intro mv'
      refine hrec (mid mn mx) mx mv' hm hmx hb.2 ?_
      by_cases he : R.rank (mid mn mx) = R.rank mn
      · exact Or.inr (R.mid_fix_lo mn mx hmn hmx hle he)
      · left; omega
    simp only [split] at h
    split at h
    · split at h
      · cases h
      · exact goL true h
    · next idx nd hn =>
      split at h
      · obtain ⟨l, r, e⟩ := reorderSplit_total laws hS (scan_idx_lt _ _ _ _ _ hn) (coord := coord)
        simp [e] at h
      · split at h
        · exact goR mv h
        · exact goL true h

/-- The interval of the search stays (by rank) inside the interval it started from. -/
theorem split_interval_rank (R : RankedCoord α) (wt : Int → Int → Bool) (coord : Nat) (sum : Int)
    (items : List (Item α)) :
    ∀ (fuel it : Nat) (mn mx : α) (prev : Option Nat) (mv : Bool) (out : SplitOut α),
      R.S mn → R.S mx → R.rank mn ≤ R.rank mx →
      split wt coord sum items fuel it mn mx prev mv = .ok out →
      R.S out.lastMin ∧ R.S out.lastMax ∧ R.rank mn ≤ R.rank out.lastMin ∧
        R.rank out.lastMin ≤ R.rank out.lastMax ∧ R.rank out.lastMax ≤ R.rank mx := by
  intro fuel
  induction fuel with
  | zero => intro it mn mx prev mv out _ _ _ h; simp [split] at h
  | succ fuel ih =>
    intro it mn mx prev mv out hmn hmx hle h
    have hb := R.mid_between mn mx hmn hmx hle
    have hm := R.mid_mem mn mx hmn hmx
    have goL : ∀ prev' mv', split wt coord sum items fuel (it + 1) mn (mid mn mx) prev' mv' = .ok out →
        R.S out.lastMin ∧ R.S out.lastMax ∧ R.rank mn ≤ R.rank out.lastMin ∧
          R.rank out.lastMin ≤ R.rank out.lastMax ∧ R.rank out.lastMax ≤ R.rank mx := by
      intro prev' mv' h'
      obtain ⟨h1, h2, h3, h4, h5⟩ := ih _ _ _ _ _ _ hmn hm hb.1 h'
      exact ⟨h1, h2, h3, h4, by omega⟩
    have goR : ∀ prev' mv', split wt coord sum items fuel (it + 1) (mid mn mx) mx prev' mv' = .ok out →
        R.S out.lastMin ∧ R.S out.lastMax ∧ R.rank mn ≤ R.rank out.lastMin ∧
          R.rank out.lastMin ≤ R.rank out.lastMax ∧ R.rank out.lastMax ≤ R.rank mx := by
      intro prev' mv' h'
      obtain ⟨h1, h2, h3, h4, h5⟩ := ih _ _ _ _ _ _ hm hmx hb.2 h'
      exact ⟨h1, h2, by omega, h4, h5⟩
    simp only [split] at h
    split at h
    · split at h
      · cases h
        exact ⟨hmn, hmx, Int.le_refl _, hle, Int.le_refl _⟩
      · exact goL _ _ h
    · next idx nd hn =>
      split at h
      · split at h
        · cases h
        · cases h
        · cases h
          exact ⟨hmn, hmx, Int.le_refl _, hle, Int.le_refl _⟩
      · split at h
        · exact goR _ _ h
        · exact goL _ _ h

/-- The reported `split_pos` lies (by rank) inside the interval the search started from. -/
theorem split_pos_rank (R : RankedCoord α) (wt : Int → Int → Bool) (coord : Nat) (sum : Int)
    (items : List (Item α)) (fuel : Nat) (mn mx : α) (out : SplitOut α)
    (hmn : R.S mn) (hmx : R.S mx) (hle : R.rank mn ≤ R.rank mx)
    (h : split wt coord sum items fuel 0 mn mx none false = .ok out) :
    R.S out.splitPos ∧ R.rank mn ≤ R.rank out.splitPos ∧ R.rank out.splitPos ≤ R.rank mx := by
  obtain ⟨h1, h2, h3, h4, h5⟩ := split_interval_rank R wt coord sum items fuel 0 mn mx none false out
    hmn hmx hle h
  rcases split_pos_aux wt coord sum items fuel 0 mn mx none false out h with ⟨_, e⟩ | ⟨_, e⟩
  · rw [e]; exact ⟨h2, by omega, h5⟩
  · rw [e]
    have hb : R.rank out.lastMin ≤ R.rank (Coord.mid out.lastMin out.lastMax) ∧
        R.rank (Coord.mid out.lastMin out.lastMax) ≤ R.rank out.lastMax :=
      R.mid_between _ _ h1 h2 h4
    exact ⟨R.mid_mem _ _ h1 h2, by omega, by omega⟩

/-! ## `rcb_recurse` and `rcb` never run out of fuel -/

/-- The box handed down has `dim` coordinates in `S`, ordered by rank, and narrow enough for
the fuel. -/
def RBox (R : RankedCoord α) (dim fuel : Nat) (lo hi : List α) : Prop :=
  lo.length = dim ∧ hi.length = dim ∧ ∀ c, c < dim →
    R.S (lo.getD c Coord.zero) ∧ R.S (hi.getD c Coord.zero) ∧
    R.rank (lo.getD c Coord.zero) ≤ R.rank (hi.getD c Coord.zero) ∧
    (R.rank (hi.getD c Coord.zero) - R.rank (lo.getD c Coord.zero)).toNat + 2 ≤ fuel

theorem recurse_not_fuel_ranked (R : RankedCoord α) {So : α → Prop} (laws : OrderLawsOn So)
    (wt : Int → Int → Bool) (cfg : Cfg) (hdim : 0 < cfg.dim) :
    ∀ (k : Nat) (items : List (Item α)) (iterId coord : Nat) (sum : Int) (lo hi : List α),
      (∀ x ∈ items, ∀ c, So (x.key c)) → coord < cfg.dim → RBox R cfg.dim cfg.fuel lo hi →
      recurse wt cfg k items iterId coord sum lo hi ≠ .fuel := by
  intro k
  induction k with
  | zero =>
    intro items iterId coord sum lo hi _ _ _ h
    cases items with
    | nil => simp [recurse] at h
    | cons x xs => simp [recurse] at h
  | succ k ih =>
    intro items iterId coord sum lo hi hS hc hbox h
    cases items with
    | nil => simp [recurse] at h
    | cons x xs =>
      obtain ⟨hlo, hhi, hb⟩ := hbox
      obtain ⟨b1, b2, b3, b4⟩ := hb coord hc
      have hc' : (coord + 1) % cfg.dim < cfg.dim := Nat.mod_lt _ hdim
      simp only [recurse] at h
      split at h
      · cases h
      · next hs =>
        exact split_terminates_ranked_aux R laws wt coord sum (x :: xs) (fun y hy => hS y hy coord)
          _ _ _ _ _ _ b1 b2 b3 b4 hs
      · next r hr =>
        obtain ⟨hperm, _⟩ := split_sep laws wt coord sum (x :: xs) (fun y hy => hS y hy coord)
          _ _ _ _ _ _ _ hr
        obtain ⟨p1, p2, p3⟩ := split_pos_rank R wt coord sum (x :: xs) cfg.fuel _ _ r b1 b2 b3 hr
        have hml : ∀ y ∈ r.left, y ∈ x :: xs := fun y hy =>
          hperm.mem_iff.1 (List.mem_append_left _ hy)
        have hmr : ∀ y ∈ r.right, y ∈ x :: xs := fun y hy =>
          hperm.mem_iff.1 (List.mem_append_right _ hy)
        have boxL : RBox R cfg.dim cfg.fuel lo (hi.set coord r.splitPos) := by
          refine ⟨hlo, by rw [List.length_set]; exact hhi, ?_⟩
          intro c hcd
          by_cases hcc : coord = c
          · subst hcc
            rw [getD_set_self _ _ _ _ (by omega)]
            exact ⟨b1, p1, p2, by omega⟩
          · rw [getD_set_ne _ _ _ _ _ hcc]; exact hb c hcd
        have boxR : RBox R cfg.dim cfg.fuel (lo.set coord r.splitPos) hi := by
          refine ⟨by rw [List.length_set]; exact hlo, hhi, ?_⟩
          intro c hcd
          by_cases hcc : coord = c
          · subst hcc
            rw [getD_set_self _ _ _ _ (by omega)]
            exact ⟨p1, b2, p3, by omega⟩
          · rw [getD_set_ne _ _ _ _ _ hcc]; exact hb c hcd
        split at h
        · cases h
        · next hl => exact ih _ _ _ _ _ _ (fun y hy => hS y (hml y hy)) hc' boxL hl
        · split at h
          · cases h
          · next hr' => exact ih _ _ _ _ _ _ (fun y hy => hS y (hmr y hy)) hc' boxR hr'
          · cases h

/-- The running minimum and maximum of `BoundingBox::from_points` are elements of the list,
ordered by rank. -/
theorem minMaxFold_rank (R : RankedCoord α) (xs : List α) : ∀ (m : α × α) (l : List α),
    (∀ v ∈ xs, v ∈ l) → (∀ v ∈ l, R.S v) → m.1 ∈ l → m.2 ∈ l → R.rank m.1 ≤ R.rank m.2 →
    let r := xs.foldl (fun (m : α × α) v =>
      (if Coord.lt v m.1 then v else m.1, if Coord.lt m.2 v then v else m.2)) m
    r.1 ∈ l ∧ r.2 ∈ l ∧ R.rank r.1 ≤ R.rank r.2 := by
  induction xs with
  | nil => intro m l _ _ h1 h2 h3; exact ⟨h1, h2, h3⟩
  | cons a as ih =>
    intro m l hsub hS h1 h2 h3
    simp only [List.foldl_cons]
    have ha : a ∈ l := hsub a List.mem_cons_self
    refine ih _ l (fun v hv => hsub v (List.mem_cons_of_mem _ hv)) hS ?_ ?_ ?_
    · simp only; split <;> assumption
    · simp only; split <;> assumption
    · simp only
      split
      · next hlt =>
        have := R.lt_rank _ _ (hS _ ha) (hS _ h1) hlt
        split
        · exact Int.le_refl _
        · omega
      · split
        · next hlt =>
          have := R.lt_rank _ _ (hS _ h2) (hS _ ha) hlt
          omega
        · exact h3

theorem minMax_rank (R : RankedCoord α) (l : List α) (hne : l ≠ []) (hS : ∀ v ∈ l, R.S v) :
    ((minMax l).getD (Coord.zero, Coord.zero)).1 ∈ l ∧
      ((minMax l).getD (Coord.zero, Coord.zero)).2 ∈ l ∧
      R.rank ((minMax l).getD (Coord.zero, Coord.zero)).1 ≤
        R.rank ((minMax l).getD (Coord.zero, Coord.zero)).2 := by
  cases l with
  | nil => exact absurd rfl hne
  | cons x xs =>
    simp only [minMax, Option.getD_some]
    exact minMaxFold_rank R xs (x, x) (x :: xs) (fun v hv => List.mem_cons_of_mem _ hv) hS
      List.mem_cons_self List.mem_cons_self (Int.le_refl _)

theorem bbox_getD_gen (dim : Nat) (pts : List (List α)) (c : Nat) (hc : c < dim) :
    (bbox dim pts).1.getD c Coord.zero =
        ((minMax (pts.map (fun p => p.getD c Coord.zero))).getD (Coord.zero, Coord.zero)).1 ∧
      (bbox dim pts).2.getD c Coord.zero =
        ((minMax (pts.map (fun p => p.getD c Coord.zero))).getD (Coord.zero, Coord.zero)).2 := by
  simp [bbox, List.getD_eq_getElem?_getD, List.getElem?_range hc]

theorem bbox_rbox (R : RankedCoord α) (dim fuel : Nat) (pts : List (List α)) (hne : pts ≠ [])
    (hS : ∀ p ∈ pts, ∀ c, R.S (p.getD c Coord.zero))
    (hfuel : ∀ p ∈ pts, ∀ q ∈ pts, ∀ c, c < dim →
      (R.rank (q.getD c Coord.zero) - R.rank (p.getD c Coord.zero)).toNat + 2 ≤ fuel) :
    RBox R dim fuel (bbox dim pts).1 (bbox dim pts).2 := by
  refine ⟨by simp [bbox], by simp [bbox], ?_⟩
  intro c hc
  rw [(bbox_getD_gen dim pts c hc).1, (bbox_getD_gen dim pts c hc).2]
  have hcolS : ∀ v ∈ pts.map (fun p => p.getD c Coord.zero), R.S v := by
    intro v hv
    obtain ⟨p, hp, rfl⟩ := List.mem_map.1 hv
    exact hS p hp c
  obtain ⟨h1, h2, h3⟩ := minMax_rank R (pts.map (fun p => p.getD c Coord.zero))
    (by simpa using hne) hcolS
  refine ⟨hcolS _ h1, hcolS _ h2, h3, ?_⟩
  obtain ⟨p, hp, e1⟩ := List.mem_map.1 h1
  obtain ⟨q, hq, e2⟩ := List.mem_map.1 h2
  rw [← e1, ← e2]
  exact hfuel p hp q hq c hc

/-- `rcb` is total on ranked coordinates: no out-of-range access and no search that
outlives its fuel, provided the fuel exceeds the rank width of the bounding box by two. -/
theorem run_total_ranked (R : RankedCoord α) (laws : OrderLawsOn R.S) (wt : Int → Int → Bool)
    (cfg : Cfg) (iter : Nat) (pts : List (List α)) (ws : List Int) (plen : Nat) (hdim : 0 < cfg.dim)
    (hS : ∀ p ∈ pts, ∀ c, R.S (p.getD c Coord.zero))
    (hfuel : ∀ p ∈ pts, ∀ q ∈ pts, ∀ c, c < cfg.dim →
      (R.rank (q.getD c Coord.zero) - R.rank (p.getD c Coord.zero)).toNat + 2 ≤ cfg.fuel) :
    run wt cfg iter pts ws plen = .lenMismatch ∨ ∃ ids, run wt cfg iter pts ws plen = .ok ids := by
  unfold run runBB
  simp only
  split
  · exact Or.inl rfl
  split
  · exact Or.inl rfl
  split
  · exact Or.inr ⟨_, rfl⟩
  next hne =>
  have hne' : pts ≠ [] := by simpa using hne
  have hSi : ∀ x ∈ mkItems pts ws, ∀ c, R.S (x.key c) := by
    intro x hx c
    have h1 := mkItems_key pts ws x hx
    exact hS x.c (List.mem_iff_getElem?.2 ⟨_, h1⟩) c
  split
  · next ht => exact absurd ht (recurse_no_oob laws wt cfg iter _ _ _ _ _ _ hSi)
  · next ht =>
    exact absurd ht (recurse_not_fuel_ranked R laws wt cfg hdim iter _ _ _ _ _ _ hSi hdim
      (bbox_rbox R cfg.dim cfg.fuel pts hne' hS hfuel))
  · exact Or.inr ⟨_, rfl⟩

end Coupe.Rcb
