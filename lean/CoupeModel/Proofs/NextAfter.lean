import CoupeModel.Model.NextAfter

/-!
# Lemmas about `Model/NextAfter.lean` (nextafter on bit patterns)

Everything is reduced to linear arithmetic on the patterns (`omega`): the boolean
comparisons are rewritten to their propositional content (`feq_iff`, …), `rank` to an
`if` on the sign bit (`rank_def`).  Core tactics only.
-/

namespace Coupe.NextAfter

/-! ## Propositional content of the predicates -/

theorem rank_def (b : Nat) :
    rank b = if 0x8000000000000000 ≤ b then -((b % 0x8000000000000000 : Nat) : Int)
             else ((b % 0x8000000000000000 : Nat) : Int) := by
  simp [rank, isNeg, mag]

theorem isNan_iff (b : Nat) : isNan b = true ↔ 0x7ff0000000000000 < b % 0x8000000000000000 := by
  unfold isNan mag; exact decide_eq_true_iff
theorem isNan_false_iff (b : Nat) : isNan b = false ↔ b % 0x8000000000000000 ≤ 0x7ff0000000000000 := by
  unfold isNan mag; rw [decide_eq_false_iff_not]; omega
theorem isNeg_iff (b : Nat) : isNeg b = true ↔ 0x8000000000000000 ≤ b := by
  unfold isNeg; exact decide_eq_true_iff
theorem isNeg_false_iff (b : Nat) : isNeg b = false ↔ b < 0x8000000000000000 := by
  unfold isNeg; rw [decide_eq_false_iff_not]; omega
theorem isZero_iff (b : Nat) : isZero b = true ↔ b % 0x8000000000000000 = 0 := by
  unfold isZero mag; exact decide_eq_true_iff
theorem isZero_false_iff (b : Nat) : isZero b = false ↔ b % 0x8000000000000000 ≠ 0 := by
  unfold isZero mag; rw [decide_eq_false_iff_not]
theorem isFinite_iff (b : Nat) : isFinite b = true ↔ b % 0x8000000000000000 < 0x7ff0000000000000 := by
  unfold isFinite mag; exact decide_eq_true_iff
theorem isInf_iff (b : Nat) : isInf b = true ↔ b % 0x8000000000000000 = 0x7ff0000000000000 := by
  unfold isInf mag; exact decide_eq_true_iff

theorem feq_iff (a b : Nat) : feq a b = true ↔ (isNan a = false ∧ isNan b = false ∧ rank a = rank b) := by
  simp [feq, and_assoc]
theorem flt_iff (a b : Nat) : flt a b = true ↔ (isNan a = false ∧ isNan b = false ∧ rank a < rank b) := by
  simp [flt, and_assoc]
theorem fle_iff (a b : Nat) : fle a b = true ↔ (isNan a = false ∧ isNan b = false ∧ rank a ≤ rank b) := by
  simp [fle, and_assoc]
theorem feq_false_iff (a b : Nat) :
    feq a b = false ↔ ¬ (isNan a = false ∧ isNan b = false ∧ rank a = rank b) := by
  rw [← feq_iff, Bool.not_eq_true]
theorem flt_false_iff (a b : Nat) :
    flt a b = false ↔ ¬ (isNan a = false ∧ isNan b = false ∧ rank a < rank b) := by
  rw [← flt_iff, Bool.not_eq_true]
theorem fle_false_iff (a b : Nat) :
    fle a b = false ↔ ¬ (isNan a = false ∧ isNan b = false ∧ rank a ≤ rank b) := by
  rw [← fle_iff, Bool.not_eq_true]

/-- Rewrite every comparison (goal and hypotheses) to arithmetic on the patterns, then `omega`. -/
macro "fcmp" : tactic => `(tactic| (
  simp only [fge, feq_iff, flt_iff, fle_iff, feq_false_iff, flt_false_iff, fle_false_iff,
    isNan_iff, isNan_false_iff, isNeg_iff, isNeg_false_iff, isZero_iff, isZero_false_iff,
    isFinite_iff, isInf_iff, rank_def, posInf, negInf, posZero, negZero, nanBits, two64, signBit,
    maxFinite, copysign, mag] at *
  omega))

/-! ## The branches of `nextafter` -/

theorem nextafter_same {frm to : Nat} (h : feq frm to = true) : nextafter frm to = to := by
  simp [nextafter, h]

theorem nextafter_nan {frm to : Nat} (h : isNan frm = true ∨ isNan to = true) :
    nextafter frm to = nanBits := by
  have e1 : feq frm to = false := by
    rcases h with h | h <;> (rw [feq_false_iff]; simp [h])
  rcases h with h | h <;> simp [nextafter, e1, h]

theorem nextafter_pos_inf {to : Nat} (hto : isNan to = false) (hne : feq posInf to = false) :
    nextafter posInf to = posInf := by
  have e2 : fge posInf posInf = true := by decide
  have e0 : isNan posInf = false := by decide
  simp [nextafter, hne, e0, hto, e2]

theorem nextafter_neg_inf {to : Nat} (hto : isNan to = false) (hne : feq negInf to = false) :
    nextafter negInf to = negInf := by
  have e2 : fge negInf posInf = false := by decide
  have e3 : fle negInf negInf = true := by decide
  have e0 : isNan negInf = false := by decide
  simp [nextafter, hne, e0, hto, e2, e3]

/-- `from` is a zero, `to` is neither NaN nor a zero: the smallest subnormal with `to`'s sign. -/
theorem nextafter_zero {frm to : Nat} (hz : frm = posZero ∨ frm = negZero) (hto : isNan to = false)
    (htz : isZero to = false) :
    nextafter frm to = if isNeg to then 0x8000000000000001 else 1 := by
  have hf : isNan frm = false := by rcases hz with h | h <;> subst h <;> decide
  have e1 : feq frm to = false := by rcases hz with h | h <;> subst h <;> fcmp
  have e2 : fge frm posInf = false := by rcases hz with h | h <;> subst h <;> decide
  have e3 : fle frm negInf = false := by rcases hz with h | h <;> subst h <;> decide
  have e4 : feq frm posZero = true := by rcases hz with h | h <;> subst h <;> decide
  simp only [nextafter, e1, hf, hto, e2, e3, e4, copysign, mag]
  cases isNeg to <;> simp

/-- positive finite `from`, `to` above it: the pattern goes up by one. -/
theorem nextafter_pos_up {frm to : Nat} (h0 : 0 < frm) (h1 : frm < posInf) (hto : isNan to = false)
    (hlt : rank frm < rank to) : nextafter frm to = frm + 1 := by
  have hf : isNan frm = false := by fcmp
  have e1 : feq frm to = false := by rw [feq_false_iff]; omega
  have e2 : fge frm posInf = false := by fcmp
  have e3 : fle frm negInf = false := by fcmp
  have e4 : feq frm posZero = false := by fcmp
  have e5 : flt frm to = true := by rw [flt_iff]; exact ⟨hf, hto, hlt⟩
  have e6 : flt posZero frm = true := by
    rw [flt_iff]; exact ⟨by decide, hf, by fcmp⟩
  have e7 : feq (frm + 1) posZero = false := by fcmp
  simp [nextafter, e1, e2, e3, e4, e5, e6, e7, hf, hto]

/-- positive finite `from`, `to` below it: the pattern goes down by one (to `+0` from the
smallest subnormal: `copysign(ret, from)` keeps `+0`). -/
theorem nextafter_pos_down {frm to : Nat} (h0 : 0 < frm) (h1 : frm < posInf) (hto : isNan to = false)
    (hlt : rank to < rank frm) : nextafter frm to = frm - 1 := by
  have hf : isNan frm = false := by fcmp
  have e1 : feq frm to = false := by rw [feq_false_iff]; omega
  have e2 : fge frm posInf = false := by fcmp
  have e3 : fle frm negInf = false := by fcmp
  have e4 : feq frm posZero = false := by fcmp
  have e5 : flt frm to = false := by rw [flt_false_iff]; omega
  have e6 : flt posZero frm = true := by
    rw [flt_iff]; exact ⟨by decide, hf, by fcmp⟩
  by_cases h : frm = 1
  · subst h
    have e7 : feq 0 posZero = true := by decide
    have e8 : copysign 0 1 = 0 := by decide
    simp [nextafter, e1, e2, e3, e4, e5, e6, e7, e8, hf, hto]
  · have e7 : feq (frm - 1) posZero = false := by fcmp
    simp [nextafter, e1, e2, e3, e4, e5, e6, e7, hf, hto]

/-- negative finite non-zero `from`, `to` above it: the pattern goes down by one (to `-0` from
the smallest negative subnormal: `copysign(ret, from)` keeps `-0`). -/
theorem nextafter_neg_up {frm to : Nat} (h0 : negZero < frm) (h1 : frm < negInf) (hto : isNan to = false)
    (hlt : rank frm < rank to) : nextafter frm to = frm - 1 := by
  have hf : isNan frm = false := by fcmp
  have e1 : feq frm to = false := by rw [feq_false_iff]; omega
  have e2 : fge frm posInf = false := by fcmp
  have e3 : fle frm negInf = false := by fcmp
  have e4 : feq frm posZero = false := by fcmp
  have e5 : flt frm to = true := by rw [flt_iff]; exact ⟨hf, hto, hlt⟩
  have e6 : flt posZero frm = false := by fcmp
  by_cases h : frm = 0x8000000000000001
  · subst h
    have e7 : feq 0x8000000000000000 posZero = true := by decide
    have e8 : copysign 0x8000000000000000 0x8000000000000001 = 0x8000000000000000 := by decide
    simp [nextafter, e1, e2, e3, e4, e5, e6, e7, e8, hf, hto]
  · have e7 : feq (frm - 1) posZero = false := by fcmp
    simp [nextafter, e1, e2, e3, e4, e5, e6, e7, hf, hto]

/-- negative finite non-zero `from`, `to` below it: the pattern goes up by one. -/
theorem nextafter_neg_down {frm to : Nat} (h0 : negZero < frm) (h1 : frm < negInf) (hto : isNan to = false)
    (hlt : rank to < rank frm) : nextafter frm to = frm + 1 := by
  have hf : isNan frm = false := by fcmp
  have e1 : feq frm to = false := by rw [feq_false_iff]; omega
  have e2 : fge frm posInf = false := by fcmp
  have e3 : fle frm negInf = false := by fcmp
  have e4 : feq frm posZero = false := by fcmp
  have e5 : flt frm to = false := by rw [flt_false_iff]; omega
  have e6 : flt posZero frm = false := by fcmp
  have e7 : feq (frm + 1) posZero = false := by fcmp
  simp [nextafter, e1, e2, e3, e4, e5, e6, e7, hf, hto]

/-! ## Shape of a finite pattern -/

/-- A valid finite pattern is a zero, or positive, or negative non-zero. -/
theorem finite_cases {b : Nat} (hb : b < two64) (hf : isFinite b = true) :
    b = posZero ∨ b = negZero ∨ (0 < b ∧ b < posInf) ∨ (negZero < b ∧ b < negInf) := by
  fcmp

theorem rank_pos {b : Nat} (h : b < signBit) : rank b = (b : Int) := by fcmp

theorem rank_neg {b : Nat} (h0 : signBit ≤ b) (h1 : b < two64) :
    rank b = (0x8000000000000000 : Int) - (b : Int) := by fcmp

/-! ## One step: adjacent rank, in the direction of `to` -/

/-- What one call does on a finite `from` that differs from a non-NaN `to`. -/
def StepSpec (frm to r : Nat) : Prop :=
  r < two64 ∧ isNan r = false ∧
  rank r = rank frm + (if flt frm to = true then 1 else -1) ∧
  (isZero r = true → isNeg r = isNeg frm)

theorem step_spec {frm to : Nat} (hb : frm < two64) (hfin : isFinite frm = true)
    (hto : isNan to = false) (hne : feq frm to = false) : StepSpec frm to (nextafter frm to) := by
  have hfn : isNan frm = false := by fcmp
  have hdir : rank frm < rank to ∨ rank to < rank frm := by
    rw [feq_false_iff] at hne
    have : rank frm ≠ rank to := fun h => hne ⟨hfn, hto, h⟩
    omega
  rcases finite_cases hb hfin with hz | hz | ⟨h0, h1⟩ | ⟨h0, h1⟩
  · -- +0
    have htz : isZero to = false := by subst hz; fcmp
    rw [nextafter_zero (Or.inl hz) hto htz]
    subst hz
    rcases hdir with hd | hd
    · have e : flt posZero to = true := by rw [flt_iff]; exact ⟨by decide, hto, hd⟩
      have hn : isNeg to = false := by fcmp
      simp only [StepSpec, e, hn]; decide
    · have e : flt posZero to = false := by rw [flt_false_iff]; omega
      have hn : isNeg to = true := by fcmp
      simp only [StepSpec, e, hn]; decide
  · -- -0
    have htz : isZero to = false := by subst hz; fcmp
    rw [nextafter_zero (Or.inr hz) hto htz]
    subst hz
    rcases hdir with hd | hd
    · have e : flt negZero to = true := by rw [flt_iff]; exact ⟨by decide, hto, hd⟩
      have hn : isNeg to = false := by fcmp
      simp only [StepSpec, e, hn]; decide
    · have e : flt negZero to = false := by rw [flt_false_iff]; omega
      have hn : isNeg to = true := by fcmp
      simp only [StepSpec, e, hn]; decide
  · rcases hdir with hd | hd
    · have e : flt frm to = true := by rw [flt_iff]; exact ⟨hfn, hto, hd⟩
      rw [nextafter_pos_up h0 h1 hto hd]
      simp only [StepSpec, e, if_true]
      refine ⟨by fcmp, by fcmp, by fcmp, fun hz => ?_⟩
      exfalso; fcmp
    · have e : flt frm to = false := by rw [flt_false_iff]; omega
      rw [nextafter_pos_down h0 h1 hto hd]
      simp only [StepSpec, e]
      have hs : frm < 0x7ff0000000000000 := h1
      have hr : rank (frm - 1) = rank frm + -1 := by
        rw [rank_pos (b := frm - 1) (by simp only [signBit]; omega),
          rank_pos (b := frm) (by simp only [signBit]; omega)]
        omega
      refine ⟨by fcmp, by fcmp, by simpa using hr, fun _ => ?_⟩
      have a : isNeg (frm - 1) = false := by fcmp
      have b : isNeg frm = false := by fcmp
      rw [a, b]
  · rcases hdir with hd | hd
    · have e : flt frm to = true := by rw [flt_iff]; exact ⟨hfn, hto, hd⟩
      rw [nextafter_neg_up h0 h1 hto hd]
      simp only [StepSpec, e, if_true]
      refine ⟨by fcmp, by fcmp, by fcmp, fun _ => ?_⟩
      have a : isNeg (frm - 1) = true := by fcmp
      have b : isNeg frm = true := by fcmp
      rw [a, b]
    · have e : flt frm to = false := by rw [flt_false_iff]; omega
      rw [nextafter_neg_down h0 h1 hto hd]
      simp only [StepSpec, e]
      have hs0 : 0x8000000000000000 < frm := h0
      have hs1 : frm < 0xfff0000000000000 := h1
      have hr : rank (frm + 1) = rank frm + -1 := by
        rw [rank_neg (b := frm + 1) (by simp only [signBit]; omega) (by simp only [two64]; omega),
          rank_neg (b := frm) (by simp only [signBit]; omega) (by simp only [two64]; omega)]
        omega
      refine ⟨by fcmp, by fcmp, by simpa using hr, fun hz => ?_⟩
      exfalso; fcmp

/-- In the last branch the `u64` operations `to_bits() + 1` / `to_bits() - 1` neither wrap
nor go below zero, and the result is the pattern moved by one (the final `copysign` is the
identity on it). -/
theorem bits_step {frm to : Nat} (hb : frm < two64) (hfin : isFinite frm = true)
    (hnz : isZero frm = false) (hto : isNan to = false) (hne : feq frm to = false) :
    frm + 1 < two64 ∧ 1 ≤ frm ∧
    nextafter frm to = if flt frm to == flt posZero frm then frm + 1 else frm - 1 := by
  have hfn : isNan frm = false := by fcmp
  have hdir : rank frm < rank to ∨ rank to < rank frm := by
    rw [feq_false_iff] at hne
    have : rank frm ≠ rank to := fun h => hne ⟨hfn, hto, h⟩
    omega
  refine ⟨by fcmp, by fcmp, ?_⟩
  rcases finite_cases hb hfin with hz | hz | ⟨h0, h1⟩ | ⟨h0, h1⟩
  · subst hz; exact absurd hnz (by decide)
  · subst hz; exact absurd hnz (by decide)
  · have e6 : flt posZero frm = true := by rw [flt_iff]; exact ⟨by decide, hfn, by fcmp⟩
    rcases hdir with hd | hd
    · have e : flt frm to = true := by rw [flt_iff]; exact ⟨hfn, hto, hd⟩
      rw [nextafter_pos_up h0 h1 hto hd, e, e6]; rfl
    · have e : flt frm to = false := by rw [flt_false_iff]; omega
      rw [nextafter_pos_down h0 h1 hto hd, e, e6]; rfl
  · have e6 : flt posZero frm = false := by fcmp
    rcases hdir with hd | hd
    · have e : flt frm to = true := by rw [flt_iff]; exact ⟨hfn, hto, hd⟩
      rw [nextafter_neg_up h0 h1 hto hd, e, e6]; rfl
    · have e : flt frm to = false := by rw [flt_false_iff]; omega
      rw [nextafter_neg_down h0 h1 hto hd, e, e6]; rfl

/-! ## Iteration towards zero and the factor loop -/

theorem nextafter_to_zero {f : Nat} (h0 : 0 < f) (h1 : f < posInf) : nextafter f posZero = f - 1 :=
  nextafter_pos_down h0 h1 (by decide) (by fcmp)

theorem towardsZero_sub : ∀ (n f : Nat), f < posInf → n ≤ f → towardsZero n f = f - n
  | 0, f, _, _ => by simp [towardsZero]
  | n + 1, f, h1, hn => by
    have h0 : 0 < f := by omega
    rw [towardsZero, nextafter_to_zero h0 h1, towardsZero_sub n (f - 1) (by omega) (by omega)]
    omega

theorem towardsZero_inf : ∀ n : Nat, towardsZero n posInf = posInf
  | 0 => rfl
  | n + 1 => by
    have : nextafter posInf posZero = posInf := by decide
    rw [towardsZero, this, towardsZero_inf n]

theorem segLoop_terminates (test : Nat → Bool) (h0 : test posZero = false) :
    ∀ (fuel f : Nat), f < posInf → f < fuel →
      ∃ k, k ≤ f ∧ segLoop test fuel f = some (f - k) ∧ test (f - k) = false ∧
        ∀ j, j < k → test (f - j) = true
  | 0, f, _, hfuel => by omega
  | fuel + 1, f, h1, hfuel => by
    by_cases ht : test f = true
    · have hf0 : 0 < f := by
        refine Nat.pos_of_ne_zero fun h => ?_
        subst h; simp [posZero] at h0; simp [h0] at ht
      obtain ⟨k, hk, hrun, hstop, hbefore⟩ :=
        segLoop_terminates test h0 fuel (f - 1) (by omega) (by omega)
      refine ⟨k + 1, by omega, ?_, ?_, ?_⟩
      · rw [segLoop, if_pos ht, nextafter_to_zero hf0 h1, hrun]
        congr 1; omega
      · rw [show f - (k + 1) = f - 1 - k by omega]; exact hstop
      · intro j hj
        cases j with
        | zero => simpa using ht
        | succ j =>
          rw [show f - (j + 1) = f - 1 - j by omega]
          exact hbefore j (by omega)
    · refine ⟨0, by omega, ?_, ?_, ?_⟩
      · rw [segLoop, if_neg ht]; rfl
      · simpa using ht
      · intro j hj; omega

theorem segLoop_diverges (test : Nat → Bool) (hinf : test posInf = true) :
    ∀ fuel : Nat, segLoop test fuel posInf = none
  | 0 => rfl
  | fuel + 1 => by
    have : nextafter posInf posZero = posInf := by decide
    rw [segLoop, if_pos hinf, this, segLoop_diverges test hinf fuel]

end Coupe.NextAfter
