import CoupeModel.Proofs.CodecMedit

/-!
# Lemmas for C19: MEDIT ASCII, token level (writer → parser)
-/

namespace Coupe.Codec

/-- a finite `f64` bit pattern (exponent field not all ones). -/
def FiniteBits (x : Nat) : Prop := x < 18446744073709551616 ∧ x / 4503599627370496 % 2048 ≠ 2047

instance (x : Nat) : Decidable (FiniteBits x) :=
  inferInstanceAs (Decidable (x < 18446744073709551616 ∧ x / 4503599627370496 % 2048 ≠ 2047))

/-- The trusted contract of Rust's `Display`/`FromStr` for `usize`, `isize` and
finite `f64`: parsing what was displayed gives the value back (decimal digit
strings are not changed by `make_ascii_lowercase`). -/
structure NumFmtOK (F : NumFmt) : Prop where
  uT : ∀ n, n < 18446744073709551616 → F.parseUT (F.showU n) = some n
  u : ∀ n, n < 18446744073709551616 → F.parseU (F.showU n) = some n
  i : ∀ i, InI64 i → F.parseI (F.showI i) = some i
  f : ∀ x, FiniteBits x → F.parseF (F.showF x) = some x
  two : ∃ v, F.parseUT two = some v

theorem readL_ne (line : List Tok) (ls : Lines) (h : line ≠ []) :
    readL (line :: ls) = some (line, ls) := by
  cases line with
  | nil => exact absurd rfl h
  | cons t ts => rfl

theorem asciiLoop_skip (F : NumFmt) (fuel : Nat) (s : Lines) (m : Mesh) :
    asciiLoop F fuel ([] :: s) m = asciiLoop F fuel s m := by
  cases fuel with
  | zero => rfl
  | succ f =>
    cases h : readT s with
    | none => simp only [asciiLoop, readT, h]
    | some x =>
      obtain ⟨t, c, s'⟩ := x
      simp only [asciiLoop, readT, h]
      cases t with
      | kw k => cases k <;> rfl
      | raw _ => rfl

theorem takeFloats_enc (F : NumFmt) (ok : NumFmtOK F) (cs : List Nat) (rest : List Tok)
    (h : ∀ x ∈ cs, FiniteBits x) :
    takeFloats F cs.length (cs.map (fun c => Tok.raw (F.showF c)) ++ rest) = .ok (cs, rest) := by
  induction cs with
  | nil => rfl
  | cons a as ih =>
    simp only [List.map_cons, List.cons_append, List.length_cons, takeFloats, NumFmt.tokF,
      ok.f a (h a List.mem_cons_self), ih (fun x hx => h x (List.mem_cons_of_mem _ hx))]

theorem takeNodes_enc (F : NumFmt) (ok : NumFmtOK F) (ns : List Nat) (rest : List Tok)
    (h : ∀ n ∈ ns, n + 1 < 18446744073709551616) :
    takeNodes F ns.length (ns.map (fun n => Tok.raw (F.showU (n + 1))) ++ rest) = .ok (ns, rest) := by
  induction ns with
  | nil => rfl
  | cons a as ih =>
    simp only [List.map_cons, List.cons_append, List.length_cons, takeNodes, NumFmt.tokU,
      ok.u (a + 1) (h a List.mem_cons_self), ih (fun x hx => h x (List.mem_cons_of_mem _ hx))]

theorem readVertsA_enc (F : NumFmt) (ok : NumFmtOK F) (d : Nat) (rs : List Int) :
    ∀ (cs : List Nat) (s : Lines),
    cs.length = d * rs.length → (∀ x ∈ cs, FiniteBits x) → (∀ r ∈ rs, InI64 r) →
    readVertsA F d rs.length (vertLines F d cs rs ++ s) = .ok (cs, rs, s) := by
  induction rs with
  | nil =>
    intro cs s hl _ _
    have : cs = [] := List.eq_nil_of_length_eq_zero (by simpa using hl)
    subst this; rfl
  | cons r rs ih =>
    intro cs s hl hc hr
    have hd : d ≤ cs.length := by
      rw [hl, List.length_cons, Nat.mul_succ]; omega
    have htl : (cs.take d).length = d := by rw [List.length_take]; omega
    have hdl : (cs.drop d).length = d * rs.length := by
      rw [List.length_drop, hl, List.length_cons, Nat.mul_succ]; omega
    simp only [vertLines, if_neg (Nat.not_lt.mpr hd), List.length_cons, readVertsA,
      List.cons_append]
    rw [readL_ne _ _ (by simp)]
    simp only []
    have h1 := takeFloats_enc F ok (cs.take d) [Tok.raw (F.showI r)]
      (fun x hx => hc x (List.mem_of_mem_take hx))
    rw [htl] at h1
    rw [h1]
    simp only [optRef, NumFmt.tokI, ok.i r (hr r List.mem_cons_self), ne_eq, not_true_eq_false,
      if_false]
    rw [ih (cs.drop d) s hdl (fun x hx => hc x (List.mem_of_mem_drop hx))
      (fun r' hr' => hr r' (List.mem_cons_of_mem _ hr'))]
    simp only [List.take_append_drop, List.cons_append, List.nil_append]

theorem readElemsA_enc (F : NumFmt) (ok : NumFmtOK F) (k : Nat) (hk : 1 ≤ k) (rs : List Int) :
    ∀ (ns : List Nat) (s : Lines),
    ns.length = k * rs.length → (∀ n ∈ ns, n + 1 < 18446744073709551616) → (∀ r ∈ rs, InI64 r) →
    readElemsA F k rs.length (elemLines F k ns rs ++ s) = .ok (ns, rs, s) := by
  induction rs with
  | nil =>
    intro ns s hl _ _
    have : ns = [] := List.eq_nil_of_length_eq_zero (by simpa using hl)
    subst this; rfl
  | cons r rs ih =>
    intro ns s hl hc hr
    have hd : k ≤ ns.length := by
      rw [hl, List.length_cons, Nat.mul_succ]; omega
    have hne : ns ≠ [] := by
      intro h0; subst h0; simp at hd; omega
    have htl : (ns.take k).length = k := by rw [List.length_take]; omega
    have hdl : (ns.drop k).length = k * rs.length := by
      rw [List.length_drop, hl, List.length_cons, Nat.mul_succ]; omega
    simp only [elemLines, if_neg hne, List.length_cons, readElemsA, List.cons_append]
    rw [readL_ne _ _ (by simp)]
    simp only []
    have h1 := takeNodes_enc F ok (ns.take k) [Tok.raw (F.showI r)]
      (fun x hx => hc x (List.mem_of_mem_take hx))
    rw [htl] at h1
    rw [h1]
    simp only [optRef, NumFmt.tokI, ok.i r (hr r List.mem_cons_self)]
    rw [ih (ns.drop k) s hdl (fun x hx => hc x (List.mem_of_mem_drop hx))
      (fun r' hr' => hr r' (List.mem_cons_of_mem _ hr'))]
    simp only [List.take_append_drop, List.cons_append, List.nil_append]

/-- after the count token the reader sits on the (empty) rest of its line. -/
theorem readVertsA_enc' (F : NumFmt) (ok : NumFmtOK F) (d : Nat) (rs : List Int)
    (cs : List Nat) (s : Lines)
    (hl : cs.length = d * rs.length) (hc : ∀ x ∈ cs, FiniteBits x) (hr : ∀ r ∈ rs, InI64 r) :
    ∃ s', readVertsA F d rs.length ([] :: (vertLines F d cs rs ++ s)) = .ok (cs, rs, s') ∧
      ∀ fuel m, asciiLoop F fuel s' m = asciiLoop F fuel s m := by
  cases rs with
  | nil =>
    have : cs = [] := List.eq_nil_of_length_eq_zero (by simpa using hl)
    subst this
    exact ⟨[] :: s, rfl, fun fuel m => asciiLoop_skip F fuel s m⟩
  | cons r rs =>
    refine ⟨s, ?_, fun _ _ => rfl⟩
    have := readVertsA_enc F ok d (r :: rs) cs s hl hc hr
    simp only [List.length_cons, readVertsA, readL] at this ⊢
    exact this

theorem readElemsA_enc' (F : NumFmt) (ok : NumFmtOK F) (k : Nat) (hk : 1 ≤ k) (rs : List Int)
    (ns : List Nat) (s : Lines)
    (hl : ns.length = k * rs.length) (hc : ∀ n ∈ ns, n + 1 < 18446744073709551616)
    (hr : ∀ r ∈ rs, InI64 r) :
    ∃ s', readElemsA F k rs.length ([] :: (elemLines F k ns rs ++ s)) = .ok (ns, rs, s') ∧
      ∀ fuel m, asciiLoop F fuel s' m = asciiLoop F fuel s m := by
  cases rs with
  | nil =>
    have : ns = [] := List.eq_nil_of_length_eq_zero (by simpa using hl)
    subst this
    exact ⟨[] :: s, rfl, fun fuel m => asciiLoop_skip F fuel s m⟩
  | cons r rs =>
    refine ⟨s, ?_, fun _ _ => rfl⟩
    have := readElemsA_enc F ok k hk (r :: rs) ns s hl hc hr
    simp only [List.length_cons, readElemsA, readL] at this ⊢
    exact this

/-- a block as `from_raw_parts` accepts it, any element type but `Vertex`
(vertex blocks are dropped by the writer), values in `usize`/`isize` range. -/
structure GoodBlockA (b : Block) : Prop where
  ty : b.ty ≠ .vertex
  len : b.nodes.length = b.ty.nodeCount * b.refs.length
  nodes : ∀ n ∈ b.nodes, n + 1 < 18446744073709551616
  refs : ∀ r ∈ b.refs, InI64 r
  size : b.nodes.length < 1152921504606846976

theorem asciiLoop_blocks (F : NumFmt) (ok : NumFmtOK F) (blocks : List Block) :
    ∀ (fuel : Nat) (m : Mesh), blocks.length < fuel → (∀ b ∈ blocks, GoodBlockA b) →
    asciiLoop F fuel (blockLines F blocks ++ [[], [Tok.kw .end_]]) m
      = .ok { m with topo := m.topo ++ blocks } := by
  induction blocks with
  | nil =>
    intro fuel m hf _
    obtain ⟨f, rfl⟩ : ∃ f, fuel = f + 1 := ⟨fuel - 1, by simp at hf; omega⟩
    simp [blockLines, asciiLoop, readT]
  | cons b bs ih =>
    intro fuel m hf hg
    obtain ⟨f, rfl⟩ : ∃ f, fuel = f + 1 := ⟨fuel - 1, by simp at hf; omega⟩
    have g := hg b List.mem_cons_self
    have hcnt : b.refs.length < 1152921504606846976 := by
      have := g.len; have := g.size; have := nodeCount_pos b.ty
      rcases Nat.lt_or_ge b.refs.length 1152921504606846976 with h | h
      · exact h
      · have : b.ty.nodeCount * b.refs.length ≥ 1 * b.refs.length := Nat.mul_le_mul_right _ ‹_›
        omega
    have hmul : mulCap b.refs.length b.ty.nodeCount = .ok () := by
      have := g.len; have := g.size
      have : b.refs.length * b.ty.nodeCount = b.nodes.length := by rw [Nat.mul_comm]; omega
      unfold mulCap capOk
      rw [if_neg (by omega), if_neg (by simp only [decide_eq_true_eq]; omega)]
    have hcap : capOk 8 b.refs.length = true := by
      unfold capOk; simp only [decide_eq_true_eq]; omega
    obtain ⟨s', h3, h4⟩ := readElemsA_enc' F ok b.ty.nodeCount (nodeCount_pos _) b.refs b.nodes
      (blockLines F bs ++ [[], [Tok.kw .end_]]) g.len g.nodes g.refs
    simp only [blockLines, if_neg g.ty, List.cons_append, List.append_assoc, asciiLoop, readT,
      readCountJunk, NumFmt.tokUT, ok.uT _ (show b.refs.length < 18446744073709551616 by omega),
      hmul, hcap, not_true_eq_false, if_false, h3, h4]
    rw [ih f _ (by simp at hf; omega) (fun b' hb' => hg b' (List.mem_cons_of_mem _ hb'))]
    simp

theorem tokCount_append (a b : Lines) : tokCount (a ++ b) = tokCount a + tokCount b := by
  simp [tokCount]

theorem tokCount_blockLines (F : NumFmt) (blocks : List Block) (h : ∀ b ∈ blocks, b.ty ≠ .vertex) :
    blocks.length ≤ tokCount (blockLines F blocks) := by
  induction blocks with
  | nil => simp [blockLines, tokCount]
  | cons b bs ih =>
    have := ih (fun b' hb' => h b' (List.mem_cons_of_mem _ hb'))
    simp only [blockLines, if_neg (h b List.mem_cons_self), List.length_cons]
    rw [show ∀ (x y z : List Tok) (r : Lines), (x :: y :: z :: r) = [x, y, z] ++ r from fun _ _ _ _ => rfl,
      tokCount_append, tokCount_append]
    simp only [tokCount, List.map_cons, List.map_nil, List.sum_cons, List.sum_nil, List.length_cons,
      List.length_nil] at this ⊢
    omega

/-- a mesh as `from_raw_parts` accepts it, finite coordinates. -/
structure GoodMeshA (m : Mesh) : Prop where
  dim1 : 1 ≤ m.dim
  dim2 : m.dim < 18446744073709551616
  clen : m.coords.length = m.dim * m.nodeRefs.length
  coords : ∀ x ∈ m.coords, FiniteBits x
  nrefs : ∀ r ∈ m.nodeRefs, InI64 r
  size : m.coords.length < 1152921504606846976
  blocks : ∀ b ∈ m.topo, GoodBlockA b

theorem parse_writeTokens (F : NumFmt) (ok : NumFmtOK F) (m : Mesh) (g : GoodMeshA m) :
    parseTokens F (writeTokens F m) = .ok m := by
  have hnv : m.nodeRefs.length < 1152921504606846976 := by
    have := g.clen; have := g.size; have := g.dim1
    rcases Nat.lt_or_ge m.nodeRefs.length 1152921504606846976 with h | h
    · exact h
    · have : m.dim * m.nodeRefs.length ≥ 1 * m.nodeRefs.length := Nat.mul_le_mul_right _ ‹_›
      omega
  have hmul : mulCap m.dim m.nodeRefs.length = .ok () := by
    have := g.clen; have := g.size
    unfold mulCap capOk
    rw [if_neg (by omega), if_neg (by simp only [decide_eq_true_eq]; omega)]
  have hcap : capOk 8 m.nodeRefs.length = true := by
    unfold capOk; simp only [decide_eq_true_eq]; omega
  obtain ⟨v2, hv2⟩ := ok.two
  obtain ⟨s', h3, h4⟩ := readVertsA_enc' F ok m.dim m.nodeRefs m.coords
    (blockLines F m.topo ++ [[], [Tok.kw .end_]]) g.clen g.coords g.nrefs
  have hfuel : m.topo.length + 1 < tokCount ([] :: [] :: [Tok.kw Kw.vertices] ::
      [Tok.raw (F.showU m.nodeRefs.length)] ::
      (vertLines F m.dim m.coords m.nodeRefs ++ blockLines F m.topo ++ [[], [Tok.kw Kw.end_]])) + 1 := by
    have := tokCount_blockLines F m.topo (fun b hb => (g.blocks b hb).ty)
    rw [show ∀ (x y z w : List Tok) (r : Lines), (x :: y :: z :: w :: r) = [x, y, z, w] ++ r
      from fun _ _ _ _ _ => rfl, tokCount_append, tokCount_append, tokCount_append]
    simp only [tokCount, List.map_cons, List.map_nil, List.sum_cons, List.sum_nil, List.length_cons,
      List.length_nil] at this ⊢
    omega
  simp only [parseTokens, writeTokens, readT, readCountT, NumFmt.tokUT, hv2, ne_eq,
    not_true_eq_false, if_false, ok.uT m.dim g.dim2]
  generalize tokCount _ + 1 = fuel at hfuel
  obtain ⟨f, rfl⟩ : ∃ f, fuel = f + 1 := ⟨fuel - 1, by omega⟩
  simp only [asciiLoop, readT, readCountT, NumFmt.tokUT,
    ok.uT _ (show m.nodeRefs.length < 18446744073709551616 by omega), hmul, hcap,
    not_true_eq_false, if_false, List.append_assoc, h3, h4]
  rw [asciiLoop_blocks F ok m.topo f _ (by omega) g.blocks]
  simp

end Coupe.Codec
