import CoupeModel.Model.Par

/-!
# Lemmas about the parallel skeletons (`Model/Par.lean`)

Core Lean only.  The generic facts are `*_spec`: a relation `R acc xs`
("`acc` is a correct summary of the range `xs`") that holds for the initial
accumulator, is preserved by the sequential step and by the merge of two
adjacent ranges, holds for the result along EVERY split tree.
-/

namespace Coupe.Par

/-! ## Generic: fold/reduce along an arbitrary split tree -/

theorem foldl_spec {α β} (f : β → α → β) (R : β → List α → Prop)
    (hstep : ∀ a xs x, R a xs → R (f a x) (xs ++ [x])) :
    ∀ (xs pre : List α) (a : β), R a pre → R (xs.foldl f a) (pre ++ xs) := by
  intro xs
  induction xs with
  | nil => intro pre a h; simpa using h
  | cons x xs ih =>
    intro pre a h
    have := ih (pre ++ [x]) (f a x) (hstep a pre x h)
    simpa using this

theorem parFold_spec {α β} (f : β → α → β) (g : β → β → β) (init : β)
    (R : β → List α → Prop)
    (hinit : R init [])
    (hstep : ∀ a xs x, R a xs → R (f a x) (xs ++ [x]))
    (hmerge : ∀ a b xs ys, R a xs → R b ys → R (g a b) (xs ++ ys)) :
    ∀ (t : SplitTree) (xs : List α), R (parFold f g init t xs) xs := by
  intro t
  induction t with
  | leaf =>
    intro xs
    have := foldl_spec f R hstep xs [] init hinit
    simpa [parFold] using this
  | node k l r ihl ihr =>
    intro xs
    have := hmerge _ _ _ _ (ihl (xs.take k)) (ihr (xs.drop k))
    simpa [parFold, List.take_append_drop] using this

theorem parFoldR_spec {α β} (f : β → α → β) (init : β) (g : β → β → β) (e : β)
    (R : β → List α → Prop)
    (hinit : R init [])
    (hstep : ∀ a xs x, R a xs → R (f a x) (xs ++ [x]))
    (hleaf : ∀ a xs, R a xs → R (g e a) xs)
    (hmerge : ∀ a b xs ys, R a xs → R b ys → R (g a b) (xs ++ ys)) :
    ∀ (t : SplitTree) (xs : List α), R (parFoldR f init g e t xs) xs := by
  intro t
  induction t with
  | leaf =>
    intro xs
    have := foldl_spec f R hstep xs [] init hinit
    exact hleaf _ _ (by simpa using this)
  | node k l r ihl ihr =>
    intro xs
    have := hmerge _ _ _ _ (ihl (xs.take k)) (ihr (xs.drop k))
    simpa [parFoldR, List.take_append_drop] using this

theorem parFoldWith_spec {α β} (f : β → α → β) (g : β → β → β) (init : β)
    (R : β → List α → Prop)
    (hinit : R init [])
    (hstep : ∀ a xs x, R a xs → R (f a x) (xs ++ [x]))
    (hmerge : ∀ a b xs ys, R a xs → R b ys → R (g a b) (xs ++ ys)) :
    ∀ (t : SplitTree) (xs : List α), ∃ b, parFoldWith f g init t xs = some b ∧ R b xs := by
  intro t
  induction t with
  | leaf =>
    intro xs
    have := foldl_spec f R hstep xs [] init hinit
    exact ⟨_, rfl, by simpa using this⟩
  | node k l r ihl ihr =>
    intro xs
    obtain ⟨a, ha, hRa⟩ := ihl (xs.take k)
    obtain ⟨b, hb, hRb⟩ := ihr (xs.drop k)
    refine ⟨g a b, ?_, ?_⟩
    · simp [parFoldWith, ha, hb]
    · have := hmerge _ _ _ _ hRa hRb
      simpa [List.take_append_drop] using this

/-- A fold whose step is `op acc (embed x)` restarts anywhere: the accumulator
factors out (associativity + right-neutral `e`). -/
theorem foldl_op_factor {α β} (op : β → β → β) (e : β) (embed : α → β) (f : β → α → β)
    (hassoc : ∀ a b c, op (op a b) c = op a (op b c))
    (hl : ∀ a, op e a = a) (hr : ∀ a, op a e = a)
    (hf : ∀ a x, f a x = op a (embed x)) :
    ∀ (ys : List α) (a : β), ys.foldl f a = op a (ys.foldl f e) := by
  intro ys
  induction ys with
  | nil => intro a; simp [hr]
  | cons y ys ih =>
    intro a
    simp only [List.foldl_cons]
    rw [ih (f a y), ih (f e y), hf a y, hf e y, hl, hassoc]

theorem parMapCollect_eq_map {α β} (h : α → β) :
    ∀ (t : SplitTree) (xs : List α), parMapCollect h t xs = xs.map h := by
  intro t
  induction t with
  | leaf => intro xs; rfl
  | node k l r ihl ihr =>
    intro xs
    simp only [parMapCollect, ihl, ihr]
    rw [← List.map_append, List.take_append_drop]

/-! ## Writes to distinct cells -/

theorem write_comm {α} (a : List α) (w1 w2 : Nat × α) (h : w1.1 ≠ w2.1) :
    write (write a w1) w2 = write (write a w2) w1 := by
  simp only [write]
  exact List.set_comm _ _ h

theorem disjointWrites_perm {α} {ws ws' : List (Nat × α)} (hp : ws.Perm ws') :
    (ws.map (·.1)).Nodup → ∀ a : List α, disjointWrites a ws = disjointWrites a ws' := by
  induction hp with
  | nil => intro _ a; rfl
  | cons w _ ih =>
    intro hn a
    simp only [List.map_cons, List.nodup_cons] at hn
    simp only [disjointWrites, List.foldl_cons]
    exact ih hn.2 _
  | swap w1 w2 l =>
    intro hn a
    simp only [List.map_cons, List.nodup_cons, List.mem_cons, not_or] at hn
    simp only [disjointWrites, List.foldl_cons]
    rw [write_comm a w2 w1 (fun h => hn.1.1 h)]
  | trans h1 _ ih1 ih2 =>
    intro hn a
    rw [ih1 hn a]
    exact ih2 ((h1.map (·.1)).nodup_iff.mp hn) a

theorem disjointWrites_length {α} (ws : List (Nat × α)) :
    ∀ a : List α, (disjointWrites a ws).length = a.length := by
  induction ws with
  | nil => intro a; rfl
  | cons w ws ih =>
    intro a
    simp only [disjointWrites, List.foldl_cons]
    have := ih (write a w)
    simp only [disjointWrites] at this
    rw [this]
    simp [write]

/-- What a cell holds afterwards: untouched cells keep their value … -/
theorem disjointWrites_get_of_not_mem {α} (ws : List (Nat × α)) (i : Nat) :
    ∀ a : List α, i ∉ ws.map (·.1) → (disjointWrites a ws)[i]? = a[i]? := by
  induction ws with
  | nil => intro a _; rfl
  | cons w ws ih =>
    intro a hi
    simp only [List.map_cons, List.mem_cons, not_or] at hi
    simp only [disjointWrites, List.foldl_cons]
    have := ih (write a w) hi.2
    simp only [disjointWrites] at this
    rw [this]
    simp only [write]
    rw [List.getElem?_set_ne (fun h => hi.1 h.symm)]

/-- … and a written cell holds the value of the (unique) store that targets it,
whatever the order of the stores. -/
theorem disjointWrites_get_of_mem {α} (ws : List (Nat × α)) (i : Nat) (v : α) :
    ∀ a : List α, (ws.map (·.1)).Nodup → (i, v) ∈ ws → i < a.length →
      (disjointWrites a ws)[i]? = some v := by
  induction ws with
  | nil => intro a _ h; simp at h
  | cons w ws ih =>
    intro a hn hm hi
    simp only [List.map_cons, List.nodup_cons] at hn
    simp only [disjointWrites, List.foldl_cons]
    rcases List.mem_cons.mp hm with h | h
    · subst h
      have := disjointWrites_get_of_not_mem ws i (write a (i, v)) hn.1
      simp only [disjointWrites] at this
      rw [this]
      simp [write, hi]
    · have := ih (write a w) hn.2 h (by simpa [write] using hi)
      simpa only [disjointWrites] using this

/-! ## chunks -/

theorem flatten_chunksAux {α} (k : Nat) (hk : 1 ≤ k) :
    ∀ (fuel : Nat) (l : List α), l.length ≤ fuel → (chunksAux k fuel l).flatten = l := by
  intro fuel
  induction fuel with
  | zero =>
    intro l h
    have : l = [] := List.eq_nil_of_length_eq_zero (by omega)
    simp [chunksAux, this]
  | succ n ih =>
    intro l h
    unfold chunksAux
    cases l with
    | nil => simp
    | cons x xs =>
      have hlen : ((x :: xs).drop k).length ≤ n := by
        simp only [List.length_drop, List.length_cons] at h ⊢
        omega
      simp only [List.isEmpty_cons, Bool.false_eq_true, ↓reduceIte, List.flatten_cons]
      rw [ih _ hlen, List.take_append_drop]

theorem flatten_chunks {α} (k : Nat) (hk : 1 ≤ k) (l : List α) : (chunks k l).flatten = l :=
  flatten_chunksAux k hk l.length l (Nat.le_refl _)

theorem flatten_zcurveChunks (perm : List Nat) (pc : Nat) :
    (zcurveChunks perm pc).flatten = perm := by
  simp only [zcurveChunks, List.flatten_append]
  rw [flatten_chunks _ (Nat.le_add_left 1 _), flatten_chunks _ (Nat.le_max_right _ 1),
    List.take_append_drop]

/-- The cells targeted by `labelWrites` are the members of the chunks, in order. -/
theorem labelWrites_targets (cs : List (List Nat × Nat)) :
    (labelWrites cs).map (·.1) = (cs.map (·.1)).flatten := by
  induction cs with
  | nil => rfl
  | cons c cs ih =>
    simp only [labelWrites, List.flatMap_cons, List.map_append, List.map_map, List.map_cons,
      List.flatten_cons] at ih ⊢
    rw [ih]
    congr 1
    induction c.1 with
    | nil => rfl
    | cons i is ih2 => simp [ih2]

theorem enumerate_fst {α} (l : List α) : (enumerate l).map (·.1) = l := by
  simp [enumerate]

theorem mem_labelWrites (cs : List (List Nat × Nat)) (i v : Nat) :
    (i, v) ∈ labelWrites cs ↔ ∃ c ∈ cs, i ∈ c.1 ∧ v = c.2 := by
  simp only [labelWrites, List.mem_flatMap, List.mem_map, Prod.mk.injEq]
  constructor
  · rintro ⟨c, hc, j, hj, rfl, rfl⟩
    exact ⟨c, hc, hj, rfl⟩
  · rintro ⟨c, hc, hi, rfl⟩
    exact ⟨c, hc, i, hi, rfl, rfl⟩

/-! ## RCB: the 4-tuple reduce -/

/-- "`a` summarises the range `xs` correctly": everything the rest of
`par_rcb_split` reads from the tuple, stated without reference to any order of
evaluation. -/
structure NearestSpec (target : Int) (a : Acc) (xs : List Item) : Prop where
  count : a.count = (xs.filter (fun x => decide (x.coord - target < 0))).length
  weight : a.weight = ((xs.filter (fun x => decide (x.coord - target < 0))).map (·.weight)).sum
  inf_iff : a.dist = .inf ↔ ∀ x ∈ xs, x.coord - target < 0
  lower : ∀ d, a.dist = .fin d → ∀ x ∈ xs, 0 ≤ x.coord - target → d ≤ x.coord - target
  idx_none : a.idx = none ↔ a.dist = .inf
  idx_some : ∀ j, a.idx = some j →
    ∃ x ∈ xs, x.idx = j ∧ 0 ≤ x.coord - target ∧ a.dist = .fin (x.coord - target)

theorem nearestSpec_init (target : Int) : NearestSpec target nearestInit [] := by
  refine ⟨rfl, rfl, ?_, ?_, ?_, ?_⟩ <;> simp [nearestInit]

theorem nearestSpec_step (target : Int) (a : Acc) (xs : List Item) (x : Item)
    (h : NearestSpec target a xs) : NearestSpec target (nearestStep target a x) (xs ++ [x]) := by
  obtain ⟨c, w, i, d⟩ := a
  obtain ⟨hc, hw, hinf, hlow, hnone, hsome⟩ := h
  simp only at hc hw hinf hlow hnone hsome
  unfold nearestStep
  by_cases hneg : x.coord - target < 0
  · simp only [hneg, ↓reduceIte]
    refine ⟨?_, ?_, ?_, ?_, ?_, ?_⟩
    · simp [List.filter_append, hneg, hc]
    · simp [List.filter_append, hneg, hw]
    · simp only [List.mem_append, List.mem_singleton]
      rw [hinf]
      constructor
      · rintro h y (hy | rfl)
        · exact h y hy
        · exact hneg
      · intro h y hy
        exact h y (Or.inl hy)
    · intro d' hd' y hy hy0
      simp only [List.mem_append, List.mem_singleton] at hy
      rcases hy with hy | rfl
      · exact hlow d' hd' y hy hy0
      · omega
    · exact hnone
    · intro j hj
      obtain ⟨y, hy, h1, h2, h3⟩ := hsome j hj
      exact ⟨y, List.mem_append_left _ hy, h1, h2, h3⟩
  · simp only [hneg, ↓reduceIte]
    have hge : 0 ≤ x.coord - target := by omega
    cases d with
    | inf =>
      simp only [Dist.lt, ↓reduceIte]
      refine ⟨?_, ?_, ?_, ?_, ?_, ?_⟩
      · simp [List.filter_append, hneg, hc]
      · simp [List.filter_append, hneg, hw]
      · simp only [reduceCtorEq, List.mem_append, List.mem_singleton, false_iff]
        intro h
        exact hneg (h x (Or.inr rfl))
      · intro d' hd' y hy hy0
        simp only [Dist.fin.injEq] at hd'
        simp only [List.mem_append, List.mem_singleton] at hy
        rcases hy with hy | rfl
        · have := (hinf.mp rfl) y hy
          omega
        · omega
      · simp
      · intro j hj
        simp only [Option.some.injEq] at hj
        exact ⟨x, by simp, hj, hge, rfl⟩
    | fin d0 =>
      by_cases hlt : x.coord - target < d0
      · simp only [Dist.lt, hlt, decide_true, ↓reduceIte]
        refine ⟨?_, ?_, ?_, ?_, ?_, ?_⟩
        · simp [List.filter_append, hneg, hc]
        · simp [List.filter_append, hneg, hw]
        · simp only [reduceCtorEq, List.mem_append, List.mem_singleton, false_iff]
          intro h
          exact hneg (h x (Or.inr rfl))
        · intro d' hd' y hy hy0
          simp only [Dist.fin.injEq] at hd'
          simp only [List.mem_append, List.mem_singleton] at hy
          rcases hy with hy | rfl
          · have := hlow d0 rfl y hy hy0
            omega
          · omega
        · simp
        · intro j hj
          simp only [Option.some.injEq] at hj
          exact ⟨x, by simp, hj, hge, rfl⟩
      · simp only [Dist.lt, hlt, decide_false, Bool.false_eq_true, ↓reduceIte]
        refine ⟨?_, ?_, ?_, ?_, ?_, ?_⟩
        · simp [List.filter_append, hneg, hc]
        · simp [List.filter_append, hneg, hw]
        · simp only [reduceCtorEq, List.mem_append, List.mem_singleton, false_iff]
          intro h
          exact hneg (h x (Or.inr rfl))
        · intro d' hd' y hy hy0
          simp only [Dist.fin.injEq] at hd'
          simp only [List.mem_append, List.mem_singleton] at hy
          rcases hy with hy | rfl
          · exact hlow d' (by simp [hd']) y hy hy0
          · omega
        · exact hnone
        · intro j hj
          obtain ⟨y, hy, h1, h2, h3⟩ := hsome j hj
          exact ⟨y, List.mem_append_left _ hy, h1, h2, h3⟩

theorem nearestSpec_mergeOld (target : Int) (a b : Acc) (xs ys : List Item)
    (ha : NearestSpec target a xs) (hb : NearestSpec target b ys) :
    NearestSpec target (nearestMergeOld a b) (xs ++ ys) := by
  obtain ⟨c1, w1, i1, d1⟩ := a
  obtain ⟨c2, w2, i2, d2⟩ := b
  obtain ⟨hc1, hw1, hinf1, hlow1, hnone1, hsome1⟩ := ha
  obtain ⟨hc2, hw2, hinf2, hlow2, hnone2, hsome2⟩ := hb
  simp only at hc1 hw1 hinf1 hlow1 hnone1 hsome1 hc2 hw2 hinf2 hlow2 hnone2 hsome2
  have hcount : c1 + c2 = ((xs ++ ys).filter (fun x => decide (x.coord - target < 0))).length := by
    simp [List.filter_append, hc1, hc2]
  have hweight : w1 + w2 =
      (((xs ++ ys).filter (fun x => decide (x.coord - target < 0))).map (·.weight)).sum := by
    simp [List.filter_append, hw1, hw2]
  -- a finite distance is attained by an item of its own range
  have hatt1 : ∀ d, d1 = .fin d → ∃ x ∈ xs, 0 ≤ x.coord - target ∧ d = x.coord - target := by
    intro d hd
    cases hi : i1 with
    | none => rw [hnone1.mp hi] at hd; cases hd
    | some j =>
      obtain ⟨x, hx, _, h0, hdx⟩ := hsome1 j hi
      rw [hd] at hdx
      exact ⟨x, hx, h0, by simpa using hdx⟩
  have hatt2 : ∀ d, d2 = .fin d → ∃ x ∈ ys, 0 ≤ x.coord - target ∧ d = x.coord - target := by
    intro d hd
    cases hi : i2 with
    | none => rw [hnone2.mp hi] at hd; cases hd
    | some j =>
      obtain ⟨x, hx, _, h0, hdx⟩ := hsome2 j hi
      rw [hd] at hdx
      exact ⟨x, hx, h0, by simpa using hdx⟩
  unfold nearestMergeOld
  cases d1 with
  | inf =>
    -- left range has no candidate: the right one is taken
    simp only [Dist.lt, Bool.false_eq_true, ↓reduceIte]
    have hall1 := hinf1.mp rfl
    refine ⟨hcount, hweight, ?_, ?_, hnone2, ?_⟩
    · simp only [List.mem_append]
      rw [hinf2]
      constructor
      · rintro h y (hy | hy)
        · exact hall1 y hy
        · exact h y hy
      · intro h y hy
        exact h y (Or.inr hy)
    · intro d hd y hy hy0
      simp only [List.mem_append] at hy
      rcases hy with hy | hy
      · have := hall1 y hy
        omega
      · exact hlow2 d hd y hy hy0
    · intro j hj
      obtain ⟨y, hy, h1, h2, h3⟩ := hsome2 j hj
      exact ⟨y, List.mem_append_right _ hy, h1, h2, h3⟩
  | fin e1 =>
    obtain ⟨x1, hx1, hx10, hx1d⟩ := hatt1 e1 rfl
    cases d2 with
    | inf =>
      simp only [Dist.lt, ↓reduceIte]
      have hall2 := hinf2.mp rfl
      refine ⟨hcount, hweight, ?_, ?_, hnone1, ?_⟩
      · simp only [reduceCtorEq, List.mem_append, false_iff]
        intro h
        have := h x1 (Or.inl hx1)
        omega
      · intro d hd y hy hy0
        simp only [List.mem_append] at hy
        rcases hy with hy | hy
        · exact hlow1 d hd y hy hy0
        · have := hall2 y hy
          omega
      · intro j hj
        obtain ⟨y, hy, h1, h2, h3⟩ := hsome1 j hj
        exact ⟨y, List.mem_append_left _ hy, h1, h2, h3⟩
    | fin e2 =>
      obtain ⟨x2, hx2, hx20, hx2d⟩ := hatt2 e2 rfl
      by_cases hlt : e1 < e2
      · simp only [Dist.lt, hlt, decide_true, ↓reduceIte]
        refine ⟨hcount, hweight, ?_, ?_, hnone1, ?_⟩
        · simp only [reduceCtorEq, List.mem_append, false_iff]
          intro h
          have := h x1 (Or.inl hx1)
          omega
        · intro d hd y hy hy0
          simp only [Dist.fin.injEq] at hd
          simp only [List.mem_append] at hy
          rcases hy with hy | hy
          · exact hlow1 d (by simp [hd]) y hy hy0
          · have := hlow2 e2 rfl y hy hy0
            omega
        · intro j hj
          obtain ⟨y, hy, h1, h2, h3⟩ := hsome1 j hj
          exact ⟨y, List.mem_append_left _ hy, h1, h2, h3⟩
      · simp only [Dist.lt, hlt, decide_false, Bool.false_eq_true, ↓reduceIte]
        refine ⟨hcount, hweight, ?_, ?_, hnone2, ?_⟩
        · simp only [reduceCtorEq, List.mem_append, false_iff]
          intro h
          have := h x1 (Or.inl hx1)
          omega
        · intro d hd y hy hy0
          simp only [Dist.fin.injEq] at hd
          simp only [List.mem_append] at hy
          rcases hy with hy | hy
          · have := hlow1 e1 rfl y hy hy0
            omega
          · exact hlow2 d (by simp [hd]) y hy hy0
        · intro j hj
          obtain ⟨y, hy, h1, h2, h3⟩ := hsome2 j hj
          exact ⟨y, List.mem_append_right _ hy, h1, h2, h3⟩

/-- The repaired reduce closure is the old one with the operands exchanged (and the sums
commuted): it prefers the LEFT operand on ties. -/
theorem nearestMerge_eq_old_swap (a b : Acc) : nearestMerge a b = nearestMergeOld b a := by
  unfold nearestMerge nearestMergeOld
  rw [Nat.add_comm a.count, Int.add_comm a.weight]

/-- `NearestSpec` does not look at the order of the range. -/
theorem nearestSpec_append_comm (target : Int) (c : Acc) (xs ys : List Item)
    (h : NearestSpec target c (ys ++ xs)) : NearestSpec target c (xs ++ ys) := by
  obtain ⟨h1, h2, h3, h4, h5, h6⟩ := h
  refine ⟨?_, ?_, ?_, ?_, h5, ?_⟩
  · rw [h1]
    simp only [List.filter_append, List.length_append]
    omega
  · rw [h2]
    simp only [List.filter_append, List.map_append, List.sum_append]
    omega
  · rw [h3]
    simp only [List.mem_append]
    constructor
    · intro h x hx; exact h x hx.symm
    · intro h x hx; exact h x hx.symm
  · intro d hd x hx
    exact h4 d hd x (by simp only [List.mem_append] at hx ⊢; exact hx.symm)
  · intro j hj
    obtain ⟨x, hx, r⟩ := h6 j hj
    exact ⟨x, by simp only [List.mem_append] at hx ⊢; exact hx.symm, r⟩

theorem nearestSpec_merge (target : Int) (a b : Acc) (xs ys : List Item)
    (ha : NearestSpec target a xs) (hb : NearestSpec target b ys) :
    NearestSpec target (nearestMerge a b) (xs ++ ys) := by
  rw [nearestMerge_eq_old_swap]
  exact nearestSpec_append_comm target _ xs ys (nearestSpec_mergeOld target b a ys xs hb ha)

/-- The reduce folder of a leaf, old closure: `nearestMergeOld nearestInit a` is `a`. -/
theorem nearestMergeOld_init_left (a : Acc) : nearestMergeOld nearestInit a = a := by
  obtain ⟨c, w, i, d⟩ := a
  simp [nearestMergeOld, nearestInit, Dist.lt]

/-- The reduce folder of a leaf: `nearestMerge nearestInit a` is `a` for every tuple a
fold can produce (no index without a distance: `(Some(_), INFINITY)` does not occur;
on it the identity's `None` would be kept). -/
theorem nearestMerge_init_left (a : Acc) (h : a.dist = .inf → a.idx = none) :
    nearestMerge nearestInit a = a := by
  obtain ⟨c, w, i, d⟩ := a
  cases d with
  | inf =>
    have := h rfl
    simp only at this
    subst this
    simp [nearestMerge, nearestInit, Dist.lt]
  | fin e => simp [nearestMerge, nearestInit, Dist.lt]

/-- The identity on the right is neutral for every tuple. -/
theorem nearestMerge_init_right (a : Acc) : nearestMerge a nearestInit = a := by
  obtain ⟨c, w, i, d⟩ := a
  cases d <;> simp [nearestMerge, nearestInit, Dist.lt]

/-- Along every split tree the tuple summarises the whole range correctly. -/
theorem parNearest_spec (target : Int) (t : SplitTree) (xs : List Item) :
    NearestSpec target (parNearest target t xs) xs := by
  unfold parNearest
  exact parFoldR_spec (nearestStep target) nearestInit nearestMerge nearestInit
    (NearestSpec target) (nearestSpec_init target) (nearestSpec_step target)
    (fun a xs h => by rw [nearestMerge_init_left a (fun hd => h.idx_none.2 hd)]; exact h)
    (nearestSpec_merge target) t xs

/-- The same for the reduce closure the code had before /repo f4e2819: count, weight and
distance were right then, too. -/
theorem parNearestOld_spec (target : Int) (t : SplitTree) (xs : List Item) :
    NearestSpec target (parNearestOld target t xs) xs := by
  unfold parNearestOld
  exact parFoldR_spec (nearestStep target) nearestInit nearestMergeOld nearestInit
    (NearestSpec target) (nearestSpec_init target) (nearestSpec_step target)
    (fun a xs h => by rw [nearestMergeOld_init_left]; exact h)
    (nearestSpec_mergeOld target) t xs

/-! ### The repaired reduce is a homomorphism: the tuple is the sequential fold's

No property of the distance function is used: `dist` may round. -/

/-- Merging on the left commutes with one step of the fold – ties included: both sides
keep the earlier candidate. -/
theorem nearestMerge_stepD (dist : Int → Int → Int) (target : Int) (a b : Acc) (x : Item) :
    nearestMerge a (nearestStepD dist target b x) =
      nearestStepD dist target (nearestMerge a b) x := by
  obtain ⟨c1, w1, i1, d1⟩ := a
  obtain ⟨c2, w2, i2, d2⟩ := b
  unfold nearestStepD nearestMerge
  simp only
  generalize dist x.coord target = e
  by_cases hneg : e < 0
  · simp only [hneg, ↓reduceIte]
    split <;> simp only [Nat.add_assoc, Int.add_assoc]
  · simp only [hneg, ↓reduceIte]
    cases d1 with
    | inf =>
      cases d2 with
      | inf => simp [Dist.lt]
      | fin e2 =>
        by_cases h : e < e2
        · simp [Dist.lt, h]
        · simp [Dist.lt, h]
    | fin e1 =>
      cases d2 with
      | inf =>
        by_cases h : e < e1
        · simp [Dist.lt, h]
        · simp [Dist.lt, h]
      | fin e2 =>
        by_cases h2 : e < e2
        · by_cases h21 : e2 < e1
          · have h1 : e < e1 := by omega
            simp [Dist.lt, h2, h21, h1]
          · by_cases h1 : e < e1
            · simp [Dist.lt, h2, h21, h1]
            · simp [Dist.lt, h2, h21, h1]
        · by_cases h21 : e2 < e1
          · simp [Dist.lt, h2, h21]
          · have h1 : ¬ e < e1 := by omega
            simp [Dist.lt, h2, h21, h1]

theorem nearestMerge_foldlD (dist : Int → Int → Int) (target : Int) (ys : List Item) :
    ∀ a b : Acc, nearestMerge a (ys.foldl (nearestStepD dist target) b) =
      ys.foldl (nearestStepD dist target) (nearestMerge a b) := by
  induction ys with
  | nil => intro a b; rfl
  | cons y ys ih =>
    intro a b
    simp only [List.foldl_cons]
    rw [ih, nearestMerge_stepD]

/-- **Along every split tree the repaired `fold(..).reduce(..)` returns the tuple of the
sequential fold – index included – for every distance function.** -/
theorem parNearestD_eq_foldl (dist : Int → Int → Int) (target : Int) (t : SplitTree) :
    ∀ xs : List Item,
      parNearestD dist target t xs = xs.foldl (nearestStepD dist target) nearestInit := by
  unfold parNearestD
  induction t with
  | leaf =>
    intro xs
    simp only [parFoldR]
    rw [nearestMerge_foldlD]
    rfl
  | node k l r ihl ihr =>
    intro xs
    simp only [parFoldR]
    rw [ihl, ihr, nearestMerge_foldlD, nearestMerge_init_right, ← List.foldl_append,
      List.take_append_drop]

theorem nearestStepD_sub : nearestStepD (fun c t => c - t) = nearestStep := rfl

theorem parNearestD_sub (target : Int) (t : SplitTree) (xs : List Item) :
    parNearestD (fun c t => c - t) target t xs = parNearest target t xs := rfl

/-- The exact case: `parNearest` along any tree is the sequential fold. -/
theorem parNearest_eq_foldl (target : Int) (t : SplitTree) (xs : List Item) :
    parNearest target t xs = xs.foldl (nearestStep target) nearestInit := by
  rw [← parNearestD_sub, parNearestD_eq_foldl]
  rfl

/-- What the sequential fold names: the FIRST item, in range order, among those at the
least non-negative (rounded) distance – every earlier item on the right of the target is
strictly farther, every later one at least as far. -/
structure FirstNearest (dist : Int → Int → Int) (target : Int) (a : Acc) (xs : List Item) :
    Prop where
  idx_none : a.idx = none ↔ a.dist = .inf
  inf_iff : a.dist = .inf ↔ ∀ x ∈ xs, dist x.coord target < 0
  first : ∀ j, a.idx = some j → ∃ pre x post, xs = pre ++ x :: post ∧ x.idx = j ∧
    0 ≤ dist x.coord target ∧ a.dist = .fin (dist x.coord target) ∧
    (∀ y ∈ pre, 0 ≤ dist y.coord target → dist x.coord target < dist y.coord target) ∧
    (∀ y ∈ post, 0 ≤ dist y.coord target → dist x.coord target ≤ dist y.coord target)

theorem FirstNearest.lower {dist : Int → Int → Int} {target : Int} {a : Acc} {xs : List Item}
    (h : FirstNearest dist target a xs) :
    ∀ e0, a.dist = .fin e0 → ∀ y ∈ xs, 0 ≤ dist y.coord target → e0 ≤ dist y.coord target := by
  intro e0 hd y hy hy0
  cases hi : a.idx with
  | none => rw [h.idx_none.1 hi] at hd; cases hd
  | some j =>
    obtain ⟨pre, z, post, e, _, _, h3, h4, h5⟩ := h.first j hi
    rw [hd] at h3
    simp only [Dist.fin.injEq] at h3
    subst e
    simp only [List.mem_append, List.mem_cons] at hy
    rcases hy with hy | rfl | hy
    · have := h4 y hy hy0; omega
    · omega
    · have := h5 y hy hy0; omega

theorem firstNearest_init (dist : Int → Int → Int) (target : Int) :
    FirstNearest dist target nearestInit [] := by
  refine ⟨?_, ?_, ?_⟩ <;> simp [nearestInit]

theorem firstNearest_step (dist : Int → Int → Int) (target : Int) (a : Acc) (xs : List Item)
    (x : Item) (h : FirstNearest dist target a xs) :
    FirstNearest dist target (nearestStepD dist target a x) (xs ++ [x]) := by
  have hlow := h.lower
  obtain ⟨c, w, i, d⟩ := a
  obtain ⟨hnone, hinf, hfirst⟩ := h
  simp only at hnone hinf hfirst hlow
  unfold nearestStepD
  simp only
  have hkeep : ∀ j, i = some j → (∀ e0, d = .fin e0 → e0 ≤ dist x.coord target ∨ dist x.coord target < 0) →
      ∃ pre z post, xs ++ [x] = pre ++ z :: post ∧ z.idx = j ∧
        0 ≤ dist z.coord target ∧ d = .fin (dist z.coord target) ∧
        (∀ y ∈ pre, 0 ≤ dist y.coord target → dist z.coord target < dist y.coord target) ∧
        (∀ y ∈ post, 0 ≤ dist y.coord target → dist z.coord target ≤ dist y.coord target) := by
    intro j hj hx
    obtain ⟨pre, z, post, e, h1, h2, h3, h4, h5⟩ := hfirst j hj
    refine ⟨pre, z, post ++ [x], by simp [e], h1, h2, h3, h4, ?_⟩
    intro y hy hy0
    simp only [List.mem_append, List.mem_singleton] at hy
    rcases hy with hy | rfl
    · exact h5 y hy hy0
    · rcases hx _ h3 with h | h <;> omega
  by_cases hneg : dist x.coord target < 0
  · simp only [hneg, ↓reduceIte]
    refine ⟨hnone, ?_, ?_⟩
    · rw [hinf]
      simp only [List.mem_append, List.mem_singleton]
      constructor
      · rintro h y (hy | rfl)
        · exact h y hy
        · exact hneg
      · intro h y hy
        exact h y (Or.inl hy)
    · intro j hj
      exact hkeep j hj (fun _ _ => Or.inr hneg)
  · simp only [hneg, ↓reduceIte]
    have hge : 0 ≤ dist x.coord target := by omega
    have hnotall : ¬ ∀ y ∈ xs ++ [x], dist y.coord target < 0 := fun h' =>
      hneg (h' x (by simp))
    by_cases hlt : Dist.lt (.fin (dist x.coord target)) d = true
    · simp only [hlt, ↓reduceIte]
      refine ⟨by simp, ⟨fun h => (by cases h), fun h => absurd h hnotall⟩, ?_⟩
      intro j hj
      simp only [Option.some.injEq] at hj
      refine ⟨xs, x, [], rfl, hj, hge, rfl, ?_, by simp⟩
      intro y hy hy0
      cases d with
      | inf =>
        have := (hinf.1 rfl) y hy
        omega
      | fin e0 =>
        have := hlow e0 rfl y hy hy0
        simp only [Dist.lt, decide_eq_true_eq] at hlt
        omega
    · simp only [hlt, Bool.false_eq_true, ↓reduceIte]
      cases d with
      | inf => simp [Dist.lt] at hlt
      | fin e0 =>
        simp only [Dist.lt, decide_eq_true_eq] at hlt
        refine ⟨hnone, ⟨fun h => (by cases h), fun h => absurd h hnotall⟩, ?_⟩
        intro j hj
        exact hkeep j hj (fun e1 he1 => by
          simp only [Dist.fin.injEq] at he1
          subst he1
          exact Or.inl (by omega))

/-- **Which item is the pivot, along every split tree**: the first one in range order at the
least non-negative (rounded) distance. -/
theorem parNearestD_first (dist : Int → Int → Int) (target : Int) (t : SplitTree)
    (xs : List Item) : FirstNearest dist target (parNearestD dist target t xs) xs := by
  rw [parNearestD_eq_foldl]
  have := foldl_spec (nearestStepD dist target) (FirstNearest dist target)
    (firstNearest_step dist target) xs [] nearestInit (firstNearest_init dist target)
  simpa using this

/-- The specification determines count, weight and distance. -/
theorem nearestSpec_unique (target : Int) (a b : Acc) (xs : List Item)
    (ha : NearestSpec target a xs) (hb : NearestSpec target b xs) :
    a.count = b.count ∧ a.weight = b.weight ∧ a.dist = b.dist := by
  refine ⟨by rw [ha.count, hb.count], by rw [ha.weight, hb.weight], ?_⟩
  have att : ∀ (c : Acc), NearestSpec target c xs → ∀ d, c.dist = .fin d →
      ∃ x ∈ xs, 0 ≤ x.coord - target ∧ d = x.coord - target := by
    intro c hc d hd
    cases hi : c.idx with
    | none => rw [hc.idx_none.mp hi] at hd; cases hd
    | some j =>
      obtain ⟨x, hx, _, h0, hdx⟩ := hc.idx_some j hi
      rw [hd] at hdx
      exact ⟨x, hx, h0, by simpa using hdx⟩
  cases hda : a.dist with
  | inf =>
    cases hdb : b.dist with
    | inf => rfl
    | fin e =>
      obtain ⟨x, hx, h0, _⟩ := att b hb e hdb
      have := (ha.inf_iff.mp hda) x hx
      omega
  | fin d =>
    cases hdb : b.dist with
    | inf =>
      obtain ⟨x, hx, h0, _⟩ := att a ha d hda
      have := (hb.inf_iff.mp hdb) x hx
      omega
    | fin e =>
      obtain ⟨x, hx, h0, hxd⟩ := att a ha d hda
      obtain ⟨y, hy, h0', hyd⟩ := att b hb e hdb
      have h1 := ha.lower d hda y hy h0'
      have h2 := hb.lower e hdb x hx h0
      have : d = e := by omega
      rw [this]

/-! ## Hilbert: per-part weights -/

/-- Weight of bucket `k` in the range `xs`. -/
def bucketSum {P} (bucket : P → Nat) (k : Nat) (xs : List (P × Int)) : Int :=
  ((xs.filter (fun x => bucket x.1 == k)).map (·.2)).sum

/-- "`pw` holds the per-bucket weights of the range `xs`". -/
def PwSpec {P} (bucket : P → Nat) (n : Nat) (pw : List Int) (xs : List (P × Int)) : Prop :=
  pw.length = n ∧ ∀ k, k < n → pw[k]? = some (bucketSum bucket k xs)

theorem pwSpec_init {P} (bucket : P → Nat) (n : Nat) :
    PwSpec bucket n (List.replicate n 0) [] := by
  refine ⟨by simp, ?_⟩
  intro k hk
  simp [bucketSum, hk]

theorem pwSpec_step {P} (bucket : P → Nat) (n : Nat) (pw : List Int) (xs : List (P × Int))
    (x : P × Int) (h : PwSpec bucket n pw xs) :
    PwSpec bucket n (pwStep bucket pw x) (xs ++ [x]) := by
  obtain ⟨hl, hk⟩ := h
  refine ⟨by simp [pwStep, addAt, hl], ?_⟩
  intro k hkn
  simp only [pwStep, addAt, List.getElem?_modify, hk k hkn, Option.map_eq_map, Option.map_some]
  by_cases hb : bucket x.1 = k
  · simp [bucketSum, List.filter_append, hb]
  · simp [bucketSum, List.filter_append, hb]

theorem pwSpec_merge {P} (bucket : P → Nat) (n : Nat) (a b : List Int) (xs ys : List (P × Int))
    (ha : PwSpec bucket n a xs) (hb : PwSpec bucket n b ys) :
    PwSpec bucket n (pwMerge a b) (xs ++ ys) := by
  obtain ⟨hla, hka⟩ := ha
  obtain ⟨hlb, hkb⟩ := hb
  refine ⟨by simp [pwMerge, hla, hlb], ?_⟩
  intro k hkn
  simp only [pwMerge, List.getElem?_zipWith, hka k hkn, hkb k hkn]
  simp [bucketSum, List.filter_append]

theorem pwSpec_unique {P} (bucket : P → Nat) (n : Nat) (a b : List Int) (xs : List (P × Int))
    (ha : PwSpec bucket n a xs) (hb : PwSpec bucket n b xs) : a = b := by
  apply List.ext_getElem?
  intro k
  by_cases hk : k < n
  · rw [ha.2 k hk, hb.2 k hk]
  · rw [List.getElem?_eq_none (by rw [ha.1]; omega), List.getElem?_eq_none (by rw [hb.1]; omega)]

/-! ## fetch_add numbering -/

theorem idxOf_inj_of_mem {l : List Nat} {x y : Nat} (hx : x ∈ l) (hy : y ∈ l)
    (h : l.idxOf x = l.idxOf y) : x = y := by
  have h1 := List.getElem_idxOf (List.idxOf_lt_length_iff.mpr hx)
  have h2 := List.getElem_idxOf (List.idxOf_lt_length_iff.mpr hy)
  rw [← h1, ← h2]
  simp only [h]

/-- Two arrival orders of the same `m` leaves number the leaves identically up
to the bijection `ρ k = position in the second order of the leaf that came k-th
in the first`. -/
theorem fetchAdd_renaming_aux (m : Nat) (o1 o2 : List Nat)
    (h1 : o1.Perm (List.range m)) (h2 : o2.Perm (List.range m)) :
    let ρ : Nat → Nat := fun k => o2.idxOf (o1.getD k 0)
    (∀ a b, a < m → b < m → ρ a = ρ b → a = b) ∧ (∀ a, a < m → ρ a < m) ∧
      (∀ leaf, leaf < m → fetchAddIds o2 leaf = ρ (fetchAddIds o1 leaf)) ∧
      (∀ leaf, leaf < m → fetchAddIds o1 leaf < m) := by
  intro ρ
  have hl1 : o1.length = m := by simpa using h1.length_eq
  have hl2 : o2.length = m := by simpa using h2.length_eq
  have hn1 : o1.Nodup := h1.nodup_iff.mpr List.nodup_range
  have hm1 : ∀ x, x ∈ o1 ↔ x < m := fun x => by rw [h1.mem_iff]; simp
  have hm2 : ∀ x, x ∈ o2 ↔ x < m := fun x => by rw [h2.mem_iff]; simp
  have hget : ∀ a, a < m → o1.getD a 0 ∈ o1 := by
    intro a ha
    have : a < o1.length := by omega
    simp [List.getD_eq_getElem?_getD, List.getElem?_eq_getElem this]
  refine ⟨?_, ?_, ?_, ?_⟩
  · intro a b ha hb hab
    have ha' : a < o1.length := by omega
    have hb' : b < o1.length := by omega
    have hx := (hm2 _).mpr ((hm1 _).mp (hget a ha))
    have hy := (hm2 _).mpr ((hm1 _).mp (hget b hb))
    have := idxOf_inj_of_mem hx hy hab
    simp only [List.getD_eq_getElem?_getD, List.getElem?_eq_getElem ha',
      List.getElem?_eq_getElem hb', Option.getD_some] at this
    exact (List.getElem_inj hn1).mp this
  · intro a ha
    have hx := (hm2 _).mpr ((hm1 _).mp (hget a ha))
    have := List.idxOf_lt_length_iff.mpr hx
    show o2.idxOf (o1.getD a 0) < m
    omega
  · intro leaf hleaf
    have hmem : leaf ∈ o1 := (hm1 _).mpr hleaf
    have hlt := List.idxOf_lt_length_iff.mpr hmem
    simp only [fetchAddIds, ρ, List.getD_eq_getElem?_getD, List.getElem?_eq_getElem hlt,
      Option.getD_some, List.getElem_idxOf hlt]
  · intro leaf hleaf
    have hmem : leaf ∈ o1 := (hm1 _).mpr hleaf
    have hlt := List.idxOf_lt_length_iff.mpr hmem
    simp only [fetchAddIds]
    omega

/-! ## Canonical renaming is invariant under injective renamings -/

theorem idxOf_map_inj (ρ : Nat → Nat) (l : List Nat) (x : Nat)
    (hinj : ∀ a b, (a ∈ l ∨ a = x) → (b ∈ l ∨ b = x) → ρ a = ρ b → a = b) :
    (l.map ρ).idxOf (ρ x) = l.idxOf x := by
  induction l with
  | nil => rfl
  | cons y ys ih =>
    simp only [List.map_cons, List.idxOf_cons]
    by_cases hyx : y = x
    · simp [hyx]
    · have : ρ y ≠ ρ x := fun h => hyx (hinj y x (Or.inl (by simp)) (Or.inr rfl) h)
      have e1 : (ρ y == ρ x) = false := by simpa using this
      have e2 : (y == x) = false := by simpa using hyx
      rw [e1, e2]
      simp only [cond_false]
      rw [ih]
      intro a b ha hb
      exact hinj a b (ha.elim (fun h => Or.inl (List.mem_cons_of_mem _ h)) Or.inr)
        (hb.elim (fun h => Or.inl (List.mem_cons_of_mem _ h)) Or.inr)

theorem canonAux_map (ρ : Nat → Nat) :
    ∀ (xs seen : List Nat),
      (∀ a b, (a ∈ seen ∨ a ∈ xs) → (b ∈ seen ∨ b ∈ xs) → ρ a = ρ b → a = b) →
      canonAux (seen.map ρ) (xs.map ρ) = canonAux seen xs := by
  intro xs
  induction xs with
  | nil => intro seen _; rfl
  | cons x xs ih =>
    intro seen hinj
    have hmem : ρ x ∈ seen.map ρ ↔ x ∈ seen := by
      constructor
      · intro h
        obtain ⟨y, hy, hyx⟩ := List.mem_map.mp h
        have := hinj y x (Or.inl hy) (Or.inr (by simp)) hyx
        rwa [← this]
      · exact fun h => List.mem_map.mpr ⟨x, h, rfl⟩
    simp only [List.map_cons, canonAux]
    by_cases hx : x ∈ seen
    · simp only [hmem, hx, ↓reduceIte]
      rw [idxOf_map_inj ρ seen x, ih seen]
      · intro a b ha hb
        exact hinj a b (ha.elim Or.inl (fun h => Or.inr (List.mem_cons_of_mem _ h)))
          (hb.elim Or.inl (fun h => Or.inr (List.mem_cons_of_mem _ h)))
      · intro a b ha hb
        exact hinj a b (ha.elim Or.inl (fun h => Or.inr (by simp [h])))
          (hb.elim Or.inl (fun h => Or.inr (by simp [h])))
    · simp only [hmem, hx, ↓reduceIte, List.length_map]
      have := ih (seen ++ [x]) (by
        intro a b ha hb
        refine hinj a b ?_ ?_
        · rcases ha with ha | ha
          · rcases List.mem_append.mp ha with h | h
            · exact Or.inl h
            · exact Or.inr (by simp at h; simp [h])
          · exact Or.inr (List.mem_cons_of_mem _ ha)
        · rcases hb with hb | hb
          · rcases List.mem_append.mp hb with h | h
            · exact Or.inl h
            · exact Or.inr (by simp at h; simp [h])
          · exact Or.inr (List.mem_cons_of_mem _ hb))
      simp only [List.map_append, List.map_cons, List.map_nil] at this
      rw [this]

/-! ## MultiJagged: the block scan does not depend on the blocks -/

theorem zipIdx_take {α} (l : List α) : ∀ (n k : Nat), (l.zipIdx n).take k = (l.take k).zipIdx n := by
  induction l with
  | nil => intro n k; simp
  | cons x xs ih =>
    intro n k
    cases k with
    | zero => simp
    | succ k => simp [List.zipIdx_cons, ih]

theorem zipIdx_drop {α} (l : List α) :
    ∀ (n k : Nat), (l.zipIdx n).drop k = (l.drop k).zipIdx (n + k) := by
  induction l with
  | nil => intro n k; simp
  | cons x xs ih =>
    intro n k
    cases k with
    | zero => simp
    | succ k =>
      simp only [List.zipIdx_cons, List.drop_succ_cons, ih]
      congr 1
      omega

/-- The enumerated weights of a slab whose first index is `off`. -/
def itemsFrom (off : Nat) (ws : List Int) : List (Nat × Int) :=
  (ws.zipIdx off).map (fun x => (x.2, x.1))

/-- The blocks of a segmentation: `(first index or MAX, weight)`. -/
def blocksOf : Nat → List (List Int) → List (Option Nat × Int)
  | _, [] => []
  | off, s :: ss => (if s = [] then none else some off, s.sum) :: blocksOf (off + s.length) ss

theorem blocksOf_append (a b : List (List Int)) :
    ∀ off, blocksOf off (a ++ b) = blocksOf off a ++ blocksOf (off + a.flatten.length) b := by
  induction a with
  | nil => intro off; simp [blocksOf]
  | cons s ss ih =>
    intro off
    simp only [List.cons_append, blocksOf, ih, List.flatten_cons, List.length_append, List.cons.injEq,
      true_and]
    congr 2
    omega

theorem foldl_blockStep_some (ws : List Int) :
    ∀ (off low : Nat) (s : Int), low ≤ off →
      (itemsFrom off ws).foldl blockStep (some low, s) = (some low, s + ws.sum) := by
  induction ws with
  | nil => intro off low s _; simp [itemsFrom]
  | cons w ws ih =>
    intro off low s h
    simp only [itemsFrom, List.zipIdx_cons, List.map_cons, List.foldl_cons, blockStep, List.sum_cons]
    have hmin : min off low = low := by omega
    rw [hmin]
    have := ih (off + 1) low (s + w) (by omega)
    simp only [itemsFrom] at this
    rw [this]
    congr 1
    omega

theorem foldl_blockStep_leaf (ws : List Int) (off : Nat) :
    (itemsFrom off ws).foldl blockStep (none, 0) = (if ws = [] then none else some off, ws.sum) := by
  cases ws with
  | nil => simp [itemsFrom]
  | cons w ws =>
    simp only [itemsFrom, List.zipIdx_cons, List.map_cons, List.foldl_cons, blockStep, List.sum_cons]
    have := foldl_blockStep_some ws (off + 1) off (0 + w) (by omega)
    simp only [itemsFrom] at this
    rw [this]
    simp

/-- Whatever the tree, the blocks are the blocks of SOME segmentation of the slab. -/
theorem parLeaves_blocks (t : SplitTree) :
    ∀ (ws : List Int) (off : Nat), ∃ segs : List (List Int), segs.flatten = ws ∧
      parLeaves blockStep (none, 0) t (itemsFrom off ws) = blocksOf off segs := by
  induction t with
  | leaf =>
    intro ws off
    refine ⟨[ws], by simp, ?_⟩
    simp [parLeaves, foldl_blockStep_leaf, blocksOf]
  | node k l r ihl ihr =>
    intro ws off
    obtain ⟨sl, hsl, hl⟩ := ihl (ws.take k) off
    obtain ⟨sr, hsr, hr⟩ := ihr (ws.drop k) (off + (ws.take k).length)
    refine ⟨sl ++ sr, by simp [hsl, hsr, List.take_append_drop], ?_⟩
    have htake : (itemsFrom off ws).take k = itemsFrom off (ws.take k) := by
      simp only [itemsFrom, ← List.map_take, zipIdx_take]
    have hdrop : (itemsFrom off ws).drop k = itemsFrom (off + (ws.take k).length) (ws.drop k) := by
      simp only [itemsFrom, ← List.map_drop, zipIdx_drop]
      by_cases hk : k ≤ ws.length
      · have : (ws.take k).length = k := by simp [hk]
        rw [this]
      · have : ws.drop k = [] := List.drop_eq_nil_of_le (by omega)
        simp [this]
    simp only [parLeaves, htake, hdrop, hl, hr, blocksOf_append, hsl]

theorem walk_eq (ws : List Int) (thr : Int) :
    ∀ (fuel idx : Nat) (sum : Int), ws.length - idx ≤ fuel →
      walk ws thr fuel idx sum = idx + firstExceed thr sum (ws.drop idx) := by
  intro fuel
  induction fuel with
  | zero =>
    intro idx sum h
    have : ws.drop idx = [] := List.drop_eq_nil_of_le (by omega)
    simp [walk, this, firstExceed]
  | succ n ih =>
    intro idx sum h
    unfold walk
    by_cases hi : idx < ws.length
    · have hd : ws.drop idx = ws[idx] :: ws.drop (idx + 1) := List.drop_eq_getElem_cons hi
      simp only [List.getElem?_eq_getElem hi, hd, firstExceed]
      by_cases hle : sum + ws[idx] ≤ thr
      · simp only [hle, ↓reduceIte]
        rw [ih (idx + 1) (sum + ws[idx]) (by omega)]
        omega
      · simp [hle]
    · have : ws.drop idx = [] := List.drop_eq_nil_of_le (by omega)
      simp [List.getElem?_eq_none (by omega : ws.length ≤ idx), this, firstExceed]

theorem sum_nonneg_of_nonneg (xs : List Int) (h : ∀ w ∈ xs, 0 ≤ w) : 0 ≤ xs.sum := by
  induction xs with
  | nil => simp
  | cons x xs ih =>
    simp only [List.sum_cons]
    have := h x (by simp)
    have := ih (fun w hw => h w (List.mem_cons_of_mem _ hw))
    omega

/-- Non-negative weights whose total stays under the threshold are skipped. -/
theorem firstExceed_skip (thr : Int) (xs ys : List Int) :
    ∀ sum, (∀ w ∈ xs, 0 ≤ w) → sum + xs.sum ≤ thr →
      firstExceed thr sum (xs ++ ys) = xs.length + firstExceed thr (sum + xs.sum) ys := by
  induction xs with
  | nil => intro sum _ _; simp
  | cons x xs ih =>
    intro sum hnn hle
    simp only [List.sum_cons] at hle
    have hx := hnn x (by simp)
    have hrest := sum_nonneg_of_nonneg xs (fun w hw => hnn w (List.mem_cons_of_mem _ hw))
    have h1 : sum + x ≤ thr := by omega
    simp only [List.cons_append, firstExceed, h1, ↓reduceIte, List.length_cons, List.sum_cons]
    rw [ih (sum + x) (fun w hw => hnn w (List.mem_cons_of_mem _ hw)) (by omega)]
    have : sum + x + xs.sum = sum + (x + xs.sum) := by omega
    rw [this]
    omega

/-- The block search stops at the start of a block of the segmentation, having
skipped a prefix whose total stays under the threshold – or runs out of blocks. -/
theorem blockSearch_spec (len : Nat) (thrB : Int) (segs : List (List Int)) :
    ∀ (off : Nat) (sum : Int), (∀ w ∈ segs.flatten, 0 ≤ w) → sum ≤ thrB →
      ∃ skipped rest : List Int, segs.flatten = skipped ++ rest ∧ sum + skipped.sum ≤ thrB ∧
        blockSearch len thrB sum (blocksOf off segs) =
          (if rest = [] then len else off + skipped.length, sum + skipped.sum) := by
  induction segs with
  | nil =>
    intro off sum _ h
    exact ⟨[], [], by simp, by simpa using h, by simp [blocksOf, blockSearch]⟩
  | cons s ss ih =>
    intro off sum hnn h
    simp only [List.flatten_cons] at hnn
    by_cases hgt : sum + s.sum > thrB
    · have hne : s ≠ [] := by
        intro he
        subst he
        simp at hgt
        omega
      refine ⟨[], s ++ ss.flatten, by simp, by simpa using h, ?_⟩
      simp [blocksOf, blockSearch, hgt, hne]
    · have hle : sum + s.sum ≤ thrB := by omega
      obtain ⟨sk, rest, hfl, hsum, hres⟩ := ih (off + s.length) (sum + s.sum)
        (fun w hw => hnn w (List.mem_append_right _ hw)) hle
      refine ⟨s ++ sk, rest, by simp [hfl], ?_, ?_⟩
      · simp only [List.sum_append]
        omega
      · simp only [blocksOf, blockSearch, hgt, ↓reduceIte, hres, List.length_append, List.sum_append]
        congr 1
        · split <;> omega
        · omega

theorem inj_of_nodup_map {α β} (f : α → β) :
    ∀ (xs : List α), (xs.map f).Nodup → ∀ a ∈ xs, ∀ b ∈ xs, f a = f b → a = b := by
  intro xs
  induction xs with
  | nil => intro _ a ha; simp at ha
  | cons x xs ih =>
    intro hn a ha b hb hab
    simp only [List.map_cons, List.nodup_cons, List.mem_map, not_exists, not_and] at hn
    rcases List.mem_cons.mp ha with rfl | ha'
    · rcases List.mem_cons.mp hb with rfl | hb'
      · rfl
      · exact absurd hab.symm (hn.1 b hb')
    · rcases List.mem_cons.mp hb with rfl | hb'
      · exact absurd hab (hn.1 a ha')
      · exact ih hn.2 a ha' b hb' hab

end Coupe.Par
