import CoupeModel.Proofs.GridRcbTree

/-!
# The `axis_weights` blocks of `recurse_2d` / `recurse_3d` meet `AwSpec`

Inside the grid no index is out of bounds; the slab weights add up to the
weight of the box whatever the order of summation (`sum_swap`); a prefix of the
slab weights is the weight of the low part of `split_at`.
-/

namespace Coupe.GridRcb

/-- `Σ_{a ∈ l} f a`. -/
def lsum (l : List Nat) (f : Nat → Int) : Int := (l.map f).sum

theorem lsum_nil (f : Nat → Int) : lsum [] f = 0 := rfl
theorem lsum_cons (a : Nat) (l : List Nat) (f : Nat → Int) : lsum (a :: l) f = f a + lsum l f := by
  simp [lsum]

theorem lsum_append (l1 l2 : List Nat) (f : Nat → Int) : lsum (l1 ++ l2) f = lsum l1 f + lsum l2 f := by
  simp [lsum, List.sum_append]

theorem lsum_congr (l : List Nat) (f g : Nat → Int) (h : ∀ a ∈ l, f a = g a) : lsum l f = lsum l g := by
  simp only [lsum, List.map_congr_left h]

theorem lsum_add (l : List Nat) (f g : Nat → Int) : lsum l (fun a => f a + g a) = lsum l f + lsum l g := by
  induction l with
  | nil => simp [lsum]
  | cons a l ih => simp only [lsum_cons, ih]; omega

theorem lsum_zero (l : List Nat) : lsum l (fun _ => 0) = 0 := by
  induction l with
  | nil => rfl
  | cons a l ih => simp only [lsum_cons, ih]; omega

theorem lsum_swap (l1 l2 : List Nat) (f : Nat → Nat → Int) :
    lsum l1 (fun a => lsum l2 (fun b => f a b)) = lsum l2 (fun b => lsum l1 (fun a => f a b)) := by
  induction l1 with
  | nil => simp only [lsum_nil]; exact (lsum_zero l2).symm
  | cons a l ih => simp only [lsum_cons, ih, lsum_add]

theorem lsum_nonneg (l : List Nat) (f : Nat → Int) (h : ∀ a ∈ l, 0 ≤ f a) : 0 ≤ lsum l f := by
  induction l with
  | nil => simp [lsum]
  | cons a l ih =>
    rw [lsum_cons]
    have := h a List.mem_cons_self
    have := ih (fun b hb => h b (List.mem_cons_of_mem _ hb))
    omega

theorem sumM_eq (l : List Nat) (f : Nat → Option Int) (g : Nat → Int) (h : ∀ i ∈ l, f i = some (g i)) :
    sumM l f = some (lsum l g) := by
  have key : ∀ (l : List Nat) (a : Int), (∀ i ∈ l, f i = some (g i)) →
      l.foldlM (fun acc i => (f i).map (acc + ·)) a = some (a + lsum l g) := by
    intro l
    induction l with
    | nil => intro a _; simp [lsum]
    | cons b l ih =>
      intro a h
      simp only [List.foldlM_cons, h b List.mem_cons_self, Option.map_some, Option.bind_eq_bind,
        Option.bind_some]
      rw [ih _ (fun i hi => h i (List.mem_cons_of_mem _ hi)), lsum_cons]
      congr 1; omega
  simpa [sumM] using key l 0 h

theorem mapM_eq (l : List Nat) (f : Nat → Option Int) (g : Nat → Int) (h : ∀ i ∈ l, f i = some (g i)) :
    l.mapM f = some (l.map g) := by
  induction l with
  | nil => simp
  | cons a l ih =>
    simp only [List.mapM_cons, h a List.mem_cons_self, ih (fun i hi => h i (List.mem_cons_of_mem _ hi))]
    rfl

/-- Slab list over `off..off+n`: length, prefixes and suffix sums. -/
theorem slab_spec (F : Nat → Int) (off n : Nat) :
    ((List.range' off n).map F).length = n ∧
    ∀ k, k ≤ n →
      lsum (List.range' off k) F = pre ((List.range' off n).map F) k ∧
      lsum (List.range' (k + off) (n - k)) F =
        ((List.range' off n).map F).sum - pre ((List.range' off n).map F) k := by
  refine ⟨by simp, fun k hk => ?_⟩
  have hsplit : List.range' off n = List.range' off k ++ List.range' (k + off) (n - k) := by
    rw [Nat.add_comm k off, List.range'_append_1]; congr 1; omega
  have h1 : pre ((List.range' off n).map F) k = lsum (List.range' off k) F := by
    rw [hsplit]
    simp only [pre, List.map_append, lsum]
    rw [List.take_left' (by simp)]
  refine ⟨h1.symm, ?_⟩
  rw [h1]
  have : ((List.range' off n).map F).sum = lsum (List.range' off k) F + lsum (List.range' (k + off) (n - k)) F := by
    rw [← lsum_append, ← hsplit]; rfl
  omega

theorem axis_lo_same (sg : SubGrid) (c k : Nat) : (sg.lo c k).axis c = List.range' (sg.offset c) k := by
  simp [SubGrid.axis, SubGrid.lo, upd_same]

theorem axis_lo_other (sg : SubGrid) (c k i : Nat) (h : i ≠ c) : (sg.lo c k).axis i = sg.axis i := by
  simp [SubGrid.axis, SubGrid.lo, upd_other _ _ _ _ h]

theorem axis_hi_same (sg : SubGrid) (c k : Nat) :
    (sg.hi c k).axis c = List.range' (k + sg.offset c) (sg.size c - k) := by
  simp [SubGrid.axis, SubGrid.hi, upd_same]

theorem axis_hi_other (sg : SubGrid) (c k i : Nat) (h : i ≠ c) : (sg.hi c k).axis i = sg.axis i := by
  simp [SubGrid.axis, SubGrid.hi, upd_other _ _ _ _ h]

theorem mem_axis (sg : SubGrid) (c v : Nat) : v ∈ sg.axis c ↔ sg.offset c ≤ v ∧ v < sg.offset c + sg.size c := by
  simp [SubGrid.axis, List.mem_range'_1]

/-- Generic assembly: if the block returns the slab list `F` over the axis and
the box weight of any sub-grid differing from `sg` only in the range along `c`
is the sum of `F` over that range, the four clauses of `AwSpec` hold at `sg, c`. -/
theorem awSpec_at (aw : SubGrid → Nat → Option (List Int)) (bw : SubGrid → Int) (sg : SubGrid) (c : Nat)
    (F : Nat → Int) (haw : aw sg c = some ((sg.axis c).map F))
    (h0 : bw sg = lsum (sg.axis c) F)
    (hlo : ∀ k, bw (sg.lo c k) = lsum ((sg.lo c k).axis c) F)
    (hhi : ∀ k, bw (sg.hi c k) = lsum ((sg.hi c k).axis c) F) :
    ∃ axisW, aw sg c = some axisW ∧ axisW.length = sg.size c ∧ axisW.sum = bw sg ∧
      ∀ k, k ≤ sg.size c →
        bw (sg.lo c k) = pre axisW k ∧ bw (sg.hi c k) = axisW.sum - pre axisW k := by
  obtain ⟨hl, hk⟩ := slab_spec F (sg.offset c) (sg.size c)
  refine ⟨_, haw, hl, by rw [h0]; rfl, fun k hkn => ?_⟩
  obtain ⟨a, b⟩ := hk k hkn
  rw [hlo, hhi, axis_lo_same, axis_hi_same]
  exact ⟨a, b⟩

/-! ## 2-D -/

/-- The cell weight as a total function. -/
def cell2 (w : Nat) (ws : Array Int) (x y : Nat) : Int := ws.getD (indexOf2 w (x, y)) 0

theorem boxWeight2_eq (w : Nat) (ws : Array Int) (sg : SubGrid) :
    boxWeight2 w ws sg = lsum (sg.axis 1) fun y => lsum (sg.axis 0) fun x => cell2 w ws x y := rfl

theorem cell2_some (w h : Nat) (ws : Array Int) (hsz : w * h ≤ ws.size) (sg : SubGrid)
    (hin : InGrid 2 (vec2 (w, h)) sg) (x y : Nat) (hx : x ∈ sg.axis 0) (hy : y ∈ sg.axis 1) :
    ws[indexOf2 w (x, y)]? = some (cell2 w ws x y) := by
  rw [mem_axis] at hx hy
  have h0 := hin 0 (by omega)
  have h1 := hin 1 (by omega)
  simp only [vec2] at h0 h1
  have := indexOf2_lt w h x y (by simp at h0; omega) (by simp at h1; omega)
  rw [cell2, Array.getD_eq_getD_getElem?, Array.getElem?_eq_getElem (by omega)]
  rfl

theorem awSpec2 (w h : Nat) (ws : Array Int) (hsz : w * h ≤ ws.size) :
    AwSpec 2 (vec2 (w, h)) (axisWeights2 w ws) (boxWeight2 w ws) := by
  intro sg c hc hin
  by_cases hc0 : c = 0
  · subst hc0
    apply awSpec_at _ _ sg 0 (fun x => lsum (sg.axis 1) fun y => cell2 w ws x y)
    · simp only [axisWeights2, if_true]
      apply mapM_eq
      intro x hx
      exact sumM_eq _ _ _ (fun y hy => cell2_some w h ws hsz sg hin x y hx hy)
    · rw [boxWeight2_eq, lsum_swap]
    · intro k; rw [boxWeight2_eq, lsum_swap, axis_lo_other sg 0 k 1 (by omega)]
    · intro k; rw [boxWeight2_eq, lsum_swap, axis_hi_other sg 0 k 1 (by omega)]
  · have hc1 : c = 1 := by omega
    subst hc1
    apply awSpec_at _ _ sg 1 (fun y => lsum (sg.axis 0) fun x => cell2 w ws x y)
    · simp only [axisWeights2, if_neg hc0]
      apply mapM_eq
      intro y hy
      exact sumM_eq _ _ _ (fun x hx => cell2_some w h ws hsz sg hin x y hx hy)
    · rw [boxWeight2_eq]
    · intro k; rw [boxWeight2_eq, axis_lo_other sg 1 k 0 (by omega)]
    · intro k; rw [boxWeight2_eq, axis_hi_other sg 1 k 0 (by omega)]

/-! ## 3-D -/

theorem tri0 (lx ly lz : List Nat) (c : Nat → Nat → Nat → Int) :
    (lsum lz fun z => lsum ly fun y => lsum lx fun x => c x y z) =
      lsum lx fun x => lsum ly fun y => lsum lz fun z => c x y z := by
  have e1 : (fun z => lsum ly fun y => lsum lx fun x => c x y z) =
      (fun z => lsum lx fun x => lsum ly fun y => c x y z) :=
    funext fun z => lsum_swap ly lx (fun y x => c x y z)
  have e2 : (fun x => lsum lz fun z => lsum ly fun y => c x y z) =
      (fun x => lsum ly fun y => lsum lz fun z => c x y z) :=
    funext fun x => lsum_swap lz ly (fun z y => c x y z)
  rw [e1, lsum_swap lz lx (fun z x => lsum ly fun y => c x y z), e2]

theorem tri1 (lx ly lz : List Nat) (c : Nat → Nat → Nat → Int) :
    (lsum lz fun z => lsum ly fun y => lsum lx fun x => c x y z) =
      lsum ly fun y => lsum lz fun z => lsum lx fun x => c x y z :=
  lsum_swap lz ly (fun z y => lsum lx fun x => c x y z)

theorem tri2 (lx ly lz : List Nat) (c : Nat → Nat → Nat → Int) :
    (lsum lz fun z => lsum ly fun y => lsum lx fun x => c x y z) =
      lsum lz fun z => lsum lx fun x => lsum ly fun y => c x y z := by
  have e1 : (fun z => lsum ly fun y => lsum lx fun x => c x y z) =
      (fun z => lsum lx fun x => lsum ly fun y => c x y z) :=
    funext fun z => lsum_swap ly lx (fun y x => c x y z)
  rw [e1]

/-- The cell weight as a total function. -/
def cell3 (w h : Nat) (ws : Array Int) (x y z : Nat) : Int := ws.getD (indexOf3 w h (x, y, z)) 0

theorem boxWeight3_eq (w h : Nat) (ws : Array Int) (sg : SubGrid) :
    boxWeight3 w h ws sg =
      lsum (sg.axis 2) fun z => lsum (sg.axis 1) fun y => lsum (sg.axis 0) fun x => cell3 w h ws x y z := rfl

theorem cell3_some (w h d : Nat) (ws : Array Int) (hsz : w * h * d ≤ ws.size) (sg : SubGrid)
    (hin : InGrid 3 (vec3 (w, h, d)) sg) (x y z : Nat) (hx : x ∈ sg.axis 0) (hy : y ∈ sg.axis 1)
    (hz : z ∈ sg.axis 2) :
    ws[indexOf3 w h (x, y, z)]? = some (cell3 w h ws x y z) := by
  rw [mem_axis] at hx hy hz
  have h0 := hin 0 (by omega)
  have h1 := hin 1 (by omega)
  have h2 := hin 2 (by omega)
  simp only [vec3] at h0 h1 h2
  have := indexOf3_lt w h d x y z (by simp at h0; omega) (by simp at h1; omega) (by simp at h2; omega)
  rw [cell3, Array.getD_eq_getD_getElem?, Array.getElem?_eq_getElem (by omega)]
  rfl

theorem awSpec3 (w h d : Nat) (ws : Array Int) (hsz : w * h * d ≤ ws.size) :
    AwSpec 3 (vec3 (w, h, d)) (axisWeights3 w h ws) (boxWeight3 w h ws) := by
  intro sg c hc hin
  by_cases hc0 : c = 0
  · subst hc0
    apply awSpec_at _ _ sg 0
      (fun x => lsum (sg.axis 1) fun y => lsum (sg.axis 2) fun z => cell3 w h ws x y z)
    · simp only [axisWeights3, if_true]
      apply mapM_eq
      intro x hx
      apply sumM_eq
      intro y hy
      exact sumM_eq _ _ _ (fun z hz => cell3_some w h d ws hsz sg hin x y z hx hy hz)
    · rw [boxWeight3_eq, tri0]
    · intro k
      rw [boxWeight3_eq, tri0, axis_lo_other sg 0 k 1 (by omega), axis_lo_other sg 0 k 2 (by omega)]
    · intro k
      rw [boxWeight3_eq, tri0, axis_hi_other sg 0 k 1 (by omega), axis_hi_other sg 0 k 2 (by omega)]
  · by_cases hc1 : c = 1
    · subst hc1
      apply awSpec_at _ _ sg 1
        (fun y => lsum (sg.axis 2) fun z => lsum (sg.axis 0) fun x => cell3 w h ws x y z)
      · simp only [axisWeights3, if_neg hc0, if_true]
        apply mapM_eq
        intro y hy
        apply sumM_eq
        intro z hz
        exact sumM_eq _ _ _ (fun x hx => cell3_some w h d ws hsz sg hin x y z hx hy hz)
      · rw [boxWeight3_eq, tri1]
      · intro k
        rw [boxWeight3_eq, tri1, axis_lo_other sg 1 k 0 (by omega), axis_lo_other sg 1 k 2 (by omega)]
      · intro k
        rw [boxWeight3_eq, tri1, axis_hi_other sg 1 k 0 (by omega), axis_hi_other sg 1 k 2 (by omega)]
    · have hc2 : c = 2 := by omega
      subst hc2
      apply awSpec_at _ _ sg 2
        (fun z => lsum (sg.axis 0) fun x => lsum (sg.axis 1) fun y => cell3 w h ws x y z)
      · simp only [axisWeights3, if_neg hc0, if_neg hc1]
        apply mapM_eq
        intro z hz
        apply sumM_eq
        intro x hx
        exact sumM_eq _ _ _ (fun y hy => cell3_some w h d ws hsz sg hin x y z hx hy hz)
      · rw [boxWeight3_eq, tri2]
      · intro k
        rw [boxWeight3_eq, tri2, axis_lo_other sg 2 k 0 (by omega), axis_lo_other sg 2 k 1 (by omega)]
      · intro k
        rw [boxWeight3_eq, tri2, axis_hi_other sg 2 k 0 (by omega), axis_hi_other sg 2 k 1 (by omega)]

/-! ## Non-negativity of slab weights -/

theorem lsum_getD_nonneg (ws : Array Int) (hnn : ∀ x ∈ ws.toList, 0 ≤ x) (i : Nat) : 0 ≤ ws.getD i 0 := by
  rw [Array.getD_eq_getD_getElem?]
  by_cases h : i < ws.size
  · rw [Array.getElem?_eq_getElem h]
    exact hnn _ (by simp)
  · rw [Array.getElem?_eq_none (by omega)]
    simp

end Coupe.GridRcb
