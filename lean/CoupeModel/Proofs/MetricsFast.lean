import CoupeModel.Model.MetricsFast
import CoupeModel.Proofs.Metrics

namespace Coupe.Metrics

theorem partA_eq (p : Array Nat) : partA p = part p.toList := by
  funext i
  simp [partA, part, Array.getD, List.getD]
  split <;> simp_all

theorem getD_toList_int (ws : Array Int) (v : Nat) : ws.getD v 0 = ws.toList.getD v 0 := by
  simp [Array.getD, List.getD]
  split <;> simp_all

theorem sumToAcc_eq (f : Nat → Int) (n : Nat) (acc : Int) : sumToAcc f n acc = acc + sumTo n f := by
  induction n generalizing acc with
  | zero => simp [sumToAcc, sumTo]
  | succ n ih => simp only [sumToAcc, sumTo, ih]; omega

theorem edgeCutTopoA_eq (t : Topo) (p : Array Nat) : edgeCutTopoA t p = edgeCutTopo t p.toList := by
  unfold edgeCutTopoA edgeCutTopo rowCutGenericA rowCutGeneric
  rw [sumToAcc_eq, partA_eq]; omega

theorem edgeCutSprsRowsA_eq (n : Nat) (rows : Nat → Row) (p : Array Nat) :
    edgeCutSprsRowsA n rows p = edgeCutSprsRows n rows p.toList := by
  unfold edgeCutSprsRowsA edgeCutSprsRows rowCutSprsA rowCutSprs
  rw [sumToAcc_eq, partA_eq]; omega

theorem lambdaRowsA_eq (n : Nat) (nbIds : Nat → List Nat) (p : Array Nat) (ws : Array Int) :
    lambdaRowsA n nbIds p ws = lambdaRows n nbIds p.toList ws.toList := by
  unfold lambdaRowsA lambdaRows lambdaRowA lambdaRow
  rw [sumToAcc_eq, partA_eq]
  have : ws.size = ws.toList.length := by simp
  rw [this]
  have h : (fun v => Int.ofNat ((partsOf (part p.toList v :: List.map (part p.toList) (nbIds v))).length - 1) * ws.getD v 0)
      = (fun v => Int.ofNat ((partsOf (part p.toList v :: List.map (part p.toList) (nbIds v))).length - 1) * ws.toList.getD v 0) := by
    funext v; rw [getD_toList_int]
  rw [h]; omega

end Coupe.Metrics
