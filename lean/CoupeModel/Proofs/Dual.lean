import CoupeModel.Model.Dual

/-!
# Lemmas about the dual-graph model (`Model/Dual.lean`)

Core Lean only.  The chain: under `Mesh.WF` every function of the model equals
a pure specification (`rowSpec`), from which the properties of `Props/C18.lean`
follow.
-/

namespace Coupe.Dual

/-! ## Element types, slices, chunks -/

theorem ElType.npe_pos (ty : ElType) : 0 < ty.npe := by
  cases ty <;> decide

theorem chunksExact_length (k : Nat) (l : List Nat) :
    (chunksExact k l).length = l.length / k := by
  simp [chunksExact]

theorem getElem?_chunksExact {k : Nat} {l : List Nat} {i : Nat} (h : i < l.length / k) :
    (chunksExact k l)[i]? = some (slice l (i * k) k) := by
  simp [chunksExact, h]

/-- All node chunks of a list of blocks, in order: element `e` of `dual`'s
numbering is entry `e`. -/
def allElems (bs : List Block) : List (List Nat) :=
  bs.flatMap (fun b => chunksExact b.ty.npe b.nodes)

theorem allElems_cons (b : Block) (bs : List Block) :
    allElems (b :: bs) = chunksExact b.ty.npe b.nodes ++ allElems bs := by
  simp [allElems]

/-- Node lists are whole numbers of elements (implied by `Mesh.WF`, and by the
MEDIT reader, which rejects short element lines). -/
def Aligned (bs : List Block) : Prop := ∀ b ∈ bs, b.nodes.length % b.ty.npe = 0

theorem elCount_chunksFrom (s : Nat) (bs : List Block) :
    elCount (chunksFrom s bs) = (allElems bs).length := by
  induction bs generalizing s with
  | nil => simp [chunksFrom, elCount, allElems]
  | cons b bs ih =>
    have := ih (s + b.nodes.length / b.ty.npe)
    simp only [elCount] at this
    simp [chunksFrom, elCount, allElems_cons, chunksExact_length, this]

/-! ## `element_to_nodes` is total on element indices -/

theorem elementToNodes_chunksFrom (bs : List Block) (hal : Aligned bs) (s i : Nat)
    (hi : i < (allElems bs).length) :
    elementToNodes (chunksFrom s bs) (s + i) = (allElems bs)[i]? := by
  induction bs generalizing s i with
  | nil => simp [allElems] at hi
  | cons b bs ih =>
    have hk := b.ty.npe_pos
    have hdiv : b.nodes.length = b.nodes.length / b.ty.npe * b.ty.npe := by
      have := hal b (by simp)
      have := Nat.div_add_mod b.nodes.length b.ty.npe
      rw [Nat.mul_comm] at this
      omega
    rw [allElems_cons]
    simp only [chunksFrom, elementToNodes]
    have h1 : ¬ (s + i < s) := by omega
    simp only [h1, if_false, Nat.add_sub_cancel_left]
    by_cases hlt : i < b.nodes.length / b.ty.npe
    · have h2 : i * b.ty.npe + b.ty.npe ≤ b.nodes.length := by
        have : (i + 1) * b.ty.npe ≤ b.nodes.length / b.ty.npe * b.ty.npe :=
          Nat.mul_le_mul_right _ hlt
        rw [Nat.add_mul] at this
        omega
      have h3 : i * b.ty.npe < b.nodes.length := by omega
      simp only [h3, h2, if_true]
      rw [List.getElem?_append_left (by simpa [chunksExact_length] using hlt)]
      exact (getElem?_chunksExact hlt).symm
    · have hge : b.nodes.length / b.ty.npe ≤ i := by omega
      have h3 : ¬ (i * b.ty.npe < b.nodes.length) := by
        have : b.nodes.length / b.ty.npe * b.ty.npe ≤ i * b.ty.npe := Nat.mul_le_mul_right _ hge
        omega
      simp only [h3, if_false]
      rw [List.getElem?_append_right (by simpa [chunksExact_length] using hge), chunksExact_length]
      have hi' : i - b.nodes.length / b.ty.npe < (allElems bs).length := by
        simp only [allElems_cons, List.length_append, chunksExact_length] at hi
        omega
      have := ih (fun b' hb' => hal b' (by simp [hb'])) (s + b.nodes.length / b.ty.npe)
        (i - b.nodes.length / b.ty.npe) hi'
      rw [← this]
      congr 1
      omega

/-! ## The inverted index `node_to_elements` -/

/-- Entry `k` of the inverted index (`[]` beyond the end). -/
def rowT (t : List (List Nat)) (k : Nat) : List Nat := (t[k]?).getD []

theorem mem_insSorted {e x : Nat} {l : List Nat} : x ∈ insSorted e l ↔ x = e ∨ x ∈ l := by
  induction l with
  | nil => simp [insSorted]
  | cons y ys ih =>
    simp only [insSorted]
    split
    · simp
    · split
      · rename_i h
        subst h
        simp
      · simp only [List.mem_cons, ih]
        grind

theorem rowT_set (t : List (List Nat)) (i k : Nat) (v : List Nat) :
    rowT (t.set i v) k = if i = k ∧ i < t.length then v else rowT t k := by
  simp only [rowT, List.getElem?_set]
  by_cases h : i = k
  · subst h
    by_cases h2 : i < t.length
    · simp [h2]
    · simp [h2]
  · simp [h]

theorem addNodes_spec (e : Nat) (ns : List Nat) (t : List (List Nat))
    (hv : ∀ x ∈ ns, x < t.length) :
    ∃ t', addNodes e ns t = some t' ∧ t'.length = t.length ∧
      ∀ k x, x ∈ rowT t' k ↔ x ∈ rowT t k ∨ (x = e ∧ k ∈ ns) := by
  induction ns generalizing t with
  | nil => exact ⟨t, rfl, rfl, by simp⟩
  | cons node ns ih =>
    have hn : node < t.length := hv node (by simp)
    obtain ⟨t', h1, h2, h3⟩ := ih (t.set node (insSorted e t[node]))
      (fun x hx => by simpa using hv x (by simp [hx]))
    refine ⟨t', ?_, by simpa using h2, ?_⟩
    · simp only [addNodes, List.getElem?_eq_getElem hn]
      exact h1
    · intro k x
      rw [h3, rowT_set]
      by_cases hk : node = k
      · subst hk
        simp only [hn, and_self, if_true, mem_insSorted, List.mem_cons, true_or, and_true]
        have : rowT t node = t[node] := by simp [rowT, hn]
        rw [this]
        grind
      · simp only [hk, false_and, if_false, List.mem_cons]
        grind

theorem addNodes_some_valid (e : Nat) (ns : List Nat) (t t' : List (List Nat))
    (h : addNodes e ns t = some t') : t'.length = t.length ∧ ∀ x ∈ ns, x < t.length := by
  induction ns generalizing t with
  | nil =>
    simp only [addNodes, Option.some.injEq] at h
    subst h
    simp
  | cons node ns ih =>
    simp only [addNodes] at h
    split at h
    · simp at h
    · next l hl =>
      have hn : node < t.length := by
        rcases List.getElem?_eq_some_iff.mp hl with ⟨hn, _⟩
        exact hn
      have := ih _ h
      simp only [List.length_set] at this
      refine ⟨this.1, ?_⟩
      intro x hx
      rcases List.mem_cons.mp hx with rfl | hx
      · exact hn
      · exact this.2 x hx

theorem buildN2E_spec (els : List (List Nat)) (t : List (List Nat)) (e0 : Nat)
    (hv : ∀ ns ∈ els, ∀ x ∈ ns, x < t.length) :
    ∃ t', buildN2E t e0 els = some t' ∧ t'.length = t.length ∧
      ∀ k x, x ∈ rowT t' k ↔
        x ∈ rowT t k ∨ ∃ i ns, els[i]? = some ns ∧ x = e0 + i ∧ k ∈ ns := by
  induction els generalizing t e0 with
  | nil => exact ⟨t, rfl, rfl, by simp⟩
  | cons ns rest ih =>
    obtain ⟨t1, h1, h2, h3⟩ := addNodes_spec e0 ns t (hv ns (by simp))
    obtain ⟨t', h4, h5, h6⟩ := ih t1 (e0 + 1)
      (fun ns' hns' x hx => by rw [h2]; exact hv ns' (by simp [hns']) x hx)
    refine ⟨t', ?_, by omega, ?_⟩
    · simp only [buildN2E, h1]
      exact h4
    · intro k x
      rw [h6, h3]
      constructor
      · rintro ((h | ⟨rfl, hk⟩) | ⟨i, ns', hi, rfl, hk⟩)
        · exact Or.inl h
        · exact Or.inr ⟨0, ns, by simp, by simp, hk⟩
        · exact Or.inr ⟨i + 1, ns', by simpa using hi, by omega, hk⟩
      · rintro (h | ⟨i, ns', hi, rfl, hk⟩)
        · exact Or.inl (Or.inl h)
        · cases i with
          | zero =>
            simp only [List.getElem?_cons_zero, Option.some.injEq] at hi
            subst hi
            exact Or.inl (Or.inr ⟨by simp, hk⟩)
          | succ i =>
            exact Or.inr ⟨i, ns', by simpa using hi, by omega, hk⟩

theorem buildN2E_some_valid (els : List (List Nat)) (t t' : List (List Nat)) (e0 : Nat)
    (h : buildN2E t e0 els = some t') :
    t'.length = t.length ∧ ∀ ns ∈ els, ∀ x ∈ ns, x < t.length := by
  induction els generalizing t e0 with
  | nil =>
    simp only [buildN2E, Option.some.injEq] at h
    subst h
    simp
  | cons ns rest ih =>
    simp only [buildN2E] at h
    split at h
    · simp at h
    · next t1 h1 =>
      have a := addNodes_some_valid _ _ _ _ h1
      have b := ih _ _ h
      refine ⟨by omega, ?_⟩
      intro ns' hns' x hx
      rcases List.mem_cons.mp hns' with rfl | hns'
      · exact a.2 x hx
      · have := b.2 ns' hns' x hx
        omega

/-- The inverted index, when it is built, lists exactly the elements that
contain the node. -/
theorem nodeToElements_spec (n : Nat) (els : List (List Nat))
    (hv : ∀ ns ∈ els, ∀ x ∈ ns, x < n) :
    ∃ t, nodeToElements n els = some t ∧ t.length = n ∧
      ∀ k x, x ∈ rowT t k ↔ ∃ ns, els[x]? = some ns ∧ k ∈ ns := by
  obtain ⟨t, h1, h2, h3⟩ := buildN2E_spec els (List.replicate n []) 0 (by simpa using hv)
  refine ⟨t, h1, by simpa using h2, ?_⟩
  intro k x
  rw [h3]
  have : rowT (List.replicate n ([] : List Nat)) k = [] := by
    simp only [rowT, List.getElem?_replicate]
    split <;> rfl
  rw [this]
  constructor
  · rintro (h | ⟨i, ns, hi, rfl, hk⟩)
    · simp at h
    · exact ⟨ns, by simpa using hi, hk⟩
  · rintro ⟨ns, hi, hk⟩
    exact Or.inr ⟨x, ns, hi, by omega, hk⟩

theorem nodeToElements_some_valid (n : Nat) (els : List (List Nat)) (t : List (List Nat))
    (h : nodeToElements n els = some t) : ∀ ns ∈ els, ∀ x ∈ ns, x < n := by
  have := (buildN2E_some_valid els _ t 0 h).2
  simpa using this

/-! ## Candidates and the neighbour filter -/

theorem candidates_spec (t : List (List Nat)) (ns : List Nat) (hv : ∀ x ∈ ns, x < t.length) :
    candidates t ns = some (ns.flatMap (rowT t)) := by
  induction ns with
  | nil => rfl
  | cons node ns ih =>
    have hn : node < t.length := hv node (by simp)
    simp only [candidates, List.getElem?_eq_getElem hn, ih (fun x hx => hv x (by simp [hx])),
      List.flatMap_cons]
    simp [rowT, hn]

theorem filterNeighbors_spec (d : Nat) (chunks : List Chunk) (e1 : Nat) (e1n : List Nat)
    (look : Nat → List Nat) (cands : List Nat)
    (h : ∀ e2 ∈ cands, e2 ≠ e1 → elementToNodes chunks e2 = some (look e2)) :
    filterNeighbors d chunks e1 e1n cands =
      some (cands.filter (fun e2 => !(e1 == e2) && decide (d ≤ commonCount e1n (look e2)))) := by
  induction cands with
  | nil => rfl
  | cons e2 rest ih =>
    have ih' := ih (fun e hm hne => h e (by simp [hm]) hne)
    simp only [filterNeighbors]
    by_cases he : e1 = e2
    · subst he
      simp [ih']
    · have hl := h e2 (by simp) (fun h' => he h'.symm)
      simp only [he, if_false, hl, ih']
      by_cases hc : d ≤ commonCount e1n (look e2)
      · simp [hc, he]
      · simp [hc]

/-! ## `sort_unstable` + `dedup` -/

theorem mem_insertNat {x y : Nat} {l : List Nat} : y ∈ insertNat x l ↔ y = x ∨ y ∈ l := by
  induction l with
  | nil => simp [insertNat]
  | cons z zs ih =>
    simp only [insertNat]
    split
    · simp
    · simp only [List.mem_cons, ih]
      grind

theorem mem_sortNat {x : Nat} {l : List Nat} : x ∈ sortNat l ↔ x ∈ l := by
  induction l with
  | nil => simp [sortNat]
  | cons z zs ih => simp [sortNat, mem_insertNat, ih]

theorem insertNat_sorted (x : Nat) {l : List Nat} (h : l.Pairwise (· ≤ ·)) :
    (insertNat x l).Pairwise (· ≤ ·) := by
  induction l with
  | nil => simp [insertNat]
  | cons z zs ih =>
    simp only [insertNat]
    rw [List.pairwise_cons] at h
    split
    · next hle =>
      refine List.pairwise_cons.mpr ⟨?_, List.pairwise_cons.mpr h⟩
      intro y hy
      rcases List.mem_cons.mp hy with rfl | hy
      · exact hle
      · exact Nat.le_trans hle (h.1 y hy)
    · next hgt =>
      refine List.pairwise_cons.mpr ⟨?_, ih h.2⟩
      intro y hy
      rcases mem_insertNat.mp hy with rfl | hy
      · omega
      · exact h.1 y hy

theorem sortNat_sorted (l : List Nat) : (sortNat l).Pairwise (· ≤ ·) := by
  induction l with
  | nil => simp [sortNat]
  | cons z zs ih => exact insertNat_sorted z ih

theorem mem_dedup {x : Nat} {l : List Nat} : x ∈ dedup l ↔ x ∈ l := by
  fun_induction dedup l with
  | case1 => simp
  | case2 => simp
  | case3 a rest ih =>
    rw [ih]
    simp
  | case4 a b rest hab ih =>
    simp only [List.mem_cons] at ih ⊢
    rw [ih]

theorem dedup_sorted {l : List Nat} (h : l.Pairwise (· ≤ ·)) : (dedup l).Pairwise (· < ·) := by
  fun_induction dedup l with
  | case1 => simp
  | case2 => simp
  | case3 a rest ih => exact ih (List.Pairwise.of_cons h)
  | case4 a b rest hab ih =>
    rw [List.pairwise_cons] at h ⊢
    refine ⟨?_, ih h.2⟩
    intro z hz
    rw [mem_dedup] at hz
    have h1 := h.1 b (by simp)
    rcases List.mem_cons.mp hz with rfl | hz
    · omega
    · have := (List.pairwise_cons.mp h.2).1 z hz
      omega

/-! ## Sequencing, the write list and its application -/

theorem mapOpt_eq_some_map {α β} {f : α → Option β} {g : α → β} {l : List α}
    (h : ∀ x ∈ l, f x = some (g x)) : mapOpt f l = some (l.map g) := by
  induction l with
  | nil => rfl
  | cons x xs ih =>
    simp [mapOpt, h x (by simp), ih (fun y hy => h y (by simp [hy]))]

theorem allWrites_cons (f : Nat → List Nat → Option (List Nat)) (c : Chunk) (cs : List Chunk) :
    allWrites f (c :: cs) =
      match chunkWrites f c with
      | none => none
      | some w => (allWrites f cs).map (w ++ ·) := by
  simp only [allWrites, mapOpt]
  cases chunkWrites f c with
  | none => rfl
  | some w =>
    cases mapOpt (chunkWrites f) cs with
    | none => rfl
    | some ws => simp

theorem allWrites_chunksFrom (f : Nat → List Nat → Option (List Nat)) (g : Nat → List Nat)
    (bs : List Block) (s : Nat)
    (h : ∀ i ns, (allElems bs)[i]? = some ns → f (s + i) ns = some (g (s + i))) :
    allWrites f (chunksFrom s bs) =
      some ((List.range (allElems bs).length).map (fun i => (s + i, g (s + i)))) := by
  induction bs generalizing s with
  | nil => simp [chunksFrom, allWrites, mapOpt, allElems]
  | cons b bs ih =>
    have hc : chunkWrites f ⟨s, b.ty.npe, b.nodes⟩ =
        some ((List.range (b.nodes.length / b.ty.npe)).map (fun i => (s + i, g (s + i)))) := by
      unfold chunkWrites
      apply mapOpt_eq_some_map
      intro i hi
      have hi' : i < b.nodes.length / b.ty.npe := by simpa using hi
      have := h i (slice b.nodes (i * b.ty.npe) b.ty.npe) (by
        rw [allElems_cons, List.getElem?_append_left (by simpa [chunksExact_length] using hi')]
        exact getElem?_chunksExact hi')
      simp [this]
    have ih' := ih (s + b.nodes.length / b.ty.npe) (by
      intro i ns hi
      have := h (b.nodes.length / b.ty.npe + i) ns (by
        rw [allElems_cons, List.getElem?_append_right (by simp [chunksExact_length])]
        simpa [chunksExact_length] using hi)
      simpa [Nat.add_assoc] using this)
    simp only [chunksFrom, allWrites_cons, hc, ih', Option.map_some, allElems_cons,
      List.length_append, chunksExact_length, List.range_add, List.map_append, List.map_map]
    congr 2
    apply List.map_congr_left
    intro i _
    simp [Nat.add_assoc]

theorem applyWrites_length (init : List (List Nat)) (ws : List (Nat × List Nat)) :
    (applyWrites init ws).length = init.length := by
  induction ws generalizing init with
  | nil => rfl
  | cons w ws ih => simp [applyWrites, List.foldl_cons] at ih ⊢; rw [ih]; simp

theorem applyWrites_cons (init : List (List Nat)) (w : Nat × List Nat) (ws : List (Nat × List Nat)) :
    applyWrites init (w :: ws) = applyWrites (init.set w.1 w.2) ws := rfl

theorem getElem?_applyWrites_of_not_mem (ws : List (Nat × List Nat)) (init : List (List Nat))
    (i : Nat) (h : i ∉ ws.map Prod.fst) : (applyWrites init ws)[i]? = init[i]? := by
  induction ws generalizing init with
  | nil => rfl
  | cons w ws ih =>
    simp only [List.map_cons, List.mem_cons, not_or] at h
    rw [applyWrites_cons, ih _ h.2, List.getElem?_set]
    have hne : ¬ w.1 = i := fun h' => h.1 h'.symm
    simp [hne]

/-- Distinct targets: every write lands, whatever comes before or after. -/
theorem getElem?_applyWrites_of_mem (ws : List (Nat × List Nat)) (init : List (List Nat))
    (hnd : (ws.map Prod.fst).Nodup) (i : Nat) (v : List Nat) (hm : (i, v) ∈ ws)
    (hi : i < init.length) : (applyWrites init ws)[i]? = some v := by
  induction ws generalizing init with
  | nil => simp at hm
  | cons w ws ih =>
    rw [List.map_cons, List.nodup_cons] at hnd
    rw [applyWrites_cons]
    rcases List.mem_cons.mp hm with rfl | hm
    · rw [getElem?_applyWrites_of_not_mem _ _ _ hnd.1]
      simp [hi]
    · exact ih _ hnd.2 hm (by simpa using hi)

theorem applyWrites_range (n : Nat) (g : Nat → List Nat) (init : List (List Nat))
    (hlen : init.length = n) :
    applyWrites init ((List.range n).map (fun i => (i, g i))) = (List.range n).map g := by
  apply List.ext_getElem?
  intro i
  have hfst : ((List.range n).map (fun i => (i, g i))).map Prod.fst = List.range n := by
    simp [List.map_map, Function.comp_def]
  by_cases hi : i < n
  · rw [getElem?_applyWrites_of_mem _ _ (by rw [hfst]; exact List.nodup_range) i (g i)
      (List.mem_map.mpr ⟨i, by simp [hi], rfl⟩) (by omega)]
    simp [hi]
  · rw [List.getElem?_eq_none (by rw [applyWrites_length]; omega),
      List.getElem?_eq_none (by simp; omega)]

theorem eq_of_fst_eq_of_nodup {ws : List (Nat × List Nat)} (hnd : (ws.map Prod.fst).Nodup)
    {x y : Nat × List Nat} (hx : x ∈ ws) (hy : y ∈ ws) (h : x.1 = y.1) : x = y := by
  induction ws with
  | nil => simp at hx
  | cons w ws ih =>
    rw [List.map_cons, List.nodup_cons] at hnd
    rcases List.mem_cons.mp hx with hxw | hxt
    · rcases List.mem_cons.mp hy with hyw | hyt
      · rw [hxw, hyw]
      · exact absurd (List.mem_map.mpr ⟨y, hyt, by rw [← h, hxw]⟩) hnd.1
    · rcases List.mem_cons.mp hy with hyw | hyt
      · exact absurd (List.mem_map.mpr ⟨x, hxt, by rw [h, hyw]⟩) hnd.1
      · exact ih hnd.2 hxt hyt

/-- Schedule independence of the raw-pointer writes: with pairwise distinct
targets every order of the writes gives the same `indice_locks`. -/
theorem applyWrites_perm {ws ws' : List (Nat × List Nat)} (hp : ws.Perm ws')
    (hnd : (ws.map Prod.fst).Nodup) (init : List (List Nat)) :
    applyWrites init ws = applyWrites init ws' := by
  unfold applyWrites
  apply List.Perm.foldl_eq' hp
  intro x hx y hy z
  by_cases h : x.1 = y.1
  · rw [eq_of_fst_eq_of_nodup hnd hx hy h]
  · exact List.set_comm _ _ h

/-! ## CSR assembly -/

theorem prefixSums_length (a : Nat) (l : List Nat) : (prefixSums a l).length = l.length + 1 := by
  induction l generalizing a with
  | nil => rfl
  | cons x xs ih => simp [prefixSums, ih]

theorem prefixSums_getD_zero (a : Nat) (l : List Nat) : (prefixSums a l).getD 0 0 = a := by
  cases l <;> simp [prefixSums]

theorem slice_prefixSums (rows : List (List Nat)) (pre : List Nat) (i : Nat) (hi : i < rows.length) :
    slice (pre ++ rows.flatten) ((prefixSums pre.length (rows.map List.length)).getD i 0)
      ((prefixSums pre.length (rows.map List.length)).getD (i + 1) 0 -
        (prefixSums pre.length (rows.map List.length)).getD i 0) = rows[i] := by
  induction rows generalizing pre i with
  | nil => simp at hi
  | cons r rows ih =>
    simp only [List.map_cons, prefixSums, List.flatten_cons]
    cases i with
    | zero =>
      simp only [List.getD_cons_zero, List.getD_cons_succ, prefixSums_getD_zero,
        Nat.add_sub_cancel_left, List.getElem_cons_zero, slice]
      rw [List.drop_left, List.take_left]
    | succ i =>
      simp only [List.getD_cons_succ, List.getElem_cons_succ]
      have := ih (pre ++ r) i (by simpa using hi)
      simp only [List.length_append, List.append_assoc] at this
      exact this

theorem prefixSums_getLastD (a : Nat) (l : List Nat) :
    (prefixSums a l).getLastD 0 = a + l.sum := by
  induction l generalizing a with
  | nil => simp [prefixSums]
  | cons x xs ih =>
    have hne : prefixSums (a + x) xs ≠ [] := by
      intro h
      have := prefixSums_length (a + x) xs
      rw [h] at this
      simp at this
    obtain ⟨y, ys, hy⟩ := List.exists_cons_of_ne_nil hne
    have := ih (a + x)
    rw [hy] at this
    simp only [prefixSums, hy, List.sum_cons]
    simp only [List.getLastD_cons] at this ⊢
    omega

/-- The raw-pointer row copies tile the buffer: with the prefix sums as start
offsets they produce the concatenation of the rows. -/
theorem copyRows_prefixSums (rows : List (List Nat)) (pre : List Nat) :
    copyRows (pre ++ List.replicate ((rows.map List.length).sum) 0)
      (prefixSums pre.length (rows.map List.length)) rows = pre ++ rows.flatten := by
  induction rows generalizing pre with
  | nil => simp [prefixSums, copyRows]
  | cons r rows ih =>
    simp only [List.map_cons, List.sum_cons, prefixSums, copyRows, List.flatten_cons]
    have hc : copyRow (pre ++ List.replicate (r.length + (rows.map List.length).sum) 0) pre.length r
        = (pre ++ r) ++ List.replicate ((rows.map List.length).sum) 0 := by
      simp only [copyRow, List.take_left, List.drop_append, List.drop_replicate,
        Nat.add_sub_cancel_left, List.append_assoc]
      rw [List.drop_eq_nil_of_le (Nat.le_add_right _ _)]
      rfl
    rw [hc]
    have := ih (pre ++ r)
    simp only [List.length_append, List.append_assoc] at this ⊢
    exact this

theorem assemble_eq (rows : List (List Nat)) :
    assemble rows =
      { size := rows.length, indptr := prefixSums 0 (rows.map List.length),
        indices := rows.flatten, dataLen := rows.flatten.length } := by
  have h := copyRows_prefixSums rows []
  simp only [List.length_nil, List.nil_append] at h
  simp only [assemble, prefixSums_getLastD, Nat.zero_add, h, prefixSums_length, List.length_map,
    Nat.add_sub_cancel]

theorem row_assemble (rows : List (List Nat)) (i : Nat) (hi : i < rows.length) :
    (assemble rows).row i = rows[i] := by
  have := slice_prefixSums rows [] i hi
  rw [assemble_eq]
  simpa [Csr.row] using this

theorem size_assemble (rows : List (List Nat)) : (assemble rows).size = rows.length := by
  rw [assemble_eq]

/-! ## The rows of `dual` equal their specification -/

/-- Nodes of element `e` (`[]` beyond the end). -/
def nodesOf (els : List (List Nat)) (e : Nat) : List Nat := (els[e]?).getD []

/-- Specification of one adjacency row. -/
def rowSpec (d : Nat) (els t : List (List Nat)) (e1 : Nat) : List Nat :=
  dedup (sortNat (((nodesOf els e1).flatMap (rowT t)).filter
    (fun e2 => !(e1 == e2) && decide (d ≤ commonCount (nodesOf els e1) (nodesOf els e2)))))

/-- What `nodeToElements_spec` says of a table. -/
def IsIndex (els t : List (List Nat)) : Prop :=
  ∀ k x, x ∈ rowT t k ↔ ∃ ns, els[x]? = some ns ∧ k ∈ ns

theorem neighbors_spec (d : Nat) (bs : List Block) (hal : Aligned bs) (t : List (List Nat))
    (ht : IsIndex (allElems bs) t)
    (hv : ∀ ns ∈ allElems bs, ∀ x ∈ ns, x < t.length)
    (e1 : Nat) (e1n : List Nat) (he : (allElems bs)[e1]? = some e1n) :
    neighbors d (chunksFrom 0 bs) t e1 e1n = some (rowSpec d (allElems bs) t e1) := by
  have hmem : e1n ∈ allElems bs := List.mem_of_getElem? he
  have hn : nodesOf (allElems bs) e1 = e1n := by simp [nodesOf, he]
  unfold neighbors
  rw [candidates_spec t e1n (hv e1n hmem)]
  simp only
  rw [filterNeighbors_spec d _ e1 e1n (nodesOf (allElems bs))]
  · simp only [rowSpec, hn]
  · intro e2 h2 _
    obtain ⟨k, _, hk⟩ := List.mem_flatMap.mp h2
    obtain ⟨ns, hns, _⟩ := (ht k e2).mp hk
    have hlt : e2 < (allElems bs).length := (List.getElem?_eq_some_iff.mp hns).1
    have := elementToNodes_chunksFrom bs hal 0 e2 hlt
    rw [Nat.zero_add] at this
    rw [this, hns]
    simp [nodesOf, hns]

theorem rowsWith_spec (sched : List (Nat × List Nat) → List (Nat × List Nat))
    (hs : ∀ ws, (sched ws).Perm ws)
    (d : Nat) (bs : List Block) (hal : Aligned bs) (t : List (List Nat))
    (ht : IsIndex (allElems bs) t)
    (hv : ∀ ns ∈ allElems bs, ∀ x ∈ ns, x < t.length) :
    rowsWith sched d (chunksFrom 0 bs) t =
      some ((List.range (allElems bs).length).map (rowSpec d (allElems bs) t)) := by
  have hw := allWrites_chunksFrom (neighbors d (chunksFrom 0 bs) t) (rowSpec d (allElems bs) t) bs 0
    (by
      intro i ns hi
      rw [Nat.zero_add]
      exact neighbors_spec d bs hal t ht hv i ns hi)
  simp only [Nat.zero_add] at hw
  simp only [rowsWith, hw, Option.map_some, elCount_chunksFrom]
  have hfst : ((List.range (allElems bs).length).map
      (fun i => (i, rowSpec d (allElems bs) t i))).map Prod.fst = List.range (allElems bs).length := by
    simp [List.map_map, Function.comp_def]
  rw [applyWrites_perm (hs _)
    (((hs _).map Prod.fst).nodup_iff.mpr (by rw [hfst]; exact List.nodup_range))]
  rw [applyWrites_range _ _ _ (by simp)]

/-! ## From `Mesh.WF` to the hypotheses above -/

theorem Block.elements_of_wf (b : Block) (h : b.nodes.length = b.refs * b.ty.npe) :
    b.elements = chunksExact b.ty.npe b.nodes := by
  unfold Block.elements
  apply List.take_of_length_le
  rw [chunksExact_length, h, Nat.mul_div_cancel _ b.ty.npe_pos]
  exact Nat.le_refl _

theorem flatMap_congr' {α β} {f g : α → List β} {l : List α} (h : ∀ x ∈ l, f x = g x) :
    l.flatMap f = l.flatMap g := by
  induction l with
  | nil => rfl
  | cons x xs ih =>
    rw [List.flatMap_cons, List.flatMap_cons, h x (by simp), ih (fun y hy => h y (by simp [hy]))]

theorem elements_eq_allElems (d : Nat) (m : Mesh) (hwf : m.WF) :
    elements d m = allElems (keptBlocks d m) := by
  unfold elements allElems
  apply flatMap_congr'
  intro b hb
  exact Block.elements_of_wf b (hwf b (List.mem_filter.mp hb).1)

theorem aligned_of_wf (d : Nat) (m : Mesh) (hwf : m.WF) : Aligned (keptBlocks d m) := by
  intro b hb
  rw [hwf b (List.mem_filter.mp hb).1]
  exact Nat.mul_mod_left _ _

/-- Every node of a cell names a node of the mesh. -/
def CellsValid (m : Mesh) (d : Nat) : Prop := ∀ ns ∈ elements d m, ∀ x ∈ ns, x < m.nodeCount

/-- The main equation: on a well-formed mesh whose cells only name existing
nodes, `dual` – under any schedule of its writes – returns the CSR assembly of
the specified rows. -/
theorem runWith_eq (sched : List (Nat × List Nat) → List (Nat × List Nat))
    (hs : ∀ ws, (sched ws).Perm ws) (m : Mesh) (d : Nat) (hwf : m.WF)
    (hd : topDim m = some d) (hv : CellsValid m d) :
    ∃ t, nodeToElements m.nodeCount (elements d m) = some t ∧ IsIndex (elements d m) t ∧
      runWith sched m =
        .ok (assemble ((List.range (elements d m).length).map (rowSpec d (elements d m) t))) := by
  obtain ⟨t, h1, h2, h3⟩ := nodeToElements_spec m.nodeCount (elements d m) hv
  refine ⟨t, h1, h3, ?_⟩
  have hel := elements_eq_allElems d m hwf
  have hrows := rowsWith_spec sched hs d (keptBlocks d m) (aligned_of_wf d m hwf) t
    (by rw [← hel]; exact h3) (by rw [← hel, h2]; exact hv)
  simp only [runWith, hd]
  rw [h1]
  simp only
  rw [hrows, hel]

theorem runWith_ok_valid (sched : List (Nat × List Nat) → List (Nat × List Nat))
    (m : Mesh) (d : Nat) (g : Csr) (hd : topDim m = some d) (h : runWith sched m = .ok g) :
    CellsValid m d := by
  simp only [runWith, hd] at h
  split at h
  · simp at h
  · next t ht => exact nodeToElements_some_valid _ _ _ ht

/-- Shape of every successful run on a well-formed mesh. -/
theorem run_ok_eq (m : Mesh) (d : Nat) (g : Csr) (hwf : m.WF) (hd : topDim m = some d)
    (h : run m = .ok g) :
    ∃ t, IsIndex (elements d m) t ∧
      g = assemble ((List.range (elements d m).length).map (rowSpec d (elements d m) t)) := by
  obtain ⟨t, _, ht, heq⟩ := runWith_eq id (fun _ => List.Perm.refl _) m d hwf hd
    (runWith_ok_valid id m d g hd h)
  refine ⟨t, ht, ?_⟩
  unfold run at h
  rw [heq] at h
  exact (Outcome.ok.inj h).symm

/-! ## Membership in a specified row -/

theorem mem_rowSpec_imp {d : Nat} {els t : List (List Nat)} (ht : IsIndex els t) {e1 e2 : Nat}
    (h : e2 ∈ rowSpec d els t e1) :
    e1 ≠ e2 ∧ e2 < els.length ∧ d ≤ commonCount (nodesOf els e1) (nodesOf els e2) := by
  simp only [rowSpec, mem_dedup, mem_sortNat, List.mem_filter, Bool.and_eq_true,
    Bool.not_eq_true', beq_eq_false_iff_ne, decide_eq_true_eq] at h
  obtain ⟨hc, hne, hcc⟩ := h
  obtain ⟨k, _, hk⟩ := List.mem_flatMap.mp hc
  obtain ⟨ns, hns, _⟩ := (ht k e2).mp hk
  exact ⟨hne, (List.getElem?_eq_some_iff.mp hns).1, hcc⟩

theorem mem_rowSpec {d : Nat} (hd1 : 1 ≤ d) {els t : List (List Nat)} (ht : IsIndex els t)
    {e1 e2 : Nat} :
    e2 ∈ rowSpec d els t e1 ↔
      e1 ≠ e2 ∧ e2 < els.length ∧ d ≤ commonCount (nodesOf els e1) (nodesOf els e2) := by
  refine ⟨mem_rowSpec_imp ht, ?_⟩
  rintro ⟨hne, hlt, hcc⟩
  simp only [rowSpec, mem_dedup, mem_sortNat, List.mem_filter, Bool.and_eq_true,
    Bool.not_eq_true', beq_eq_false_iff_ne, decide_eq_true_eq]
  refine ⟨?_, hne, hcc⟩
  -- the inverted index loses no candidate: at least one shared node since `d ≥ 1`
  have hpos : 0 < ((nodesOf els e1).filter (fun x => (nodesOf els e2).contains x)).length := by
    unfold commonCount at hcc
    omega
  obtain ⟨x, hx⟩ := List.exists_mem_of_length_pos hpos
  rw [List.mem_filter] at hx
  refine List.mem_flatMap.mpr ⟨x, hx.1, (ht x e2).mpr ⟨nodesOf els e2, ?_, ?_⟩⟩
  · simp [nodesOf, List.getElem?_eq_getElem hlt]
  · simpa using hx.2

theorem rowSpec_sorted (d : Nat) (els t : List (List Nat)) (e1 : Nat) :
    (rowSpec d els t e1).Pairwise (· < ·) :=
  dedup_sorted (sortNat_sorted _)

/-! ## Shared-node count of elements without repeated nodes -/

theorem commonCount_comm {a b : List Nat} (ha : a.Nodup) (hb : b.Nodup) :
    commonCount a b = commonCount b a := by
  unfold commonCount
  apply List.Perm.length_eq
  rw [List.perm_ext_iff_of_nodup (ha.filter _) (hb.filter _)]
  intro x
  simp only [List.mem_filter, List.contains_eq_mem, decide_eq_true_eq]
  exact And.comm

/-! ## Schedules -/

/-- The output does not depend on the order in which the pool performs the
writes to `indice_locks` (panics included). -/
theorem runWith_eq_run (sched : List (Nat × List Nat) → List (Nat × List Nat))
    (hs : ∀ ws, (sched ws).Perm ws) (m : Mesh) (hwf : m.WF) : runWith sched m = run m := by
  cases hd : topDim m with
  | none => simp [run, runWith, hd]
  | some d =>
    cases hn : nodeToElements m.nodeCount (elements d m) with
    | none => simp [run, runWith, hd, hn]
    | some t =>
      have hv : CellsValid m d := nodeToElements_some_valid _ _ _ hn
      obtain ⟨t1, a1, _, e1⟩ := runWith_eq sched hs m d hwf hd hv
      obtain ⟨t2, a2, _, e2⟩ := runWith_eq id (fun _ => List.Perm.refl _) m d hwf hd hv
      have : t1 = t2 := Option.some.inj (a1.symm.trans a2)
      subst this
      rw [e1, run, e2]

/-! ## Counts -/

theorem length_allElems (bs : List Block) : (allElems bs).length = (bs.map Block.count).sum := by
  induction bs with
  | nil => rfl
  | cons b bs ih => simp [allElems_cons, chunksExact_length, ih, Block.count]

theorem not_ignored_eq (d : Nat) (hd : d ≠ 1) (ty : ElType) : (!ignored d ty) = (ty.dim == d) := by
  by_cases h : ty.dim = d
  · have hne : (ty == ElType.edge) = false := by
      cases ty <;> first | rfl | exact absurd h.symm hd
    simp [ignored, h, hne]
  · have h1 : (ty.dim != d) = true := by simpa using h
    have h2 : (ty.dim == d) = false := by simpa using h
    simp [ignored, h1, h2]

theorem keptBlocks_eq_of_ne_one (d : Nat) (hd : d ≠ 1) (m : Mesh) :
    keptBlocks d m = m.blocks.filter (fun b => b.ty.dim == d) := by
  unfold keptBlocks
  congr 1
  funext b
  exact not_ignored_eq d hd b.ty

theorem usedElementCount_eq (m : Mesh) (d : Nat) (hwf : m.WF) (hd : topDim m = some d)
    (h1 : d ≠ 1) : usedElementCount m = (elements d m).length := by
  rw [elements_eq_allElems d m hwf, length_allElems, keptBlocks_eq_of_ne_one d h1]
  simp [usedElementCount, hd]

/-! ## Rows of the returned matrix -/

/-- Nodes of cell `i`: the `i`-th element of the highest dimension `d`, edges
excluded, in block order. -/
def cell (m : Mesh) (d i : Nat) : List Nat := nodesOf (elements d m) i

/-- Number of cells. -/
def cellCount (m : Mesh) (d : Nat) : Nat := (elements d m).length

theorem rows_of_run (m : Mesh) (d : Nat) (g : Csr) (hwf : m.WF) (hd : topDim m = some d)
    (h : run m = .ok g) :
    ∃ t, IsIndex (elements d m) t ∧ g.size = cellCount m d ∧
      ∀ i, i < g.size → g.row i = rowSpec d (elements d m) t i := by
  obtain ⟨t, ht, rfl⟩ := run_ok_eq m d g hwf hd h
  refine ⟨t, ht, by simp [size_assemble, cellCount], ?_⟩
  intro i hi
  rw [size_assemble] at hi
  rw [row_assemble _ i hi]
  simp

end Coupe.Dual
