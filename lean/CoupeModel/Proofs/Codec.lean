import CoupeModel.Model.Codec

/-!
# Lemmas for C19 (codecs): little-endian integers, partition and weight files
-/

namespace Coupe.Codec

theorem toLE_length (k n : Nat) : (toLE k n).length = k := by
  induction k generalizing n with
  | zero => rfl
  | succ k ih => simp [toLE, ih]

theorem toLE_lt (k n : Nat) : ∀ b ∈ toLE k n, b < 256 := by
  induction k generalizing n with
  | zero => simp [toLE]
  | succ k ih =>
    intro b hb
    simp only [toLE, List.mem_cons] at hb
    rcases hb with h | h
    · omega
    · exact ih _ _ h

theorem fromLE_toLE (k n : Nat) (h : n < 256 ^ k) : fromLE (toLE k n) = n := by
  induction k generalizing n with
  | zero => simp at h; subst h; rfl
  | succ k ih =>
    simp only [toLE, fromLE]
    rw [ih (n / 256) (by rw [Nat.pow_succ] at h; omega)]
    omega

theorem fromLE_toLE8 (n : Nat) (h : n < 18446744073709551616) : fromLE (toLE 8 n) = n :=
  fromLE_toLE 8 n (by simpa using h)

theorem fromLE_toLE4 (n : Nat) (h : n < 4294967296) : fromLE (toLE 4 n) = n :=
  fromLE_toLE 4 n (by simpa using h)

theorem readN_append (k : Nat) (x rest : List Nat) (h : x.length = k) :
    readN k (x ++ rest) = some (x, rest) := by
  subst h
  simp [readN]

theorem readN_toLE (k n : Nat) (rest : List Nat) :
    readN k (toLE k n ++ rest) = some (toLE k n, rest) :=
  readN_append k _ rest (toLE_length k n)

theorem readN_cons4 (a b c d : Nat) (rest : List Nat) :
    readN 4 (a :: b :: c :: d :: rest) = some ([a, b, c, d], rest) := by
  simp [readN]

theorem toI64_ofI64 (i : Int) (h1 : -9223372036854775808 ≤ i) (h2 : i < 9223372036854775808) :
    toI64 (ofI64 i) = i := by
  unfold toI64 ofI64
  split <;> omega

theorem ofI64_lt (i : Int) : ofI64 i < 18446744073709551616 := by
  unfold ofI64; omega

/-! ### partition -/

theorem readU64s_flatMap (ids rest : List Nat) (h : ∀ i ∈ ids, i < 18446744073709551616) :
    readU64s ids.length (ids.flatMap (toLE 8) ++ rest) = .ok ids := by
  induction ids with
  | nil => rfl
  | cons a as ih =>
    simp only [List.flatMap_cons, List.length_cons, List.append_assoc, readU64s, readN_toLE]
    rw [ih (fun i hi => h i (List.mem_cons_of_mem _ hi)), fromLE_toLE8 a (h a (List.mem_cons_self))]

theorem readU64s_short (n : Nat) (b : List Nat) (h : b.length < 8 * n) :
    readU64s n b = .error .eof := by
  induction n generalizing b with
  | zero => omega
  | succ n ih =>
    by_cases h8 : 8 ≤ b.length
    · simp only [readU64s, readN, if_pos h8]
      rw [ih (b.drop 8) (by rw [List.length_drop]; omega)]
    · simp only [readU64s, readN, if_neg h8]

/-! ### weights -/

theorem flatMap_toLE8_length (r : List Nat) : (r.flatMap (toLE 8)).length = r.length * 8 := by
  induction r with
  | nil => rfl
  | cons a as ih => simp [toLE_length, ih]; omega

theorem decode8s_flatMap (r : List Nat) (h : ∀ x ∈ r, x < 18446744073709551616) :
    decode8s r.length (r.flatMap (toLE 8)) = r := by
  induction r with
  | nil => rfl
  | cons a as ih =>
    have hl := toLE_length 8 a
    simp only [List.flatMap_cons, List.length_cons, decode8s]
    rw [List.take_left' hl, List.drop_left' hl, ih (fun x hx => h x (List.mem_cons_of_mem _ hx)),
      fromLE_toLE8 a (h a List.mem_cons_self)]

theorem readRows_flatMap (c : Nat) (rows : List (List Nat)) (rest : List Nat)
    (h : ∀ r ∈ rows, r.length = c ∧ ∀ x ∈ r, x < 18446744073709551616) :
    readRows c rows.length (rows.flatMap (fun r => r.flatMap (toLE 8)) ++ rest) = .ok rows := by
  induction rows with
  | nil => rfl
  | cons r rs ih =>
    obtain ⟨hc, hr⟩ := h r List.mem_cons_self
    have hl : (r.flatMap (toLE 8)).length = c * 8 := by rw [flatMap_toLE8_length, hc]
    simp only [List.flatMap_cons, List.length_cons, List.append_assoc, readRows,
      readN_append _ _ _ hl]
    rw [ih (fun r' hr' => h r' (List.mem_cons_of_mem _ hr'))]
    subst hc
    rw [decode8s_flatMap r hr]

/-- The writer/reader pair on 64-bit patterns, non-empty array, `1 ≤ c ≤ 65535`. -/
theorem decode_encodeRows (flag : Nat) (rows : List (List Nat)) (c : Nat)
    (hne : rows ≠ []) (hc1 : 1 ≤ c) (hc2 : c ≤ 65535)
    (hlen : rows.length < 384307168202282325)
    (h : ∀ r ∈ rows, r.length = c ∧ ∀ x ∈ r, x < 18446744073709551616) :
    ∃ b, encodeRows flag rows = .ok b ∧
      decodeWeights b =
        if flag % 2 = 1 then .ok (.ints (rows.map (·.map toI64))) else .ok (.floats rows) := by
  cases rows with
  | nil => exact absurd rfl hne
  | cons first rs =>
    have hf : first.length = c := (h first List.mem_cons_self).1
    refine ⟨_, by simp only [encodeRows, hf]; rw [if_neg (by omega)], ?_⟩
    have hcap : capOk 24 (rs.length + 1) = true := by
      simp only [capOk, decide_eq_true_eq]; simp only [List.length_cons] at hlen; omega
    have hn : fromLE (toLE 8 (rs.length + 1)) = rs.length + 1 :=
      fromLE_toLE8 _ (by simp only [List.length_cons] at hlen; omega)
    have hcc : c % 256 + 256 * (c / 256 % 256) = c := by omega
    have hrows := readRows_flatMap c (first :: rs) [] h
    rw [List.append_nil] at hrows
    simp only [decodeWeights, magicMeWe, List.cons_append, List.nil_append, readN_cons4,
      ne_eq, not_true_eq_false, if_false, List.length_cons]
    have h2 : toLE 2 c = [c % 256, c / 256 % 256] := rfl
    rw [h2]
    simp only [List.cons_append, List.nil_append, readN_cons4, not_true_eq_false, if_false, hcc]
    rw [if_neg (by omega), readN_toLE]
    simp only [hn, hcap, not_true_eq_false, if_false]
    simp only [List.length_cons] at hrows
    rw [hrows]

end Coupe.Codec
