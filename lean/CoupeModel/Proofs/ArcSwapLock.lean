import CoupeModel.Proofs.ArcSwapWf

/-!
# ArcSwap model, part 2: the vertex-lock protocol

`LS` abstracts a program counter to its role in the lock protocol, `LStep` is the
protocol's transition relation, `LockInv` the protocol invariant:

* `held`/`uniq`: `locks[v]` is set iff exactly one task holds `v`;
* `J`: if task `i` holds `v` and has already read the lock of `u` as free (`passed`),
  any other task holding `u` acquired it later, hence has not yet read the lock of `v`
  (`pending`: it will find it set and give up) or has already given up (`raced`).

`LockInv` is preserved by every protocol step on a graph with symmetric adjacency
(`lockInv_step`), and every model step is a protocol step (`stepTask_LStep`).
Consequence (`LockInv.excl`): two adjacent vertices are never both validated-held.
-/

namespace Coupe.ArcSwap

inductive LS where
  | free
  /-- holds `v`, has read the locks of its first `k` neighbours as free -/
  | checking (v k : Nat)
  /-- holds `v`, has read all neighbour locks as free -/
  | valid (v : Nat)
  /-- holds `v`, saw a locked neighbour, about to release -/
  | raced (v : Nat)
deriving DecidableEq

def Pc.ls : Pc → LS
  | .nbrLock v k => .checking v k
  | .ownPart v => .valid v
  | .gainRd v _ _ _ _ _ => .valid v
  | .store v _ _ _ => .valid v
  | .unlock v .raced => .raced v
  | .unlock v _ => .valid v
  | _ => .free

def LS.holds : LS → Option Nat
  | .free => none
  | .checking v _ => some v
  | .valid v => some v
  | .raced v => some v

/-- `b` is (at some position) in the adjacency row of `a`. -/
def Adj (g : Graph) (a b : Nat) : Prop := ∃ j, j < deg g a ∧ nbr g a j = b

def SymAdj (g : Graph) : Prop := ∀ a b, Adj g a b → Adj g b a

def LSOk (g : Graph) : LS → Prop
  | .free => True
  | .checking v k => v < g.length ∧ k < deg g v
  | .valid v => v < g.length
  | .raced v => v < g.length

def passed (g : Graph) : LS → Nat → Prop
  | .checking v k, u => ∃ j, j < k ∧ nbr g v j = u
  | .valid v, u => Adj g v u
  | _, _ => False

def pending (g : Graph) : LS → Nat → Prop
  | .checking u k, v => ∃ j, k ≤ j ∧ j < deg g u ∧ nbr g u j = v
  | .raced _, _ => True
  | _, _ => False

inductive LStep (g : Graph) (locks : List Bool) : LS → Event → LS → Prop
  | acquire (v : Nat) : v < g.length → locks.getD v false = false →
      LStep g locks .free (.cas v true) (if deg g v = 0 then .valid v else .checking v 0)
  | check (v k : Nat) :
      LStep g locks (.checking v k) (.lockLoad (nbr g v k) (locks.getD (nbr g v k) false))
        (if locks.getD (nbr g v k) false then .raced v
         else if k + 1 < deg g v then .checking v (k + 1) else .valid v)
  | release (l : LS) (v : Nat) : (l = .valid v ∨ l = .raced v) → LStep g locks l (.lockStore v false) .free
  | silent (l : LS) (ev : Event) : ev.applyLocks locks = locks → LStep g locks l ev l

structure LockInv (g : Graph) (locks : List Bool) (L : Nat → Option LS) : Prop where
  len : locks.length = g.length
  ok : ∀ i l, L i = some l → LSOk g l
  held : ∀ v, locks.getD v false = true ↔ ∃ i l, L i = some l ∧ l.holds = some v
  uniq : ∀ i j li lj v, L i = some li → L j = some lj → li.holds = some v → lj.holds = some v → i = j
  J : ∀ i j li lj v u, i ≠ j → L i = some li → L j = some lj → li.holds = some v → lj.holds = some u →
        passed g li u → pending g lj v

theorem getD_set_self {α} (l : List α) (i : Nat) (x d : α) (h : i < l.length) : (l.set i x).getD i d = x := by
  simp [List.getD_eq_getElem?_getD, List.getElem?_set, h]

theorem getD_set_ne {α} (l : List α) (i j : Nat) (x d : α) (h : i ≠ j) : (l.set i x).getD j d = l.getD j d := by
  simp [List.getD_eq_getElem?_getD, List.getElem?_set, h]

theorem LSOk.holds_lt {g : Graph} {l : LS} {v : Nat} (h : LSOk g l) (hv : l.holds = some v) : v < g.length := by
  cases l with
  | free => simp [LS.holds] at hv
  | checking a k => simp only [LS.holds, Option.some.injEq] at hv; subst hv; exact h.1
  | valid a => simp only [LS.holds, Option.some.injEq] at hv; subst hv; exact h
  | raced a => simp only [LS.holds, Option.some.injEq] at hv; subst hv; exact h

/-- The protocol invariant is preserved by a protocol step of task `tid`. -/
theorem lockInv_step {g : Graph} (hsym : SymAdj g) {locks : List Bool} {L L' : Nat → Option LS}
    {tid : Nat} {l l' : LS} {ev : Event}
    (hinv : LockInv g locks L) (hl : L tid = some l) (hst : LStep g locks l ev l')
    (hL' : ∀ i, L' i = if i = tid then some l' else L i) :
    LockInv g (ev.applyLocks locks) L' := by
  have hLtid : L' tid = some l' := by rw [hL']; simp
  have hLne : ∀ i, i ≠ tid → L' i = L i := fun i hi => by rw [hL']; simp [hi]
  cases hst with
  | silent _ _ hsame =>
    have hLL : ∀ i, L' i = L i := by
      intro i; by_cases hi : i = tid
      · subst hi; rw [hLtid, hl]
      · exact hLne i hi
    have : L' = L := funext hLL
    rw [hsame, this]; exact hinv
  | release _ v hv =>
    have hholds : l.holds = some v := by rcases hv with rfl | rfl <;> rfl
    have hvlt : v < locks.length := by rw [hinv.len]; exact (hinv.ok tid l hl).holds_lt hholds
    simp only [Event.applyLocks]
    refine ⟨by simp [hinv.len], ?_, ?_, ?_, ?_⟩
    · intro i li hi
      by_cases hit : i = tid
      · subst hit; rw [hLtid] at hi; cases hi; trivial
      · rw [hLne i hit] at hi; exact hinv.ok i li hi
    · intro x
      by_cases hx : v = x
      · subst hx
        rw [getD_set_self _ _ _ _ hvlt]
        simp only [Bool.false_eq_true, false_iff, not_exists, not_and]
        intro i li hi hh
        by_cases hit : i = tid
        · subst hit; rw [hLtid] at hi; cases hi; simp [LS.holds] at hh
        · rw [hLne i hit] at hi
          exact hit (hinv.uniq i tid li l v hi hl hh hholds)
      · rw [getD_set_ne _ _ _ _ _ hx, hinv.held x]
        constructor
        · rintro ⟨i, li, hi, hh⟩
          have hit : i ≠ tid := by
            rintro rfl; rw [hl] at hi; cases hi; rw [hholds] at hh; cases hh; exact hx rfl
          exact ⟨i, li, by rw [hLne i hit]; exact hi, hh⟩
        · rintro ⟨i, li, hi, hh⟩
          have hit : i ≠ tid := by
            rintro rfl; rw [hLtid] at hi; cases hi; simp [LS.holds] at hh
          exact ⟨i, li, by rw [← hLne i hit]; exact hi, hh⟩
    · intro i j li lj x hi hj hhi hhj
      have hit : i ≠ tid := by rintro rfl; rw [hLtid] at hi; cases hi; simp [LS.holds] at hhi
      have hjt : j ≠ tid := by rintro rfl; rw [hLtid] at hj; cases hj; simp [LS.holds] at hhj
      rw [hLne i hit] at hi; rw [hLne j hjt] at hj
      exact hinv.uniq i j li lj x hi hj hhi hhj
    · intro i j li lj x u hij hi hj hhi hhj hp
      have hit : i ≠ tid := by rintro rfl; rw [hLtid] at hi; cases hi; simp [LS.holds] at hhi
      have hjt : j ≠ tid := by rintro rfl; rw [hLtid] at hj; cases hj; simp [LS.holds] at hhj
      rw [hLne i hit] at hi; rw [hLne j hjt] at hj
      exact hinv.J i j li lj x u hij hi hj hhi hhj hp
  | acquire v hvn hfree =>
    have hvlt : v < locks.length := by rw [hinv.len]; exact hvn
    have hholds' : (if deg g v = 0 then LS.valid v else LS.checking v 0).holds = some v := by
      split_ifs <;> rfl
    -- nobody holds `v` before the step
    have hnobody : ∀ i li, L i = some li → li.holds ≠ some v := by
      intro i li hi hh
      have := (hinv.held v).2 ⟨i, li, hi, hh⟩
      rw [hfree] at this; cases this
    simp only [Event.applyLocks]
    refine ⟨by simp [hinv.len], ?_, ?_, ?_, ?_⟩
    · intro i li hi
      by_cases hit : i = tid
      · subst hit; rw [hLtid] at hi; cases hi
        split_ifs with hd
        · exact hvn
        · exact ⟨hvn, by omega⟩
      · rw [hLne i hit] at hi; exact hinv.ok i li hi
    · intro x
      by_cases hx : v = x
      · subst hx
        rw [getD_set_self _ _ _ _ hvlt]
        simp only [true_iff]
        exact ⟨tid, _, hLtid, hholds'⟩
      · rw [getD_set_ne _ _ _ _ _ hx, hinv.held x]
        constructor
        · rintro ⟨i, li, hi, hh⟩
          have hit : i ≠ tid := by
            rintro rfl; rw [hl] at hi; cases hi; simp [LS.holds] at hh
          exact ⟨i, li, by rw [hLne i hit]; exact hi, hh⟩
        · rintro ⟨i, li, hi, hh⟩
          have hit : i ≠ tid := by
            rintro rfl; rw [hLtid] at hi; cases hi; rw [hholds'] at hh; cases hh; exact hx rfl
          exact ⟨i, li, by rw [← hLne i hit]; exact hi, hh⟩
    · intro i j li lj x hi hj hhi hhj
      by_cases hit : i = tid
      · by_cases hjt : j = tid
        · rw [hit, hjt]
        · exfalso
          subst hit; rw [hLtid] at hi; cases hi
          rw [hholds'] at hhi; cases hhi
          rw [hLne j hjt] at hj
          exact hnobody j lj hj hhj
      · by_cases hjt : j = tid
        · exfalso
          subst hjt; rw [hLtid] at hj; cases hj
          rw [hholds'] at hhj; cases hhj
          rw [hLne i hit] at hi
          exact hnobody i li hi hhi
        · rw [hLne i hit] at hi; rw [hLne j hjt] at hj
          exact hinv.uniq i j li lj x hi hj hhi hhj
    · intro i j li lj x u hij hi hj hhi hhj hp
      by_cases hit : i = tid
      · -- the acquiring task has passed nobody yet
        exfalso
        subst hit; rw [hLtid] at hi; cases hi
        revert hp
        split_ifs with hd
        · rintro ⟨jj, hjj, -⟩; omega
        · rintro ⟨jj, hjj, -⟩; omega
      · rw [hLne i hit] at hi
        by_cases hjt : j = tid
        · subst hjt; rw [hLtid] at hj; cases hj
          rw [hholds'] at hhj; cases hhj
          -- `i` holds `x` and has passed `u`: `u` is adjacent to `x`, hence `x` to `u`
          have hadj : Adj g x v := by
            cases li with
            | free => simp [LS.holds] at hhi
            | checking a k =>
              simp only [LS.holds, Option.some.injEq] at hhi; subst hhi
              obtain ⟨jj, hjj, he⟩ := hp
              have := (hinv.ok i _ hi).2
              exact ⟨jj, by omega, he⟩
            | valid a =>
              simp only [LS.holds, Option.some.injEq] at hhi; subst hhi
              exact hp
            | raced a => exact hp.elim
          obtain ⟨jj, hjj, he⟩ := hsym x v hadj
          have hd : deg g v ≠ 0 := by omega
          simp only [hd, if_false]
          exact ⟨jj, by omega, hjj, he⟩
        · rw [hLne j hjt] at hj
          exact hinv.J i j li lj x u hij hi hj hhi hhj hp
  | check v k =>
    have hok := hinv.ok tid _ hl
    have hholds : (LS.checking v k).holds = some v := rfl
    have hholds' : (if locks.getD (nbr g v k) false then LS.raced v
         else if k + 1 < deg g v then LS.checking v (k + 1) else LS.valid v).holds = some v := by
      split_ifs <;> rfl
    simp only [Event.applyLocks]
    -- holders are the same before and after
    have hsame : ∀ i x, (∃ li, L' i = some li ∧ li.holds = some x) ↔ (∃ li, L i = some li ∧ li.holds = some x) := by
      intro i x
      by_cases hit : i = tid
      · subst hit
        rw [hLtid, hl]
        constructor
        · rintro ⟨li, hi, hh⟩; cases hi; rw [hholds'] at hh; exact ⟨_, rfl, by rw [hholds]; exact hh⟩
        · rintro ⟨li, hi, hh⟩; cases hi; rw [hholds] at hh; exact ⟨_, rfl, by rw [hholds']; exact hh⟩
      · rw [hLne i hit]
    refine ⟨hinv.len, ?_, ?_, ?_, ?_⟩
    · intro i li hi
      by_cases hit : i = tid
      · subst hit; rw [hLtid] at hi; cases hi
        split_ifs with h1 h2
        · exact hok.1
        · exact ⟨hok.1, h2⟩
        · exact hok.1
      · rw [hLne i hit] at hi; exact hinv.ok i li hi
    · intro x
      rw [hinv.held x]
      constructor
      · rintro ⟨i, li, hi, hh⟩
        obtain ⟨li', h1, h2⟩ := (hsame i x).2 ⟨li, hi, hh⟩
        exact ⟨i, li', h1, h2⟩
      · rintro ⟨i, li, hi, hh⟩
        obtain ⟨li', h1, h2⟩ := (hsame i x).1 ⟨li, hi, hh⟩
        exact ⟨i, li', h1, h2⟩
    · intro i j li lj x hi hj hhi hhj
      obtain ⟨li', h1, h2⟩ := (hsame i x).1 ⟨li, hi, hhi⟩
      obtain ⟨lj', h3, h4⟩ := (hsame j x).1 ⟨lj, hj, hhj⟩
      exact hinv.uniq i j li' lj' x h1 h3 h2 h4
    · intro i j li lj x u hij hi hj hhi hhj hp
      -- a holder of `nbr g v k` makes the lock read return `true`
      have hlocked : ∀ m lm, L m = some lm → lm.holds = some (nbr g v k) → locks.getD (nbr g v k) false = true :=
        fun m lm hm hh => (hinv.held _).2 ⟨m, lm, hm, hh⟩
      by_cases hit : i = tid
      · subst hit
        have hjt : j ≠ i := fun h => hij h.symm
        rw [hLne j hjt] at hj
        rw [hLtid] at hi; cases hi
        rw [hholds'] at hhi; cases hhi
        revert hp
        split_ifs with h1 h2
        · exact fun hp => hp.elim
        · rintro ⟨jj, hjj, he⟩
          by_cases hjk : jj = k
          · subst hjk; subst he; exact absurd (hlocked j lj hj hhj) h1
          · exact hinv.J i j _ lj v u hij hl hj hholds hhj ⟨jj, by omega, he⟩
        · rintro ⟨jj, hjj, he⟩
          by_cases hjk : jj = k
          · subst hjk; subst he; exact absurd (hlocked j lj hj hhj) h1
          · exact hinv.J i j _ lj v u hij hl hj hholds hhj ⟨jj, by have := hok.2; omega, he⟩
      · rw [hLne i hit] at hi
        by_cases hjt : j = tid
        · subst hjt
          rw [hLtid] at hj; cases hj
          rw [hholds'] at hhj; cases hhj
          have hold := hinv.J i j li _ x v hij hi hl hhi hholds hp
          obtain ⟨jj, hkj, hjd, he⟩ := hold
          split_ifs with h1 h2
          · trivial
          · by_cases hjk : jj = k
            · subst hjk; subst he; exact absurd (hlocked i li hi hhi) h1
            · exact ⟨jj, by omega, hjd, he⟩
          · by_cases hjk : jj = k
            · subst hjk; subst he; exact absurd (hlocked i li hi hhi) h1
            · omega
        · rw [hLne j hjt] at hj
          exact hinv.J i j li lj x u hij hi hj hhi hhj hp

/-- Two adjacent vertices are never both validated-held. -/
theorem LockInv.excl {g : Graph} {locks : List Bool} {L : Nat → Option LS} (h : LockInv g locks L)
    {i j v u : Nat} (hij : i ≠ j) (hi : L i = some (.valid v)) (hj : L j = some (.valid u)) :
    ¬ Adj g v u := by
  intro hadj
  exact h.J i j _ _ v u hij hi hj rfl rfl hadj

theorem popCut_ls (t : Task) : (popCut t).pc.ls = .free := by
  unfold popCut nextScan
  split
  · split_ifs <;> rfl
  · rfl

theorem nextScan_ls (t : Task) : (nextScan t).pc.ls = .free := by
  unfold nextScan
  split_ifs <;> rfl

theorem postNext_ls (c : Cfg) (t : Task) (mv k : Nat) : (postNext c t mv k).pc.ls = .free := by
  unfold postNext
  split_ifs
  · rfl
  · exact popCut_ls t

theorem decideMove_ls (c : Cfg) (tmax : List Int) (t : Task) (v ip tgt : Nat) (gain : Int) :
    (decideMove c tmax t v ip tgt gain).pc.ls = .valid v := by
  unfold decideMove
  split_ifs <;> rfl

theorem nextTarget_zero_ne_none {pcount ip : Nat} (h : 2 ≤ pcount) : nextTarget pcount ip 0 ≠ none := by
  unfold nextTarget
  simp only
  split_ifs <;> simp_all <;> omega

/-- Every step of the model is a step of the lock protocol; a part store is only done
by a task that holds the vertex validated. -/
theorem stepTask_LStep {c : Cfg} (hpc2 : 2 ≤ c.partCount) {parts : List Nat} {locks : List Bool}
    {tmax : List Int} {t t' : Task} {ev : Event} (hok : PcOk c c.g.length t.pc)
    (hs : stepTask c parts locks tmax t = some (t', ev)) :
    LStep c.g locks t.pc.ls ev t'.pc.ls ∧ (∀ v p, ev = .partStore v p → t.pc.ls = .valid v) := by
  unfold stepTask at hs
  split at hs
  · -- notStarted
    next hpcv =>
    simp only [Option.some.injEq, Prod.mk.injEq] at hs
    obtain ⟨ht', rfl⟩ := hs
    have hE : t'.pc.ls = .free := by
      rw [← ht']; show (if t.lo < t.hi then Pc.scanOwn t.lo else Pc.atEnd).ls = LS.free
      split_ifs <;> rfl
    rw [hE, hpcv]
    exact ⟨.silent _ _ rfl, by simp⟩
  · -- scanOwn
    next v hpcv =>
    simp only [Option.some.injEq, Prod.mk.injEq] at hs
    obtain ⟨ht', rfl⟩ := hs
    have hE : t'.pc.ls = .free := by
      rw [← ht']; split_ifs
      · exact nextScan_ls t
      · rfl
    rw [hE, hpcv]
    exact ⟨.silent _ _ rfl, by simp⟩
  · -- scanNbr
    next v ip k hpcv =>
    simp only [Option.some.injEq, Prod.mk.injEq] at hs
    obtain ⟨ht', rfl⟩ := hs
    have hE : t'.pc.ls = .free := by
      rw [← ht']; split_ifs
      · exact popCut_ls _
      · rfl
      · exact nextScan_ls t
    rw [hE, hpcv]
    exact ⟨.silent _ _ rfl, by simp⟩
  · -- cas
    next v hpcv =>
    rw [hpcv] at hok
    have hvn : v < c.g.length := by simpa only [PcOk] using hok
    split_ifs at hs with h1 h2
    · simp only [Option.some.injEq, Prod.mk.injEq] at hs
      obtain ⟨ht', rfl⟩ := hs
      have hE : t'.pc.ls = .free := by rw [← ht']; exact popCut_ls _
      rw [hE, hpcv]
      exact ⟨.silent _ _ rfl, by simp⟩
    · simp only [Option.some.injEq, Prod.mk.injEq] at hs
      obtain ⟨ht', rfl⟩ := hs
      have hE : t'.pc.ls = .valid v := by rw [← ht']; rfl
      rw [hE, hpcv]
      have := LStep.acquire (g := c.g) (locks := locks) v hvn (by simpa using h1)
      simp only [h2, if_true] at this
      exact ⟨this, by simp⟩
    · simp only [Option.some.injEq, Prod.mk.injEq] at hs
      obtain ⟨ht', rfl⟩ := hs
      have hE : t'.pc.ls = .checking v 0 := by rw [← ht']; rfl
      rw [hE, hpcv]
      have := LStep.acquire (g := c.g) (locks := locks) v hvn (by simpa using h1)
      simp only [h2, if_false] at this
      exact ⟨this, by simp⟩
  · -- nbrLock
    next v k hpcv =>
    simp only [Option.some.injEq, Prod.mk.injEq] at hs
    obtain ⟨ht', rfl⟩ := hs
    have hE : t'.pc.ls = (if locks.getD (nbr c.g v k) false then LS.raced v
         else if k + 1 < deg c.g v then LS.checking v (k + 1) else LS.valid v) := by
      rw [← ht']; split_ifs <;> rfl
    rw [hE, hpcv]
    exact ⟨LStep.check v k, by simp⟩
  · -- ownPart
    next v hpcv =>
    simp only [Option.some.injEq, Prod.mk.injEq] at hs
    obtain ⟨ht', rfl⟩ := hs
    have hE : t'.pc.ls = .valid v := by
      rw [← ht']; split_ifs
      · rfl
      · split
        · next hn => exact absurd hn (nextTarget_zero_ne_none hpc2)
        · rfl
    rw [hE, hpcv]
    exact ⟨.silent _ _ rfl, by simp⟩
  · -- gainRd
    next v ip tgt k acc best hpcv =>
    simp only [Option.some.injEq, Prod.mk.injEq] at hs
    obtain ⟨ht', rfl⟩ := hs
    have hE : t'.pc.ls = .valid v := by
      rw [← ht']; split_ifs
      · rfl
      · split
        · rfl
        · exact decideMove_ls ..
    rw [hE, hpcv]
    exact ⟨.silent _ _ rfl, by simp⟩
  · -- store
    next v ip tgt gain hpcv =>
    simp only [Option.some.injEq, Prod.mk.injEq] at hs
    obtain ⟨ht', rfl⟩ := hs
    have hE : t'.pc.ls = .valid v := by rw [← ht']; rfl
    rw [hE, hpcv]
    refine ⟨.silent _ _ rfl, ?_⟩
    intro v' p h; cases h; rfl
  · -- unlock
    next v a hpcv =>
    simp only [Option.some.injEq, Prod.mk.injEq] at hs
    obtain ⟨ht', rfl⟩ := hs
    have hE : t'.pc.ls = .free := by
      rw [← ht']; split
      · split_ifs
        · exact popCut_ls t
        · rfl
      · exact popCut_ls t
    rw [hE, hpcv]
    refine ⟨.release _ v ?_, by simp⟩
    cases a <;> simp [Pc.ls]
  · -- postNbr
    next mv k hpcv =>
    simp only [Option.some.injEq, Prod.mk.injEq] at hs
    obtain ⟨ht', rfl⟩ := hs
    have hE : t'.pc.ls = .free := by
      rw [← ht']; split_ifs
      · exact postNext_ls ..
      · split <;> rfl
    rw [hE, hpcv]
    exact ⟨.silent _ _ rfl, by simp⟩
  · -- postGain
    next mv k np tgt k2 acc best hpcv =>
    simp only [Option.some.injEq, Prod.mk.injEq] at hs
    obtain ⟨ht', rfl⟩ := hs
    have hE : t'.pc.ls = .free := by
      rw [← ht']; split_ifs
      · rfl
      · split
        · rfl
        · exact postNext_ls ..
      · split
        · rfl
        · exact postNext_ls ..
    rw [hE, hpcv]
    exact ⟨.silent _ _ rfl, by simp⟩
  · -- atEnd
    next hpcv =>
    simp only [Option.some.injEq, Prod.mk.injEq] at hs
    obtain ⟨ht', rfl⟩ := hs
    have hE : t'.pc.ls = .free := by rw [← ht']; rfl
    rw [hE, hpcv]
    exact ⟨.silent _ _ rfl, by simp⟩
  · simp at hs
  · simp at hs

end Coupe.ArcSwap
