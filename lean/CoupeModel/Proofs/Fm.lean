import CoupeModel.Model.Fm

/-!
# Lemmas about the FiducciaMattheyses model (`Model/Fm.lean`)

Part 1: lists (`load`, `ham`, `restore`), selection.
Part 2: the pass invariant `Inv` and its preservation by `applyMove`, `movesLoop`,
`onePass`, `passLoop`.
-/

namespace Coupe.Fm

/-- Number of positions at which two id arrays differ ("relabelled vertices"). -/
def ham : List Nat → List Nat → Nat
  | a :: as, b :: bs => (if a = b then 0 else 1) + ham as bs
  | _, _ => 0

/-- Moves kept over all passes: `Σ (moves_i - rewound_i)`. -/
def kept : List Nat → List Nat → Nat
  | m :: ms, r :: rs => (m - r) + kept ms rs
  | _, _ => 0

/-! ## `load`, `ham` -/

theorem load_set (ws : List Int) (p : List Nat) (v x k : Nat)
    (hv : v < p.length) (hl : p.length = ws.length) :
    load ws (p.set v x) k =
      load ws p k - (if partOf p v = k then wOf ws v else 0) + (if x = k then wOf ws v else 0) := by
  induction ws generalizing p v with
  | nil => simp at hl; simp [hl] at hv
  | cons w ws ih =>
    cases p with
    | nil => simp at hv
    | cons i ids =>
      cases v with
      | zero =>
        simp only [List.set_cons_zero, load, partOf, wOf, List.getD_cons_zero]
        omega
      | succ v =>
        simp only [List.set_cons_succ, load, partOf, wOf, List.getD_cons_succ]
        have := ih ids v (by simpa using hv) (by simpa using hl)
        simp only [partOf, wOf] at this
        omega

theorem ham_self (p : List Nat) : ham p p = 0 := by
  induction p with
  | nil => rfl
  | cons a as ih => simp [ham, ih]

theorem ham_set (q p : List Nat) (v x : Nat) : ham q (p.set v x) ≤ ham q p + 1 := by
  induction q generalizing p v with
  | nil => simp [ham]
  | cons a as ih =>
    cases p with
    | nil => simp [ham]
    | cons b bs =>
      cases v with
      | zero => simp only [List.set_cons_zero, ham]; split <;> split <;> omega
      | succ v =>
        simp only [List.set_cons_succ, ham]
        have := ih bs v
        omega

theorem ham_triangle (a b c : List Nat) (h1 : a.length = b.length) (h2 : b.length = c.length) :
    ham a c ≤ ham a b + ham b c := by
  induction a generalizing b c with
  | nil => simp [ham]
  | cons x xs ih =>
    cases b with
    | nil => simp at h1
    | cons y ys =>
      cases c with
      | nil => simp at h2
      | cons z zs =>
        simp only [ham]
        have := ih ys zs (by simpa using h1) (by simpa using h2)
        split <;> split <;> split <;> omega

/-! ## `restore` -/

theorem restore_append (ws : List Int) (l1 l2 : List (Nat × Nat)) (s : List Nat × Int × Int) :
    restore ws (l1 ++ l2) s = restore ws l2 (restore ws l1 s) := by
  induction l1 generalizing s with
  | nil => rfl
  | cons e l1 ih =>
    obtain ⟨v, ip⟩ := e
    obtain ⟨part, a, b⟩ := s
    simp only [List.cons_append, restore, ih]

theorem restore_length (ws : List Int) (l : List (Nat × Nat)) (s : List Nat × Int × Int) :
    (restore ws l s).1.length = s.1.length := by
  induction l generalizing s with
  | nil => rfl
  | cons e l ih =>
    obtain ⟨v, ip⟩ := e
    obtain ⟨part, a, b⟩ := s
    simp only [restore, ih, List.length_set]

/-- `restore` commutes with a write to a vertex that is not in the list. -/
theorem restore_comm (ws : List Int) (l : List (Nat × Nat)) (part : List Nat) (a b da db : Int)
    (v x : Nat) (hv : ∀ e ∈ l, e.1 ≠ v) :
    restore ws l (part.set v x, a + da, b + db) =
      (((restore ws l (part, a, b)).1).set v x, (restore ws l (part, a, b)).2.1 + da,
        (restore ws l (part, a, b)).2.2 + db) := by
  induction l generalizing part a b with
  | nil => rfl
  | cons e l ih =>
    obtain ⟨u, ip⟩ := e
    have hne : u ≠ v := hv (u, ip) (by simp)
    have hv' : ∀ e ∈ l, e.1 ≠ v := fun e he => hv e (by simp [he])
    simp only [restore]
    rw [List.set_comm _ _ (Ne.symm hne)]
    have e1 : (if ip = 0 then a + da + wOf ws u else a + da - wOf ws u) =
        (if ip = 0 then a + wOf ws u else a - wOf ws u) + da := by split <;> omega
    have e2 : (if ip = 0 then b + db - wOf ws u else b + db + wOf ws u) =
        (if ip = 0 then b - wOf ws u else b + wOf ws u) + db := by split <;> omega
    rw [e1, e2, ih _ _ _ hv']

theorem restore_getD (ws : List Int) (l : List (Nat × Nat)) (s : List Nat × Int × Int) (v : Nat)
    (hv : ∀ e ∈ l, e.1 ≠ v) : (restore ws l s).1.getD v 0 = s.1.getD v 0 := by
  induction l generalizing s with
  | nil => rfl
  | cons e l ih =>
    obtain ⟨u, ip⟩ := e
    obtain ⟨part, a, b⟩ := s
    have hne : u ≠ v := hv (u, ip) (by simp)
    simp only [restore]
    rw [ih _ (fun e he => hv e (by simp [he]))]
    simp [List.getD_eq_getElem?_getD, List.getElem?_set_ne hne]

/-! ## selection -/

theorem foldl_min_mem {α} (f : α → Int) (t : α) (ts : List α) :
    ∃ x ∈ t :: ts, f x = ts.foldl (fun a x => min a (f x)) (f t) := by
  induction ts generalizing t with
  | nil => exact ⟨t, by simp, rfl⟩
  | cons y ys ih =>
    simp only [List.foldl_cons]
    by_cases h : f t ≤ f y
    · rw [Int.min_eq_left h]
      obtain ⟨x, hx, e⟩ := ih t
      refine ⟨x, ?_, e⟩
      simp only [List.mem_cons] at hx ⊢
      rcases hx with hx | hx
      · exact Or.inl hx
      · exact Or.inr (Or.inr hx)
    · rw [Int.min_eq_right (by omega)]
      obtain ⟨x, hx, e⟩ := ih y
      exact ⟨x, by simp only [List.mem_cons] at hx ⊢; exact Or.inr hx, e⟩

theorem mem_freeAdm {ws : List Int} {cap : Int} {st : PassSt} {v : Nat} {gn : Int}
    (h : (v, gn) ∈ freeAdm ws cap st) :
    v < st.gains.length ∧ st.gains.getD v none = some gn ∧ ¬ cap < targetW ws st v := by
  simp only [freeAdm, List.mem_filterMap, List.mem_range] at h
  obtain ⟨u, hu, hm⟩ := h
  split at hm
  · next gu hgu =>
    split at hm
    · simp at hm
    · next hc =>
      simp only [Option.some.injEq, Prod.mk.injEq] at hm
      obtain ⟨rfl, rfl⟩ := hm
      exact ⟨hu, hgu, hc⟩
  · simp at hm

theorem select_spec {ws : List Int} {cap : Int} {st : PassSt} {gn : Int} {s : List Nat}
    (h : select ws cap st = some (gn, s)) :
    s ≠ [] ∧ ∀ v ∈ s, v < st.gains.length ∧ st.gains.getD v none = some gn ∧
      ¬ cap < targetW ws st v := by
  simp only [select] at h
  split at h
  · simp at h
  · next e es hfa =>
    split at h
    · simp at h
    · next t ts htop =>
      simp only [Option.some.injEq, Prod.mk.injEq] at h
      obtain ⟨hg, hs⟩ := h
      constructor
      · obtain ⟨x, hx, hfx⟩ := foldl_min_mem (targetW ws st) t ts
        intro hnil
        have : x ∈ s := by
          rw [← hs, List.mem_filter]
          exact ⟨hx, by simp [hfx]⟩
        simp [hnil] at this
      · intro v hv
        rw [← hs, List.mem_filter] at hv
        have hv1 : v ∈ ((e :: es).filter (fun x => x.2 == es.foldl (fun a x => max a x.2) e.2)).map (·.1) := by
          rw [htop]; exact hv.1
        simp only [List.mem_map, List.mem_filter] at hv1
        obtain ⟨⟨v', gv⟩, ⟨hmem, hgv⟩, rfl⟩ := hv1
        have hgv' : gv = gn := by
          have : gv = es.foldl (fun a x => max a x.2) e.2 := by simpa using hgv
          rw [this, hg]
        subst hgv'
        exact mem_freeAdm (hfa ▸ hmem)

theorem pick_mem (c : Nat) (s : List Nat) (h : s ≠ []) : pick c s ∈ s := by
  have hl : 0 < s.length := List.length_pos_iff.mpr h
  have : c % s.length < s.length := Nat.mod_lt _ hl
  simp only [pick, List.getD_eq_getElem?_getD, List.getElem?_eq_getElem this, Option.getD_some]
  exact List.getElem_mem _

/-! ## `updNbrs` -/

theorem updNbrs_length {mpg : Int} {part : List Nat} {ip : Nat} {row : Row}
    {gs gs' : List (Option Int)} (h : updNbrs mpg part ip row gs = .ok gs') :
    gs'.length = gs.length := by
  induction row generalizing gs with
  | nil => simp only [updNbrs, Except.ok.injEq] at h; rw [← h]
  | cons e row ih =>
    obtain ⟨u, w⟩ := e
    simp only [updNbrs] at h
    split at h
    · exact ih h
    · have key : ∀ ug : Int, (if inRange mpg ug = true then updNbrs mpg part ip row (gs.set u (some ug))
          else Except.error Abort.bucketIndex) = Except.ok gs' → gs'.length = gs.length := by
        intro ug h
        split at h
        · rw [ih h, List.length_set]
        · simp at h
      split at h <;> exact key _ h

theorem updNbrs_none {mpg : Int} {part : List Nat} {ip : Nat} {row : Row}
    {gs gs' : List (Option Int)} (h : updNbrs mpg part ip row gs = .ok gs') (v : Nat)
    (hv : gs.getD v none = none) : gs'.getD v none = none := by
  induction row generalizing gs with
  | nil => simp only [updNbrs, Except.ok.injEq] at h; rw [← h]; exact hv
  | cons e row ih =>
    obtain ⟨u, w⟩ := e
    simp only [updNbrs] at h
    split at h
    · exact ih h hv
    · next og hog =>
      have key : ∀ ug : Int, (if inRange mpg ug = true then updNbrs mpg part ip row (gs.set u (some ug))
          else Except.error Abort.bucketIndex) = Except.ok gs' → gs'.getD v none = none := by
        intro ug h
        split at h
        · refine ih h ?_
          have hne : u ≠ v := by
            intro e; subst e; rw [hv] at hog; simp at hog
          simpa [List.getD_eq_getElem?_getD, List.getElem?_set_ne hne] using hv
        · simp at h
      split at h <;> exact key _ h

/-! ## the pass invariant -/

theorem set_getD_self (l : List Nat) (v : Nat) (hv : v < l.length) : l.set v (l.getD v 0) = l := by
  apply List.ext_getElem (by simp)
  intro i h1 h2
  by_cases h : v = i
  · subst h; simp [List.getD_eq_getElem?_getD, List.getElem?_eq_getElem hv]
  · simp [List.getElem_set_ne h]

theorem getD_set_none (gs : List (Option Int)) (v u : Nat) (hv : v < gs.length)
    (h : gs.getD u none = none ∨ u = v) : (gs.set v none).getD u none = none := by
  by_cases e : v = u
  · subst e; simp [List.getD_eq_getElem?_getD, List.getElem?_set_self hv]
  · rcases h with h | h
    · simpa [List.getD_eq_getElem?_getD, List.getElem?_set_ne e] using h
    · exact absurd h.symm e

theorem partOf_le_one {p : List Nat} (h : ∀ i ∈ p, i ≤ 1) (v : Nat) : partOf p v ≤ 1 := by
  unfold partOf
  by_cases hv : v < p.length
  · simp only [List.getD_eq_getElem?_getD, List.getElem?_eq_getElem hv, Option.getD_some]
    exact h _ (List.getElem_mem _)
  · simp [List.getD_eq_getElem?_getD, List.getElem?_eq_none (by omega : p.length ≤ v)]

theorem wOf_nonneg {ws : List Int} (h : ∀ w ∈ ws, 0 ≤ w) (v : Nat) : 0 ≤ wOf ws v := by
  unfold wOf
  by_cases hv : v < ws.length
  · simp only [List.getD_eq_getElem?_getD, List.getElem?_eq_getElem hv, Option.getD_some]
    exact h _ (List.getElem_mem _)
  · simp [List.getD_eq_getElem?_getD, List.getElem?_eq_none (by omega : ws.length ≤ v)]

/-- Facts about a `(partition, load 0, load 1)` triple relative to the pass start `o`. -/
structure Good (g : Graph) (ws : List Int) (cap lb0 lb1 : Int) (CT : Prop) (o : Outer)
    (bound : Nat) (cutv : Int) (part : List Nat) (a b : Int) : Prop where
  plen : part.length = o.part.length
  ple : ∀ i ∈ part, i ≤ 1
  pw0 : a = load ws part 0
  pw1 : b = load ws part 1
  capb : (∀ w ∈ ws, 0 ≤ w) → a ≤ max lb0 cap ∧ b ≤ max lb1 cap
  hamc : ham o.part part ≤ bound
  cut : CT → cutv = edgeCut g part

/-- Invariant of the move loop (`k` = `move_num`).  `CT`: the tracked cut is known to be the
true cut (from the debug assertion, or from the gain invariant). -/
structure Inv (g : Graph) (ws : List Int) (cap lb0 lb1 : Int) (CT : Prop) (o : Outer)
    (k : Nat) (st : PassSt) : Prop where
  cur : Good g ws cap lb0 lb1 CT o k st.cur st.part st.pw0 st.pw1
  glen : st.gains.length = o.part.length
  hlen : st.hist.length = k
  hist : ∀ e ∈ st.hist, e.1 < o.part.length ∧ st.gains.getD e.1 none = none
  bat : ∀ b, st.bestAt = some b → b < k
  ble : st.best ≤ o.best
  bnone : st.bestAt = none → st.best = o.best
  snap : ∃ sp sa sb,
    restore ws (st.hist.drop (rewindTo st.bestAt)) (st.part, st.pw0, st.pw1) = (sp, sa, sb) ∧
    Good g ws cap lb0 lb1 CT o (rewindTo st.bestAt) st.best sp sa sb

theorem Inv.setBad {g ws cap lb0 lb1 CT o k st} (I : Inv g ws cap lb0 lb1 CT o k st) (b : Nat) :
    Inv g ws cap lb0 lb1 CT o k { st with bad := b } :=
  ⟨I.cur, I.glen, I.hlen, I.hist, I.bat, I.ble, I.bnone, I.snap⟩

theorem rewindTo_le {k : Nat} {b : Option Nat} (h : ∀ x, b = some x → x < k) : rewindTo b ≤ k := by
  cases b with
  | none => simp [rewindTo]
  | some x => have := h x rfl; simp only [rewindTo]; omega

/-- The moved vertex in the new state: `Good` for the current triple. -/
theorem good_move {g ws cap lb0 lb1 CT o k} {st : PassSt} {v : Nat} {cutv : Int}
    (hws : o.part.length = ws.length)
    (G : Good g ws cap lb0 lb1 CT o k st.cur st.part st.pw0 st.pw1)
    (hv : v < o.part.length) (hadm : ¬ cap < targetW ws st v)
    (hc : CT → cutv = edgeCut g (st.part.set v (1 - partOf st.part v))) :
    Good g ws cap lb0 lb1 CT o (k + 1) cutv (st.part.set v (1 - partOf st.part v))
      (if partOf st.part v = 0 then st.pw0 - wOf ws v else st.pw0 + wOf ws v)
      (if partOf st.part v = 0 then st.pw1 + wOf ws v else st.pw1 - wOf ws v) := by
  have hip := partOf_le_one G.ple v
  have hvl : v < st.part.length := by rw [G.plen]; exact hv
  have hl : st.part.length = ws.length := by rw [G.plen]; exact hws
  have l0 := load_set ws st.part v (1 - partOf st.part v) 0 hvl hl
  have l1 := load_set ws st.part v (1 - partOf st.part v) 1 hvl hl
  have p0 := G.pw0
  have p1 := G.pw1
  refine ⟨by rw [List.length_set]; exact G.plen, ?_, ?_, ?_, ?_, ?_, hc⟩
  · intro i hi
    rcases List.mem_or_eq_of_mem_set hi with h | h
    · exact G.ple i h
    · omega
  · rw [l0]
    rcases (by omega : partOf st.part v = 0 ∨ partOf st.part v = 1) with h | h <;> simp [h] <;> omega
  · rw [l1]
    rcases (by omega : partOf st.part v = 0 ∨ partOf st.part v = 1) with h | h <;> simp [h] <;> omega
  · intro hnn
    have hw := wOf_nonneg hnn v
    obtain ⟨c0, c1⟩ := G.capb hnn
    simp only [targetW] at hadm
    rcases (by omega : partOf st.part v = 0 ∨ partOf st.part v = 1) with h | h
    · simp only [h] at hadm ⊢
      simp at hadm ⊢
      omega
    · simp only [h] at hadm ⊢
      simp at hadm ⊢
      omega
  · exact Nat.le_trans (ham_set _ _ _ _) (by have := G.hamc; omega)

theorem applyMove_inv {prm : Params} {g : Graph} {ws : List Int} {mpg cap lb0 lb1 : Int}
    {CT : Prop} {o : Outer} {k : Nat} {st st' : PassSt} {v : Nat} {gn : Int} {nS : Nat}
    (hws : o.part.length = ws.length)
    (I : Inv g ws cap lb0 lb1 CT o k st)
    (hv : v < o.part.length) (hgv : st.gains.getD v none = some gn)
    (hadm : ¬ cap < targetW ws st v)
    (hcs : CT → prm.dbg = true ∨ st.cur - gn = edgeCut g (st.part.set v (1 - partOf st.part v)))
    (h : applyMove prm g ws mpg st k v gn nS = .ok st') :
    Inv g ws cap lb0 lb1 CT o (k + 1) st' := by
  unfold applyMove at h
  simp only at h
  split at h
  · simp at h
  · next hdbg =>
    split at h
    · simp at h
    · next gains' hu =>
      simp only [Except.ok.injEq] at h
      subst h
      have hcut : CT → st.cur - gn = edgeCut g (st.part.set v (1 - partOf st.part v)) := by
        intro ct
        rcases hcs ct with hd | he
        · simpa [hd] using hdbg
        · exact he
      have hvg : v < st.gains.length := by rw [I.glen]; exact hv
      have G' := good_move hws I.cur hv hadm hcut
      have hnotin : ∀ e ∈ st.hist, e.1 ≠ v := by
        intro e he hev
        have := (I.hist e he).2
        rw [hev, hgv] at this
        simp at this
      refine ⟨G', ?_, ?_, ?_, ?_, ?_, ?_, ?_⟩
      · rw [updNbrs_length hu, List.length_set]; exact I.glen
      · simp [I.hlen]
      · intro e he
        simp only [List.mem_append, List.mem_singleton] at he
        rcases he with he | he
        · exact ⟨(I.hist e he).1, updNbrs_none hu _ (getD_set_none _ _ _ hvg (Or.inl (I.hist e he).2))⟩
        · subst he
          exact ⟨hv, updNbrs_none hu _ (getD_set_none _ _ _ hvg (Or.inr rfl))⟩
      · intro b hb
        simp only at hb
        split at hb
        · simp only [Option.some.injEq] at hb; omega
        · have := I.bat b hb; omega
      · simp only
        have := I.ble
        split <;> omega
      · intro hb
        simp only at hb ⊢
        split at hb
        · simp at hb
        · next hlt => simp only [hlt, if_false]; exact I.bnone hb
      · simp only
        by_cases hlt : st.cur - gn < st.best
        · simp only [hlt, if_true]
          refine ⟨_, _, _, ?_, G'⟩
          have : (st.hist ++ [(v, partOf st.part v)]).drop (rewindTo (some k)) = [] := by
            apply List.drop_eq_nil_of_le
            simp [rewindTo, I.hlen]
          rw [this]
          rfl
        · simp only [hlt, if_false]
          obtain ⟨sp, sa, sb, hr, GS⟩ := I.snap
          have hrk : rewindTo st.bestAt ≤ st.hist.length := by
            rw [I.hlen]; exact rewindTo_le I.bat
          refine ⟨sp, sa, sb, ?_, GS⟩
          rw [List.drop_append_of_le_length hrk, restore_append]
          have hnd : ∀ e ∈ st.hist.drop (rewindTo st.bestAt), e.1 ≠ v :=
            fun e he => hnotin e (List.mem_of_mem_drop he)
          have e0 : (if partOf st.part v = 0 then st.pw0 - wOf ws v else st.pw0 + wOf ws v) =
              st.pw0 + (if partOf st.part v = 0 then - wOf ws v else wOf ws v) := by
            split <;> omega
          have e1 : (if partOf st.part v = 0 then st.pw1 + wOf ws v else st.pw1 - wOf ws v) =
              st.pw1 + (if partOf st.part v = 0 then wOf ws v else - wOf ws v) := by
            split <;> omega
          rw [e0, e1, restore_comm ws _ _ _ _ _ _ _ _ hnd, hr]
          have hspv : sp.getD v 0 = partOf st.part v := by
            have := restore_getD ws _ (st.part, st.pw0, st.pw1) v hnd
            rw [hr] at this
            exact this
          have hvsp : v < sp.length := by rw [GS.plen]; exact hv
          simp only [restore, List.set_set]
          rw [← hspv, set_getD_self sp v hvsp]
          congr 1
          congr 1 <;> split <;> omega

/-- Hypotheses on an additional invariant `X` (the gain invariant in `fm_total`; `True` when the
debug assertion supplies the cut equation). -/
structure StepHyp (prm : Params) (g : Graph) (ws : List Int) (mpg cap lb0 lb1 : Int) (CT : Prop)
    (o : Outer) (X : PassSt → Prop) : Prop where
  bad : ∀ st b, X st → X { st with bad := b }
  step : ∀ k st v gn nS st', Inv g ws cap lb0 lb1 CT o k st → X st →
    st.gains.getD v none = some gn → v < o.part.length →
    applyMove prm g ws mpg st k v gn nS = .ok st' → X st'
  cut : ∀ k st v gn, Inv g ws cap lb0 lb1 CT o k st → X st →
    st.gains.getD v none = some gn → v < o.part.length → CT →
    prm.dbg = true ∨ st.cur - gn = edgeCut g (st.part.set v (1 - partOf st.part v))

theorem movesLoop_inv {ch : Nat → Nat} {prm : Params} {g : Graph} {ws : List Int}
    {mpg cap lb0 lb1 : Int} {CT : Prop} {o : Outer} {X : PassSt → Prop}
    (hws : o.part.length = ws.length)
    (H : StepHyp prm g ws mpg cap lb0 lb1 CT o X)
    (fuel k : Nat) (st st' : PassSt) (I : Inv g ws cap lb0 lb1 CT o k st) (hX : X st)
    (hk : ∀ m, prm.maxMoves = some m → k ≤ m)
    (h : movesLoop ch prm g ws cap mpg fuel k st = .ok st') :
    ∃ k', Inv g ws cap lb0 lb1 CT o k' st' ∧ X st' ∧ (∀ m, prm.maxMoves = some m → k' ≤ m) := by
  induction fuel generalizing k st with
  | zero => simp [movesLoop] at h
  | succ fuel ih =>
    simp only [movesLoop] at h
    split at h
    · simp only [Except.ok.injEq] at h; subst h; exact ⟨k, I, hX, hk⟩
    · next hlim =>
      split at h
      · simp only [Except.ok.injEq] at h; subst h; exact ⟨k, I, hX, hk⟩
      · next gn s hsel =>
        split at h
        · simp only [Except.ok.injEq] at h; subst h; exact ⟨k, I, hX, hk⟩
        · split at h
          · simp at h
          · next st1 ham1 =>
            obtain ⟨hne, hall⟩ := select_spec hsel
            have hp := hall _ (pick_mem (ch k) s hne)
            have hvn : pick (ch k) s < o.part.length := by rw [← I.glen]; exact hp.1
            have I1 := I.setBad (if gn ≤ 0 then st.bad + 1 else 0)
            have X1 := H.bad st (if gn ≤ 0 then st.bad + 1 else 0) hX
            have I2 := applyMove_inv hws I1 hvn hp.2.1 hp.2.2
              (H.cut k _ _ gn I1 X1 hp.2.1 hvn) ham1
            have X2 := H.step k _ _ gn _ _ I1 X1 hp.2.1 hvn ham1
            refine ih (k + 1) st1 I2 X2 ?_ h
            intro m hm
            have : ¬ m ≤ k := by simpa [limitReached, hm] using hlim
            omega

/-! ## one pass, the pass loop -/

theorem kept_append (ms rs : List Nat) (m r : Nat) (h : ms.length = rs.length) :
    kept (ms ++ [m]) (rs ++ [r]) = kept ms rs + (m - r) := by
  induction ms generalizing rs with
  | nil =>
    cases rs with
    | nil => simp [kept]
    | cons _ _ => simp at h
  | cons a as ih =>
    cases rs with
    | nil => simp at h
    | cons b bs =>
      simp only [List.cons_append, kept]
      rw [ih bs (by simpa using h)]
      omega

/-- Invariant of the pass loop (`i` = number of passes done, `p0` = input ids, `c0` = input cut). -/
structure OInv (g : Graph) (ws : List Int) (cap lb0 lb1 : Int) (CT : Prop) (prm : Params)
    (p0 : List Nat) (c0 : Int) (i : Nat) (o : Outer) : Prop where
  plen : o.part.length = p0.length
  ple : ∀ x ∈ o.part, x ≤ 1
  pw0 : o.pw0 = load ws o.part 0
  pw1 : o.pw1 = load ws o.part 1
  capb : (∀ w ∈ ws, 0 ≤ w) → o.pw0 ≤ max lb0 cap ∧ o.pw1 ≤ max lb1 cap
  cut : CT → o.best = edgeCut g o.part
  cutle : o.best ≤ c0
  mlen : o.moves.length = i
  rlen : o.rewound.length = i
  mle : ∀ m, prm.maxMoves = some m → ∀ x ∈ o.moves, x ≤ m
  rle : ∀ x ∈ o.moves.zip o.rewound, x.2 ≤ x.1
  hamk : ham p0 o.part ≤ kept o.moves o.rewound

theorem initPass_inv' {g : Graph} {ws : List Int} {cap lb0 lb1 : Int} {CT : Prop} {o : Outer}
    (G : Good g ws cap lb0 lb1 CT o 0 o.best o.part o.pw0 o.pw1) :
    Inv g ws cap lb0 lb1 CT o 0 (initPass g o) := by
  refine ⟨G, by simp [initPass], rfl, ?_, ?_, Int.le_refl _, fun _ => rfl, ?_⟩
  · intro e he; simp [initPass] at he
  · intro b hb; simp [initPass] at hb
  · exact ⟨o.part, o.pw0, o.pw1, rfl, G⟩

theorem initPass_inv {g : Graph} {ws : List Int} {cap lb0 lb1 : Int} {CT : Prop} {prm : Params}
    {p0 : List Nat} {c0 : Int} {i : Nat} {o : Outer}
    (O : OInv g ws cap lb0 lb1 CT prm p0 c0 i o) :
    Inv g ws cap lb0 lb1 CT o 0 (initPass g o) := by
  have G : Good g ws cap lb0 lb1 CT o 0 o.best o.part o.pw0 o.pw1 :=
    ⟨rfl, O.ple, O.pw0, O.pw1, O.capb, by simp [ham_self], O.cut⟩
  refine ⟨G, by simp [initPass], rfl, ?_, ?_, Int.le_refl _, fun _ => rfl, ?_⟩
  · intro e he; simp [initPass] at he
  · intro b hb; simp [initPass] at hb
  · exact ⟨o.part, o.pw0, o.pw1, rfl, G⟩

theorem onePass_inv {ch : Nat → Nat} {prm : Params} {g : Graph} {ws : List Int}
    {mpg cap lb0 lb1 : Int} {CT : Prop} {p0 : List Nat} {c0 : Int} {i : Nat} {o o' : Outer}
    {X : PassSt → Prop}
    (hws : p0.length = ws.length)
    (O : OInv g ws cap lb0 lb1 CT prm p0 c0 i o)
    (H : StepHyp prm g ws mpg cap lb0 lb1 CT o X) (hX : X (initPass g o))
    (h : onePass ch prm g ws cap mpg o = .ok o') :
    OInv g ws cap lb0 lb1 CT prm p0 c0 (i + 1) o' ∧ o'.best ≤ o.best := by
  unfold onePass at h
  split at h
  · simp at h
  · split at h
    · simp at h
    · next st hml =>
      simp only at h
      split at h
      · simp at h
      · next hr =>
        simp only [Except.ok.injEq] at h
        subst h
        obtain ⟨k', I, -, hkm⟩ := movesLoop_inv (by rw [O.plen]; exact hws) H _ 0 _ _
          (initPass_inv O) hX (fun m _ => Nat.zero_le m) hml
        obtain ⟨sp, sa, sb, hres, GS⟩ := I.snap
        rw [hres]
        have hrk : rewindTo st.bestAt ≤ k' := rewindTo_le I.bat
        refine ⟨⟨by rw [GS.plen]; exact O.plen, GS.ple, GS.pw0, GS.pw1, GS.capb,
          fun ct => GS.cut ct, Int.le_trans I.ble O.cutle, by simp [O.mlen], by simp [O.rlen],
          ?_, ?_, ?_⟩, I.ble⟩
        · intro m hm x hx
          simp only [List.mem_append, List.mem_singleton] at hx
          rcases hx with hx | hx
          · exact O.mle m hm x hx
          · rw [hx, I.hlen]; exact hkm m hm
        · intro x hx
          rw [List.zip_append (by rw [O.mlen, O.rlen])] at hx
          simp only [List.mem_append, List.zip_cons_cons, List.zip_nil_right, List.mem_singleton] at hx
          rcases hx with hx | hx
          · exact O.rle x hx
          · subst hx; simp
        · rw [kept_append _ _ _ _ (by rw [O.mlen, O.rlen]), I.hlen]
          have h1 := ham_triangle p0 o.part sp O.plen.symm GS.plen.symm
          have h2 := GS.hamc
          have h3 := O.hamk
          show ham p0 sp ≤ _
          omega

theorem passLoop_inv {ch : Nat → Nat → Nat} {prm : Params} {g : Graph} {ws : List Int}
    {mpg cap lb0 lb1 : Int} {CT : Prop} {p0 : List Nat} {c0 : Int} {X : PassSt → Prop}
    (hws : p0.length = ws.length)
    (H : ∀ i o, OInv g ws cap lb0 lb1 CT prm p0 c0 i o →
      StepHyp prm g ws mpg cap lb0 lb1 CT o X ∧ X (initPass g o))
    (fuel i : Nat) (o o' : Outer)
    (O : OInv g ws cap lb0 lb1 CT prm p0 c0 i o)
    (hi : ∀ m, prm.maxPasses = some m → i ≤ m)
    (h : passLoop ch prm g ws cap mpg fuel i o = .ok o') :
    ∃ i', OInv g ws cap lb0 lb1 CT prm p0 c0 i' o' ∧ (∀ m, prm.maxPasses = some m → i' ≤ m) := by
  induction fuel generalizing i o with
  | zero => simp [passLoop] at h
  | succ fuel ih =>
    simp only [passLoop] at h
    split at h
    · simp only [Except.ok.injEq] at h; subst h; exact ⟨i, O, hi⟩
    · next hlim =>
      have hi' : ∀ m, prm.maxPasses = some m → i + 1 ≤ m := by
        intro m hm
        have : ¬ m ≤ i := by simpa [limitReached, hm] using hlim
        omega
      split at h
      · simp at h
      · next o1 hop =>
        obtain ⟨O1, -⟩ := onePass_inv hws O (H i o O).1 (H i o O).2 hop
        split at h
        · simp only [Except.ok.injEq] at h; subst h; exact ⟨i + 1, O1, hi'⟩
        · exact ih (i + 1) o1 O1 hi' h

/-! ## the whole run -/

theorem run_inv {ch : Nat → Nat → Nat} {prm : Params} {capOpt : Option Int} {g : Graph}
    {ws : List Int} {p : List Nat} {r : Result} {CT : Prop} {X : PassSt → Prop}
    (H : ∀ i o, OInv g ws (capOf capOpt ws p) (load ws p 0) (load ws p 1) CT prm p (edgeCut g p) i o →
      StepHyp prm g ws (maxPossibleGain g) (capOf capOpt ws p) (load ws p 0) (load ws p 1) CT o X ∧
        X (initPass g o))
    (h : run ch prm capOpt g ws p = .ok r) (hne : p ≠ []) :
    ∃ i o, OInv g ws (capOf capOpt ws p) (load ws p 0) (load ws p 1) CT prm p (edgeCut g p) i o ∧
      (∀ m, prm.maxPasses = some m → i ≤ m) ∧ r = ⟨o.part, o.moves, o.rewound, o.logs⟩ := by
  unfold run at h
  split at h
  · simp at h
  · next hl1 =>
    split at h
    · simp at h
    · split at h
      · next he => simp at he; exact absurd he hne
      · split at h
        · simp at h
        · next hany =>
          simp only at h
          split at h
          · simp at h
          · split at h
            · simp at h
            · next o hpl =>
              simp only [Outcome.ok.injEq] at h
              have hle : ∀ x ∈ p, x ≤ 1 := by
                intro x hx
                have h1 : ¬ (1 < x) := fun hh => hany (List.any_eq_true.mpr ⟨x, hx, by simpa using hh⟩)
                omega
              have O0 : OInv g ws (capOf capOpt ws p) (load ws p 0) (load ws p 1) CT prm p
                  (edgeCut g p) 0
                  { part := p, pw0 := load ws p 0, pw1 := load ws p 1, best := edgeCut g p,
                    moves := [], rewound := [], logs := [] } :=
                ⟨rfl, hle, rfl, rfl, fun _ => ⟨Int.le_max_left _ _, Int.le_max_left _ _⟩,
                  fun _ => rfl, Int.le_refl _, rfl, rfl, by simp, by simp, by simp [ham_self]⟩
              obtain ⟨i', O', hi'⟩ := passLoop_inv (by simpa using hl1) H _ 0 _ _ O0
                (fun m _ => Nat.zero_le m) hpl
              exact ⟨i', o, O', hi', h.symm⟩

theorem stepHyp_trivial (prm : Params) (g : Graph) (ws : List Int) (mpg cap lb0 lb1 : Int)
    (o : Outer) : StepHyp prm g ws mpg cap lb0 lb1 (prm.dbg = true) o (fun _ => True) :=
  ⟨fun _ _ _ => trivial, fun _ _ _ _ _ _ _ _ _ _ _ => trivial, fun _ _ _ _ _ _ _ _ ct => Or.inl ct⟩

theorem run_empty {ch : Nat → Nat → Nat} {prm : Params} {capOpt : Option Int} {g : Graph}
    {ws : List Int} {r : Result} (h : run ch prm capOpt g ws [] = .ok r) : r = ⟨[], [], [], []⟩ := by
  unfold run at h
  split at h
  · simp at h
  · split at h
    · simp at h
    · simp at h; exact h.symm

/-! ## Part 3: symmetric graphs — the gain table is exact (`gain_inv`) -/

/-- Total weight of the entries of `row` whose column is `u` (the matrix entry `A[·,u]`; `sprs`
rows have at most one such entry, the definition does not need that). -/
def wtRow (row : Row) (u : Nat) : Int := (row.map (fun e => if e.1 = u then e.2 else 0)).sum

/-- The inputs the property quantifies over: a CSR matrix as `sprs` guarantees it (square, column
indices in range, rows strictly ascending) that is symmetric, without self-loops, with
non-negative edge weights.  Every clause is decidable. -/
structure Valid (g : Graph) : Prop where
  idx : ∀ v < g.length, ∀ e ∈ rowOf g v, e.1 < g.length
  sorted : ∀ v < g.length, (rowOf g v).Pairwise (fun a b => a.1 < b.1)
  sym : ∀ u < g.length, ∀ v < g.length, wtRow (rowOf g u) v = wtRow (rowOf g v) u
  noloop : ∀ v < g.length, ∀ e ∈ rowOf g v, e.1 ≠ v
  nonneg : ∀ v < g.length, ∀ e ∈ rowOf g v, 0 ≤ e.2

/-- `gain_inv`: the gain table holds the true gain of every free vertex. -/
def GInv (g : Graph) (st : PassSt) : Prop :=
  ∀ u x, st.gains.getD u none = some x → x = gainOf g st.part u

theorem partOf_set (p : List Nat) (v x u : Nat) (hv : v < p.length) :
    partOf (p.set v x) u = if u = v then x else partOf p u := by
  unfold partOf
  by_cases h : u = v
  · subst h; simp [List.getD_eq_getElem?_getD, List.getElem?_set_self hv]
  · simp [h, List.getD_eq_getElem?_getD, List.getElem?_set_ne (Ne.symm h)]

theorem getD_some_lt {gs : List (Option Int)} {u : Nat} {x : Int}
    (h : gs.getD u none = some x) : u < gs.length := by
  apply Classical.byContradiction
  intro hc
  simp [List.getD_eq_getElem?_getD, List.getElem?_eq_none (by omega : gs.length ≤ u)] at h

theorem updNbrs_val {mpg : Int} {part : List Nat} {ip : Nat} {row : Row}
    {gs gs' : List (Option Int)} (h : updNbrs mpg part ip row gs = .ok gs') (u : Nat) (x : Int)
    (hx : gs.getD u none = some x) :
    gs'.getD u none = some (x + (if partOf part u = ip then 2 else -2) * wtRow row u) := by
  induction row generalizing gs x with
  | nil => simp only [updNbrs, Except.ok.injEq] at h; subst h; rw [hx]; simp [wtRow]
  | cons e row ih =>
    obtain ⟨u', w⟩ := e
    have hw : wtRow ((u', w) :: row) u = (if u' = u then w else 0) + wtRow row u := by
      simp [wtRow]
    simp only [updNbrs] at h
    split at h
    · next hnone =>
      have hne : u' ≠ u := by intro e; subst e; rw [hx] at hnone; simp at hnone
      rw [ih h x hx, hw, if_neg hne]; simp
    · next og hog =>
      have key : ∀ ug : Int, ug = og + (if partOf part u' = ip then 2 else -2) * w →
          (if inRange mpg ug = true then updNbrs mpg part ip row (gs.set u' (some ug))
            else Except.error Abort.bucketIndex) = Except.ok gs' →
          gs'.getD u none = some (x + (if partOf part u = ip then 2 else -2) * wtRow ((u', w) :: row) u) := by
        intro ug hug h
        split at h
        · by_cases hne : u' = u
          · subst hne
            have hlt : u' < gs.length := getD_some_lt hx
            have hox : og = x := by rw [hx] at hog; simpa using hog.symm
            have := ih h ug (by simp [List.getD_eq_getElem?_getD, List.getElem?_set_self hlt])
            rw [this, hw, hug, hox]
            simp only [if_true]
            congr 1
            split <;> omega
          · have := ih h x (by simpa [List.getD_eq_getElem?_getD, List.getElem?_set_ne hne] using hx)
            rw [this, hw, if_neg hne]; simp
        · simp at h
      split at h
      · next hp => exact key _ (by simp [hp]) h
      · next hp => exact key _ (by simp [hp]; omega) h

theorem gainOf_set (g : Graph) (p : List Nat) (v u : Nat) (hv : v < p.length) (huv : u ≠ v)
    (hle : ∀ i ∈ p, i ≤ 1) :
    gainOf g (p.set v (1 - partOf p v)) u =
      gainOf g p u + (if partOf p u = partOf p v then 2 else -2) * wtRow (rowOf g u) v := by
  unfold gainOf wtRow
  generalize rowOf g u = row
  have hu := partOf_le_one hle u
  have hvv := partOf_le_one hle v
  rw [partOf_set p v _ u hv, if_neg huv]
  induction row with
  | nil => simp
  | cons e row ih =>
    simp only [List.map_cons, List.sum_cons]
    rw [ih, partOf_set p v _ e.1 hv]
    have he := partOf_le_one hle e.1
    by_cases hev : e.1 = v
    · simp only [hev, if_true]
      rcases (by omega : partOf p u = 0 ∨ partOf p u = 1) with a | a <;>
      rcases (by omega : partOf p v = 0 ∨ partOf p v = 1) with b | b <;>
      simp [a, b] <;> omega
    · simp only [hev, if_false]
      split <;> split <;> omega

/-! ## Part 4: flipping one vertex changes the cut by minus its gain (`cut_track`) -/

theorem zipIdx_eq (g : Graph) : g.zipIdx = (List.range g.length).map (fun i => (rowOf g i, i)) := by
  apply List.ext_getElem
  · simp
  · intro i h1 h2
    have hi : i < g.length := by simpa using h1
    simp [rowOf, List.getD_eq_getElem?_getD, List.getElem?_eq_getElem hi]

theorem sum_map_add {α} (l : List α) (f h : α → Int) :
    (l.map (fun x => f x + h x)).sum = (l.map f).sum + (l.map h).sum := by
  induction l with
  | nil => simp
  | cons a l ih => simp only [List.map_cons, List.sum_cons, ih]; omega

theorem sum_map_zero {α} (l : List α) (f : α → Int) (H : ∀ x ∈ l, f x = 0) : (l.map f).sum = 0 := by
  induction l with
  | nil => simp
  | cons a l ih =>
    simp only [List.map_cons, List.sum_cons]
    rw [ih (fun x hx => H x (by simp [hx])), H a (by simp)]; rfl

theorem sum_range_ite (n v : Nat) (a : Nat → Int) (hv : v < n) :
    ((List.range n).map (fun i => if i = v then a i else 0)).sum = a v := by
  induction n with
  | zero => omega
  | succ n ih =>
    rw [List.range_succ, List.map_append, List.sum_append]
    by_cases h : v = n
    · subst h
      rw [sum_map_zero _ _ (fun x hx => by
        have : x < v := by simpa using hx
        simp; omega)]
      simp
    · rw [ih (by omega)]
      simp; omega


theorem takeWhile_eq_filter (row : Row) (i : Nat) (hs : row.Pairwise (fun a b => a.1 < b.1)) :
    row.takeWhile (fun e => decide (e.1 < i)) = row.filter (fun e => decide (e.1 < i)) := by
  induction row with
  | nil => rfl
  | cons e row ih =>
    rw [List.pairwise_cons] at hs
    by_cases h : e.1 < i
    · simp only [List.takeWhile_cons, List.filter_cons, h, decide_true, if_true]
      rw [ih hs.2]
    · simp only [List.takeWhile_cons, List.filter_cons, h, decide_false]
      symm
      simp only [Bool.false_eq_true, if_false]
      rw [List.filter_eq_nil_iff]
      intro a ha
      have := hs.1 a ha
      simp; omega

/-- Contribution of one stored entry of row `i` to the cut. -/
def cterm (p : List Nat) (i : Nat) (e : Nat × Int) : Int :=
  if e.1 < i ∧ partOf p i ≠ partOf p e.1 then e.2 else 0

theorem rowCut_eq (p : List Nat) (i : Nat) (row : Row) (hs : row.Pairwise (fun a b => a.1 < b.1)) :
    rowCut p i row = (row.map (cterm p i)).sum := by
  unfold rowCut
  rw [takeWhile_eq_filter row i hs]
  clear hs
  induction row with
  | nil => rfl
  | cons e row ih =>
    simp only [List.filter_cons, List.map_cons, List.sum_cons, cterm]
    by_cases h1 : e.1 < i <;> by_cases h2 : partOf p i = partOf p e.1 <;>
      simp [h1, h2] at ih ⊢ <;> omega


/-- The term of `e` in the gain of `v`. -/
def gterm (p : List Nat) (v : Nat) (e : Nat × Int) : Int :=
  if partOf p e.1 = partOf p v then -e.2 else e.2

theorem rowDiff (p : List Nat) (v i : Nat) (row : Row) (hv : v < p.length) (hle : ∀ x ∈ p, x ≤ 1)
    (hnl : ∀ e ∈ row, e.1 ≠ i) :
    (row.map (cterm (p.set v (1 - partOf p v)) i)).sum =
      (row.map (cterm p i)).sum
      + (if i = v then -(row.map (fun e => if e.1 < v then gterm p v e else 0)).sum else 0)
      + (if v < i then (if partOf p i = partOf p v then wtRow row v else -wtRow row v) else 0) := by
  induction row with
  | nil => simp [wtRow]
  | cons e row ih =>
    have ih' := ih (fun e he => hnl e (by simp [he]))
    have hei : e.1 ≠ i := hnl e (by simp)
    have hw : wtRow (e :: row) v = (if e.1 = v then e.2 else 0) + wtRow row v := by simp [wtRow]
    simp only [List.map_cons, List.sum_cons]
    rw [ih', hw]
    have hpi := partOf_le_one hle i
    have hpv := partOf_le_one hle v
    have hpe := partOf_le_one hle e.1
    simp only [cterm, gterm, partOf_set p v _ _ hv]
    generalize (List.map (cterm p i) row).sum = A
    generalize (List.map (fun e => if e.1 < v then gterm p v e else 0) row).sum = B
    generalize wtRow row v = C
    by_cases h1 : i = v
    · subst h1
      have h2 : e.1 ≠ i := hei
      simp only [h2, if_false, if_true, Nat.lt_irrefl]
      by_cases h3 : e.1 < i
      · rcases (by omega : partOf p i = 0 ∨ partOf p i = 1) with a | a <;>
        rcases (by omega : partOf p e.1 = 0 ∨ partOf p e.1 = 1) with b | b <;>
        simp [a, b, h3] <;> omega
      · simp [h3]
    · simp only [h1, if_false]
      by_cases h2 : e.1 = v
      · by_cases h4 : v < i
        · have h3 : e.1 < i := by omega
          rcases (by omega : partOf p i = 0 ∨ partOf p i = 1) with a | a <;>
          rcases (by omega : partOf p v = 0 ∨ partOf p v = 1) with b | b <;>
          simp [a, b, h2, h4] <;> omega
        · have h3 : ¬ e.1 < i := by omega
          simp [h2, h4]
      · simp only [h2, if_false]
        split <;> split <;> omega


theorem sum_map_congr {α} (l : List α) (f h : α → Int) (H : ∀ x ∈ l, f x = h x) :
    (l.map f).sum = (l.map h).sum := by
  rw [List.map_congr_left H]

theorem groupBy (p : List Nat) (v n : Nat) (row : Row) (hidx : ∀ e ∈ row, e.1 < n) :
    ((List.range n).map (fun i => if v < i then
        (if partOf p i = partOf p v then wtRow row i else -wtRow row i) else 0)).sum =
      (row.map (fun e => if v < e.1 then
        (if partOf p e.1 = partOf p v then e.2 else -e.2) else 0)).sum := by
  induction row with
  | nil => exact sum_map_zero _ _ (fun i _ => by simp [wtRow])
  | cons e row ih =>
    have he : e.1 < n := hidx e (by simp)
    simp only [List.map_cons, List.sum_cons]
    rw [← ih (fun e he => hidx e (by simp [he]))]
    rw [← sum_range_ite n e.1 (fun i => if v < i then
        (if partOf p i = partOf p v then e.2 else -e.2) else 0) he, ← sum_map_add]
    apply sum_map_congr
    intro i _
    have hw : wtRow (e :: row) i = (if e.1 = i then e.2 else 0) + wtRow row i := by simp [wtRow]
    rw [hw]
    by_cases h : i = e.1
    · subst h; simp only [if_true]; split <;> (try split) <;> omega
    · have h' : ¬ e.1 = i := fun x => h x.symm
      simp only [h, h', if_false]; split <;> (try split) <;> omega

theorem final_sum (p : List Nat) (v : Nat) (row : Row) (hnl : ∀ e ∈ row, e.1 ≠ v) :
    -(row.map (fun e => if e.1 < v then gterm p v e else 0)).sum +
      (row.map (fun e => if v < e.1 then
        (if partOf p e.1 = partOf p v then e.2 else -e.2) else 0)).sum =
      -(row.map (fun e => if partOf p e.1 = partOf p v then -e.2 else e.2)).sum := by
  induction row with
  | nil => simp
  | cons e row ih =>
    have := ih (fun e he => hnl e (by simp [he]))
    have hne : e.1 ≠ v := hnl e (by simp)
    simp only [List.map_cons, List.sum_cons, gterm] at this ⊢
    by_cases h : e.1 < v
    · have h' : ¬ v < e.1 := by omega
      simp only [h, h', if_true, if_false]; split <;> omega
    · have h' : v < e.1 := by omega
      simp only [h, h', if_true, if_false]; split <;> omega

theorem edgeCut_flip (g : Graph) (V : Valid g) (p : List Nat) (v : Nat) (hp : p.length = g.length)
    (hv : v < g.length) (hle : ∀ x ∈ p, x ≤ 1) :
    edgeCut g (p.set v (1 - partOf p v)) = edgeCut g p - gainOf g p v := by
  have hvp : v < p.length := by omega
  unfold edgeCut gainOf
  rw [zipIdx_eq, List.map_map, List.map_map]
  have e1 : ((List.range g.length).map
      ((fun rv : Row × Nat => rowCut (p.set v (1 - partOf p v)) rv.2 rv.1) ∘ fun i => (rowOf g i, i))).sum =
      ((List.range g.length).map (fun i => (rowCut p i (rowOf g i)
        + (if i = v then -((rowOf g i).map (fun e => if e.1 < v then gterm p v e else 0)).sum else 0))
        + (if v < i then (if partOf p i = partOf p v then wtRow (rowOf g v) i
            else -wtRow (rowOf g v) i) else 0))).sum := by
    apply sum_map_congr
    intro i hi
    have hi' : i < g.length := by simpa using hi
    simp only [Function.comp]
    rw [rowCut_eq _ _ _ (V.sorted i hi'), rowCut_eq _ _ _ (V.sorted i hi'),
      rowDiff p v i _ hvp hle (V.noloop i hi'), V.sym i hi' v hv]
  rw [e1, sum_map_add, sum_map_add, sum_range_ite _ _ _ hv, groupBy p v g.length _ (V.idx v hv)]
  have := final_sum p v (rowOf g v) (V.noloop v hv)
  have e2 : ((List.range g.length).map
      ((fun rv : Row × Nat => rowCut p rv.2 rv.1) ∘ fun i => (rowOf g i, i))).sum =
      ((List.range g.length).map (fun i => rowCut p i (rowOf g i))).sum := rfl
  rw [e2]
  omega

theorem initPass_ginv (g : Graph) (o : Outer) : GInv g (initPass g o) := by
  intro u x hx
  have hlt := getD_some_lt hx
  simp only [initPass, List.length_map, List.length_range] at hlt
  simp only [initPass, List.getD_eq_getElem?_getD] at hx
  rw [List.getElem?_eq_getElem (by simpa using hlt)] at hx
  simp at hx
  exact hx.symm

/-- The gain table after a move is again exact (`gain_inv`, step). -/
theorem applyMove_ginv {prm : Params} {g : Graph} {ws : List Int} {mpg : Int}
    {st st' : PassSt} {k v : Nat} {gn : Int} {nS : Nat} (V : Valid g)
    (hpl : st.part.length = g.length) (hgl : st.gains.length = g.length)
    (hle : ∀ i ∈ st.part, i ≤ 1) (GI : GInv g st) (hv : v < g.length)
    (h : applyMove prm g ws mpg st k v gn nS = .ok st') : GInv g st' := by
  unfold applyMove at h
  simp only at h
  split at h
  · simp at h
  · split at h
    · simp at h
    · next gains' hu =>
      simp only [Except.ok.injEq] at h
      subst h
      intro u x hx
      simp only at hx ⊢
      have hvg : v < st.gains.length := by omega
      -- `u` was free before the update
      cases hgu : (st.gains.set v none).getD u none with
      | none => rw [updNbrs_none hu u hgu] at hx; simp at hx
      | some y =>
        have huv : u ≠ v := by
          intro e; subst e
          rw [getD_set_none _ _ _ hvg (Or.inr rfl)] at hgu; simp at hgu
        have hy : st.gains.getD u none = some y := by
          simpa [List.getD_eq_getElem?_getD, List.getElem?_set_ne (Ne.symm huv)] using hgu
        have hul : u < g.length := by rw [← hgl]; exact getD_some_lt hy
        rw [updNbrs_val hu u y hgu] at hx
        simp only [Option.some.injEq] at hx
        rw [← hx, GI u y hy, gainOf_set g st.part v u (by omega) huv hle,
          partOf_set _ _ _ _ (by omega : v < st.part.length), if_neg huv, V.sym u hul v hv]

theorem sum_nonneg (l : List Int) (h : ∀ x ∈ l, 0 ≤ x) : 0 ≤ l.sum := by
  induction l with
  | nil => simp
  | cons a l ih =>
    have := ih (fun x hx => h x (by simp [hx]))
    have := h a (by simp)
    simp only [List.sum_cons]; omega

theorem gain_abs_le (p : List Nat) (v : Nat) (row : Row) (hnn : ∀ e ∈ row, 0 ≤ e.2) :
    -(rowSum row) ≤ (row.map (fun e => if partOf p e.1 = partOf p v then -e.2 else e.2)).sum ∧
    (row.map (fun e => if partOf p e.1 = partOf p v then -e.2 else e.2)).sum ≤ rowSum row := by
  unfold rowSum
  induction row with
  | nil => simp
  | cons e row ih =>
    have := ih (fun e he => hnn e (by simp [he]))
    have := hnn e (by simp)
    simp only [List.map_cons, List.sum_cons]
    split <;> omega

theorem le_foldl_max (l : List Int) (a : Int) :
    a ≤ l.foldl max a ∧ ∀ x ∈ l, x ≤ l.foldl max a := by
  induction l generalizing a with
  | nil => simp
  | cons b l ih =>
    simp only [List.foldl_cons]
    obtain ⟨h1, h2⟩ := ih (max a b)
    refine ⟨by omega, ?_⟩
    intro x hx
    simp only [List.mem_cons] at hx
    rcases hx with rfl | hx
    · omega
    · exact h2 x hx

theorem rowSum_le_mpg (g : Graph) (v : Nat) (hv : v < g.length) :
    rowSum (rowOf g v) ≤ maxPossibleGain g := by
  have hmem : rowSum (rowOf g v) ∈ g.map rowSum := by
    simp only [List.mem_map]
    refine ⟨g[v], List.getElem_mem _, ?_⟩
    simp [rowOf, List.getD_eq_getElem?_getD, List.getElem?_eq_getElem hv]
  unfold maxPossibleGain
  split
  · next h => rw [h] at hmem; simp at hmem
  · next x xs h =>
    rw [h] at hmem
    obtain ⟨h1, h2⟩ := le_foldl_max xs x
    simp only [List.mem_cons] at hmem
    rcases hmem with e | e
    · rw [e]; exact h1
    · exact h2 _ e

theorem gain_inRange {g : Graph} (V : Valid g) (p : List Nat) (v : Nat) (hv : v < g.length) :
    inRange (maxPossibleGain g) (gainOf g p v) = true := by
  have h1 := gain_abs_le p v (rowOf g v) (V.nonneg v hv)
  have h2 := rowSum_le_mpg g v hv
  unfold gainOf inRange
  simp only [Bool.and_eq_true, decide_eq_true_eq]
  omega

theorem mpg_nonneg {g : Graph} (V : Valid g) : 0 ≤ maxPossibleGain g := by
  cases g with
  | nil => simp [maxPossibleGain]
  | cons r g =>
    have h2 := rowSum_le_mpg (r :: g) 0 (by simp)
    have h1 := gain_abs_le [] 0 (rowOf (r :: g) 0) (V.nonneg 0 (by simp))
    omega

theorem edgeCut_nonneg {g : Graph} (V : Valid g) (p : List Nat) : 0 ≤ edgeCut g p := by
  unfold edgeCut
  rw [zipIdx_eq, List.map_map]
  apply sum_nonneg
  intro x hx
  simp only [List.mem_map, List.mem_range, Function.comp] at hx
  obtain ⟨i, hi, rfl⟩ := hx
  rw [rowCut_eq _ _ _ (V.sorted i hi)]
  apply sum_nonneg
  intro y hy
  simp only [List.mem_map] at hy
  obtain ⟨e, he, rfl⟩ := hy
  have := V.nonneg i hi e he
  unfold cterm
  split <;> omega

theorem negTotal_nonneg (g : Graph) : 0 ≤ negTotal g := by
  unfold negTotal
  apply sum_nonneg
  intro x hx
  simp only [List.mem_map] at hx
  obtain ⟨row, _, rfl⟩ := hx
  apply sum_nonneg
  intro y hy
  simp only [List.mem_map] at hy
  obtain ⟨e, _, rfl⟩ := hy
  split <;> omega

/-! counting free vertices -/
def countSome (gs : List (Option Int)) : Nat := (gs.filter Option.isSome).length

theorem countSome_set_some (gs : List (Option Int)) (u : Nat) (x y : Int)
    (h : gs.getD u none = some x) : countSome (gs.set u (some y)) = countSome gs := by
  induction gs generalizing u with
  | nil => simp at h
  | cons a gs ih =>
    cases u with
    | zero =>
      simp only [List.getD_cons_zero] at h
      subst h
      simp [countSome]
    | succ u =>
      simp only [List.getD_cons_succ] at h
      have := ih u h
      simp only [countSome, List.set_cons_succ, List.filter_cons] at this ⊢
      split <;> simp [this]

theorem countSome_set_none (gs : List (Option Int)) (u : Nat) (x : Int)
    (h : gs.getD u none = some x) : countSome (gs.set u none) + 1 = countSome gs := by
  induction gs generalizing u with
  | nil => simp at h
  | cons a gs ih =>
    cases u with
    | zero =>
      simp only [List.getD_cons_zero] at h
      subst h
      simp [countSome]
    | succ u =>
      simp only [List.getD_cons_succ] at h
      have := ih u h
      simp only [countSome, List.set_cons_succ, List.filter_cons] at this ⊢
      split <;> (try simp only [List.length_cons]) <;> omega

theorem updNbrs_count {mpg : Int} {part : List Nat} {ip : Nat} {row : Row}
    {gs gs' : List (Option Int)} (h : updNbrs mpg part ip row gs = .ok gs') :
    countSome gs' = countSome gs := by
  induction row generalizing gs with
  | nil => simp only [updNbrs, Except.ok.injEq] at h; rw [← h]
  | cons e row ih =>
    obtain ⟨u, w⟩ := e
    simp only [updNbrs] at h
    split at h
    · exact ih h
    · next og hog =>
      have key : ∀ ug : Int, (if inRange mpg ug = true then updNbrs mpg part ip row (gs.set u (some ug))
          else Except.error Abort.bucketIndex) = Except.ok gs' → countSome gs' = countSome gs := by
        intro ug h
        split at h
        · rw [ih h, countSome_set_some gs u og ug hog]
        · simp at h
      split at h <;> exact key _ h

theorem wtRow_nonneg (row : Row) (u : Nat) (hnn : ∀ e ∈ row, 0 ≤ e.2) : 0 ≤ wtRow row u := by
  unfold wtRow
  apply sum_nonneg
  intro x hx
  simp only [List.mem_map] at hx
  obtain ⟨e, he, rfl⟩ := hx
  have := hnn e he
  split <;> omega

theorem inRange_iff (mpg x : Int) : inRange mpg x = true ↔ -mpg ≤ x ∧ x ≤ mpg := by
  simp [inRange]

theorem updNbrs_ok {mpg : Int} {part : List Nat} {ip : Nat} (row : Row) (gs : List (Option Int))
    (hnn : ∀ e ∈ row, 0 ≤ e.2)
    (H : ∀ u x, gs.getD u none = some x → inRange mpg x = true ∧
      inRange mpg (x + (if partOf part u = ip then 2 else -2) * wtRow row u) = true) :
    ∃ gs', updNbrs mpg part ip row gs = .ok gs' := by
  induction row generalizing gs with
  | nil => exact ⟨gs, rfl⟩
  | cons e row ih =>
    obtain ⟨u', w⟩ := e
    have hw0 : 0 ≤ w := hnn (u', w) (by simp)
    have hnn' : ∀ e ∈ row, 0 ≤ e.2 := fun e he => hnn e (by simp [he])
    have hw : ∀ u, wtRow ((u', w) :: row) u = (if u' = u then w else 0) + wtRow row u := by
      intro u; simp [wtRow]
    simp only [updNbrs]
    cases hg : gs.getD u' none with
    | none =>
      simp only
      apply ih gs hnn'
      intro u x hx
      have hne : u' ≠ u := by intro e; subst e; rw [hx] at hg; simp at hg
      have := H u x hx
      rw [hw, if_neg hne] at this
      simpa using this
    | some og =>
      simp only
      obtain ⟨r1, r2⟩ := H u' og hg
      rw [hw, if_pos rfl] at r2
      have hR := wtRow_nonneg row u' hnn'
      rw [inRange_iff] at r1 r2
      have hlt : u' < gs.length := getD_some_lt hg
      have key : ∀ ug : Int, ug = og + (if partOf part u' = ip then 2 else -2) * w →
          ∃ gs', (if inRange mpg ug = true then updNbrs mpg part ip row (gs.set u' (some ug))
            else Except.error Abort.bucketIndex) = Except.ok gs' := by
        intro ug hug
        have hin : inRange mpg ug = true := by
          rw [inRange_iff, hug]
          split at r2 <;> simp_all <;> omega
        rw [if_pos hin]
        apply ih _ hnn'
        intro u x hx
        by_cases hne : u' = u
        · subst hne
          have hxu : x = ug := by
            simpa [List.getD_eq_getElem?_getD, List.getElem?_set_self hlt] using hx.symm
          rw [hxu]
          refine ⟨hin, ?_⟩
          rw [inRange_iff, hug]
          split at r2 <;> simp_all <;> omega
        · have hx' : gs.getD u none = some x := by
            simpa [List.getD_eq_getElem?_getD, List.getElem?_set_ne hne] using hx
          have := H u x hx'
          rw [hw, if_neg hne] at this
          simpa using this
      by_cases hp : partOf part u' = ip
      · simp only [hp, if_true] at key ⊢
        exact key _ (by omega)
      · simp only [hp, if_false] at key ⊢
        exact key _ (by omega)

theorem stepHyp_valid {prm : Params} {g : Graph} {ws : List Int} {mpg cap lb0 lb1 : Int} {o : Outer}
    (V : Valid g) (hg : o.part.length = g.length) :
    StepHyp prm g ws mpg cap lb0 lb1 True o (GInv g) := by
  refine ⟨fun _ _ h => h, ?_, ?_⟩
  · intro k st v gn nS st' I GI _ hv h
    exact applyMove_ginv V (I.cur.plen.trans hg) (I.glen.trans hg) I.cur.ple GI (hg ▸ hv) h
  · intro k st v gn I GI hgv hv _
    refine Or.inr ?_
    rw [I.cur.cut trivial, GI v gn hgv,
      edgeCut_flip g V st.part v (I.cur.plen.trans hg) (hg ▸ hv) I.cur.ple]

theorem applyMove_ok {prm : Params} {g : Graph} {ws : List Int} {st : PassSt} {k v : Nat}
    {gn : Int} {nS : Nat} (V : Valid g)
    (hpl : st.part.length = g.length) (hgl : st.gains.length = g.length)
    (hle : ∀ i ∈ st.part, i ≤ 1) (GI : GInv g st) (hcut : st.cur = edgeCut g st.part)
    (hv : v < g.length) (hgv : st.gains.getD v none = some gn) :
    ∃ st', applyMove prm g ws (maxPossibleGain g) st k v gn nS = .ok st' := by
  have hvp : v < st.part.length := by omega
  have hvg : v < st.gains.length := by omega
  have hflip := edgeCut_flip g V st.part v hpl hv hle
  unfold applyMove
  simp only
  have hc : ¬ ((prm.dbg && st.cur - gn != edgeCut g (st.part.set v (1 - partOf st.part v))) = true) := by
    rw [hflip, hcut, GI v gn hgv]; simp
  rw [if_neg hc]
  obtain ⟨gs', h⟩ := updNbrs_ok (mpg := maxPossibleGain g)
    (part := st.part.set v (1 - partOf st.part v)) (ip := partOf st.part v)
    (rowOf g v) (st.gains.set v none) (V.nonneg v hv) (by
      intro u x hx
      have huv : u ≠ v := by
        intro e; subst e
        rw [getD_set_none _ _ _ hvg (Or.inr rfl)] at hx; simp at hx
      have hx' : st.gains.getD u none = some x := by
        simpa [List.getD_eq_getElem?_getD, List.getElem?_set_ne (Ne.symm huv)] using hx
      have hul : u < g.length := by rw [← hgl]; exact getD_some_lt hx'
      have e1 := GI u x hx'
      refine ⟨by rw [e1]; exact gain_inRange V _ u hul, ?_⟩
      have e2 := gainOf_set g st.part v u hvp huv hle
      rw [partOf_set _ _ _ _ hvp, if_neg huv, e1, ← V.sym u hul v hv, ← e2]
      exact gain_inRange V _ u hul)
  rw [h]
  exact ⟨_, rfl⟩

theorem applyMove_count {prm : Params} {g : Graph} {ws : List Int} {mpg : Int}
    {st st' : PassSt} {k v : Nat} {gn : Int} {nS : Nat}
    (hgv : st.gains.getD v none = some gn)
    (h : applyMove prm g ws mpg st k v gn nS = .ok st') :
    countSome st'.gains + 1 = countSome st.gains := by
  unfold applyMove at h
  simp only at h
  split at h
  · simp at h
  · split at h
    · simp at h
    · next gains' hu =>
      simp only [Except.ok.injEq] at h
      subst h
      simp only
      rw [updNbrs_count hu, countSome_set_none _ _ _ hgv]

theorem movesLoop_total {ch : Nat → Nat} {prm : Params} {g : Graph} {ws : List Int}
    {cap lb0 lb1 : Int} {o : Outer} (V : Valid g)
    (hws : o.part.length = ws.length) (hg : o.part.length = g.length)
    (fuel k : Nat) (st : PassSt) (I : Inv g ws cap lb0 lb1 True o k st) (GI : GInv g st)
    (hc : countSome st.gains < fuel) :
    ∃ st', movesLoop ch prm g ws cap (maxPossibleGain g) fuel k st = .ok st' := by
  have H : StepHyp prm g ws (maxPossibleGain g) cap lb0 lb1 True o (GInv g) := stepHyp_valid V hg
  induction fuel generalizing k st with
  | zero => omega
  | succ fuel ih =>
    simp only [movesLoop]
    split
    · exact ⟨_, rfl⟩
    · split
      · exact ⟨_, rfl⟩
      · next gn s hsel =>
        split
        · exact ⟨_, rfl⟩
        · obtain ⟨hne, hall⟩ := select_spec hsel
          have hp := hall _ (pick_mem (ch k) s hne)
          have hvn : pick (ch k) s < o.part.length := by rw [← I.glen]; exact hp.1
          have I1 := I.setBad (if gn ≤ 0 then st.bad + 1 else 0)
          have GI1 : GInv g { st with bad := (if gn ≤ 0 then st.bad + 1 else 0) } := GI
          obtain ⟨st1, h1⟩ := applyMove_ok (prm := prm) (ws := ws) (k := k) (nS := s.length) V
            (I1.cur.plen.trans hg) (I1.glen.trans hg) I1.cur.ple GI1 (I1.cur.cut trivial)
            (hg ▸ hvn) hp.2.1
          rw [h1]
          simp only
          have I2 := applyMove_inv hws I1 hvn hp.2.1 hp.2.2
            (H.cut k _ _ gn I1 GI1 hp.2.1 hvn) h1
          have GI2 := H.step k _ _ gn _ _ I1 GI1 hp.2.1 hvn h1
          have hcnt := applyMove_count (st := { st with bad := (if gn ≤ 0 then st.bad + 1 else 0) }) hp.2.1 h1
          exact ih (k + 1) st1 I2 GI2 (by simp only at hcnt; omega)

theorem countSome_map_some (l : List Nat) (f : Nat → Int) :
    countSome (l.map (fun v => some (f v))) = l.length := by
  induction l with
  | nil => rfl
  | cons a l ih => simp only [countSome, List.map_cons, List.filter_cons] at ih ⊢; simp [ih]

theorem onePass_total {ch : Nat → Nat} {prm : Params} {g : Graph} {ws : List Int}
    {cap lb0 lb1 : Int} {p0 : List Nat} {c0 : Int} {i : Nat} {o : Outer} (V : Valid g)
    (hws : p0.length = ws.length) (hg : p0.length = g.length)
    (O : OInv g ws cap lb0 lb1 True prm p0 c0 i o) :
    ∃ o', onePass ch prm g ws cap (maxPossibleGain g) o = .ok o' := by
  have hog : o.part.length = g.length := O.plen.trans hg
  have how : o.part.length = ws.length := O.plen.trans hws
  unfold onePass
  have hall : ¬ ((!(List.range o.part.length).all
      (fun v => inRange (maxPossibleGain g) (gainOf g o.part v))) = true) := by
    simp only [Bool.not_eq_true', Bool.not_eq_false, List.all_eq_true, List.mem_range]
    intro v hv
    exact gain_inRange V _ v (by omega)
  rw [if_neg hall]
  obtain ⟨st, hst⟩ := movesLoop_total (ch := ch) (prm := prm) V how hog (o.part.length + 1) 0 _
    (initPass_inv O) (initPass_ginv g o) (by
      simp only [initPass]
      rw [countSome_map_some]; simp)
  rw [hst]
  simp only
  obtain ⟨k', I, -, -⟩ := movesLoop_inv how (stepHyp_valid V hog) _ 0 _ _
    (initPass_inv O) (initPass_ginv g o) (fun m _ => Nat.zero_le m) hst
  have hr : ¬ st.hist.length < rewindTo st.bestAt := by
    have := rewindTo_le I.bat
    rw [I.hlen]; omega
  rw [if_neg hr]
  exact ⟨_, rfl⟩

theorem passLoop_total {ch : Nat → Nat → Nat} {prm : Params} {g : Graph} {ws : List Int}
    {cap lb0 lb1 : Int} {p0 : List Nat} {c0 : Int} (V : Valid g)
    (hws : p0.length = ws.length) (hg : p0.length = g.length)
    (fuel i : Nat) (o : Outer) (O : OInv g ws cap lb0 lb1 True prm p0 c0 i o)
    (hf : o.best < fuel) :
    ∃ o', passLoop ch prm g ws cap (maxPossibleGain g) fuel i o = .ok o' := by
  induction fuel generalizing i o with
  | zero =>
    have := edgeCut_nonneg V o.part
    have := O.cut trivial
    omega
  | succ fuel ih =>
    simp only [passLoop]
    split
    · exact ⟨_, rfl⟩
    · obtain ⟨o1, h1⟩ := onePass_total (ch := ch i) V hws hg O
      rw [h1]
      simp only
      split
      · exact ⟨_, rfl⟩
      · next hlt =>
        obtain ⟨O1, -⟩ := onePass_inv hws O (stepHyp_valid V (O.plen.trans hg)) (initPass_ginv g o) h1
        exact ih (i + 1) o1 O1 (by omega)

theorem run_total {ch : Nat → Nat → Nat} {prm : Params} {capOpt : Option Int} {g : Graph}
    {ws : List Int} {p : List Nat} (V : Valid g) (a : Abort) :
    run ch prm capOpt g ws p ≠ .abort a := by
  unfold run
  split
  · simp
  · next hl1 =>
    split
    · simp
    · next hl2 =>
      split
      · simp
      · split
        · simp
        · next hany =>
          simp only
          have hm := mpg_nonneg V
          rw [if_neg (by omega)]
          have hle : ∀ x ∈ p, x ≤ 1 := by
            intro x hx
            have h1 : ¬ (1 < x) := fun hh => hany (List.any_eq_true.mpr ⟨x, hx, by simpa using hh⟩)
            omega
          have O0 : OInv g ws (capOf capOpt ws p) (load ws p 0) (load ws p 1) True prm p
              (edgeCut g p) 0
              { part := p, pw0 := load ws p 0, pw1 := load ws p 1, best := edgeCut g p,
                moves := [], rewound := [], logs := [] } :=
            ⟨rfl, hle, rfl, rfl, fun _ => ⟨Int.le_max_left _ _, Int.le_max_left _ _⟩,
              fun _ => rfl, Int.le_refl _, rfl, rfl, by simp, by simp, by simp [ham_self]⟩
          obtain ⟨o', h'⟩ := passLoop_total (ch := ch) V (by simpa using hl1) (by simpa using hl2)
            (passFuel g p) 0 _ O0 (by
              have h1 := edgeCut_nonneg V p
              have h2 := negTotal_nonneg g
              simp only [passFuel]
              omega)
          rw [h']
          simp

/-- States reached by the move loop of a pass that starts from a consistent state `o`. -/
theorem movesLoop_reach {ch : Nat → Nat} {prm : Params} {g : Graph} {ws : List Int} {cap : Int}
    {o : Outer} {st : PassSt} (V : Valid g) (fuel : Nat)
    (hg : o.part.length = g.length) (hws : o.part.length = ws.length)
    (hle : ∀ i ∈ o.part, i ≤ 1) (hp0 : o.pw0 = load ws o.part 0) (hp1 : o.pw1 = load ws o.part 1)
    (hb : o.best = edgeCut g o.part)
    (h : movesLoop ch prm g ws cap (maxPossibleGain g) fuel 0 (initPass g o) = .ok st) :
    GInv g st ∧ st.cur = edgeCut g st.part := by
  have G : Good g ws cap o.pw0 o.pw1 True o 0 o.best o.part o.pw0 o.pw1 :=
    ⟨rfl, hle, hp0, hp1, fun _ => ⟨Int.le_max_left _ _, Int.le_max_left _ _⟩, by simp [ham_self],
      fun _ => hb⟩
  obtain ⟨k', I, GI, -⟩ := movesLoop_inv hws (stepHyp_valid V hg) fuel 0 _ _
    (initPass_inv' G) (initPass_ginv g o) (fun m _ => Nat.zero_le m) h
  exact ⟨GI, I.cur.cut trivial⟩

end Coupe.Fm
