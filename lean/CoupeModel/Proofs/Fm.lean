import CoupeModel.Model.Fm

/-!
# Lemmas about the FiducciaMattheyses model (`Model/Fm.lean`)

Part 1: lists (`load`, `ham`, `restore`), selection.
Part 2: the pass invariant `Inv` and its preservation by `applyMove`, `movesLoop`,
`onePass`, `passLoop`.
-/

namespace Coupe.Fm

/-- Number of positions at which two id arrays differ ("relabelled vertices"). -/
def ham : List Nat → List Nat → Nat
  | a :: as, b :: bs => (if a = b then 0 else 1) + ham as bs
  | _, _ => 0

/-- Moves kept over all passes: `Σ (moves_i - rewound_i)`. -/
def kept : List Nat → List Nat → Nat
  | m :: ms, r :: rs => (m - r) + kept ms rs
  | _, _ => 0

/-! ## `load`, `ham` -/

theorem load_set (ws : List Int) (p : List Nat) (v x k : Nat)
    (hv : v < p.length) (hl : p.length = ws.length) :
    load ws (p.set v x) k =
      load ws p k - (if partOf p v = k then wOf ws v else 0) + (if x = k then wOf ws v else 0) := by
  induction ws generalizing p v with
  | nil => simp at hl; simp [hl] at hv
  | cons w ws ih =>
    cases p with
    | nil => simp at hv
    | cons i ids =>
      cases v with
      | zero =>
        simp only [List.set_cons_zero, load, partOf, wOf, List.getD_cons_zero]
        omega
      | succ v =>
        simp only [List.set_cons_succ, load, partOf, wOf, List.getD_cons_succ]
        have := ih ids v (by simpa using hv) (by simpa using hl)
        simp only [partOf, wOf] at this
        omega

theorem ham_self (p : List Nat) : ham p p = 0 := by
  induction p with
  | nil => rfl
  | cons a as ih => simp [ham, ih]

theorem ham_set (q p : List Nat) (v x : Nat) : ham q (p.set v x) ≤ ham q p + 1 := by
  induction q generalizing p v with
  | nil => simp [ham]
  | cons a as ih =>
    cases p with
    | nil => simp [ham]
    | cons b bs =>
      cases v with
      | zero => simp only [List.set_cons_zero, ham]; split <;> split <;> omega
      | succ v =>
        simp only [List.set_cons_succ, ham]
        have := ih bs v
        omega

theorem ham_triangle (a b c : List Nat) (h1 : a.length = b.length) (h2 : b.length = c.length) :
    ham a c ≤ ham a b + ham b c := by
  induction a generalizing b c with
  | nil => simp [ham]
  | cons x xs ih =>
    cases b with
    | nil => simp at h1
    | cons y ys =>
      cases c with
      | nil => simp at h2
      | cons z zs =>
        simp only [ham]
        have := ih ys zs (by simpa using h1) (by simpa using h2)
        split <;> split <;> split <;> omega

/-! ## `restore` -/

theorem restore_append (ws : List Int) (l1 l2 : List (Nat × Nat)) (s : List Nat × Int × Int) :
    restore ws (l1 ++ l2) s = restore ws l2 (restore ws l1 s) := by
  induction l1 generalizing s with
  | nil => rfl
  | cons e l1 ih =>
    obtain ⟨v, ip⟩ := e
    obtain ⟨part, a, b⟩ := s
    simp only [List.cons_append, restore, ih]

theorem restore_length (ws : List Int) (l : List (Nat × Nat)) (s : List Nat × Int × Int) :
    (restore ws l s).1.length = s.1.length := by
  induction l generalizing s with
  | nil => rfl
  | cons e l ih =>
    obtain ⟨v, ip⟩ := e
    obtain ⟨part, a, b⟩ := s
    simp only [restore, ih, List.length_set]

/-- `restore` commutes with a write to a vertex that is not in the list. -/
theorem restore_comm (ws : List Int) (l : List (Nat × Nat)) (part : List Nat) (a b da db : Int)
    (v x : Nat) (hv : ∀ e ∈ l, e.1 ≠ v) :
    restore ws l (part.set v x, a + da, b + db) =
      (((restore ws l (part, a, b)).1).set v x, (restore ws l (part, a, b)).2.1 + da,
        (restore ws l (part, a, b)).2.2 + db) := by
  induction l generalizing part a b with
  | nil => rfl
  | cons e l ih =>
    obtain ⟨u, ip⟩ := e
    have hne : u ≠ v := hv (u, ip) (by simp)
    have hv' : ∀ e ∈ l, e.1 ≠ v := fun e he => hv e (by simp [he])
    simp only [restore]
    rw [List.set_comm _ _ (Ne.symm hne)]
    have e1 : (if ip = 0 then a + da + wOf ws u else a + da - wOf ws u) =
        (if ip = 0 then a + wOf ws u else a - wOf ws u) + da := by split <;> omega
    have e2 : (if ip = 0 then b + db - wOf ws u else b + db + wOf ws u) =
        (if ip = 0 then b - wOf ws u else b + wOf ws u) + db := by split <;> omega
    rw [e1, e2, ih _ _ _ hv']

theorem restore_getD (ws : List Int) (l : List (Nat × Nat)) (s : List Nat × Int × Int) (v : Nat)
    (hv : ∀ e ∈ l, e.1 ≠ v) : (restore ws l s).1.getD v 0 = s.1.getD v 0 := by
  induction l generalizing s with
  | nil => rfl
  | cons e l ih =>
    obtain ⟨u, ip⟩ := e
    obtain ⟨part, a, b⟩ := s
    have hne : u ≠ v := hv (u, ip) (by simp)
    simp only [restore]
    rw [ih _ (fun e he => hv e (by simp [he]))]
    simp [List.getD_eq_getElem?_getD, List.getElem?_set_ne hne]

/-! ## selection -/

theorem foldl_min_mem {α} (f : α → Int) (t : α) (ts : List α) :
    ∃ x ∈ t :: ts, f x = ts.foldl (fun a x => min a (f x)) (f t) := by
  induction ts generalizing t with
  | nil => exact ⟨t, by simp, rfl⟩
  | cons y ys ih =>
    simp only [List.foldl_cons]
    by_cases h : f t ≤ f y
    · rw [Int.min_eq_left h]
      obtain ⟨x, hx, e⟩ := ih t
      refine ⟨x, ?_, e⟩
      simp only [List.mem_cons] at hx ⊢
      rcases hx with hx | hx
      · exact Or.inl hx
      · exact Or.inr (Or.inr hx)
    · rw [Int.min_eq_right (by omega)]
      obtain ⟨x, hx, e⟩ := ih y
      exact ⟨x, by simp only [List.mem_cons] at hx ⊢; exact Or.inr hx, e⟩

theorem mem_freeAdm {ws : List Int} {cap : Int} {st : PassSt} {v : Nat} {gn : Int}
    (h : (v, gn) ∈ freeAdm ws cap st) :
    v < st.gains.length ∧ st.gains.getD v none = some gn ∧ ¬ cap < targetW ws st v := by
  simp only [freeAdm, List.mem_filterMap, List.mem_range] at h
  obtain ⟨u, hu, hm⟩ := h
  split at hm
  · next gu hgu =>
    split at hm
    · simp at hm
    · next hc =>
      simp only [Option.some.injEq, Prod.mk.injEq] at hm
      obtain ⟨rfl, rfl⟩ := hm
      exact ⟨hu, hgu, hc⟩
  · simp at hm

theorem select_spec {ws : List Int} {cap : Int} {st : PassSt} {gn : Int} {s : List Nat}
    (h : select ws cap st = some (gn, s)) :
    s ≠ [] ∧ ∀ v ∈ s, v < st.gains.length ∧ st.gains.getD v none = some gn ∧
      ¬ cap < targetW ws st v := by
  simp only [select] at h
  split at h
  · simp at h
  · next e es hfa =>
    split at h
    · simp at h
    · next t ts htop =>
      simp only [Option.some.injEq, Prod.mk.injEq] at h
      obtain ⟨hg, hs⟩ := h
      constructor
      · obtain ⟨x, hx, hfx⟩ := foldl_min_mem (targetW ws st) t ts
        intro hnil
        have : x ∈ s := by
          rw [← hs, List.mem_filter]
          exact ⟨hx, by simp [hfx]⟩
        simp [hnil] at this
      · intro v hv
        rw [← hs, List.mem_filter] at hv
        have hv1 : v ∈ ((e :: es).filter (fun x => x.2 == es.foldl (fun a x => max a x.2) e.2)).map (·.1) := by
          rw [htop]; exact hv.1
        simp only [List.mem_map, List.mem_filter] at hv1
        obtain ⟨⟨v', gv⟩, ⟨hmem, hgv⟩, rfl⟩ := hv1
        have hgv' : gv = gn := by
          have : gv = es.foldl (fun a x => max a x.2) e.2 := by simpa using hgv
          rw [this, hg]
        subst hgv'
        exact mem_freeAdm (hfa ▸ hmem)

theorem pick_mem (c : Nat) (s : List Nat) (h : s ≠ []) : pick c s ∈ s := by
  have hl : 0 < s.length := List.length_pos_iff.mpr h
  have : c % s.length < s.length := Nat.mod_lt _ hl
  simp only [pick, List.getD_eq_getElem?_getD, List.getElem?_eq_getElem this, Option.getD_some]
  exact List.getElem_mem _

/-! ## `updNbrs` -/

theorem updNbrs_length {mpg : Int} {part : List Nat} {ip : Nat} {row : Row}
    {gs gs' : List (Option Int)} (h : updNbrs mpg part ip row gs = .ok gs') :
    gs'.length = gs.length := by
  induction row generalizing gs with
  | nil => simp only [updNbrs, Except.ok.injEq] at h; rw [← h]
  | cons e row ih =>
    obtain ⟨u, w⟩ := e
    simp only [updNbrs] at h
    split at h
    · exact ih h
    · have key : ∀ ug : Int, (if inRange mpg ug = true then updNbrs mpg part ip row (gs.set u (some ug))
          else Except.error Abort.bucketIndex) = Except.ok gs' → gs'.length = gs.length := by
        intro ug h
        split at h
        · rw [ih h, List.length_set]
        · simp at h
      split at h <;> exact key _ h

theorem updNbrs_none {mpg : Int} {part : List Nat} {ip : Nat} {row : Row}
    {gs gs' : List (Option Int)} (h : updNbrs mpg part ip row gs = .ok gs') (v : Nat)
    (hv : gs.getD v none = none) : gs'.getD v none = none := by
  induction row generalizing gs with
  | nil => simp only [updNbrs, Except.ok.injEq] at h; rw [← h]; exact hv
  | cons e row ih =>
    obtain ⟨u, w⟩ := e
    simp only [updNbrs] at h
    split at h
    · exact ih h hv
    · next og hog =>
      have key : ∀ ug : Int, (if inRange mpg ug = true then updNbrs mpg part ip row (gs.set u (some ug))
          else Except.error Abort.bucketIndex) = Except.ok gs' → gs'.getD v none = none := by
        intro ug h
        split at h
        · refine ih h ?_
          have hne : u ≠ v := by
            intro e; subst e; rw [hv] at hog; simp at hog
          simpa [List.getD_eq_getElem?_getD, List.getElem?_set_ne hne] using hv
        · simp at h
      split at h <;> exact key _ h

/-! ## the pass invariant -/

theorem set_getD_self (l : List Nat) (v : Nat) (hv : v < l.length) : l.set v (l.getD v 0) = l := by
  apply List.ext_getElem (by simp)
  intro i h1 h2
  by_cases h : v = i
  · subst h; simp [List.getD_eq_getElem?_getD, List.getElem?_eq_getElem hv]
  · simp [List.getElem_set_ne h]

theorem getD_set_none (gs : List (Option Int)) (v u : Nat) (hv : v < gs.length)
    (h : gs.getD u none = none ∨ u = v) : (gs.set v none).getD u none = none := by
  by_cases e : v = u
  · subst e; simp [List.getD_eq_getElem?_getD, List.getElem?_set_self hv]
  · rcases h with h | h
    · simpa [List.getD_eq_getElem?_getD, List.getElem?_set_ne e] using h
    · exact absurd h.symm e

theorem partOf_le_one {p : List Nat} (h : ∀ i ∈ p, i ≤ 1) (v : Nat) : partOf p v ≤ 1 := by
  unfold partOf
  by_cases hv : v < p.length
  · simp only [List.getD_eq_getElem?_getD, List.getElem?_eq_getElem hv, Option.getD_some]
    exact h _ (List.getElem_mem _)
  · simp [List.getD_eq_getElem?_getD, List.getElem?_eq_none (by omega : p.length ≤ v)]

theorem wOf_nonneg {ws : List Int} (h : ∀ w ∈ ws, 0 ≤ w) (v : Nat) : 0 ≤ wOf ws v := by
  unfold wOf
  by_cases hv : v < ws.length
  · simp only [List.getD_eq_getElem?_getD, List.getElem?_eq_getElem hv, Option.getD_some]
    exact h _ (List.getElem_mem _)
  · simp [List.getD_eq_getElem?_getD, List.getElem?_eq_none (by omega : ws.length ≤ v)]

/-- Facts about a `(partition, load 0, load 1)` triple relative to the pass start `o`. -/
structure Good (g : Graph) (ws : List Int) (cap lb0 lb1 : Int) (CT : Prop) (o : Outer)
    (bound : Nat) (cutv : Int) (part : List Nat) (a b : Int) : Prop where
  plen : part.length = o.part.length
  ple : ∀ i ∈ part, i ≤ 1
  pw0 : a = load ws part 0
  pw1 : b = load ws part 1
  capb : (∀ w ∈ ws, 0 ≤ w) → a ≤ max lb0 cap ∧ b ≤ max lb1 cap
  hamc : ham o.part part ≤ bound
  cut : CT → cutv = edgeCut g part

/-- Invariant of the move loop (`k` = `move_num`).  `CT`: the tracked cut is known to be the
true cut (from the debug assertion, or from the gain invariant). -/
structure Inv (g : Graph) (ws : List Int) (cap lb0 lb1 : Int) (CT : Prop) (o : Outer)
    (k : Nat) (st : PassSt) : Prop where
  cur : Good g ws cap lb0 lb1 CT o k st.cur st.part st.pw0 st.pw1
  glen : st.gains.length = o.part.length
  hlen : st.hist.length = k
  hist : ∀ e ∈ st.hist, e.1 < o.part.length ∧ st.gains.getD e.1 none = none
  bat : ∀ b, st.bestAt = some b → b < k
  ble : st.best ≤ o.best
  bnone : st.bestAt = none → st.best = o.best
  snap : ∃ sp sa sb,
    restore ws (st.hist.drop (rewindTo st.bestAt)) (st.part, st.pw0, st.pw1) = (sp, sa, sb) ∧
    Good g ws cap lb0 lb1 CT o (rewindTo st.bestAt) st.best sp sa sb

theorem Inv.setBad {g ws cap lb0 lb1 CT o k st} (I : Inv g ws cap lb0 lb1 CT o k st) (b : Nat) :
    Inv g ws cap lb0 lb1 CT o k { st with bad := b } :=
  ⟨I.cur, I.glen, I.hlen, I.hist, I.bat, I.ble, I.bnone, I.snap⟩

theorem rewindTo_le {k : Nat} {b : Option Nat} (h : ∀ x, b = some x → x < k) : rewindTo b ≤ k := by
  cases b with
  | none => simp [rewindTo]
  | some x => have := h x rfl; simp only [rewindTo]; omega

/-- The moved vertex in the new state: `Good` for the current triple. -/
theorem good_move {g ws cap lb0 lb1 CT o k} {st : PassSt} {v : Nat} {cutv : Int}
    (hws : o.part.length = ws.length)
    (G : Good g ws cap lb0 lb1 CT o k st.cur st.part st.pw0 st.pw1)
    (hv : v < o.part.length) (hadm : ¬ cap < targetW ws st v)
    (hc : CT → cutv = edgeCut g (st.part.set v (1 - partOf st.part v))) :
    Good g ws cap lb0 lb1 CT o (k + 1) cutv (st.part.set v (1 - partOf st.part v))
      (if partOf st.part v = 0 then st.pw0 - wOf ws v else st.pw0 + wOf ws v)
      (if partOf st.part v = 0 then st.pw1 + wOf ws v else st.pw1 - wOf ws v) := by
  have hip := partOf_le_one G.ple v
  have hvl : v < st.part.length := by rw [G.plen]; exact hv
  have hl : st.part.length = ws.length := by rw [G.plen]; exact hws
  have l0 := load_set ws st.part v (1 - partOf st.part v) 0 hvl hl
  have l1 := load_set ws st.part v (1 - partOf st.part v) 1 hvl hl
  have p0 := G.pw0
  have p1 := G.pw1
  refine ⟨by rw [List.length_set]; exact G.plen, ?_, ?_, ?_, ?_, ?_, hc⟩
  · intro i hi
    rcases List.mem_or_eq_of_mem_set hi with h | h
    · exact G.ple i h
    · omega
  · rw [l0]
    rcases (by omega : partOf st.part v = 0 ∨ partOf st.part v = 1) with h | h <;> simp [h] <;> omega
  · rw [l1]
    rcases (by omega : partOf st.part v = 0 ∨ partOf st.part v = 1) with h | h <;> simp [h] <;> omega
  · intro hnn
    have hw := wOf_nonneg hnn v
    obtain ⟨c0, c1⟩ := G.capb hnn
    simp only [targetW] at hadm
    rcases (by omega : partOf st.part v = 0 ∨ partOf st.part v = 1) with h | h
    · simp only [h] at hadm ⊢
      simp at hadm ⊢
      omega
    · simp only [h] at hadm ⊢
      simp at hadm ⊢
      omega
  · exact Nat.le_trans (ham_set _ _ _ _) (by have := G.hamc; omega)

theorem applyMove_inv {prm : Params} {g : Graph} {ws : List Int} {mpg cap lb0 lb1 : Int}
    {CT : Prop} {o : Outer} {k : Nat} {st st' : PassSt} {v : Nat} {gn : Int} {nS : Nat}
    (hws : o.part.length = ws.length)
    (I : Inv g ws cap lb0 lb1 CT o k st)
    (hv : v < o.part.length) (hgv : st.gains.getD v none = some gn)
    (hadm : ¬ cap < targetW ws st v)
    (hcs : CT → prm.dbg = true ∨ st.cur - gn = edgeCut g (st.part.set v (1 - partOf st.part v)))
    (h : applyMove prm g ws mpg st k v gn nS = .ok st') :
    Inv g ws cap lb0 lb1 CT o (k + 1) st' := by
  unfold applyMove at h
  simp only at h
  split at h
  · simp at h
  · next hdbg =>
    split at h
    · simp at h
    · next gains' hu =>
      simp only [Except.ok.injEq] at h
      subst h
      have hcut : CT → st.cur - gn = edgeCut g (st.part.set v (1 - partOf st.part v)) := by
        intro ct
        rcases hcs ct with hd | he
        · simpa [hd] using hdbg
        · exact he
      have hvg : v < st.gains.length := by rw [I.glen]; exact hv
      have G' := good_move hws I.cur hv hadm hcut
      have hnotin : ∀ e ∈ st.hist, e.1 ≠ v := by
        intro e he hev
        have := (I.hist e he).2
        rw [hev, hgv] at this
        simp at this
      refine ⟨G', ?_, ?_, ?_, ?_, ?_, ?_, ?_⟩
      · rw [updNbrs_length hu, List.length_set]; exact I.glen
      · simp [I.hlen]
      · intro e he
        simp only [List.mem_append, List.mem_singleton] at he
        rcases he with he | he
        · exact ⟨(I.hist e he).1, updNbrs_none hu _ (getD_set_none _ _ _ hvg (Or.inl (I.hist e he).2))⟩
        · subst he
          exact ⟨hv, updNbrs_none hu _ (getD_set_none _ _ _ hvg (Or.inr rfl))⟩
      · intro b hb
        simp only at hb
        split at hb
        · simp only [Option.some.injEq] at hb; omega
        · have := I.bat b hb; omega
      · simp only
        have := I.ble
        split <;> omega
      · intro hb
        simp only at hb ⊢
        split at hb
        · simp at hb
        · next hlt => simp only [hlt, if_false]; exact I.bnone hb
      · simp only
        by_cases hlt : st.cur - gn < st.best
        · simp only [hlt, if_true]
          refine ⟨_, _, _, ?_, G'⟩
          have : (st.hist ++ [(v, partOf st.part v)]).drop (rewindTo (some k)) = [] := by
            apply List.drop_eq_nil_of_le
            simp [rewindTo, I.hlen]
          rw [this]
          rfl
        · simp only [hlt, if_false]
          obtain ⟨sp, sa, sb, hr, GS⟩ := I.snap
          have hrk : rewindTo st.bestAt ≤ st.hist.length := by
            rw [I.hlen]; exact rewindTo_le I.bat
          refine ⟨sp, sa, sb, ?_, GS⟩
          rw [List.drop_append_of_le_length hrk, restore_append]
          have hnd : ∀ e ∈ st.hist.drop (rewindTo st.bestAt), e.1 ≠ v :=
            fun e he => hnotin e (List.mem_of_mem_drop he)
          have e0 : (if partOf st.part v = 0 then st.pw0 - wOf ws v else st.pw0 + wOf ws v) =
              st.pw0 + (if partOf st.part v = 0 then - wOf ws v else wOf ws v) := by
            split <;> omega
          have e1 : (if partOf st.part v = 0 then st.pw1 + wOf ws v else st.pw1 - wOf ws v) =
              st.pw1 + (if partOf st.part v = 0 then wOf ws v else - wOf ws v) := by
            split <;> omega
          rw [e0, e1, restore_comm ws _ _ _ _ _ _ _ _ hnd, hr]
          have hspv : sp.getD v 0 = partOf st.part v := by
            have := restore_getD ws _ (st.part, st.pw0, st.pw1) v hnd
            rw [hr] at this
            exact this
          have hvsp : v < sp.length := by rw [GS.plen]; exact hv
          simp only [restore, List.set_set]
          rw [← hspv, set_getD_self sp v hvsp]
          congr 1
          congr 1 <;> split <;> omega

/-- Hypotheses on an additional invariant `X` (the gain invariant in `fm_total`; `True` when the
debug assertion supplies the cut equation). -/
structure StepHyp (prm : Params) (g : Graph) (ws : List Int) (mpg cap lb0 lb1 : Int) (CT : Prop)
    (o : Outer) (X : PassSt → Prop) : Prop where
  bad : ∀ st b, X st → X { st with bad := b }
  step : ∀ k st v gn nS st', Inv g ws cap lb0 lb1 CT o k st → X st →
    st.gains.getD v none = some gn → v < o.part.length →
    applyMove prm g ws mpg st k v gn nS = .ok st' → X st'
  cut : ∀ k st v gn, Inv g ws cap lb0 lb1 CT o k st → X st →
    st.gains.getD v none = some gn → v < o.part.length → CT →
    prm.dbg = true ∨ st.cur - gn = edgeCut g (st.part.set v (1 - partOf st.part v))

theorem movesLoop_inv {ch : Nat → Nat} {prm : Params} {g : Graph} {ws : List Int}
    {mpg cap lb0 lb1 : Int} {CT : Prop} {o : Outer} {X : PassSt → Prop}
    (hws : o.part.length = ws.length)
    (H : StepHyp prm g ws mpg cap lb0 lb1 CT o X)
    (fuel k : Nat) (st st' : PassSt) (I : Inv g ws cap lb0 lb1 CT o k st) (hX : X st)
    (hk : ∀ m, prm.maxMoves = some m → k ≤ m)
    (h : movesLoop ch prm g ws cap mpg fuel k st = .ok st') :
    ∃ k', Inv g ws cap lb0 lb1 CT o k' st' ∧ X st' ∧ (∀ m, prm.maxMoves = some m → k' ≤ m) := by
  induction fuel generalizing k st with
  | zero => simp [movesLoop] at h
  | succ fuel ih =>
    simp only [movesLoop] at h
    split at h
    · simp only [Except.ok.injEq] at h; subst h; exact ⟨k, I, hX, hk⟩
    · next hlim =>
      split at h
      · simp only [Except.ok.injEq] at h; subst h; exact ⟨k, I, hX, hk⟩
      · next gn s hsel =>
        split at h
        · simp only [Except.ok.injEq] at h; subst h; exact ⟨k, I, hX, hk⟩
        · split at h
          · simp at h
          · next st1 ham1 =>
            obtain ⟨hne, hall⟩ := select_spec hsel
            have hp := hall _ (pick_mem (ch k) s hne)
            have hvn : pick (ch k) s < o.part.length := by rw [← I.glen]; exact hp.1
            have I1 := I.setBad (if gn ≤ 0 then st.bad + 1 else 0)
            have X1 := H.bad st (if gn ≤ 0 then st.bad + 1 else 0) hX
            have I2 := applyMove_inv hws I1 hvn hp.2.1 hp.2.2
              (H.cut k _ _ gn I1 X1 hp.2.1 hvn) ham1
            have X2 := H.step k _ _ gn _ _ I1 X1 hp.2.1 hvn ham1
            refine ih (k + 1) st1 I2 X2 ?_ h
            intro m hm
            have : ¬ m ≤ k := by simpa [limitReached, hm] using hlim
            omega

/-! ## one pass, the pass loop -/

theorem kept_append (ms rs : List Nat) (m r : Nat) (h : ms.length = rs.length) :
    kept (ms ++ [m]) (rs ++ [r]) = kept ms rs + (m - r) := by
  induction ms generalizing rs with
  | nil =>
    cases rs with
    | nil => simp [kept]
    | cons _ _ => simp at h
  | cons a as ih =>
    cases rs with
    | nil => simp at h
    | cons b bs =>
      simp only [List.cons_append, kept]
      rw [ih bs (by simpa using h)]
      omega

/-- Invariant of the pass loop (`i` = number of passes done, `p0` = input ids, `c0` = input cut). -/
structure OInv (g : Graph) (ws : List Int) (cap lb0 lb1 : Int) (CT : Prop) (prm : Params)
    (p0 : List Nat) (c0 : Int) (i : Nat) (o : Outer) : Prop where
  plen : o.part.length = p0.length
  ple : ∀ x ∈ o.part, x ≤ 1
  pw0 : o.pw0 = load ws o.part 0
  pw1 : o.pw1 = load ws o.part 1
  capb : (∀ w ∈ ws, 0 ≤ w) → o.pw0 ≤ max lb0 cap ∧ o.pw1 ≤ max lb1 cap
  cut : CT → o.best = edgeCut g o.part
  cutle : o.best ≤ c0
  mlen : o.moves.length = i
  rlen : o.rewound.length = i
  mle : ∀ m, prm.maxMoves = some m → ∀ x ∈ o.moves, x ≤ m
  rle : ∀ x ∈ o.moves.zip o.rewound, x.2 ≤ x.1
  hamk : ham p0 o.part ≤ kept o.moves o.rewound

theorem initPass_inv {g : Graph} {ws : List Int} {cap lb0 lb1 : Int} {CT : Prop} {prm : Params}
    {p0 : List Nat} {c0 : Int} {i : Nat} {o : Outer}
    (O : OInv g ws cap lb0 lb1 CT prm p0 c0 i o) :
    Inv g ws cap lb0 lb1 CT o 0 (initPass g o) := by
  have G : Good g ws cap lb0 lb1 CT o 0 o.best o.part o.pw0 o.pw1 :=
    ⟨rfl, O.ple, O.pw0, O.pw1, O.capb, by simp [ham_self], O.cut⟩
  refine ⟨G, by simp [initPass], rfl, ?_, ?_, Int.le_refl _, fun _ => rfl, ?_⟩
  · intro e he; simp [initPass] at he
  · intro b hb; simp [initPass] at hb
  · exact ⟨o.part, o.pw0, o.pw1, rfl, G⟩

theorem onePass_inv {ch : Nat → Nat} {prm : Params} {g : Graph} {ws : List Int}
    {mpg cap lb0 lb1 : Int} {CT : Prop} {p0 : List Nat} {c0 : Int} {i : Nat} {o o' : Outer}
    {X : PassSt → Prop}
    (hws : p0.length = ws.length)
    (O : OInv g ws cap lb0 lb1 CT prm p0 c0 i o)
    (H : StepHyp prm g ws mpg cap lb0 lb1 CT o X) (hX : X (initPass g o))
    (h : onePass ch prm g ws cap mpg o = .ok o') :
    OInv g ws cap lb0 lb1 CT prm p0 c0 (i + 1) o' ∧ o'.best ≤ o.best := by
  unfold onePass at h
  split at h
  · simp at h
  · split at h
    · simp at h
    · next st hml =>
      simp only at h
      split at h
      · simp at h
      · next hr =>
        simp only [Except.ok.injEq] at h
        subst h
        obtain ⟨k', I, -, hkm⟩ := movesLoop_inv (by rw [O.plen]; exact hws) H _ 0 _ _
          (initPass_inv O) hX (fun m _ => Nat.zero_le m) hml
        obtain ⟨sp, sa, sb, hres, GS⟩ := I.snap
        rw [hres]
        have hrk : rewindTo st.bestAt ≤ k' := rewindTo_le I.bat
        refine ⟨⟨by rw [GS.plen]; exact O.plen, GS.ple, GS.pw0, GS.pw1, GS.capb,
          fun ct => GS.cut ct, Int.le_trans I.ble O.cutle, by simp [O.mlen], by simp [O.rlen],
          ?_, ?_, ?_⟩, I.ble⟩
        · intro m hm x hx
          simp only [List.mem_append, List.mem_singleton] at hx
          rcases hx with hx | hx
          · exact O.mle m hm x hx
          · rw [hx, I.hlen]; exact hkm m hm
        · intro x hx
          rw [List.zip_append (by rw [O.mlen, O.rlen])] at hx
          simp only [List.mem_append, List.zip_cons_cons, List.zip_nil_right, List.mem_singleton] at hx
          rcases hx with hx | hx
          · exact O.rle x hx
          · subst hx; simp
        · rw [kept_append _ _ _ _ (by rw [O.mlen, O.rlen]), I.hlen]
          have h1 := ham_triangle p0 o.part sp O.plen.symm GS.plen.symm
          have h2 := GS.hamc
          have h3 := O.hamk
          show ham p0 sp ≤ _
          omega

theorem passLoop_inv {ch : Nat → Nat → Nat} {prm : Params} {g : Graph} {ws : List Int}
    {mpg cap lb0 lb1 : Int} {CT : Prop} {p0 : List Nat} {c0 : Int} {X : PassSt → Prop}
    (hws : p0.length = ws.length)
    (H : ∀ i o, OInv g ws cap lb0 lb1 CT prm p0 c0 i o →
      StepHyp prm g ws mpg cap lb0 lb1 CT o X ∧ X (initPass g o))
    (fuel i : Nat) (o o' : Outer)
    (O : OInv g ws cap lb0 lb1 CT prm p0 c0 i o)
    (hi : ∀ m, prm.maxPasses = some m → i ≤ m)
    (h : passLoop ch prm g ws cap mpg fuel i o = .ok o') :
    ∃ i', OInv g ws cap lb0 lb1 CT prm p0 c0 i' o' ∧ (∀ m, prm.maxPasses = some m → i' ≤ m) := by
  induction fuel generalizing i o with
  | zero => simp [passLoop] at h
  | succ fuel ih =>
    simp only [passLoop] at h
    split at h
    · simp only [Except.ok.injEq] at h; subst h; exact ⟨i, O, hi⟩
    · next hlim =>
      have hi' : ∀ m, prm.maxPasses = some m → i + 1 ≤ m := by
        intro m hm
        have : ¬ m ≤ i := by simpa [limitReached, hm] using hlim
        omega
      split at h
      · simp at h
      · next o1 hop =>
        obtain ⟨O1, -⟩ := onePass_inv hws O (H i o O).1 (H i o O).2 hop
        split at h
        · simp only [Except.ok.injEq] at h; subst h; exact ⟨i + 1, O1, hi'⟩
        · exact ih (i + 1) o1 O1 hi' h

/-! ## the whole run -/

theorem run_inv {ch : Nat → Nat → Nat} {prm : Params} {capOpt : Option Int} {g : Graph}
    {ws : List Int} {p : List Nat} {r : Result} {CT : Prop} {X : PassSt → Prop}
    (H : ∀ i o, OInv g ws (capOf capOpt ws p) (load ws p 0) (load ws p 1) CT prm p (edgeCut g p) i o →
      StepHyp prm g ws (maxPossibleGain g) (capOf capOpt ws p) (load ws p 0) (load ws p 1) CT o X ∧
        X (initPass g o))
    (h : run ch prm capOpt g ws p = .ok r) (hne : p ≠ []) :
    ∃ i o, OInv g ws (capOf capOpt ws p) (load ws p 0) (load ws p 1) CT prm p (edgeCut g p) i o ∧
      (∀ m, prm.maxPasses = some m → i ≤ m) ∧ r = ⟨o.part, o.moves, o.rewound, o.logs⟩ := by
  unfold run at h
  split at h
  · simp at h
  · next hl1 =>
    split at h
    · simp at h
    · split at h
      · next he => simp at he; exact absurd he hne
      · split at h
        · simp at h
        · next hany =>
          simp only at h
          split at h
          · simp at h
          · split at h
            · simp at h
            · next o hpl =>
              simp only [Outcome.ok.injEq] at h
              have hle : ∀ x ∈ p, x ≤ 1 := by
                intro x hx
                have h1 : ¬ (1 < x) := fun hh => hany (List.any_eq_true.mpr ⟨x, hx, by simpa using hh⟩)
                omega
              have O0 : OInv g ws (capOf capOpt ws p) (load ws p 0) (load ws p 1) CT prm p
                  (edgeCut g p) 0
                  { part := p, pw0 := load ws p 0, pw1 := load ws p 1, best := edgeCut g p,
                    moves := [], rewound := [], logs := [] } :=
                ⟨rfl, hle, rfl, rfl, fun _ => ⟨Int.le_max_left _ _, Int.le_max_left _ _⟩,
                  fun _ => rfl, Int.le_refl _, rfl, rfl, by simp, by simp, by simp [ham_self]⟩
              obtain ⟨i', O', hi'⟩ := passLoop_inv (by simpa using hl1) H _ 0 _ _ O0
                (fun m _ => Nat.zero_le m) hpl
              exact ⟨i', o, O', hi', h.symm⟩

theorem stepHyp_trivial (prm : Params) (g : Graph) (ws : List Int) (mpg cap lb0 lb1 : Int)
    (o : Outer) : StepHyp prm g ws mpg cap lb0 lb1 (prm.dbg = true) o (fun _ => True) :=
  ⟨fun _ _ _ => trivial, fun _ _ _ _ _ _ _ _ _ _ _ => trivial, fun _ _ _ _ _ _ _ _ ct => Or.inl ct⟩

theorem run_empty {ch : Nat → Nat → Nat} {prm : Params} {capOpt : Option Int} {g : Graph}
    {ws : List Int} {r : Result} (h : run ch prm capOpt g ws [] = .ok r) : r = ⟨[], [], [], []⟩ := by
  unfold run at h
  split at h
  · simp at h
  · split at h
    · simp at h
    · simp at h; exact h.symm

/-! ## Part 3: symmetric graphs — the gain table is exact (`gain_inv`) -/

/-- Total weight of the entries of `row` whose column is `u` (the matrix entry `A[·,u]`; `sprs`
rows have at most one such entry, the definition does not need that). -/
def wtRow (row : Row) (u : Nat) : Int := (row.map (fun e => if e.1 = u then e.2 else 0)).sum

/-- The inputs the property quantifies over: a CSR matrix as `sprs` guarantees it (square, column
indices in range, rows strictly ascending) that is symmetric, without self-loops, with
non-negative edge weights.  Every clause is decidable. -/
structure Valid (g : Graph) : Prop where
  idx : ∀ v < g.length, ∀ e ∈ rowOf g v, e.1 < g.length
  sorted : ∀ v < g.length, (rowOf g v).Pairwise (fun a b => a.1 < b.1)
  sym : ∀ u < g.length, ∀ v < g.length, wtRow (rowOf g u) v = wtRow (rowOf g v) u
  noloop : ∀ v < g.length, ∀ e ∈ rowOf g v, e.1 ≠ v
  nonneg : ∀ v < g.length, ∀ e ∈ rowOf g v, 0 ≤ e.2

/-- `gain_inv`: the gain table holds the true gain of every free vertex. -/
def GInv (g : Graph) (st : PassSt) : Prop :=
  ∀ u x, st.gains.getD u none = some x → x = gainOf g st.part u

theorem partOf_set (p : List Nat) (v x u : Nat) (hv : v < p.length) :
    partOf (p.set v x) u = if u = v then x else partOf p u := by
  unfold partOf
  by_cases h : u = v
  · subst h; simp [List.getD_eq_getElem?_getD, List.getElem?_set_self hv]
  · simp [h, List.getD_eq_getElem?_getD, List.getElem?_set_ne (Ne.symm h)]

theorem getD_some_lt {gs : List (Option Int)} {u : Nat} {x : Int}
    (h : gs.getD u none = some x) : u < gs.length := by
  apply Classical.byContradiction
  intro hc
  simp [List.getD_eq_getElem?_getD, List.getElem?_eq_none (by omega : gs.length ≤ u)] at h

theorem updNbrs_val {mpg : Int} {part : List Nat} {ip : Nat} {row : Row}
    {gs gs' : List (Option Int)} (h : updNbrs mpg part ip row gs = .ok gs') (u : Nat) (x : Int)
    (hx : gs.getD u none = some x) :
    gs'.getD u none = some (x + (if partOf part u = ip then 2 else -2) * wtRow row u) := by
  induction row generalizing gs x with
  | nil => simp only [updNbrs, Except.ok.injEq] at h; subst h; rw [hx]; simp [wtRow]
  | cons e row ih =>
    obtain ⟨u', w⟩ := e
    have hw : wtRow ((u', w) :: row) u = (if u' = u then w else 0) + wtRow row u := by
      simp [wtRow]
    simp only [updNbrs] at h
    split at h
    · next hnone =>
      have hne : u' ≠ u := by intro e; subst e; rw [hx] at hnone; simp at hnone
      rw [ih h x hx, hw, if_neg hne]; simp
    · next og hog =>
      have key : ∀ ug : Int, ug = og + (if partOf part u' = ip then 2 else -2) * w →
          (if inRange mpg ug = true then updNbrs mpg part ip row (gs.set u' (some ug))
            else Except.error Abort.bucketIndex) = Except.ok gs' →
          gs'.getD u none = some (x + (if partOf part u = ip then 2 else -2) * wtRow ((u', w) :: row) u) := by
        intro ug hug h
        split at h
        · by_cases hne : u' = u
          · subst hne
            have hlt : u' < gs.length := getD_some_lt hx
            have hox : og = x := by rw [hx] at hog; simpa using hog.symm
            have := ih h ug (by simp [List.getD_eq_getElem?_getD, List.getElem?_set_self hlt])
            rw [this, hw, hug, hox]
            simp only [if_true]
            congr 1
            split <;> omega
          · have := ih h x (by simpa [List.getD_eq_getElem?_getD, List.getElem?_set_ne hne] using hx)
            rw [this, hw, if_neg hne]; simp
        · simp at h
      split at h
      · next hp => exact key _ (by simp [hp]) h
      · next hp => exact key _ (by simp [hp]; omega) h

theorem gainOf_set (g : Graph) (p : List Nat) (v u : Nat) (hv : v < p.length) (huv : u ≠ v)
    (hle : ∀ i ∈ p, i ≤ 1) :
    gainOf g (p.set v (1 - partOf p v)) u =
      gainOf g p u + (if partOf p u = partOf p v then 2 else -2) * wtRow (rowOf g u) v := by
  unfold gainOf wtRow
  generalize rowOf g u = row
  have hu := partOf_le_one hle u
  have hvv := partOf_le_one hle v
  rw [partOf_set p v _ u hv, if_neg huv]
  induction row with
  | nil => simp
  | cons e row ih =>
    simp only [List.map_cons, List.sum_cons]
    rw [ih, partOf_set p v _ e.1 hv]
    have he := partOf_le_one hle e.1
    by_cases hev : e.1 = v
    · simp only [hev, if_true]
      rcases (by omega : partOf p u = 0 ∨ partOf p u = 1) with a | a <;>
      rcases (by omega : partOf p v = 0 ∨ partOf p v = 1) with b | b <;>
      simp [a, b] <;> omega
    · simp only [hev, if_false]
      split <;> split <;> omega

end Coupe.Fm
