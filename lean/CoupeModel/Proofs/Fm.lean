import CoupeModel.Model.Fm

/-!
# Lemmas about the FiducciaMattheyses model (`Model/Fm.lean`)

Part 1: lists (`load`, `ham`, `restore`), selection.
Part 2: the pass invariant `Inv` and its preservation by `applyMove`, `movesLoop`,
`onePass`, `passLoop`.
-/

namespace Coupe.Fm

/-- Number of positions at which two id arrays differ ("relabelled vertices"). -/
def ham : List Nat → List Nat → Nat
  | a :: as, b :: bs => (if a = b then 0 else 1) + ham as bs
  | _, _ => 0

/-- Moves kept over all passes: `Σ (moves_i - rewound_i)`. -/
def kept : List Nat → List Nat → Nat
  | m :: ms, r :: rs => (m - r) + kept ms rs
  | _, _ => 0

/-! ## `load`, `ham` -/

theorem load_set (ws : List Int) (p : List Nat) (v x k : Nat)
    (hv : v < p.length) (hl : p.length = ws.length) :
    load ws (p.set v x) k =
      load ws p k - (if partOf p v = k then wOf ws v else 0) + (if x = k then wOf ws v else 0) := by
  induction ws generalizing p v with
  | nil => simp at hl; simp [hl] at hv
  | cons w ws ih =>
    cases p with
    | nil => simp at hv
    | cons i ids =>
      cases v with
      | zero =>
        simp only [List.set_cons_zero, load, partOf, wOf, List.getD_cons_zero]
        omega
      | succ v =>
        simp only [List.set_cons_succ, load, partOf, wOf, List.getD_cons_succ]
        have := ih ids v (by simpa using hv) (by simpa using hl)
        simp only [partOf, wOf] at this
        omega

theorem ham_self (p : List Nat) : ham p p = 0 := by
  induction p with
  | nil => rfl
  | cons a as ih => simp [ham, ih]

theorem ham_set (q p : List Nat) (v x : Nat) : ham q (p.set v x) ≤ ham q p + 1 := by
  induction q generalizing p v with
  | nil => simp [ham]
  | cons a as ih =>
    cases p with
    | nil => simp [ham]
    | cons b bs =>
      cases v with
      | zero => simp only [List.set_cons_zero, ham]; split <;> split <;> omega
      | succ v =>
        simp only [List.set_cons_succ, ham]
        have := ih bs v
        omega

theorem ham_triangle (a b c : List Nat) (h1 : a.length = b.length) (h2 : b.length = c.length) :
    ham a c ≤ ham a b + ham b c := by
  induction a generalizing b c with
  | nil => simp [ham]
  | cons x xs ih =>
    cases b with
    | nil => simp at h1
    | cons y ys =>
      cases c with
      | nil => simp at h2
      | cons z zs =>
        simp only [ham]
        have := ih ys zs (by simpa using h1) (by simpa using h2)
        split <;> split <;> split <;> omega

/-! ## `restore` -/

theorem restore_append (ws : List Int) (l1 l2 : List (Nat × Nat)) (s : List Nat × Int × Int) :
    restore ws (l1 ++ l2) s = restore ws l2 (restore ws l1 s) := by
  induction l1 generalizing s with
  | nil => rfl
  | cons e l1 ih =>
    obtain ⟨v, ip⟩ := e
    obtain ⟨part, a, b⟩ := s
    simp only [List.cons_append, restore, ih]

theorem restore_length (ws : List Int) (l : List (Nat × Nat)) (s : List Nat × Int × Int) :
    (restore ws l s).1.length = s.1.length := by
  induction l generalizing s with
  | nil => rfl
  | cons e l ih =>
    obtain ⟨v, ip⟩ := e
    obtain ⟨part, a, b⟩ := s
    simp only [restore, ih, List.length_set]

/-- `restore` commutes with a write to a vertex that is not in the list. -/
theorem restore_comm (ws : List Int) (l : List (Nat × Nat)) (part : List Nat) (a b da db : Int)
    (v x : Nat) (hv : ∀ e ∈ l, e.1 ≠ v) :
    restore ws l (part.set v x, a + da, b + db) =
      (((restore ws l (part, a, b)).1).set v x, (restore ws l (part, a, b)).2.1 + da,
        (restore ws l (part, a, b)).2.2 + db) := by
  induction l generalizing part a b with
  | nil => rfl
  | cons e l ih =>
    obtain ⟨u, ip⟩ := e
    have hne : u ≠ v := hv (u, ip) (by simp)
    have hv' : ∀ e ∈ l, e.1 ≠ v := fun e he => hv e (by simp [he])
    simp only [restore]
    rw [List.set_comm _ _ (Ne.symm hne)]
    have e1 : (if ip = 0 then a + da + wOf ws u else a + da - wOf ws u) =
        (if ip = 0 then a + wOf ws u else a - wOf ws u) + da := by split <;> omega
    have e2 : (if ip = 0 then b + db - wOf ws u else b + db + wOf ws u) =
        (if ip = 0 then b - wOf ws u else b + wOf ws u) + db := by split <;> omega
    rw [e1, e2, ih _ _ _ hv']

theorem restore_getD (ws : List Int) (l : List (Nat × Nat)) (s : List Nat × Int × Int) (v : Nat)
    (hv : ∀ e ∈ l, e.1 ≠ v) : (restore ws l s).1.getD v 0 = s.1.getD v 0 := by
  induction l generalizing s with
  | nil => rfl
  | cons e l ih =>
    obtain ⟨u, ip⟩ := e
    obtain ⟨part, a, b⟩ := s
    have hne : u ≠ v := hv (u, ip) (by simp)
    simp only [restore]
    rw [ih _ (fun e he => hv e (by simp [he]))]
    simp [List.getD_eq_getElem?_getD, List.getElem?_set_ne hne]

/-! ## selection -/

theorem foldl_min_mem {α} (f : α → Int) (t : α) (ts : List α) :
    ∃ x ∈ t :: ts, f x = ts.foldl (fun a x => min a (f x)) (f t) := by
  induction ts generalizing t with
  | nil => exact ⟨t, by simp, rfl⟩
  | cons y ys ih =>
    simp only [List.foldl_cons]
    by_cases h : f t ≤ f y
    · rw [Int.min_eq_left h]
      obtain ⟨x, hx, e⟩ := ih t
      refine ⟨x, ?_, e⟩
      simp only [List.mem_cons] at hx ⊢
      rcases hx with hx | hx
      · exact Or.inl hx
      · exact Or.inr (Or.inr hx)
    · rw [Int.min_eq_right (by omega)]
      obtain ⟨x, hx, e⟩ := ih y
      exact ⟨x, by simp only [List.mem_cons] at hx ⊢; exact Or.inr hx, e⟩

theorem mem_freeAdm {ws : List Int} {cap : Int} {st : PassSt} {v : Nat} {gn : Int}
    (h : (v, gn) ∈ freeAdm ws cap st) :
    v < st.gains.length ∧ st.gains.getD v none = some gn ∧ ¬ cap < targetW ws st v := by
  simp only [freeAdm, List.mem_filterMap, List.mem_range] at h
  obtain ⟨u, hu, hm⟩ := h
  split at hm
  · next gu hgu =>
    split at hm
    · simp at hm
    · next hc =>
      simp only [Option.some.injEq, Prod.mk.injEq] at hm
      obtain ⟨rfl, rfl⟩ := hm
      exact ⟨hu, hgu, hc⟩
  · simp at hm

theorem select_spec {ws : List Int} {cap : Int} {st : PassSt} {gn : Int} {s : List Nat}
    (h : select ws cap st = some (gn, s)) :
    s ≠ [] ∧ ∀ v ∈ s, v < st.gains.length ∧ st.gains.getD v none = some gn ∧
      ¬ cap < targetW ws st v := by
  simp only [select] at h
  split at h
  · simp at h
  · next e es hfa =>
    split at h
    · simp at h
    · next t ts htop =>
      simp only [Option.some.injEq, Prod.mk.injEq] at h
      obtain ⟨hg, hs⟩ := h
      constructor
      · obtain ⟨x, hx, hfx⟩ := foldl_min_mem (targetW ws st) t ts
        intro hnil
        have : x ∈ s := by
          rw [← hs, List.mem_filter]
          exact ⟨hx, by simp [hfx]⟩
        simp [hnil] at this
      · intro v hv
        rw [← hs, List.mem_filter] at hv
        have hv1 : v ∈ ((e :: es).filter (fun x => x.2 == es.foldl (fun a x => max a x.2) e.2)).map (·.1) := by
          rw [htop]; exact hv.1
        simp only [List.mem_map, List.mem_filter] at hv1
        obtain ⟨⟨v', gv⟩, ⟨hmem, hgv⟩, rfl⟩ := hv1
        have hgv' : gv = gn := by
          have : gv = es.foldl (fun a x => max a x.2) e.2 := by simpa using hgv
          rw [this, hg]
        subst hgv'
        exact mem_freeAdm (hfa ▸ hmem)

theorem pick_mem (c : Nat) (s : List Nat) (h : s ≠ []) : pick c s ∈ s := by
  have hl : 0 < s.length := List.length_pos_iff.mpr h
  have : c % s.length < s.length := Nat.mod_lt _ hl
  simp only [pick, List.getD_eq_getElem?_getD, List.getElem?_eq_getElem this, Option.getD_some]
  exact List.getElem_mem _

/-! ## `updNbrs` -/

theorem updNbrs_length {mpg : Int} {part : List Nat} {ip : Nat} {row : Row}
    {gs gs' : List (Option Int)} (h : updNbrs mpg part ip row gs = .ok gs') :
    gs'.length = gs.length := by
  induction row generalizing gs with
  | nil => simp only [updNbrs, Except.ok.injEq] at h; rw [← h]
  | cons e row ih =>
    obtain ⟨u, w⟩ := e
    simp only [updNbrs] at h
    split at h
    · exact ih h
    · split at h
      · rw [ih h, List.length_set]
      · simp at h

theorem updNbrs_none {mpg : Int} {part : List Nat} {ip : Nat} {row : Row}
    {gs gs' : List (Option Int)} (h : updNbrs mpg part ip row gs = .ok gs') (v : Nat)
    (hv : gs.getD v none = none) : gs'.getD v none = none := by
  induction row generalizing gs with
  | nil => simp only [updNbrs, Except.ok.injEq] at h; rw [← h]; exact hv
  | cons e row ih =>
    obtain ⟨u, w⟩ := e
    simp only [updNbrs] at h
    split at h
    · exact ih h hv
    · next og hog =>
      split at h
      · refine ih h ?_
        have hne : u ≠ v := by
          intro e; subst e; rw [hv] at hog; simp at hog
        simpa [List.getD_eq_getElem?_getD, List.getElem?_set_ne hne] using hv
      · simp at h

end Coupe.Fm
