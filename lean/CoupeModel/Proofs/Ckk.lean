import CoupeModel.Model.Basic
import CoupeModel.Model.Ckk

/-! Helper lemmas for C13 (CKK). -/

namespace Coupe.Ckk

/-! ## Vocabulary -/

/-- Sign attached to a part id: part `0` counts `+`, part `1` counts `-`. -/
def sgn (x : Nat) : Int := if x = 0 then 1 else -1

/-- Signed sum of a weight list under a sign assignment on ids. -/
def ssum (σ : Nat → Int) : List WI → Int
  | [] => 0
  | x :: xs => x.1 * σ x.2 + ssum σ xs

/-- Sign assignment read off a partition array. -/
def sg (q : List Nat) (i : Nat) : Int := sgn (q[i]?.getD 0)

/-- The loop of `build`, started from an arbitrary array. -/
def unwind (steps : List Step) (q : List Nat) : Option (List Nat) :=
  steps.reverse.foldlM applyStep q

/-- Weights descending. -/
def Sorted (l : List WI) : Prop := l.Pairwise (fun x y => y.1 ≤ x.1)

/-- Every id of `W` is in bounds of `q` and already assigned to part `0` or `1`. -/
def Asg (W : List WI) (q : List Nat) : Prop :=
  ∀ x ∈ W, x.2 < q.length ∧ q[x.2]?.getD 0 ≤ 1

/-! ## `unwind` / `build` -/

theorem unwind_nil (q : List Nat) : unwind [] q = some q := rfl

theorem unwind_snoc (steps : List Step) (s : Step) (q : List Nat) :
    unwind (steps ++ [s]) q = (applyStep q s).bind (unwind steps) := by
  simp only [unwind, List.reverse_append, List.reverse_cons, List.reverse_nil, List.nil_append,
    List.cons_append, List.foldlM_cons]
  rfl

theorem build_eq (p : List Nat) (last : Nat) (steps : List Step) :
    build p last steps = if last < p.length then unwind steps (p.set last 0) else none := rfl

/-- What a successful `applyStep` does, given that `a` is in bounds and assigned. -/
theorem applyStep_eq {q : List Nat} {s : Step} (ha : s.a < q.length) (hb : s.b < q.length)
    (hv : q[s.a]?.getD 0 ≤ 1) :
    applyStep q s =
      some (q.set s.b (if s.separate then 1 - q[s.a]?.getD 0 else q[s.a]?.getD 0)) := by
  unfold applyStep
  rw [List.getElem?_eq_getElem ha] at hv ⊢
  simp only [Option.getD_some] at hv ⊢
  simp only [hb, if_true]
  cases s.separate <;> simp [hv]

/-! ## `insDesc` / `sortDesc` -/

theorem mem_insDesc {e y : WI} {l : List WI} : y ∈ insDesc e l ↔ y = e ∨ y ∈ l := by
  induction l with
  | nil => simp [insDesc]
  | cons x xs ih =>
    simp only [insDesc]
    split
    · simp only [List.mem_cons, ih]; grind
    · simp only [List.mem_cons]

theorem length_insDesc (e : WI) (l : List WI) : (insDesc e l).length = l.length + 1 := by
  induction l with
  | nil => rfl
  | cons x xs ih =>
    simp only [insDesc]
    split <;> simp [ih]

theorem ssum_insDesc (σ : Nat → Int) (e : WI) (l : List WI) :
    ssum σ (insDesc e l) = e.1 * σ e.2 + ssum σ l := by
  induction l with
  | nil => rfl
  | cons x xs ih =>
    simp only [insDesc]
    split
    · simp only [ssum, ih]; omega
    · simp only [ssum]

theorem perm_insDesc (e : WI) (l : List WI) : (insDesc e l).Perm (e :: l) := by
  induction l with
  | nil => exact List.Perm.refl _
  | cons x xs ih =>
    simp only [insDesc]
    split
    · exact (List.Perm.cons x ih).trans (List.Perm.swap e x xs)
    · exact List.Perm.refl _

theorem wiLt_true_le {e x : WI} (h : wiLt e x = true) : e.1 ≤ x.1 := by
  simp only [wiLt, Bool.or_eq_true, Bool.and_eq_true, decide_eq_true_eq, beq_iff_eq] at h
  omega

theorem wiLt_false_le {e x : WI} (h : ¬ wiLt e x = true) : x.1 ≤ e.1 := by
  simp only [wiLt, Bool.or_eq_true, Bool.and_eq_true, decide_eq_true_eq, beq_iff_eq] at h
  omega

theorem sorted_insDesc {e : WI} {l : List WI} (h : Sorted l) : Sorted (insDesc e l) := by
  induction l with
  | nil => simp [insDesc, Sorted]
  | cons x xs ih =>
    unfold Sorted at h ih ⊢
    rw [List.pairwise_cons] at h
    simp only [insDesc]
    split
    next hlt =>
      rw [List.pairwise_cons]
      refine ⟨?_, ih h.2⟩
      intro y hy
      rcases mem_insDesc.1 hy with rfl | hy
      · exact wiLt_true_le hlt
      · exact h.1 y hy
    next hlt =>
      have hle := wiLt_false_le hlt
      rw [List.pairwise_cons, List.pairwise_cons]
      refine ⟨?_, h⟩
      intro y hy
      rcases List.mem_cons.1 hy with rfl | hy
      · exact hle
      · exact Int.le_trans (h.1 y hy) hle

theorem mem_sortDesc {y : WI} {l : List WI} : y ∈ sortDesc l ↔ y ∈ l := by
  induction l with
  | nil => simp [sortDesc]
  | cons x xs ih => simp only [sortDesc, mem_insDesc, ih, List.mem_cons]

theorem length_sortDesc (l : List WI) : (sortDesc l).length = l.length := by
  induction l with
  | nil => rfl
  | cons x xs ih => simp only [sortDesc, length_insDesc, ih, List.length_cons]

theorem ssum_sortDesc (σ : Nat → Int) (l : List WI) : ssum σ (sortDesc l) = ssum σ l := by
  induction l with
  | nil => rfl
  | cons x xs ih => simp only [sortDesc, ssum_insDesc, ih, ssum]

theorem perm_sortDesc (l : List WI) : (sortDesc l).Perm l := by
  induction l with
  | nil => exact List.Perm.refl _
  | cons x xs ih => exact (perm_insDesc x _).trans (List.Perm.cons x ih)

theorem sorted_sortDesc (l : List WI) : Sorted (sortDesc l) := by
  induction l with
  | nil => simp [sortDesc, Sorted]
  | cons x xs ih => exact sorted_insDesc ih

theorem ssum_congr {σ τ : Nat → Int} {W : List WI} (h : ∀ x ∈ W, σ x.2 = τ x.2) :
    ssum σ W = ssum τ W := by
  induction W with
  | nil => rfl
  | cons x xs ih =>
    simp only [ssum]
    rw [h x (List.mem_cons_self ..), ih (fun y hy => h y (List.mem_cons_of_mem _ hy))]

/-! ## Reading the array after a step -/

theorem getD_set {q : List Nat} {i : Nat} (j v : Nat) (hi : i < q.length) :
    (q.set i v)[j]?.getD 0 = if i = j then v else q[j]?.getD 0 := by
  rw [List.getElem?_set]
  split
  · rfl
  · rfl

theorem sgn_cases (x : Nat) : sgn x = 1 ∨ sgn x = -1 := by
  unfold sgn; split <;> simp

theorem sgn_flip {x : Nat} (h : x ≤ 1) : sgn (1 - x) = - sgn x := by
  have : x = 0 ∨ x = 1 := by omega
  rcases this with rfl | rfl <;> simp [sgn]

/-- Undoing one step: every id of the list before the step is assigned afterwards. -/
theorem asg_step {q : List Nat} {ai bi v : Nat} {w' aw bw : Int} {rest : List WI}
    (hq : Asg (insDesc (w', ai) rest) q) (hb : bi < q.length) (hv : v ≤ 1) :
    Asg ((aw, ai) :: (bw, bi) :: rest) (q.set bi v) := by
  intro x hx
  have key : ∀ i, (i = ai ∨ ∃ y ∈ rest, y.2 = i) → i < q.length ∧ q[i]?.getD 0 ≤ 1 := by
    intro i hi
    rcases hi with rfl | ⟨y, hy, rfl⟩
    · exact hq (w', i) (mem_insDesc.2 (Or.inl rfl))
    · exact hq y (mem_insDesc.2 (Or.inr hy))
  rw [List.length_set, getD_set _ _ hb]
  simp only [List.mem_cons] at hx
  rcases hx with rfl | rfl | hx
  · have := key ai (Or.inl rfl)
    refine ⟨this.1, ?_⟩
    split
    · exact hv
    · exact this.2
  · exact ⟨hb, by simp [hv]⟩
  · have := key x.2 (Or.inr ⟨x, hx, rfl⟩)
    refine ⟨this.1, ?_⟩
    split
    · exact hv
    · exact this.2

/-- Undoing one step: effect on the signed sum. -/
theorem ssum_step {q : List Nat} {ai bi : Nat} (sep : Bool) {aw bw : Int} {rest : List WI}
    (hb : bi < q.length) (hab : ai ≠ bi) (hbr : ∀ x ∈ rest, x.2 ≠ bi)
    (hv : q[ai]?.getD 0 ≤ 1) :
    ssum (sg (q.set bi (if sep then 1 - q[ai]?.getD 0 else q[ai]?.getD 0)))
        ((aw, ai) :: (bw, bi) :: rest)
      = (if sep then aw - bw else aw + bw) * sg q ai + ssum (sg q) rest := by
  generalize hvv : (if sep then 1 - q[ai]?.getD 0 else q[ai]?.getD 0) = v
  have hrest : ssum (sg (q.set bi v)) rest = ssum (sg q) rest := by
    apply ssum_congr
    intro x hx
    have := hbr x hx
    simp only [sg, getD_set _ _ hb]
    rw [if_neg (fun h => this h.symm)]
  have ha : sg (q.set bi v) ai = sg q ai := by
    simp only [sg, getD_set _ _ hb]
    rw [if_neg (fun h => hab h.symm)]
  have hbv : sg (q.set bi v) bi = sgn v := by
    simp only [sg, getD_set _ _ hb, if_true]
  simp only [ssum, hrest, ha, hbv]
  cases sep
  · simp only [Bool.false_eq_true, if_false] at hvv ⊢
    subst hvv
    simp only [sg]
    grind
  · simp only [if_true] at hvv ⊢
    subst hvv
    rw [sgn_flip hv]
    simp only [sg]
    grind

/-! ## Totality of `rec` -/

theorem rec_ne_none (cfg : Cfg) (fuel : Nat) (p : List Nat) (W : List WI) (tol : Int)
    (steps : List Step)
    (hfuel : W.length ≤ fuel) (hne : W ≠ [])
    (hid : ∀ x ∈ W, x.2 < p.length)
    (hsafe : ∀ q, q.length = p.length → Asg W q → unwind steps q ≠ none) :
    rec cfg fuel p W tol steps ≠ none := by
  induction fuel generalizing W steps with
  | zero =>
    cases W with
    | nil => exact absurd rfl hne
    | cons x xs => simp at hfuel
  | succ fuel ih =>
    match W, hne with
    | [(w, id)], _ =>
      simp only [rec]
      split
      · have hlt : id < p.length := hid (w, id) (List.mem_singleton.2 rfl)
        have hb : build p id steps ≠ none := by
          rw [build_eq, if_pos hlt]
          apply hsafe _ (by simp)
          intro x hx
          rw [List.mem_singleton.1 hx]
          simp [hlt]
        split
        · simp
        · next hnone => exact absurd hnone hb
      · simp
    | (aw, ai) :: (bw, bi) :: rest, _ =>
      have hai : ai < p.length := hid (aw, ai) (by simp)
      have hbi : bi < p.length := hid (bw, bi) (by simp)
      have hstep : ∀ (w' : Int) (sep : Bool),
          rec cfg fuel p (insDesc (w', ai) rest) tol (steps ++ [⟨ai, bi, sep⟩]) ≠ none := by
        intro w' sep
        apply ih
        · rw [length_insDesc]; simp only [List.length_cons] at hfuel; omega
        · intro h
          have := length_insDesc (w', ai) rest
          rw [h] at this
          simp at this
        · intro x hx
          rcases mem_insDesc.1 hx with rfl | hx
          · exact hai
          · exact hid x (by simp [hx])
        · intro q hlen hq
          have ha := hq (w', ai) (mem_insDesc.2 (Or.inl rfl))
          have hb : bi < q.length := by omega
          rw [unwind_snoc, applyStep_eq (s := ⟨ai, bi, sep⟩) ha.1 hb ha.2, Option.bind_some]
          apply hsafe
          · simp [hlen]
          · apply asg_step hq hb
            have := ha.2
            simp only at this
            split <;> omega
      simp only [rec]
      split
      · next hnone => exact absurd hnone (hstep _ _)
      · simp
      · exact hstep _ _

/-! ## Soundness of `rec` -/

theorem rec_sound (cfg : Cfg) (hc : cfg.sumSeparate = false) (fuel : Nat) (p : List Nat)
    (W : List WI) (tol : Int) (steps : List Step) (q : List Nat)
    (hs : Sorted W) (hnn : ∀ x ∈ W, 0 ≤ x.1) (hnd : (W.map (·.2)).Nodup)
    (hid : ∀ x ∈ W, x.2 < p.length)
    (h : rec cfg fuel p W tol steps = some (some q)) :
    ∃ q', unwind steps q' = some q ∧ q'.length = p.length ∧ Asg W q' ∧
      0 ≤ ssum (sg q') W ∧ ssum (sg q') W ≤ tol := by
  induction fuel generalizing W steps with
  | zero => simp [rec] at h
  | succ fuel ih =>
    match W with
    | [] => simp [rec] at h
    | [(w, id)] =>
      simp only [rec] at h
      split at h
      · next hle =>
        split at h
        · next q0 hq0 =>
          have hqq : q0 = q := by simpa using h
          subst hqq
          rw [build_eq] at hq0
          split at hq0
          · next hlt =>
            refine ⟨p.set id 0, hq0, by simp, ?_, ?_⟩
            · intro x hx
              rw [List.mem_singleton.1 hx]
              simp [hlt]
            · have h0 : 0 ≤ w := hnn (w, id) (List.mem_singleton.2 rfl)
              have : ssum (sg (p.set id 0)) [(w, id)] = w := by
                simp [ssum, sg, sgn, hlt]
              rw [this]
              exact ⟨h0, hle⟩
          · simp at hq0
        · simp at h
      · simp at h
    | (aw, ai) :: (bw, bi) :: rest =>
      have hai : ai < p.length := hid (aw, ai) (by simp)
      have hbi : bi < p.length := hid (bw, bi) (by simp)
      -- facts from the invariants
      unfold Sorted at hs
      rw [List.pairwise_cons, List.pairwise_cons] at hs
      have hba : bw ≤ aw := hs.1 (bw, bi) (by simp)
      have ha0 : 0 ≤ aw := hnn (aw, ai) (by simp)
      have hb0 : 0 ≤ bw := hnn (bw, bi) (by simp)
      simp only [List.map_cons, List.nodup_cons, List.mem_cons, List.mem_map, not_or] at hnd
      have hab : ai ≠ bi := hnd.1.1
      have har : ∀ x ∈ rest, x.2 ≠ ai := fun x hx he => hnd.1.2 ⟨x, hx, he⟩
      have hbr : ∀ x ∈ rest, x.2 ≠ bi := fun x hx he => hnd.2.1 ⟨x, hx, he⟩
      have hstep : ∀ (w' : Int) (sep : Bool), 0 ≤ w' →
          w' = (if sep then aw - bw else aw + bw) →
          rec cfg fuel p (insDesc (w', ai) rest) tol (steps ++ [⟨ai, bi, sep⟩]) = some (some q) →
          ∃ q', unwind steps q' = some q ∧ q'.length = p.length ∧
            Asg ((aw, ai) :: (bw, bi) :: rest) q' ∧
            0 ≤ ssum (sg q') ((aw, ai) :: (bw, bi) :: rest) ∧
            ssum (sg q') ((aw, ai) :: (bw, bi) :: rest) ≤ tol := by
        intro w' sep hw0 hw' hrec
        have hW' : ∀ x ∈ insDesc (w', ai) rest, x = (w', ai) ∨ x ∈ rest :=
          fun x hx => mem_insDesc.1 hx
        obtain ⟨q'', hun, hlen, hasg, hlo, hhi⟩ := ih (insDesc (w', ai) rest)
          (steps ++ [⟨ai, bi, sep⟩]) (sorted_insDesc hs.2.2)
          (by
            intro x hx
            rcases hW' x hx with rfl | hx
            · exact hw0
            · exact hnn x (by simp [hx]))
          (by
            rw [(List.Perm.map _ (perm_insDesc (w', ai) rest)).nodup_iff]
            simp only [List.map_cons, List.nodup_cons, List.mem_map, not_exists, not_and]
            exact ⟨fun x hx => har x hx, hnd.2.2⟩)
          (by
            intro x hx
            rcases hW' x hx with rfl | hx
            · exact hai
            · exact hid x (by simp [hx]))
          hrec
        have ha := hasg (w', ai) (mem_insDesc.2 (Or.inl rfl))
        have hb : bi < q''.length := by omega
        rw [unwind_snoc, applyStep_eq (s := ⟨ai, bi, sep⟩) ha.1 hb ha.2, Option.bind_some] at hun
        have hv1 : (if sep then 1 - q''[ai]?.getD 0 else q''[ai]?.getD 0) ≤ 1 := by
          have := ha.2
          simp only at this
          split <;> omega
        have hsum := ssum_step (q := q'') sep (aw := aw) (bw := bw) (rest := rest) hb hab hbr ha.2
        rw [ssum_insDesc] at hlo hhi
        simp only at hun hlo hhi
        refine ⟨_, hun, by simp [hlen], asg_step hasg hb hv1, ?_, ?_⟩
        · rw [hsum, ← hw']; exact hlo
        · rw [hsum, ← hw']; exact hhi
      simp only [rec] at h
      split at h
      · simp at h
      · next q1 hq1 =>
        have hqq : q1 = q := by simpa using h
        subst hqq
        exact hstep (aw - bw) true (by omega) (by simp) hq1
      · rw [hc] at h
        exact hstep (aw + bw) false (by omega) (by simp) h

/-! ## Completeness of `rec` -/

theorem rec_complete (cfg : Cfg) (fuel : Nat) (p : List Nat) (W : List WI) (tol : Int)
    (steps : List Step) (h : rec cfg fuel p W tol steps = some none)
    (σ : Nat → Int) (hσ : ∀ i, σ i = 1 ∨ σ i = -1) :
    tol < ((ssum σ W).natAbs : Int) := by
  induction fuel generalizing W steps with
  | zero => simp [rec] at h
  | succ fuel ih =>
    match W with
    | [] => simp [rec] at h
    | [(w, id)] =>
      simp only [rec] at h
      split at h
      · split at h <;> simp at h
      · next hlt =>
        simp only [ssum]
        rcases hσ id with h1 | h1 <;> rw [h1] <;> omega
    | (aw, ai) :: (bw, bi) :: rest =>
      simp only [rec] at h
      split at h
      · simp at h
      · simp at h
      · next hdiff =>
        have h1 := ih _ _ hdiff
        have h2 := ih _ _ h
        rw [ssum_insDesc] at h1 h2
        simp only [ssum] at h1 h2 ⊢
        rcases hσ ai with ha | ha <;> rcases hσ bi with hb | hb <;> rw [ha] at h1 h2 ⊢ <;>
          rw [hb] <;> omega

/-! ## Signed sums and loads -/

theorem load_cons (w : Int) (ws : List Int) (i : Nat) (ids : List Nat) (k : Nat) :
    load (w :: ws) (i :: ids) k = (if i = k then w else 0) + load ws ids k := by
  unfold load
  simp only [List.zip_cons_cons, List.filter_cons]
  split <;> simp_all

theorem ssum_zipIdx (ws : List Int) (ids : List Nat) (k : Nat) (f : Nat → Int)
    (hlen : ids.length = ws.length) (h01 : ∀ i ∈ ids, i ≤ 1)
    (hf : ∀ j (h : j < ids.length), f (k + j) = sgn ids[j]) :
    ssum f (ws.zipIdx k) = load ws ids 0 - load ws ids 1 := by
  induction ws generalizing ids k with
  | nil => simp [ssum, load]
  | cons w ws ih =>
    match ids with
    | [] => simp at hlen
    | i :: ids =>
      have hi : i ≤ 1 := h01 i (by simp)
      have h0 := hf 0 (by simp)
      simp only [Nat.add_zero, List.getElem_cons_zero] at h0
      rw [List.zipIdx_cons, ssum, load_cons, load_cons, h0,
        ih ids (k + 1) (by simpa using hlen) (fun j hj => h01 j (by simp [hj]))
          (fun j hj => by
            have := hf (j + 1) (by simpa using hj)
            simpa [Nat.add_assoc, Nat.add_comm 1 j] using this)]
      have : i = 0 ∨ i = 1 := by omega
      rcases this with rfl | rfl <;> simp [sgn] <;> omega

theorem ssum_sg_zipIdx (ws : List Int) (ids : List Nat)
    (hlen : ids.length = ws.length) (h01 : ∀ i ∈ ids, i ≤ 1) :
    ssum (sg ids) ws.zipIdx = load ws ids 0 - load ws ids 1 := by
  apply ssum_zipIdx ws ids 0 (sg ids) hlen h01
  intro j hj
  simp [sg, hj]

/-! ## Facts about the initial list `sortDesc ws.zipIdx` -/

theorem init_id_lt (ws : List Int) : ∀ x ∈ sortDesc ws.zipIdx, x.2 < ws.length := by
  intro x hx
  have := List.snd_lt_of_mem_zipIdx (mem_sortDesc.1 hx)
  omega

theorem init_nonneg (ws : List Int) (hnn : ∀ w ∈ ws, 0 ≤ w) :
    ∀ x ∈ sortDesc ws.zipIdx, 0 ≤ x.1 := by
  intro x hx
  have := List.mem_zipIdx_iff_getElem?.1 (mem_sortDesc.1 hx)
  exact hnn _ (List.mem_of_getElem? this)

theorem init_nodup (ws : List Int) : ((sortDesc ws.zipIdx).map (·.2)).Nodup := by
  rw [(List.Perm.map _ (perm_sortDesc ws.zipIdx)).nodup_iff, List.zipIdx_map_snd]
  exact List.nodup_range' 1

theorem init_asg_le_one (ws : List Int) (q : List Nat) (hlen : q.length = ws.length)
    (h : Asg (sortDesc ws.zipIdx) q) : ∀ i ∈ q, i ≤ 1 := by
  intro i hi
  obtain ⟨j, hj, rfl⟩ := List.mem_iff_getElem.1 hi
  have hj' : j < ws.length := by omega
  have hm : (ws[j], j) ∈ sortDesc ws.zipIdx :=
    mem_sortDesc.2 (List.mem_zipIdx_iff_getElem?.2 (by simp [hj']))
  have := (h _ hm).2
  simpa [hj] using this

/-! ## `run` -/

theorem run_eq_of_len {cfg : Cfg} {p : List Nat} {ws : List Int} {tol : Int}
    (hlen : ws.length = p.length) (hne : ws ≠ []) :
    run cfg p ws tol =
      match rec cfg (sortDesc ws.zipIdx).length p (sortDesc ws.zipIdx) tol [] with
      | none => .abort
      | some none => .notFound
      | some (some q) => .ok q := by
  unfold run
  simp only [hlen, ne_eq, not_true_eq_false, if_false, List.isEmpty_iff, hne]
  rfl

theorem run_rec_ne_none (cfg : Cfg) (p : List Nat) (ws : List Int) (tol : Int)
    (hlen : ws.length = p.length) (hne : ws ≠ []) :
    rec cfg (sortDesc ws.zipIdx).length p (sortDesc ws.zipIdx) tol [] ≠ none := by
  apply rec_ne_none
  · exact Nat.le_refl _
  · intro h
    have := length_sortDesc ws.zipIdx
    rw [h] at this
    exact hne (List.length_eq_zero_iff.1 (by simpa using this.symm))
  · intro x hx
    rw [← hlen]
    exact init_id_lt ws x hx
  · intro q _ _
    simp [unwind_nil]

end Coupe.Ckk
