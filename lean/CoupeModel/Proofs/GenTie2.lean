import CoupeModel.Gen.IntFns
import CoupeModel.Model.Hilbert
import CoupeModel.Proofs.HilbertCode

/-!
# GenTie2 (lemmas) — the Hilbert encoders assembled from the generated loop bodies

`Gen/IntFns.lean` holds, regenerated from `src/algorithms/hilbert_curve.rs` on every run, ONE turn of
each loop of `encode_2d_slow`, `encode_2d` (and of the initialiser of its `const LUT`), `encode_3d`,
and the straight-line code before/after the loops.  Here the loops themselves are put back around
these bodies (`whileFuel`, `forRev`: the loop headers are locked as text by the translator), giving
`genSlow2`, `genLut`, `genEncode2`, `genEncode3`, and these are proved equal to the hand-written code
mirrors of `Model/Hilbert.lean` (`slow2U`, `lut`, `fast2`, `enc3U`).
-/

namespace Coupe.GenTie2
open Coupe.Gen.IntFns Coupe.Gen.HilbertTables Coupe.Hilbert

/-! ## Loops -/

/-- `while cond { step }`, at most `fuel` turns.  `none`: a turn panicked, or the condition still
holds after `fuel` turns. -/
def whileFuel {σ : Type} (cond : σ → Bool) (step : σ → Option σ) : Nat → σ → Option σ
  | 0, s => if cond s then none else some s
  | fuel + 1, s => if cond s then (step s).bind (whileFuel cond step fuel) else some s

/-- `for i in (0..n).rev() { step }`. -/
def forRev {σ : Type} (step : Nat → σ → Option σ) : Nat → σ → Option σ
  | 0, s => some s
  | i + 1, s => (step i s).bind (forRev step i)

/-! ## `encode_2d_slow` -/

/-- `encode_2d_slow(zorder, order, config)` around the generated loop body:
`let mut hilbert = 0; let mut i = order; while i > 0 { encode_2d_slow_step } (hilbert, config)`;
the `const` tables are the generated `BASE_PATTERN`, `CONFIGURATION` (through the accessors
`base2`, `conf2` of the model). -/
def genSlow2 (zorder order config : Nat) : Option (Nat × Nat) :=
  (whileFuel (fun s : Nat × Nat × Nat => decide (s.1 > 0))
      (fun s => encode_2d_slow_step base2 conf2 zorder s.1 s.2.1 s.2.2) order (order, 0, config)).map
    fun s => (s.2.1, s.2.2)

theorem quad_lt (z i : Nat) : (z >>> (2 * i)) &&& 3 < 4 := Nat.lt_succ_of_le Nat.and_le_right

theorem slow_step_eq (z i h c : Nat) (hi : i < 32) (hc : c < 4) :
    encode_2d_slow_step base2 conf2 z (i + 1) h c
      = some (i, ((h <<< 2) % W64) ||| base2 c ((z >>> (2 * i)) &&& 3), conf2 c ((z >>> (2 * i)) &&& 3)) := by
  have hq := quad_lt z i
  have h2 : 2 * i < 64 := by omega
  simp [encode_2d_slow_step, csub, cshr, cidx, hc, hq, h2, W64]

theorem conf2_lt' {c : Nat} (hc : c < 4) (z i : Nat) : conf2 c ((z >>> (2 * i)) &&& 3) < 4 :=
  m2_valid.conf_lt c hc _ (quad_lt z i)

theorem slow_loop_eq (z : Nat) : ∀ i h c, i ≤ 32 → c < 4 →
    whileFuel (fun s : Nat × Nat × Nat => decide (s.1 > 0))
      (fun s => encode_2d_slow_step base2 conf2 z s.1 s.2.1 s.2.2) i (i, h, c)
      = some (0, (slow2Loop z i h c).1, (slow2Loop z i h c).2)
  | 0, h, c, _, _ => by simp [whileFuel, slow2Loop]
  | i + 1, h, c, hi, hc => by
    rw [whileFuel]
    simp only [show decide (i + 1 > 0) = true by simp, if_true]
    rw [slow_step_eq z i h c (by omega) hc]
    simp only [Option.bind_some]
    rw [slow_loop_eq z i _ _ (by omega) (conf2_lt' hc z i)]
    rfl

theorem genSlow2_eq {order c : Nat} (ho : order ≤ 32) (hc : c < 4) (z : Nat) :
    genSlow2 z order c = some (slow2U z order c) := by
  rw [genSlow2, slow_loop_eq z order 0 c ho hc]
  rfl

/-! ## The `const LUT` of `encode_2d` -/

/-- `LUT[i]` of `encode_2d`: the generated body of the initialiser loop, calling the assembled
`encode_2d_slow` (a panic inside a `const` initialiser is a compile error; `(0, 0)` stands for it and
is never taken for `i < 16384`, see `lut_tie`). -/
def genLut (i : Nat) : Nat :=
  encode_2d_lut_entry (fun z o c => (genSlow2 z o c).getD (0, 0)) i

theorem genLut_eq (i : Nat) (hi : i < 16384) : genLut i = lut i := by
  have hc : i >>> 12 < 4 := by rw [Nat.shiftRight_eq_div_pow]; omega
  simp only [genLut, encode_2d_lut_entry, genSlow2_eq (by decide : 6 ≤ 32) hc, Option.getD_some, lut,
    LUT2_MASK, LUT2_BITS, LUT2_ORDER]
  rw [Nat.mod_mod_of_dvd _ (by decide : 65536 ∣ 18446744073709551616)]

theorem lut_lt (i : Nat) (hi : i < 16384) : lut i < 16384 := by
  have hc : i / 4096 < 4 := by omega
  have hw : i % 4096 < 4096 := Nat.mod_lt _ (by decide)
  have := lut_spec hc hw
  rw [Nat.div_add_mod' i 4096] at this
  have hl := slowN_lt hc 6 (i % 4096)
  have h6 : (4 : Nat) ^ 6 = 4096 := by decide
  rw [h6] at hl
  omega

/-! ## `encode_2d` -/

/-- The index of one lookup is inside the table. -/
theorem idx_lt {c w : Nat} (hc : c < 16384) (hw : w < 4096) : (c &&& 61440) ||| w < 16384 := by
  rw [hi_mask c hc, or_lo hw]; omega

theorem and_fff_lt (x : Nat) : x &&& 4095 < 4096 := Nat.lt_succ_of_le Nat.and_le_right

/-- The lookup index and the two new values of one turn of the hand model's loop. -/
def idx2 (z c : Nat) (s : Int) : Nat := (c &&& (65535 - LUT2_MASK)) ||| ((z >>> s.toNat) &&& LUT2_MASK)

theorem step2_eq (z c h : Nat) (s : Int) (hs : 0 < s) (hs' : s < 64) (hc : c < 16384) :
    encode_2d_step genLut z c h s
      = some (lut (idx2 z c s), ((h <<< LUT2_BITS) % W64) ||| (lut (idx2 z c s) &&& LUT2_MASK), s - LUT2_BITS) := by
  have hw := and_fff_lt (z >>> s.toNat)
  have hm : (z >>> s.toNat &&& 4095) % 65536 = z >>> s.toNat &&& 4095 := Nat.mod_eq_of_lt (by omega)
  have hidx : (c &&& 61440) ||| (z >>> s.toNat &&& 4095) < 16384 := idx_lt hc hw
  have h0 : (0 : Int) ≤ s := by omega
  simp only [encode_2d_step, cshrI, cidx, idx2, LUT2_MASK, LUT2_BITS, W64]
  simp [h0, hs', hm, hidx, genLut_eq _ hidx]

/-- `encode_2d(x, y, order)` around the generated pieces: the `debug_assert!`s (locked as text by the
translator), `let zorder`, the initial loop state, `while shift > 0 { encode_2d_step }` (at most
`order` turns), the code after the loop.  `pdep_u64` is `pdep_u64_fallback` as modelled. -/
def genEncode2 (x y order : Nat) : Option Nat :=
  if order < 64 ∧ x < 2 ^ order ∧ y < 2 ^ order then
    let zorder := encode_2d_zorder pdepFallback x y
    (whileFuel (fun s : Nat × Nat × Int => decide (s.2.2 > 0))
        (fun s => encode_2d_step genLut zorder s.1 s.2.1 s.2.2) order (encode_2d_init order)).bind
      fun s => encode_2d_final genLut zorder s.1 s.2.1 s.2.2
  else none

theorem loop2_eq (z : Nat) : ∀ fuel (s : Int) c h, c < 16384 → s < 64 → (fast2Loop z fuel s c h).1 ≤ 0 →
    whileFuel (fun s : Nat × Nat × Int => decide (s.2.2 > 0))
        (fun s => encode_2d_step genLut z s.1 s.2.1 s.2.2) fuel (c, h, s)
      = some ((fast2Loop z fuel s c h).2.1, (fast2Loop z fuel s c h).2.2, (fast2Loop z fuel s c h).1) ∧
    (fast2Loop z fuel s c h).2.1 < 16384
  | 0, s, c, h, hc, _, hex => by
    simp only [fast2Loop] at hex ⊢
    have : ¬ s > 0 := by omega
    simp [whileFuel, this, hc]
  | fuel + 1, s, c, h, hc, hs, hex => by
    rw [fast2Loop] at hex ⊢
    by_cases hpos : s > 0
    · rw [if_pos hpos] at hex ⊢
      have hidx : idx2 z c s < 16384 := idx_lt hc (and_fff_lt _)
      have ih := loop2_eq z fuel (s - LUT2_BITS) (lut (idx2 z c s))
        (((h <<< LUT2_BITS) % W64) ||| (lut (idx2 z c s) &&& LUT2_MASK)) (lut_lt _ hidx)
        (by simp only [LUT2_BITS]; omega) hex
      rw [whileFuel]
      simp only [hpos, decide_true, if_true]
      rw [step2_eq z c h s hpos hs hc]
      simp only [Option.bind_some]
      exact ih
    · rw [if_neg hpos]
      simp [whileFuel, hpos, hc]

theorem final2_eq (z c h : Nat) (s : Int) (h1 : -12 ≤ s) (h2 : s ≤ 0) (hc : c < 16384) :
    encode_2d_final genLut z c h s
      = some (((h <<< ((LUT2_BITS : Int) + s).toNat) % W64) |||
          ((lut ((c &&& (65535 - LUT2_MASK)) ||| (((z <<< (-s).toNat) % W64) &&& LUT2_MASK)) &&& LUT2_MASK)
            >>> (-s).toNat)) := by
  have e1 : Int.toNat ((-s) % 18446744073709551616) = (-s).toNat := by omega
  have e2 : (-s).toNat < 64 := by omega
  have hw := and_fff_lt ((z <<< (-s).toNat) % 18446744073709551616)
  have hm : ((z <<< (-s).toNat) % 18446744073709551616 &&& 4095) % 65536
      = (z <<< (-s).toNat) % 18446744073709551616 &&& 4095 := Nat.mod_eq_of_lt (by omega)
  have hidx : (c &&& 61440) ||| ((z <<< (-s).toNat) % 18446744073709551616 &&& 4095) < 16384 := idx_lt hc hw
  have h3 : (0 : Int) ≤ 12 + s := by omega
  have h4 : 12 + s < 64 := by omega
  have h5 : (0 : Int) ≤ -s := by omega
  have h6 : -s < 64 := by omega
  simp only [encode_2d_final, cshl, cshlI, cshrI, cidx, LUT2_MASK, LUT2_BITS, W64, e1]
  simp [e2, hm, hidx, genLut_eq _ hidx, h2, h3, h4, h6]

theorem init2_eq (order : Nat) (ho : order ≤ 32) :
    encode_2d_init order = (0, 0, 2 * (order : Int) - LUT2_BITS) := by
  have : toI64 order = (order : Int) := by simp only [toI64]; omega
  simp [encode_2d_init, this, LUT2_BITS]

theorem zorder2_eq (x y : Nat) : encode_2d_zorder pdepFallback x y = zorder2 x y := rfl

theorem genEncode2_eq (x y order : Nat) (ho : order ≤ 32) : genEncode2 x y order = fast2 x y order := by
  unfold genEncode2 fast2
  by_cases hg : order < 64 ∧ x < 2 ^ order ∧ y < 2 ^ order
  · rw [if_pos hg, if_pos hg]
    obtain ⟨n, cfg, hl, hloop, _, hn, hn'⟩ :=
      fast2Loop_inv (zorder2 x y) order ho order 0 0 0 (inv2_init _ _) (by omega) (by omega)
    simp only [Int.natCast_zero, Int.mul_zero, Int.sub_zero] at hloop
    have hsh : 2 * (order : Int) - LUT2_BITS = 2 * (order : Int) - 12 := rfl
    have hex : (fast2Loop (zorder2 x y) order (2 * (order : Int) - LUT2_BITS) 0 0).1 ≤ 0 := by
      rw [hsh, hloop]; simp only; omega
    have hlo : -12 ≤ (fast2Loop (zorder2 x y) order (2 * (order : Int) - LUT2_BITS) 0 0).1 := by
      rw [hsh, hloop]; simp only; omega
    obtain ⟨hl1, hl2⟩ := loop2_eq (zorder2 x y) order (2 * (order : Int) - LUT2_BITS) 0 0 (by decide)
      (by simp only [LUT2_BITS]; omega) hex
    simp only [zorder2_eq, init2_eq order ho]
    rw [hl1]
    simp only [Option.bind_some]
    rw [final2_eq _ _ _ _ hlo hex hl2]
    rfl
  · rw [if_neg hg, if_neg hg]

/-! ## `encode_3d` -/

/-- The `const LUT` of `encode_3d` (generated table) as a function of the index. -/
def lut3 (i : Nat) : Nat := LUT3.getD i 0

/-- `encode_3d(x, y, z, order)` around the generated pieces: `debug_assert!`s, `let zorder`,
`let mut config = 0; let mut hilbert = 0; for i in (0..order).rev() { encode_3d_step } hilbert`. -/
def genEncode3 (x y z order : Nat) : Option Nat :=
  if order < 64 ∧ x < 2 ^ order ∧ y < 2 ^ order ∧ z < 2 ^ order then
    (forRev (fun i (s : Nat × Nat) => encode_3d_step lut3 (encode_3d_zorder pdepFallback x y z) i s.1 s.2)
      order (0, 0)).map fun s => s.2
  else none

theorem oct_lt (z i : Nat) : (z >>> (3 * i)) &&& 7 < 8 := Nat.lt_succ_of_le Nat.and_le_right

theorem step3_eq (z i s h : Nat) (hi : i ≤ 20) (hs : s < 12) :
    encode_3d_step lut3 z i (8 * s) h
      = some (lut3 ((8 * s) ||| ((z >>> (3 * i)) &&& 7)) &&& (W64 - 8),
              ((h <<< 3) % W64) ||| (lut3 ((8 * s) ||| ((z >>> (3 * i)) &&& 7)) &&& 7)) := by
  have hq := oct_lt z i
  have hidx : (8 * s) ||| ((z >>> (3 * i)) &&& 7) < 96 := by rw [or_oct hq]; omega
  have h3 : 3 * i < 64 := by omega
  simp only [encode_3d_step, cshr, cidx, W64]
  simp [h3, hidx]

theorem loop3_eq (z : Nat) : ∀ i s h, i ≤ 21 → s < 12 →
    (forRev (fun i (st : Nat × Nat) => encode_3d_step lut3 z i st.1 st.2) i (8 * s, h)).map (fun st => st.2)
      = some (enc3Loop z i (8 * s) h)
  | 0, s, h, _, _ => by simp [forRev, enc3Loop]
  | i + 1, s, h, hi, hs => by
    have hq := oct_lt z i
    have hidx : 8 * s + ((z >>> (3 * i)) &&& 7) < 96 := by omega
    have hv := lut3_lt _ hidx
    have hc' : conf3 s ((z >>> (3 * i)) &&& 7) < 12 := m3_valid.conf_lt s hs _ hq
    rw [forRev]
    simp only []
    rw [step3_eq z i s h (by omega) hs]
    simp only [Option.bind_some, lut3]
    rw [or_oct hq, clear7 _ hv]
    have ih := loop3_eq z i (conf3 s ((z >>> (3 * i)) &&& 7))
      (((h <<< 3) % W64) ||| (LUT3.getD (8 * s + ((z >>> (3 * i)) &&& 7)) 0 &&& 7)) (by omega) hc'
    rw [enc3Loop, or_oct hq, clear7 _ hv]
    exact ih

theorem zorder3_eq (x y z : Nat) : encode_3d_zorder pdepFallback x y z = zorder3 x y z := rfl

theorem genEncode3_eq (x y z order : Nat) (ho : order ≤ 21) : genEncode3 x y z order = enc3U x y z order := by
  unfold genEncode3 enc3U
  by_cases hg : order < 64 ∧ x < 2 ^ order ∧ y < 2 ^ order ∧ z < 2 ^ order
  · rw [if_pos hg, if_pos hg, zorder3_eq]
    exact loop3_eq (zorder3 x y z) order 0 0 ho (by decide)
  · rw [if_neg hg, if_neg hg]

end Coupe.GenTie2
