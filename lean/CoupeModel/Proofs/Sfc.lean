import CoupeModel.Model.Sfc

/-!
# Lemmas for C09 (binary search, id lookup, final sort, chunk arithmetic, quadrant sort)
-/

namespace Coupe.Sfc

/-! ## `binary_search_by` -/

/-- Bound without any assumption on the comparator: the loop keeps `base + size ≤ len`,
so the final probe is in bounds (the `get_unchecked` calls are sound). -/
theorem bsLoop_lt (cmpAt : Nat → Ordering) (len : Nat) :
    ∀ fuel size base, 1 ≤ size → base + size ≤ len → bsLoop cmpAt fuel size base < len := by
  intro fuel
  induction fuel with
  | zero => intro size base h1 h2; simp only [bsLoop]; omega
  | succ f ih =>
    intro size base h1 h2
    rw [bsLoop]
    split
    · apply ih
      · omega
      · split <;> omega
    · omega

/-- The result of a binary search never exceeds the length – sorted or not. -/
theorem bsearchBy_le_len (len : Nat) (cmpAt : Nat → Ordering) :
    (bsearchBy len cmpAt).idx ≤ len := by
  unfold bsearchBy
  split
  · simp [BRes.idx]
  · have := bsLoop_lt cmpAt len len len 0 (by omega) (by omega)
    dsimp only
    split <;> simp only [BRes.idx] <;> omega

/-- Shape of the comparator on a slice sorted for it. -/
structure Mono (len : Nat) (cmpAt : Nat → Ordering) : Prop where
  gt_up : ∀ i j, i ≤ j → j < len → cmpAt i = .gt → cmpAt j = .gt
  lt_down : ∀ i j, i ≤ j → j < len → cmpAt j = .lt → cmpAt i = .lt

theorem bsLoop_spec (cmpAt : Nat → Ordering) (len : Nat)
    (gt_up : ∀ i j, i ≤ j → j < len → cmpAt i = .gt → cmpAt j = .gt) :
    ∀ fuel size base, 1 ≤ size → size ≤ fuel + 1 → base + size ≤ len →
      (base = 0 ∨ cmpAt base ≠ .gt) →
      (∀ j, base + size ≤ j → j < len → cmpAt j = .gt) →
      bsLoop cmpAt fuel size base < len ∧
      (bsLoop cmpAt fuel size base = 0 ∨ cmpAt (bsLoop cmpAt fuel size base) ≠ .gt) ∧
      (∀ j, bsLoop cmpAt fuel size base + 1 ≤ j → j < len → cmpAt j = .gt) := by
  intro fuel
  induction fuel with
  | zero =>
    intro size base h1 h2 h3 h4 h5
    simp only [bsLoop]
    have : size = 1 := by omega
    subst this
    exact ⟨by omega, h4, h5⟩
  | succ f ih =>
    intro size base h1 h2 h3 h4 h5
    rw [bsLoop]
    split
    · next hs =>
      dsimp only
      by_cases hc : cmpAt (base + size / 2) = .gt
      · rw [if_pos hc]
        refine ih _ _ (by omega) (by omega) (by omega) h4 ?_
        intro j hj hjl
        exact gt_up (base + size / 2) j (by omega) hjl hc
      · rw [if_neg hc]
        refine ih _ _ (by omega) (by omega) (by omega) (Or.inr hc) ?_
        intro j hj hjl
        exact h5 j (by omega) hjl
    · have : size = 1 := by omega
      subst this
      exact ⟨by omega, h4, h5⟩

/-- `binary_search_by` on a slice sorted for the comparator: `Ok(i)` points at an equal
element, `Err(i)` is the insertion point. -/
theorem bsearchBy_spec (len : Nat) (cmpAt : Nat → Ordering) (hm : Mono len cmpAt) :
    match bsearchBy len cmpAt with
    | .ok i => i < len ∧ cmpAt i = .eq
    | .err i => i ≤ len ∧ (∀ j, j < i → cmpAt j = .lt) ∧ (∀ j, i ≤ j → j < len → cmpAt j = .gt) := by
  by_cases h0 : len = 0
  · subst h0
    simp only [bsearchBy, if_true]
    exact ⟨Nat.le_refl _, fun j hj => absurd hj (Nat.not_lt_zero _), fun j _ hj => absurd hj (Nat.not_lt_zero _)⟩
  · obtain ⟨hb, hz, hup⟩ := bsLoop_spec cmpAt len hm.gt_up len len 0 (by omega) (by omega) (by omega)
      (Or.inl rfl) (fun j hj hjl => by omega)
    unfold bsearchBy
    rw [if_neg h0]
    dsimp only
    generalize bsLoop cmpAt len len 0 = b at hb hz hup
    cases hc : cmpAt b with
    | eq => exact ⟨hb, hc⟩
    | lt => exact ⟨by omega, fun j hj => hm.lt_down j b (by omega) hb hc, hup⟩
    | gt =>
      have hb0 : b = 0 := by
        cases hz with
        | inl h => exact h
        | inr h => exact absurd hc h
      subst hb0
      exact ⟨by omega, fun j hj => absurd hj (Nat.not_lt_zero _), fun j _ hjl => hm.gt_up 0 j (by omega) hjl hc⟩

theorem getD_mono {s : List Nat} (hs : s.Pairwise (· ≤ ·)) {i j : Nat} (hij : i ≤ j)
    (hj : j < s.length) : s.getD i 0 ≤ s.getD j 0 := by
  have hi : i < s.length := by omega
  simp only [List.getD_eq_getElem?_getD, List.getElem?_eq_getElem hi, List.getElem?_eq_getElem hj,
    Option.getD_some]
  rcases Nat.lt_or_eq_of_le hij with h | h
  · exact List.pairwise_iff_getElem.mp hs i j hi hj h
  · subst h; exact Nat.le_refl _

theorem mono_compare (s : List Nat) (key : Nat) (hs : s.Pairwise (· ≤ ·)) :
    Mono s.length (fun i => compare (s.getD i 0) key) where
  gt_up := by
    intro i j hij hj h
    have := getD_mono hs hij hj
    simp only [Nat.compare_eq_gt] at h ⊢
    omega
  lt_down := by
    intro i j hij hj h
    have := getD_mono hs hij hj
    simp only [Nat.compare_eq_lt] at h ⊢
    omega

/-- `slice::binary_search` on a sorted `u64` slice. -/
theorem bsearch_sorted (s : List Nat) (key : Nat) (hs : s.Pairwise (· ≤ ·)) :
    match bsearch s key with
    | .ok i => i < s.length ∧ s.getD i 0 = key
    | .err i => i ≤ s.length ∧ (∀ j, j < i → s.getD j 0 < key) ∧
        (∀ j, i ≤ j → j < s.length → key < s.getD j 0) := by
  have h := bsearchBy_spec s.length (fun i => compare (s.getD i 0) key) (mono_compare s key hs)
  unfold bsearch
  split at h
  · next i hi =>
    simp only [Nat.compare_eq_eq] at h
    exact h
  · next i hi =>
    simp only [Nat.compare_eq_lt, Nat.compare_eq_gt] at h
    exact h

/-- The id lookup is monotone in the curve index when the splits are sorted. -/
theorem bsearch_idx_mono (s : List Nat) (hs : s.Pairwise (· ≤ ·)) {a b : Nat} (hab : a ≤ b) :
    (bsearch s a).idx ≤ (bsearch s b).idx := by
  rcases Nat.lt_or_eq_of_le hab with hlt | heq
  · have ha := bsearch_sorted s a hs
    have hb := bsearch_sorted s b hs
    cases ra : bsearch s a with
    | ok i =>
      cases rb : bsearch s b with
      | ok j =>
        rw [ra] at ha; rw [rb] at hb
        simp only [BRes.idx]
        refine Classical.byContradiction fun hc => ?_
        have := getD_mono hs (i := j) (j := i) (by omega) ha.1
        omega
      | err j =>
        rw [ra] at ha; rw [rb] at hb
        simp only [BRes.idx]
        refine Classical.byContradiction fun hc => ?_
        have := hb.2.2 i (by omega) ha.1
        omega
    | err i =>
      cases rb : bsearch s b with
      | ok j =>
        rw [ra] at ha; rw [rb] at hb
        simp only [BRes.idx]
        refine Classical.byContradiction fun hc => ?_
        have := ha.2.1 j (by omega)
        omega
      | err j =>
        rw [ra] at ha; rw [rb] at hb
        simp only [BRes.idx]
        refine Classical.byContradiction fun hc => ?_
        have h1 := ha.2.1 j (by omega)
        have h2 := hb.2.2 j (Nat.le_refl _) (by omega)
        omega
  · subst heq; exact Nat.le_refl _

/-! ## the final sort -/

theorem mem_insertAsc {x y : Nat} {l : List Nat} : y ∈ insertAsc x l ↔ y = x ∨ y ∈ l := by
  induction l with
  | nil => simp [insertAsc]
  | cons z zs ih =>
    simp only [insertAsc]
    split
    · simp
    · simp only [List.mem_cons, ih]
      constructor
      · rintro (h | h | h) <;> simp [h]
      · rintro (h | h | h) <;> simp [h]

theorem pairwise_insertAsc (x : Nat) {l : List Nat} (hl : l.Pairwise (· ≤ ·)) :
    (insertAsc x l).Pairwise (· ≤ ·) := by
  induction l with
  | nil => simp [insertAsc]
  | cons z zs ih =>
    simp only [insertAsc]
    rw [List.pairwise_cons] at hl
    split
    · next hxz =>
      refine List.Pairwise.cons ?_ (List.Pairwise.cons hl.1 hl.2)
      intro y hy
      rcases List.mem_cons.mp hy with h | h
      · omega
      · have := hl.1 y h; omega
    · next hxz =>
      refine List.Pairwise.cons ?_ (ih hl.2)
      intro y hy
      rcases mem_insertAsc.mp hy with h | h
      · omega
      · exact hl.1 y h

theorem perm_insertAsc (x : Nat) (l : List Nat) : (insertAsc x l).Perm (x :: l) := by
  induction l with
  | nil => simp [insertAsc]
  | cons z zs ih =>
    simp only [insertAsc]
    split
    · exact List.Perm.refl _
    · exact (List.Perm.cons z ih).trans (List.Perm.swap x z zs)

theorem pairwise_sortAsc (l : List Nat) : (sortAsc l).Pairwise (· ≤ ·) := by
  induction l with
  | nil => simp [sortAsc]
  | cons x xs ih => exact pairwise_insertAsc x ih

theorem perm_sortAsc (l : List Nat) : (sortAsc l).Perm l := by
  induction l with
  | nil => simp [sortAsc]
  | cons x xs ih => exact (perm_insertAsc x _).trans (List.Perm.cons x ih)

end Coupe.Sfc
