import CoupeModel.Model.Sfc

/-!
# Lemmas for C09 (binary search, id lookup, final sort, chunk arithmetic, quadrant sort)
-/

namespace Coupe.Sfc

/-! ## `binary_search_by` -/

/-- Bound without any assumption on the comparator: the loop keeps `base + size ≤ len`,
so the final probe is in bounds (the `get_unchecked` calls are sound). -/
theorem bsLoop_lt (cmpAt : Nat → Ordering) (len : Nat) :
    ∀ fuel size base, 1 ≤ size → base + size ≤ len → bsLoop cmpAt fuel size base < len := by
  intro fuel
  induction fuel with
  | zero => intro size base h1 h2; simp only [bsLoop]; omega
  | succ f ih =>
    intro size base h1 h2
    rw [bsLoop]
    split
    · apply ih
      · omega
      · split <;> omega
    · omega

/-- The result of a binary search never exceeds the length – sorted or not. -/
theorem bsearchBy_le_len (len : Nat) (cmpAt : Nat → Ordering) :
    (bsearchBy len cmpAt).idx ≤ len := by
  unfold bsearchBy
  split
  · simp [BRes.idx]
  · have := bsLoop_lt cmpAt len len len 0 (by omega) (by omega)
    dsimp only
    split <;> simp only [BRes.idx] <;> omega

/-- Shape of the comparator on a slice sorted for it. -/
structure Mono (len : Nat) (cmpAt : Nat → Ordering) : Prop where
  gt_up : ∀ i j, i ≤ j → j < len → cmpAt i = .gt → cmpAt j = .gt
  lt_down : ∀ i j, i ≤ j → j < len → cmpAt j = .lt → cmpAt i = .lt

theorem bsLoop_spec (cmpAt : Nat → Ordering) (len : Nat)
    (gt_up : ∀ i j, i ≤ j → j < len → cmpAt i = .gt → cmpAt j = .gt) :
    ∀ fuel size base, 1 ≤ size → size ≤ fuel + 1 → base + size ≤ len →
      (base = 0 ∨ cmpAt base ≠ .gt) →
      (∀ j, base + size ≤ j → j < len → cmpAt j = .gt) →
      bsLoop cmpAt fuel size base < len ∧
      (bsLoop cmpAt fuel size base = 0 ∨ cmpAt (bsLoop cmpAt fuel size base) ≠ .gt) ∧
      (∀ j, bsLoop cmpAt fuel size base + 1 ≤ j → j < len → cmpAt j = .gt) := by
  intro fuel
  induction fuel with
  | zero =>
    intro size base h1 h2 h3 h4 h5
    simp only [bsLoop]
    have : size = 1 := by omega
    subst this
    exact ⟨by omega, h4, h5⟩
  | succ f ih =>
    intro size base h1 h2 h3 h4 h5
    rw [bsLoop]
    split
    · next hs =>
      dsimp only
      by_cases hc : cmpAt (base + size / 2) = .gt
      · rw [if_pos hc]
        refine ih _ _ (by omega) (by omega) (by omega) h4 ?_
        intro j hj hjl
        exact gt_up (base + size / 2) j (by omega) hjl hc
      · rw [if_neg hc]
        refine ih _ _ (by omega) (by omega) (by omega) (Or.inr hc) ?_
        intro j hj hjl
        exact h5 j (by omega) hjl
    · have : size = 1 := by omega
      subst this
      exact ⟨by omega, h4, h5⟩

/-- `binary_search_by` on a slice sorted for the comparator: `Ok(i)` points at an equal
element, `Err(i)` is the insertion point. -/
theorem bsearchBy_spec (len : Nat) (cmpAt : Nat → Ordering) (hm : Mono len cmpAt) :
    match bsearchBy len cmpAt with
    | .ok i => i < len ∧ cmpAt i = .eq
    | .err i => i ≤ len ∧ (∀ j, j < i → cmpAt j = .lt) ∧ (∀ j, i ≤ j → j < len → cmpAt j = .gt) := by
  by_cases h0 : len = 0
  · subst h0
    simp only [bsearchBy, if_true]
    exact ⟨Nat.le_refl _, fun j hj => absurd hj (Nat.not_lt_zero _), fun j _ hj => absurd hj (Nat.not_lt_zero _)⟩
  · obtain ⟨hb, hz, hup⟩ := bsLoop_spec cmpAt len hm.gt_up len len 0 (by omega) (by omega) (by omega)
      (Or.inl rfl) (fun j hj hjl => by omega)
    unfold bsearchBy
    rw [if_neg h0]
    dsimp only
    generalize bsLoop cmpAt len len 0 = b at hb hz hup
    cases hc : cmpAt b with
    | eq => exact ⟨hb, hc⟩
    | lt => exact ⟨by omega, fun j hj => hm.lt_down j b (by omega) hb hc, hup⟩
    | gt =>
      have hb0 : b = 0 := by
        cases hz with
        | inl h => exact h
        | inr h => exact absurd hc h
      subst hb0
      exact ⟨by omega, fun j hj => absurd hj (Nat.not_lt_zero _), fun j _ hjl => hm.gt_up 0 j (by omega) hjl hc⟩

theorem getD_mono {s : List Nat} (hs : s.Pairwise (· ≤ ·)) {i j : Nat} (hij : i ≤ j)
    (hj : j < s.length) : s.getD i 0 ≤ s.getD j 0 := by
  have hi : i < s.length := by omega
  simp only [List.getD_eq_getElem?_getD, List.getElem?_eq_getElem hi, List.getElem?_eq_getElem hj,
    Option.getD_some]
  rcases Nat.lt_or_eq_of_le hij with h | h
  · exact List.pairwise_iff_getElem.mp hs i j hi hj h
  · subst h; exact Nat.le_refl _

theorem mono_compare (s : List Nat) (key : Nat) (hs : s.Pairwise (· ≤ ·)) :
    Mono s.length (fun i => compare (s.getD i 0) key) where
  gt_up := by
    intro i j hij hj h
    have := getD_mono hs hij hj
    simp only [Nat.compare_eq_gt] at h ⊢
    omega
  lt_down := by
    intro i j hij hj h
    have := getD_mono hs hij hj
    simp only [Nat.compare_eq_lt] at h ⊢
    omega

/-- `slice::binary_search` on a sorted `u64` slice. -/
theorem bsearch_sorted (s : List Nat) (key : Nat) (hs : s.Pairwise (· ≤ ·)) :
    match bsearch s key with
    | .ok i => i < s.length ∧ s.getD i 0 = key
    | .err i => i ≤ s.length ∧ (∀ j, j < i → s.getD j 0 < key) ∧
        (∀ j, i ≤ j → j < s.length → key < s.getD j 0) := by
  have h := bsearchBy_spec s.length (fun i => compare (s.getD i 0) key) (mono_compare s key hs)
  unfold bsearch
  split at h
  · next i hi =>
    simp only [Nat.compare_eq_eq] at h
    exact h
  · next i hi =>
    simp only [Nat.compare_eq_lt, Nat.compare_eq_gt] at h
    exact h

/-- The id lookup is monotone in the curve index when the splits are sorted. -/
theorem bsearch_idx_mono (s : List Nat) (hs : s.Pairwise (· ≤ ·)) {a b : Nat} (hab : a ≤ b) :
    (bsearch s a).idx ≤ (bsearch s b).idx := by
  rcases Nat.lt_or_eq_of_le hab with hlt | heq
  · have ha := bsearch_sorted s a hs
    have hb := bsearch_sorted s b hs
    cases ra : bsearch s a with
    | ok i =>
      cases rb : bsearch s b with
      | ok j =>
        rw [ra] at ha; rw [rb] at hb
        simp only [BRes.idx]
        refine Classical.byContradiction fun hc => ?_
        have := getD_mono hs (i := j) (j := i) (by omega) ha.1
        omega
      | err j =>
        rw [ra] at ha; rw [rb] at hb
        simp only [BRes.idx]
        refine Classical.byContradiction fun hc => ?_
        have := hb.2.2 i (by omega) ha.1
        omega
    | err i =>
      cases rb : bsearch s b with
      | ok j =>
        rw [ra] at ha; rw [rb] at hb
        simp only [BRes.idx]
        refine Classical.byContradiction fun hc => ?_
        have := ha.2.1 j (by omega)
        omega
      | err j =>
        rw [ra] at ha; rw [rb] at hb
        simp only [BRes.idx]
        refine Classical.byContradiction fun hc => ?_
        have h1 := ha.2.1 j (by omega)
        have h2 := hb.2.2 j (Nat.le_refl _) (by omega)
        omega
  · subst heq; exact Nat.le_refl _

/-! ## the final sort -/

theorem mem_insertAsc {x y : Nat} {l : List Nat} : y ∈ insertAsc x l ↔ y = x ∨ y ∈ l := by
  induction l with
  | nil => simp [insertAsc]
  | cons z zs ih =>
    simp only [insertAsc]
    split
    · simp
    · simp only [List.mem_cons, ih]
      constructor
      · rintro (h | h | h) <;> simp [h]
      · rintro (h | h | h) <;> simp [h]

theorem pairwise_insertAsc (x : Nat) {l : List Nat} (hl : l.Pairwise (· ≤ ·)) :
    (insertAsc x l).Pairwise (· ≤ ·) := by
  induction l with
  | nil => simp [insertAsc]
  | cons z zs ih =>
    simp only [insertAsc]
    rw [List.pairwise_cons] at hl
    split
    · next hxz =>
      refine List.Pairwise.cons ?_ (List.Pairwise.cons hl.1 hl.2)
      intro y hy
      rcases List.mem_cons.mp hy with h | h
      · omega
      · have := hl.1 y h; omega
    · next hxz =>
      refine List.Pairwise.cons ?_ (ih hl.2)
      intro y hy
      rcases mem_insertAsc.mp hy with h | h
      · omega
      · exact hl.1 y h

theorem perm_insertAsc (x : Nat) (l : List Nat) : (insertAsc x l).Perm (x :: l) := by
  induction l with
  | nil => simp [insertAsc]
  | cons z zs ih =>
    simp only [insertAsc]
    split
    · exact List.Perm.refl _
    · exact (List.Perm.cons z ih).trans (List.Perm.swap x z zs)

theorem pairwise_sortAsc (l : List Nat) : (sortAsc l).Pairwise (· ≤ ·) := by
  induction l with
  | nil => simp [sortAsc]
  | cons x xs ih => exact pairwise_insertAsc x ih

theorem perm_sortAsc (l : List Nat) : (sortAsc l).Perm l := by
  induction l with
  | nil => simp [sortAsc]
  | cons x xs ih => exact (perm_insertAsc x _).trans (List.Perm.cons x ih)

/-! ## chunk arithmetic of `z_curve_partition` -/

namespace ZCurve

theorem numChunks_mul (q r : Nat) (hq : 0 < q) : numChunks (q * r) q = r := by
  unfold numChunks
  cases r with
  | zero => simp
  | succ r' =>
    have hne : q * (r' + 1) ≠ 0 := Nat.mul_ne_zero (by omega) (by omega)
    rw [if_neg hne]
    have : q * (r' + 1) - 1 = q * r' + (q - 1) := by rw [Nat.mul_succ]; omega
    rw [this, Nat.mul_add_div hq, Nat.div_eq_of_lt (by omega)]

/-- Arithmetic facts about `n / k`, `n % k` used below, with the products as atoms. -/
theorem divmod_facts (n k : Nat) (hk : 1 ≤ k) :
    n = k * (n / k) + n % k ∧ n % k < k := ⟨(Nat.div_add_mod n k).symm, Nat.mod_lt _ (by omega)⟩

theorem chunkId_lo (n k pos : Nat) (h : pos < (n / k + 1) * (n % k)) :
    chunkId n k pos = pos / (n / k + 1) := by
  simp only [chunkId, if_pos h]

theorem chunkId_hi (n k pos : Nat) (h : ¬ pos < (n / k + 1) * (n % k)) :
    chunkId n k pos = n % k + (pos - (n / k + 1) * (n % k)) / max (n / k) 1 := by
  simp only [chunkId, if_neg h, numChunks_mul _ _ (Nat.succ_pos _)]

/-- Every position lies in the interval of its own chunk. -/
theorem chunk_mem_interval (n k pos : Nat) (hk : 1 ≤ k) (hp : pos < n) :
    chunkStart n k (chunkId n k pos) ≤ pos ∧ pos < chunkStart n k (chunkId n k pos + 1) := by
  obtain ⟨hn, hR⟩ := divmod_facts n k hk
  by_cases h : pos < (n / k + 1) * (n % k)
  · rw [chunkId_lo n k pos h]
    generalize hP : n / k = P at *
    generalize hRr : n % k = R at *
    have hq : 0 < P + 1 := Nat.succ_pos _
    have hc : pos / (P + 1) < R := by
      rw [Nat.div_lt_iff_lt_mul hq, Nat.mul_comm]; exact h
    generalize hcd : pos / (P + 1) = c at *
    have h1 : c * (P + 1) ≤ pos := by rw [← hcd]; exact Nat.div_mul_le_self _ _
    have h2 : pos < (c + 1) * (P + 1) := by
      have := Nat.lt_mul_div_succ pos hq
      rw [hcd, Nat.mul_comm (P + 1) (c + 1)] at this
      exact this
    simp only [chunkStart, hP, hRr]
    rw [Nat.min_eq_left (by omega : c ≤ R), Nat.min_eq_left (by omega : c + 1 ≤ R)]
    rw [Nat.mul_succ] at h1 h2
    omega
  · rw [chunkId_hi n k pos h]
    generalize hP : n / k = P at *
    generalize hRr : n % k = R at *
    have hP1 : 1 ≤ P := by
      refine Classical.byContradiction fun hc => ?_
      have : P = 0 := by omega
      subst this
      simp at hn h
      omega
    rw [Nat.max_eq_left hP1]
    have hthr : (P + 1) * R = P * R + R := by rw [Nat.succ_mul]
    rw [hthr] at h ⊢
    generalize he : (pos - (P * R + R)) / P = e
    have h1 : e * P ≤ pos - (P * R + R) := by rw [← he]; exact Nat.div_mul_le_self _ _
    have h2 : pos - (P * R + R) < (e + 1) * P := by
      have := Nat.lt_mul_div_succ (pos - (P * R + R)) (show 0 < P by omega)
      rw [he, Nat.mul_comm P (e + 1)] at this
      exact this
    simp only [chunkStart, hP, hRr]
    rw [Nat.min_eq_right (by omega : R ≤ R + e), Nat.min_eq_right (by omega : R ≤ R + e + 1)]
    have e1 : (R + e) * P = P * R + e * P := by rw [Nat.add_mul, Nat.mul_comm R P]
    have e2 : (R + e + 1) * P = P * R + (e + 1) * P := by
      rw [Nat.add_assoc, Nat.add_mul, Nat.mul_comm R P]
    rw [e1, e2]
    omega

theorem chunkStart_mono (n k : Nat) {a b : Nat} (h : a ≤ b) : chunkStart n k a ≤ chunkStart n k b := by
  unfold chunkStart
  have := Nat.mul_le_mul_right (n / k) h
  omega

/-- Chunk `c` is exactly the interval `[chunkStart c, chunkStart (c+1))` of positions. -/
theorem chunk_interval (n k pos c : Nat) (hk : 1 ≤ k) (hp : pos < n) :
    chunkId n k pos = c ↔ chunkStart n k c ≤ pos ∧ pos < chunkStart n k (c + 1) := by
  have hm := chunk_mem_interval n k pos hk hp
  constructor
  · intro h; subst h; exact hm
  · intro ⟨h1, h2⟩
    refine Classical.byContradiction fun hne => ?_
    rcases Nat.lt_or_gt_of_ne hne with hlt | hgt
    · have := chunkStart_mono n k (show chunkId n k pos + 1 ≤ c by omega)
      omega
    · have := chunkStart_mono n k (show c + 1 ≤ chunkId n k pos by omega)
      omega

theorem chunkStart_zero (n k : Nat) : chunkStart n k 0 = 0 := by simp [chunkStart]

theorem chunkStart_last (n k : Nat) (hk : 1 ≤ k) : chunkStart n k k = n := by
  obtain ⟨hn, hR⟩ := divmod_facts n k hk
  unfold chunkStart
  rw [Nat.min_eq_right (by omega)]
  omega

/-- Length of chunk `c`: `n / k + 1` for the first `n % k` chunks, `n / k` for the others. -/
theorem chunkStart_succ_sub (n k c : Nat) :
    chunkStart n k (c + 1) - chunkStart n k c = n / k + (if c < n % k then 1 else 0) := by
  unfold chunkStart
  generalize n / k = P
  generalize n % k = R
  rw [Nat.succ_mul]
  split <;> omega

theorem chunk_lt' (n k pos : Nat) (hk : 1 ≤ k) (hp : pos < n) : chunkId n k pos < k := by
  have hm := chunk_mem_interval n k pos hk hp
  refine Classical.byContradiction fun hc => ?_
  have := chunkStart_mono n k (show k ≤ chunkId n k pos by omega)
  rw [chunkStart_last n k hk] at this
  omega

theorem chunk_monotone' (n k : Nat) {pos pos' : Nat} (hk : 1 ≤ k) (h : pos ≤ pos') (hp : pos' < n) :
    chunkId n k pos ≤ chunkId n k pos' := by
  have h1 := chunk_mem_interval n k pos hk (by omega)
  have h2 := chunk_mem_interval n k pos' hk hp
  refine Classical.byContradiction fun hc => ?_
  have := chunkStart_mono n k (show chunkId n k pos' + 1 ≤ chunkId n k pos by omega)
  omega

/-- Number of positions of `0..n` in `[a, b)`. -/
theorem count_interval : ∀ (n a b : Nat), a ≤ b → b ≤ n →
    ((List.range n).filter (fun p => decide (a ≤ p ∧ p < b))).length = b - a := by
  intro n
  induction n with
  | zero => intro a b hab hb; simp; omega
  | succ m ih =>
    intro a b hab hb
    rw [List.range_succ, List.filter_append, List.length_append]
    by_cases hbm : b ≤ m
    · rw [ih a b hab hbm]
      have : ([m].filter fun p => decide (a ≤ p ∧ p < b)) = [] := by
        simp; omega
      rw [this]; simp
    · have hb' : b = m + 1 := by omega
      subst hb'
      by_cases ham : a ≤ m
      · have hc : (List.range m).filter (fun p => decide (a ≤ p ∧ p < m + 1)) =
            (List.range m).filter (fun p => decide (a ≤ p ∧ p < m)) := by
          apply List.filter_congr
          intro x hx
          have := List.mem_range.mp hx
          simp only [decide_eq_decide]
          omega
        rw [hc, ih a m ham (Nat.le_refl _)]
        have : ([m].filter fun p => decide (a ≤ p ∧ p < m + 1)) = [m] := by
          simp; omega
        rw [this]; simp; omega
      · have h1 : (List.range m).filter (fun p => decide (a ≤ p ∧ p < m + 1)) = [] := by
          rw [List.filter_eq_nil_iff]
          intro x hx
          have := List.mem_range.mp hx
          simp only [decide_eq_true_eq]
          omega
        have h2 : ([m].filter fun p => decide (a ≤ p ∧ p < m + 1)) = [] := by
          simp; omega
        rw [h1, h2]; simp; omega

/-- Size of part `c`: the number of positions that get id `c`. -/
def chunkSize (n k c : Nat) : Nat :=
  ((List.range n).filter (fun pos => decide (chunkId n k pos = c))).length

theorem chunkSize_eq (n k c : Nat) (hk : 1 ≤ k) (hc : c < k) :
    chunkSize n k c = n / k + (if c < n % k then 1 else 0) := by
  unfold chunkSize
  have hcongr : (List.range n).filter (fun pos => decide (chunkId n k pos = c)) =
      (List.range n).filter (fun p => decide (chunkStart n k c ≤ p ∧ p < chunkStart n k (c + 1))) := by
    apply List.filter_congr
    intro x hx
    have := List.mem_range.mp hx
    simp only [decide_eq_decide]
    exact chunk_interval n k x c hk this
  rw [hcongr, count_interval n _ _ (chunkStart_mono n k (by omega)) ?_, chunkStart_succ_sub]
  have := chunkStart_mono n k (show c + 1 ≤ k by omega)
  rw [chunkStart_last n k hk] at this
  exact this

/-! ## `z_curve_partition_recurse` -/

/-- What `par_sort_unstable_by_key` is trusted to do: return a permutation of the slice
that is sorted by the key (nothing about the order of equal keys). -/
def SortSpec (sortBy : (Nat → Nat) → List Nat → List Nat) : Prop :=
  ∀ key l, (sortBy key l).Perm l ∧ (sortBy key l).Pairwise (fun a b => key a ≤ key b)

/-- The Z-order cell of point `i` relative to the box at `path`, `d` levels deep: the
regions it falls in, outermost first (`region … .unwrap_or(0)` then `sub_mbr(region)`;
this is what the `codes` hook computes from the root box). -/
def relCode (region : List Nat → Nat → Nat) : Nat → List Nat → Nat → List Nat
  | 0, _, _ => []
  | d + 1, path, i => region path i :: relCode region d (path ++ [region path i]) i

/-- Lexicographic `≤` on cell codes (of equal length: numeric order of the Z-hash). -/
def lexLe : List Nat → List Nat → Prop
  | [], _ => True
  | _ :: _, [] => False
  | a :: as, b :: bs => a < b ∨ (a = b ∧ lexLe as bs)

theorem lexLe_refl : ∀ l, lexLe l l
  | [] => trivial
  | _ :: as => Or.inr ⟨rfl, lexLe_refl as⟩

/-! ### bucket boundaries -/

theorem cmpLG_lt {a r : Nat} : (if a < r then Ordering.lt else Ordering.gt) = Ordering.lt ↔ a < r := by
  split <;> simp [*]

theorem cmpLG_gt {a r : Nat} : (if a < r then Ordering.lt else Ordering.gt) = Ordering.gt ↔ ¬ a < r := by
  split <;> simp [*]

theorem cmpLG_ne_eq {a r : Nat} : (if a < r then Ordering.lt else Ordering.gt) ≠ Ordering.eq := by
  split <;> simp

def bpos (regs : List Nat) (r : Nat) : Nat :=
  (bsearchBy regs.length (fun i => if regs.getD i 0 < r then Ordering.lt else Ordering.gt)).idx

/-- On a region-sorted slice the binary search with the `Less`/`Greater` comparator never
answers `Ok` (so `unwrap_err` does not panic) and returns the partition point. -/
theorem boundary_spec (regs : List Nat) (hs : regs.Pairwise (· ≤ ·)) (r : Nat) :
    boundary regs r = some (bpos regs r) ∧ bpos regs r ≤ regs.length ∧
    (∀ j, j < bpos regs r → regs.getD j 0 < r) ∧
    (∀ j, bpos regs r ≤ j → j < regs.length → r ≤ regs.getD j 0) := by
  have hm : Mono regs.length (fun i => if regs.getD i 0 < r then Ordering.lt else Ordering.gt) := by
    constructor
    · intro i j hij hj h
      have := getD_mono hs hij hj
      rw [cmpLG_gt] at h ⊢
      omega
    · intro i j hij hj h
      have := getD_mono hs hij hj
      rw [cmpLG_lt] at h ⊢
      omega
  have h := bsearchBy_spec _ _ hm
  unfold boundary bpos
  cases hb : bsearchBy regs.length (fun i => if regs.getD i 0 < r then Ordering.lt else Ordering.gt) with
  | ok i =>
    rw [hb] at h
    exact absurd h.2 cmpLG_ne_eq
  | err i =>
    rw [hb] at h
    simp only [BRes.idx]
    refine ⟨trivial, h.1, fun j hj => cmpLG_lt.mp (h.2.1 j hj), fun j hj hjl => ?_⟩
    have := cmpLG_gt.mp (h.2.2 j hj hjl)
    omega

theorem bpos_mono (regs : List Nat) (hs : regs.Pairwise (· ≤ ·)) {r r' : Nat} (h : r ≤ r') :
    bpos regs r ≤ bpos regs r' := by
  obtain ⟨_, h1, h2, h3⟩ := boundary_spec regs hs r
  obtain ⟨_, h1', h2', h3'⟩ := boundary_spec regs hs r'
  refine Classical.byContradiction fun hc => ?_
  have a := h2 (bpos regs r') (by omega)
  have b := h3' (bpos regs r') (Nat.le_refl _) (by omega)
  omega

theorem mapM_some {α β} (f : α → Option β) (g : α → β) :
    ∀ (l : List α), (∀ x ∈ l, f x = some (g x)) → l.mapM f = some (l.map g)
  | [], _ => by simp
  | x :: xs, h => by
    have h1 := h x (List.mem_cons_self ..)
    have h2 := mapM_some f g xs (fun y hy => h y (List.mem_cons_of_mem _ hy))
    simp [List.mapM_cons, h1, h2]

/-! ### `split_at_mut_many` -/

/-- With non-decreasing positions inside the slice, `split_at_mut_many` does not panic,
returns `positions.len() + 1` pieces whose concatenation is the slice, and piece `k` holds
the elements at the (absolute) positions `[positions[k-1], positions[k])`. -/
theorem splitAtMany_spec {α} : ∀ (ps : List Nat) (rest : List α) (drained : Nat),
    ps.Pairwise (· ≤ ·) → (∀ p ∈ ps, drained ≤ p ∧ p ≤ drained + rest.length) →
    ∃ out, splitAtMany rest drained ps = some out ∧ out.length = ps.length + 1 ∧
      out.flatten = rest ∧
      ∀ k a, a ∈ out.getD k [] → ∃ j, rest[j]? = some a ∧
        (if k = 0 then drained else ps.getD (k - 1) 0) ≤ drained + j ∧
        drained + j < (if k < ps.length then ps.getD k 0 else drained + rest.length) := by
  intro ps
  induction ps with
  | nil =>
    intro rest drained _ _
    refine ⟨[rest], rfl, rfl, by simp, ?_⟩
    intro k a ha
    cases k with
    | zero =>
      simp only [List.getD_cons_zero] at ha
      obtain ⟨j, hj, hja⟩ := List.mem_iff_getElem.mp ha
      refine ⟨j, by simp [hj, hja], by simp, by simp; omega⟩
    | succ k => simp at ha
  | cons pos ps ih =>
    intro rest drained hpw hb
    rw [List.pairwise_cons] at hpw
    have hpos := hb pos (List.mem_cons_self ..)
    have hlen : (rest.drop (pos - drained)).length = rest.length - (pos - drained) := List.length_drop
    obtain ⟨out', ho, hl, hf, hk⟩ := ih (rest.drop (pos - drained)) (drained + (pos - drained)) hpw.2 (by
      intro p hp
      have := hb p (List.mem_cons_of_mem _ hp)
      have := hpw.1 p hp
      rw [hlen]; omega)
    refine ⟨rest.take (pos - drained) :: out', ?_, by simp [hl], by simp [hf], ?_⟩
    · rw [splitAtMany, if_neg (by omega)]
      dsimp only
      rw [if_neg (by omega), ho]; rfl
    · intro k a ha
      cases k with
      | zero =>
        simp only [List.getD_cons_zero] at ha
        obtain ⟨j, hj, hja⟩ := List.mem_iff_getElem.mp ha
        have hj' : j < pos - drained ∧ j < rest.length := by
          rw [List.length_take] at hj; omega
        refine ⟨j, ?_, by simp, by simp; omega⟩
        rw [List.getElem_take] at hja
        simp [hj'.2, hja]
      | succ k =>
        simp only [List.getD_cons_succ] at ha
        obtain ⟨j, hj, hlo, hhi⟩ := hk k a ha
        refine ⟨pos - drained + j, ?_, ?_, ?_⟩
        · rw [List.getElem?_drop] at hj; exact hj
        · simp only [Nat.add_one_ne_zero, if_false, Nat.add_sub_cancel]
          cases k with
          | zero => simp at hlo ⊢; omega
          | succ k => simp at hlo ⊢; omega
        · simp only [List.length_cons, Nat.add_lt_add_iff_right, List.getD_cons_succ]
          rw [hlen] at hhi
          split
          · next h => rw [if_pos h] at hhi; omega
          · next h => rw [if_neg h] at hhi; omega

/-! ### the recursion -/

theorem pairwise_of_length_le_one {R : Nat → Nat → Prop} :
    ∀ (l : List Nat), l.length ≤ 1 → l.Pairwise R
  | [], _ => List.Pairwise.nil
  | [a], _ => List.pairwise_singleton R a
  | _ :: _ :: _, h => by simp at h

theorem pairwise_of_forall {R : Nat → Nat → Prop} (h : ∀ a b, R a b) : ∀ l : List Nat, l.Pairwise R
  | [] => List.Pairwise.nil
  | x :: xs => List.Pairwise.cons (fun y _ => h x y) (pairwise_of_forall h xs)

/-- The `slices.into_par_iter().enumerate().for_each(recurse)` step, given that the
recursive calls behave (`IH`) and that slice `j` holds exactly region `n + j`. -/
theorem mapM_slices (dimCells : Nat) (sortBy : (Nat → Nat) → List Nat → List Nat)
    (region : List Nat → Nat → Nat) (order : Nat) (path : List Nat)
    (IH : ∀ path' permu', ∃ out, sortRec dimCells sortBy region order path' permu' = some out ∧
      out.Perm permu' ∧
      out.Pairwise (fun a b => lexLe (relCode region order path' a) (relCode region order path' b))) :
    ∀ (L : List (List Nat)) (n : Nat), (∀ j a, a ∈ L.getD j [] → region path a = n + j) →
      ∃ outs, (L.zipIdx n).mapM (fun (x : List Nat × Nat) =>
          sortRec dimCells sortBy region order (path ++ [x.2]) x.1) = some outs ∧
        outs.flatten.Perm L.flatten ∧
        outs.flatten.Pairwise (fun a b =>
          lexLe (relCode region (order + 1) path a) (relCode region (order + 1) path b)) := by
  intro L
  induction L with
  | nil => intro n _; exact ⟨[], by simp, by simp, by simp⟩
  | cons s ss ih =>
    intro n hb
    have hs : ∀ a ∈ s, region path a = n := fun a ha => by
      have := hb 0 a (by simpa using ha); simpa using this
    have hss : ∀ j a, a ∈ ss.getD j [] → region path a = (n + 1) + j := fun j a ha => by
      have := hb (j + 1) a (by simpa using ha); omega
    obtain ⟨o, ho, hop, hopw⟩ := IH (path ++ [n]) s
    obtain ⟨outs', hm, hp, hpw⟩ := ih (n + 1) hss
    refine ⟨o :: outs', ?_, ?_, ?_⟩
    · simp [List.zipIdx_cons, List.mapM_cons, ho, hm]
    · simp only [List.flatten_cons]; exact hop.append hp
    · rw [List.flatten_cons, List.pairwise_append]
      refine ⟨?_, hpw, ?_⟩
      · apply hopw.imp_of_mem
        intro a b ha hb' hab
        have ka := hs a (hop.mem_iff.mp ha)
        have kb := hs b (hop.mem_iff.mp hb')
        simp only [relCode, ka, kb]
        exact Or.inr ⟨rfl, hab⟩
      · intro a ha b hb'
        have ka := hs a (hop.mem_iff.mp ha)
        have hbf : b ∈ ss.flatten := hp.mem_iff.mp hb'
        obtain ⟨s', hs', hbs'⟩ := List.mem_flatten.mp hbf
        obtain ⟨j, hj, hjs⟩ := List.mem_iff_getElem.mp hs'
        have kb := hss j b (by
          simp only [List.getD_eq_getElem?_getD, List.getElem?_eq_getElem hj, Option.getD_some, hjs]
          exact hbs')
        simp only [relCode, ka, kb]
        exact Or.inl (by omega)

/-- `z_curve_partition_recurse` never panics, returns a permutation of its slice, and
leaves the slice sorted by Z-order cell (lexicographically by the regions of the next
`order` levels) – for every region function with values below `2^D` and every sort that
meets `SortSpec`. -/
theorem sortRec_spec (dimCells : Nat) (hd : 1 ≤ dimCells)
    (sortBy : (Nat → Nat) → List Nat → List Nat) (hs : SortSpec sortBy)
    (region : List Nat → Nat → Nat) (hreg : ∀ path i, region path i < dimCells) :
    ∀ order path permu, ∃ out, sortRec dimCells sortBy region order path permu = some out ∧
      out.Perm permu ∧
      out.Pairwise (fun a b => lexLe (relCode region order path a) (relCode region order path b)) := by
  intro order
  induction order with
  | zero =>
    intro path permu
    exact ⟨permu, rfl, List.Perm.refl _, pairwise_of_forall (fun _ _ => trivial) _⟩
  | succ order ih =>
    intro path permu
    rw [sortRec]
    split
    · next hl => exact ⟨permu, rfl, List.Perm.refl _, pairwise_of_length_le_one _ hl⟩
    · dsimp only
      obtain ⟨hperm, hsorted⟩ := hs (region path) permu
      generalize sortBy (region path) permu = sorted at hperm hsorted
      have hregs : (sorted.map (region path)).Pairwise (· ≤ ·) := List.pairwise_map.mpr hsorted
      generalize hrg : sorted.map (region path) = regs at hregs
      have hmap := mapM_some (boundary regs) (bpos regs) (List.range' 1 (dimCells - 1))
        (fun r _ => (boundary_spec regs hregs r).1)
      rw [hmap]
      dsimp only
      have hrl : regs.length = sorted.length := by rw [← hrg]; simp
      obtain ⟨slices, hsl, hlen, hflat, hk⟩ :=
        splitAtMany_spec ((List.range' 1 (dimCells - 1)).map (bpos regs)) sorted 0
          (by
            rw [List.pairwise_map]
            exact (List.pairwise_lt_range' (s := 1) (n := dimCells - 1)).imp
              (fun h => bpos_mono regs hregs (Nat.le_of_lt h)))
          (by
            intro p hp
            obtain ⟨r, _, rfl⟩ := List.mem_map.mp hp
            have := (boundary_spec regs hregs r).2.1
            omega)
      rw [hsl]
      dsimp only
      have hbucket : ∀ j a, a ∈ slices.getD j [] → region path a = 0 + j := by
        intro j a ha
        have hj : j < slices.length := by
          refine Classical.byContradiction fun hc => ?_
          simp [List.getD_eq_getElem?_getD, List.getElem?_eq_none (Nat.le_of_not_lt hc)] at ha
        rw [hlen, List.length_map, List.length_range'] at hj
        obtain ⟨i, hi, hlo, hhi⟩ := hk j a ha
        have hi' : i < sorted.length := by
          refine Classical.byContradiction fun hc => ?_
          rw [List.getElem?_eq_none (Nat.le_of_not_lt hc)] at hi
          exact absurd hi (by simp)
        have hreg_i : regs.getD i 0 = region path a := by
          rw [← hrg]
          simp only [List.getD_eq_getElem?_getD, List.getElem?_map, hi, Option.map_some, Option.getD_some]
        obtain ⟨_, _, hlt, hge⟩ := boundary_spec regs hregs j
        obtain ⟨_, _, hlt', hge'⟩ := boundary_spec regs hregs (j + 1)
        simp only [List.length_map, List.length_range', Nat.zero_add] at hlo hhi
        have hlow : j ≤ region path a := by
          by_cases hj0 : j = 0
          · omega
          · rw [if_neg hj0] at hlo
            have hg : ((List.range' 1 (dimCells - 1)).map (bpos regs)).getD (j - 1) 0 = bpos regs j := by
              simp only [List.getD_eq_getElem?_getD, List.getElem?_map, List.getElem?_range',
                show j - 1 < dimCells - 1 by omega, Option.map_some, Option.getD_some]
              congr 1; omega
            rw [hg] at hlo
            have := hge i hlo (by omega)
            omega
        have hup : region path a ≤ j := by
          by_cases hjm : j < dimCells - 1
          · rw [if_pos hjm] at hhi
            have hg : ((List.range' 1 (dimCells - 1)).map (bpos regs)).getD j 0 = bpos regs (j + 1) := by
              simp only [List.getD_eq_getElem?_getD, List.getElem?_map, List.getElem?_range', hjm,
                Option.map_some, Option.getD_some]
              congr 1; omega
            rw [hg] at hhi
            have := hlt' i hhi
            omega
          · have := hreg path a
            omega
        omega
      obtain ⟨outs, hm, hp, hpw⟩ := mapM_slices dimCells sortBy region order path ih slices 0 hbucket
      rw [hm]
      refine ⟨outs.flatten, rfl, ?_, hpw⟩
      rw [hflat] at hp
      exact hp.trans hperm


/-! ### the id writes -/

theorem mem_insertByKey {key : Nat → Nat} {x y : Nat} {l : List Nat} :
    y ∈ insertByKey key x l ↔ y = x ∨ y ∈ l := by
  induction l with
  | nil => simp [insertByKey]
  | cons z zs ih =>
    simp only [insertByKey]
    split
    · simp
    · simp only [List.mem_cons, ih]
      constructor
      · rintro (h | h | h) <;> simp [h]
      · rintro (h | h | h) <;> simp [h]

/-- The insertion sort used by the driver is an admissible `par_sort_unstable_by_key`
(`SortSpec` is not vacuous). -/
theorem sortByKey_spec : SortSpec sortByKey := by
  intro key l
  induction l with
  | nil => simp [sortByKey]
  | cons x xs ih =>
    obtain ⟨hp, hs⟩ := ih
    have hins : ∀ (l : List Nat), l.Pairwise (fun a b => key a ≤ key b) →
        (insertByKey key x l).Perm (x :: l) ∧ (insertByKey key x l).Pairwise (fun a b => key a ≤ key b) := by
      intro l
      induction l with
      | nil => intro _; simp [insertByKey]
      | cons z zs ihz =>
        intro hl
        rw [List.pairwise_cons] at hl
        simp only [insertByKey]
        split
        · next hxz =>
          refine ⟨List.Perm.refl _, List.Pairwise.cons ?_ (List.Pairwise.cons hl.1 hl.2)⟩
          intro y hy
          rcases List.mem_cons.mp hy with h | h
          · subst h; exact hxz
          · have := hl.1 y h; omega
        · next hxz =>
          obtain ⟨p1, p2⟩ := ihz hl.2
          refine ⟨(List.Perm.cons z p1).trans (List.Perm.swap x z zs), List.Pairwise.cons ?_ p2⟩
          intro y hy
          rcases mem_insertByKey.mp hy with h | h
          · subst h; omega
          · exact hl.1 y h
    obtain ⟨q1, q2⟩ := hins _ hs
    exact ⟨q1.trans (List.Perm.cons x hp), q2⟩

theorem writeIds_aux (n k : Nat) : ∀ (l : List Nat) (off : Nat) (acc : List Nat),
    l.Nodup → (∀ x ∈ l, x < acc.length) →
    ((l.zipIdx off).foldl (fun acc (x : Nat × Nat) => acc.set x.1 (chunkId n k x.2)) acc).length = acc.length ∧
    (∀ pos, pos < l.length →
      ((l.zipIdx off).foldl (fun acc (x : Nat × Nat) => acc.set x.1 (chunkId n k x.2)) acc).getD (l.getD pos 0) 0
        = chunkId n k (off + pos)) ∧
    (∀ y, y ∉ l →
      ((l.zipIdx off).foldl (fun acc (x : Nat × Nat) => acc.set x.1 (chunkId n k x.2)) acc).getD y 0
        = acc.getD y 0) := by
  intro l
  induction l with
  | nil => intro off acc _ _; simp
  | cons x xs ih =>
    intro off acc hnd hlt
    rw [List.nodup_cons] at hnd
    simp only [List.zipIdx_cons, List.foldl_cons]
    have hx : x < acc.length := hlt x (by simp)
    obtain ⟨h1, h2, h3⟩ := ih (off + 1) (acc.set x (chunkId n k off)) hnd.2
      (fun y hy => by rw [List.length_set]; exact hlt y (by simp [hy]))
    refine ⟨by rw [h1, List.length_set], ?_, ?_⟩
    · intro pos hpos
      cases pos with
      | zero =>
        simp only [List.getD_cons_zero, Nat.add_zero]
        rw [h3 x hnd.1]
        simp [List.getD_eq_getElem?_getD, hx]
      | succ pos =>
        simp only [List.getD_cons_succ]
        rw [h2 pos (by simpa using hpos)]
        congr 1; omega
    · intro y hy
      rw [List.mem_cons, not_or] at hy
      rw [h3 y hy.2]
      simp only [List.getD_eq_getElem?_getD]
      rw [List.getElem?_set_ne (fun h => hy.1 h.symm)]

theorem writeIds_length (n k : Nat) (l p0 : List Nat) (hnd : l.Nodup) (hlt : ∀ x ∈ l, x < p0.length) :
    (writeIds n k l p0).length = p0.length :=
  (writeIds_aux n k l 0 p0 hnd hlt).1

/-- After the `for_each`, the point at position `pos` of the permutation carries
`chunkId pos`. -/
theorem writeIds_get (n k : Nat) (l p0 : List Nat) (hnd : l.Nodup) (hlt : ∀ x ∈ l, x < p0.length)
    (pos : Nat) (h : pos < l.length) :
    (writeIds n k l p0).getD (l.getD pos 0) 0 = chunkId n k pos := by
  have := (writeIds_aux n k l 0 p0 hnd hlt).2.1 pos h
  simpa [writeIds] using this


end ZCurve

/-! ## monotonicity of this `binary_search_by` in the key, on any slice -/

/-- Relation between the loop states of two searches (keys `a ≤ b`) over the same slice:
same `base`, or `A`'s window ends at most one past `B`'s base, the shared element then
being `Greater` than `a`. -/
def PairInv (cmpA : Nat → Ordering) (size bA bB : Nat) : Prop :=
  bA = bB ∨ (bA + size ≤ bB + 1 ∧ (bA + size = bB + 1 → cmpA bB = .gt))

theorem bsLoop_pair (cmpA cmpB : Nat → Ordering)
    (hgt : ∀ i, cmpB i = .gt → cmpA i = .gt) :
    ∀ fuel size bA bB, 1 ≤ size → size ≤ fuel + 1 → PairInv cmpA size bA bB →
      PairInv cmpA 1 (bsLoop cmpA fuel size bA) (bsLoop cmpB fuel size bB) := by
  intro fuel
  induction fuel with
  | zero =>
    intro size bA bB h1 h2 h
    have : size = 1 := by omega
    subst this
    simpa only [bsLoop] using h
  | succ f ih =>
    intro size bA bB h1 h2 h
    rw [bsLoop, bsLoop]
    split
    · next hs =>
      dsimp only
      apply ih _ _ _ (by omega) (by omega)
      rcases h with h | ⟨h, hov⟩
      · subst h
        by_cases hA : cmpA (bA + size / 2) = .gt
        · by_cases hB : cmpB (bA + size / 2) = .gt
          · rw [if_pos hA, if_pos hB]; exact Or.inl rfl
          · rw [if_pos hA, if_neg hB]
            exact Or.inr ⟨by omega, fun _ => hA⟩
        · have hB : ¬ cmpB (bA + size / 2) = .gt := fun hB => hA (hgt _ hB)
          rw [if_neg hA, if_neg hB]; exact Or.inl rfl
      · right
        by_cases hA : cmpA (bA + size / 2) = .gt <;> by_cases hB : cmpB (bB + size / 2) = .gt
        · rw [if_pos hA, if_pos hB]
          exact ⟨by omega, fun he => by omega⟩
        · rw [if_pos hA, if_neg hB]
          exact ⟨by omega, fun he => by omega⟩
        · rw [if_neg hA, if_pos hB]
          exact ⟨by omega, fun he => hov (by omega)⟩
        · rw [if_neg hA, if_neg hB]
          exact ⟨by omega, fun he => by omega⟩
    · have : size = 1 := by omega
      subst this
      exact h

/-- Rust 1.95's branch-free `binary_search_by` is monotone in the key on **any** slice:
if every element `Greater` than `b` is `Greater` than `a` and every element `Less` than
`a` is `Less` than `b`, the index found for `a` is at most the one found for `b`. -/
theorem bsearchBy_mono_any (len : Nat) (cmpA cmpB : Nat → Ordering)
    (hgt : ∀ i, cmpB i = .gt → cmpA i = .gt) (hlt : ∀ i, cmpA i = .lt → cmpB i = .lt) :
    (bsearchBy len cmpA).idx ≤ (bsearchBy len cmpB).idx := by
  unfold bsearchBy
  split
  · exact Nat.le_refl _
  · have h := bsLoop_pair cmpA cmpB hgt len len 0 0 (by omega) (by omega) (Or.inl rfl)
    dsimp only
    generalize bsLoop cmpA len len 0 = bA at h
    generalize bsLoop cmpB len len 0 = bB at h
    rcases h with h | ⟨h, hov⟩
    · subst h
      cases hA : cmpA bA with
      | lt => rw [hlt _ hA]; exact Nat.le_refl _
      | eq => cases cmpB bA <;> simp only [BRes.idx] <;> omega
      | gt => cases cmpB bA <;> simp only [BRes.idx] <;> omega
    · by_cases he : bA = bB
      · have hA := hov (by omega)
        subst he
        rw [hA]
        cases cmpB bA <;> simp only [BRes.idx] <;> omega
      · cases cmpA bA <;> cases cmpB bB <;> simp only [BRes.idx] <;> omega

theorem bsearch_idx_mono_any (s : List Nat) {a b : Nat} (hab : a ≤ b) :
    (bsearch s a).idx ≤ (bsearch s b).idx := by
  unfold bsearch
  apply bsearchBy_mono_any
  · intro i h
    simp only [Nat.compare_eq_gt] at h ⊢
    omega
  · intro i h
    simp only [Nat.compare_eq_lt] at h ⊢
    omega

/-! ## `weighted_quantiles`: shape of the result -/

namespace Hilbert

theorem stepAll_length (n : Nat) (pos : Array Nat) (pw : Array Float) (total : Float) :
    ∀ (splits : List Split) (p : Nat) (acc : Float),
      (stepAll n pos pw total splits p acc).1.length = splits.length
  | [], _, _ => rfl
  | s :: ss, p, acc => by
    simp only [stepAll, List.length_cons]
    rw [stepAll_length n pos pw total ss]

theorem refine_length (n : Nat) (idxs : Array Nat) (ws : Array Float) :
    ∀ (fuel : Nat) (splits : List Split) (todo : Nat) (out : List Split),
      refine n idxs ws fuel splits todo = some out → out.length = splits.length := by
  intro fuel
  induction fuel with
  | zero =>
    intro splits todo out h
    cases todo with
    | zero => simp only [refine, Option.some.injEq] at h; rw [← h]
    | succ t => simp [refine] at h
  | succ f ih =>
    intro splits todo out h
    cases todo with
    | zero => simp only [refine, Option.some.injEq] at h; rw [← h]
    | succ t =>
      simp only [refine] at h
      rw [ih _ _ _ h, stepAll_length]

/-- What `weighted_quantiles` returns (when the refinement loop ends) is sorted and has
`n - 1` entries – one split per part boundary (no `dedup` any more). -/
theorem quantiles_sorted_len (fuel : Nat) (idxs : List Nat) (ws : List Float) (n : Nat) (pos : List Nat)
    (h : quantiles fuel idxs ws n = some pos) : pos.Pairwise (· ≤ ·) ∧ pos.length = n - 1 := by
  simp only [quantiles, quantilesRaw, Option.map_eq_some_iff] at h
  obtain ⟨raw, ⟨out, hout, hraw⟩, hpos⟩ := h
  subst hpos
  refine ⟨pairwise_sortAsc raw, ?_⟩
  rw [(perm_sortAsc raw).length_eq, ← hraw, List.length_map, refine_length _ _ _ _ _ _ _ hout]
  simp

end Hilbert

/-! ## array-backed variants used by the driver are the same functions -/

theorem bsearchA_eq (s : Array Nat) (key : Nat) : bsearchA s key = bsearch s.toList key := by
  simp [bsearchA, bsearch, Array.getD_eq_getD_getElem?, List.getD_eq_getElem?_getD]

theorem partitionIndexedA_eq (idxs positions : List Nat) :
    Hilbert.partitionIndexedA idxs positions = Hilbert.partitionIndexed idxs positions := by
  simp [Hilbert.partitionIndexedA, Hilbert.partitionIndexed, Hilbert.assign, bsearchA_eq]

theorem ZCurve.writeIdsA_toList (n k : Nat) (perm : List Nat) (p0 : Array Nat) :
    (ZCurve.writeIdsA n k perm p0).toList = ZCurve.writeIds n k perm p0.toList := by
  unfold ZCurve.writeIdsA ZCurve.writeIds
  generalize perm.zipIdx = l
  induction l generalizing p0 with
  | nil => rfl
  | cons x xs ih => simp only [List.foldl_cons]; rw [ih]; simp

/-- The merge sort by key of the driver is an admissible `par_sort_unstable_by_key`. -/
theorem ZCurve.mergeByKey_spec : ZCurve.SortSpec ZCurve.mergeByKey := by
  intro key l
  refine ⟨List.mergeSort_perm l _, ?_⟩
  have := List.pairwise_mergeSort (le := fun a b => decide (key a ≤ key b))
    (fun a b c hab hbc => by simp only [decide_eq_true_eq] at *; omega)
    (fun a b => by simp only [Bool.or_eq_true, decide_eq_true_eq]; omega) l
  exact this.imp (fun h => by simpa using h)

end Coupe.Sfc
