import CoupeModel.Proofs.Metrics
import Mathlib.Tactic.FieldSimp
import Mathlib.Tactic.Ring
import Mathlib.Tactic.Linarith
import Mathlib.Algebra.Order.Field.Rat

/-!
# Lemmas about the `imbalance.rs` part of `Model/Metrics.lean`
-/

namespace Coupe.Metrics

/-! ## `compute_parts_load` -/

theorem partsLoadFold_getElem? (zs : List (Nat × Int)) (acc : List Int) (j : Nat) :
    (partsLoadFold zs acc)[j]? = (acc[j]?).map (· + entry zs j) := by
  induction zs generalizing acc with
  | nil =>
    have : entry [] j = 0 := rfl
    simp [partsLoadFold, this]
  | cons e rest ih =>
    have hstep : partsLoadFold (e :: rest) acc = partsLoadFold rest (addAt acc e.1 e.2) := rfl
    rw [hstep, ih, entry_cons]
    unfold addAt
    rw [List.getElem?_modify]
    by_cases h : e.1 = j
    · simp only [h, if_true]
      cases acc[j]? with
      | none => rfl
      | some a => simp only [Option.map_some, Option.map_eq_map, Option.some.injEq]; omega
    · simp only [h, if_false]
      cases acc[j]? with
      | none => rfl
      | some a => simp only [Option.map_some, Option.map_eq_map, Option.some.injEq]; omega

theorem load_eq_entry (ws : List Int) (p : List Nat) (j : Nat) :
    Coupe.load ws p j = entry (p.zip ws) j := by
  unfold Coupe.load
  induction ws generalizing p with
  | nil => cases p <;> rfl
  | cons w ws ih =>
    cases p with
    | nil => rfl
    | cons q qs =>
      rw [List.zip_cons_cons, List.zip_cons_cons, entry_cons, ← ih qs]
      by_cases h : q = j <;> simp [h]

theorem foldl_max_lt (p : List Nat) (a k : Nat) (ha : a < k) (hp : ∀ x ∈ p, x < k) :
    p.foldl max a < k := by
  induction p generalizing a with
  | nil => exact ha
  | cons x xs ih =>
    simp only [List.foldl_cons]
    apply ih
    · have := hp x (by simp); omega
    · intro y hy; exact hp y (by simp [hy])

theorem lt_of_foldl_max_lt (p : List Nat) (a k : Nat) (h : p.foldl max a < k) :
    a < k ∧ ∀ x ∈ p, x < k := by
  induction p generalizing a with
  | nil => exact ⟨h, by simp⟩
  | cons x xs ih =>
    simp only [List.foldl_cons] at h
    obtain ⟨h1, h2⟩ := ih (max a x) h
    refine ⟨by omega, ?_⟩
    intro y hy
    rcases List.mem_cons.mp hy with rfl | hy
    · omega
    · exact h2 y hy

/-- `compute_parts_load` returns the vector of part loads (closed form of
`Model/Basic.lean`), whenever its assertion passes. -/
theorem computePartsLoad?_eq (p : List Nat) (k : Nat) (ws : List Int) (l : List Int)
    (h : computePartsLoad? p k ws = some l) : l = Coupe.loads ws p k := by
  unfold computePartsLoad? at h
  split at h
  · injection h with h
    subst h
    apply List.ext_getElem?
    intro j
    rw [partsLoadFold_getElem?]
    unfold Coupe.loads
    by_cases hj : j < k
    · simp [hj, load_eq_entry]
    · simp [hj]
  · cases h

theorem computePartsLoad?_isSome_iff (p : List Nat) (k : Nat) (ws : List Int) :
    (computePartsLoad? p k ws).isSome ↔ (0 < k ∧ ∀ x ∈ p, x < k) := by
  unfold computePartsLoad?
  constructor
  · intro h
    split at h
    · next hlt => exact lt_of_foldl_max_lt p 0 k hlt
    · cases h
  · rintro ⟨h1, h2⟩
    rw [if_pos (foldl_max_lt p 0 k h1 h2)]
    rfl

theorem computePartsLoad?_of_inRange (p : List Nat) (k : Nat) (ws : List Int)
    (hk : 0 < k) (hp : ∀ x ∈ p, x < k) :
    computePartsLoad? p k ws = some (Coupe.loads ws p k) := by
  have h := (computePartsLoad?_isSome_iff p k ws).mpr ⟨hk, hp⟩
  cases hc : computePartsLoad? p k ws with
  | none => rw [hc] at h; cases h
  | some l => rw [computePartsLoad?_eq p k ws l hc]

theorem loads_length (ws : List Int) (p : List Nat) (k : Nat) : (Coupe.loads ws p k).length = k := by
  simp [Coupe.loads]

/-! ## `itertools::minmax` over a linear order -/

section MinMax
variable {α : Type} [LinearOrder α]

/-- The comparison `|x, y| x < y` itertools is called with. -/
def ltb (a b : α) : Bool := decide (a < b)

/-- Invariant of the main loop. -/
theorem minmaxLoop_spec : ∀ (l : List α) (mn mx : α), mn ≤ mx →
    (minmaxLoop ltb (mn, mx) l).1 ≤ mn ∧ mx ≤ (minmaxLoop ltb (mn, mx) l).2 ∧
    (∀ x ∈ l, (minmaxLoop ltb (mn, mx) l).1 ≤ x ∧ x ≤ (minmaxLoop ltb (mn, mx) l).2) ∧
    ((minmaxLoop ltb (mn, mx) l).1 = mn ∨ (minmaxLoop ltb (mn, mx) l).1 ∈ l) ∧
    ((minmaxLoop ltb (mn, mx) l).2 = mx ∨ (minmaxLoop ltb (mn, mx) l).2 ∈ l)
  | [], mn, mx, h => by simp [minmaxLoop]
  | [f], mn, mx, h => by
    simp only [minmaxLoop, ltb]
    by_cases h1 : f < mn
    · simp only [h1, decide_true, if_true, List.mem_singleton, forall_eq]
      refine ⟨le_of_lt h1, le_refl _, ⟨le_refl _, le_trans (le_of_lt h1) h⟩, by simp, by simp⟩
    · by_cases h2 : f < mx
      · simp only [h1, h2, decide_false, decide_true, Bool.not_true, List.mem_singleton, forall_eq]
        refine ⟨le_refl _, le_refl _, ⟨not_lt.mp h1, le_of_lt h2⟩, by simp, by simp⟩
      · simp only [h1, h2, decide_false, Bool.not_false, if_true, List.mem_singleton, forall_eq]
        refine ⟨le_refl _, not_lt.mp h2, ⟨not_lt.mp h1, le_refl _⟩, by simp, by simp⟩
  | f :: s :: rest, mn, mx, h => by
    by_cases hsf : s < f
    · -- second < first: second against min, first against max
      have hstep : minmaxLoop ltb (mn, mx) (f :: s :: rest) =
          minmaxLoop ltb (if s < mn then s else mn, if ¬ f < mx then f else mx) rest := by
        simp [minmaxLoop, ltb, hsf]
      rw [hstep]
      have hmn : (if s < mn then s else mn) ≤ mn ∧ (if s < mn then s else mn) ≤ s ∧
          ((if s < mn then s else mn) = mn ∨ (if s < mn then s else mn) = s) := by
        by_cases c : s < mn
        · simp only [c, if_true]; exact ⟨le_of_lt c, le_refl _, by simp⟩
        · simp only [c, if_false]; exact ⟨le_refl _, not_lt.mp c, by simp⟩
      have hmx : mx ≤ (if ¬ f < mx then f else mx) ∧ f ≤ (if ¬ f < mx then f else mx) ∧
          ((if ¬ f < mx then f else mx) = mx ∨ (if ¬ f < mx then f else mx) = f) := by
        by_cases c : f < mx
        · simp only [c, not_true, if_false]; exact ⟨le_refl _, le_of_lt c, by simp⟩
        · simp only [c, not_false_iff, if_true]; exact ⟨not_lt.mp c, le_refl _, by simp⟩
      generalize (if s < mn then s else mn) = mn' at hmn ⊢
      generalize (if ¬ f < mx then f else mx) = mx' at hmx ⊢
      have hle : mn' ≤ mx' := le_trans hmn.1 (le_trans h hmx.1)
      obtain ⟨r1, r2, r3, r4, r5⟩ := minmaxLoop_spec rest mn' mx' hle
      generalize minmaxLoop ltb (mn', mx') rest = r at r1 r2 r3 r4 r5 ⊢
      refine ⟨le_trans r1 hmn.1, le_trans hmx.1 r2, ?_, ?_, ?_⟩
      · intro x hx
        rcases List.mem_cons.mp hx with rfl | hx
        · exact ⟨le_trans r1 (le_trans hmn.2.1 (le_of_lt hsf)), le_trans hmx.2.1 r2⟩
        · rcases List.mem_cons.mp hx with rfl | hx
          · exact ⟨le_trans r1 hmn.2.1, le_trans (le_of_lt hsf) (le_trans hmx.2.1 r2)⟩
          · exact r3 x hx
      · rcases r4 with r4 | r4
        · rcases hmn.2.2 with e | e
          · exact Or.inl (r4.trans e)
          · exact Or.inr (by rw [r4, e]; simp)
        · exact Or.inr (by simp [r4])
      · rcases r5 with r5 | r5
        · rcases hmx.2.2 with e | e
          · exact Or.inl (r5.trans e)
          · exact Or.inr (by rw [r5, e]; simp)
        · exact Or.inr (by simp [r5])
    · -- first ≤ second: first against min, second against max
      have hfs : f ≤ s := not_lt.mp hsf
      have hstep : minmaxLoop ltb (mn, mx) (f :: s :: rest) =
          minmaxLoop ltb (if f < mn then f else mn, if ¬ s < mx then s else mx) rest := by
        simp [minmaxLoop, ltb, hsf]
      rw [hstep]
      have hmn : (if f < mn then f else mn) ≤ mn ∧ (if f < mn then f else mn) ≤ f ∧
          ((if f < mn then f else mn) = mn ∨ (if f < mn then f else mn) = f) := by
        by_cases c : f < mn
        · simp only [c, if_true]; exact ⟨le_of_lt c, le_refl _, by simp⟩
        · simp only [c, if_false]; exact ⟨le_refl _, not_lt.mp c, by simp⟩
      have hmx : mx ≤ (if ¬ s < mx then s else mx) ∧ s ≤ (if ¬ s < mx then s else mx) ∧
          ((if ¬ s < mx then s else mx) = mx ∨ (if ¬ s < mx then s else mx) = s) := by
        by_cases c : s < mx
        · simp only [c, not_true, if_false]; exact ⟨le_refl _, le_of_lt c, by simp⟩
        · simp only [c, not_false_iff, if_true]; exact ⟨not_lt.mp c, le_refl _, by simp⟩
      generalize (if f < mn then f else mn) = mn' at hmn ⊢
      generalize (if ¬ s < mx then s else mx) = mx' at hmx ⊢
      have hle : mn' ≤ mx' := le_trans hmn.1 (le_trans h hmx.1)
      obtain ⟨r1, r2, r3, r4, r5⟩ := minmaxLoop_spec rest mn' mx' hle
      generalize minmaxLoop ltb (mn', mx') rest = r at r1 r2 r3 r4 r5 ⊢
      refine ⟨le_trans r1 hmn.1, le_trans hmx.1 r2, ?_, ?_, ?_⟩
      · intro x hx
        rcases List.mem_cons.mp hx with rfl | hx
        · exact ⟨le_trans r1 hmn.2.1, le_trans hfs (le_trans hmx.2.1 r2)⟩
        · rcases List.mem_cons.mp hx with rfl | hx
          · exact ⟨le_trans r1 (le_trans hmn.2.1 hfs), le_trans hmx.2.1 r2⟩
          · exact r3 x hx
      · rcases r4 with r4 | r4
        · rcases hmn.2.2 with e | e
          · exact Or.inl (r4.trans e)
          · exact Or.inr (by rw [r4, e]; simp)
        · exact Or.inr (by simp [r4])
      · rcases r5 with r5 | r5
        · rcases hmx.2.2 with e | e
          · exact Or.inl (r5.trans e)
          · exact Or.inr (by rw [r5, e]; simp)
        · exact Or.inr (by simp [r5])

/-- `minmax` returns the least and the greatest element. -/
theorem minmax_spec (l : List α) (hne : l ≠ []) :
    ∃ a b, minmax ltb l = some (a, b) ∧ a ∈ l ∧ b ∈ l ∧ ∀ x ∈ l, a ≤ x ∧ x ≤ b := by
  match l, hne with
  | [x], _ => exact ⟨x, x, rfl, by simp, by simp, by simp⟩
  | x :: y :: rest, _ =>
    by_cases hyx : y < x
    · have hstep : minmax ltb (x :: y :: rest) = some (minmaxLoop ltb (y, x) rest) := by
        simp [minmax, ltb, hyx]
      obtain ⟨r1, r2, r3, r4, r5⟩ := minmaxLoop_spec rest y x (le_of_lt hyx)
      rw [hstep]
      generalize minmaxLoop ltb (y, x) rest = r at r1 r2 r3 r4 r5 ⊢
      refine ⟨r.1, r.2, rfl, ?_, ?_, ?_⟩
      · rcases r4 with e | e
        · simp [e]
        · simp [e]
      · rcases r5 with e | e
        · simp [e]
        · simp [e]
      · intro z hz
        rcases List.mem_cons.mp hz with rfl | hz
        · exact ⟨le_trans r1 (le_of_lt hyx), r2⟩
        · rcases List.mem_cons.mp hz with rfl | hz
          · exact ⟨r1, le_trans (le_of_lt hyx) r2⟩
          · exact r3 z hz
    · have hxy : x ≤ y := not_lt.mp hyx
      have hstep : minmax ltb (x :: y :: rest) = some (minmaxLoop ltb (x, y) rest) := by
        simp [minmax, ltb, hyx]
      obtain ⟨r1, r2, r3, r4, r5⟩ := minmaxLoop_spec rest x y hxy
      rw [hstep]
      generalize minmaxLoop ltb (x, y) rest = r at r1 r2 r3 r4 r5 ⊢
      refine ⟨r.1, r.2, rfl, ?_, ?_, ?_⟩
      · rcases r4 with e | e
        · simp [e]
        · simp [e]
      · rcases r5 with e | e
        · simp [e]
        · simp [e]
      · intro z hz
        rcases List.mem_cons.mp hz with rfl | hz
        · exact ⟨r1, le_trans hxy r2⟩
        · rcases List.mem_cons.mp hz with rfl | hz
          · exact ⟨le_trans r1 hxy, r2⟩
          · exact r3 z hz

end MinMax

/-! ## `max_by` on integers -/

theorem foldl_max_spec (l : List Int) (a : Int) :
    a ≤ l.foldl max a ∧ (∀ x ∈ l, x ≤ l.foldl max a) ∧ (l.foldl max a = a ∨ l.foldl max a ∈ l) := by
  induction l generalizing a with
  | nil => simp
  | cons y ys ih =>
    obtain ⟨h1, h2, h3⟩ := ih (max a y)
    simp only [List.foldl_cons]
    refine ⟨by omega, ?_, ?_⟩
    · intro x hx
      rcases List.mem_cons.mp hx with rfl | hx
      · omega
      · exact h2 x hx
    · rcases h3 with h3 | h3
      · rcases Int.le_total a y with c | c
        · right; rw [h3, Int.max_eq_right c]; simp
        · left; rw [h3, Int.max_eq_left c]
      · right; simp [h3]

theorem maxOf_spec (l : List Int) (hne : l ≠ []) :
    ∃ m, maxOf l = some m ∧ m ∈ l ∧ ∀ x ∈ l, x ≤ m := by
  match l, hne with
  | y :: ys, _ =>
    obtain ⟨h1, h2, h3⟩ := foldl_max_spec ys y
    refine ⟨ys.foldl max y, rfl, ?_, ?_⟩
    · rcases h3 with h3 | h3
      · simp [h3]
      · simp [h3]
    · intro x hx
      rcases List.mem_cons.mp hx with rfl | hx
      · exact h1
      · exact h2 x hx

/-! ## `imbalance` over the rationals -/

/-- Exact arithmetic: the same expression as the `f64` one, over `ℚ`. -/
def ratArith : Arith Rat where
  zero := 0
  ofInt := fun i => (i : Rat)
  ofNat := fun n => (n : Rat)
  sub := (· - ·)
  div := (· / ·)
  lt := ltb
  isZero := fun a => decide (a = 0)

/-- Relative deviation of the load `L` from the ideal load `T/K`, in lowest
form: `(K·L − T)/T`. -/
def relDev (k : Nat) (T L : Int) : Rat := ((k : Rat) * (L : Rat) - (T : Rat)) / (T : Rat)

/-- `(L - T/K) / (T/K) = (K·L - T) / T`. -/
theorem rel_dev_eq (L T : Int) (k : Nat) (hk : 0 < k) (hT : T ≠ 0) :
    (((L : Rat) - (T : Rat) / (k : Rat)) / ((T : Rat) / (k : Rat))) = relDev k T L := by
  have hk' : (k : Rat) ≠ 0 := by exact_mod_cast (by omega : k ≠ 0)
  have hT' : (T : Rat) ≠ 0 := by exact_mod_cast hT
  unfold relDev
  field_simp

end Coupe.Metrics
