import CoupeModel.Model.Random

/-! Lemmas on the loop of `coupe::Random` (`Model/Random.lean`), used by `Props/C01.lean`. -/

namespace Coupe.Random

/-- The loop writes one id per cell. -/
theorem fill_length {σ : Type} (g : Gen σ) (k : Nat) :
    ∀ (p : List Nat) (s : σ) (ids : List Nat), fill g k p s = some ids → ids.length = p.length
  | [], _, ids, h => by
    have : ids = [] := by simpa [fill] using h.symm
    simp [this]
  | _ :: p, s, ids, h => by
    simp only [fill] at h
    split at h
    · cases h
    · next v s' _ =>
      split at h
      · cases h
      · next rest hrest =>
        have : ids = v :: rest := by simpa using h.symm
        subst this
        simp [fill_length g k p s' rest hrest]

/-- Every drawn id is below `k` when the generator keeps its contract. -/
theorem fill_lt {σ : Type} (g : Gen σ) (hg : Lawful g) (k : Nat) (hk : 0 < k) :
    ∀ (p : List Nat) (s : σ) (ids : List Nat), fill g k p s = some ids → ∀ i ∈ ids, i < k
  | [], _, ids, h => by
    have : ids = [] := by simpa [fill] using h.symm
    simp [this]
  | _ :: p, s, ids, h => by
    obtain ⟨v, s', hn, hv⟩ := hg k s hk
    simp only [fill, hn] at h
    split at h
    · cases h
    · next rest hrest =>
      have : ids = v :: rest := by simpa using h.symm
      subst this
      intro i hi
      rcases List.mem_cons.mp hi with rfl | hi
      · exact hv
      · exact fill_lt g hg k hk p s' rest hrest i hi

end Coupe.Random
