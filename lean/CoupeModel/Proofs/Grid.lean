import CoupeModel.Model.Grid
import CoupeModel.Proofs.Metrics

/-!
# Lemmas about `Model/Grid.lean`
-/

namespace Coupe.Grid
open Coupe.Metrics

/-! ## index ↔ position, 2-D -/

theorem index_position2 (w h i : Nat) (hw : 0 < w) (hi : i < w * h) :
    indexOf2 w (positionOf2 w i) = i ∧ (positionOf2 w i).1 < w ∧ (positionOf2 w i).2 < h := by
  unfold indexOf2 positionOf2
  refine ⟨Nat.mod_add_div i w, Nat.mod_lt _ hw, ?_⟩
  show i / w < h
  rw [Nat.div_lt_iff_lt_mul hw, Nat.mul_comm]
  exact hi

theorem indexOf2_lt (w h x y : Nat) (hx : x < w) (hy : y < h) : x + w * y < w * h := by
  calc x + w * y < w + w * y := by omega
    _ = w * (y + 1) := by rw [Nat.mul_succ]; omega
    _ ≤ w * h := Nat.mul_le_mul_left w hy

theorem position_index2 (w h x y : Nat) (hx : x < w) (hy : y < h) :
    positionOf2 w (indexOf2 w (x, y)) = (x, y) ∧ indexOf2 w (x, y) < w * h := by
  have hw : 0 < w := by omega
  unfold positionOf2 indexOf2
  refine ⟨?_, indexOf2_lt w h x y hx hy⟩
  show ((x + w * y) % w, (x + w * y) / w) = (x, y)
  rw [Nat.add_mul_mod_self_left, Nat.mod_eq_of_lt hx, Nat.add_mul_div_left _ _ hw,
    Nat.div_eq_of_lt hx, Nat.zero_add]

/-! ## index ↔ position, 3-D -/

theorem index_position3 (w h d i : Nat) (hw : 0 < w) (hh : 0 < h) (hi : i < w * h * d) :
    indexOf3 w h (positionOf3 w h i) = i ∧ (positionOf3 w h i).1 < w ∧
      (positionOf3 w h i).2.1 < h ∧ (positionOf3 w h i).2.2 < d := by
  unfold indexOf3 positionOf3
  refine ⟨?_, Nat.mod_lt _ hw, Nat.mod_lt _ hh, ?_⟩
  · show i % w + w * (i / w % h + h * (i / w / h)) = i
    rw [Nat.mod_add_div (i / w) h, Nat.mod_add_div i w]
  · show i / w / h < d
    rw [Nat.div_lt_iff_lt_mul hh, Nat.div_lt_iff_lt_mul hw]
    calc i < w * h * d := hi
      _ = d * h * w := by rw [Nat.mul_comm (w * h) d, Nat.mul_comm w h, Nat.mul_assoc]

theorem position_index3 (w h d x y z : Nat) (hx : x < w) (hy : y < h) (hz : z < d) :
    positionOf3 w h (indexOf3 w h (x, y, z)) = (x, y, z) ∧ indexOf3 w h (x, y, z) < w * h * d := by
  have hw : 0 < w := by omega
  have hh : 0 < h := by omega
  have hq : y + h * z < h * d := indexOf2_lt h d y z hy hz
  unfold positionOf3 indexOf3
  refine ⟨?_, ?_⟩
  · show ((x + w * (y + h * z)) % w, (x + w * (y + h * z)) / w % h, (x + w * (y + h * z)) / w / h)
      = (x, y, z)
    rw [Nat.add_mul_mod_self_left, Nat.mod_eq_of_lt hx, Nat.add_mul_div_left _ _ hw,
      Nat.div_eq_of_lt hx, Nat.zero_add, Nat.add_mul_mod_self_left, Nat.mod_eq_of_lt hy,
      Nat.add_mul_div_left _ _ hh, Nat.div_eq_of_lt hy, Nat.zero_add]
  · show x + w * (y + h * z) < w * h * d
    rw [Nat.mul_assoc]
    exact indexOf2_lt w (h * d) x (y + h * z) hx hq

/-! ## the neighbour iterator -/

theorem newCoord_minus (c size v : Nat) :
    newCoord c size false = some v ↔ (1 ≤ c ∧ c - 1 < size ∧ v = c - 1) := by
  unfold newCoord
  by_cases h0 : c = 0
  · simp [h0]
  · by_cases h1 : c - 1 < size
    · simp [h0, h1]; omega
    · simp [h0, h1]

theorem newCoord_plus (c size v : Nat) :
    newCoord c size true = some v ↔ (c + 1 < size ∧ v = c + 1) := by
  unfold newCoord
  by_cases h1 : c + 1 < size
  · simp [h1]; omega
  · simp [h1]

theorem mem_neighbors2 (w h i j : Nat) :
    j ∈ neighbors2 w h i ↔
      (1 ≤ (positionOf2 w i).1 ∧ (positionOf2 w i).1 - 1 < w ∧
          j = indexOf2 w ((positionOf2 w i).1 - 1, (positionOf2 w i).2)) ∨
      ((positionOf2 w i).1 + 1 < w ∧
          j = indexOf2 w ((positionOf2 w i).1 + 1, (positionOf2 w i).2)) ∨
      (1 ≤ (positionOf2 w i).2 ∧ (positionOf2 w i).2 - 1 < h ∧
          j = indexOf2 w ((positionOf2 w i).1, (positionOf2 w i).2 - 1)) ∨
      ((positionOf2 w i).2 + 1 < h ∧
          j = indexOf2 w ((positionOf2 w i).1, (positionOf2 w i).2 + 1)) := by
  unfold neighbors2
  simp only [List.mem_filterMap, List.mem_cons, List.not_mem_nil, or_false, id_eq,
    exists_eq_or_imp, exists_eq_left, Option.map_eq_some_iff, newCoord_minus, newCoord_plus]
  constructor
  · rintro (⟨v, ⟨a, b, rfl⟩, rfl⟩ | ⟨v, ⟨a, rfl⟩, rfl⟩ | ⟨v, ⟨a, b, rfl⟩, rfl⟩ | ⟨v, ⟨a, rfl⟩, rfl⟩)
    · exact Or.inl ⟨a, b, rfl⟩
    · exact Or.inr (Or.inl ⟨a, rfl⟩)
    · exact Or.inr (Or.inr (Or.inl ⟨a, b, rfl⟩))
    · exact Or.inr (Or.inr (Or.inr ⟨a, rfl⟩))
  · rintro (⟨a, b, rfl⟩ | ⟨a, rfl⟩ | ⟨a, b, rfl⟩ | ⟨a, rfl⟩)
    · exact Or.inl ⟨_, ⟨a, b, rfl⟩, rfl⟩
    · exact Or.inr (Or.inl ⟨_, ⟨a, rfl⟩, rfl⟩)
    · exact Or.inr (Or.inr (Or.inl ⟨_, ⟨a, b, rfl⟩, rfl⟩))
    · exact Or.inr (Or.inr (Or.inr ⟨_, ⟨a, rfl⟩, rfl⟩))

theorem dist2_eq_one_iff (x y x' y' : Nat) :
    dist2 (x, y) (x', y') = 1 ↔
      (1 ≤ x ∧ x' = x - 1 ∧ y' = y) ∨ (x' = x + 1 ∧ y' = y) ∨
      (1 ≤ y ∧ x' = x ∧ y' = y - 1) ∨ (x' = x ∧ y' = y + 1) := by
  unfold dist2
  simp only
  omega

/-- Neighbours of an in-range cell are in range, at L1 distance 1. -/
theorem neighbors2_sound (w h i j : Nat) (hw : 0 < w) (hi : i < w * h)
    (hj : j ∈ neighbors2 w h i) :
    j < w * h ∧ dist2 (positionOf2 w i) (positionOf2 w j) = 1 := by
  obtain ⟨-, hx, hy⟩ := index_position2 w h i hw hi
  rw [mem_neighbors2] at hj
  generalize positionOf2 w i = q at hx hy hj ⊢
  obtain ⟨x, y⟩ := q
  simp only at hx hy hj
  rcases hj with ⟨a, b, rfl⟩ | ⟨a, rfl⟩ | ⟨a, b, rfl⟩ | ⟨a, rfl⟩
  · obtain ⟨e, l⟩ := position_index2 w h (x - 1) y b hy
    exact ⟨l, by rw [e, dist2_eq_one_iff]; omega⟩
  · obtain ⟨e, l⟩ := position_index2 w h (x + 1) y a hy
    exact ⟨l, by rw [e, dist2_eq_one_iff]; omega⟩
  · obtain ⟨e, l⟩ := position_index2 w h x (y - 1) hx b
    exact ⟨l, by rw [e, dist2_eq_one_iff]; omega⟩
  · obtain ⟨e, l⟩ := position_index2 w h x (y + 1) hx a
    exact ⟨l, by rw [e, dist2_eq_one_iff]; omega⟩

/-- Every in-range cell at L1 distance 1 is yielded. -/
theorem neighbors2_complete (w h i j : Nat) (hw : 0 < w) (hi : i < w * h) (hj : j < w * h)
    (hd : dist2 (positionOf2 w i) (positionOf2 w j) = 1) : j ∈ neighbors2 w h i := by
  obtain ⟨-, hx, hy⟩ := index_position2 w h i hw hi
  obtain ⟨ej, hx', hy'⟩ := index_position2 w h j hw hj
  rw [mem_neighbors2]
  generalize positionOf2 w i = q at hx hy hd ⊢
  generalize positionOf2 w j = q' at hx' hy' hd ej
  obtain ⟨x, y⟩ := q
  obtain ⟨x', y'⟩ := q'
  simp only at hx hy hx' hy' ⊢
  rw [dist2_eq_one_iff] at hd
  rcases hd with ⟨a, rfl, rfl⟩ | ⟨rfl, rfl⟩ | ⟨a, rfl, rfl⟩ | ⟨rfl, rfl⟩
  · exact Or.inl ⟨a, hx', ej.symm⟩
  · exact Or.inr (Or.inl ⟨hx', ej.symm⟩)
  · exact Or.inr (Or.inr (Or.inl ⟨a, hy', ej.symm⟩))
  · exact Or.inr (Or.inr (Or.inr ⟨hy', ej.symm⟩))

theorem dist2_comm (a b : Nat × Nat) : dist2 a b = dist2 b a := by
  unfold dist2; omega

/-! ## 3-D -/

theorem mem_neighbors3 (w h d i j : Nat) :
    j ∈ neighbors3 w h d i ↔
      (1 ≤ (positionOf3 w h i).1 ∧ (positionOf3 w h i).1 - 1 < w ∧
          j = indexOf3 w h ((positionOf3 w h i).1 - 1, (positionOf3 w h i).2.1, (positionOf3 w h i).2.2)) ∨
      ((positionOf3 w h i).1 + 1 < w ∧
          j = indexOf3 w h ((positionOf3 w h i).1 + 1, (positionOf3 w h i).2.1, (positionOf3 w h i).2.2)) ∨
      (1 ≤ (positionOf3 w h i).2.1 ∧ (positionOf3 w h i).2.1 - 1 < h ∧
          j = indexOf3 w h ((positionOf3 w h i).1, (positionOf3 w h i).2.1 - 1, (positionOf3 w h i).2.2)) ∨
      ((positionOf3 w h i).2.1 + 1 < h ∧
          j = indexOf3 w h ((positionOf3 w h i).1, (positionOf3 w h i).2.1 + 1, (positionOf3 w h i).2.2)) ∨
      (1 ≤ (positionOf3 w h i).2.2 ∧ (positionOf3 w h i).2.2 - 1 < d ∧
          j = indexOf3 w h ((positionOf3 w h i).1, (positionOf3 w h i).2.1, (positionOf3 w h i).2.2 - 1)) ∨
      ((positionOf3 w h i).2.2 + 1 < d ∧
          j = indexOf3 w h ((positionOf3 w h i).1, (positionOf3 w h i).2.1, (positionOf3 w h i).2.2 + 1)) := by
  unfold neighbors3
  simp only [List.mem_filterMap, List.mem_cons, List.not_mem_nil, or_false, id_eq,
    exists_eq_or_imp, exists_eq_left, Option.map_eq_some_iff, newCoord_minus, newCoord_plus]
  constructor
  · rintro (⟨v, ⟨a, b, rfl⟩, rfl⟩ | ⟨v, ⟨a, rfl⟩, rfl⟩ | ⟨v, ⟨a, b, rfl⟩, rfl⟩ | ⟨v, ⟨a, rfl⟩, rfl⟩ |
      ⟨v, ⟨a, b, rfl⟩, rfl⟩ | ⟨v, ⟨a, rfl⟩, rfl⟩)
    · exact Or.inl ⟨a, b, rfl⟩
    · exact Or.inr (Or.inl ⟨a, rfl⟩)
    · exact Or.inr (Or.inr (Or.inl ⟨a, b, rfl⟩))
    · exact Or.inr (Or.inr (Or.inr (Or.inl ⟨a, rfl⟩)))
    · exact Or.inr (Or.inr (Or.inr (Or.inr (Or.inl ⟨a, b, rfl⟩))))
    · exact Or.inr (Or.inr (Or.inr (Or.inr (Or.inr ⟨a, rfl⟩))))
  · rintro (⟨a, b, rfl⟩ | ⟨a, rfl⟩ | ⟨a, b, rfl⟩ | ⟨a, rfl⟩ | ⟨a, b, rfl⟩ | ⟨a, rfl⟩)
    · exact Or.inl ⟨_, ⟨a, b, rfl⟩, rfl⟩
    · exact Or.inr (Or.inl ⟨_, ⟨a, rfl⟩, rfl⟩)
    · exact Or.inr (Or.inr (Or.inl ⟨_, ⟨a, b, rfl⟩, rfl⟩))
    · exact Or.inr (Or.inr (Or.inr (Or.inl ⟨_, ⟨a, rfl⟩, rfl⟩)))
    · exact Or.inr (Or.inr (Or.inr (Or.inr (Or.inl ⟨_, ⟨a, b, rfl⟩, rfl⟩))))
    · exact Or.inr (Or.inr (Or.inr (Or.inr (Or.inr ⟨_, ⟨a, rfl⟩, rfl⟩))))

theorem dist3_eq_one_iff (x y z x' y' z' : Nat) :
    dist3 (x, y, z) (x', y', z') = 1 ↔
      (1 ≤ x ∧ x' = x - 1 ∧ y' = y ∧ z' = z) ∨ (x' = x + 1 ∧ y' = y ∧ z' = z) ∨
      (1 ≤ y ∧ x' = x ∧ y' = y - 1 ∧ z' = z) ∨ (x' = x ∧ y' = y + 1 ∧ z' = z) ∨
      (1 ≤ z ∧ x' = x ∧ y' = y ∧ z' = z - 1) ∨ (x' = x ∧ y' = y ∧ z' = z + 1) := by
  unfold dist3
  simp only
  omega

theorem neighbors3_sound (w h d i j : Nat) (hw : 0 < w) (hh : 0 < h) (hi : i < w * h * d)
    (hj : j ∈ neighbors3 w h d i) :
    j < w * h * d ∧ dist3 (positionOf3 w h i) (positionOf3 w h j) = 1 := by
  obtain ⟨-, hx, hy, hz⟩ := index_position3 w h d i hw hh hi
  rw [mem_neighbors3] at hj
  generalize positionOf3 w h i = q at hx hy hz hj ⊢
  obtain ⟨x, y, z⟩ := q
  simp only at hx hy hz hj
  rcases hj with ⟨a, b, rfl⟩ | ⟨a, rfl⟩ | ⟨a, b, rfl⟩ | ⟨a, rfl⟩ | ⟨a, b, rfl⟩ | ⟨a, rfl⟩
  · obtain ⟨e, l⟩ := position_index3 w h d (x - 1) y z b hy hz
    exact ⟨l, by rw [e, dist3_eq_one_iff]; omega⟩
  · obtain ⟨e, l⟩ := position_index3 w h d (x + 1) y z a hy hz
    exact ⟨l, by rw [e, dist3_eq_one_iff]; omega⟩
  · obtain ⟨e, l⟩ := position_index3 w h d x (y - 1) z hx b hz
    exact ⟨l, by rw [e, dist3_eq_one_iff]; omega⟩
  · obtain ⟨e, l⟩ := position_index3 w h d x (y + 1) z hx a hz
    exact ⟨l, by rw [e, dist3_eq_one_iff]; omega⟩
  · obtain ⟨e, l⟩ := position_index3 w h d x y (z - 1) hx hy b
    exact ⟨l, by rw [e, dist3_eq_one_iff]; omega⟩
  · obtain ⟨e, l⟩ := position_index3 w h d x y (z + 1) hx hy a
    exact ⟨l, by rw [e, dist3_eq_one_iff]; omega⟩

theorem neighbors3_complete (w h d i j : Nat) (hw : 0 < w) (hh : 0 < h)
    (hi : i < w * h * d) (hj : j < w * h * d)
    (hd : dist3 (positionOf3 w h i) (positionOf3 w h j) = 1) : j ∈ neighbors3 w h d i := by
  obtain ⟨-, hx, hy, hz⟩ := index_position3 w h d i hw hh hi
  obtain ⟨ej, hx', hy', hz'⟩ := index_position3 w h d j hw hh hj
  rw [mem_neighbors3]
  generalize positionOf3 w h i = q at hx hy hz hd ⊢
  generalize positionOf3 w h j = q' at hx' hy' hz' hd ej
  obtain ⟨x, y, z⟩ := q
  obtain ⟨x', y', z'⟩ := q'
  simp only at hx hy hz hx' hy' hz' ⊢
  rw [dist3_eq_one_iff] at hd
  rcases hd with ⟨a, rfl, rfl, rfl⟩ | ⟨rfl, rfl, rfl⟩ | ⟨a, rfl, rfl, rfl⟩ | ⟨rfl, rfl, rfl⟩ |
    ⟨a, rfl, rfl, rfl⟩ | ⟨rfl, rfl, rfl⟩
  · exact Or.inl ⟨a, hx', ej.symm⟩
  · exact Or.inr (Or.inl ⟨hx', ej.symm⟩)
  · exact Or.inr (Or.inr (Or.inl ⟨a, hy', ej.symm⟩))
  · exact Or.inr (Or.inr (Or.inr (Or.inl ⟨hy', ej.symm⟩)))
  · exact Or.inr (Or.inr (Or.inr (Or.inr (Or.inl ⟨a, hz', ej.symm⟩))))
  · exact Or.inr (Or.inr (Or.inr (Or.inr (Or.inr ⟨hz', ej.symm⟩))))

theorem dist3_comm (a b : Nat × Nat × Nat) : dist3 a b = dist3 b a := by
  unfold dist3; omega

/-! ## no cell is yielded twice -/

theorem indexOf2_eq_iff (w x y x' y' : Nat) (hx : x < w) (hx' : x' < w) :
    indexOf2 w (x, y) = indexOf2 w (x', y') ↔ (x = x' ∧ y = y') := by
  constructor
  · intro h
    have h1 := (position_index2 w (y + 1) x y hx (by omega)).1
    have h2 := (position_index2 w (y' + 1) x' y' hx' (by omega)).1
    rw [h, h2] at h1
    simpa [eq_comm] using h1
  · rintro ⟨rfl, rfl⟩; rfl

theorem neighbors2_nodup (w h i : Nat) (hw : 0 < w) (hi : i < w * h) :
    (neighbors2 w h i).Nodup := by
  obtain ⟨-, hx, hy⟩ := index_position2 w h i hw hi
  unfold neighbors2
  generalize positionOf2 w i = q at hx hy ⊢
  obtain ⟨x, y⟩ := q
  simp only at hx hy ⊢
  cases hA : newCoord x w false <;> cases hB : newCoord x w true <;>
    cases hC : newCoord y h false <;> cases hD : newCoord y h true <;>
    (try simp only [newCoord_minus, newCoord_plus] at hA hB hC hD) <;>
    simp (disch := omega) [indexOf2_eq_iff, List.filterMap_cons, List.filterMap_nil] <;> omega

theorem indexOf3_eq_iff (w h x y z x' y' z' : Nat) (hx : x < w) (hx' : x' < w) (hy : y < h) (hy' : y' < h) :
    indexOf3 w h (x, y, z) = indexOf3 w h (x', y', z') ↔ (x = x' ∧ y = y' ∧ z = z') := by
  constructor
  · intro e
    have h1 := (position_index3 w h (z + 1) x y z hx hy (by omega)).1
    have h2 := (position_index3 w h (z' + 1) x' y' z' hx' hy' (by omega)).1
    rw [e, h2] at h1
    simpa [eq_comm] using h1
  · rintro ⟨rfl, rfl, rfl⟩; rfl

theorem neighbors3_nodup (w h d i : Nat) (hw : 0 < w) (hh : 0 < h) (hi : i < w * h * d) :
    (neighbors3 w h d i).Nodup := by
  obtain ⟨-, hx, hy, hz⟩ := index_position3 w h d i hw hh hi
  unfold neighbors3
  generalize positionOf3 w h i = q at hx hy hz ⊢
  obtain ⟨x, y, z⟩ := q
  simp only at hx hy hz ⊢
  cases hA : newCoord x w false <;> cases hB : newCoord x w true <;>
    cases hC : newCoord y h false <;> cases hD : newCoord y h true <;>
    cases hE : newCoord z d false <;> cases hF : newCoord z d true <;>
    (try simp only [newCoord_minus, newCoord_plus] at hA hB hC hD hE hF) <;>
    simp (disch := omega) [indexOf3_eq_iff, List.filterMap_cons, List.filterMap_nil] <;> omega

/-! ## the CSR lattice with the same neighbours -/

theorem latticeRows_perm (t : Topo) (v : Nat) : (latticeRows t v).Perm (t.nbrs v) :=
  List.mergeSort_perm _ _

theorem latticeRows_sorted (t : Topo) (v : Nat) :
    (latticeRows t v).Pairwise (fun a b => a.1 ≤ b.1) := by
  have := List.pairwise_mergeSort (le := fun a b : Nat × Int => decide (a.1 ≤ b.1))
    (fun a b c h1 h2 => by simp only [decide_eq_true_eq] at *; omega)
    (fun a b => by simp only [Bool.or_eq_true, decide_eq_true_eq]; omega) (t.nbrs v)
  simpa [latticeRows] using this

/-- Edge cut: the specialised code on the sorted lattice rows = the default
method on the topology's own iterator. -/
theorem lattice_edgeCut (t : Topo) (p : List Nat) :
    edgeCutSprsRows t.len (latticeRows t) p = edgeCutTopo t p := by
  rw [edgeCutSprsRows_eq_topo ⟨t.len, latticeRows t⟩ p (fun v _ => latticeRows_sorted t v)]
  exact edgeCutTopo_perm t.len _ _ p (fun v _ => latticeRows_perm t v)

theorem lattice_lambda (t : Topo) (p : List Nat) (ws : List Int) :
    lambdaRows t.len (fun v => (latticeRows t v).map (·.1)) p ws = lambdaTopo t p ws := by
  unfold lambdaTopo
  exact lambdaRows_congr t.len _ _ p ws
    (fun v _ => lambdaRow_perm p v ((latticeRows_perm t v).map _))

end Coupe.Grid
