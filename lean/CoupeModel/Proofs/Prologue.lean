import CoupeModel.Model.Prologue

/-!
# Lemmas about the prologue interpreter (`Model/Prologue.lean`)

Simp lemmas that turn `eval <concrete guard list>` into a nested `if`, the
characterisation of `maxId`, the side conditions under which no panic site of a
prologue is reachable (`PanicFree`), and the tactic that does the case analysis
of a decision list.
-/

namespace Coupe.Prologue
open Coupe.Gen.Errors

@[simp] theorem bind_stop (r : Result) (k : Nat → Result) : (Step.stop r).bind k = r := rfl
@[simp] theorem bind_next (n : Nat) (k : Nat → Result) : (Step.next n).bind k = k n := rfl
@[simp] theorem bind_ite (c : Prop) [Decidable c] (a b : Step) (k : Nat → Result) :
    (if c then a else b).bind k = if c then a.bind k else b.bind k := by split <;> rfl

/-- `maxId` is the maximum: it exceeds `k` iff some entry does. -/
theorem maxId_lt_iff (p : List Nat) (k : Nat) : k < maxId p ↔ ∃ x ∈ p, k < x := by
  induction p with
  | nil => simp [maxId]
  | cons a t ih =>
    simp only [maxId, List.mem_cons, exists_eq_or_imp, ← ih]
    omega

theorem maxId_nil_of_length (p : List Nat) (h : p.length = 0) : maxId p = 0 := by
  have : p = [] := List.length_eq_zero_iff.mp h
  subst this
  rfl

theorem any_neg_of_getElem (ws : List Int) (k : Nat) (hk : k < ws.length) (h : ws[k] < 0) :
    ws.any (fun w => decide (w < 0)) = true :=
  List.any_eq_true.2 ⟨ws[k], List.getElem_mem hk, by simpa using h⟩

/-- The prologue left with an error of either enum or at a panic site. -/
def Outcome.isFailure : Outcome → Bool
  | .err _ | .invalidOrder _ _ | .panic _ => true
  | _ => false

/-- No guard of the vocabulary writes before it fails. -/
theorem step_failure_untouched (g : Guard) (i : Input) (np : Nat) (r : Result)
    (h : step g i np = .stop r) (hf : r.out.isFailure = true) : r.eff = .none := by
  cases g <;> simp only [step] at h <;> (repeat' split at h) <;>
    first
    | (cases h; done)
    | (cases h; first | rfl | (simp [Outcome.isFailure] at hf))

/-- … hence no guard list does, in whatever order: a failure of the prologue
leaves the array untouched. -/
theorem eval_failure_untouched (gs : List Guard) (i : Input) (np : Nat)
    (hf : (eval gs i np).out.isFailure = true) : (eval gs i np).eff = .none := by
  induction gs generalizing np with
  | nil => rfl
  | cons g gs ih =>
    simp only [eval] at hf ⊢
    cases hs : step g i np with
    | stop r =>
      rw [hs] at hf
      simp only [bind_stop] at hf ⊢
      exact step_failure_untouched g i np r hs hf
    | next np' =>
      rw [hs] at hf
      simp only [bind_next] at hf ⊢
      exact ih np' hf

/-- Side condition under which no panic site of the prologue of `a` is
reachable.  `True` for Rcb, Greedy, KarmarkarKarp and FiducciaMattheyses; the
others are the observations listed in `Props/C20.lean` (each excluded input
does panic: `*_panics` there); none of them is a violation the property lists. -/
def PanicFree (a : Algo) (i : Input) : Prop :=
  match a with
  | .rcb | .greedy | .kk | .fm => True
  -- float linear algebra of the oriented bounding box is outside the model; it is only reached
  -- with matching lengths (Rib validates them first)
  | .rib => i.obbOk = true ∨ i.weights.length ≠ i.parts.length ∨ i.points ≠ i.parts.length
  -- `T::from_f64(sum * tolerance).unwrap()`; only reached with matching non-empty input
  | .ckk => i.tolOk = true ∨ i.weights.length ≠ i.parts.length ∨ i.weights.length = 0
  -- `part_count` saturates at `usize::MAX`: with an id of `usize::MAX` and valid lengths
  -- `compute_parts_load`'s `debug_assert!(max < num_parts)` fails
  | .vnBest | .vnFirst => maxId i.parts < usizeMax ∨ i.weights.length ≠ i.parts.length
  -- `1 + max` is evaluated after the length checks and the empty shortcut
  | .arcSwap => maxId i.parts < usizeMax ∨ i.weights.length ≠ i.parts.length ∨ i.graph ≠ i.parts.length
  -- `index_fn_2d(points, ..)` unwraps the bounding box of the points: HilbertCurve validates no length
  | .hilbert2d => i.points ≠ 0 ∨ i.parts.length = 0 ∨ hilbertMaxOrder2d < i.order
  | .hilbert3d => i.points ≠ 0 ∨ i.parts.length = 0 ∨ hilbertMaxOrder3d < i.order

/-- Unfold `run` on a concrete guard list into a nested `if`. -/
macro "prologue_unfold" : tactic =>
  `(tactic| simp only [run, guards, rcbGuards, ribGuards, greedyGuards, kkGuards, ckkGuards, vnBestGuards,
      vnFirstGuards, fmGuards, arcSwapGuards, hilbert2dGuards, hilbert3dGuards, eval, step, bind_ite,
      bind_stop, bind_next, Bool.false_eq_true, ↓reduceIte])

/-- Case analysis of the nested `if`, closing every branch by simplification
with the hypotheses and linear arithmetic. -/
macro "prologue_cases" : tactic =>
  `(tactic| (repeat' split) <;> first | done | (simp_all; done) | (simp_all; omega) | omega)

end Coupe.Prologue
